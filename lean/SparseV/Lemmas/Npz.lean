/-
  SparseV.Lemmas.Npz — helper lemmas for property C14 (core Lean only).
-/
import SparseV.Model.Npz
import SparseV.Lemmas.Gen.Ctor
namespace SparseV.Npz
variable {α : Type}

/-! ### constructors on well-formed arguments -/

theorem replicate_of_all_nil : ∀ (l : List (List Int)) (n : Nat), l.length = n → (∀ r ∈ l, r.length = 0) →
    l = List.replicate n []
  | [], n, h, _ => by subst h; rfl
  | r :: rest, n, h, hall => by
    subst h
    have hr : r = [] := List.length_eq_zero_iff.mp (hall r (by simp))
    have := replicate_of_all_nil rest rest.length rfl (fun q hq => hall q (by simp [hq]))
    simp [List.replicate_succ, hr, ← this]

theorem fixCoords_wf (s : List Int) (c : Mat) (hs : s ≠ []) (hc : c.WF) (hn : c.nrows = s.length) :
    fixCoords s c = c := by
  unfold fixCoords
  split
  · rename_i h
    have hpos : 0 < s.length := List.length_pos_iff.mpr hs
    have h0 : c.ncols = 0 := by
      rcases Nat.mul_eq_zero.mp h.2 with h1 | h1
      · omega
      · exact h1
    obtain ⟨hl, hr⟩ := hc
    have := replicate_of_all_nil c.rows c.nrows hl (fun r hr' => by rw [hr r hr', h0])
    cases c with
    | mk nr nc rows =>
      simp only [Mat.empty] at *
      subst h0
      subst this
      simp [hn]
  · rfl

theorem mat_empty_wf (n : Nat) : (Mat.empty n).WF := by
  simp [Mat.WF, Mat.empty]

theorem fixCoords_preserves_wf (s : List Int) (c : Mat) (hc : c.WF) : (fixCoords s c).WF := by
  unfold fixCoords
  split
  · exact mat_empty_wf _
  · exact hc

/-! ### the generated constructor checks (tools/targets.d/C14.py), characterised: `SparseV/Lemmas/Gen/Ctor.lean`
(`all_shapeEltOk_iff`, `all_gcxsShapeEltOk_iff`, `cooCtorChecks_ok_iff`, `cooCtorChecks_cases`, `gcxsCtorChecks_ok_iff`,
`gcxsCtorChecks_cases`, `gcxsCtorChecksHead_ok_iff`, `gcxsCtorChecksHead_cases`) — the only place where they are unfolded. -/

/-! ### the list primitives the generated checks are fed with -/

theorem le_listMin_iff (c : Int) : ∀ (i : List Int), i ≠ [] → (c ≤ listMin i ↔ ∀ x ∈ i, c ≤ x)
  | [], h => absurd rfl h
  | [a], _ => by simp [listMin]
  | a :: b :: rest, _ => by
    have ih := le_listMin_iff c (b :: rest) (by simp)
    rw [listMin, Int.le_min, ih]
    · simp
    · simp

theorem listMax_lt_iff (c : Int) : ∀ (i : List Int), i ≠ [] → (listMax i < c ↔ ∀ x ∈ i, x < c)
  | [], h => absurd rfl h
  | [a], _ => by simp [listMax]
  | a :: b :: rest, _ => by
    have ih := listMax_lt_iff c (b :: rest) (by simp)
    rw [listMax, Int.max_lt, ih]
    · simp
    · simp

/-- the guarded range test on the least and greatest index says that every index is in range -/
theorem minmax_inRange (i : List Int) (n : Int) :
    ((i.length : Int) ≠ 0 → 0 ≤ listMin i ∧ listMax i < n) ↔ InRange i n := by
  unfold InRange
  cases i with
  | nil => simp
  | cons a as =>
    have hne : (a :: as) ≠ [] := by simp
    have hl : ((a :: as).length : Int) ≠ 0 := by simp; omega
    rw [le_listMin_iff 0 _ hne, listMax_lt_iff n _ hne]
    constructor
    · intro h x hx; exact ⟨(h hl).1 x hx, (h hl).2 x hx⟩
    · intro h _; exact ⟨fun x hx => (h x hx).1, fun x hx => (h x hx).2⟩

/-- `np.any(indptr[1:] < indptr[:-1])` is false iff the list is sorted (non-decreasing) -/
theorem ptrDecreases_false_iff : ∀ (p : List Int), ptrDecreases p = false ↔ p.Pairwise (· ≤ ·)
  | [] => by simp [ptrDecreases]
  | [a] => by simp [ptrDecreases]
  | a :: b :: rest => by
    have ih := ptrDecreases_false_iff (b :: rest)
    rw [ptrDecreases, Bool.or_eq_false_iff, ih, List.pairwise_cons (l := b :: rest)]
    constructor
    · rintro ⟨hab, hp⟩
      have hab' : a ≤ b := by simpa using hab
      refine ⟨fun x hx => ?_, hp⟩
      rcases List.mem_cons.mp hx with rfl | hx
      · exact hab'
      · exact Int.le_trans hab' ((List.pairwise_cons.mp hp).1 x hx)
    · rintro ⟨hall, hp⟩
      exact ⟨by simpa using hall b (by simp), hp⟩

/-! ### the two constructors -/

/-- `COO(...)` on the load path returns an array iff the checks pass, and then it is the array made of the
arguments (coords up to the `(ndim, 0)` normalisation of an empty array) -/
theorem cooCtor_ok_iff (c : Mat) (d : List α) (s : List Int) (f : α) (y : Arr α) :
    cooCtor c d s f = .ok y ↔
      (∀ e ∈ s, 0 ≤ e) ∧ d.length = (fixCoords s c).ncols ∧ s.length = (fixCoords s c).nrows
        ∧ y = .coo s (fixCoords s c) d f := by
  unfold cooCtor
  dsimp only
  by_cases hs : s.all Gen.shapeEltOk = true
  · have hs' := (all_shapeEltOk_iff s).mp hs
    cases hc : Gen.cooCtorChecks 2 d.length (fixCoords s c).ncols s.length (fixCoords s c).nrows with
    | error e =>
      have hn : ¬ (((d.length : Int) = (fixCoords s c).ncols) ∧ ((s.length : Int) = (fixCoords s c).nrows)) := by
        intro hh
        rw [(cooCtorChecks_ok_iff _ _ _ _).mpr hh] at hc
        exact absurd hc (by simp)
      simp only [hs, not_true_eq_false, if_false]
      constructor
      · intro h; exact absurd h (by simp)
      · rintro ⟨_, h1, h2, _⟩
        exact absurd ⟨by exact_mod_cast h1, by exact_mod_cast h2⟩ hn
    | ok u =>
      obtain ⟨h1, h2⟩ := (cooCtorChecks_ok_iff _ _ _ _).mp hc
      simp only [hs, not_true_eq_false, if_false, Except.ok.injEq]
      constructor
      · intro h; exact ⟨hs', by exact_mod_cast h1, by exact_mod_cast h2, h.symm⟩
      · rintro ⟨_, _, _, h⟩; exact h.symm
  · have hs' : ¬ ∀ e ∈ s, 0 ≤ e := fun h => hs ((all_shapeEltOk_iff s).mpr h)
    simp only [hs]
    constructor
    · intro h; exact absurd h (by simp)
    · rintro ⟨h, _⟩; exact absurd h hs'

theorem cooCtor_wf (axesOk : List Int → Bool) (s : List Int) (c : Mat) (d : List α) (f : α)
    (hwf : (Arr.coo s c d f).WF axesOk) : cooCtor c d s f = .ok (Arr.coo s c d f) := by
  obtain ⟨hnn, hc, hn, hd⟩ := hwf
  have hfix : fixCoords s c = c := by
    by_cases hs : s = []
    · subst hs; simp [fixCoords]
    · exact fixCoords_wf s c hs hc hn
  exact (cooCtor_ok_iff c d s f _).mpr ⟨hnn, by rw [hfix]; exact hd, by rw [hfix]; exact hn.symm, by rw [hfix]⟩

theorem rowsOf_nonneg (s : List Int) (hs : ∀ e ∈ s, 0 ≤ e) : ∀ l : List Int, 0 ≤ rowsOf s l
  | [] => by simp [rowsOf]
  | a :: as => by
    unfold rowsOf
    apply Int.mul_nonneg _ (rowsOf_nonneg s hs as)
    rw [List.getD_eq_getElem?_getD]
    cases h : s[a.toNat]? with
    | none => simp
    | some v => exact hs v (List.mem_of_getElem? h)

/-- the consistency checks of `GCXS.__init__` pass iff the extents are non-negative and the triple has the
structure `GcxsStruct`; they never say anything else -/
theorem gcxsChecks_ok_iff (d : List α) (i p : List Int) (ca : Option (List Int)) (s : List Int) :
    gcxsChecks d i p ca s = .ok () ↔ (∀ e ∈ s, 0 ≤ e) ∧ GcxsStruct s d i p ca := by
  have hlen : s ≠ [] ↔ 1 ≤ (s.length : Int) := by
    cases s <;> simp <;> omega
  have h1len : s.length = 1 ↔ (s.length : Int) = 1 := by omega
  have h2len : 2 ≤ s.length ↔ 2 ≤ (s.length : Int) := by omega
  unfold gcxsChecks GcxsStruct
  dsimp only
  cases ca with
  | some l =>
    rw [gcxsCtorChecks_ok_iff, all_gcxsShapeEltOk_iff, hlen, h1len, h2len, minmax_inRange, minmax_inRange,
      ptrDecreases_false_iff]
    constructor
    · rintro ⟨h1, h2, h3, h4⟩
      refine ⟨h1, fun h => by exact_mod_cast h2 h, h4, fun h => ?_⟩
      obtain ⟨a, b, c, hd, he⟩ := h3 h
      have hp : p ≠ [] := by
        intro hp
        subst hp
        have := rowsOf_nonneg s h1 l
        simp at a
        omega
      refine ⟨l, rfl, a, ?_, ?_, hd, he⟩
      · cases p with
        | nil => exact absurd rfl hp
        | cons x xs => simpa using b
      · rw [List.getLastD_eq_getLast?] at c
        cases hq : p.getLast? with
        | none => exact absurd (List.getLast?_eq_none_iff.mp hq) hp
        | some v => rw [hq] at c; simpa using c
    · rintro ⟨h1, h2, h4, h3⟩
      refine ⟨h1, fun h => by exact_mod_cast h2 h, fun h => ?_, h4⟩
      obtain ⟨l', hl, a, b, c, hd, he⟩ := h3 h
      simp only [Option.some.injEq] at hl
      subst hl
      refine ⟨a, ?_, ?_, hd, he⟩
      · rw [List.headD_eq_head?_getD, b]; rfl
      · rw [List.getLastD_eq_getLast?, c]; rfl
  | none =>
    by_cases h2d : 2 ≤ s.length
    · rw [if_pos h2d]
      constructor
      · intro h
        rcases gcxsCtorChecksHead_cases 1 (s.all Gen.gcxsShapeEltOk) s.length d.length i.length with hc | hc <;>
          rw [hc] at h <;> exact absurd h (by simp)
      · rintro ⟨_, _, _, h3⟩
        obtain ⟨l, hl, _⟩ := h3 (h2len.mpr (h2len.mp h2d))
        exact absurd hl (by simp)
    · rw [if_neg h2d, gcxsCtorChecks_ok_iff, all_gcxsShapeEltOk_iff, hlen, h1len, minmax_inRange i (s.headD 0)]
      constructor
      · rintro ⟨h1, h2, _, h4⟩
        exact ⟨h1, fun h => by exact_mod_cast h2 h, h4, fun h => absurd h h2d⟩
      · rintro ⟨h1, h2, h4, _⟩
        exact ⟨h1, fun h => by exact_mod_cast h2 h, fun h => absurd (h2len.mpr h) h2d, h4⟩

theorem gcxsChecks_err (d : List α) (i p : List Int) (ca : Option (List Int)) (s : List Int) (e : Err)
    (h : gcxsChecks d i p ca s = .error e) : e = .value ∨ (e = .type ∧ ca = none ∧ 2 ≤ s.length) := by
  cases ca with
  | some l =>
    unfold gcxsChecks at h
    dsimp only at h
    rcases gcxsCtorChecks_cases 1 1 (s.all Gen.gcxsShapeEltOk) (ptrDecreases p) s.length (s.headD 0) d.length i.length p.length
      (rowsOf s l) (colsOf s l) (p.headD 0) (p.getLastD 0) (listMin i) (listMax i) with hc | hc
    · rw [hc] at h; exact absurd h (by simp)
    · rw [hc] at h; simp only [Except.error.injEq] at h; exact Or.inl h.symm
  | none =>
    unfold gcxsChecks at h
    dsimp only at h
    by_cases h2 : 2 ≤ s.length
    · rw [if_pos h2] at h
      rcases gcxsCtorChecksHead_cases 1 (s.all Gen.gcxsShapeEltOk) s.length d.length i.length with hc | hc
      · rw [hc] at h; simp only [Except.error.injEq] at h; exact Or.inr ⟨h.symm, rfl, h2⟩
      · rw [hc] at h; simp only [Except.error.injEq] at h; exact Or.inl h.symm
    · rw [if_neg h2] at h
      rcases gcxsCtorChecks_cases 1 1 (s.all Gen.gcxsShapeEltOk) false s.length (s.headD 0) d.length i.length 0 0 0 0 0
        (listMin i) (listMax i) with hc | hc
      · rw [hc] at h; exact absurd h (by simp)
      · rw [hc] at h; simp only [Except.error.injEq] at h; exact Or.inl h.symm

/-- `check_compressed_axes` passes iff the axes are `None` or a non-empty, admissible list of in-range axes
that does not name every dimension -/
theorem checkAxes_ok_iff (axesOk : List Int → Bool) (n : Nat) (ca : Option (List Int)) :
    checkAxes axesOk n ca = .ok () ↔
      match ca with
      | none => True
      | some l => l ≠ [] ∧ l.length ≠ n ∧ axesOk l = true ∧ ∀ a ∈ l, 0 ≤ a ∧ a < (n : Int) := by
  cases ca with
  | none => simp [checkAxes]
  | some l =>
    unfold checkAxes
    by_cases h1 : l.length = n
    · simp [h1]
    · by_cases h2 : axesOk l = true
      · by_cases h3 : l = []
        · simp [h3]
        · by_cases h4 : (l.all fun a => decide (0 ≤ a ∧ a < (n : Int))) = true
          · have h4' : ∀ a ∈ l, 0 ≤ a ∧ a < (n : Int) := by simpa [List.all_eq_true] using h4
            simp only [h1, h2, h3, h4, not_true_eq_false, if_false, true_iff]
            exact ⟨h3, h1, trivial, h4'⟩
          · have h4' : ¬ ∀ a ∈ l, 0 ≤ a ∧ a < (n : Int) := by
              intro hh; apply h4; simpa [List.all_eq_true] using hh
            simp only [h1, h2, h3, h4, not_true_eq_false, if_false]
            constructor
            · intro h; exact absurd h (by simp)
            · rintro ⟨_, _, _, hh⟩; exact absurd hh h4'
      · simp [h1, h2]

/-- `GCXS(...)` on the load path returns an array iff `check_compressed_axes` and the consistency checks pass, and
then it is the array made of the arguments (axes up to the `None` for one dimension) -/
theorem gcxsCtor_ok_iff (axesOk : List Int → Bool) (d : List α) (i p : List Int) (ca : Option (List Int))
    (s : List Int) (f : α) (y : Arr α) :
    gcxsCtor axesOk d i p ca s f = .ok y ↔
      checkAxes axesOk s.length ca = .ok () ∧ (∀ e ∈ s, 0 ≤ e) ∧ GcxsStruct s d i p (normAxes s ca)
        ∧ y = .gcxs true s d i p (normAxes s ca) f := by
  unfold gcxsCtor
  cases h1 : checkAxes axesOk s.length ca with
  | error e => simp
  | ok u =>
    cases h2 : gcxsChecks d i p (normAxes s ca) s with
    | error e =>
      have := mt (gcxsChecks_ok_iff d i p (normAxes s ca) s).mpr (by rw [h2]; simp)
      simp only [true_and]
      constructor
      · intro h; exact absurd h (by simp)
      · rintro ⟨a, b, _⟩; exact absurd ⟨a, b⟩ this
    | ok u' =>
      obtain ⟨a, b⟩ := (gcxsChecks_ok_iff d i p (normAxes s ca) s).mp h2
      simp only [Except.ok.injEq, true_and]
      constructor
      · intro h; exact ⟨a, b, h.symm⟩
      · rintro ⟨_, _, h⟩; exact h.symm

/-- admissible compressed axes exist only for two dimensions and up -/
theorem wf_axes_two_dims {s l : List Int} (hl0 : l ≠ []) (hl2 : s.length ≠ 1)
    (hl4 : ∀ a ∈ l, 0 ≤ a ∧ a < (s.length : Int)) : 2 ≤ s.length := by
  cases l with
  | nil => exact absurd rfl hl0
  | cons a t =>
    have h := hl4 a (List.mem_cons_self ..)
    have h1 : (0 : Int) < s.length := Int.lt_of_le_of_lt h.1 h.2
    omega

/-- a well-formed GCXS array is accepted by the constructor, from the axes `load_npz` decodes -/
theorem gcxsCtor_wf (axesOk : List Int → Bool) (e : Bool) (s : List Int) (d : List α) (i p : List Int)
    (ca ca0 : Option (List Int)) (f : α) (hwf : (Arr.gcxs e s d i p ca f).WF axesOk)
    (hca : ca0 = ca ∨ (ca = none ∧ s.length = 1)) (hcheck : ca = none → checkAxes axesOk s.length ca0 = .ok ()) :
    gcxsCtor axesOk d i p ca0 s f = .ok (Arr.gcxs true s d i p ca f) := by
  obtain ⟨hnn, hst, hax⟩ := hwf
  have hnorm : normAxes s ca0 = ca := by
    rcases hca with h | ⟨h1, h2⟩
    · subst h
      cases ca0 with
      | none => simp [normAxes]
      | some l => simp only [normAxes]; simp [hax.2.2.1]
    · simp [normAxes, h1, h2]
  refine (gcxsCtor_ok_iff axesOk d i p ca0 s f _).mpr ⟨?_, hnn, by rw [hnorm]; exact hst, by rw [hnorm]⟩
  cases ca with
  | none => exact hcheck rfl
  | some l =>
    rcases hca with h | ⟨h1, _⟩
    · subst h
      exact (checkAxes_ok_iff axesOk s.length (some l)).mpr ⟨hax.1, hax.2.1, hax.2.2.2.1, hax.2.2.2.2⟩
    · exact absurd h1 (by simp)

/-! ### fetchAll -/

theorem fetchAll_ok_lookup {m : Members α} : ∀ {req : List String} {f : Members α},
    fetchAll m req = .ok f →
    (∀ k ∈ req, ∃ p, lookup m k = some p ∧ p ≠ .object) ∧ (∀ k p, lookup f k = some p → lookup m k = some p)
  | [], f, h => by
    simp only [fetchAll, Except.ok.injEq] at h
    subst h
    simp [lookup]
  | k :: ks, f, h => by
    unfold fetchAll at h
    split at h
    · exact absurd h (by simp)
    · exact absurd h (by simp)
    · rename_i p hno hp
      split at h
      · rename_i r hr
        simp only [Except.ok.injEq] at h
        subst h
        obtain ⟨ih1, ih2⟩ := fetchAll_ok_lookup hr
        refine ⟨?_, ?_⟩
        · intro k' hk'
          rcases List.mem_cons.mp hk' with rfl | hk'
          · exact ⟨p, hp, hno⟩
          · exact ih1 k' hk'
        · intro k' p' hl
          unfold lookup at hl
          split at hl
          · rename_i heq
            subst heq
            simp only [Option.some.injEq] at hl
            subst hl
            exact hp
          · exact ih2 k' p' hl
      · exact absurd h (by simp)

theorem fetchAll_sub {m m' : Members α} : ∀ {req : List String} {f : Members α},
    (∀ k ∈ req, lookup m' k = none ∨ lookup m' k = lookup m k) → fetchAll m' req = .ok f → fetchAll m req = .ok f
  | [], f, _, h => by simpa [fetchAll] using h
  | k :: ks, f, hsub, h => by
    unfold fetchAll at h
    split at h
    · exact absurd h (by simp)
    · exact absurd h (by simp)
    · rename_i p hno hp
      split at h
      · rename_i r hr
        have hk : lookup m k = some p := by
          rcases hsub k (by simp) with h0 | h0
          · rw [hp] at h0; exact absurd h0 (by simp)
          · rw [← h0, hp]
        have ih := fetchAll_sub (fun k' hk' => hsub k' (by simp [hk'])) hr
        unfold fetchAll
        simp only [hk, ih]
        exact h
      · exact absurd h (by simp)

theorem loadFrom_ok_branch {axesOk : List Int → Bool} {m : Members α} {y : Arr α} :
    ∀ {brs : List (String × List String)}, loadFrom axesOk m brs = .ok y →
    ∃ b ∈ brs, ∃ f, fetchAll m b.2 = .ok f ∧ construct axesOk b.1 f = .ok y
  | [], h => by simp [loadFrom] at h
  | (cls, req) :: rest, h => by
    unfold loadFrom at h
    split at h
    · rename_i f hf
      exact ⟨(cls, req), by simp, f, hf, h⟩
    · obtain ⟨b, hb, f, hf, hc⟩ := loadFrom_ok_branch h
      exact ⟨b, by simp [hb], f, hf, hc⟩
    · exact absurd h (by simp)

/-- what a `return Class(...)` that succeeded was given -/
theorem construct_ok {axesOk : List Int → Bool} {cls : String} {f : Members α} {y : Arr α}
    (h : construct axesOk cls f = .ok y) :
    (cls = "COO" ∧ ∃ c d s v, lookup f "coords" = some (.mat c) ∧ lookup f "data" = some (.vals d)
        ∧ lookup f "shape" = some (.ints s) ∧ lookup f "fill_value" = some (.val v) ∧ cooCtor c d s v = .ok y)
    ∨ (cls = "GCXS" ∧ ∃ d i p ca s v, lookup f "data" = some (.vals d) ∧ lookup f "indices" = some (.ints i)
        ∧ lookup f "indptr" = some (.ints p) ∧ lookup f "compressed_axes" = some (.ints ca)
        ∧ lookup f "shape" = some (.ints s) ∧ lookup f "fill_value" = some (.val v)
        ∧ gcxsCtor axesOk d i p (decodeAxes ca) s v = .ok y) := by
  unfold construct at h
  split at h
  · rename_i hcls
    split at h
    · rename_i c d s v h1 h2 h3 h4
      exact Or.inl ⟨hcls, c, d, s, v, h1, h2, h3, h4, h⟩
    · exact absurd h (by simp)
  · split at h
    · rename_i hcls
      split at h
      · rename_i d i p ca s v h1 h2 h3 h4 h5 h6
        exact Or.inr ⟨hcls, d, i, p, ca, s, v, h1, h2, h3, h4, h5, h6, h⟩
      · exact absurd h (by simp)
    · exact absurd h (by simp)

/-- a member map that agrees with `m` wherever it has one of the names `load_npz` asks for loads the same
array as `m` or nothing, provided `m` is decisive -/
theorem loadFrom_sub {axesOk : List Int → Bool} {m m' : Members α} {y : Arr α} :
    ∀ {brs : List (String × List String)}, Decisive m brs →
    (∀ k ∈ brs.flatMap (·.2), lookup m' k = none ∨ lookup m' k = lookup m k) →
    loadFrom axesOk m' brs = .ok y → loadFrom axesOk m brs = .ok y
  | [], _, _, h => by simp [loadFrom] at h
  | (cls, req) :: rest, hdec, hsub, h => by
    obtain ⟨hd1, hd2⟩ := hdec
    have hsub1 : ∀ k ∈ req, lookup m' k = none ∨ lookup m' k = lookup m k :=
      fun k hk => hsub k (by simp [List.flatMap_cons, hk])
    have hsub2 : ∀ k ∈ rest.flatMap (·.2), lookup m' k = none ∨ lookup m' k = lookup m k :=
      fun k hk => hsub k (by simp only [List.flatMap_cons, List.mem_append]; exact Or.inr hk)
    unfold loadFrom at h
    split at h
    · rename_i f hf
      unfold loadFrom
      simp only [fetchAll_sub hsub1 hf]
      exact h
    · have ih := loadFrom_sub hd2 hsub2 h
      obtain ⟨b, hb, f, hf, _⟩ := loadFrom_ok_branch h
      have hpres : ∀ k ∈ b.2, lookup m k ≠ none := by
        intro k hk
        obtain ⟨p, hp, _⟩ := (fetchAll_ok_lookup hf).1 k hk
        rcases hsub2 k (List.mem_flatMap.mpr ⟨b, hb, hk⟩) with h0 | h0
        · rw [hp] at h0; exact absurd h0 (by simp)
        · rw [← h0, hp]; simp
      have hkey := hd1 ⟨b, hb, hpres⟩
      unfold loadFrom
      simp only [hkey]
      exact ih
    · exact absurd h (by simp)

/-! ### integer widths -/

theorem wrap_of_fits (t : IntTy) (v : Int) (h : t.fits v) : t.wrap v = v := by
  unfold IntTy.fits at h
  unfold IntTy.wrap
  split
  · rename_i hs
    simp only [hs, if_true] at h
    have : (v + t.half) % (2 * t.half) = v + t.half := Int.emod_eq_of_lt (by omega) (by omega)
    omega
  · rename_i hs
    simp only [hs] at h
    exact Int.emod_eq_of_lt h.1 h.2

theorem nativeShape_of_fits (t : IntTy) (s : List Int) (h : ∀ e ∈ s, t.fits e) : nativeShape t s = s := by
  unfold nativeShape
  split
  · calc s.map t.wrap = s.map id := List.map_congr_left (fun e he => wrap_of_fits t e (h e he))
      _ = s := List.map_id s
  · rfl

/-! ### facts about the generated tables

Nothing below looks at the ORDER in which a generated table lists its entries.  What the tables contribute is a
handful of closed, decidable facts (`WritesExactly …`, checked by `decide` over the whole generated table); from
those, what `save_npz` writes is known through `lookup` — it agrees with a fixed, hand-ordered member list
(`canonMembers` / `commonMembers`) on every name `load_npz` can ask for — and `load`, `Decisive` are transported
along that agreement (`loadFrom_congr`, `decisive_congr`). -/

/-- the attribute a (member, attribute) list assigns to a member (first occurrence, as `lookup`) -/
def attrOf : List (String × String) → String → Option String
  | [], _ => none
  | (k, a) :: rest, q => if k = q then some a else attrOf rest q

/-- the members `collect` gathers, seen through `lookup`: member `q` holds the attribute the list names for it -/
theorem collect_lookup (x : Arr α) : ∀ {ps : List (String × String)} {m : Members α}, collect x ps = .ok m →
    ∀ q, lookup m q = (attrOf ps q).bind x.attr
  | [], m, h, q => by
    simp only [collect, Except.ok.injEq] at h
    subst h
    simp [lookup, attrOf]
  | (k, a) :: rest, m, h, q => by
    unfold collect at h
    split at h
    · exact absurd h (by simp)
    · rename_i p hp
      split at h
      · rename_i m' hm'
        simp only [Except.ok.injEq] at h
        subst h
        have ih := collect_lookup x hm' q
        unfold lookup attrOf
        by_cases hkq : k = q
        · simp [hkq, hp]
        · simp [hkq, ih]
      · exact absurd h (by simp)

/-- `collect` succeeds when every attribute the list reads exists -/
theorem collect_ok (x : Arr α) : ∀ {ps : List (String × String)}, (∀ p ∈ ps, (x.attr p.2).isSome = true) →
    ∃ m, collect x ps = .ok m
  | [], _ => ⟨[], rfl⟩
  | (k, a) :: rest, h => by
    obtain ⟨m', hm'⟩ := collect_ok x (ps := rest) (fun p hp => h p (by simp [hp]))
    have ha := h (k, a) (by simp)
    cases hp : x.attr a with
    | none => simp [hp] at ha
    | some p => exact ⟨(k, p) :: m', by simp [collect, hp, hm']⟩

/-- the write list of `save_npz` depends on the matrix through its class and exactness only -/
def writeListOf (cls : String) (exact : Bool) : List (String × String) :=
  Gen.npzCommon ++ (match Gen.npzWrite.find? (fun b => b.1 == cls && (exact || !b.2.1)) with
    | some b => b.2.2
    | none => [])

theorem writeList_eq (x : Arr α) : writeList x = writeListOf x.clsName x.exact := rfl

/-- the seven member names of the format -/
def allKeys : List String := ["coords", "data", "shape", "fill_value", "indices", "indptr", "compressed_axes"]
def commonKeys : List String := ["data", "shape", "fill_value"]
def cooKeys : List String := ["coords", "data", "shape", "fill_value"]
def gcxsKeys : List String := ["data", "shape", "fill_value", "indices", "indptr", "compressed_axes"]

/-- among the seven names the write list `ps` writes exactly `present`, each from the attribute of its own name, and
every attribute it reads (for whatever member) is one of `attrs` -/
def WritesExactly (ps : List (String × String)) (present attrs : List String) : Bool :=
  allKeys.all (fun k => attrOf ps k == (if present.contains k then some k else none)) && ps.all (fun p => attrs.contains p.2)

/-- every name `load_npz` asks for is one of the seven -/
theorem vocabulary_sub : ∀ k ∈ vocabulary, k ∈ allKeys := by decide

/-- T1 facts, over the whole generated `npzCommon` / `npzWrite`: what is written for a COO, for an exact GCXS, for an
instance of a GCXS subclass when the dispatch accepts it, and when it does not -/
theorem table_coo : WritesExactly (writeListOf "COO" true) cooKeys cooKeys = true := by decide
theorem table_gcxs : WritesExactly (writeListOf "GCXS" true) gcxsKeys gcxsKeys = true := by decide
theorem table_gcxs_sub : gcxsExactTest = false → WritesExactly (writeListOf "GCXS" false) gcxsKeys gcxsKeys = true := by decide
theorem table_gcxs_sub_unrecognised : gcxsExactTest = true → WritesExactly (writeListOf "GCXS" false) commonKeys gcxsKeys = true := by
  decide

theorem writesExactly_lookup {ps : List (String × String)} {present attrs : List String}
    (h : WritesExactly ps present attrs = true) :
    (∀ k ∈ allKeys, attrOf ps k = if present.contains k then some k else none) ∧ (∀ p ∈ ps, p.2 ∈ attrs) := by
  unfold WritesExactly at h
  rw [Bool.and_eq_true, List.all_eq_true, List.all_eq_true] at h
  refine ⟨fun k hk => ?_, fun p hp => ?_⟩
  · simpa using h.1 k hk
  · simpa using h.2 p hp

/-- the file of a COO / of a GCXS array whose class the dispatch accepts, with the members in a fixed order -/
def canonMembers : Arr α → Members α
  | .coo s c d f => [("coords", .mat c), ("data", .vals d), ("shape", .ints s), ("fill_value", .val f)]
  | .gcxs _ s d i p ca f =>
    [("data", .vals d), ("shape", .ints s), ("fill_value", .val f), ("indices", .ints i), ("indptr", .ints p),
     ("compressed_axes", encAxes ca)]

/-- the file of an array no branch of the dispatch accepts: the common members only -/
def commonMembers : Arr α → Members α
  | .coo s _ d f => [("data", .vals d), ("shape", .ints s), ("fill_value", .val f)]
  | .gcxs _ s d _ _ _ f => [("data", .vals d), ("shape", .ints s), ("fill_value", .val f)]

theorem coo_attr_isSome (s : List Int) (c : Mat) (d : List α) (f : α) :
    ∀ a ∈ cooKeys, ((Arr.coo s c d f).attr a).isSome = true := by
  intro a ha
  simp only [cooKeys, List.mem_cons, List.not_mem_nil, or_false] at ha
  rcases ha with rfl | rfl | rfl | rfl <;> simp [Arr.attr]

theorem gcxs_attr_isSome (e : Bool) (s : List Int) (d : List α) (i p : List Int) (ca : Option (List Int)) (f : α) :
    ∀ a ∈ gcxsKeys, ((Arr.gcxs e s d i p ca f).attr a).isSome = true := by
  intro a ha
  simp only [gcxsKeys, List.mem_cons, List.not_mem_nil, or_false] at ha
  rcases ha with rfl | rfl | rfl | rfl | rfl | rfl <;> simp [Arr.attr]

/-- `save_npz` never fails on a COO / GCXS array -/
theorem save_ok (x : Arr α) : ∃ m, save x = .ok m := by
  unfold save
  rw [writeList_eq]
  apply collect_ok
  cases x with
  | coo s c d f =>
    exact fun p hp => coo_attr_isSome s c d f p.2 ((writesExactly_lookup table_coo).2 p hp)
  | gcxs e s d i p ca f =>
    cases e with
    | true => exact fun q hq => gcxs_attr_isSome true s d i p ca f q.2 ((writesExactly_lookup table_gcxs).2 q hq)
    | false =>
      cases hg : gcxsExactTest with
      | false => exact fun q hq => gcxs_attr_isSome false s d i p ca f q.2 ((writesExactly_lookup (table_gcxs_sub hg)).2 q hq)
      | true =>
        exact fun q hq => gcxs_attr_isSome false s d i p ca f q.2 ((writesExactly_lookup (table_gcxs_sub_unrecognised hg)).2 q hq)

/-- what `save_npz` writes for a COO array, through `lookup` -/
theorem save_coo_lookup (s : List Int) (c : Mat) (d : List α) (f : α) {m : Members α}
    (hs : save (Arr.coo s c d f) = .ok m) : ∀ k ∈ allKeys, lookup m k = lookup (canonMembers (Arr.coo s c d f)) k := by
  intro k hk
  rw [collect_lookup _ hs k, writeList_eq]
  simp only [Arr.clsName, Arr.exact]
  rw [(writesExactly_lookup table_coo).1 k hk]
  simp only [allKeys, List.mem_cons, List.not_mem_nil, or_false] at hk
  rcases hk with rfl | rfl | rfl | rfl | rfl | rfl | rfl <;> simp [cooKeys, Arr.attr, canonMembers, lookup]

/-- what `save_npz` writes for a GCXS array whose class the dispatch accepts, through `lookup` -/
theorem save_gcxs_lookup (e : Bool) (s : List Int) (d : List α) (i p : List Int) (ca : Option (List Int)) (f : α)
    (h : e = true ∨ gcxsExactTest = false) {m : Members α} (hs : save (Arr.gcxs e s d i p ca f) = .ok m) :
    ∀ k ∈ allKeys, lookup m k = lookup (canonMembers (Arr.gcxs e s d i p ca f)) k := by
  have ht : WritesExactly (writeListOf "GCXS" e) gcxsKeys gcxsKeys = true := by
    cases e with
    | true => exact table_gcxs
    | false => exact table_gcxs_sub (h.resolve_left (by simp))
  intro k hk
  rw [collect_lookup _ hs k, writeList_eq]
  simp only [Arr.clsName, Arr.exact]
  rw [(writesExactly_lookup ht).1 k hk]
  simp only [allKeys, List.mem_cons, List.not_mem_nil, or_false] at hk
  rcases hk with rfl | rfl | rfl | rfl | rfl | rfl | rfl <;> simp [gcxsKeys, Arr.attr, canonMembers, lookup]

/-- … and for an instance of a GCXS subclass the dispatch does not accept: the common members only -/
theorem save_gcxs_unrecognised_lookup (s : List Int) (d : List α) (i p : List Int) (ca : Option (List Int)) (f : α)
    (h : gcxsExactTest = true) {m : Members α} (hs : save (Arr.gcxs false s d i p ca f) = .ok m) :
    ∀ k ∈ allKeys, lookup m k = lookup (commonMembers (Arr.gcxs false s d i p ca f)) k := by
  intro k hk
  rw [collect_lookup _ hs k, writeList_eq]
  simp only [Arr.clsName, Arr.exact]
  rw [(writesExactly_lookup (table_gcxs_sub_unrecognised h)).1 k hk]
  simp only [allKeys, List.mem_cons, List.not_mem_nil, or_false] at hk
  rcases hk with rfl | rfl | rfl | rfl | rfl | rfl | rfl <;> simp [commonKeys, Arr.attr, commonMembers, lookup]

/-! ### `load` and `Decisive` see a member map through the names of the blocks only -/

theorem fetchAll_congr {m m' : Members α} : ∀ (req : List String), (∀ k ∈ req, lookup m k = lookup m' k) →
    fetchAll m req = fetchAll m' req
  | [], _ => rfl
  | k :: ks, hk => by
    unfold fetchAll
    rw [hk k (by simp), fetchAll_congr ks (fun k' hk' => hk k' (by simp [hk']))]

theorem loadFrom_congr (axesOk : List Int → Bool) {m m' : Members α} : ∀ (brs : List (String × List String)),
    (∀ k ∈ brs.flatMap (·.2), lookup m k = lookup m' k) → loadFrom axesOk m brs = loadFrom axesOk m' brs
  | [], _ => rfl
  | (cls, req) :: rest, hk => by
    unfold loadFrom
    rw [fetchAll_congr req (fun k hk' => hk k (by simp [List.flatMap_cons, hk'])),
      loadFrom_congr axesOk rest (fun k hk' => hk k (by simp only [List.flatMap_cons, List.mem_append]; exact Or.inr hk'))]

theorem decisive_congr {m m' : Members α} : ∀ (brs : List (String × List String)),
    (∀ k ∈ brs.flatMap (·.2), lookup m k = lookup m' k) → Decisive m' brs → Decisive m brs
  | [], _, _ => trivial
  | (cls, req) :: rest, hk, hd => by
    have hreq : ∀ k ∈ req, lookup m k = lookup m' k := fun k hk' => hk k (by simp [List.flatMap_cons, hk'])
    have hrest : ∀ k ∈ rest.flatMap (·.2), lookup m k = lookup m' k :=
      fun k hk' => hk k (by simp only [List.flatMap_cons, List.mem_append]; exact Or.inr hk')
    refine ⟨fun ⟨b, hb, hall⟩ => ?_, decisive_congr rest hrest hd.2⟩
    rw [fetchAll_congr req hreq]
    refine hd.1 ⟨b, hb, fun k hkb => ?_⟩
    rw [← hrest k (List.mem_flatMap.mpr ⟨b, hb, hkb⟩)]
    exact hall k hkb

/-- `load_npz` on what `save_npz` wrote is `load_npz` on the members in their fixed order -/
theorem load_of_agree (axesOk : List Int → Bool) {m m' : Members α} (h : ∀ k ∈ allKeys, lookup m k = lookup m' k) :
    load axesOk m = load axesOk m' :=
  loadFrom_congr axesOk _ (fun k hk => h k (vocabulary_sub k hk))

/-- `Decisive`, computed: it looks at a member map only through which names are present and where `fetchAll` stops -/
def isKeyErr {β : Type} : Except BrErr β → Bool
  | .error .key => true
  | _ => false

theorem isKeyErr_eq {β : Type} {r : Except BrErr β} (h : isKeyErr r = true) : r = .error .key := by
  unfold isKeyErr at h
  split at h
  · rfl
  · exact absurd h (by simp)

def decisiveB (m : Members α) : List (String × List String) → Bool
  | [] => true
  | (_, req) :: rest =>
    (!(rest.any (fun b => b.2.all (fun k => (lookup m k).isSome))) || isKeyErr (fetchAll m req)) && decisiveB m rest

theorem decisiveB_sound {m : Members α} : ∀ {brs : List (String × List String)}, decisiveB m brs = true → Decisive m brs
  | [], _ => trivial
  | (_, req) :: rest, h => by
    unfold decisiveB at h
    rw [Bool.and_eq_true, Bool.or_eq_true] at h
    refine ⟨fun ⟨b, hb, hall⟩ => ?_, decisiveB_sound h.2⟩
    rcases h.1 with h1 | h1
    · exfalso
      have : rest.any (fun b => b.2.all (fun k => (lookup m k).isSome)) = true := by
        rw [List.any_eq_true]
        refine ⟨b, hb, ?_⟩
        rw [List.all_eq_true]
        intro k hk
        cases hl : lookup m k with
        | none => exact absurd hl (hall k hk)
        | some _ => rfl
      simp [this] at h1
    · exact isKeyErr_eq h1

/-- the three kinds of file `save_npz` writes are decisive, whatever the payloads (decided over the generated `npzRequire`;
`encAxes` is the only payload whose kind — integer array or object array — depends on the array and on a generated flag) -/
theorem decisive_canon_coo (s : List Int) (c : Mat) (d : List α) (f : α) :
    decisiveB (canonMembers (Arr.coo s c d f)) Gen.npzRequire = true := rfl
theorem decisive_canon_gcxs (e : Bool) (s : List Int) (d : List α) (i p : List Int) (ca : Option (List Int)) (f : α) :
    decisiveB (canonMembers (Arr.gcxs e s d i p ca f)) Gen.npzRequire = true := by
  cases ca <;> rfl
theorem decisive_common (x : Arr α) : decisiveB (commonMembers x) Gen.npzRequire = true := by
  cases x <;> rfl

/-- everything `save_npz` writes is decisive: the `try` blocks of `load_npz` cannot confuse the formats -/
theorem save_decisive (x : Arr α) (m : Members α) (hs : save x = .ok m) : Decisive m Gen.npzRequire := by
  cases x with
  | coo s c d f =>
    exact decisive_congr _ (fun k hk => save_coo_lookup s c d f hs k (vocabulary_sub k hk))
      (decisiveB_sound (decisive_canon_coo s c d f))
  | gcxs e s d i p ca f =>
    by_cases hcls : e = true ∨ gcxsExactTest = false
    · exact decisive_congr _ (fun k hk => save_gcxs_lookup e s d i p ca f hcls hs k (vocabulary_sub k hk))
        (decisiveB_sound (decisive_canon_gcxs e s d i p ca f))
    · have he : e = false := by cases e; rfl; exact absurd (Or.inl rfl) hcls
      have hg : gcxsExactTest = true := by cases hg : gcxsExactTest; exact absurd (Or.inr hg) hcls; rfl
      subst he
      exact decisive_congr _ (fun k hk => save_gcxs_unrecognised_lookup s d i p ca f hg hs k (vocabulary_sub k hk))
        (decisiveB_sound (decisive_common _))

end SparseV.Npz

/-
  SparseV.Lemmas.Canonical — the constructor's passes establish the canonical order:
  strictly increasing row-major linear location.
-/
import SparseV.Lemmas.Assoc
import SparseV.Lemmas.Index
namespace SparseV
namespace COO
variable {α : Type}

/-- linear locations of the stored entries, in storage order -/
def lin (shape : List Nat) (es : List (Idx × α)) : List Nat := es.map fun e => ravel e.1 shape

/-- canonical order: strictly increasing linear location (hence no repeats) -/
def SortedLin (shape : List Nat) (es : List (Idx × α)) : Prop := (lin shape es).Pairwise (· < ·)
/-- what `_sort_indices` establishes: non-decreasing linear location -/
def SortedLe (shape : List Nat) (es : List (Idx × α)) : Prop := (lin shape es).Pairwise (· ≤ ·)

theorem sortEntries_sortedLe (shape : List Nat) (es : List (Idx × α)) : SortedLe shape (sortEntries shape es) := by
  unfold SortedLe lin sortEntries
  rw [List.pairwise_map]
  have h := List.pairwise_mergeSort
    (le := fun (a b : Idx × α) => decide (ravel a.1 shape ≤ ravel b.1 shape))
    (fun a b c hab hbc => by simp only [decide_eq_true_eq] at *; omega)
    (fun a b => by simp only [Bool.or_eq_true, decide_eq_true_eq]; omega) es
  exact h.imp (fun hab => by simpa using hab)

theorem mem_sortEntries {shape : List Nat} {es : List (Idx × α)} {e : Idx × α} :
    e ∈ sortEntries shape es ↔ e ∈ es := (sortEntries_perm shape es).mem_iff

/-- `_sum_duplicates` turns non-decreasing into strictly increasing, and keeps linear locations
within the set it started from -/
theorem sumDup_sortedLin [Add α] (shape : List Nat) (es : List (Idx × α)) (h : SortedLe shape es) :
    SortedLin shape (sumDup shape es) ∧ ∀ n ∈ lin shape (sumDup shape es), n ∈ lin shape es := by
  fun_induction sumDup shape es with
  | case1 => exact ⟨List.Pairwise.nil, fun _ h => h⟩
  | case2 e => exact ⟨by simp [SortedLin, lin], fun _ h => h⟩
  | case3 e1 e2 rest heq ih =>
    have h' : SortedLe shape ((e1.1, e1.2 + e2.2) :: rest) := by
      unfold SortedLe lin at h ⊢
      simp only [List.map_cons, List.pairwise_cons] at h ⊢
      exact ⟨fun a ha => h.1 a (List.mem_cons_of_mem _ ha), h.2.2⟩
    obtain ⟨ih1, ih2⟩ := ih h'
    refine ⟨ih1, fun n hn => ?_⟩
    have := ih2 n hn
    simp only [lin, List.map_cons, List.mem_cons] at this ⊢
    rcases this with h1 | h1
    · exact Or.inl h1
    · exact Or.inr (Or.inr h1)
  | case4 e1 e2 rest hne ih =>
    have h' : SortedLe shape (e2 :: rest) := by
      unfold SortedLe lin at h ⊢
      simp only [List.map_cons, List.pairwise_cons] at h ⊢
      exact h.2
    obtain ⟨ih1, ih2⟩ := ih h'
    constructor
    · unfold SortedLin lin at ih1 ⊢
      simp only [List.map_cons, List.pairwise_cons]
      refine ⟨fun n hn => ?_, ih1⟩
      have hmem := ih2 n hn
      simp only [lin, List.map_cons, List.mem_cons] at hmem
      unfold SortedLe lin at h
      simp only [List.map_cons, List.pairwise_cons, List.mem_cons] at h
      have h12 : ravel e1.1 shape ≤ ravel e2.1 shape := h.1 _ (Or.inl rfl)
      rcases hmem with h1 | h1
      · rw [h1]; omega
      · have h2n : ravel e2.1 shape ≤ n := h.2.1 n h1
        omega
    · intro n hn
      simp only [lin, List.map_cons, List.mem_cons] at hn ⊢
      rcases hn with h1 | h1
      · exact Or.inl h1
      · have := ih2 n h1
        simp only [lin, List.map_cons, List.mem_cons] at this
        exact Or.inr this

/-- pruning (a filter) keeps the order -/
theorem prune_sortedLin [DecidableEq α] (shape : List Nat) (fill : α) (es : List (Idx × α))
    (h : SortedLin shape es) : SortedLin shape (pruneEntries fill es) := by
  unfold SortedLin lin pruneEntries at *
  exact h.sublist (List.Sublist.map _ List.filter_sublist)

/-- non-decreasing + distinct in-bounds indices = strictly increasing -/
theorem sortedLin_of_le_nodup (shape : List Nat) (es : List (Idx × α)) (hle : SortedLe shape es)
    (hnd : (keysOf es).Nodup) (hwf : ∀ e ∈ es, InB e.1 shape) : SortedLin shape es := by
  induction es with
  | nil => exact List.Pairwise.nil
  | cons e es ih =>
    unfold SortedLe lin at hle
    simp only [List.map_cons, List.pairwise_cons] at hle
    simp only [keysOf, List.map_cons, List.nodup_cons] at hnd
    unfold SortedLin lin
    simp only [List.map_cons, List.pairwise_cons]
    refine ⟨fun n hn => ?_, ih hle.2 hnd.2 (fun e' he' => hwf e' (List.mem_cons_of_mem _ he'))⟩
    obtain ⟨e', he', rfl⟩ := List.mem_map.mp hn
    have hle' := hle.1 _ (List.mem_map.mpr ⟨e', he', rfl⟩)
    have hne : ravel e.1 shape ≠ ravel e'.1 shape := by
      intro heq
      have := ravel_inj (hwf e List.mem_cons_self) (hwf e' (List.mem_cons_of_mem _ he')) heq
      exact hnd.1 (this ▸ List.mem_map.mpr ⟨e', he', rfl⟩)
    omega

end COO
end SparseV

/-
  SparseV.Lemmas.Create — helper lemmas for property C19: what the generated `eye` prefix means, the loop
  invariants of algA / algD / reverse, the case analysis of the generated sampler selection, and the facts
  about the COO constructor / reshape that `random` relies on (a strictly increasing index list passes
  through sort and duplicate summation unchanged; `unravel` is strictly monotone).
-/
import SparseV.Model.Create
import SparseV.Spec.Create
import SparseV.Lemmas.Assoc
import SparseV.Lemmas.Index
import SparseV.Lemmas.Gen.Create
namespace SparseV
namespace Create
open SparseV.COO SparseV.Spec

/-! ### eye -/

theorem eyeLen_none (N k : Int) : Gen.eyeLen N none k = Gen.eyeLen N (some N) k := by
  simp only [Gen.eyeLen_eq, Ref.eyeLen, Option.getD]

theorem eyeLen_eq (N M k : Int) :
    Gen.eyeLen N (some M) k = if k > 0 then max (min (min N M) (M - k)) 0 else if k < 0 then max (min (min N M) (N + k)) 0 else min N M := by
  simp only [Gen.eyeLen_eq, Ref.eyeLen, Option.getD]

theorem eyeCoord_eq (t k : Int) :
    Gen.eyeCoord t k = (if k < 0 then t - k else t, if k > 0 then t + k else t, 0) := by
  rw [Gen.eyeCoord_eq, Ref.eyeCoord]

theorem lookup_map_hit {α : Type} (l : List Nat) (key : Nat → Idx) (v d : α) (idx : Idx)
    (h : ∃ t ∈ l, key t = idx) : lookup (l.map fun t => (key t, v)) d idx = v := by
  induction l with
  | nil => obtain ⟨t, ht, _⟩ := h; cases ht
  | cons a l ih =>
    rw [List.map_cons, lookup_cons]
    by_cases ha : key a = idx
    · simp [ha]
    · simp only [ha, if_false]
      apply ih
      obtain ⟨t, ht, hk⟩ := h
      rcases List.mem_cons.mp ht with rfl | ht'
      · exact absurd hk ha
      · exact ⟨t, ht', hk⟩

theorem lookup_map_miss {α : Type} (l : List Nat) (key : Nat → Idx) (v d : α) (idx : Idx)
    (h : ∀ t ∈ l, key t ≠ idx) : lookup (l.map fun t => (key t, v)) d idx = d := by
  apply lookup_of_not_mem
  simp only [keysOf, List.map_map, List.mem_map, not_exists, not_and]
  intro t ht hk
  exact h t ht hk

/-- first row / first column of the diagonal -/
def eyeR0 (k : Int) : Int := if k < 0 then -k else 0
def eyeC0 (k : Int) : Int := if k > 0 then k else 0

/-- what the generated length means: `t` is a valid position iff both coordinates are inside -/
theorem eyeLen_spec (N M : Nat) (k : Int) :
    0 ≤ Gen.eyeLen N (some (M : Int)) k ∧
    ∀ t : Int, 0 ≤ t → (t < Gen.eyeLen N (some (M : Int)) k ↔ (t + eyeR0 k < N ∧ t + eyeC0 k < M)) := by
  simp only [eyeLen_eq, eyeR0, eyeC0]
  split
  · rename_i h
    have h2 : ¬ k < 0 := by omega
    simp only [h2, if_false]
    refine ⟨by omega, fun t ht => by omega⟩
  · split
    · refine ⟨by omega, fun t ht => by omega⟩
    · refine ⟨by omega, fun t ht => by omega⟩

/-- the key of the t-th stored one -/
def eyeKey (k : Int) (t : Nat) : Idx := [((t : Int) + eyeR0 k).toNat, ((t : Int) + eyeC0 k).toNat]

theorem eyeEntries_eq (L : Nat) (k : Int) : eyeEntries L k = (List.range L).map fun t => (eyeKey k t, (1 : Int)) := by
  unfold eyeEntries eyeKey eyeR0 eyeC0
  apply List.map_congr_left
  intro t _
  simp only [eyeCoord_eq]
  congr 2
  · split <;> congr 1 <;> omega
  · congr 1; split <;> congr 1 

theorem eyeKey_eq_iff (k : Int) (t i j : Nat) :
    eyeKey k t = [i, j] ↔ ((t : Int) + eyeR0 k = i ∧ (t : Int) + eyeC0 k = j) := by
  simp only [eyeKey, eyeR0, eyeC0, List.cons.injEq, and_true]
  split <;> split <;> omega

theorem eyeCore_get (N M : Nat) (k : Int) (i j : Nat) (hi : i < N) (hj : j < M) :
    (eyeCore N M (Gen.eyeLen N (some (M : Int)) k) k).get [i, j] = if (j : Int) = i + k then 1 else 0 := by
  obtain ⟨h0, hspec⟩ := eyeLen_spec N M k
  have hdiag : (j : Int) = i + k → ∃ t : Nat, (t : Int) + eyeR0 k = i ∧ (t : Int) + eyeC0 k = j := by
    intro h
    by_cases hk : k < 0
    · exact ⟨j, by simp only [eyeR0, eyeC0]; split <;> split <;> omega⟩
    · exact ⟨i, by simp only [eyeR0, eyeC0]; split <;> split <;> omega⟩
  unfold eyeCore
  split
  · -- data_length = 0
    rename_i hL
    simp only [zeros, full, COO.get, lookup_nil]
    have : ¬ ((j : Int) = i + k) := by
      intro h
      obtain ⟨t, h1, h2⟩ := hdiag h
      have := (hspec t (by omega)).mpr (by omega)
      omega
    simp [this]
  · rename_i hL
    simp only [COO.get, eyeEntries_eq]
    by_cases h : (j : Int) = i + k
    · simp only [h, if_true]
      apply lookup_map_hit
      obtain ⟨t, h1, h2⟩ := hdiag h
      refine ⟨t, ?_, (eyeKey_eq_iff k t i j).mpr ⟨h1, h2⟩⟩
      simp only [List.mem_range]
      have := (hspec t (by omega)).mpr (by omega)
      omega
    · simp only [h, if_false]
      apply lookup_map_miss
      intro t _ hk
      obtain ⟨h1, h2⟩ := (eyeKey_eq_iff k t i j).mp hk
      apply h
      simp only [eyeR0, eyeC0] at h1 h2
      split at h1 <;> split at h2 <;> omega

theorem eyeCore_wf (N M : Nat) (k : Int) : (eyeCore N M (Gen.eyeLen N (some (M : Int)) k) k).WF := by
  obtain ⟨h0, hspec⟩ := eyeLen_spec N M k
  unfold eyeCore
  split
  · intro e he; simp [zeros, full] at he
  · intro e he
    simp only [eyeEntries_eq, List.mem_map, List.mem_range] at he
    obtain ⟨t, ht, rfl⟩ := he
    have := (hspec t (by omega)).mp (by omega)
    simp only [eyeKey, InB_cons, InB_nil, and_true]
    have hr : 0 ≤ eyeR0 k := by unfold eyeR0; split <;> omega
    have hc : 0 ≤ eyeC0 k := by unfold eyeC0; split <;> omega
    omega

theorem eyeKey_lt (k : Int) {t t' : Nat} (h : t < t') : eyeKey k t < eyeKey k t' := by
  have hr : 0 ≤ eyeR0 k := by unfold eyeR0; split <;> omega
  simp only [eyeKey]
  apply List.cons_lt_cons_iff.mpr
  left
  omega

theorem eyeCore_sorted (N M : Nat) (L : Int) (k : Int) : (eyeCore N M L k).keys.Pairwise (· < ·) := by
  unfold eyeCore
  split
  · simp [zeros, full, COO.keys]
  · simp only [COO.keys, eyeEntries_eq, List.map_map]
    rw [List.pairwise_map]
    exact List.Pairwise.imp (fun h => eyeKey_lt k h) List.pairwise_lt_range

theorem filter_interval_length (p : Nat → Bool) (a L N : Nat)
    (hp : ∀ i, i < N → (p i = true ↔ (a ≤ i ∧ i < a + L))) :
    ∀ n, n ≤ N → ((List.range n).filter p).length = min (a + L) n - a
  | 0, _ => by simp
  | n + 1, hn => by
    rw [List.range_succ, List.filter_append, List.length_append, filter_interval_length p a L N hp n (by omega)]
    by_cases h : p n = true
    · have := (hp n (by omega)).mp h
      simp only [List.filter_cons, h, if_true, List.filter_nil, List.length_cons, List.length_nil]; omega
    · have h2 : ¬ (a ≤ n ∧ n < a + L) := fun hh => h ((hp n (by omega)).mpr hh)
      have h' : p n = false := by simpa using h
      simp only [List.filter_cons, h', List.filter_nil, List.length_nil, Bool.false_eq_true, if_false]; omega

theorem eyeCore_nnz (N M : Nat) (k : Int) :
    (eyeCore N M (Gen.eyeLen N (some (M : Int)) k) k).nnz
      = ((List.range N).filter fun (i : Nat) => decide (0 ≤ (i : Int) + k ∧ (i : Int) + k < M)).length := by
  obtain ⟨h0, hspec⟩ := eyeLen_spec N M k
  have hr : 0 ≤ eyeR0 k := by unfold eyeR0; split <;> omega
  have hc : 0 ≤ eyeC0 k := by unfold eyeC0; split <;> omega
  have hrc : eyeC0 k - eyeR0 k = k := by unfold eyeR0 eyeC0; split <;> split <;> omega
  rw [filter_interval_length _ (eyeR0 k).toNat (Gen.eyeLen N (some (M : Int)) k).toNat N _ N (Nat.le_refl N)]
  · have hnn : (eyeCore N M (Gen.eyeLen N (some (M : Int)) k) k).nnz = (Gen.eyeLen N (some (M : Int)) k).toNat := by
      unfold eyeCore
      split
      · rename_i h; simp [zeros, full, COO.nnz, h]
      · simp [COO.nnz, eyeEntries]
    rw [hnn]
    by_cases hL : Gen.eyeLen N (some (M : Int)) k = 0
    · simp only [hL, Int.toNat_zero, Nat.add_zero]; omega
    · have := (hspec (Gen.eyeLen N (some (M : Int)) k - 1) (by omega)).mp (by omega)
      omega
  · intro i hiN
    simp only [decide_eq_true_eq]
    constructor
    · intro h
      have := (hspec ((i : Int) - eyeR0 k))
      by_cases hi : eyeR0 k ≤ i
      · have := (hspec ((i : Int) - eyeR0 k) (by omega)).mpr (by omega)
        omega
      · exfalso
        unfold eyeR0 eyeC0 at *
        split at hi <;> omega
    · intro h
      have := (hspec ((i : Int) - eyeR0 k) (by omega)).mp (by omega)
      omega

/-! ### samplers -/

theorem algASkip_bounds (r : Nat) (top : Int) (h : 0 ≤ top) : 0 ≤ algASkip r top ∧ algASkip r top ≤ top := by
  unfold algASkip
  split <;> omega

/-- invariant of the `while n >= 2` loop of algA -/
theorem algAGo_spec : ∀ (m t : Nat) (N top prev : Int) (r : Nat → Nat), 0 ≤ top →
    (algAGo m t N top prev r).1.length = m ∧
    (algAGo m t N top prev r).1.Pairwise (· < ·) ∧
    (∀ x ∈ (algAGo m t N top prev r).1, prev < x ∧ x ≤ (algAGo m t N top prev r).2.2) ∧
    prev ≤ (algAGo m t N top prev r).2.2 ∧
    (algAGo m t N top prev r).2.2 + (algAGo m t N top prev r).2.1 = prev + N ∧
    (N - top) - m ≤ (algAGo m t N top prev r).2.1
  | 0, t, N, top, prev, r, h => by
    simp only [algAGo, List.length_nil, List.Pairwise.nil, List.not_mem_nil, false_imp_iff, implies_true, true_and]
    omega
  | m + 1, t, N, top, prev, r, h => by
    obtain ⟨hs0, hs1⟩ := algASkip_bounds (r t) top h
    obtain ⟨h1, h2, h3, h4, h5, h6⟩ :=
      algAGo_spec m (t + 1) (N - algASkip (r t) top - 1) (top - algASkip (r t) top) (prev + algASkip (r t) top + 1) r (by omega)
    simp only [algAGo, List.length_cons, List.pairwise_cons, List.mem_cons]
    refine ⟨by omega, ⟨?_, h2⟩, ?_, by omega, by omega, by omega⟩
    · intro x hx; have := (h3 x hx).1; omega
    · intro x hx
      rcases hx with rfl | hx
      · omega
      · have := h3 x hx; omega

theorem algAFinalN_pos (n N : Int) (hn : 1 ≤ n) (hN : n ≤ N) (r : Nat → Nat) : 1 ≤ algAFinalN n N r := by
  have := (algAGo_spec (n - 1).toNat 0 N (N - n) (-1) r (by omega)).2.2.2.2.2
  unfold algAFinalN
  omega

theorem algA_ok (n N : Int) (hn : 1 ≤ n) (hN : n ≤ N) (r : Nat → Nat) (last : Int)
    (hl0 : 0 ≤ last) (hl1 : last < algAFinalN n N r) :
    ∃ arr, algA n N r last = .ok arr ∧ arr.length = n.toNat ∧ arr.Pairwise (· < ·) ∧ ∀ x ∈ arr, 0 ≤ x ∧ x < N := by
  obtain ⟨h1, h2, h3, h4, h5, h6⟩ := algAGo_spec (n - 1).toNat 0 N (N - n) (-1) r (by omega)
  unfold algAFinalN at hl1
  have e1 : ¬ n < 0 := by omega
  have e2 : ¬ n = 0 := by omega
  refine ⟨(algAGo (n - 1).toNat 0 N (N - n) (-1) r).1 ++ [(algAGo (n - 1).toNat 0 N (N - n) (-1) r).2.2 + last + 1],
    by simp only [algA, e1, e2, if_false], ?_, ?_, ?_⟩
  · simp only [List.length_append, h1, List.length_singleton]; omega
  · rw [List.pairwise_append]
    refine ⟨h2, by simp, ?_⟩
    intro a ha b hb
    have := (h3 a ha).2
    simp only [List.mem_singleton] at hb
    omega
  · intro x hx
    rcases List.mem_append.mp hx with hx | hx
    · have := h3 x hx; omega
    · simp only [List.mem_singleton] at hx; omega

theorem algDPick_spec (qu1 : Int) : ∀ (o : List Cand) (S : Int) (o' : List Cand),
    algDPick qu1 o = some (S, o') → S < qu1 ∧ (S, true) ∈ o ∧ (∀ c ∈ o', c ∈ o) ∧ o'.length < o.length
  | [], S, o', h => by simp [algDPick] at h
  | c :: rest, S, o', h => by
    simp only [algDPick] at h
    split at h
    · rename_i hc
      simp only [Option.some.injEq, Prod.mk.injEq] at h
      obtain ⟨rfl, rfl⟩ := h
      refine ⟨by omega, ?_, fun c hc => List.mem_cons_of_mem _ hc, by simp⟩
      have : c = (c.1, true) := by rw [← hc.2]
      rw [this]; simp
    · obtain ⟨h1, h2, h3, h4⟩ := algDPick_spec qu1 rest S o' h
      exact ⟨h1, List.mem_cons_of_mem _ h2, fun c hc => List.mem_cons_of_mem _ (h3 c hc), by simp; omega⟩

/-- invariant of the `while n > 1` loop of algD -/
theorem algDGo_spec : ∀ (m : Nat) (qu1 prev : Int) (o : List Cand) (arr : List Int) (o' : List Cand),
    (∀ c ∈ o, 0 ≤ c.1) → algDGo m qu1 prev o = .ok (arr, o') →
    arr.length = m ∧ arr.Pairwise (· < ·) ∧ (∀ x ∈ arr, prev < x ∧ x ≤ prev + m + qu1 - 1) ∧ (∀ c ∈ o', c ∈ o)
  | 0, qu1, prev, o, arr, o', _, h => by
    simp only [algDGo, Except.ok.injEq, Prod.mk.injEq] at h
    obtain ⟨rfl, rfl⟩ := h
    simp
  | m + 1, qu1, prev, o, arr, o', ho, h => by
    simp only [algDGo] at h
    split at h
    · cases h
    · rename_i S o1 hp
      obtain ⟨p1, p2, p3, _⟩ := algDPick_spec qu1 o S o1 hp
      have hS : 0 ≤ S := ho _ p2
      split at h
      · cases h
      · rename_i arr1 o2 hg
        simp only [Except.ok.injEq, Prod.mk.injEq] at h
        obtain ⟨rfl, rfl⟩ := h
        obtain ⟨g1, g2, g3, g4⟩ := algDGo_spec m (qu1 - S) (prev + S + 1) o1 arr1 o2 (fun c hc => ho c (p3 c hc)) hg
        refine ⟨by simp [g1], ?_, ?_, fun c hc => p3 c (g4 c hc)⟩
        · rw [List.pairwise_cons]
          exact ⟨fun x hx => (g3 x hx).1, g2⟩
        · intro x hx
          rcases List.mem_cons.mp hx with rfl | hx
          · omega
          · have := g3 x hx; omega

theorem algDGo_error : ∀ (m : Nat) (qu1 prev : Int) (o : List Cand) (e : Err),
    algDGo m qu1 prev o = .error e → e = .hang
  | 0, _, _, _, e, h => by simp [algDGo] at h
  | m + 1, qu1, prev, o, e, h => by
    simp only [algDGo] at h
    split at h
    · simp only [Except.error.injEq] at h; exact h.symm
    · split at h
      · rename_i e' hg
        simp only [Except.error.injEq] at h
        subst h
        exact algDGo_error m _ _ _ _ hg
      · cases h

theorem mem_arangeFrom (i : Int) (c : Nat) (x : Int) :
    x ∈ (List.range c).map (fun (d : Nat) => i + (d : Int)) ↔ (i ≤ x ∧ x < i + c) := by
  simp only [List.mem_map, List.mem_range]
  constructor
  · rintro ⟨d, hd, rfl⟩; omega
  · intro h; exact ⟨(x - i).toNat, by omega, by omega⟩

theorem pairwise_arangeFrom (i : Int) (c : Nat) :
    ((List.range c).map (fun (d : Nat) => i + (d : Int))).Pairwise (· < ·) := by
  rw [List.pairwise_map]
  exact List.Pairwise.imp (fun h => by omega) List.pairwise_lt_range

/-- invariant of the `for i in range(N)` loop of `reverse` on a strictly increasing, in-range `inv` -/
theorem reverseGo_spec : ∀ (c : Nat) (i : Int) (inv : List Int), inv.Pairwise (· < ·) →
    (∀ v ∈ inv, i ≤ v ∧ v < i + c) →
    (reverseGo c i inv).2 = [] ∧ (reverseGo c i inv).1.Pairwise (· < ·) ∧
    (∀ x, x ∈ (reverseGo c i inv).1 ↔ (i ≤ x ∧ x < i + c ∧ x ∉ inv)) ∧
    (reverseGo c i inv).1.length + inv.length = c
  | 0, i, inv, _, hr => by
    cases inv with
    | nil => simp [reverseGo]
    | cons v inv => have := hr v (List.mem_cons_self ..); omega
  | c + 1, i, [], _, _ => by
    simp only [reverseGo, List.not_mem_nil, not_false_eq_true, and_true, List.length_map, List.length_range,
      List.length_nil, true_and]
    exact ⟨pairwise_arangeFrom i (c + 1), fun x => by rw [mem_arangeFrom]⟩
  | c + 1, i, v :: inv, hp, hr => by
    rw [List.pairwise_cons] at hp
    have hv := hr v (List.mem_cons_self ..)
    simp only [reverseGo]
    split
    · rename_i hiv
      subst hiv
      obtain ⟨h1, h2, h3, h4⟩ := reverseGo_spec c (i + 1) inv hp.2 (fun w hw => by
        have := hp.1 w hw; have := hr w (List.mem_cons_of_mem _ hw); omega)
      refine ⟨h1, h2, ?_, by simp only [List.length_cons]; omega⟩
      intro x
      rw [h3 x, List.mem_cons]
      constructor
      · rintro ⟨a, b, c'⟩; exact ⟨by omega, by omega, fun h => by rcases h with h | h; omega; exact c' h⟩
      · rintro ⟨a, b, c'⟩
        have hne : x ≠ i := fun h => c' (Or.inl h)
        exact ⟨by omega, by omega, fun h => c' (Or.inr h)⟩
    · rename_i hiv
      obtain ⟨h1, h2, h3, h4⟩ := reverseGo_spec c (i + 1) (v :: inv) (List.pairwise_cons.mpr hp) (fun w hw => by
        have := hr w hw
        rcases List.mem_cons.mp hw with rfl | hw'
        · omega
        · have := hp.1 w hw'; omega)
      refine ⟨h1, ?_, ?_, by simp only [List.length_cons] at h4 ⊢; omega⟩
      · rw [List.pairwise_cons]
        exact ⟨fun x hx => by have := (h3 x).mp hx; omega, h2⟩
      · intro x
        rw [List.mem_cons, h3 x]
        constructor
        · rintro (rfl | ⟨a, b, c'⟩)
          · refine ⟨by omega, by omega, ?_⟩
            intro h
            rcases List.mem_cons.mp h with h | h
            · exact hiv h
            · have := hp.1 x h; omega
          · exact ⟨by omega, by omega, c'⟩
        · rintro ⟨a, b, c'⟩
          by_cases hx : x = i
          · exact Or.inl hx
          · exact Or.inr ⟨by omega, by omega, c'⟩

/-- **reverse_spec** -/
theorem reverse_ok (inv : List Int) (N : Int) (hN0 : 0 ≤ N) (hp : inv.Pairwise (· < ·)) (hr : ∀ v ∈ inv, 0 ≤ v ∧ v < N) :
    ∃ out, reverse inv N = .ok out ∧ out.Pairwise (· < ·) ∧ (∀ x, x ∈ out ↔ (0 ≤ x ∧ x < N ∧ x ∉ inv)) ∧
      (out.length : Int) + inv.length = N := by
  obtain ⟨h1, h2, h3, h4⟩ := reverseGo_spec N.toNat 0 inv hp (fun v hv => by have := hr v hv; omega)
  have hlen : ¬ N < (inv.length : Int) := by omega
  refine ⟨(reverseGo N.toNat 0 inv).1, by simp only [reverse, hlen, if_false, h1, if_true], h2, ?_, by omega⟩
  intro x
  rw [h3 x]
  constructor
  · rintro ⟨a, b, c⟩; exact ⟨a, by omega, c⟩
  · rintro ⟨a, b, c⟩; exact ⟨a, by omega, c⟩

theorem algD_spec (n N : Int) (o : List Cand) (ho : ∀ c ∈ o, 0 ≤ c.1) (arr : List Int) (o' : List Cand)
    (h : algD n N o = .ok (arr, o')) :
    arr.length = n.toNat ∧ 1 ≤ n ∧ arr.Pairwise (· < ·) ∧ (∀ x ∈ arr, 0 ≤ x ∧ x < N - 1) ∧ (∀ c ∈ o', c ∈ o) := by
  unfold algD at h
  split at h
  · cases h
  · split at h
    · cases h
    · obtain ⟨g1, g2, g3, g4⟩ := algDGo_spec n.toNat (N - n) (-1) o arr o' ho h
      refine ⟨g1, by omega, g2, fun x hx => ?_, g4⟩
      have := g3 x hx
      omega

theorem algD_error (n N : Int) (hn : 1 ≤ n) (o : List Cand) (e : Err) (h : algD n N o = .error e) : e = .hang := by
  unfold algD at h
  have e1 : ¬ n < 0 := by omega
  have e2 : ¬ n = 0 := by omega
  simp only [e1, e2, if_false] at h
  exact algDGo_error _ _ _ _ _ h

theorem arange_spec (N : Int) : (arange N).length = N.toNat ∧ (arange N).Pairwise (· < ·) ∧ ∀ x ∈ arange N, 0 ≤ x ∧ x < N := by
  unfold arange
  refine ⟨by simp, ?_, ?_⟩
  · rw [List.pairwise_map]
    exact List.Pairwise.imp (fun h => by omega) List.pairwise_lt_range
  · intro x hx
    simp only [List.mem_map, List.mem_range] at hx
    obtain ⟨d, hd, rfl⟩ := hx
    omega

theorem reverse_good (a : List Int) (N : Int) (hN0 : 0 ≤ N) (hp : a.Pairwise (· < ·)) (hr : ∀ v ∈ a, 0 ≤ v ∧ v < N) :
    ∃ out, reverse a N = .ok out ∧ IsSample (N - a.length) N out := by
  obtain ⟨out, h1, h2, h3, h4⟩ := reverse_ok a N hN0 hp hr
  refine ⟨out, h1, by omega, h2, fun x hx => ?_⟩
  have := (h3 x).mp hx
  omega

abbrev randomBranch_cases := @Gen.randomBranch_cases

theorem random_idx (nnz elements : Int) (dge1 : Bool) (o : Oracle) (h0 : 0 ≤ nnz) (h1 : nnz ≤ elements)
    (hd : dge1 = true → nnz = elements) (ok : OracleOK nnz elements dge1 o) :
    (∀ ind, randomIdx nnz elements dge1 o = .ok ind → IsSample nnz elements ind) ∧
    (∀ e, randomIdx nnz elements dge1 o = .error e → e = .hang) := by
  obtain ⟨okc, okd, okl⟩ := ok
  unfold randomIdx
  rcases randomBranch_cases nnz elements dge1 h0 h1 hd with
    ⟨hb, c⟩ | ⟨hb, c⟩ | ⟨hb, c⟩ | ⟨hb, c⟩ | ⟨hb, c⟩ | ⟨hb, c⟩ | ⟨hb, c⟩ <;> rw [hb] at okl ⊢
  · -- arange
    subst c
    simp only [if_true]
    refine ⟨fun ind h => ?_, fun e h => by cases h⟩
    simp only [Except.ok.injEq] at h; subst h
    exact arange_spec nnz
  · -- choice
    simp only [show ¬ ((1 : Int) = 0) by decide, if_false, if_true]
    refine ⟨fun ind h => ?_, fun e h => by cases h⟩
    simp only [Except.ok.injEq] at h; subst h
    unfold choice IsSample
    split
    · have : nnz = 0 := by omega
      subst this; simp
    · have : nnz = 1 := by omega
      subst this
      have := okc (by omega)
      simp; omega
  · -- reverse(choice(elements, elements - nnz))
    simp only [show ¬ ((2 : Int) = 0) by decide, show ¬ ((2 : Int) = 1) by decide, if_false, if_true]
    have hc : choice (elements - nnz) o.choice = [o.choice] := by
      unfold choice; split; omega; rfl
    rw [hc]
    have := okc (by omega)
    obtain ⟨out, e1, g⟩ := reverse_good [o.choice] elements (by omega) (by simp) (by simp; omega)
    rw [e1]
    refine ⟨fun ind h => ?_, fun e h => by cases h⟩
    simp only [Except.ok.injEq] at h; subst h
    have : elements - (([o.choice] : List Int).length : Int) = nnz := by simp; omega
    rw [this] at g; exact g
  · -- reverse(algD(nnztemp, elements))
    simp only [show ¬ ((3 : Int) = 0) by decide, show ¬ ((3 : Int) = 1) by decide, show ¬ ((3 : Int) = 2) by decide,
      if_false, if_true]
    cases hD : algD (elements - nnz) elements o.candD with
    | error e =>
      simp only
      refine ⟨fun ind h => (by cases h), fun e' h => ?_⟩
      simp only [Except.error.injEq] at h; subst h
      exact algD_error _ _ (by omega) _ _ hD
    | ok res =>
      obtain ⟨a, o'⟩ := res
      simp only
      obtain ⟨d1, d2, d3, d4, _⟩ := algD_spec _ _ _ okd a o' hD
      obtain ⟨out, e1, g⟩ := reverse_good a elements (by omega) d3 (fun v hv => by have := d4 v hv; omega)
      rw [e1]
      refine ⟨fun ind h => ?_, fun e h => by cases h⟩
      simp only [Except.ok.injEq] at h; subst h
      have : elements - (a.length : Int) = nnz := by omega
      rw [this] at g; exact g
  · -- reverse(algA(nnztemp, elements))
    simp only [show ¬ ((4 : Int) = 0) by decide, show ¬ ((4 : Int) = 1) by decide, show ¬ ((4 : Int) = 2) by decide,
      show ¬ ((4 : Int) = 3) by decide, if_false, if_true]
    have okl := okl (Or.inl rfl)
    obtain ⟨a, e0, a1, a2, a3⟩ := algA_ok (elements - nnz) elements (by omega) (by omega) o.skipsA o.lastA okl.1 okl.2
    rw [e0]
    simp only
    obtain ⟨out, e1, g⟩ := reverse_good a elements (by omega) a2 a3
    rw [e1]
    refine ⟨fun ind h => ?_, fun e h => by cases h⟩
    simp only [Except.ok.injEq] at h; subst h
    have : elements - (a.length : Int) = nnz := by omega
    rw [this] at g; exact g
  · -- algD(nnz, elements)
    simp only [show ¬ ((5 : Int) = 0) by decide, show ¬ ((5 : Int) = 1) by decide, show ¬ ((5 : Int) = 2) by decide,
      show ¬ ((5 : Int) = 3) by decide, show ¬ ((5 : Int) = 4) by decide, if_false, if_true]
    cases hD : algD nnz elements o.candD with
    | error e =>
      simp only
      refine ⟨fun ind h => (by cases h), fun e' h => ?_⟩
      simp only [Except.error.injEq] at h; subst h
      exact algD_error _ _ (by omega) _ _ hD
    | ok res =>
      obtain ⟨a, o'⟩ := res
      simp only
      obtain ⟨d1, d2, d3, d4, _⟩ := algD_spec _ _ _ okd a o' hD
      refine ⟨fun ind h => ?_, fun e h => by cases h⟩
      simp only [Except.ok.injEq] at h; subst h
      exact ⟨d1, d3, fun v hv => by have := d4 v hv; omega⟩
  · -- algA(nnz, elements)
    simp only [show ¬ ((6 : Int) = 0) by decide, show ¬ ((6 : Int) = 1) by decide, show ¬ ((6 : Int) = 2) by decide,
      show ¬ ((6 : Int) = 3) by decide, show ¬ ((6 : Int) = 4) by decide, show ¬ ((6 : Int) = 5) by decide, if_false]
    have okl := okl (Or.inr rfl)
    obtain ⟨a, e0, a1, a2, a3⟩ := algA_ok nnz elements (by omega) (by omega) o.skipsA o.lastA okl.1 okl.2
    rw [e0]
    refine ⟨fun ind h => ?_, fun e h => by cases h⟩
    simp only [Except.ok.injEq] at h; subst h
    exact ⟨a1, a2, a3⟩

/-! ### constructor and reshape on a sorted index list -/

/-- `unravel` is strictly monotone for the lexicographic order -/
theorem unravel_lt : ∀ (s : List Nat) (n m : Nat), n < m → m < prod s → unravel n s < unravel m s
  | [], n, m, h, hm => by simp [prod] at hm; omega
  | d :: ds, n, m, h, hm => by
    simp only [prod] at hm
    have hp : 0 < prod ds := by
      rcases Nat.eq_zero_or_pos (prod ds) with h0 | h0
      · rw [h0, Nat.mul_zero] at hm; omega
      · exact h0
    simp only [unravel]
    apply List.cons_lt_cons_iff.mpr
    have hle : n / prod ds ≤ m / prod ds := Nat.div_le_div_right (Nat.le_of_lt h)
    rcases Nat.lt_or_eq_of_le hle with hlt | heq
    · exact Or.inl hlt
    · right
      refine ⟨heq, unravel_lt ds _ _ ?_ (Nat.mod_lt _ hp)⟩
      have e1 := Nat.div_add_mod n (prod ds)
      have e2 := Nat.div_add_mod m (prod ds)
      rw [heq] at e1
      omega

variable {α : Type}

theorem sortEntries_of_sorted (shape : List Nat) (es : List (Idx × α))
    (h : (es.map fun e => ravel e.1 shape).Pairwise (· < ·)) : sortEntries shape es = es := by
  unfold sortEntries
  apply List.mergeSort_of_pairwise
  rw [List.pairwise_map] at h
  exact List.Pairwise.imp (fun hab => by simp only [decide_eq_true_eq]; omega) h

theorem sumDup_of_sorted [Add α] (shape : List Nat) : ∀ (es : List (Idx × α)),
    (es.map fun e => ravel e.1 shape).Pairwise (· < ·) → sumDup shape es = es
  | [], _ => by simp [sumDup]
  | [e], _ => by simp [sumDup]
  | e1 :: e2 :: rest, h => by
    simp only [List.map_cons, List.pairwise_cons] at h
    have hne : ¬ ravel e1.1 shape = ravel e2.1 shape := by
      have := h.1 (ravel e2.1 shape) (List.mem_cons_self ..); omega
    rw [sumDup]
    simp only [hne, if_false]
    rw [sumDup_of_sorted shape (e2 :: rest) (by simp only [List.map_cons, List.pairwise_cons]; exact h.2)]


theorem ravel_single (n E : Nat) : ravel [n] [E] = n := by simp [ravel, prod]

/-- the flat entry list handed to the constructor -/
def flatEntries (ind : List Int) (data : List α) : List (Idx × α) := (ind.map fun x => [x.toNat]).zip data

theorem flatEntries_ravel (E : Nat) (ind : List Int) (data : List α) (hl : ind.length = data.length) :
    (flatEntries ind data).map (fun e => ravel e.1 [E]) = ind.map Int.toNat := by
  have : (flatEntries ind data).map (fun e => ravel e.1 [E]) = ((flatEntries ind data).map (·.1)).map (fun i => ravel i [E]) := by
    simp [List.map_map]
  rw [this]
  unfold flatEntries
  rw [List.map_fst_zip (by simp [hl]), List.map_map]
  apply List.map_congr_left
  intro x _
  simp [ravel_single]

theorem toNat_pairwise (ind : List Int) (hp : ind.Pairwise (· < ·)) (hr : ∀ x ∈ ind, 0 ≤ x) :
    (ind.map Int.toNat).Pairwise (· < ·) := by
  rw [List.pairwise_map]
  induction hp with
  | nil => exact List.Pairwise.nil
  | @cons a l hx _ ih =>
    refine List.Pairwise.cons (fun b hb => ?_) (ih (fun x hx' => hr x (List.mem_cons_of_mem _ hx')))
    have := hx b hb
    have := hr a (List.mem_cons_self ..)
    have := hr b (List.mem_cons_of_mem _ hb)
    omega

theorem random_coo [Add α] [DecidableEq α] (shape : List Nat) (nnz : Int) (dge1 : Bool) (o : Oracle)
    (data : List α) (fill : α) (h0 : 0 ≤ nnz) (h1 : nnz ≤ (prod shape : Nat))
    (hd : dge1 = true → nnz = (prod shape : Nat)) (ok : OracleOK nnz (prod shape : Nat) dge1 o)
    (x : COO α) (h : random shape nnz dge1 o data fill = .ok x) :
    x.shape = shape ∧ x.fill = fill ∧ x.nnz = nnz.toNat ∧ x.Canonical ∧ x.vals = data := by
  unfold random at h
  cases hi : randomIdx nnz (prod shape : Nat) dge1 o with
  | error e => rw [hi] at h; cases h
  | ok ind =>
    rw [hi] at h
    simp only at h
    obtain ⟨g1, g2, g3⟩ := (random_idx nnz _ dge1 o h0 h1 hd ok).1 ind hi
    split at h
    · cases h
    · rename_i hl
      have hl : ind.length = data.length := by simpa using hl
      simp only [Except.ok.injEq] at h
      have hrav := flatEntries_ravel (prod shape) ind data hl
      have hsorted : ((flatEntries ind data).map fun e => ravel e.1 [prod shape]).Pairwise (· < ·) := by
        rw [hrav]; exact toNat_pairwise ind g2 (fun x hx => (g3 x hx).1)
      have hbuild : COO.build [prod shape] (flatEntries ind data) fill
          = { shape := [prod shape], entries := flatEntries ind data, fill := fill } := by
        simp only [COO.build, Bool.false_eq_true, if_false, if_true]
        rw [sortEntries_of_sorted _ _ hsorted, sumDup_of_sorted _ _ hsorted]
      have hkeys : (flatEntries ind data).map (·.1) = ind.map fun x => [x.toNat] := by
        unfold flatEntries; rw [List.map_fst_zip (by simp [hl])]
      have hvals : (flatEntries ind data).map (·.2) = data := by
        unfold flatEntries; rw [List.map_snd_zip (by simp [hl])]
      have hlen : (flatEntries ind data).length = nnz.toNat := by
        unfold flatEntries; simp [List.length_zip, hl, ← g1]
      change (COO.build [prod shape] (flatEntries ind data) fill).reshapeCore shape = x at h
      rw [hbuild] at h
      unfold reshapeCore at h
      simp only at h
      split at h
      · -- shape = [elements]
        rename_i hs
        subst h
        refine ⟨hs, rfl, hlen, ⟨?_, ?_⟩, hvals⟩
        · intro e he
          have hk : e.1 ∈ (flatEntries ind data).map (·.1) := List.mem_map.mpr ⟨e, he, rfl⟩
          rw [hkeys, List.mem_map] at hk
          obtain ⟨v, hv, hve⟩ := hk
          have := g3 v hv
          rw [← hve]
          simp only [InB_cons, InB_nil, and_true]
          omega
        · show ((flatEntries ind data).map (·.1)).Pairwise (· < ·)
          rw [hkeys, List.pairwise_map]
          have := toNat_pairwise ind g2 (fun x hx => (g3 x hx).1)
          rw [List.pairwise_map] at this
          exact List.Pairwise.imp (fun hab => List.cons_lt_cons_iff.mpr (Or.inl hab)) this
      · subst h
        have hk2 : (mapIdx (fun i => unravel (ravel i [prod shape]) shape) (flatEntries ind data)).map (·.1)
            = ind.map fun v => unravel v.toNat shape := by
          simp only [mapIdx, List.map_map]
          have : ((fun e : Idx × α => e.1) ∘ fun e : Idx × α => (unravel (ravel e.1 [prod shape]) shape, e.2))
              = (fun i => unravel (ravel i [prod shape]) shape) ∘ (·.1) := rfl
          rw [this, ← List.map_map, hkeys, List.map_map]
          apply List.map_congr_left
          intro v _
          simp [ravel_single]
        refine ⟨rfl, rfl, by simp [COO.nnz, mapIdx, hlen], ⟨?_, ?_⟩, by simp [COO.vals, mapIdx, List.map_map, Function.comp_def, hvals]⟩
        · intro e he
          have hk : e.1 ∈ (mapIdx (fun i => unravel (ravel i [prod shape]) shape) (flatEntries ind data)).map (·.1) :=
            List.mem_map.mpr ⟨e, he, rfl⟩
          rw [hk2, List.mem_map] at hk
          obtain ⟨v, hv, hve⟩ := hk
          have := g3 v hv
          rw [← hve]
          exact unravel_InB shape _ (by omega)
        · show ((mapIdx (fun i => unravel (ravel i [prod shape]) shape) (flatEntries ind data)).map (·.1)).Pairwise (· < ·)
          rw [hk2, List.pairwise_map]
          have hp := toNat_pairwise ind g2 (fun x hx => (g3 x hx).1)
          rw [List.pairwise_map] at hp
          -- need the upper bound for the larger element: strengthen pairwise with membership
          have hp' : ind.Pairwise (fun a b => a.toNat < b.toNat ∧ b.toNat < prod shape) := by
            rw [List.pairwise_iff_forall_sublist] at hp ⊢
            intro a b hab
            have hb : b ∈ ind := hab.subset (by simp)
            have := g3 b hb
            exact ⟨hp hab, by omega⟩
          exact List.Pairwise.imp (fun hab => unravel_lt shape _ _ hab.1 hab.2) hp'

end Create
end SparseV

/-
  SparseV.Lemmas.GcxsRows — the row view of a well-formed CSR triple and `GCXS.tocoo` in terms of it:
  `(tocoo g).get i` is the lookup of `[row, column]` in the flat entry list, the row is
  `indices[indptr[r]:indptr[r+1]]` zipped with the same slice of `data`.
-/
import SparseV.Lemmas.Compress
import SparseV.Model.GcxsIndex
namespace SparseV
open COO

namespace GIx

/-! ### slices -/

theorem flatMap_congr_mem {γ β : Type} {f g : γ → List β} : ∀ {l : List γ}, (∀ x ∈ l, f x = g x) →
    l.flatMap f = l.flatMap g
  | [], _ => rfl
  | a :: l, h => by
    simp only [List.flatMap_cons]
    rw [h a List.mem_cons_self, flatMap_congr_mem (fun x hx => h x (List.mem_cons_of_mem _ hx))]

theorem rowSlice_length {β : Type} (l : List β) (a b : Nat) : (rowSlice l a b).length = min b l.length - a := by
  simp [rowSlice]

/-- a list is the concatenation of its slices along a monotone pointer sequence starting at 0 -/
theorem take_eq_flatMap_slices {β : Type} (l : List β) (p : Nat → Nat) (h0 : p 0 = 0) :
    ∀ k, (∀ r, r < k → p r ≤ p (r + 1)) →
      l.take (p k) = (List.range k).flatMap fun r => rowSlice l (p r) (p (r + 1))
  | 0, _ => by simp [h0]
  | k + 1, hm => by
    rw [List.range_succ, List.flatMap_append, ← take_eq_flatMap_slices l p h0 k (fun r hr => hm r (by omega))]
    simp only [List.flatMap_cons, List.flatMap_nil, List.append_nil, rowSlice]
    have h := List.take_append_drop (p k) (l.take (p (k + 1)))
    rw [List.take_take, Nat.min_eq_left (hm k (by omega))] at h
    exact h.symm

theorem mono_le (p : Nat → Nat) : ∀ (k r : Nat), (∀ r, r < k → p r ≤ p (r + 1)) → r ≤ k → p r ≤ p k
  | 0, r, _, h => by have : r = 0 := by omega
                     subst this; exact Nat.le_refl _
  | k + 1, r, hm, h => by
    by_cases hr : r = k + 1
    · subst hr; exact Nat.le_refl _
    · exact Nat.le_trans (mono_le p k r (fun r hr => hm r (by omega)) (by omega)) (hm k (by omega))

theorem eq_flatMap_slices {β : Type} (l : List β) (p : Nat → Nat) (R : Nat) (h0 : p 0 = 0)
    (hm : ∀ r, r < R → p r ≤ p (r + 1)) (hR : p R = l.length) :
    l = (List.range R).flatMap fun r => rowSlice l (p r) (p (r + 1)) := by
  rw [← take_eq_flatMap_slices l p h0 R hm, hR, List.take_length]

theorem zip_flatMap {γ β δ : Type} (f : γ → List β) (g : γ → List δ) : ∀ (l : List γ),
    (∀ x ∈ l, (f x).length = (g x).length) →
    (l.flatMap f).zip (l.flatMap g) = l.flatMap fun x => (f x).zip (g x)
  | [], _ => by simp
  | a :: l, h => by
    simp only [List.flatMap_cons]
    rw [List.zip_append (h a List.mem_cons_self), zip_flatMap f g l (fun x hx => h x (List.mem_cons_of_mem _ hx))]

theorem zip_replicate_left {β : Type} (r : Nat) : ∀ (l : List β), (List.replicate l.length r).zip l = l.map fun x => (r, x)
  | [] => rfl
  | a :: l => by simp [List.replicate_succ, zip_replicate_left r l]

/-! ### the flat entry list and the row view -/

/-- the 2-d entries `GCXS.tocoo` hands to the COO constructor -/
def csrEntries (indptr indices : List Nat) (data : List Int) : List (Idx × Int) :=
  (((uncompress indptr).zip indices).zip data).map fun p => ([p.1.1, p.1.2], p.2)

/-- row `r`: (column, value) pairs in storage order -/
def csrRow (indptr indices : List Nat) (data : List Int) (r : Nat) : List (Nat × Int) :=
  (rowSlice indices (indptr.getD r 0) (indptr.getD (r + 1) 0)).zip
    (rowSlice data (indptr.getD r 0) (indptr.getD (r + 1) 0))

/-- value of column `c` in a row: the first stored pair with that column, else the fill value -/
def rowGet (row : List (Nat × Int)) (fill : Int) (c : Nat) : Int :=
  match row.find? (fun e => e.1 == c) with
  | some e => e.2
  | none => fill

/-- the entries of a list of rows, tagged with their row numbers -/
def tagRows (F : Nat → List (Nat × Int)) (R : Nat) : List (Idx × Int) :=
  (List.range R).flatMap fun r => (F r).map fun e => ([r, e.1], e.2)

theorem csrEntries_eq_tagRows (R C : Nat) (indptr indices : List Nat) (data : List Int)
    (h : CsrWF R C indptr indices data.length) :
    csrEntries indptr indices data = tagRows (csrRow indptr indices data) R := by
  obtain ⟨hlen, h0, hR, hd, hm, _, _⟩ := h
  have hI := eq_flatMap_slices indices (fun r => indptr.getD r 0) R h0 hm hR
  have hD := eq_flatMap_slices data (fun r => indptr.getD r 0) R h0 hm (by rw [hR, hd])
  have hle : ∀ r, r < R → indptr.getD (r + 1) 0 ≤ indices.length := fun r hr => by
    rw [← hR]; exact mono_le (fun r => indptr.getD r 0) R (r + 1) hm (by omega)
  have hU : uncompress indptr = (List.range R).flatMap fun r =>
      List.replicate (rowSlice indices (indptr.getD r 0) (indptr.getD (r + 1) 0)).length r := by
    unfold uncompress
    rw [hlen, Nat.add_sub_cancel]
    apply flatMap_congr_mem
    intro r hr
    have := hle r (List.mem_range.mp hr)
    rw [rowSlice_length, Nat.min_eq_left this]
  have h1 := zip_flatMap (fun r => List.replicate (rowSlice indices (indptr.getD r 0) (indptr.getD (r + 1) 0)).length r)
    (fun r => rowSlice indices (indptr.getD r 0) (indptr.getD (r + 1) 0)) (List.range R) (by intro x _; simp)
  rw [← hU, ← hI] at h1
  have h2 := zip_flatMap (fun r => (List.replicate (rowSlice indices (indptr.getD r 0) (indptr.getD (r + 1) 0)).length r).zip
      (rowSlice indices (indptr.getD r 0) (indptr.getD (r + 1) 0)))
    (fun r => rowSlice data (indptr.getD r 0) (indptr.getD (r + 1) 0)) (List.range R) (by
      intro r hr
      have := hle r (List.mem_range.mp hr)
      simp only [List.length_zip, List.length_replicate, Nat.min_self, rowSlice_length]
      rw [← hd])
  rw [← h1, ← hD] at h2
  unfold csrEntries tagRows
  rw [h2, List.map_flatMap]
  apply flatMap_congr_mem
  intro r _
  unfold csrRow
  rw [zip_replicate_left, List.zip_map_left, List.map_map]
  rfl

theorem lookup_append_default (a b : List (Idx × Int)) (d : Int) (i : Idx) :
    lookup (a ++ b) d i = lookup a (lookup b d i) i := by
  induction a with
  | nil => simp [lookup]
  | cons e a ih => rw [List.cons_append, lookup_cons, lookup_cons, ih]

theorem lookup_tagged_row (row : List (Nat × Int)) (d : Int) (r c : Nat) :
    lookup (row.map fun e => ([r, e.1], e.2)) d [r, c] = rowGet row d c := by
  induction row with
  | nil => simp [lookup, rowGet]
  | cons e row ih =>
    rw [List.map_cons, lookup_cons]
    unfold rowGet at ih ⊢
    rw [List.find?_cons]
    by_cases h : e.1 = c
    · simp [h]
    · have : (e.1 == c) = false := by simpa using h
      simp only [this]
      rw [if_neg (by simpa using h)]
      exact ih

theorem lookup_tagged_other (row : List (Nat × Int)) (d : Int) (r r' c : Nat) (h : r' ≠ r) :
    lookup (row.map fun e => ([r', e.1], e.2)) d [r, c] = d := by
  apply lookup_of_not_mem
  simp only [keysOf, List.map_map, List.mem_map, Function.comp, not_exists, not_and]
  intro e _ he
  simp only [List.cons.injEq, and_true] at he
  exact h he.1

theorem lookup_tagRows (F : Nat → List (Nat × Int)) (d : Int) (r c : Nat) : ∀ (R : Nat),
    lookup (tagRows F R) d [r, c] = if r < R then rowGet (F r) d c else d
  | 0 => by simp [tagRows, lookup]
  | R + 1 => by
    unfold tagRows
    rw [List.range_succ, List.flatMap_append, lookup_append_default]
    have ih := lookup_tagRows F d r c R
    unfold tagRows at ih
    simp only [List.flatMap_cons, List.flatMap_nil, List.append_nil]
    by_cases hr : r = R
    · subst hr
      rw [lookup_tagged_row, if_pos (Nat.lt_succ_self _)]
      have := lookup_tagRows F (rowGet (F r) d c) r c r
      unfold tagRows at this
      rw [this, if_neg (Nat.lt_irrefl _)]
    · rw [lookup_tagged_other _ _ _ _ _ (Ne.symm hr), ih]
      by_cases h1 : r < R
      · rw [if_pos h1, if_pos (by omega)]
      · rw [if_neg h1, if_neg (by omega)]

theorem mem_tagRows {F : Nat → List (Nat × Int)} {R : Nat} {e : Idx × Int} (h : e ∈ tagRows F R) :
    ∃ r, r < R ∧ ∃ p ∈ F r, e = ([r, p.1], p.2) := by
  unfold tagRows at h
  obtain ⟨r, hr, he⟩ := List.mem_flatMap.mp h
  obtain ⟨p, hp, rfl⟩ := List.mem_map.mp he
  exact ⟨r, List.mem_range.mp hr, p, hp, rfl⟩

/-- rows with strictly increasing column numbers give pairwise distinct `[row, column]` keys -/
theorem tagRows_nodup (F : Nat → List (Nat × Int)) : ∀ (R : Nat),
    (∀ r, r < R → ((F r).map (·.1)).Pairwise (· < ·)) → (keysOf (tagRows F R)).Nodup
  | 0, _ => by simp [tagRows, keysOf]
  | R + 1, h => by
    have ih := tagRows_nodup F R (fun r hr => h r (by omega))
    unfold tagRows at ih ⊢
    rw [List.range_succ, List.flatMap_append]
    simp only [List.flatMap_cons, List.flatMap_nil, List.append_nil, keysOf, List.map_append]
    unfold keysOf at ih
    rw [List.nodup_append]
    refine ⟨ih, ?_, ?_⟩
    · rw [List.map_map]
      have hp := h R (Nat.lt_succ_self _)
      unfold List.Nodup
      rw [List.pairwise_map] at hp ⊢
      exact hp.imp (fun {a b} hab heq => by
        simp only [Function.comp, List.cons.injEq, true_and, and_true] at heq
        omega)
    · intro a ha b hb hab
      subst hab
      obtain ⟨e, he, rfl⟩ := List.mem_map.mp ha
      obtain ⟨r, hr, p, _, rfl⟩ := mem_tagRows (F := F) (R := R) (by unfold tagRows; exact he)
      obtain ⟨e2, he2, heq⟩ := List.mem_map.mp hb
      obtain ⟨p2, _, rfl⟩ := List.mem_map.mp he2
      simp only [List.cons.injEq, and_true] at heq
      omega

end GIx
end SparseV

namespace SparseV
open COO GIx

namespace GCXS

/-- linear location of an n-d index in the CSR view (`ravel` under the axis order) -/
def linOf (shape caxes : List Nat) (i : Idx) : Nat :=
  ravel (gather i (axisOrder shape.length caxes)) (gather shape (axisOrder shape.length caxes))

theorem csrR_mul_csrC (shape caxes : List Nat) :
    csrR shape caxes * csrC shape caxes = prod (gather shape (axisOrder shape.length caxes)) := by
  unfold csrR csrC
  rw [← prod_append, List.take_append_drop]

/-- **`tocoo` of a GCXS array whose flat 2-d entries are in range and pairwise distinct**: same shape and fill,
well-formed duplicate-free COO storage, and the value at `i` is the lookup of `[row, column]` of `i`'s linear
location in the CSR view. -/
theorem tocoo_get_entries (g : GCXS Int) (c : List Nat) (hc : g.caxes = some c) (hcnd : c.Nodup)
    (hclt : ∀ a ∈ c, a < g.shape.length)
    (hin : ∀ e ∈ csrEntries g.indptr g.indices g.data, InB e.1 [csrR g.shape c, csrC g.shape c])
    (hnd : (keysOf (csrEntries g.indptr g.indices g.data)).Nodup) :
    g.tocoo.shape = g.shape ∧ g.tocoo.fill = g.fill ∧ g.tocoo.WF ∧ (keysOf g.tocoo.entries).Nodup ∧
    ∀ i, InB i g.shape → g.tocoo.get i =
      lookup (csrEntries g.indptr g.indices g.data) g.fill
        [linOf g.shape c i / csrC g.shape c, linOf g.shape c i % csrC g.shape c] := by
  have hperm := axisOrder_perm g.shape.length c hcnd hclt
  obtain ⟨hplen, _, hpmem⟩ := perm_range_facts_c hperm
  have heq : g.tocoo = ((COO.build [csrR g.shape c, csrC g.shape c] (csrEntries g.indptr g.indices g.data) g.fill).reshapeCore
      (gather g.shape (axisOrder g.shape.length c))).transposeCore (invPerm (axisOrder g.shape.length c)) := by
    unfold tocoo
    rw [hc]
    rfl
  rw [heq]
  generalize hes : csrEntries g.indptr g.indices g.data = es at hin hnd ⊢
  have hc2 := build_wf_sorted [csrR g.shape c, csrC g.shape c] es g.fill false hin
  have hc2nd := sortedLin_keys_nodup _ _ hc2.2
  have hc2shape : (COO.build [csrR g.shape c, csrC g.shape c] es g.fill false true false).shape
      = [csrR g.shape c, csrC g.shape c] := rfl
  have hsize : prod (COO.build [csrR g.shape c, csrC g.shape c] es g.fill false true false).shape
      = prod (gather g.shape (axisOrder g.shape.length c)) := by
    rw [hc2shape, ← csrR_mul_csrC]; simp [prod]
  have hy1wf := reshapeCore_wf _ _ hc2.1 hsize
  have hy1nd := reshapeCore_nodup _ _ hc2.1 hsize hc2nd
  have hy1sh := reshapeCore_shape (COO.build [csrR g.shape c, csrC g.shape c] es g.fill false true false)
    (gather g.shape (axisOrder g.shape.length c))
  have hqperm : (invPerm (axisOrder g.shape.length c)).Perm
      (List.range ((COO.build [csrR g.shape c, csrC g.shape c] es g.fill false true false).reshapeCore
        (gather g.shape (axisOrder g.shape.length c))).shape.length) := by
    rw [hy1sh.1, gather_length, hplen]
    exact invPerm_perm hperm
  have hsh := transposeCore_shape ((COO.build [csrR g.shape c, csrC g.shape c] es g.fill false true false).reshapeCore
        (gather g.shape (axisOrder g.shape.length c))) (invPerm (axisOrder g.shape.length c))
  have hback : gather (gather g.shape (axisOrder g.shape.length c)) (invPerm (axisOrder g.shape.length c))
      = g.shape := gather_gather_invPerm_c hperm g.shape rfl
  refine ⟨?_, ?_, transposeCore_wf _ _ hqperm hy1wf, transposeCore_nodup _ _ hqperm hy1wf hy1nd, ?_⟩
  · rw [hsh.1, hy1sh.1, hback]
  · rw [hsh.2, hy1sh.2]; rfl
  · intro i hi
    have hi' : InB i (gather ((COO.build [csrR g.shape c, csrC g.shape c] es g.fill false true false).reshapeCore
        (gather g.shape (axisOrder g.shape.length c))).shape (invPerm (axisOrder g.shape.length c))) := by
      rw [hy1sh.1, hback]; exact hi
    rw [transposeCore_get _ _ hqperm hy1wf hy1nd i hi', invPerm_invPerm hperm]
    have hj : InB (gather i (axisOrder g.shape.length c)) (gather g.shape (axisOrder g.shape.length c)) :=
      InB_gather_c hi _ (fun a ha => (hpmem a).mp ha)
    rw [(SparseV.C08.reshape_get _ _ hc2.1 hsize _ hj).1, hc2shape]
    have hun : unravel (ravel (gather i (axisOrder g.shape.length c))
        (gather g.shape (axisOrder g.shape.length c))) [csrR g.shape c, csrC g.shape c]
        = [linOf g.shape c i / csrC g.shape c, linOf g.shape c i % csrC g.shape c] := by
      simp [unravel, prod, linOf]
    rw [hun, build_lookup_nodup _ _ _ false hin hnd]

theorem linOf_lt (shape c : List Nat) (hcnd : c.Nodup) (hclt : ∀ a ∈ c, a < shape.length) {i : Idx}
    (hi : InB i shape) : linOf shape c i < csrR shape c * csrC shape c := by
  have hperm := axisOrder_perm shape.length c hcnd hclt
  rw [csrR_mul_csrC]
  exact ravel_lt (InB_gather_c hi _ (fun a ha => ((perm_range_facts_c hperm).2.2 a).mp ha))

end GCXS
end SparseV

namespace SparseV
open COO GIx

namespace GIx

theorem mem_rowSlice {β : Type} {l : List β} {a b : Nat} {x : β} (h : x ∈ rowSlice l a b) : x ∈ l :=
  List.mem_of_mem_take (List.mem_of_mem_drop h)

theorem csrRow_fst (R C : Nat) (indptr indices : List Nat) (data : List Int)
    (h : CsrWF R C indptr indices data.length) (r : Nat) :
    (csrRow indptr indices data r).map (·.1) = rowSlice indices (indptr.getD r 0) (indptr.getD (r + 1) 0) := by
  unfold csrRow
  apply List.map_fst_zip
  rw [rowSlice_length, rowSlice_length, h.2.2.2.1]
  exact Nat.le_refl _

/-- what a well-formed CSR triple gives `tocoo`: in-range, pairwise distinct `[row, column]` keys, and the lookup of
`[r, c]` is the lookup of `c` in row `r` -/
theorem csr_facts (R C : Nat) (indptr indices : List Nat) (data : List Int)
    (h : CsrWF R C indptr indices data.length) :
    (∀ e ∈ csrEntries indptr indices data, InB e.1 [R, C]) ∧
    (keysOf (csrEntries indptr indices data)).Nodup ∧
    ∀ (d : Int) (r c : Nat), lookup (csrEntries indptr indices data) d [r, c] =
      if r < R then rowGet (csrRow indptr indices data r) d c else d := by
  rw [csrEntries_eq_tagRows R C indptr indices data h]
  refine ⟨?_, ?_, fun d r c => lookup_tagRows _ d r c R⟩
  · intro e he
    obtain ⟨r, hr, p, hp, rfl⟩ := mem_tagRows he
    refine ⟨hr, ?_, trivial⟩
    have : p.1 ∈ (csrRow indptr indices data r).map (·.1) := List.mem_map.mpr ⟨p, hp, rfl⟩
    rw [csrRow_fst R C indptr indices data h] at this
    exact h.2.2.2.2.2.2 _ (mem_rowSlice this)
  · apply tagRows_nodup
    intro r hr
    rw [csrRow_fst R C indptr indices data h]
    exact h.2.2.2.2.2.1 r hr

end GIx

namespace GCXS

/-- **`tocoo` of a well-formed GCXS array**: the value at an in-bounds index `i` is the value of column
`lin % C` in row `lin / C` of the CSR triple, `lin` the linear location of `i` under the axis order. -/
theorem tocoo_get (g : GCXS Int) (c : List Nat) (hc : g.caxes = some c) (hwf : g.WF) :
    g.tocoo.shape = g.shape ∧ g.tocoo.fill = g.fill ∧ g.tocoo.WF ∧ (keysOf g.tocoo.entries).Nodup ∧
    ∀ i, InB i g.shape → g.tocoo.get i =
      rowGet (csrRow g.indptr g.indices g.data (linOf g.shape c i / csrC g.shape c)) g.fill
        (linOf g.shape c i % csrC g.shape c) := by
  unfold WF at hwf
  rw [hc] at hwf
  obtain ⟨_, _, hpw, hclt, hcsr⟩ := hwf
  have hcnd : c.Nodup := hpw.imp (fun {a b} hab => by omega)
  obtain ⟨hin, hnd, hlk⟩ := csr_facts _ _ _ _ _ hcsr
  obtain ⟨h1, h2, h3, h4, h5⟩ := tocoo_get_entries g c hc hcnd hclt hin hnd
  refine ⟨h1, h2, h3, h4, fun i hi => ?_⟩
  rw [h5 i hi, hlk, if_pos]
  apply Nat.div_lt_of_lt_mul
  rw [Nat.mul_comm]
  exact linOf_lt g.shape c hcnd hclt hi

end GCXS
end SparseV

/-! ### assembling a CSR triple from a list of rows (what every kernel does: `indptr[i+1] = indptr[i] + len(row i)`) -/
namespace SparseV
open COO GIx
namespace GIx

theorem cumLens_length : ∀ (lens : List Nat) (acc : Nat), (cumLens acc lens).length = lens.length
  | [], _ => rfl
  | n :: ns, acc => by simp [cumLens, cumLens_length ns]

theorem ptr_getD : ∀ (lens : List Nat) (acc r : Nat), r ≤ lens.length →
    (acc :: cumLens acc lens).getD r 0 = acc + (lens.take r).sum
  | _, _, 0, _ => by simp
  | [], _, r + 1, h => by simp at h
  | n :: ns, acc, r + 1, h => by
    rw [List.getD_cons_succ]
    simp only [cumLens]
    rw [ptr_getD ns (acc + n) r (by simpa using h)]
    simp [Nat.add_assoc]

theorem sum_take_succ : ∀ (lens : List Nat) (r : Nat) (h : r < lens.length),
    (lens.take (r + 1)).sum = (lens.take r).sum + lens[r]
  | n :: ns, 0, _ => by simp
  | n :: ns, r + 1, h => by
    simp only [List.take_succ_cons, List.sum_cons, List.getElem_cons_succ]
    rw [sum_take_succ ns r (by simpa using h)]
    omega

theorem rowSlice_flatten {β : Type} : ∀ (F : List (List β)) (r : Nat) (h : r < F.length),
    rowSlice F.flatten ((F.map List.length).take r).sum ((F.map List.length).take (r + 1)).sum = F[r]
  | a :: F, 0, _ => by
    simp only [List.map_cons, List.take_zero, List.sum_nil, List.take_succ_cons, List.sum_cons, Nat.add_zero,
      List.flatten_cons, List.getElem_cons_zero, rowSlice, List.drop_zero]
    exact List.take_left' rfl
  | a :: F, r + 1, h => by
    simp only [List.map_cons, List.take_succ_cons, List.sum_cons, List.flatten_cons, List.getElem_cons_succ, rowSlice]
    rw [List.take_length_add_append, List.drop_length_add_append]
    exact rowSlice_flatten F r (by simpa using h)

theorem zip_map_fst_snd {β γ : Type} : ∀ (l : List (β × γ)), (l.map (·.1)).zip (l.map (·.2)) = l
  | [] => rfl
  | a :: l => by simp [zip_map_fst_snd l]

/-- the triple assembled from rows with strictly increasing in-range column numbers is a well-formed CSR triple whose
rows are the given ones -/
theorem fromRows_csr (rws : List (List (Nat × Int))) (C : Nat)
    (h1 : ∀ row ∈ rws, (row.map (·.1)).Pairwise (· < ·)) (h2 : ∀ row ∈ rws, ∀ e ∈ row, e.1 < C) :
    CsrWF rws.length C (0 :: cumLens 0 (rws.map List.length)) (rws.flatten.map (·.1)) (rws.flatten.map (·.2)).length ∧
    ∀ r (hr : r < rws.length),
      csrRow (0 :: cumLens 0 (rws.map List.length)) (rws.flatten.map (·.1)) (rws.flatten.map (·.2)) r = rws[r] := by
  have hp : ∀ r, r ≤ rws.length → (0 :: cumLens 0 (rws.map List.length)).getD r 0 = ((rws.map List.length).take r).sum := by
    intro r hr
    rw [ptr_getD _ 0 r (by simpa using hr), Nat.zero_add]
  have hfst : ∀ r (hr : r < rws.length), rowSlice (rws.flatten.map (·.1))
      ((0 :: cumLens 0 (rws.map List.length)).getD r 0) ((0 :: cumLens 0 (rws.map List.length)).getD (r + 1) 0)
      = rws[r].map (·.1) := by
    intro r hr
    rw [hp r (by omega), hp (r + 1) (by omega), List.map_flatten]
    have := rowSlice_flatten (rws.map (List.map (·.1))) r (by simpa using hr)
    simp only [List.map_map, List.getElem_map] at this
    have hl : (List.length ∘ List.map (fun x : Nat × Int => x.1)) = List.length := by
      funext l; simp
    rw [hl] at this
    exact this
  have hsnd : ∀ r (hr : r < rws.length), rowSlice (rws.flatten.map (·.2))
      ((0 :: cumLens 0 (rws.map List.length)).getD r 0) ((0 :: cumLens 0 (rws.map List.length)).getD (r + 1) 0)
      = rws[r].map (·.2) := by
    intro r hr
    rw [hp r (by omega), hp (r + 1) (by omega), List.map_flatten]
    have := rowSlice_flatten (rws.map (List.map (·.2))) r (by simpa using hr)
    simp only [List.map_map, List.getElem_map] at this
    have hl : (List.length ∘ List.map (fun x : Nat × Int => x.2)) = List.length := by
      funext l; simp
    rw [hl] at this
    exact this
  refine ⟨⟨by simp [cumLens_length], by simp, ?_, by simp only [List.length_map], ?_, ?_, ?_⟩, ?_⟩
  · rw [hp _ (Nat.le_refl _), List.take_of_length_le (by simp), List.length_map, List.length_flatten]
  · intro r hr
    rw [hp r (by omega), hp (r + 1) (by omega), sum_take_succ _ r (by simpa using hr)]
    omega
  · intro r hr
    rw [hfst r hr]
    exact h1 _ (List.getElem_mem hr)
  · intro c hc
    obtain ⟨e, he, rfl⟩ := List.mem_map.mp hc
    obtain ⟨row, hrow, herow⟩ := List.mem_flatten.mp he
    exact h2 row hrow e herow
  · intro r hr
    unfold csrRow
    rw [hfst r hr, hsnd r hr]
    exact zip_map_fst_snd _

end GIx
end SparseV

/-
  SparseV.Lemmas.DokKey — `normalize_index` on int/slice keys against Python's selection rule
  (through the C02 theorems), the slice bounds of `DOK._setitem` (generated) against the
  normalised slice, invariants kept by the recursion, selected keys lie inside the shape.
-/
import SparseV.Lemmas.DokSet
import SparseV.Props.C02
import SparseV.Lemmas.Gen.Dok
namespace SparseV
namespace Dok
open Spec
variable {α : Type}

/-! ### normalisation of the key = Python's selection -/

def selOf : NPart → Sel
  | .int n => .int n
  | .slice a b c => .range (rangeOf (a, b, c))

theorem nkSels_cons (x : NPart × Int) (xs : List (NPart × Int)) : nkSels (x :: xs) = selOf x.1 :: nkSels xs := by
  obtain ⟨p, d⟩ := x
  cases p <;> rfl

theorem normPart_spec (p : KeyPart) (d : Nat) (hs : stepNonzero p = true) :
    (∀ x, normPart p d = .ok x → pySel p d = .ok (selOf x.1) ∧ x.2 = d) ∧
    (∀ e, normPart p d = .error e → pySel p d = .error e) := by
  cases p with
  | int n =>
    have h := C02.normalize_int_spec n d
    simp only [normPart, pySel]
    by_cases hc : -(d : Int) ≤ n ∧ n < d
    · simp only [hc, and_self, if_true] at h ⊢
      rw [h]
      constructor
      · intro x hx
        simp only [Except.ok.injEq] at hx
        subst hx
        exact ⟨rfl, rfl⟩
      · intro e he; simp at he
    · simp only [hc, if_false] at h ⊢
      rw [h]
      constructor
      · intro x hx; simp at hx
      · intro e he
        simp only [Except.error.injEq] at he
        subst he; rfl
  | slice a b c =>
    have hc : c ≠ some 0 := by
      simp only [stepNonzero, bne_iff_ne, ne_eq] at hs
      exact hs
    have h := C02.normalize_slice_range a b c d (Int.natCast_nonneg d) hc
    simp only [normPart, pySel]
    constructor
    · intro x hx
      simp only [Except.ok.injEq] at hx
      subst hx
      simp only [selOf]
      refine ⟨?_, trivial⟩
      have : ((normalizeSlice a b c d).1, (normalizeSlice a b c d).2.1, (normalizeSlice a b c d).2.2)
          = normalizeSlice a b c d := rfl
      rw [this, h]
    · intro e he; simp at he

theorem normParts_spec : ∀ (key : List KeyPart) (shape : List Nat), key.all stepNonzero = true →
    (∀ nk, normParts key shape = .ok nk → pySels key shape = .ok (nkSels nk)) ∧
    (∀ e, normParts key shape = .error e → pySels key shape = .error e) := by
  intro key
  induction key with
  | nil =>
    intro shape _
    cases shape with
    | nil =>
      constructor
      · intro nk h; simp only [normParts, Except.ok.injEq] at h; subst h; rfl
      · intro e h; simp [normParts] at h
    | cons d ds =>
      constructor
      · intro nk h; simp [normParts] at h
      · intro e h; simp only [normParts, Except.error.injEq] at h; subst h; rfl
  | cons p ps ih =>
    intro shape hall
    simp only [List.all_cons, Bool.and_eq_true] at hall
    cases shape with
    | nil =>
      constructor
      · intro nk h; simp [normParts] at h
      · intro e h; simp only [normParts, Except.error.injEq] at h; subst h; rfl
    | cons d ds =>
      have hp := normPart_spec p d hall.1
      have hps := ih ds hall.2
      simp only [normParts, pySels]
      cases h1 : normPart p d with
      | error e =>
        rw [hp.2 e h1]
        constructor
        · intro nk h; simp at h
        · intro e' h; simp only [Except.error.injEq] at h; subst h; rfl
      | ok x =>
        rw [(hp.1 x h1).1]
        cases h2 : normParts ps ds with
        | error e =>
          rw [hps.2 e h2]
          constructor
          · intro nk h; simp at h
          · intro e' h; simp only [Except.error.injEq] at h; subst h; rfl
        | ok xs =>
          rw [hps.1 xs h2]
          constructor
          · intro nk h
            simp only [Except.ok.injEq] at h
            subst h
            rw [nkSels_cons]
          · intro e h; simp at h

theorem padKey_stepNonzero (key : List KeyPart) (n : Nat) (h : key.all stepNonzero = true) :
    (padKey key n).all stepNonzero = true := by
  simp only [padKey, List.all_append, h, Bool.true_and, List.all_eq_true]
  intro x hx
  rw [List.mem_replicate] at hx
  rw [hx.2]
  rfl

/-! ### the slice bounds -/

/-- every slice of the key is visited as normalised by this bounds function -/
def SlicesOK (bounds : Option Int → Option Int → Option Int → Int → Int × Int × Int) :
    List KeyPart → List Nat → Prop
  | .slice a b c :: ps, d :: ds =>
    BoundsOK bounds (normalizeSlice a b c d).1 (normalizeSlice a b c d).2.1 (normalizeSlice a b c d).2.2 d
      ∧ SlicesOK bounds ps ds
  | .int _ :: ps, _ :: ds => SlicesOK bounds ps ds
  | _, _ => True

theorem boundsOKAll_of_slicesOK (bounds : Option Int → Option Int → Option Int → Int → Int × Int × Int) :
    ∀ (key : List KeyPart) (shape : List Nat) (nk : List (NPart × Int)),
      normParts key shape = .ok nk → SlicesOK bounds key shape → BoundsOKAll bounds nk := by
  intro key
  induction key with
  | nil =>
    intro shape nk h _
    cases shape with
    | nil => simp only [normParts, Except.ok.injEq] at h; subst h; trivial
    | cons d ds => simp [normParts] at h
  | cons p ps ih =>
    intro shape nk h hok
    cases shape with
    | nil => simp [normParts] at h
    | cons d ds =>
      simp only [normParts] at h
      cases h1 : normPart p d with
      | error e => simp [h1] at h
      | ok x =>
        cases h2 : normParts ps ds with
        | error e => simp [h1, h2] at h
        | ok xs =>
          simp only [h1, h2, Except.ok.injEq] at h
          subst h
          cases p with
          | int n =>
            simp only [SlicesOK] at hok
            simp only [normPart] at h1
            cases h3 : normalizeInt n d with
            | error e => simp [h3] at h1
            | ok m =>
              simp only [h3, Except.ok.injEq] at h1
              subst h1
              exact ih ds xs h2 hok
          | slice a b c =>
            simp only [SlicesOK] at hok
            simp only [normPart, Except.ok.injEq] at h1
            subst h1
            exact ⟨hok.1, ih ds xs h2 hok.2⟩

/-- re-clipping a clipped slice changes nothing: the repaired bounds return the normalised slice itself -/
theorem fixed_bounds_clip (s e st d : Int) (_hst : st ≠ 0) :
    dokSliceBoundsFixed (some (Gen.clipSlice s e st d).1) (some (Gen.clipSlice s e st d).2.1)
      (some (Gen.clipSlice s e st d).2.2) d = Gen.clipSlice s e st d := by
  simp only [dokSliceBoundsFixed, Gen.clipSlice_eq, Ref.clipSlice]
  grind

theorem clip_step (s e st d : Int) : (Gen.clipSlice s e st d).2.2 = st := by
  rw [Gen.clipSlice_eq, Ref.clipSlice_step]

theorem normalizeSlice_step (a b c : Option Int) (d : Int) : (normalizeSlice a b c d).2.2 = c.getD 1 := by
  rw [normalizeSlice_eq, Ref.normalizeSlice_step]

theorem normalizeSlice_eq_clip (a b c : Option Int) (d : Int) :
    ∃ s e st, normalizeSlice a b c d = Gen.clipSlice s e st d ∧ st = c.getD 1 := by
  refine ⟨_, _, _, rfl, ?_⟩
  rw [← normalizeSlice_step a b c d]
  simp only [normalizeSlice, clip_step]

theorem getD_one_ne_zero {c : Option Int} (hc : c ≠ some 0) : c.getD 1 ≠ 0 := by
  cases c with
  | none => simp
  | some x => simp only [Option.getD_some]; intro h; exact hc (by rw [h])

theorem fixed_boundsOK (a b c : Option Int) (d : Nat) (hc : c ≠ some 0) :
    BoundsOK dokSliceBoundsFixed (normalizeSlice a b c d).1 (normalizeSlice a b c d).2.1
      (normalizeSlice a b c d).2.2 d := by
  obtain ⟨s, e, st, hn, hst⟩ := normalizeSlice_eq_clip a b c d
  have hst0 : st ≠ 0 := hst ▸ getD_one_ne_zero hc
  have := fixed_bounds_clip s e st d hst0
  rw [hn]
  unfold BoundsOK
  rw [this]
  exact ⟨by rw [clip_step]; exact hst0, rfl⟩

theorem slicesOK_fixed : ∀ (key : List KeyPart) (shape : List Nat), key.all stepNonzero = true →
    SlicesOK dokSliceBoundsFixed key shape := by
  intro key
  induction key with
  | nil => intro shape _; cases shape <;> trivial
  | cons p ps ih =>
    intro shape hall
    simp only [List.all_cons, Bool.and_eq_true] at hall
    cases shape with
    | nil => cases p <;> trivial
    | cons d ds =>
      cases p with
      | int n => exact ih ds hall.2
      | slice a b c =>
        have hc : c ≠ some 0 := by
          have := hall.1
          simp only [stepNonzero, bne_iff_ne, ne_eq] at this
          exact this
        exact ⟨fixed_boundsOK a b c d hc, ih ds hall.2⟩

/-! ### invariants kept by the recursion -/

theorem loopS_preserves {σ : Type} (P : σ → Prop) (f : Int → Nat → σ → σ × Option Err)
    (hf : ∀ k i s, P s → P (f k i s).1) : ∀ (ks : List Int) (i : Nat) (s : σ), P s → P (loopS f ks i s).1 := by
  intro ks
  induction ks with
  | nil => intro i s h; exact h
  | cons k ks ih =>
    intro i s h
    simp only [loopS]
    have := hf k i s h
    rcases hfk : f k i s with ⟨s', e⟩
    rw [hfk] at this
    cases e with
    | some e => exact this
    | none => exact ih (i + 1) s' this

/-- whatever every single store keeps, `_setitem` keeps — also when it raises half-way -/
theorem setRec_preserves [DecidableEq α]
    (bounds : Option Int → Option Int → Option Int → Int → Int × Int × Int) (fill : α)
    (P : List (DKey × α) → Prop) (hP : ∀ es k x, P es → P (store fill es k x)) :
    ∀ (nk : List (NPart × Int)) (pre : DKey) (v : Val α) (es : List (DKey × α)),
      P es → P (setRec bounds fill nk pre v es).1 := by
  intro nk
  induction nk with
  | nil =>
    intro pre v es h
    simp only [setRec]
    split
    · exact h
    · split
      · exact hP _ _ _ h
      · exact h
  | cons hd rest ih =>
    intro pre v es h
    obtain ⟨part, dim⟩ := hd
    cases part with
    | int n => simp only [setRec]; exact ih _ _ _ h
    | slice a b c =>
      simp only [setRec]
      split
      · exact h
      · split
        · exact h
        · apply loopS_preserves P _ _ _ _ _ h
          intro k i s hs
          split
          · exact ih _ _ _ hs
          · split
            · exact hs
            · exact ih _ _ _ hs

/-! ### selected keys lie inside the shape -/

theorem findPos_mem {xs : List Int} {i : Int} {j : Nat} (h : findPos xs i = some j) : i ∈ xs := by
  induction xs generalizing j with
  | nil => simp [findPos] at h
  | cons x xs ih =>
    simp only [findPos] at h
    by_cases hx : x = i
    · rw [hx]; exact List.mem_cons_self
    · simp only [hx, if_false] at h
      cases hf : findPos xs i with
      | none => simp [hf] at h
      | some j' => exact List.mem_cons_of_mem _ (ih hf)

theorem pySels_inb : ∀ (key : List KeyPart) (shape : List Nat) (sels : List Sel),
    key.all stepNonzero = true → pySels key shape = .ok sels →
    ∀ k p, posOf sels k = some p → InBI k shape := by
  intro key
  induction key with
  | nil =>
    intro shape sels _ h k p hp
    cases shape with
    | nil =>
      simp only [pySels, Except.ok.injEq] at h
      subst h
      cases k with
      | nil => trivial
      | cons i is => simp [posOf] at hp
    | cons d ds => simp [pySels] at h
  | cons q qs ih =>
    intro shape sels hall h k p hp
    simp only [List.all_cons, Bool.and_eq_true] at hall
    cases shape with
    | nil => simp [pySels] at h
    | cons d ds =>
      simp only [pySels] at h
      cases h1 : pySel q d with
      | error e => simp [h1] at h
      | ok x =>
        cases h2 : pySels qs ds with
        | error e => simp [h1, h2] at h
        | ok xs =>
          simp only [h1, h2, Except.ok.injEq] at h
          subst h
          cases k with
          | nil => cases x <;> simp [posOf] at hp
          | cons i is =>
            cases q with
            | int n =>
              simp only [pySel] at h1
              split at h1
              · rename_i hr
                simp only [Except.ok.injEq] at h1
                subst h1
                have hm : 0 ≤ (if n < 0 then n + (d : Int) else n) ∧ (if n < 0 then n + (d : Int) else n) < d := by
                  split <;> omega
                simp only [posOf] at hp
                by_cases hmi : (if n < 0 then n + (d : Int) else n) = i
                · simp only [hmi, if_true] at hp
                  exact ⟨hmi ▸ hm, ih ds xs hall.2 h2 is p hp⟩
                · simp [hmi] at hp
              · simp at h1
            | slice a b c =>
              simp only [pySel, Except.ok.injEq] at h1
              subst h1
              simp only [posOf] at hp
              cases hf : findPos (rangeOf (pyAdjust a b (c.getD 1) d)) i with
              | none => simp [hf] at hp
              | some j =>
                simp only [hf] at hp
                cases hq : posOf xs is with
                | none => simp [hq] at hp
                | some q' =>
                  have hc : c ≠ some 0 := by
                    have := hall.1
                    simp only [stepNonzero, bne_iff_ne, ne_eq] at this
                    exact this
                  exact ⟨mem_rangeOf_pyAdjust (Int.natCast_nonneg d) (getD_one_ne_zero hc) (findPos_mem hf),
                    ih ds xs hall.2 h2 is q' hq⟩

end Dok
end SparseV

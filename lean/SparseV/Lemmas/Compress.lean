/-
  SparseV.Lemmas.Compress — the compressed (GCXS/CSR) storage: `uncompress ∘ cumsum ∘ bincount` is the
  identity on sorted row lists; gathers along a permutation and its inverse; `transpose`; the
  `_from_coo` / `tocoo` chain.
-/
import SparseV.Lemmas.Build
import SparseV.Lemmas.Rewrite
import SparseV.Model.Gcxs
import SparseV.Props.C08
namespace SparseV
open COO

/-! ### indptr -/

theorem sorted_split (R : Nat) : ∀ rows : List Nat, rows.Pairwise (· ≤ ·) →
    rows = rows.filter (· < R) ++ rows.filter (fun r => R ≤ r)
  | [], _ => rfl
  | a :: l, h => by
    simp only [List.pairwise_cons] at h
    by_cases ha : a < R
    · have h2 : ¬ R ≤ a := by omega
      simp only [List.filter_cons, ha, h2, decide_true, decide_false, if_true, List.cons_append]
      simp only [Bool.false_eq_true, if_false]
      congr 1
      exact sorted_split R l h.2
    · have h2 : R ≤ a := by omega
      have e1 : (a :: l).filter (· < R) = [] := by
        rw [List.filter_eq_nil_iff]
        intro b hb
        rcases List.mem_cons.mp hb with hb | hb
        · simp [hb, ha]
        · have := h.1 b hb; simp; omega
      have e2 : (a :: l).filter (fun r => R ≤ r) = a :: l := by
        rw [List.filter_eq_self]
        intro b hb
        rcases List.mem_cons.mp hb with hb | hb
        · simp [hb, h2]
        · have := h.1 b hb; simp; omega
      rw [e1, e2]; rfl

theorem countLt_filter (rows : List Nat) (R k : Nat) (hk : k ≤ R) :
    countLt (rows.filter (· < R)) k = countLt rows k := by
  unfold countLt
  rw [List.filter_filter]
  congr 1
  apply List.filter_congr
  intro a _
  by_cases h : a < k
  · have : a < R := by omega
    simp [h, this]
  · simp [h]

theorem uncompress_aux : ∀ (R : Nat) (rows : List Nat), rows.Pairwise (· ≤ ·) → (∀ r ∈ rows, r < R) →
    (List.range R).flatMap (fun i => List.replicate (countLt rows (i + 1) - countLt rows i) i) = rows
  | 0, rows, _, hlt => by
    simp only [List.range_zero, List.flatMap_nil]
    symm
    rw [List.eq_nil_iff_forall_not_mem]
    intro a ha
    have := hlt a ha
    omega
  | R + 1, rows, hs, hlt => by
    rw [List.range_succ, List.flatMap_append, List.flatMap_singleton]
    have ih := uncompress_aux R (rows.filter (· < R)) (hs.sublist List.filter_sublist)
      (fun r hr => by simpa using (List.mem_filter.mp hr).2)
    have hcongr : (List.range R).flatMap (fun i => List.replicate (countLt rows (i + 1) - countLt rows i) i)
        = (List.range R).flatMap
            (fun i => List.replicate (countLt (rows.filter (· < R)) (i + 1) - countLt (rows.filter (· < R)) i) i) := by
      apply flatMap_congr'
      intro i hi
      have hi' : i < R := List.mem_range.mp hi
      rw [countLt_filter rows R (i + 1) (by omega), countLt_filter rows R i (by omega)]
    rw [hcongr, ih]
    have hsplit := sorted_split R rows hs
    have htail : List.replicate (countLt rows (R + 1) - countLt rows R) R = rows.filter (fun r => R ≤ r) := by
      symm
      rw [List.eq_replicate_iff]
      constructor
      · have hall : countLt rows (R + 1) = rows.length := by
          unfold countLt
          rw [List.filter_eq_self.mpr]
          intro a ha
          have := hlt a ha
          simpa using this
        have hlen := congrArg List.length hsplit
        rw [List.length_append] at hlen
        rw [hall]
        unfold countLt
        omega
      · intro b hb
        have h1 := (List.mem_filter.mp hb)
        have h2 := hlt b h1.1
        have h3 : R ≤ b := by simpa using h1.2
        omega
    rw [htail]
    exact hsplit.symm

/-- **uncompress ∘ cumsum ∘ bincount = id** on non-decreasing row lists below `R` -/
theorem uncompress_indptrOf' (rows : List Nat) (R : Nat) (hs : rows.Pairwise (· ≤ ·))
    (hlt : ∀ r ∈ rows, r < R) : uncompress (indptrOf rows R) = rows := by
  unfold uncompress indptrOf
  simp only [List.length_map, List.length_range, Nat.add_sub_cancel]
  refine Eq.trans ?_ (uncompress_aux R rows hs hlt)
  apply flatMap_congr'
  intro i hi
  have hi' : i < R := List.mem_range.mp hi
  have h1 : i + 1 < R + 1 := by omega
  have h2 : i < R + 1 := by omega
  simp [List.getD_eq_getElem?_getD, h1, h2]

/-! ### gathers along a permutation -/

theorem gather_length (l p : List Nat) : (gather l p).length = p.length := by simp [gather]

theorem gather_cons (l : List Nat) (a : Nat) (p : List Nat) :
    gather l (a :: p) = l.getD a 0 :: gather l p := rfl

theorem getD_gather (l p : List Nat) (k : Nat) (hk : k < p.length) :
    (gather l p).getD k 0 = l.getD (p[k]) 0 := by
  simp [gather, List.getD_eq_getElem?_getD, hk]

/-- reading a list at `0, 1, …, n-1` gives the list back -/
theorem gather_self_range (l : List Nat) (n : Nat) (h : l.length = n) : gather l (List.range n) = l := by
  apply List.ext_getElem
  · simp [gather, h]
  · intro k h1 h2
    simp [gather, List.getD_eq_getElem?_getD, h2]

theorem gather_range_c (n : Nat) (r : List Nat) (h : ∀ a ∈ r, a < n) : gather (List.range n) r = r := by
  unfold gather
  conv => rhs; rw [← List.map_id r]
  apply List.map_congr_left
  intro a ha
  have := h a ha
  simp [List.getD_eq_getElem?_getD, this]

theorem perm_range_facts_c {p : List Nat} {n : Nat} (hp : p.Perm (List.range n)) :
    p.length = n ∧ p.Nodup ∧ ∀ a, a ∈ p ↔ a < n :=
  ⟨by simpa using hp.length_eq, hp.nodup_iff.mpr List.nodup_range,
   fun a => by rw [hp.mem_iff, List.mem_range]⟩

theorem invPerm_length (p : List Nat) : (invPerm p).length = p.length := by simp [invPerm]

/-- `x[p][argsort p] = x` -/
theorem gather_gather_invPerm_c {p : List Nat} {n : Nat} (hp : p.Perm (List.range n)) (l : List Nat)
    (hl : l.length = n) : gather (gather l p) (invPerm p) = l := by
  obtain ⟨hlen, hnd, hmem⟩ := perm_range_facts_c hp
  refine Eq.trans ?_ (gather_self_range l n hl)
  unfold invPerm
  rw [hlen]
  unfold gather
  rw [List.map_map]
  apply List.map_congr_left
  intro a ha
  have ha' : a ∈ p := (hmem a).mpr (List.mem_range.mp ha)
  have hlt : p.idxOf a < p.length := List.idxOf_lt_length_of_mem ha'
  have := getD_gather l p (p.idxOf a) hlt
  unfold gather at this
  simp only [Function.comp]
  rw [this, List.getElem_idxOf]

/-- `x[argsort p][p] = x` -/
theorem gather_invPerm_gather_c {p : List Nat} {n : Nat} (hp : p.Perm (List.range n)) (l : List Nat)
    (hl : l.length = n) : gather (gather l (invPerm p)) p = l := by
  obtain ⟨hlen, hnd, hmem⟩ := perm_range_facts_c hp
  apply List.ext_getElem
  · rw [gather_length, hlen, hl]
  · intro k h1 h2
    rw [gather_length] at h1
    have hk : p[k] < (invPerm p).length := by
      rw [invPerm_length, hlen]; exact (hmem _).mp (List.getElem_mem h1)
    have e1 : (gather (gather l (invPerm p)) p)[k]'(by rw [gather_length]; exact h1)
        = (gather l (invPerm p)).getD (p[k]) 0 := by
      simp [gather]
    rw [e1, getD_gather l (invPerm p) (p[k]) hk]
    have e2 : (invPerm p)[p[k]] = k := by
      simp only [invPerm, List.getElem_map, List.getElem_range]
      exact hnd.idxOf_getElem k h1
    rw [e2]
    simp [List.getD_eq_getElem?_getD, h2]

theorem invPerm_perm {p : List Nat} {n : Nat} (hp : p.Perm (List.range n)) :
    (invPerm p).Perm (List.range n) := by
  obtain ⟨hlen, hnd, hmem⟩ := perm_range_facts_c hp
  have h1 : p.map (fun a => p.idxOf a) = List.range n := by
    apply List.ext_getElem
    · simp [hlen]
    · intro k h1 h2
      simp only [List.getElem_map, List.getElem_range]
      exact hnd.idxOf_getElem k (by simpa using h1)
  have h2 : (p.map (fun a => p.idxOf a)).Perm ((List.range n).map (fun a => p.idxOf a)) := hp.map _
  unfold invPerm
  rw [hlen]
  rw [h1] at h2
  exact h2.symm

theorem invPerm_invPerm {p : List Nat} {n : Nat} (hp : p.Perm (List.range n)) : invPerm (invPerm p) = p := by
  have hq := invPerm_perm hp
  have hqq := invPerm_perm hq
  obtain ⟨hlen, _, hmem⟩ := perm_range_facts_c hp
  obtain ⟨_, _, hmem2⟩ := perm_range_facts_c hqq
  -- read `range n` through both
  have e1 : gather (List.range n) p = p := gather_range_c n p (fun a ha => (hmem a).mp ha)
  have e2 : gather (List.range n) (invPerm (invPerm p)) = invPerm (invPerm p) :=
    gather_range_c n _ (fun a ha => (hmem2 a).mp ha)
  have hl : (gather (List.range n) p).length = n := by rw [gather_length, hlen]
  have r1 := gather_gather_invPerm_c hp (List.range n) (by simp)
  have a2 := gather_gather_invPerm_c hq (gather (List.range n) p) hl
  rw [r1] at a2
  rw [← e2, a2, e1]

theorem InB_gather_c {i s : List Nat} (h : InB i s) : ∀ (p : List Nat), (∀ a ∈ p, a < s.length) →
    InB (gather i p) (gather s p)
  | [], _ => by simp [gather]
  | a :: p, hp => by
    rw [gather_cons, gather_cons, InB_cons]
    refine ⟨?_, InB_gather_c h p (fun b hb => hp b (List.mem_cons_of_mem _ hb))⟩
    have ha := hp a List.mem_cons_self
    clear hp
    induction i generalizing s a with
    | nil => cases s with
      | nil => simp at ha
      | cons d ds => exact absurd h (by simp)
    | cons i0 is ih => cases s with
      | nil => exact absurd h (by simp)
      | cons d ds =>
        cases a with
        | zero => simpa using h.1
        | succ a =>
          have := ih h.2 a (by simpa using ha)
          simpa using this

/-! ### transpose -/

namespace COO
variable {α : Type}

theorem transposeCore_shape (x : COO α) (axes : List Nat) :
    (x.transposeCore axes).shape = gather x.shape axes ∧ (x.transposeCore axes).fill = x.fill := by
  unfold transposeCore
  by_cases h : axes = List.range x.shape.length
  · simp only [h, if_true, and_true]
    exact (gather_self_range x.shape _ rfl).symm
  · simp only [h, if_false, and_true]

/-- **transpose_get** (any axis permutation): result element `j` is operand element `j[argsort axes]` -/
theorem transposeCore_get (x : COO α) (axes : List Nat) (hp : axes.Perm (List.range x.shape.length))
    (hwf : x.WF) (hnd : (keysOf x.entries).Nodup) (j : Idx) (hj : InB j (gather x.shape axes)) :
    (x.transposeCore axes).get j = x.get (gather j (invPerm axes)) := by
  obtain ⟨hlen, _, hmem⟩ := perm_range_facts_c hp
  have hjl : j.length = x.shape.length := by rw [InB_length hj, gather_length, hlen]
  unfold transposeCore
  by_cases h : axes = List.range x.shape.length
  · simp only [h, if_true]
    have := gather_gather_invPerm_c (h ▸ hp) j hjl
    rw [gather_self_range j _ hjl] at this
    rw [this]
  · simp only [h, if_false, COO.get]
    rw [mapIdx_eq_rewrite]
    refine rewrite_sort_lookup _ _ _ _ (fun j => gather j (invPerm axes)) j hnd ?_ ?_
    · intro e he j' hg
      simp only [Option.some.injEq] at hg
      rw [← hg]
      exact gather_gather_invPerm_c hp e.1 (InB_length (hwf e he))
    · simp only [Option.some.injEq]
      exact gather_invPerm_gather_c hp j hjl

theorem transposeCore_wf (x : COO α) (axes : List Nat) (hp : axes.Perm (List.range x.shape.length))
    (hwf : x.WF) : (x.transposeCore axes).WF := by
  obtain ⟨_, _, hmem⟩ := perm_range_facts_c hp
  unfold transposeCore
  by_cases h : axes = List.range x.shape.length
  · simp only [h, if_true]; exact hwf
  · simp only [h, if_false]
    intro e he
    simp only at he ⊢
    obtain ⟨e0, he0, rfl⟩ := List.mem_map.mp (mem_sortEntries.mp he)
    exact InB_gather_c (hwf e0 he0) axes (fun a ha => (hmem a).mp ha)

theorem transposeCore_nodup (x : COO α) (axes : List Nat) (hp : axes.Perm (List.range x.shape.length))
    (hwf : x.WF) (hnd : (keysOf x.entries).Nodup) : (keysOf (x.transposeCore axes).entries).Nodup := by
  unfold transposeCore
  by_cases h : axes = List.range x.shape.length
  · simp only [h, if_true]; exact hnd
  · simp only [h, if_false]
    apply nodup_sortEntries
    rw [mapIdx_eq_rewrite]
    refine rewrite_nodup _ _ (fun j => gather j (invPerm axes)) ?_ hnd
    intro e he j' hg
    simp only [Option.some.injEq] at hg
    rw [← hg]
    exact gather_gather_invPerm_c hp e.1 (InB_length (hwf e he))

/-! ### reshape keeps well-formedness and distinctness -/

theorem reshapeCore_wf (x : COO α) (s : List Nat) (hwf : x.WF) (hsize : prod x.shape = prod s) :
    (x.reshapeCore s).WF := by
  unfold reshapeCore
  by_cases hs : x.shape = s
  · simp only [hs, if_true]; exact hwf
  · simp only [hs, if_false]
    intro e he
    simp only at he ⊢
    obtain ⟨e0, he0, rfl⟩ := List.mem_map.mp he
    exact unravel_InB s _ (hsize ▸ ravel_lt (hwf e0 he0))

theorem reshapeCore_nodup (x : COO α) (s : List Nat) (hwf : x.WF) (hsize : prod x.shape = prod s)
    (hnd : (keysOf x.entries).Nodup) : (keysOf (x.reshapeCore s).entries).Nodup := by
  unfold reshapeCore
  by_cases hs : x.shape = s
  · simp only [hs, if_true]; exact hnd
  · simp only [hs, if_false]
    rw [mapIdx_eq_rewrite]
    refine rewrite_nodup _ _ (fun j => unravel (ravel j s) x.shape) ?_ hnd
    intro e he j' hg
    have hin : InB e.1 x.shape := hwf e he
    have hlt : ravel e.1 x.shape < prod s := hsize ▸ ravel_lt hin
    simp only [Option.some.injEq] at hg
    rw [← hg, ravel_unravel s _ hlt, unravel_ravel hin]

end COO

/-! ### `_from_coo` then `tocoo` -/

theorem prod_append (a b : List Nat) : prod (a ++ b) = prod a * prod b := by
  induction a with
  | nil => simp [prod]
  | cons d ds ih => simp [prod, ih, Nat.mul_assoc]

/-- `_axis_order` is a permutation of the axes -/
theorem axisOrder_perm (n : Nat) (caxes : List Nat) (hnd : caxes.Nodup) (hlt : ∀ a ∈ caxes, a < n) :
    (axisOrder n caxes).Perm (List.range n) := by
  unfold axisOrder restAxes
  have h1 := List.filter_append_perm (fun a => caxes.contains a) (List.range n)
  have h2 : ((List.range n).filter (fun a => caxes.contains a)).Perm caxes := by
    rw [List.perm_ext_iff_of_nodup (List.Pairwise.filter _ List.nodup_range) hnd]
    intro a
    simp only [List.mem_filter, List.mem_range, List.contains_iff_mem]
    exact ⟨fun h => h.2, fun h => ⟨hlt a h, h⟩⟩
  exact (h2.symm.append_right _).trans h1

namespace GCXS

/-- the (row-major, under the axis order) sorted linear-location listing `_from_coo` builds -/
def csSorted (x : COO Int) (caxes : List Nat) : List (Nat × Int) :=
  let order := axisOrder x.shape.length caxes
  let rshape := gather x.shape order
  (x.entries.map fun e => (ravel (gather e.1 order) rshape, e.2)).mergeSort fun a b => decide (a.1 ≤ b.1)

def csC (x : COO Int) (caxes : List Nat) : Nat :=
  prod ((gather x.shape (axisOrder x.shape.length caxes)).drop caxes.length)
def csR (x : COO Int) (caxes : List Nat) : Nat :=
  prod ((gather x.shape (axisOrder x.shape.length caxes)).take caxes.length)

/-- the 2-d entries `tocoo` hands to the COO constructor -/
def csEs (x : COO Int) (caxes : List Nat) : List (Idx × Int) :=
  (csSorted x caxes).map fun e => ([e.1 / csC x caxes, e.1 % csC x caxes], e.2)

/-- linear location under the axis order -/
def gLin (x : COO Int) (caxes : List Nat) (k : Idx) : Nat :=
  ravel (gather k (axisOrder x.shape.length caxes)) (gather x.shape (axisOrder x.shape.length caxes))

/-- the `[row, column]` coordinate of an index in the compressed view -/
def gKey (x : COO Int) (caxes : List Nat) (k : Idx) : Idx :=
  [gLin x caxes k / csC x caxes, gLin x caxes k % csC x caxes]

theorem csR_mul_csC (x : COO Int) (caxes : List Nat) :
    csC x caxes * csR x caxes = prod (gather x.shape (axisOrder x.shape.length caxes)) := by
  unfold csR csC
  rw [Nat.mul_comm, ← prod_append, List.take_append_drop]

theorem gLin_lt (x : COO Int) (caxes : List Nat)
    (hperm : (axisOrder x.shape.length caxes).Perm (List.range x.shape.length)) {k : Idx}
    (hk : InB k x.shape) : gLin x caxes k < csC x caxes * csR x caxes := by
  rw [csR_mul_csC]
  exact ravel_lt (InB_gather_c hk _ (fun a ha => ((perm_range_facts_c hperm).2.2 a).mp ha))

theorem csSorted_facts (x : COO Int) (caxes : List Nat) (hwf : x.WF)
    (hperm : (axisOrder x.shape.length caxes).Perm (List.range x.shape.length)) :
    (csSorted x caxes).Perm (x.entries.map fun e => (gLin x caxes e.1, e.2)) ∧
    ((csSorted x caxes).map (·.1)).Pairwise (· ≤ ·) ∧
    ∀ e ∈ csSorted x caxes, e.1 < csC x caxes * csR x caxes := by
  have hp : (csSorted x caxes).Perm (x.entries.map fun e => (gLin x caxes e.1, e.2)) :=
    List.mergeSort_perm _ _
  refine ⟨hp, ?_, ?_⟩
  · rw [List.pairwise_map]
    have h := List.pairwise_mergeSort
      (le := fun (a b : Nat × Int) => decide (a.1 ≤ b.1))
      (fun a b c hab hbc => by simp only [decide_eq_true_eq] at *; omega)
      (fun a b => by simp only [Bool.or_eq_true, decide_eq_true_eq]; omega)
      (x.entries.map fun e => (gLin x caxes e.1, e.2))
    exact h.imp (fun hab => by simpa using hab)
  · intro e he
    obtain ⟨e0, he0, rfl⟩ := List.mem_map.mp (hp.mem_iff.mp he)
    exact gLin_lt x caxes hperm (hwf e0 he0)

theorem tocoo_fromCooCore_eq (x : COO Int) (caxes : List Nat) (hwf : x.WF)
    (hperm : (axisOrder x.shape.length caxes).Perm (List.range x.shape.length)) :
    (fromCooCore x caxes).tocoo =
      ((COO.build [csR x caxes, csC x caxes] (csEs x caxes) x.fill).reshapeCore
        (gather x.shape (axisOrder x.shape.length caxes))).transposeCore
          (invPerm (axisOrder x.shape.length caxes)) := by
  have hfacts := csSorted_facts x caxes hwf hperm
  have hrows : uncompress (indptrOf ((csSorted x caxes).map fun e => e.1 / csC x caxes) (csR x caxes))
      = (csSorted x caxes).map fun e => e.1 / csC x caxes := by
    apply uncompress_indptrOf'
    · rw [List.pairwise_map]
      have := hfacts.2.1
      rw [List.pairwise_map] at this
      exact this.imp (fun h => Nat.div_le_div_right h)
    · intro r hr
      obtain ⟨e, he, rfl⟩ := List.mem_map.mp hr
      have := hfacts.2.2 e he
      exact Nat.div_lt_of_lt_mul this
  have hes : (List.map (fun p : (Nat × Nat) × Int => ([p.1.1, p.1.2], p.2))
      (((uncompress (indptrOf ((csSorted x caxes).map fun e => e.1 / csC x caxes) (csR x caxes))).zip
        ((csSorted x caxes).map fun e => e.1 % csC x caxes)).zip ((csSorted x caxes).map (·.2))))
      = csEs x caxes := by
    rw [hrows, List.zip_map', List.zip_map', List.map_map]
    rfl
  exact congrArg (fun es => ((build [csR x caxes, csC x caxes] es x.fill).reshapeCore _).transposeCore _) hes

theorem lookup_mapIdx_inj {α : Type} (φ : Idx → Idx) (es : List (Idx × α)) (d : α) (i : Idx)
    (h : ∀ e ∈ es, φ e.1 = φ i → e.1 = i) : lookup (mapIdx φ es) d (φ i) = lookup es d i := by
  induction es with
  | nil => rfl
  | cons e es ih =>
    have ih := ih (fun e' he' => h e' (List.mem_cons_of_mem _ he'))
    unfold mapIdx at ih ⊢
    rw [List.map_cons, lookup_cons, lookup_cons, ih]
    by_cases he : e.1 = i
    · simp [he]
    · have : ¬ φ e.1 = φ i := fun hh => he (h e List.mem_cons_self hh)
      simp [he, this]

theorem nodup_map_on {β γ : Type} {f : β → γ} {l : List β}
    (hinj : ∀ a ∈ l, ∀ b ∈ l, f a = f b → a = b) (hnd : l.Nodup) : (l.map f).Nodup := by
  unfold List.Nodup at hnd ⊢
  rw [List.pairwise_map]
  exact hnd.imp_of_mem (fun {a b} ha hb hab heq => hab (hinj a ha b hb heq))

theorem gKey_inj (x : COO Int) (caxes : List Nat)
    (hperm : (axisOrder x.shape.length caxes).Perm (List.range x.shape.length)) {a b : Idx}
    (ha : InB a x.shape) (hb : InB b x.shape) (h : gKey x caxes a = gKey x caxes b) : a = b := by
  have hmem := (perm_range_facts_c hperm).2.2
  unfold gKey at h
  simp only [List.cons.injEq, and_true] at h
  have hm : gLin x caxes a = gLin x caxes b := by
    rw [← Nat.div_add_mod (gLin x caxes a) (csC x caxes), ← Nat.div_add_mod (gLin x caxes b) (csC x caxes),
      h.1, h.2]
  have hg := ravel_inj (InB_gather_c ha _ (fun a ha => (hmem a).mp ha))
    (InB_gather_c hb _ (fun a ha => (hmem a).mp ha)) hm
  rw [← gather_gather_invPerm_c hperm a (InB_length ha), ← gather_gather_invPerm_c hperm b (InB_length hb), hg]

theorem gKey_InB (x : COO Int) (caxes : List Nat)
    (hperm : (axisOrder x.shape.length caxes).Perm (List.range x.shape.length)) {k : Idx}
    (hk : InB k x.shape) : InB (gKey x caxes k) [csR x caxes, csC x caxes] := by
  have hlt := gLin_lt x caxes hperm hk
  have hC : 0 < csC x caxes := by
    rcases Nat.eq_zero_or_pos (csC x caxes) with h0 | h0
    · rw [h0, Nat.zero_mul] at hlt; omega
    · exact h0
  unfold gKey
  simp only [InB_cons, InB_nil, and_true]
  exact ⟨Nat.div_lt_of_lt_mul hlt, Nat.mod_lt _ hC⟩

theorem csEs_perm (x : COO Int) (caxes : List Nat) (hwf : x.WF)
    (hperm : (axisOrder x.shape.length caxes).Perm (List.range x.shape.length)) :
    (csEs x caxes).Perm (mapIdx (gKey x caxes) x.entries) := by
  have h := ((csSorted_facts x caxes hwf hperm).1).map
    (fun e : Nat × Int => (([e.1 / csC x caxes, e.1 % csC x caxes], e.2) : Idx × Int))
  rw [List.map_map] at h
  exact h

theorem csEs_facts (x : COO Int) (caxes : List Nat) (hwf : x.WF) (hnd : (keysOf x.entries).Nodup)
    (hperm : (axisOrder x.shape.length caxes).Perm (List.range x.shape.length)) :
    (∀ e ∈ csEs x caxes, InB e.1 [csR x caxes, csC x caxes]) ∧ (keysOf (csEs x caxes)).Nodup ∧
    ∀ (d : Int) (i : Idx), InB i x.shape → lookup (csEs x caxes) d (gKey x caxes i) = lookup x.entries d i := by
  have hp := csEs_perm x caxes hwf hperm
  have hnd' : (keysOf (mapIdx (gKey x caxes) x.entries)).Nodup := by
    have : keysOf (mapIdx (gKey x caxes) x.entries) = (keysOf x.entries).map (gKey x caxes) := by
      simp [keysOf, mapIdx, List.map_map, Function.comp_def]
    rw [this]
    apply nodup_map_on _ hnd
    intro a ha b hb hab
    obtain ⟨ea, hea, rfl⟩ := List.mem_map.mp ha
    obtain ⟨eb, heb, rfl⟩ := List.mem_map.mp hb
    exact gKey_inj x caxes hperm (hwf ea hea) (hwf eb heb) hab
  have hnd2 : (keysOf (csEs x caxes)).Nodup :=
    (List.Perm.map (fun e : Idx × Int => e.1) hp).nodup_iff.mpr hnd'
  refine ⟨?_, hnd2, ?_⟩
  · intro e he
    obtain ⟨e0, he0, rfl⟩ := List.mem_map.mp (hp.mem_iff.mp he)
    exact gKey_InB x caxes hperm (hwf e0 he0)
  · intro d i hi
    rw [lookup_perm d _ hnd2 hp]
    apply lookup_mapIdx_inj
    intro e he heq
    exact gKey_inj x caxes hperm (hwf e he) hi heq

theorem reshapeCore_shape {α : Type} (x : COO α) (s : List Nat) :
    (x.reshapeCore s).shape = s ∧ (x.reshapeCore s).fill = x.fill := by
  unfold reshapeCore
  by_cases hs : x.shape = s
  · simp [hs]
  · simp [hs]

/-- **`tocoo ∘ _from_coo` is lossless** (stated for any duplicate-free list of in-range compressed
axes): same shape, same fill value, same value at every index; the result is again well-formed with
distinct stored indices. -/
theorem tocoo_fromCooCore (x : COO Int) (caxes : List Nat) (hwf : x.WF) (hnd : (keysOf x.entries).Nodup)
    (hcnd : caxes.Nodup) (hclt : ∀ a ∈ caxes, a < x.shape.length) :
    (fromCooCore x caxes).tocoo.shape = x.shape ∧ (fromCooCore x caxes).tocoo.fill = x.fill ∧
    (fromCooCore x caxes).tocoo.WF ∧ (keysOf (fromCooCore x caxes).tocoo.entries).Nodup ∧
    ∀ i, InB i x.shape → (fromCooCore x caxes).tocoo.get i = x.get i := by
  have hperm := axisOrder_perm x.shape.length caxes hcnd hclt
  obtain ⟨hplen, _, hpmem⟩ := perm_range_facts_c hperm
  rw [tocoo_fromCooCore_eq x caxes hwf hperm]
  obtain ⟨hes_in, hes_nd, hes_lk⟩ := csEs_facts x caxes hwf hnd hperm
  -- the 2-d COO
  have hc2 := build_wf_sorted [csR x caxes, csC x caxes] (csEs x caxes) x.fill false hes_in
  have hc2nd := sortedLin_keys_nodup _ _ hc2.2
  have hc2shape : (COO.build [csR x caxes, csC x caxes] (csEs x caxes) x.fill false true false).shape
      = [csR x caxes, csC x caxes] := rfl
  have hsize : prod (COO.build [csR x caxes, csC x caxes] (csEs x caxes) x.fill false true false).shape
      = prod (gather x.shape (axisOrder x.shape.length caxes)) := by
    rw [hc2shape, ← csR_mul_csC]; simp [prod, Nat.mul_comm]
  -- the reshaped COO
  have hy1wf := reshapeCore_wf _ _ hc2.1 hsize
  have hy1nd := reshapeCore_nodup _ _ hc2.1 hsize hc2nd
  have hy1sh := reshapeCore_shape (COO.build [csR x caxes, csC x caxes] (csEs x caxes) x.fill false true false)
    (gather x.shape (axisOrder x.shape.length caxes))
  have hqperm : (invPerm (axisOrder x.shape.length caxes)).Perm
      (List.range ((COO.build [csR x caxes, csC x caxes] (csEs x caxes) x.fill false true false).reshapeCore
        (gather x.shape (axisOrder x.shape.length caxes))).shape.length) := by
    rw [hy1sh.1, gather_length, hplen]
    exact invPerm_perm hperm
  have hsh := transposeCore_shape ((COO.build [csR x caxes, csC x caxes] (csEs x caxes) x.fill false true false).reshapeCore
        (gather x.shape (axisOrder x.shape.length caxes))) (invPerm (axisOrder x.shape.length caxes))
  have hback : gather (gather x.shape (axisOrder x.shape.length caxes)) (invPerm (axisOrder x.shape.length caxes))
      = x.shape := gather_gather_invPerm_c hperm x.shape rfl
  refine ⟨?_, ?_, transposeCore_wf _ _ hqperm hy1wf, transposeCore_nodup _ _ hqperm hy1wf hy1nd, ?_⟩
  · rw [hsh.1, hy1sh.1, hback]
  · rw [hsh.2, hy1sh.2]; rfl
  · intro i hi
    have hi' : InB i (gather ((COO.build [csR x caxes, csC x caxes] (csEs x caxes) x.fill false true false).reshapeCore
        (gather x.shape (axisOrder x.shape.length caxes))).shape (invPerm (axisOrder x.shape.length caxes))) := by
      rw [hy1sh.1, hback]; exact hi
    rw [transposeCore_get _ _ hqperm hy1wf hy1nd i hi', invPerm_invPerm hperm]
    have hj : InB (gather i (axisOrder x.shape.length caxes)) (gather x.shape (axisOrder x.shape.length caxes)) :=
      InB_gather_c hi _ (fun a ha => (hpmem a).mp ha)
    rw [(SparseV.C08.reshape_get _ _ hc2.1 hsize _ hj).1, hc2shape]
    have hun : unravel (ravel (gather i (axisOrder x.shape.length caxes))
        (gather x.shape (axisOrder x.shape.length caxes))) [csR x caxes, csC x caxes] = gKey x caxes i := by
      simp [unravel, prod, gKey, gLin]
    rw [hun, build_lookup_nodup _ _ _ false hes_in hes_nd, hes_lk x.fill i hi]
    rfl

/-- what `tocoo` needs from the constructor on already-distinct coordinates -/
theorem build_good (shape : List Nat) (es : List (Idx × Int)) (fill : Int)
    (hwf : ∀ e ∈ es, InB e.1 shape) (hnd : (keysOf es).Nodup) :
    (COO.build shape es fill).shape = shape ∧ (COO.build shape es fill).fill = fill ∧
    (COO.build shape es fill).WF ∧ (keysOf (COO.build shape es fill).entries).Nodup ∧
    ∀ i, (COO.build shape es fill).get i = lookup es fill i := by
  have h := build_wf_sorted shape es fill false hwf
  exact ⟨rfl, rfl, h.1, sortedLin_keys_nodup _ _ h.2, fun i => build_lookup_nodup shape es fill false hwf hnd i⟩

theorem foldl_min_mem : ∀ (l : List Nat) (a : Nat), l.foldl min a = a ∨ l.foldl min a ∈ l
  | [], a => Or.inl rfl
  | b :: l, a => by
    rw [List.foldl_cons]
    rcases foldl_min_mem l (min a b) with h | h
    · rw [h]
      rcases Nat.le_total a b with hab | hab
      · rw [Nat.min_eq_left hab]; exact Or.inl rfl
      · rw [Nat.min_eq_right hab]; exact Or.inr List.mem_cons_self
    · exact Or.inr (List.mem_cons_of_mem _ h)

/-- **`tocoo ∘ _from_coo` is lossless, all ranks and every accepted `compressed_axes`** (including
the default choice): whenever `_from_coo` succeeds, converting back gives the same shape, fill value
and value at every index, in well-formed duplicate-free storage. -/
theorem tocoo_fromCoo (x : COO Int) (c : Option (List Nat)) (g : GCXS Int) (h : fromCoo x c = .ok g)
    (hwf : x.WF) (hnd : (keysOf x.entries).Nodup) :
    g.tocoo.shape = x.shape ∧ g.tocoo.fill = x.fill ∧ g.tocoo.WF ∧ (keysOf g.tocoo.entries).Nodup ∧
    ∀ i, InB i x.shape → g.tocoo.get i = x.get i := by
  unfold fromCoo at h
  split at h
  · -- 0-d
    rename_i hlen
    cases c with
    | some _ => cases h
    | none =>
      simp only [Except.ok.injEq] at h
      subst h
      have hes : (x.vals.map fun d => (([] : Idx), d)) = x.entries := by
        unfold COO.vals
        rw [List.map_map]
        conv => rhs; rw [← List.map_id x.entries]
        apply List.map_congr_left
        intro e he
        have hin := hwf e he
        have hs : x.shape = [] := List.length_eq_zero_iff.mp hlen
        rw [hs] at hin
        have : e.1 = [] := by
          cases hk : e.1 with
          | nil => rfl
          | cons a as => rw [hk] at hin; exact absurd hin (by simp)
        simp only [Function.comp, id]
        rw [← this]
      unfold tocoo
      simp only [hlen, if_true, hes]
      obtain ⟨h1, h2, h3, h4, h5⟩ := build_good x.shape x.entries x.fill hwf hnd
      exact ⟨h1, h2, h3, h4, fun i _ => h5 i⟩
  · -- 1-d
    rename_i hlen
    cases c with
    | some _ => cases h
    | none =>
      simp only [Except.ok.injEq] at h
      subst h
      have hes : (((x.keys.map fun k => k.getD 0 0).zip x.vals).map fun p => ([p.1], p.2)) = x.entries := by
        unfold COO.vals COO.keys
        rw [List.map_map, List.zip_map', List.map_map]
        conv => rhs; rw [← List.map_id x.entries]
        apply List.map_congr_left
        intro e he
        have hin := hwf e he
        obtain ⟨d, hs⟩ : ∃ d, x.shape = [d] := List.length_eq_one_iff.mp hlen
        rw [hs] at hin
        have : [e.1.getD 0 0] = e.1 := by
          cases hk : e.1 with
          | nil => rw [hk] at hin; exact absurd hin (by simp)
          | cons a as =>
            cases as with
            | nil => simp
            | cons b bs => rw [hk] at hin; exact absurd hin.2 (by simp)
        simp only [Function.comp, id]
        rw [this]
      unfold tocoo
      have hne : ¬ x.shape.length = 0 := by omega
      simp only [hne, if_false, hes]
      obtain ⟨h1, h2, h3, h4, h5⟩ := build_good x.shape x.entries x.fill hwf hnd
      exact ⟨h1, h2, h3, h4, fun i _ => h5 i⟩
  · -- n-d, n ≥ 2
    rename_i n hlen
    cases c with
    | none =>
      simp only [Except.ok.injEq] at h
      subst h
      apply tocoo_fromCooCore x _ hwf hnd (by simp)
      intro a ha
      simp only [List.mem_singleton] at ha
      subst ha
      apply List.idxOf_lt_length_of_mem
      cases hs : x.shape with
      | nil => rw [hs] at hlen; simp at hlen
      | cons d ds =>
        have := foldl_min_mem (d :: ds) d
        simp only [List.getD_cons_zero]
        rcases this with h | h
        · rw [h]; exact List.mem_cons_self
        · exact h
    | some cx =>
      simp only at h
      split at h
      · cases h
      · split at h
        · cases h
        · split at h
          · cases h
          · rename_i h1 h2 h3
            simp only [Except.ok.injEq] at h
            subst h
            have hpw : cx.Pairwise (· < ·) := by simpa using h2
            have hall : ∀ a ∈ cx, a < n + 2 := by
              intro a ha
              have := h3
              simp only [List.any_eq_true, decide_eq_true_eq, not_exists, not_and] at this
              have := this a ha
              omega
            apply tocoo_fromCooCore x cx hwf hnd
            · exact hpw.imp (fun {a b} hab => by omega)
            · rw [hlen]; exact hall

end GCXS

end SparseV

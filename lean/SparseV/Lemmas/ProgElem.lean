/-
  SparseV.Lemmas.ProgElem — step lemmas of the program theorem for literal inputs, element-wise
  operations (unary, binary with broadcasting) and `broadcast_to`.
-/
import SparseV.Lemmas.ProgBase
import SparseV.Lemmas.ProgShape
import SparseV.Props.C01
namespace SparseV
open SparseV.COO

/-! ### literal inputs: the constructor -/

theorem lit_step (shape : List Nat) (es : List (Idx × Int)) (fill : Int) (prune : Bool) :
    Sim (litNoFill shape es fill prune) (Expr.mLit shape es fill prune) (Expr.sLit shape es fill) := by
  unfold Expr.mLit Expr.sLit
  by_cases h : es.all (fun e => decide (InB e.1 shape)) = true
  · rw [if_pos h, if_pos h]
    have hwf : ∀ e ∈ es, InB e.1 shape := by
      intro e he
      have := List.all_eq_true.mp h e he
      simpa using this
    obtain ⟨h1, h2⟩ := build_wf_sorted shape es fill prune hwf
    refine Sim.ok ⟨h1, h2⟩ (fun hn => hn) ⟨rfl, rfl, ?_⟩
    intro i _
    rw [build_lookup shape es fill prune hwf i]
    show _ = if es.any (fun e => e.1 == i) then ((es.filter (fun e => e.1 == i)).map (·.2)).sum else fill
    have hany : (es.any (fun e => e.1 == i) = true) ↔ i ∈ keysOf es := by
      simp only [List.any_eq_true, beq_iff_eq, keysOf, List.mem_map]
    have hfil : (es.filter (fun e => e.1 == i)) = es.filter (fun e => decide (e.1 = i)) :=
      List.filter_congr (fun e _ => by by_cases hh : e.1 = i <;> simp [hh])
    by_cases hk : i ∈ keysOf es
    · rw [if_pos hk, if_pos (hany.mpr hk), hfil]; rfl
    · rw [if_neg hk, if_neg (fun hh => hk (hany.mp hh))]
  · rw [if_neg h, if_neg h]
    exact Sim.err _

/-! ### NumPy's pairwise broadcasting rule is the code's -/

theorem npBroadcast2_eq (s1 s2 : List Nat) : npBroadcast2 s1 s2 = C01.specBshape s1 s2 := by
  unfold npBroadcast2 C01.specBshape specBshapeWith padL
  simp only []
  have hpt : ∀ a b : Nat, ((C01.specPair (a : Int) (b : Int)).isSome) = (a == b || a == 1 || b == 1) := by
    intro a b
    unfold C01.specPair
    by_cases h1 : a = b
    · subst h1; simp
    · by_cases h2 : a = 1
      · subst h2
        have e1 : ¬ ((1 : Int) = (b : Int)) := by omega
        simp [e1]
      · by_cases h3 : b = 1
        · subst h3
          have e1 : ¬ ((a : Int) = 1) := by omega
          simp [e1]
        · have e1 : ¬ ((a : Int) = (b : Int)) := by omega
          have e2 : ¬ ((a : Int) = 1) := by omega
          have e3 : ¬ ((b : Int) = 1) := by omega
          simp [h1, h2, h3, e1, e2, e3]
  have hdim : ∀ a b : Nat, (a == b || a == 1 || b == 1) = true →
      ((C01.specPair (a : Int) (b : Int)).getD 0).toNat = if (a == 1) = true then b else a := by
    intro a b hok
    unfold C01.specPair
    by_cases h1 : a = b
    · subst h1; simp
    · by_cases h2 : a = 1
      · subst h2
        have e1 : ¬ ((1 : Int) = (b : Int)) := by omega
        simp [e1]
      · have h3 : b = 1 := by
          simp only [Bool.or_eq_true, beq_iff_eq] at hok
          omega
        subst h3
        have e1 : ¬ ((a : Int) = 1) := by omega
        simp [h2, e1]
  have hcond : ((List.zip (List.replicate (max s1.length s2.length - s1.length) 1 ++ s1)
        (List.replicate (max s1.length s2.length - s2.length) 1 ++ s2)).all
        fun (p : Nat × Nat) => (C01.specPair (p.1 : Int) (p.2 : Int)).isSome)
      = ((List.zip (List.replicate (max s1.length s2.length - s1.length) 1 ++ s1)
        (List.replicate (max s1.length s2.length - s2.length) 1 ++ s2)).all
        fun (p : Nat × Nat) => (p.1 == p.2 || p.1 == 1 || p.2 == 1)) := by
    congr 1; funext p; exact hpt p.1 p.2
  rw [hcond]
  split
  · next hall =>
    congr 1
    apply List.map_congr_left
    intro p hp
    exact (hdim p.1 p.2 (List.all_eq_true.mp hall p hp)).symm
  · rfl

theorem bshapeN_pair_np (s1 s2 : List Nat) :
    bshapeN [s1, s2] = (match npBroadcast2 s1 s2 with | some r => .ok r | none => .error .value) := by
  rw [bshapeN_pair, C01.bshape2_comm, C01.bshape2_spec, npBroadcast2_eq]
  cases C01.specBshape s1 s2 <;> rfl

/-! ### element-wise application -/

theorem fillConst_nodense (f : List Int → Int) (ops : List (Operand Int)) : FillConst f ops [] := by
  intro i hi i' hi'
  have e1 : i = [] := by cases i with | nil => rfl | cons a t => exact absurd hi (by simp [InB])
  have e2 : i' = [] := by cases i' with | nil => rfl | cons a t => exact absurd hi' (by simp [InB])
  rw [e1, e2]

theorem inb_nil_eq {i : Idx} (h : InB i []) : i = [] := by
  cases i with
  | nil => rfl
  | cons a t => exact absurd h (by simp [InB])

theorem fillPart_of_shape {x : COO Int} {d : Dense} (hr : Refines x d) :
    Expr.fillPart d = if x.shape = [] then x.get [] else x.fill := by
  unfold Expr.fillPart
  rw [← hr.shape]
  by_cases h : x.shape = []
  · rw [if_pos h, if_pos h]
    exact (hr.val [] (by rw [h]; trivial)).symm
  · rw [if_neg h, if_neg h]; exact hr.fill.symm

theorem ew1_step (f : Int → Int) (x : COO Int) (d : Dense) (hg : Good x) (hr : Refines x d) :
    Sim x.NoFill (Expr.mEw1 f x) (Expr.sEw1 f d) := by
  unfold Expr.mEw1 Expr.sEw1
  rw [fillPart_of_shape hr]
  by_cases h0 : x.shape = []
  · -- a 0-d operand is densified: no stored element, the fill value is the function of the element
    rw [if_pos h0, if_pos h0]
    refine Sim.ok ⟨(fun e he => by cases he), List.Pairwise.nil⟩ (fun _ e he => by cases he)
      ⟨by rw [← hr.shape, h0], rfl, ?_⟩
    intro i hi
    have : i = [] := inb_nil_eq hi
    subst this
    show f (x.get []) = f (d.val [])
    rw [hr.val [] (by rw [h0]; trivial)]
  · rw [if_neg h0, if_neg h0]
    have hc : ([Operand.coo x] : List (Operand Int)).any Operand.isCoo = true := rfl
    have hs : bshapeN (([Operand.coo x] : List (Operand Int)).map Operand.shape) = .ok x.shape := C01.bshapeN_single x.shape
    have hn : bshapeN ((([Operand.coo x] : List (Operand Int)).filter Operand.isDense).map Operand.shape) = .ok [] := rfl
    obtain ⟨r, hr1, hshape⟩ := (C01.elemwise_decision (Expr.fn1 f) [Operand.coo x] x.shape [] hc hs hn).1
      (fillConst_nodense _ _)
    have hwfo : ∀ o ∈ ([Operand.coo x] : List (Operand Int)), o.WF := by
      intro o ho
      simp only [List.mem_singleton] at ho
      subst ho
      exact ⟨hg.wf, hg.nodup⟩
    obtain ⟨_, _, hget, hnf, hwf, _, hsorted⟩ := C01.elemwiseN_get (Expr.fn1 f) [Operand.coo x] hwfo r hr1
    have hfill := C01.elemwiseN_fill_nodense (Expr.fn1 f) [Operand.coo x] hwfo rfl r hr1
    rw [hr1]
    refine Sim.ok ⟨hwf, hsorted⟩ (fun _ => hnf) ⟨hshape.trans hr.shape, ?_, ?_⟩
    · rw [hfill]; rfl
    · intro j hj
      rw [hget j hj]
      show f (x.get (projIdx x.shape r.shape j)) = f (d.val j)
      rw [hshape] at hj ⊢
      rw [projIdx_self hj, hr.val j hj]

/-! the operand as `_Elemwise` sees it -/

theorem operandOf_shape (x : COO Int) : (Expr.operandOf x).shape = x.shape := by
  unfold Expr.operandOf
  by_cases h : x.shape = []
  · rw [if_pos h, h]; rfl
  · rw [if_neg h]; rfl

theorem operandOf_wf {x : COO Int} (hg : Good x) : (Expr.operandOf x).WF := by
  unfold Expr.operandOf
  by_cases h : x.shape = []
  · rw [if_pos h]; trivial
  · rw [if_neg h]; exact ⟨hg.wf, hg.nodup⟩

theorem operandOf_valueAt {x : COO Int} {d : Dense} (hr : Refines x d) {s : List Nat} {j : Idx}
    (hb : BcTo x.shape s) (hj : InB j s) :
    (Expr.operandOf x).valueAt s j = d.val (projIdx d.shape s j) := by
  unfold Expr.operandOf
  rw [← hr.shape]
  by_cases h : x.shape = []
  · rw [if_pos h, h]
    show ([x.get []] : List Int).getD (ravel (projIdx [] s j) []) default = d.val (projIdx [] s j)
    have : projIdx [] s j = [] := by simp [projIdx]
    rw [this]
    simp only [ravel, List.getD_cons_zero]
    exact hr.val [] (by rw [h]; trivial)
  · rw [if_neg h]
    exact hr.val _ (projIdx_InB hb hj)

theorem operandOf_fillAt {x : COO Int} {d : Dense} (hr : Refines x d) :
    (Expr.operandOf x).fillAt [] [] = Expr.fillPart d := by
  rw [fillPart_of_shape hr]
  unfold Expr.operandOf
  by_cases h : x.shape = []
  · rw [if_pos h, if_pos h]
    show ([x.get []] : List Int).getD (ravel (projIdx [] [] []) []) default = x.get []
    have : projIdx [] [] [] = [] := by simp [projIdx]
    rw [this]
    simp [ravel]
  · rw [if_neg h, if_neg h]; rfl

theorem ew2_step (f : Int → Int → Int) (x y : COO Int) (dx dy : Dense) (hgx : Good x) (hrx : Refines x dx)
    (hgy : Good y) (hry : Refines y dy) :
    Sim (x.NoFill ∧ y.NoFill) (Expr.mEw2 f x y) (Expr.sEw2 f dx dy) := by
  unfold Expr.mEw2 Expr.sEw2
  rw [← hrx.shape, ← hry.shape]
  by_cases h00 : x.shape = [] ∧ y.shape = []
  · -- both operands 0-d: both are densified
    rw [if_pos h00, h00.1, h00.2]
    have hb : npBroadcast2 [] [] = some [] := by decide
    rw [hb]
    simp only []
    have hx0 : InB [] x.shape := by rw [h00.1]; trivial
    have hy0 : InB [] y.shape := by rw [h00.2]; trivial
    refine Sim.ok ⟨(fun e he => by cases he), List.Pairwise.nil⟩ (fun _ e he => by cases he) ⟨rfl, ?_, ?_⟩
    · show f (x.get []) (y.get []) = f (Expr.fillPart dx) (Expr.fillPart dy)
      rw [fillPart_of_shape hrx, fillPart_of_shape hry, if_pos h00.1, if_pos h00.2]
    · intro i hi
      have : i = [] := inb_nil_eq hi
      subst this
      show f (x.get []) (y.get []) = f (dx.val (projIdx [] [] [])) (dy.val (projIdx [] [] []))
      have : projIdx [] [] [] = [] := by simp [projIdx]
      rw [this, hrx.val [] hx0, hry.val [] hy0]
  · rw [if_neg h00]
    have hmap : ([Expr.operandOf x, Expr.operandOf y] : List (Operand Int)).map Operand.shape = [x.shape, y.shape] := by
      simp only [List.map_cons, List.map_nil, operandOf_shape]
    have hc : ([Expr.operandOf x, Expr.operandOf y] : List (Operand Int)).any Operand.isCoo = true := by
      unfold Expr.operandOf
      by_cases hx : x.shape = []
      · have hy : ¬ y.shape = [] := fun hy => h00 ⟨hx, hy⟩
        simp [hx, hy, Operand.isCoo]
      · simp [hx, Operand.isCoo]
    have hn : bshapeN ((([Expr.operandOf x, Expr.operandOf y] : List (Operand Int)).filter Operand.isDense).map Operand.shape)
        = .ok [] := by
      unfold Expr.operandOf
      by_cases hx : x.shape = [] <;> by_cases hy : y.shape = []
      · exact absurd ⟨hx, hy⟩ h00
      · simp only [hx, hy, if_true, if_false, List.filter, Operand.isDense, List.map_cons, List.map_nil, Operand.shape]
        rfl
      · simp only [hx, hy, if_true, if_false, List.filter, Operand.isDense, List.map_cons, List.map_nil, Operand.shape]
        rfl
      · simp only [hx, hy, if_false, List.filter, Operand.isDense, List.map_nil]
        rfl
    have hpair := bshapeN_pair_np x.shape y.shape
    cases hb : npBroadcast2 x.shape y.shape with
    | none =>
      rw [hb] at hpair
      have := elemwiseN_shape_err (Expr.fn2 f) [Expr.operandOf x, Expr.operandOf y] .value hc (by rw [hmap]; exact hpair)
      rw [this]
      exact Sim.err _
    | some s =>
      rw [hb] at hpair
      have hs : bshapeN (([Expr.operandOf x, Expr.operandOf y] : List (Operand Int)).map Operand.shape) = .ok s := by
        rw [hmap]; exact hpair
      obtain ⟨r, hr1, hshape⟩ := (C01.elemwise_decision (Expr.fn2 f) [Expr.operandOf x, Expr.operandOf y] s [] hc hs hn).1
        (fillConst_nodense _ _)
      have hwfo : ∀ o ∈ ([Expr.operandOf x, Expr.operandOf y] : List (Operand Int)), o.WF := by
        intro o ho
        simp only [List.mem_cons, List.not_mem_nil, or_false] at ho
        rcases ho with rfl | rfl
        · exact operandOf_wf hgx
        · exact operandOf_wf hgy
      obtain ⟨_, ⟨nd, hnd, hfillN⟩, hget, hnf, hwf, _, hsorted⟩ :=
        C01.elemwiseN_get (Expr.fn2 f) [Expr.operandOf x, Expr.operandOf y] hwfo r hr1
      have hnd' : nd = [] := Except.ok.inj (hnd.symm.trans hn)
      subst hnd'
      have hfill := hfillN [] trivial
      have hbx : BcTo x.shape s := bcTo_of_bshapeN hs (by simp [hmap])
      have hby : BcTo y.shape s := bcTo_of_bshapeN hs (by simp [hmap])
      rw [hr1]
      refine Sim.ok ⟨hwf, hsorted⟩ (fun _ => hnf) ⟨hshape, ?_, ?_⟩
      · rw [hfill]
        show f ((Expr.operandOf x).fillAt [] []) ((Expr.operandOf y).fillAt [] []) = _
        rw [operandOf_fillAt hrx, operandOf_fillAt hry]
      · intro j hj
        rw [hget j hj]
        rw [hshape] at hj ⊢
        show f ((Expr.operandOf x).valueAt s j) ((Expr.operandOf y).valueAt s j) = f (dx.val _) (dy.val _)
        rw [operandOf_valueAt hrx hbx hj, operandOf_valueAt hry hby hj, ← hrx.shape, ← hry.shape]

/-! ### broadcast_to -/

theorem npBroadcastToOk_iff (s t : List Nat) : npBroadcastToOk s t = true ↔ C01.specBroadcastTo s t = some t := by
  unfold npBroadcastToOk C01.specBroadcastTo padL
  have hcond : ((List.zip (List.replicate (t.length - s.length) 1 ++ s) t).all
        fun (p : Nat × Nat) => (p.1 == p.2 || p.1 == 1))
      = ((List.zip (List.replicate (t.length - s.length) 1 ++ s) t).all
        fun (p : Nat × Nat) => decide (p.1 = p.2 ∨ p.1 = 1)) := by
    congr 1; funext p
    by_cases h1 : p.1 = p.2 <;> by_cases h2 : p.1 = 1 <;> simp [h1, h2]
  rw [hcond]
  simp only [Bool.and_eq_true, decide_eq_true_eq]
  constructor
  · intro h; rw [if_pos h]
  · intro h
    split at h
    · next hc => exact hc
    · cases h

theorem broadcastTo_step (x : COO Int) (d : Dense) (s : List Nat) (hg : Good x) (hr : Refines x d) :
    Sim x.NoFill (Expr.mBroadcastTo x s) (Expr.sBroadcastTo d s) := by
  unfold Expr.mBroadcastTo Expr.sBroadcastTo
  rw [← hr.shape]
  by_cases hok : npBroadcastToOk x.shape s = true
  · rw [if_pos hok]
    have hspec := (npBroadcastToOk_iff x.shape s).mp hok
    have hnd : x.keys.Nodup := hg.nodup
    obtain ⟨r, hr1, hshape, hfill, hwf, hrnd, hget⟩ := C01.broadcastTo_get x s hg.wf hnd hspec
    have hb := C01.bshape2_of_specBroadcastTo hspec
    have hbc : BcTo x.shape s := bcTo_of_bshape2 hb
    rw [hr1]
    refine Sim.ok ⟨hwf, ?_⟩ ?_ ⟨hshape, by rw [hfill]; exact hr.fill, ?_⟩
    · -- canonical order: the `sorted=` claim when it is made, the constructor's sort otherwise
      by_cases hadj : COO.expandSorted x.shape s = true
      · obtain ⟨_, r', hr', hs', _⟩ := C01.broadcastTo_sorted_promise x s hg.wf hg.sorted hspec hadj
        have : r' = r := Except.ok.inj (hr'.symm.trans hr1)
        subst this
        rw [hshape]; exact hs'
      · unfold COO.broadcastTo at hr1
        by_cases hsx : s = x.shape
        · rw [if_pos hsx] at hr1
          have := Except.ok.inj hr1
          subst this
          exact hg.sorted
        · rw [if_neg hsx, hb] at hr1
          simp only [hadj, Bool.false_eq_true, if_false] at hr1
          have := Except.ok.inj hr1
          subst this
          exact sortedLin_of_le_nodup _ _ (sortEntries_sortedLe _ _) hrnd hwf
    · intro hx e he
      rw [hfill]
      unfold COO.broadcastTo at hr1
      by_cases hsx : s = x.shape
      · rw [if_pos hsx] at hr1
        have := Except.ok.inj hr1
        subst this
        exact hx e he
      · rw [if_neg hsx, hb] at hr1
        have := Except.ok.inj hr1
        subst this
        have he' : e ∈ COO.expand x.entries x.shape s := by
          simp only at he
          split at he
          · exact he
          · exact mem_sortEntries.mp he
        have := (C01.expand_mem x.entries x.shape s hspec hg.wf e.1 e.2).mp he'
        exact hx (projIdx x.shape s e.1, e.2) this.2
    · intro j hj
      rw [hshape] at hj
      rw [hget j hj]
      exact hr.val _ (projIdx_InB hbc hj)
  · rw [if_neg hok]
    have hnone : C01.specBroadcastTo x.shape s = none := by
      cases h : C01.specBroadcastTo x.shape s with
      | none => rfl
      | some t =>
        exfalso
        apply hok
        apply (npBroadcastToOk_iff x.shape s).mpr
        unfold C01.specBroadcastTo at h ⊢
        split at h
        · next hc => rw [if_pos hc]
        · cases h
    rw [C01.broadcastTo_error x s hnone]
    exact Sim.err _

end SparseV

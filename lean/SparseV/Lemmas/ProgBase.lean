/-
  SparseV.Lemmas.ProgBase — the simulation relation between a model run and a spec run of a
  program, and the glue shared by the per-operation step lemmas (Lemmas/Prog*.lean).
-/
import SparseV.Model.Expr
import SparseV.Lemmas.Canonical
import SparseV.Lemmas.Build
import SparseV.Props.C03
namespace SparseV
open SparseV.COO

/-- the program invariant on representations: stored indices inside the shape, strictly
increasing row-major linear location (hence no repeats) -/
structure Good (x : COO Int) : Prop where
  wf : x.WF
  sorted : SortedLin x.shape x.entries

theorem Good.nodup {x : COO Int} (h : Good x) : (keysOf x.entries).Nodup :=
  sortedLin_keys_nodup x.shape x.entries h.sorted

/-- the sparse array denotes the dense one: same shape, same fill value, same value at every index -/
structure Refines (x : COO Int) (d : Dense) : Prop where
  shape : x.shape = d.shape
  fill : x.fill = d.fill
  val : ∀ i, InB i x.shape → x.get i = d.val i

/-- member-wise refinement of two lists (the members of a join) -/
inductive RefinesL : List (COO Int) → List Dense → Prop
  | nil : RefinesL [] []
  | cons {x : COO Int} {d : Dense} {xs : List (COO Int)} {ds : List Dense} :
      Refines x d → RefinesL xs ds → RefinesL (x :: xs) (d :: ds)

/-- simulation of a model result by a spec result: on success the array is canonical, stores no
fill value when `nf` holds, and denotes the spec's array; an error is the spec's error -/
def Sim (nf : Prop) (m : Except Err (COO Int)) (s : Except Err Dense) : Prop :=
  match m with
  | .ok x => Good x ∧ (nf → x.NoFill) ∧ ∃ d, s = .ok d ∧ Refines x d
  | .error e => s = .error e

theorem Sim.ok {nf : Prop} {x : COO Int} {d : Dense} (hg : Good x) (hn : nf → x.NoFill) (hr : Refines x d) :
    Sim nf (.ok x) (.ok d) := ⟨hg, hn, d, rfl, hr⟩

theorem Sim.err {nf : Prop} (e : Err) : Sim nf (.error e) (.error e) := rfl

theorem Sim.mono {nf nf' : Prop} {m s} (h : Sim nf m s) (himp : nf' → nf) : Sim nf' m s := by
  cases m with
  | error e => exact h
  | ok x => exact ⟨h.1, fun hh => h.2.1 (himp hh), h.2.2⟩

/-- one more operation on top of a simulated sub-program -/
theorem Sim.bind {nf : Prop} {m : Except Err (COO Int)} {s : Except Err Dense} (h : Sim nf m s)
    {fm : COO Int → Except Err (COO Int)} {fs : Dense → Except Err Dense}
    (hstep : ∀ x d, Good x → Refines x d → Sim x.NoFill (fm x) (fs d)) :
    Sim nf (m >>= fm) (s >>= fs) := by
  cases m with
  | error e =>
    have hs : s = .error e := h
    subst hs; exact Sim.err e
  | ok x =>
    obtain ⟨hg, hn, d, hs, hr⟩ := h
    subst hs
    exact (hstep x d hg hr).mono hn

/-! ### axis normalisation: the generated code is NumPy's rule -/

theorem normAxis_eq_npAxis (a : Int) (n : Nat) : normAxis a n = npAxis a n := by
  unfold normAxis npAxis
  rw [C03.normalize_axis_spec]
  split <;> rfl

theorem normAxes_eq_npAxes (as : List Int) (n : Nat) : normAxes as n = npAxes as n := by
  unfold normAxes npAxes
  congr 1
  funext a
  exact normAxis_eq_npAxis a n

theorem npAxis_lt {a : Int} {n k : Nat} (h : npAxis a n = .ok k) : k < n := by
  unfold npAxis at h
  split at h
  · next hc =>
    have := Except.ok.inj h
    subst this
    split <;> omega
  · cases h

theorem mapM_ok_forall {β γ : Type} (f : β → Except Err γ) (P : γ → Prop)
    (hf : ∀ b c, f b = .ok c → P c) : ∀ (l : List β) (r : List γ), l.mapM f = .ok r → ∀ c ∈ r, P c
  | [], r, h => by
    simp only [List.mapM_nil, pure, Except.pure] at h
    cases h; intro c hc; cases hc
  | b :: l, r, h => by
    rw [List.mapM_cons] at h
    cases hb : f b with
    | error e => rw [hb] at h; cases h
    | ok c0 =>
      rw [hb] at h
      cases hl : l.mapM f with
      | error e => rw [hl] at h; cases h
      | ok r0 =>
        rw [hl] at h
        simp only [bind, Except.bind, pure, Except.pure] at h
        cases h
        intro c hc
        rcases List.mem_cons.mp hc with rfl | hc
        · exact hf b _ hb
        · exact mapM_ok_forall f P hf l r0 hl c hc

theorem npAxes_lt {as : List Int} {n : Nat} {l : List Nat} (h : npAxes as n = .ok l) : ∀ a ∈ l, a < n :=
  mapM_ok_forall _ _ (fun _ _ hb => npAxis_lt hb) as l h

end SparseV

/-
  SparseV.Lemmas.Dok — helper lemmas for property C12: the dict operations (`upsert`, `erase`,
  `store`), the invariant they keep, in-range keys and their enumeration, Python ranges.
-/
import SparseV.Model.Dok
import SparseV.Spec.Assign
namespace SparseV
namespace Dok
variable {α : Type}

/-! ### the dict -/

def keysOf (es : List (DKey × α)) : List DKey := es.map (·.1)

@[simp] theorem alookup_nil (d : α) (k : DKey) : alookup ([] : List (DKey × α)) d k = d := rfl

theorem alookup_cons (e : DKey × α) (es : List (DKey × α)) (d : α) (k : DKey) :
    alookup (e :: es) d k = if e.1 = k then e.2 else alookup es d k := rfl

theorem alookup_upsert (es : List (DKey × α)) (d : α) (k j : DKey) (x : α) :
    alookup (upsert es k x) d j = if j = k then x else alookup es d j := by
  induction es with
  | nil =>
    simp only [upsert, alookup_cons, alookup_nil]
    by_cases h : j = k
    · simp [h]
    · have : ¬ k = j := fun hh => h hh.symm
      simp [h, this]
  | cons e es ih =>
    simp only [upsert]
    by_cases hek : e.1 = k
    · simp only [hek, if_true, alookup_cons]
      by_cases h : j = k
      · simp [h]
      · have : ¬ k = j := fun hh => h hh.symm
        simp [h, this]
    · simp only [hek, if_false, alookup_cons, ih]
      by_cases h : j = k
      · subst h; simp [hek]
      · simp [h]

theorem alookup_erase (es : List (DKey × α)) (d : α) (k j : DKey) :
    alookup (erase es k) d j = if j = k then d else alookup es d j := by
  induction es with
  | nil => simp [erase]
  | cons e es ih =>
    unfold erase at ih ⊢
    by_cases hek : e.1 = k
    · have : (decide ¬ e.1 = k) = false := by simp [hek]
      rw [List.filter_cons_of_neg (by simp [hek]), ih, alookup_cons]
      by_cases h : j = k
      · simp [h]
      · have : ¬ e.1 = j := by rw [hek]; exact fun hh => h hh.symm
        simp [h, this]
    · rw [List.filter_cons_of_pos (by simp [hek]), alookup_cons, ih, alookup_cons]
      by_cases h : j = k
      · subst h; simp [hek]
      · simp [h]

/-- **the dict after `store`**: the written key reads the written value (the fill value if it was
deleted), every other key is untouched -/
theorem alookup_store [DecidableEq α] (fill : α) (es : List (DKey × α)) (k j : DKey) (x : α) :
    alookup (store fill es k x) fill j = if j = k then x else alookup es fill j := by
  unfold store
  by_cases hx : x = fill
  · simp only [hx, if_true, alookup_erase]
  · simp only [hx, if_false, alookup_upsert]

theorem mem_upsert {es : List (DKey × α)} {k : DKey} {x : α} {e : DKey × α} (h : e ∈ upsert es k x) :
    e = (k, x) ∨ e ∈ es := by
  induction es with
  | nil => simp [upsert] at h; exact Or.inl h
  | cons a es ih =>
    simp only [upsert] at h
    by_cases hak : a.1 = k
    · simp only [hak, if_true, List.mem_cons] at h
      rcases h with h | h
      · exact Or.inl h
      · exact Or.inr (List.mem_cons_of_mem _ h)
    · simp only [hak, if_false, List.mem_cons] at h
      rcases h with h | h
      · exact Or.inr (by rw [h]; exact List.mem_cons_self)
      · rcases ih h with h' | h'
        · exact Or.inl h'
        · exact Or.inr (List.mem_cons_of_mem _ h')

/-- `data[k] = x` keeps the key order: an existing key stays where it is, a new one goes last -/
theorem keysOf_upsert (es : List (DKey × α)) (k : DKey) (x : α) :
    keysOf (upsert es k x) = if k ∈ keysOf es then keysOf es else keysOf es ++ [k] := by
  induction es with
  | nil => simp [upsert, keysOf]
  | cons a es ih =>
    simp only [upsert]
    by_cases hak : a.1 = k
    · simp [hak, keysOf]
    · have hka : ¬ k = a.1 := fun h => hak h.symm
      simp only [hak, if_false]
      simp only [keysOf, List.map_cons, List.mem_cons, hka, false_or] at ih ⊢
      rw [ih]
      by_cases hm : k ∈ List.map (fun x => x.1) es
      · simp [hm]
      · simp [hm]

theorem keysOf_erase_sublist (es : List (DKey × α)) (k : DKey) : (keysOf (erase es k)).Sublist (keysOf es) := by
  unfold keysOf erase
  exact List.Sublist.map _ List.filter_sublist

theorem mem_erase {es : List (DKey × α)} {k : DKey} {e : DKey × α} (h : e ∈ erase es k) : e ∈ es :=
  (List.mem_filter.mp h).1

/-- what every reachable dict satisfies: distinct keys, no stored fill value -/
def Inv (fill : α) (es : List (DKey × α)) : Prop :=
  (keysOf es).Nodup ∧ ∀ e ∈ es, e.2 ≠ fill

theorem inv_nil (fill : α) : Inv fill ([] : List (DKey × α)) := by
  simp [Inv, keysOf]

theorem store_inv [DecidableEq α] {fill : α} {es : List (DKey × α)} (h : Inv fill es) (k : DKey) (x : α) :
    Inv fill (store fill es k x) := by
  unfold store
  by_cases hx : x = fill
  · simp only [hx, if_true]
    exact ⟨List.Nodup.sublist (keysOf_erase_sublist es k) h.1, fun e he => h.2 e (mem_erase he)⟩
  · simp only [hx, if_false]
    refine ⟨?_, ?_⟩
    · rw [keysOf_upsert]
      by_cases hm : k ∈ keysOf es
      · simp only [hm, if_true]; exact h.1
      · simp only [hm, if_false]
        rw [List.nodup_append]
        refine ⟨h.1, by simp, ?_⟩
        intro a ha b hb
        simp only [List.mem_singleton] at hb
        rw [hb]
        intro hab
        exact hm (hab ▸ ha)
    · intro e he
      rcases mem_upsert he with h' | h'
      · rw [h']; exact hx
      · exact h.2 e h'

theorem alookup_of_not_mem {es : List (DKey × α)} {d : α} {k : DKey} (h : k ∉ keysOf es) : alookup es d k = d := by
  induction es with
  | nil => rfl
  | cons e es ih =>
    simp only [keysOf, List.map_cons, List.mem_cons, not_or] at h
    rw [alookup_cons]
    have : ¬ e.1 = k := fun hh => h.1 hh.symm
    simp only [this, if_false]
    exact ih h.2

theorem alookup_mem_of_mem {es : List (DKey × α)} {d : α} {k : DKey} (h : k ∈ keysOf es) :
    (k, alookup es d k) ∈ es := by
  induction es with
  | nil => simp [keysOf] at h
  | cons e es ih =>
    rw [alookup_cons]
    by_cases hek : e.1 = k
    · simp only [hek, if_true]
      rw [← hek]
      exact List.mem_cons_self
    · simp only [hek, if_false]
      simp only [keysOf, List.map_cons, List.mem_cons] at h
      rcases h with h | h
      · exact absurd h.symm hek
      · exact List.mem_cons_of_mem _ (ih h)

/-- with no fill value stored, a key is in the dict exactly when it does not read the fill value -/
theorem mem_keys_iff {fill : α} {es : List (DKey × α)} (h : Inv fill es) (k : DKey) :
    k ∈ keysOf es ↔ alookup es fill k ≠ fill := by
  constructor
  · intro hm
    exact h.2 _ (alookup_mem_of_mem hm)
  · intro hne
    apply Classical.byContradiction
    intro hn
    exact hne (alookup_of_not_mem hn)

/-! ### in-range keys and their enumeration -/

theorem mem_allKeys : ∀ (s : List Nat) (k : DKey), k ∈ allKeys s ↔ InBI k s := by
  intro s
  induction s with
  | nil =>
    intro k
    cases k with
    | nil => simp [allKeys, InBI]
    | cons i is => simp [allKeys, InBI]
  | cons d ds ih =>
    intro k
    simp only [allKeys, List.mem_flatMap, List.mem_range, List.mem_map]
    constructor
    · rintro ⟨i, hi, r, hr, rfl⟩
      refine ⟨⟨Int.natCast_nonneg i, ?_⟩, (ih r).mp hr⟩
      exact Int.ofNat_lt.mpr hi
    · intro h
      cases k with
      | nil => exact absurd h (by simp [InBI])
      | cons i is =>
        obtain ⟨⟨h0, h1⟩, h2⟩ := h
        refine ⟨i.toNat, ?_, is, (ih is).mpr h2, ?_⟩
        · omega
        · have : (Int.ofNat i.toNat) = i := by simp [Int.toNat_of_nonneg h0]
          rw [this]

theorem nodup_allKeys : ∀ (s : List Nat), (allKeys s).Nodup := by
  intro s
  induction s with
  | nil => simp [allKeys]
  | cons d ds ih =>
    unfold allKeys List.Nodup
    rw [List.pairwise_flatMap]
    refine ⟨?_, ?_⟩
    · intro i _
      rw [List.pairwise_map]
      exact List.Pairwise.imp (fun {a b} hab h => hab (List.cons.inj h).2) ih
    · have hr : (List.range d).Pairwise (· ≠ ·) := List.nodup_range
      refine List.Pairwise.imp ?_ hr
      intro i j hij x hx y hy hxy
      obtain ⟨r, _, rfl⟩ := List.mem_map.mp hx
      obtain ⟨r', _, rfl⟩ := List.mem_map.mp hy
      have := (List.cons.inj hxy).1
      exact hij (Int.ofNat.inj this)

theorem canon_inv {d : DOK α} (h : Canon d) : Inv d.fill d.entries :=
  ⟨h.1, fun e he => (h.2 e he).2⟩

/-- **nnz counts the non-fill elements.**  In a canonical state the number of stored entries is the
number of in-range index tuples whose value is not the fill value. -/
theorem nnz_eq_count [DecidableEq α] {d : DOK α} (h : Canon d) :
    nnz d = (allKeys d.shape).countP (fun k => decide (get d k ≠ d.fill)) := by
  rw [List.countP_eq_length_filter]
  have hp : (keysOf d.entries).Perm ((allKeys d.shape).filter fun k => decide (get d k ≠ d.fill)) := by
    have hn1 : (keysOf d.entries).Nodup := h.1
    rw [List.perm_ext_iff_of_nodup hn1 (List.Nodup.sublist List.filter_sublist (nodup_allKeys _))]
    intro k
    rw [List.mem_filter, mem_allKeys, mem_keys_iff (canon_inv h)]
    simp only [get]
    constructor
    · intro hne
      refine ⟨?_, decide_eq_true hne⟩
      have hm : k ∈ keysOf d.entries := (mem_keys_iff (canon_inv h) k).mpr hne
      obtain ⟨e, he, hk⟩ := List.mem_map.mp hm
      rw [← hk]
      exact (h.2 e he).1
    · exact fun hh => of_decide_eq_true hh.2
  have := hp.length_eq
  simp only [keysOf, List.length_map] at this
  exact this

/-! ### Python ranges -/
open Spec

theorem mem_rangeFuel : ∀ (fuel : Nat) (cur stop step x : Int), x ∈ rangeFuel fuel cur stop step →
    (0 < step → cur ≤ x ∧ x < stop) ∧ (step < 0 → stop < x ∧ x ≤ cur) := by
  intro fuel
  induction fuel with
  | zero => intro cur stop step x h; simp [rangeFuel] at h
  | succ n ih =>
    intro cur stop step x h
    simp only [rangeFuel] at h
    split at h
    · rename_i hc
      rcases List.mem_cons.mp h with h | h
      · subst h
        constructor
        · intro hs; rcases hc with hc | hc <;> omega
        · intro hs; rcases hc with hc | hc <;> omega
      · have := ih _ _ _ _ h
        constructor
        · intro hs; have := this.1 hs; omega
        · intro hs; have := this.2 hs; omega
    · simp at h

theorem nodup_rangeFuel : ∀ (fuel : Nat) (cur stop step : Int), (rangeFuel fuel cur stop step).Nodup := by
  intro fuel
  induction fuel with
  | zero => intro cur stop step; simp [rangeFuel]
  | succ n ih =>
    intro cur stop step
    simp only [rangeFuel]
    split
    · rename_i hc
      rw [List.nodup_cons]
      refine ⟨?_, ih _ _ _⟩
      intro hm
      have := mem_rangeFuel _ _ _ _ _ hm
      rcases hc with hc | hc
      · have := this.1 hc.1; omega
      · have := this.2 hc.1; omega
    · simp

theorem nodup_rangeOf (t : Int × Int × Int) : (rangeOf t).Nodup := by
  unfold rangeOf
  split
  · simp
  · exact nodup_rangeFuel _ _ _ _

/-- what a Python slice selects lies inside the axis -/
theorem mem_rangeOf_pyAdjust {a b : Option Int} {step dim x : Int} (hd : 0 ≤ dim) (hs : step ≠ 0)
    (hx : x ∈ rangeOf (pyAdjust a b step dim)) : 0 ≤ x ∧ x < dim := by
  unfold rangeOf at hx
  split at hx
  · simp at hx
  · have h := mem_rangeFuel _ _ _ _ _ hx
    have hstep : 0 < step ∨ step < 0 := by omega
    rcases hstep with hp | hn
    · have := h.1 hp
      have hn' : ¬ step < 0 := by omega
      cases a <;> cases b <;> simp only [pyAdjust, hn', if_false] at this <;> omega
    · have := h.2 hn
      cases a <;> cases b <;> simp only [pyAdjust, hn, if_true] at this <;> omega

end Dok
end SparseV

/-
  SparseV.Lemmas.GcxsVec — re-compression of a sorted list of linear positions:
  `indices = pos % C`, `indptr = cumsum(bincount(pos // C, minlength=R))` is a well-formed CSR triple of the
  `R × C` view whose entry `(r, c)` is the element at position `r*C + c`; and `GIx.vecResult` as a whole.
-/
import SparseV.Lemmas.GcxsKey
namespace SparseV
open COO
namespace GIx

theorem countLt_mono : ∀ (l : List Nat) {k k' : Nat}, k ≤ k' → countLt l k ≤ countLt l k'
  | [], _, _, _ => by simp [countLt]
  | a :: l, k, k', h => by
    have ih := countLt_mono l h
    unfold countLt at ih ⊢
    simp only [List.filter_cons]
    by_cases h1 : a < k
    · have h2 : a < k' := by omega
      simp only [h1, h2, decide_true, if_true, List.length_cons]; omega
    · by_cases h2 : a < k'
      · simp only [h1, h2, decide_true, decide_false, if_true, Bool.false_eq_true, if_false, List.length_cons]; omega
      · simp only [h1, h2, decide_false, Bool.false_eq_true, if_false]; exact ih

theorem countLt_le_length (l : List Nat) (k : Nat) : countLt l k ≤ l.length := by
  unfold countLt; exact List.length_filter_le _ _

theorem indptrOf_getD (rows : List Nat) (R r : Nat) (h : r ≤ R) : (indptrOf rows R).getD r 0 = countLt rows r := by
  unfold indptrOf
  rw [List.getD_eq_getElem?_getD, List.getElem?_eq_getElem (by simp; omega)]
  simp

/-- on a non-decreasing list the elements below `k` are a prefix, the others the matching suffix -/
theorem take_countLt (rows : List Nat) (k : Nat) (hs : rows.Pairwise (· ≤ ·)) :
    rows.take (countLt rows k) = rows.filter (· < k) ∧ rows.drop (countLt rows k) = rows.filter (fun r => k ≤ r) := by
  have h := sorted_split k rows hs
  constructor
  · conv => lhs; arg 2; rw [h]
    exact List.take_left' rfl
  · conv => lhs; arg 2; rw [h]
    exact List.drop_left' rfl

/-- **re-compression.**  For strictly increasing positions `qs` below `R * C` with values `dat`, the triple
`(cumsum(bincount(qs // C, minlength=R)), qs % C, dat)` is a well-formed `R × C` CSR triple and its flat entries are
`([q / C, q % C], v)`. -/
theorem indptrOf_csr (qs : List Nat) (dat : List Int) (R C : Nat) (hq : qs.Pairwise (· < ·))
    (hlt : ∀ q ∈ qs, q < R * C) (hd : dat.length = qs.length) :
    CsrWF R C (indptrOf (qs.map (· / C)) R) (qs.map (· % C)) dat.length ∧
    csrEntries (indptrOf (qs.map (· / C)) R) (qs.map (· % C)) dat =
      (qs.zip dat).map fun p => ([p.1 / C, p.1 % C], p.2) := by
  have hrs : (qs.map (· / C)).Pairwise (· ≤ ·) := by
    rw [List.pairwise_map]
    exact hq.imp (fun {a b} h => Nat.div_le_div_right (Nat.le_of_lt h))
  have hrlt : ∀ r ∈ qs.map (· / C), r < R := by
    intro r hr
    obtain ⟨q, hq', rfl⟩ := List.mem_map.mp hr
    apply Nat.div_lt_of_lt_mul
    rw [Nat.mul_comm]; exact hlt q hq'
  constructor
  · refine ⟨by simp [indptrOf], ?_, ?_, by simp [hd], ?_, ?_, ?_⟩
    · rw [indptrOf_getD _ _ _ (Nat.zero_le _)]; simp [countLt]
    · rw [indptrOf_getD _ _ _ (Nat.le_refl _)]
      unfold countLt
      rw [List.filter_eq_self.mpr (fun a ha => by simpa using hrlt a ha)]
      simp
    · intro r hr
      rw [indptrOf_getD _ _ _ (by omega), indptrOf_getD _ _ _ (by omega)]
      exact countLt_mono _ (by omega)
    · intro r hr
      rw [indptrOf_getD _ _ _ (by omega), indptrOf_getD _ _ _ (by omega)]
      unfold rowSlice
      rw [← List.map_take, ← List.map_drop, List.pairwise_map]
      -- the slice of `qs`: a sublist, all with quotient `r`
      have hsub : ((qs.take (countLt (qs.map (· / C)) (r + 1))).drop (countLt (qs.map (· / C)) r)).Pairwise (· < ·) :=
        (hq.sublist (List.take_sublist _ _)).sublist (List.drop_sublist _ _)
      refine hsub.imp_of_mem ?_
      intro a b ha hb hab
      have hquot : ∀ x ∈ (qs.take (countLt (qs.map (· / C)) (r + 1))).drop (countLt (qs.map (· / C)) r), x / C = r := by
        intro x hx
        have h1 : x / C < r + 1 := by
          have hx1 : x ∈ qs.take (countLt (qs.map (· / C)) (r + 1)) := List.mem_of_mem_drop hx
          have : x / C ∈ (qs.map (· / C)).take (countLt (qs.map (· / C)) (r + 1)) := by
            rw [← List.map_take]; exact List.mem_map.mpr ⟨x, hx1, rfl⟩
          rw [(take_countLt _ (r + 1) hrs).1] at this
          simpa using (List.mem_filter.mp this).2
        have h2 : r ≤ x / C := by
          -- `drop k (take m qs)` is a sublist of `drop k qs`
          have hx2 : x ∈ qs.drop (countLt (qs.map (· / C)) r) := by
            rw [List.drop_take] at hx
            exact List.mem_of_mem_take hx
          have : x / C ∈ (qs.map (· / C)).drop (countLt (qs.map (· / C)) r) := by
            rw [← List.map_drop]; exact List.mem_map.mpr ⟨x, hx2, rfl⟩
          rw [(take_countLt _ r hrs).2] at this
          simpa using (List.mem_filter.mp this).2
        omega
      have ha' := hquot a ha
      have hb' := hquot b hb
      have e1 := Nat.div_add_mod a C
      have e2 := Nat.div_add_mod b C
      rw [ha'] at e1
      rw [hb'] at e2
      omega
    · intro c hc
      obtain ⟨q, hq', rfl⟩ := List.mem_map.mp hc
      apply Nat.mod_lt
      have := hlt q hq'
      rcases Nat.eq_zero_or_pos C with h0 | h0
      · subst h0; simp at this
      · exact h0
  · unfold csrEntries
    rw [uncompress_indptrOf' _ R hrs hrlt, List.zip_map', List.zip_map_left, List.map_map]
    apply List.map_congr_left
    intro p _
    rfl

/-! ### a sparse vector of linear positions as a GCXS array (`vecResult`) -/

theorem lookup_map_inj (φ : Nat → Idx) (hφ : ∀ a b, φ a = φ b → a = b) : ∀ (l : List (Nat × Int)) (d : Int) (q : Nat),
    lookup (l.map fun p => (φ p.1, p.2)) d (φ q) = rowGet l d q
  | [], _, _ => by simp [lookup, rowGet]
  | e :: l, d, q => by
    rw [List.map_cons, lookup_cons]
    have ih := lookup_map_inj φ hφ l d q
    unfold rowGet at ih ⊢
    rw [List.find?_cons]
    by_cases h : e.1 = q
    · subst h; simp
    · have h1 : ¬ φ e.1 = φ q := fun hh => h (hφ _ _ hh)
      have h2 : (e.1 == q) = false := by simpa using h
      rw [if_neg h1, h2]
      exact ih

theorem zip_fst_sublist {β γ : Type} : ∀ (a : List β) (b : List γ), ((a.zip b).map (·.1)).Sublist a
  | [], _ => by simp
  | _ :: _, [] => by simp
  | x :: a, y :: b => by
    simp only [List.zip_cons_cons, List.map_cons]
    exact (zip_fst_sublist a b).cons_cons x

theorem keys_nodup_map_inj (φ : Nat → Idx) (hφ : ∀ a b, φ a = φ b → a = b) (qs : List Nat) (dat : List Int)
    (hq : qs.Pairwise (· < ·)) : (keysOf ((qs.zip dat).map fun p => (φ p.1, p.2))).Nodup := by
  unfold keysOf
  rw [List.map_map]
  have h1 : ((qs.zip dat).map ((fun e : Idx × Int => e.1) ∘ fun p => (φ p.1, p.2))) = ((qs.zip dat).map (·.1)).map φ := by
    rw [List.map_map]; rfl
  rw [h1]
  have hsub : ((qs.zip dat).map (·.1)).Sublist qs := zip_fst_sublist qs dat
  have hnd : ((qs.zip dat).map (·.1)).Pairwise (· < ·) := hq.sublist hsub
  unfold List.Nodup
  rw [List.pairwise_map]
  exact hnd.imp (fun {a b} hab heq => by have := hφ _ _ heq; omega)

end GIx

namespace GCXS
open GIx

/-- the CSR view of a shape `d0 :: ds` whose only compressed axis is 0: nothing is reordered, `d0` rows, `∏ ds` columns -/
theorem caxes0_view (d0 : Nat) (ds : List Nat) :
    (∀ xs : List Nat, xs.length = (d0 :: ds).length → gather xs (axisOrder (d0 :: ds).length [0]) = xs) ∧
    csrR (d0 :: ds) [0] = d0 ∧ csrC (d0 :: ds) [0] = prod ds := by
  have hmask : maskOf (d0 :: ds).length [0] = true :: List.replicate ds.length false := by
    unfold maskOf
    rw [List.length_cons, List.range_succ_eq_map, List.map_cons, List.map_map]
    congr 1
    apply List.ext_getElem
    · simp
    · intro i h1 h2; simp
  have hgather : ∀ xs : List Nat, xs.length = (d0 :: ds).length →
      gather xs (axisOrder (d0 :: ds).length [0]) = xs := by
    intro xs hx
    rw [gather_axisOrder _ [0] xs (by simp) (by simp) hx, hmask]
    cases xs with
    | nil => simp at hx
    | cons x xs' =>
      have hx' : xs'.length = ds.length := by simpa using hx
      have e1 : ∀ (k : Nat) (l : List Nat), l.length = k → sel (List.replicate k false) l = [] := by
        intro k
        induction k with
        | zero => intro l _; simp [sel]
        | succ k ih =>
          intro l hl
          cases l with
          | nil => simp at hl
          | cons y l' => simp [List.replicate_succ, sel, ih l' (by simpa using hl)]
      have e2 : ∀ (k : Nat) (l : List Nat), l.length = k → sel (List.replicate k true) l = l := by
        intro k
        induction k with
        | zero => intro l hl; have := List.length_eq_zero_iff.mp hl; subst this; simp [sel]
        | succ k ih =>
          intro l hl
          cases l with
          | nil => simp at hl
          | cons y l' => simp [List.replicate_succ, sel, ih l' (by simpa using hl)]
      simp only [sel, if_true, List.map_cons, Bool.not_true, Bool.false_eq_true, if_false, List.map_replicate,
        Bool.not_false, e1 _ _ hx', e2 _ _ hx']
      simp
  refine ⟨hgather, ?_, ?_⟩
  · unfold csrR
    rw [hgather _ rfl]; simp [prod]
  · unfold csrC
    rw [hgather _ rfl]; simp

/-- the rank ≥ 2 result of `vecResult` -/
def vec2 (d0 : Nat) (ds qs : List Nat) (dat : List Int) (fill : Int) : GCXS Int :=
  { shape := d0 :: ds, caxes := some [0], indptr := indptrOf (qs.map (· / prod ds)) d0,
    indices := qs.map (· % prod ds), data := dat, fill := fill }

theorem vecResult_rank2 (d0 : Nat) (ds qs : List Nat) (dat : List Int) (fill : Int) (h : (d0 :: ds).length ≠ 1) :
    vecResult (d0 :: ds) qs dat fill = vec2 d0 ds qs dat fill := by
  unfold vecResult
  rw [if_neg h]
  rfl

theorem vec2_spec (d0 : Nat) (ds qs : List Nat) (dat : List Int) (fill : Int) (hds : 1 ≤ ds.length)
    (hq : qs.Pairwise (· < ·)) (hlt : ∀ q ∈ qs, q < d0 * prod ds) (hd : dat.length = qs.length) :
    (vec2 d0 ds qs dat fill).WF ∧
    (vec2 d0 ds qs dat fill).tocoo.shape = d0 :: ds ∧ (vec2 d0 ds qs dat fill).tocoo.fill = fill ∧
    ∀ j, InB j (d0 :: ds) → (vec2 d0 ds qs dat fill).tocoo.get j = rowGet (qs.zip dat) fill (ravel j (d0 :: ds)) := by
  obtain ⟨hcsr, hent⟩ := indptrOf_csr qs dat d0 (prod ds) hq hlt hd
  obtain ⟨hgather, hR, hC⟩ := caxes0_view d0 ds
  have hwf : (vec2 d0 ds qs dat fill).WF := by
    show ([0] : List Nat) ≠ [] ∧ ([0] : List Nat).length < (d0 :: ds).length ∧ _ ∧ _ ∧
      CsrWF (csrR (d0 :: ds) [0]) (csrC (d0 :: ds) [0]) (indptrOf (qs.map (· / prod ds)) d0) (qs.map (· % prod ds)) dat.length
    refine ⟨by simp, by simp only [List.length_cons, List.length_nil]; omega, by simp, ?_, ?_⟩
    · intro a ha
      show a < (d0 :: ds).length
      simp only [List.mem_singleton] at ha
      subst ha; simp
    · rw [hR, hC]; exact hcsr
  obtain ⟨t1, t2, _, _, _⟩ := tocoo_get _ [0] rfl hwf
  refine ⟨hwf, t1, t2, fun j hj => ?_⟩
  obtain ⟨hin, hnd, _⟩ := csr_facts _ _ _ _ _ hcsr
  have hcnd : ([0] : List Nat).Nodup := by simp
  obtain ⟨_, _, _, _, e5⟩ := tocoo_get_entries (vec2 d0 ds qs dat fill) [0] rfl hcnd
    (by simp [vec2]) (by
      show ∀ e ∈ csrEntries (indptrOf (qs.map (· / prod ds)) d0) (qs.map (· % prod ds)) dat,
        InB e.1 [csrR (d0 :: ds) [0], csrC (d0 :: ds) [0]]
      rw [hR, hC]; exact hin) hnd
  rw [e5 j hj]
  have hlin : linOf (d0 :: ds) [0] j = ravel j (d0 :: ds) := by
    unfold linOf
    rw [hgather _ rfl, hgather j (InB_length hj)]
  show lookup (csrEntries (indptrOf (qs.map (· / prod ds)) d0) (qs.map (· % prod ds)) dat) fill
    [linOf (d0 :: ds) [0] j / csrC (d0 :: ds) [0], linOf (d0 :: ds) [0] j % csrC (d0 :: ds) [0]] = _
  rw [hlin, hC, hent]
  exact lookup_map_inj (fun q => [q / prod ds, q % prod ds]) (fun a b h => by
    simp only [List.cons.injEq, and_true] at h
    have e1 := Nat.div_add_mod a (prod ds)
    have e2 := Nat.div_add_mod b (prod ds)
    rw [h.1, h.2] at e1
    omega) (qs.zip dat) fill (ravel j (d0 :: ds))

/-- **`vecResult`** (the post-processing of the "only compressed / only uncompressed axes" cases of `_getitem`): for
strictly increasing linear positions `qs` inside a shape of rank ≥ 1, with one value each, the result is a well-formed
GCXS array (1-d: `WF1`; otherwise `WF` with `compressed_axes = (0,)`) of that shape and fill value whose element `j`
is the value stored for position `ravel j shape`, the fill value when none is. -/
theorem vecResult_spec (shape qs : List Nat) (dat : List Int) (fill : Int) (hrank : 1 ≤ shape.length)
    (hq : qs.Pairwise (· < ·)) (hlt : ∀ q ∈ qs, q < prod shape) (hd : dat.length = qs.length) :
    (vecResult shape qs dat fill).shape = shape ∧ (vecResult shape qs dat fill).fill = fill ∧
    ((vecResult shape qs dat fill).WF ∨ (vecResult shape qs dat fill).WF1) ∧
    (vecResult shape qs dat fill).tocoo.shape = shape ∧ (vecResult shape qs dat fill).tocoo.fill = fill ∧
    ∀ j, InB j shape → (vecResult shape qs dat fill).tocoo.get j = rowGet (qs.zip dat) fill (ravel j shape) := by
  by_cases h1 : shape.length = 1
  · -- 1-d
    unfold vecResult
    rw [if_pos h1]
    obtain ⟨d0, hs⟩ : ∃ d0, shape = [d0] := List.length_eq_one_iff.mp h1
    subst hs
    have hes_in : ∀ e ∈ ((qs.zip dat).map fun p => ([p.1], p.2)), InB e.1 [d0] := by
      intro e he
      obtain ⟨p, hp, rfl⟩ := List.mem_map.mp he
      have := hlt p.1 (List.of_mem_zip (a := p.1) (b := p.2) hp).1
      simp only [prod, Nat.mul_one] at this
      exact ⟨this, trivial⟩
    have hes_nd := keys_nodup_map_inj (fun a => [a]) (fun a b h => by simpa using h) qs dat hq
    obtain ⟨b1, b2, _, _, b5⟩ := build_good [d0] ((qs.zip dat).map fun p => ([p.1], p.2)) fill hes_in hes_nd
    have htc : ({ shape := [d0], caxes := none, indptr := [], indices := qs, data := dat, fill := fill } : GCXS Int).tocoo
        = COO.build [d0] ((qs.zip dat).map fun p => ([p.1], p.2)) fill := by
      unfold tocoo; simp
    refine ⟨rfl, rfl, Or.inr ⟨rfl, rfl, hd, hq, ?_⟩, by rw [htc, b1], by rw [htc, b2], ?_⟩
    · intro c hc
      have := hlt c hc
      simpa [prod] using this
    · intro j hj
      rw [htc, b5 j]
      cases j with
      | nil => simp at hj
      | cons a as =>
        cases as with
        | cons _ _ => simp at hj
        | nil =>
          have : ravel [a] [d0] = a := by simp [ravel, prod]
          rw [this]
          exact lookup_map_inj (fun a => [a]) (fun a b h => by simpa using h) (qs.zip dat) fill a
  · -- rank ≥ 2: compressed_axes = (0,)
    cases hshape : shape with
    | nil => rw [hshape] at hrank; simp at hrank
    | cons d0 ds =>
      rw [hshape] at h1 hlt
      have hds : 1 ≤ ds.length := by
        simp only [List.length_cons] at h1
        rcases Nat.eq_zero_or_pos ds.length with h | h
        · omega
        · exact h
      rw [vecResult_rank2 d0 ds qs dat fill h1]
      obtain ⟨w1, w2, w3, w4⟩ := vec2_spec d0 ds qs dat fill hds hq (by simpa [prod] using hlt) hd
      exact ⟨rfl, rfl, Or.inl w1, w2, w3, w4⟩

end GCXS
end SparseV

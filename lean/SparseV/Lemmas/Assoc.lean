/-
  SparseV.Lemmas.Assoc — lookups in entry lists: the lemmas every "rewrite the coordinates, then
  hand the entries to the constructor" operation rests on.
-/
import SparseV.Model.Coo
namespace SparseV
namespace COO
variable {α : Type}

def keysOf (es : List (Idx × α)) : List Idx := es.map (·.1)

@[simp] theorem lookup_nil (d : α) (i : Idx) : lookup ([] : List (Idx × α)) d i = d := by
  simp [lookup]

theorem lookup_cons (e : Idx × α) (es : List (Idx × α)) (d : α) (i : Idx) :
    lookup (e :: es) d i = if e.1 = i then e.2 else lookup es d i := by
  unfold lookup
  simp only [List.find?_cons]
  by_cases h : e.1 = i
  · simp [h]
  · have : (e.1 == i) = false := by simpa using h
    simp [this, h]

theorem lookup_of_not_mem {es : List (Idx × α)} {d : α} {i : Idx} (h : i ∉ keysOf es) :
    lookup es d i = d := by
  induction es with
  | nil => simp
  | cons e es ih =>
    rw [lookup_cons]
    simp only [keysOf, List.map_cons, List.mem_cons, not_or] at h
    have h1 : ¬ e.1 = i := fun hh => h.1 hh.symm
    simp only [h1, if_false]
    exact ih h.2

theorem lookup_of_mem {es : List (Idx × α)} {d : α} {i : Idx} {v : α}
    (hnd : (keysOf es).Nodup) (hm : (i, v) ∈ es) : lookup es d i = v := by
  induction es with
  | nil => cases hm
  | cons e es ih =>
    rw [lookup_cons]
    simp only [keysOf, List.map_cons, List.nodup_cons] at hnd
    rcases List.mem_cons.mp hm with h | h
    · subst h; simp
    · have : e.1 ≠ i := by
        intro he
        apply hnd.1
        rw [he]
        exact List.mem_map.mpr ⟨(i, v), h, rfl⟩
      simp only [this, if_false]
      exact ih hnd.2 h

/-- lookups do not depend on storage order when the stored indices are distinct -/
theorem lookup_perm {es es' : List (Idx × α)} (d : α) (i : Idx)
    (hnd : (keysOf es).Nodup) (hp : es.Perm es') : lookup es d i = lookup es' d i := by
  have hnd' : (keysOf es').Nodup := (List.Perm.map (fun e : Idx × α => e.1) hp).nodup_iff.mp hnd
  by_cases hk : i ∈ keysOf es
  · obtain ⟨e, he, hi⟩ := List.mem_map.mp hk
    have hm : (i, e.2) ∈ es := by rw [← hi]; exact he
    have hm' : (i, e.2) ∈ es' := hp.mem_iff.mp hm
    rw [lookup_of_mem hnd hm, lookup_of_mem hnd' hm']
  · have hk' : i ∉ keysOf es' := by
      intro h
      apply hk
      exact (List.Perm.map (fun e : Idx × α => e.1) hp).mem_iff.mpr h
    rw [lookup_of_not_mem hk, lookup_of_not_mem hk']

/-- filtering on the index: a kept index reads the same value, a dropped one reads the default -/
theorem lookup_filter (p : Idx → Bool) (es : List (Idx × α)) (d : α) (j : Idx) :
    lookup (es.filter fun e => p e.1) d j = if p j then lookup es d j else d := by
  induction es with
  | nil => simp
  | cons e es ih =>
    rw [List.filter_cons]
    by_cases hp : p e.1 = true
    · rw [if_pos hp, lookup_cons, lookup_cons, ih]
      by_cases he : e.1 = j
      · rw [if_pos he, if_pos he]; rw [he] at hp; rw [if_pos hp]
      · rw [if_neg he, if_neg he]
    · rw [if_neg hp, ih, lookup_cons]
      by_cases he : e.1 = j
      · rw [he] at hp; rw [if_neg hp, if_neg hp]
      · rw [if_neg he]

/-- **The coordinate-rewrite lemma.** `g` rewrites (or drops) stored coordinates, `h` maps a result
index back to the operand index it reads.  If `h` inverts `g` wherever `g` keeps an entry, and `g`
keeps and hits every result index `j` of interest, then looking `j` up in the rewritten list is
looking `h j` up in the original. -/
theorem lookup_filterMap (es : List (Idx × α)) (d : α) (g : Idx → Option Idx) (h : Idx → Idx)
    (j : Idx) (hinv : ∀ e ∈ es, ∀ j', g e.1 = some j' → h j' = e.1) (hj : g (h j) = some j) :
    lookup (es.filterMap fun e => (g e.1).map fun k => (k, e.2)) d j = lookup es d (h j) := by
  induction es with
  | nil => simp
  | cons e es ih =>
    have ih := ih (fun e' he' => hinv e' (List.mem_cons_of_mem _ he'))
    rw [lookup_cons, List.filterMap_cons]
    cases hg : g e.1 with
    | none =>
      simp only [Option.map_none]
      have : ¬ e.1 = h j := by
        intro he
        rw [he, hj] at hg
        cases hg
      simp only [this, if_false]
      exact ih
    | some j' =>
      simp only [Option.map_some]
      rw [lookup_cons]
      by_cases hjj : j' = j
      · subst hjj
        have : e.1 = h j' := (hinv e (List.mem_cons_self) _ hg).symm
        simp [this]
      · have : ¬ e.1 = h j := by
          intro he
          rw [he, hj] at hg
          exact hjj (Option.some.inj hg).symm
        simp only [hjj, this, if_false]
        exact ih

/-- an index that `g` never produces is not stored in the rewritten list -/
theorem lookup_filterMap_miss (es : List (Idx × α)) (d : α) (g : Idx → Option Idx) (j : Idx)
    (hmiss : ∀ e ∈ es, g e.1 ≠ some j) :
    lookup (es.filterMap fun e => (g e.1).map fun k => (k, e.2)) d j = d := by
  apply lookup_of_not_mem
  intro hmem
  obtain ⟨e', he', hk⟩ := List.mem_map.mp hmem
  obtain ⟨e, he, hge⟩ := List.mem_filterMap.mp he'
  cases hg : g e.1 with
  | none => simp [hg] at hge
  | some k =>
    simp only [hg, Option.map_some, Option.some.injEq] at hge
    subst hge
    simp only at hk
    subst hk
    exact hmiss e he hg

/-- distinct keys stay distinct under an injective-where-defined rewrite -/
theorem nodup_filterMap (es : List (Idx × α)) (g : Idx → Option Idx)
    (hinj : ∀ e ∈ es, ∀ e' ∈ es, ∀ k, g e.1 = some k → g e'.1 = some k → e.1 = e'.1) (hnd : (keysOf es).Nodup) :
    (keysOf (es.filterMap fun e => (g e.1).map fun k => (k, e.2))).Nodup := by
  induction es with
  | nil => simp [keysOf]
  | cons e es ih =>
    simp only [keysOf, List.map_cons, List.nodup_cons] at hnd
    have ih := ih (fun a ha b hb => hinj a (List.mem_cons_of_mem _ ha) b (List.mem_cons_of_mem _ hb))
    rw [List.filterMap_cons]
    cases hg : g e.1 with
    | none => simpa using ih hnd.2
    | some k =>
      simp only [Option.map_some, keysOf, List.map_cons, List.nodup_cons]
      refine ⟨?_, ih hnd.2⟩
      intro hmem
      obtain ⟨e', he', hk⟩ := List.mem_map.mp hmem
      obtain ⟨e2, he2, hge⟩ := List.mem_filterMap.mp he'
      cases hg2 : g e2.1 with
      | none => simp [hg2] at hge
      | some k2 =>
        simp only [hg2, Option.map_some, Option.some.injEq] at hge
        subst hge
        simp only at hk
        subst hk
        have : e.1 = e2.1 := hinj e List.mem_cons_self e2 (List.mem_cons_of_mem _ he2) _ hg hg2
        apply hnd.1
        rw [this]
        exact List.mem_map.mpr ⟨e2, he2, rfl⟩

theorem sortEntries_perm (shape : List Nat) (es : List (Idx × α)) : (sortEntries shape es).Perm es :=
  List.mergeSort_perm _ _

theorem lookup_sortEntries (shape : List Nat) (es : List (Idx × α)) (d : α) (i : Idx)
    (hnd : (keysOf es).Nodup) : lookup (sortEntries shape es) d i = lookup es d i :=
  (lookup_perm d i hnd (sortEntries_perm shape es).symm).symm

theorem nodup_sortEntries (shape : List Nat) (es : List (Idx × α)) (hnd : (keysOf es).Nodup) :
    (keysOf (sortEntries shape es)).Nodup :=
  (List.Perm.map (fun e : Idx × α => e.1) (sortEntries_perm shape es)).nodup_iff.mpr hnd

/-- `mapIdx` is the total case of the rewrite -/
theorem mapIdx_eq_filterMap (f : Idx → Idx) (es : List (Idx × α)) :
    mapIdx f es = es.filterMap fun e => ((fun i => some (f i)) e.1).map fun k => (k, e.2) := by
  induction es with
  | nil => rfl
  | cons e es ih => simp [mapIdx, List.filterMap_cons] at ih ⊢

end COO
end SparseV

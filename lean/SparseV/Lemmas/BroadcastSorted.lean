/-
  SparseV.Lemmas.BroadcastSorted — the `sorted=` claim of `broadcast_to`: when the non-broadcast
  axes are adjacent, `_get_expanded_coords_data` emits the entries of a sorted operand in sorted order.
-/
import SparseV.Lemmas.Broadcast
namespace SparseV

/-! ## lexicographic order and linear locations -/

theorem bc_lex_of_ravel_lt : ∀ {i j : Idx} {s : List Nat}, InB i s → InB j s → ravel i s < ravel j s → i < j
  | [], [], [], _, _, h => by simp [ravel] at h
  | a :: as, b :: bs, d :: ds, hi, hj, h => by
    have h1 : ravel as ds < prod ds := ravel_lt hi.2
    have h2 : ravel bs ds < prod ds := ravel_lt hj.2
    simp only [ravel] at h
    rw [List.cons_lt_cons_iff]
    by_cases hab : a < b
    · exact Or.inl hab
    · by_cases hba : b < a
      · exfalso
        have : (b + 1) * prod ds ≤ a * prod ds := Nat.mul_le_mul_right _ hba
        rw [Nat.add_mul, Nat.one_mul] at this
        omega
      · have hEq : a = b := by omega
        subst hEq
        exact Or.inr ⟨rfl, bc_lex_of_ravel_lt hi.2 hj.2 (by omega)⟩
  | [], _ :: _, [], _, hj, _ => absurd hj (by simp)
  | [], _, _ :: _, hi, _, _ => absurd hi (by simp)
  | _ :: _, _, [], hi, _, _ => absurd hi (by simp)
  | _ :: _, [], _ :: _, _, hj, _ => absurd hj (by simp)

namespace COO
variable {α : Type}

instance (s : List Nat) (es : List (Idx × α)) : Decidable (SortedLin s es) := by
  unfold SortedLin; infer_instance

/-- stored in strictly increasing lexicographic (row-major) order of the indices -/
def LexSorted (L : List (Idx × α)) : Prop := L.Pairwise fun x y => x.1 < y.1

theorem lexSorted_of_sortedLin {s : List Nat} {es : List (Idx × α)} (hwf : ∀ e ∈ es, InB e.1 s)
    (h : SortedLin s es) : LexSorted es := by
  unfold SortedLin lin at h
  rw [List.pairwise_map] at h
  exact h.imp_of_mem fun ha hb hab => bc_lex_of_ravel_lt (hwf _ ha) (hwf _ hb) hab

theorem sortedLin_of_lexSorted {s : List Nat} {es : List (Idx × α)} (hwf : ∀ e ∈ es, InB e.1 s)
    (h : LexSorted es) : SortedLin s es := by
  unfold SortedLin lin
  rw [List.pairwise_map]
  exact h.imp_of_mem fun ha hb hab => ravel_lt_of_lex (hwf _ ha) (hwf _ hb) hab

theorem LexSorted.map_cons {L : List (Idx × α)} (h : LexSorted L) (c : Nat) :
    LexSorted (L.map fun r => (c :: r.1, r.2)) := by
  unfold LexSorted at *
  rw [List.pairwise_map]
  exact h.imp fun hab => List.cons_lt_cons_iff.mpr (Or.inr ⟨rfl, hab⟩)

theorem LexSorted.range_flatMap {L : List (Idx × α)} (h : LexSorted L) (sh : Nat) :
    LexSorted ((List.range sh).flatMap fun b => L.map fun r => (b :: r.1, r.2)) := by
  unfold LexSorted
  rw [List.pairwise_flatMap]
  refine ⟨fun b _ => h.map_cons b, ?_⟩
  refine List.pairwise_lt_range.imp ?_
  intro b1 b2 hlt x hx y hy
  obtain ⟨x', _, rfl⟩ := List.mem_map.mp hx
  obtain ⟨y', _, rfl⟩ := List.mem_map.mp hy
  exact List.cons_lt_cons_iff.mpr (Or.inl hlt)

theorem lexSorted_expandGo_some (ps : List (Option Bool × Nat)) (es : List (Idx × α)) (e : Idx × α) :
    ∀ d, LexSorted (expandGo ps d (some e) es) := by
  induction ps with
  | nil => intro d; simp [expandGo, LexSorted]
  | cons p rest ih =>
    intro d
    obtain ⟨o, sh⟩ := p
    match o with
    | some true => simp only [expandGo]; exact (ih _).map_cons _
    | some false => simp only [expandGo]; exact (ih _).range_flatMap _
    | none => simp only [expandGo]; exact (ih _).range_flatMap _

/-! ## the loops, seen from the remaining operand coordinates -/

/-- `Match` in terms of the operand coordinates not yet consumed -/
def MatchL : List (Option Bool × Nat) → Idx → Idx → Prop
  | [], _, j => j = []
  | (some true, _) :: rest, l, j => ∃ j', j = l.headD 0 :: j' ∧ MatchL rest l.tail j'
  | (some false, sh) :: rest, l, j => ∃ b j', j = b :: j' ∧ b < sh ∧ MatchL rest l.tail j'
  | (none, sh) :: rest, l, j => ∃ b j', j = b :: j' ∧ b < sh ∧ MatchL rest l j'

theorem headD_drop (ei : Idx) (d : Nat) : (ei.drop d).headD 0 = ei.getD d 0 := by
  induction ei generalizing d with
  | nil => simp
  | cons x ei ih =>
    cases d with
    | zero => simp
    | succ d => simp

theorem match_iff_matchL (ps : List (Option Bool × Nat)) (ei : Idx) :
    ∀ (d : Nat) (j : Idx), Match ps d ei j ↔ MatchL ps (ei.drop d) j := by
  induction ps with
  | nil => intro d j; simp [Match, MatchL]
  | cons p rest ih =>
    intro d j
    obtain ⟨o, sh⟩ := p
    match o with
    | some true =>
      simp only [Match, MatchL, headD_drop, List.tail_drop]
      constructor
      · rintro ⟨j', h1, h2⟩; exact ⟨j', h1, (ih _ _).mp h2⟩
      · rintro ⟨j', h1, h2⟩; exact ⟨j', h1, (ih _ _).mpr h2⟩
    | some false =>
      simp only [Match, MatchL, List.tail_drop]
      constructor
      · rintro ⟨b, j', h1, hb, h2⟩; exact ⟨b, j', h1, hb, (ih _ _).mp h2⟩
      · rintro ⟨b, j', h1, hb, h2⟩; exact ⟨b, j', h1, hb, (ih _ _).mpr h2⟩
    | none =>
      simp only [Match, MatchL]
      constructor
      · rintro ⟨b, j', h1, hb, h2⟩; exact ⟨b, j', h1, hb, (ih _ _).mp h2⟩
      · rintro ⟨b, j', h1, hb, h2⟩; exact ⟨b, j', h1, hb, (ih _ _).mpr h2⟩

/-- the operand coordinates fit the parameter list: one coordinate per operand axis, 0 on the
broadcast axes (their operand extent is 1) -/
def Fit : List (Option Bool × Nat) → Idx → Prop
  | [], l => l = []
  | (some true, _) :: rest, l => ∃ c tl, l = c :: tl ∧ Fit rest tl
  | (some false, _) :: rest, l => ∃ tl, l = 0 :: tl ∧ Fit rest tl
  | (none, _) :: rest, l => Fit rest l

/-! ## the layouts for which the claim holds: broadcast* non-broadcast* broadcast* -/

/-- after the block of non-broadcast axes: only broadcast axes may follow -/
def form2 : List Bool → Bool
  | [] => true
  | true :: _ => false
  | false :: r => form2 r
/-- inside the block of non-broadcast axes -/
def form1 : List Bool → Bool
  | [] => true
  | true :: r => form1 r
  | false :: r => form2 r
/-- before the block -/
def form0 : List Bool → Bool
  | [] => true
  | true :: r => form1 r
  | false :: r => form0 r

/-- non-broadcast flags of a parameter list -/
def flagsOf (ps : List (Option Bool × Nat)) : List Bool := ps.map fun p => p.1 == some true

theorem fit_form2 : ∀ (ps : List (Option Bool × Nat)) (l l' : Idx), form2 (flagsOf ps) = true →
    Fit ps l → Fit ps l' → l = l' := by
  intro ps
  induction ps with
  | nil => intro l l' _ h h'; simp only [Fit] at h h'; rw [h, h']
  | cons p rest ih =>
    intro l l' hf h h'
    obtain ⟨o, sh⟩ := p
    match o with
    | some true => simp [flagsOf, form2] at hf
    | some false =>
      simp only [Fit] at h h'
      obtain ⟨tl, rfl, h⟩ := h
      obtain ⟨tl', rfl, h'⟩ := h'
      rw [ih tl tl' (by simpa [flagsOf, form2] using hf) h h']
    | none =>
      simp only [Fit] at h h'
      exact ih l l' (by simpa [flagsOf, form2] using hf) h h'

/-- inside the block: a smaller operand index gives smaller result indices, whatever the broadcast
coordinates -/
theorem lt_of_form1 : ∀ (ps : List (Option Bool × Nat)) (l l' j j' : Idx), form1 (flagsOf ps) = true →
    Fit ps l → Fit ps l' → l < l' → MatchL ps l j → MatchL ps l' j' → j < j' := by
  intro ps
  induction ps with
  | nil =>
    intro l l' j j' _ h h' hlt _ _
    simp only [Fit] at h h'
    rw [h, h'] at hlt
    exact absurd hlt (by simp)
  | cons p rest ih =>
    intro l l' j j' hf h h' hlt m m'
    obtain ⟨o, sh⟩ := p
    match o with
    | some true =>
      simp only [Fit] at h h'
      obtain ⟨c, tl, rfl, h⟩ := h
      obtain ⟨c', tl', rfl, h'⟩ := h'
      simp only [MatchL, List.headD_cons, List.tail_cons] at m m'
      obtain ⟨j1, rfl, m⟩ := m
      obtain ⟨j1', rfl, m'⟩ := m'
      rw [List.cons_lt_cons_iff] at hlt ⊢
      rcases hlt with hlt | ⟨rfl, hlt⟩
      · exact Or.inl hlt
      · exact Or.inr ⟨rfl, ih tl tl' j1 j1' (by simpa [flagsOf, form1] using hf) h h' hlt m m'⟩
    | some false =>
      simp only [Fit] at h h'
      obtain ⟨tl, rfl, h⟩ := h
      obtain ⟨tl', rfl, h'⟩ := h'
      have := fit_form2 rest tl tl' (by simpa [flagsOf, form1] using hf) h h'
      subst this
      exact absurd hlt (List.lt_irrefl _)
    | none =>
      simp only [Fit] at h h'
      have := fit_form2 rest l l' (by simpa [flagsOf, form1] using hf) h h'
      subst this
      exact absurd hlt (List.lt_irrefl _)

/-- **the loops emit sorted output** for a lexicographically sorted operand whenever the layout is
broadcast* non-broadcast* broadcast* -/
theorem lexSorted_expandGo_none (ps : List (Option Bool × Nat)) (es : List (Idx × α)) :
    ∀ d, form0 (flagsOf ps) = true → (∀ e ∈ es, Fit ps (e.1.drop d)) →
      es.Pairwise (fun e e' => e.1.drop d < e'.1.drop d) → LexSorted (expandGo ps d none es) := by
  induction ps with
  | nil =>
    intro d _ hfit h
    simp only [expandGo]
    unfold LexSorted
    rw [List.pairwise_map]
    refine h.imp_of_mem ?_
    intro a b ha hb hab
    have h1 := hfit a ha
    have h2 := hfit b hb
    simp only [Fit] at h1 h2
    rw [h1, h2] at hab
    exact absurd hab (by simp)
  | cons p rest ih =>
    intro d hf hfit h
    obtain ⟨o, sh⟩ := p
    match o with
    | some true =>
      simp only [expandGo]
      unfold LexSorted
      rw [List.pairwise_flatMap]
      refine ⟨fun e _ => (lexSorted_expandGo_some rest es e _).map_cons _, h.imp_of_mem ?_⟩
      intro e e' he he' hlt x hx y hy
      obtain ⟨⟨jx, vx⟩, hx', rfl⟩ := List.mem_map.mp hx
      obtain ⟨⟨jy, vy⟩, hy', rfl⟩ := List.mem_map.mp hy
      have mx := ((mem_expandGo_some rest es e _ _ _).mp hx').2
      have my := ((mem_expandGo_some rest es e' _ _ _).mp hy').2
      have f1 := hfit e he
      have f2 := hfit e' he'
      have M1 : MatchL ((some true, sh) :: rest) (e.1.drop d) (e.1.getD d 0 :: jx) :=
        (match_iff_matchL _ _ _ _).mp ⟨jx, rfl, mx⟩
      have M2 : MatchL ((some true, sh) :: rest) (e'.1.drop d) (e'.1.getD d 0 :: jy) :=
        (match_iff_matchL _ _ _ _).mp ⟨jy, rfl, my⟩
      exact lt_of_form1 _ _ _ _ _ (by simpa [flagsOf, form0, form1] using hf) f1 f2 hlt M1 M2
    | some false =>
      simp only [expandGo]
      apply LexSorted.range_flatMap
      have hstep : ∀ e ∈ es, ∃ tl, e.1.drop d = 0 :: tl ∧ Fit rest tl := fun e he => by
        have := hfit e he
        simpa only [Fit] using this
      have hdrop : ∀ e ∈ es, ∀ tl, e.1.drop d = 0 :: tl → e.1.drop (d + 1) = tl := fun e _ tl htl =>
        (drop_cons_getD e.1 d 0 tl htl).2
      apply ih (d + 1) (by simpa [flagsOf, form0] using hf)
      · intro e he
        obtain ⟨tl, h1, h2⟩ := hstep e he
        rw [hdrop e he tl h1]; exact h2
      · refine h.imp_of_mem ?_
        intro a b ha hb hab
        obtain ⟨tl, h1, _⟩ := hstep a ha
        obtain ⟨tl', h1', _⟩ := hstep b hb
        rw [hdrop a ha tl h1, hdrop b hb tl' h1']
        rw [h1, h1', List.cons_lt_cons_iff] at hab
        rcases hab with hab | hab
        · omega
        · exact hab.2
    | none =>
      simp only [expandGo]
      apply LexSorted.range_flatMap
      apply ih d (by simpa [flagsOf, form0] using hf)
      · intro e he
        have := hfit e he
        simpa only [Fit] using this
      · exact h

end COO

/-! ## `expandSorted` recognises exactly these layouts -/

/-- positions of the `true` flags, counted from `o` -/
def trueIdx : List Bool → Nat → List Nat
  | [], _ => []
  | true :: bs, o => o :: trueIdx bs (o + 1)
  | false :: bs, o => trueIdx bs (o + 1)

/-- `all(d == 1 for d in diff(nonbroadcast_idx))` -/
def adjL (nb : List Nat) : Bool := (List.zip (nb.drop 1) nb).all fun p => p.1 - p.2 == 1

theorem adjL_cons_cons (a b : Nat) (L : List Nat) : adjL (a :: b :: L) = (b - a == 1 && adjL (b :: L)) := by
  simp [adjL]

theorem form2_of_adj : ∀ (bs : List Bool) (o q : Nat), o + 2 ≤ q → adjL (o :: trueIdx bs q) = true →
    COO.form2 bs = true
  | [], _, _, _, _ => rfl
  | true :: bs, o, q, hq, h => by
    simp only [trueIdx, adjL_cons_cons, Bool.and_eq_true, beq_iff_eq] at h
    omega
  | false :: bs, o, q, hq, h => by
    simp only [trueIdx] at h
    simp only [COO.form2]
    exact form2_of_adj bs o (q + 1) (by omega) h

theorem form1_of_adj : ∀ (bs : List Bool) (o : Nat), adjL (o :: trueIdx bs (o + 1)) = true →
    COO.form1 bs = true
  | [], _, _ => rfl
  | true :: bs, o, h => by
    simp only [trueIdx, adjL_cons_cons, Bool.and_eq_true] at h
    simp only [COO.form1]
    exact form1_of_adj bs (o + 1) h.2
  | false :: bs, o, h => by
    simp only [trueIdx] at h
    simp only [COO.form1]
    exact form2_of_adj bs o (o + 1 + 1) (by omega) h

theorem form0_of_adj : ∀ (bs : List Bool) (o : Nat), adjL (trueIdx bs o) = true → COO.form0 bs = true
  | [], _, _ => rfl
  | true :: bs, o, h => by
    simp only [trueIdx] at h
    simp only [COO.form0]
    exact form1_of_adj bs o h
  | false :: bs, o, h => by
    simp only [trueIdx] at h
    simp only [COO.form0]
    exact form0_of_adj bs (o + 1) h

theorem filter_range'_eq_trueIdx : ∀ (bp : List (Option Bool)) (o : Nat),
    (List.range' o bp.length).filter (fun d => bp.getD (d - o) none == some true) =
      trueIdx (bp.map fun p => p == some true) o
  | [], o => by simp [trueIdx]
  | x :: bp, o => by
    simp only [List.length_cons, List.range'_succ, List.filter_cons, Nat.sub_self, List.getD_cons_zero,
      List.map_cons]
    have htail : (List.range' (o + 1) bp.length).filter (fun d => (x :: bp).getD (d - o) none == some true) =
        trueIdx (bp.map fun p => p == some true) (o + 1) := by
      rw [← filter_range'_eq_trueIdx bp (o + 1)]
      apply List.filter_congr
      intro d hd
      have := (List.mem_range'_1.mp hd).1
      have e : d - o = (d - (o + 1)) + 1 := by omega
      rw [e, List.getD_cons_succ]
    rw [htail]
    by_cases hx : x = some true
    · subst hx; simp [trueIdx]
    · have : (x == some true) = false := by simpa using hx
      simp [this, trueIdx]

theorem bparams_length (src dst : List Nat) : (bparams src dst).length = dst.length := by
  simp [bparams]

/-- `expandSorted` says the layout is broadcast* non-broadcast* broadcast* -/
theorem form0_of_expandSorted {src dst : List Nat} (h : COO.expandSorted src dst = true) :
    COO.form0 (COO.flagsOf ((bparams src dst).zip dst)) = true := by
  have hfl : COO.flagsOf ((bparams src dst).zip dst) = (bparams src dst).map fun p => p == some true := by
    unfold COO.flagsOf
    have := List.map_fst_zip (l₁ := bparams src dst) (l₂ := dst) (by rw [bparams_length]; exact Nat.le_refl _)
    conv => rhs; rw [← this]
    rw [List.map_map]
    rfl
  rw [hfl]
  apply form0_of_adj _ 0
  have := filter_range'_eq_trueIdx (bparams src dst) 0
  rw [bparams_length] at this
  simp only [Nat.sub_zero] at this
  rw [← this, ← List.range_eq_range']
  exact h

/-! ## the operand coordinates fit the real parameters -/

theorem fit_eq_len : ∀ (src post : List Nat) (l : Idx), Bc1 src post → InB l src →
    COO.Fit ((bparams src post).zip post) l
  | [], [], l, _, hin => by
    rw [bparams_nil]
    simp only [List.zip_nil_left, COO.Fit]
    cases l with
    | nil => rfl
    | cons _ _ => exact absurd hin (by simp)
  | a :: src, b :: post, l, hb, hin => by
    have hl : src.length = post.length := hb.2.length_eq
    rw [bparams_cons_some a b hl, List.zip_cons_cons]
    cases l with
    | nil => exact absurd hin (by simp)
    | cons c tl =>
      have ih := fit_eq_len src post tl hb.2 hin.2
      by_cases hab : a = b
      · have hbeq : (a == b) = true := by simpa using hab
        rw [hbeq]
        exact ⟨c, tl, rfl, ih⟩
      · have ha1 : a = 1 := by rcases hb.1 with h | h; exact absurd h hab; exact h
        have hbeq : (a == b) = false := by simpa using hab
        rw [hbeq]
        have hc : c = 0 := by have := hin.1; omega
        subst hc
        exact ⟨tl, rfl, ih⟩
  | [], _ :: _, _, hb, _ => absurd hb (by simp [Bc1])
  | _ :: _, [], _, hb, _ => absurd hb (by simp [Bc1])

theorem fit_real : ∀ (dst src : List Nat) (l : Idx), BcTo src dst → InB l src →
    COO.Fit ((bparams src dst).zip dst) l
  | [], src, l, hb, hin => fit_eq_len src [] l (by simpa using hb.2) hin
  | b :: dst, src, l, hb, hin => by
    by_cases hl : src.length ≤ dst.length
    · rw [bparams_cons_none b hl, List.zip_cons_cons]
      simp only [COO.Fit]
      exact fit_real dst src l (hb.tail hl) hin
    · have hle := hb.1
      have e : (b :: dst).length - src.length = 0 := by simp at hle ⊢; omega
      have h2 := hb.2
      rw [e, List.drop_zero] at h2
      exact fit_eq_len src (b :: dst) l h2 hin

namespace COO
variable {α : Type}

/-- **the `sorted=` claim of `broadcast_to`.** -/
theorem expand_sortedLin {es : List (Idx × α)} {src dst : List Nat} (hb : BcTo src dst)
    (hwf : ∀ e ∈ es, InB e.1 src) (hs : SortedLin src es) (hadj : expandSorted src dst = true) :
    SortedLin dst (expand es src dst) := by
  apply sortedLin_of_lexSorted (wf_expand hb hwf)
  unfold expand
  apply lexSorted_expandGo_none _ _ 0 (form0_of_expandSorted hadj)
  · intro e he
    simpa using fit_real dst src e.1 hb (hwf e he)
  · have := lexSorted_of_sortedLin hwf hs
    unfold LexSorted at this
    simpa using this

end COO
end SparseV

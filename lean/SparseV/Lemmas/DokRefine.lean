/-
  SparseV.Lemmas.DokRefine — the refinement lemmas behind property C12, stated for EVERY bounds
  function that visits the indices of the normalised slices (`SlicesOK`):
  `setitemWith_refines` (keys of ints and slices, scalar and array values) and the integer-list path.
-/
import SparseV.Lemmas.DokKey
namespace SparseV
namespace Dok
open Spec
variable {α : Type}

theorem canon_of_inv {d : DOK α} {es : List (DKey × α)} (hi : Inv d.fill es)
    (hb : ∀ k ∈ keysOf es, InBI k d.shape) : Canon { d with entries := es } := by
  refine ⟨hi.1, fun e he => ⟨hb e.1 (List.mem_map.mpr ⟨e, he, rfl⟩), hi.2 e he⟩⟩

theorem inb_of_mem_keys {d : DOK α} (hc : Canon d) {k : DKey} (hk : k ∈ keysOf d.entries) : InBI k d.shape := by
  obtain ⟨e, he, hek⟩ := List.mem_map.mp hk
  rw [← hek]
  exact (hc.2 e he).1

/-- **assignment through a key of integers and slices, any bounds function that visits the indices of
the normalised slices.**  If NumPy accepts `a[key] = value` then the model raises nothing, every
element afterwards reads what NumPy's array holds, and the state is canonical again; if NumPy
raises IndexError the model raises IndexError and changes nothing. -/
theorem setitemWith_refines [DecidableEq α]
    (bounds : Option Int → Option Int → Option Int → Int → Int × Int × Int)
    (d : DOK α) (key : List KeyPart) (v : Val α) (hc : Canon d) (hk : key.all stepNonzero = true)
    (hb : SlicesOK bounds (padKey key d.shape.length) d.shape) :
    (∀ a', dSetitem d.shape (get d) key v = .ok a' →
        (setitemWith bounds d key v).2 = none ∧ (∀ k, get (setitemWith bounds d key v).1 k = a' k) ∧
        Canon (setitemWith bounds d key v).1 ∧ (setitemWith bounds d key v).1.shape = d.shape ∧
        (setitemWith bounds d key v).1.fill = d.fill) ∧
    (dSetitem d.shape (get d) key v = .error .index → setitemWith bounds d key v = (d, some .index)) := by
  unfold dSetitem setitemWith normalizeKey
  by_cases hlen : key.length > d.shape.length
  · simp only [hlen, if_true]
    exact ⟨fun a' h => by simp at h, fun _ => trivial⟩
  · simp only [hlen, if_false]
    have hpad := padKey_stepNonzero key d.shape.length hk
    have hsp := normParts_spec (padKey key d.shape.length) d.shape hpad
    cases hn : normParts (padKey key d.shape.length) d.shape with
    | error e =>
      rw [hsp.2 e hn]
      refine ⟨fun a' h => by simp at h, fun h => ?_⟩
      simp only [Except.error.injEq] at h
      subst h
      rfl
    | ok nk =>
      rw [hsp.1 nk hn]
      by_cases hbc : Broadcastable v (gridShape (nkSels nk)) = true
      · simp only [hbc, if_true]
        refine ⟨fun a' h => ?_, fun h => by simp at h⟩
        simp only [Except.ok.injEq] at h
        subst h
        obtain ⟨hfl, hle, hal⟩ := Broadcastable_spec hbc
        have hbd := bcast_desc (gridShape (nkSels nk)) v hfl hle hal
        have hspec := setRec_spec bounds d.fill nk [] v d.entries
          (boundsOKAll_of_slicesOK bounds _ _ nk hn hb) hbd.1
        have hinv : Inv d.fill (setRec bounds d.fill nk [] v d.entries).1 :=
          setRec_preserves bounds d.fill (Inv d.fill) (fun es k x h => store_inv h k x) nk [] v d.entries
            (canon_inv hc)
        have hget : ∀ k, alookup (setRec bounds d.fill nk [] v d.entries).1 d.fill k
            = dSetSel (get d) (nkSels nk) v k := by
          intro k
          rw [hspec.2 k]
          simp only [posP, dSetSel, get]
          cases hp : posOf (nkSels nk) k with
          | none => rfl
          | some p => simp only [hbd.2 p (posOf_lt _ _ _ hp)]
        refine ⟨hspec.1, hget, ?_, trivial, trivial⟩
        apply canon_of_inv (d := d) hinv
        intro k hkm
        have hne := (mem_keys_iff hinv k).mp hkm
        rw [hget k] at hne
        simp only [dSetSel] at hne
        cases hp : posOf (nkSels nk) k with
        | some p => exact pySels_inb _ _ _ hpad (hsp.1 nk hn) k p hp
        | none =>
          simp only [hp] at hne
          exact inb_of_mem_keys hc ((mem_keys_iff (canon_inv hc) k).mpr hne)
      · simp only [hbc]
        exact ⟨fun a' h => by simp at h, fun h => by simp at h⟩

/-! ### the integer-list path -/

theorem alookup_storeAll [DecidableEq α] (fill : α) (ws : List (DKey × α)) :
    ∀ (es : List (DKey × α)) (k : DKey),
      alookup (storeAll fill es ws) fill k = assignAll (alookup es fill) ws k := by
  induction ws with
  | nil => intro es k; rfl
  | cons w ws ih =>
    intro es k
    obtain ⟨j, x⟩ := w
    simp only [storeAll, assignAll]
    rw [ih]
    congr 1
    funext i
    exact alookup_store fill es j i x

theorem storeAll_inv [DecidableEq α] {fill : α} (ws : List (DKey × α)) :
    ∀ {es : List (DKey × α)}, Inv fill es → Inv fill (storeAll fill es ws) := by
  induction ws with
  | nil => intro es h; exact h
  | cons w ws ih =>
    intro es h
    obtain ⟨j, x⟩ := w
    exact ih (store_inv h j x)

/-- sequential assignment touches only the listed keys -/
theorem assignAll_of_not_mem (a : Dense α) (ws : List (DKey × α)) (k : DKey) (h : k ∉ ws.map (·.1)) :
    assignAll a ws k = a k := by
  induction ws generalizing a with
  | nil => rfl
  | cons w ws ih =>
    obtain ⟨j, x⟩ := w
    simp only [List.map_cons, List.mem_cons, not_or] at h
    simp only [assignAll]
    rw [ih _ h.2]
    simp [h.1]

end Dok
end SparseV

/-
  SparseV.Lemmas.DokRefine — the refinement lemmas behind property C12, stated for EVERY bounds
  function that visits the indices of the normalised slices (`SlicesOK`):
  `setitemWith_refines` (keys of ints and slices, scalar and array values) and the integer-list path.
-/
import SparseV.Lemmas.DokKey
import SparseV.Props.C02
namespace SparseV
namespace Dok
open Spec
variable {α : Type}

/-! ### the refinement relation and the hypotheses of the property theorems -/

/-- **Agrees.**  The outcome of an assignment in the model (`r` = array afterwards and exception, if
any) agrees with NumPy's outcome `s` on the dense array of the state `d` before it: if NumPy
accepts, the model raises nothing, every index tuple reads NumPy's value, the state is canonical
(distinct in-range keys, no stored fill value) and shape and fill value are unchanged; if NumPy
raises, the model raises an error of the same class and the array is unchanged. -/
def Agrees (d : DOK α) (r : DOK α × Option Err) (s : Except Err (Dense α)) : Prop :=
  match s with
  | .ok a' => r.2 = none ∧ (∀ k, get r.1 k = a' k) ∧ Canon r.1 ∧ r.1.shape = d.shape ∧ r.1.fill = d.fill
  | .error e => r = (d, some e)

theorem canon_of_inv {d : DOK α} {es : List (DKey × α)} (hi : Inv d.fill es)
    (hb : ∀ k ∈ keysOf es, InBI k d.shape) : Canon { d with entries := es } := by
  refine ⟨hi.1, fun e he => ⟨hb e.1 (List.mem_map.mpr ⟨e, he, rfl⟩), hi.2 e he⟩⟩

theorem inb_of_mem_keys {d : DOK α} (hc : Canon d) {k : DKey} (hk : k ∈ keysOf d.entries) : InBI k d.shape := by
  obtain ⟨e, he, hek⟩ := List.mem_map.mp hk
  rw [← hek]
  exact (hc.2 e he).1

/-- **assignment through a key of integers and slices, any bounds function that visits the indices of
the normalised slices.**  If NumPy accepts `a[key] = value` then the model raises nothing, every
element afterwards reads what NumPy's array holds, and the state is canonical again; if NumPy
raises IndexError the model raises IndexError and changes nothing. -/
theorem setitemWith_refines [DecidableEq α]
    (bounds : Option Int → Option Int → Option Int → Int → Int × Int × Int)
    (d : DOK α) (key : List KeyPart) (v : Val α) (hc : Canon d) (hk : key.all stepNonzero = true)
    (hb : SlicesOK bounds (padKey key d.shape.length) d.shape)
    (hfit : ∀ sels, pySels (padKey key d.shape.length) d.shape = .ok sels → Broadcastable v (gridShape sels) = true) :
    (∀ a', dSetitem d.shape (get d) key v = .ok a' →
        (setitemWith bounds d key v).2 = none ∧ (∀ k, get (setitemWith bounds d key v).1 k = a' k) ∧
        Canon (setitemWith bounds d key v).1 ∧ (setitemWith bounds d key v).1.shape = d.shape ∧
        (setitemWith bounds d key v).1.fill = d.fill) ∧
    (∀ e, dSetitem d.shape (get d) key v = .error e → setitemWith bounds d key v = (d, some e)) := by
  unfold dSetitem setitemWith normalizeKey
  by_cases hlen : key.length > d.shape.length
  · simp only [hlen, if_true]
    refine ⟨fun a' h => by simp at h, fun e h => ?_⟩
    simp only [Except.error.injEq] at h
    subst h
    rfl
  · simp only [hlen, if_false]
    have hpad := padKey_stepNonzero key d.shape.length hk
    have hsp := normParts_spec (padKey key d.shape.length) d.shape hpad
    cases hn : normParts (padKey key d.shape.length) d.shape with
    | error e =>
      rw [hsp.2 e hn]
      refine ⟨fun a' h => by simp at h, fun e' h => ?_⟩
      simp only [Except.error.injEq] at h
      subst h
      rfl
    | ok nk =>
      rw [hsp.1 nk hn]
      have hbc : Broadcastable v (gridShape (nkSels nk)) = true := hfit _ (hsp.1 nk hn)
      · simp only [hbc, if_true]
        refine ⟨fun a' h => ?_, fun e h => by simp at h⟩
        simp only [Except.ok.injEq] at h
        subst h
        obtain ⟨hfl, hle, hal⟩ := Broadcastable_spec hbc
        have hbd := bcast_desc (gridShape (nkSels nk)) v hfl hle hal
        have hspec := setRec_spec bounds d.fill nk [] v d.entries
          (boundsOKAll_of_slicesOK bounds _ _ nk hn hb) hbd.1
        have hinv : Inv d.fill (setRec bounds d.fill nk [] v d.entries).1 :=
          setRec_preserves bounds d.fill (Inv d.fill) (fun es k x h => store_inv h k x) nk [] v d.entries
            (canon_inv hc)
        have hget : ∀ k, alookup (setRec bounds d.fill nk [] v d.entries).1 d.fill k
            = dSetSel (get d) (nkSels nk) v k := by
          intro k
          rw [hspec.2 k]
          simp only [posP, dSetSel, get]
          cases hp : posOf (nkSels nk) k with
          | none => rfl
          | some p => simp only [hbd.2 p (posOf_lt _ _ _ hp)]
        refine ⟨hspec.1, hget, ?_, trivial, trivial⟩
        apply canon_of_inv (d := d) hinv
        intro k hkm
        have hne := (mem_keys_iff hinv k).mp hkm
        rw [hget k] at hne
        simp only [dSetSel] at hne
        cases hp : posOf (nkSels nk) k with
        | some p => exact pySels_inb _ _ _ hpad (hsp.1 nk hn) k p hp
        | none =>
          simp only [hp] at hne
          exact inb_of_mem_keys hc ((mem_keys_iff (canon_inv hc) k).mpr hne)

/-! ### the integer-list path -/

theorem alookup_storeAll [DecidableEq α] (fill : α) (ws : List (DKey × α)) :
    ∀ (es : List (DKey × α)) (k : DKey),
      alookup (storeAll fill es ws) fill k = assignAll (alookup es fill) ws k := by
  induction ws with
  | nil => intro es k; rfl
  | cons w ws ih =>
    intro es k
    obtain ⟨j, x⟩ := w
    simp only [storeAll, assignAll]
    rw [ih]
    congr 1
    funext i
    exact alookup_store fill es j i x

theorem storeAll_inv [DecidableEq α] {fill : α} (ws : List (DKey × α)) :
    ∀ {es : List (DKey × α)}, Inv fill es → Inv fill (storeAll fill es ws) := by
  induction ws with
  | nil => intro es h; exact h
  | cons w ws ih =>
    intro es h
    obtain ⟨j, x⟩ := w
    exact ih (store_inv h j x)

/-- sequential assignment touches only the listed keys -/
theorem assignAll_of_not_mem (a : Dense α) (ws : List (DKey × α)) (k : DKey) (h : k ∉ ws.map (·.1)) :
    assignAll a ws k = a k := by
  induction ws generalizing a with
  | nil => rfl
  | cons w ws ih =>
    obtain ⟨j, x⟩ := w
    simp only [List.map_cons, List.mem_cons, not_or] at h
    simp only [assignAll]
    rw [ih _ h.2]
    simp [h.1]

theorem getD_map_of_lt {β γ : Type} (f : β → γ) (l : List β) (j : Nat) (h : j < l.length) (d0 : γ) (d1 : β) :
    (l.map f).getD j d0 = f (l.getD j d1) := by
  simp [List.getD_eq_getElem?_getD, List.getElem?_map, List.getElem?_eq_getElem h]

theorem getD_mem {β : Type} (l : List β) (j : Nat) (h : j < l.length) (d0 : β) : l.getD j d0 ∈ l := by
  rw [List.getD_eq_getElem?_getD, List.getElem?_eq_getElem h]
  simp

theorem normList_ok {l l' : List Int} {d : Nat} (h : normList l d = .ok l') :
    (∀ i ∈ l, -(d : Int) ≤ i ∧ i < d) ∧ l' = l.map (fun (i : Int) => if i < 0 then i + (d : Int) else i) := by
  unfold normList at h
  split at h
  · rename_i hall
    simp only [List.all_eq_true, Bool.and_eq_true, decide_eq_true_eq] at hall
    simp only [Except.ok.injEq] at h
    exact ⟨hall, h.symm⟩
  · simp at h

theorem normList_error {l : List Int} {d : Nat} {e : Err} (h : normList l d = .error e) :
    e = .index ∧ ∃ i ∈ l, ¬ (-(d : Int) ≤ i ∧ i < d) := by
  unfold normList at h
  split at h
  · simp at h
  · rename_i hall
    simp only [Except.error.injEq] at h
    refine ⟨h.symm, ?_⟩
    apply Classical.byContradiction
    intro hno
    apply hall
    simp only [List.all_eq_true, Bool.and_eq_true, decide_eq_true_eq]
    intro i hi
    apply Classical.byContradiction
    intro hni
    exact hno ⟨i, hi, hni⟩

/-- the `j`-th listed key, when `normalize_index` accepts the lists: NumPy's wrapped index tuple, inside the shape -/
theorem normKey_zip_ok : ∀ (idxs : List (List Int)) (shape : List Nat) (idxs' : List (List Int)) (j : Nat),
    normLists idxs shape = .ok idxs' → (∀ l ∈ idxs, j < l.length) →
    normKey (idxs.map fun l => l.getD j 0) shape = some (idxs'.map fun l => l.getD j 0) ∧
    InBI (idxs'.map fun l => l.getD j 0) shape := by
  intro idxs
  induction idxs with
  | nil =>
    intro shape idxs' j h _
    cases shape with
    | nil => simp only [normLists, Except.ok.injEq] at h; subst h; exact ⟨rfl, trivial⟩
    | cons d ds => simp [normLists] at h
  | cons l ls ih =>
    intro shape idxs' j h hj
    cases shape with
    | nil => simp [normLists] at h
    | cons d ds =>
      simp only [normLists] at h
      cases h1 : normList l d with
      | error e => simp [h1] at h
      | ok x =>
        cases h2 : normLists ls ds with
        | error e => simp [h1, h2] at h
        | ok xs =>
          simp only [h1, h2, Except.ok.injEq] at h
          subst h
          obtain ⟨hr, hx⟩ := normList_ok h1
          have hjl : j < l.length := hj l List.mem_cons_self
          have hin := hr _ (getD_mem l j hjl 0)
          have hxj : x.getD j 0 = (if l.getD j 0 < 0 then l.getD j 0 + d else l.getD j 0) := by
            rw [hx]; exact getD_map_of_lt _ l j hjl 0 0
          have := ih ds xs j h2 (fun l' hl' => hj l' (List.mem_cons_of_mem _ hl'))
          have hni : normIdx (l.getD j 0) d = some (x.getD j 0) := by
            rw [hxj]; unfold normIdx; rw [if_pos hin]
          simp only [List.map_cons, normKey, hni, this.1]
          refine ⟨trivial, ⟨?_, this.2⟩⟩
          rw [hxj]
          split <;> omega

/-- when `normalize_index` rejects the lists (IndexError), some listed key is out of range for NumPy too -/
theorem normLists_error : ∀ (idxs : List (List Int)) (shape : List Nat) (e : Err) (n : Nat),
    idxs.length = shape.length → (∀ l ∈ idxs, l.length = n) → normLists idxs shape = .error e →
    e = .index ∧ ∃ j, j < n ∧ normKey (idxs.map fun l => l.getD j 0) shape = none := by
  intro idxs
  induction idxs with
  | nil =>
    intro shape e n hlen _ h
    cases shape with
    | nil => simp [normLists] at h
    | cons d ds => simp at hlen
  | cons l ls ih =>
    intro shape e n hlen hl h
    cases shape with
    | nil => simp at hlen
    | cons d ds =>
      simp only [normLists] at h
      cases h1 : normList l d with
      | error e1 =>
        simp only [h1, Except.error.injEq] at h
        subst h
        obtain ⟨he, i, hi, hn⟩ := normList_error h1
        obtain ⟨j, hj, hji⟩ := List.getElem_of_mem hi
        have hln := hl l List.mem_cons_self
        refine ⟨he, j, by omega, ?_⟩
        have : l.getD j 0 = i := by
          rw [List.getD_eq_getElem?_getD, List.getElem?_eq_getElem hj, hji]; rfl
        simp only [List.map_cons, normKey, this, normIdx, hn, if_false]
      | ok x =>
        cases h2 : normLists ls ds with
        | ok xs => simp [h1, h2] at h
        | error e2 =>
          simp only [h1, h2, Except.error.injEq] at h
          subst h
          obtain ⟨he, j, hj, hk⟩ := ih ds e2 n (by simpa using hlen)
            (fun l' hl' => hl l' (List.mem_cons_of_mem _ hl')) h2
          refine ⟨he, j, hj, ?_⟩
          simp only [List.map_cons, normKey, hk]
          cases normIdx (l.getD j 0) d <;> rfl

theorem normKeys_none (shape : List Nat) (f : Nat → DKey) : ∀ (js : List Nat) (j : Nat), j ∈ js →
    normKey (f j) shape = none → normKeys shape (js.map f) = none := by
  intro js
  induction js with
  | nil => intro j hj; simp at hj
  | cons a as ih =>
    intro j hj hn
    simp only [List.map_cons, normKeys]
    rcases List.mem_cons.mp hj with h | h
    · subst h
      rw [hn]
    · rw [ih j h hn]
      cases normKey (f a) shape <;> rfl

theorem normKeys_ok (shape : List Nat) (f g : Nat → DKey) : ∀ (js : List Nat),
    (∀ j ∈ js, normKey (f j) shape = some (g j)) → normKeys shape (js.map f) = some (js.map g) := by
  intro js
  induction js with
  | nil => intro _; rfl
  | cons a as ih =>
    intro h
    simp only [List.map_cons, normKeys, h a List.mem_cons_self,
      ih (fun j hj => h j (List.mem_cons_of_mem _ hj))]

/-- the value rule of `_fancy_setitem` is NumPy's for `n` listed elements: a scalar, `n` values, or one value -/
theorem fancyVals_of_listVals {v : Val α} {n : Nat} {xs : List α} (hflat : v.flat.length = prod v.shape)
    (h : listVals v n = .ok xs) : fancyVals v n = .ok xs := by
  unfold listVals at h
  unfold fancyVals
  cases hs : v.shape with
  | nil =>
    rw [hs] at h
    cases hf : v.flat with
    | nil => rw [hf] at h; simp at h
    | cons x t => rw [hf] at h; simpa using h
  | cons m ms =>
    cases ms with
    | cons m2 ms2 => rw [hs] at h; simp at h
    | nil =>
      rw [hs] at h hflat
      simp only [prod, Nat.mul_one] at hflat
      cases hf : v.flat with
      | nil =>
        rw [hf] at h hflat
        simp only [List.length_nil] at hflat
        simp only at h
        split at h
        · rename_i hh
          simp only [Except.ok.injEq] at h
          have hn1 : ¬ n = 1 := by omega
          have hmn : m = n := hh.1
          simp only [hmn, hn1, if_false, if_true, h]
        · simp at h
      | cons x t =>
        rw [hf] at h hflat
        simp only at h
        by_cases hm1 : m = 1
        · have ht : t = [] := by
            have : (x :: t).length = 1 := by rw [hflat, hm1]
            simpa using this
          subst ht
          simp only [hm1, if_true]
          split at h
          · rename_i hh
            simp only [Except.ok.injEq] at h
            rw [← h, ← hh.1, hm1]
            rfl
          · simpa using h
        · simp only [hm1, if_false] at h ⊢
          split at h
          · rename_i hh
            simpa [hh.1] using h
          · simp at h

/-- **the tail of `_fancy_setitem`** (value rule, then one store per listed key) against sequential
element assignment on the dense array -/
theorem fancyStore_refines [DecidableEq α] (d : DOK α) (keys : List DKey) (v : Val α) (xs : List α) (hc : Canon d)
    (hv : fancyVals v keys.length = .ok xs) (hin : ∀ k ∈ keys, InBI k d.shape) :
    Agrees d (fancyStore d keys v) (.ok (assignAll (get d) (keys.zip xs))) := by
  simp only [Agrees, fancyStore, hv]
  refine ⟨trivial, fun k => alookup_storeAll d.fill _ d.entries k, ?_, trivial, trivial⟩
  have hinv : Inv d.fill (storeAll d.fill d.entries (keys.zip xs)) := storeAll_inv _ (canon_inv hc)
  apply canon_of_inv (d := d) hinv
  intro k hkm
  have hne' := (mem_keys_iff hinv k).mp hkm
  rw [alookup_storeAll] at hne'
  by_cases hmem : k ∈ (keys.zip xs).map (·.1)
  · obtain ⟨w, hw, hwk⟩ := List.mem_map.mp hmem
    have := (List.of_mem_zip (a := w.1) (b := w.2) hw).1
    rw [← hwk]
    exact hin _ this
  · rw [assignAll_of_not_mem _ _ _ hmem] at hne'
    exact inb_of_mem_keys hc ((mem_keys_iff (canon_inv hc) k).mpr hne')

/-- **assignment through one integer list per axis**, the whole grammar: entries anywhere in
`[-dim, dim)` (negative ones count from the end), repeated keys (the last value wins), empty lists,
scalar / `n`-element / one-element values — the model agrees with NumPy, and raises IndexError without
changing anything exactly when NumPy does (an entry outside `[-dim, dim)`). -/
theorem setFancy_refines [DecidableEq α] (d : DOK α) (idxs : List (List Int)) (v : Val α) (hc : Canon d)
    (hwf : WFOp d.shape (.fancy idxs v) = true) :
    Agrees d (setFancy d idxs v) (dSetFancy d.shape (get d) idxs v) := by
  simp only [WFOp, valueFits, Bool.and_eq_true, beq_iff_eq, List.all_eq_true, Bool.not_eq_true',
    List.isEmpty_eq_false_iff] at hwf
  obtain ⟨hfits, ⟨⟨hne, hlen⟩, hall⟩, hflat⟩ := hwf
  cases idxs with
  | nil => exact absurd rfl hne
  | cons l ls =>
    simp only [List.headD_cons] at hfits hall
    have hl : ∀ m ∈ l :: ls, m.length = l.length := hall
    have hcheck : fancyCheck d.shape (l :: ls) = .ok l.length := by
      have hany : (l :: ls).any (fun m => decide (m.length ≠ l.length)) = false := by
        rw [List.any_eq_false]
        intro m hm
        simp [hl m hm]
      unfold fancyCheck
      rw [if_neg (fun h => h hlen)]
      simp only [hany, Bool.false_eq_true, if_false]
    obtain ⟨xs, hlv⟩ : ∃ xs, listVals v l.length = .ok xs := by
      cases h : listVals v l.length with
      | error e => rw [h] at hfits; simp [Except.toBool] at hfits
      | ok xs => exact ⟨xs, rfl⟩
    simp only [setFancy, hcheck, dSetFancy, List.headD_cons]
    cases hn : normLists (l :: ls) d.shape with
    | error e =>
      obtain ⟨he, j, hj, hk⟩ := normLists_error (l :: ls) d.shape e l.length hlen hl hn
      subst he
      have : normKeys d.shape (zipKeys (l :: ls) l.length) = none :=
        normKeys_none d.shape _ (List.range l.length) j (List.mem_range.mpr hj) hk
      simp only [this, Agrees]
    | ok idxs' =>
      have hkeys : ∀ j ∈ List.range l.length,
          normKey ((l :: ls).map fun m => m.getD j 0) d.shape = some (idxs'.map fun m => m.getD j 0) := by
        intro j hj
        have hj' := List.mem_range.mp hj
        exact (normKey_zip_ok (l :: ls) d.shape idxs' j hn (fun m hm => by rw [hl m hm]; exact hj')).1
      have hnk : normKeys d.shape (zipKeys (l :: ls) l.length) = some (zipKeys idxs' l.length) :=
        normKeys_ok d.shape _ _ (List.range l.length) hkeys
      simp only [hnk, hlv]
      have hlenk : (zipKeys idxs' l.length).length = l.length := by simp [zipKeys]
      apply fancyStore_refines d _ v xs hc (by rw [hlenk]; exact fancyVals_of_listVals hflat hlv)
      intro k hk
      obtain ⟨j, hj, rfl⟩ := List.mem_map.mp hk
      have hj' := List.mem_range.mp hj
      exact (normKey_zip_ok (l :: ls) d.shape idxs' j hn (fun m hm => by rw [hl m hm]; exact hj')).2

theorem mem_maskKeys {shape : List Nat} {m : List Bool} {k : DKey} (h : k ∈ maskKeys shape m) : InBI k shape := by
  unfold maskKeys at h
  obtain ⟨kb, hkb, hsome⟩ := List.mem_filterMap.mp h
  have hk : kb.1 ∈ allKeys shape := (List.of_mem_zip (a := kb.1) (b := kb.2) hkb).1
  split at hsome
  · simp only [Option.some.injEq] at hsome
    rw [← hsome]
    exact (mem_allKeys shape kb.1).mp hk
  · simp at hsome

/-- **boolean-mask assignment**, the whole grammar (mask of the array's shape, rank ≥ 1; scalar,
one value per True position, or a one-element value): the model agrees with NumPy. -/
theorem setMask_refines [DecidableEq α] (d : DOK α) (m : List Bool) (v : Val α) (hc : Canon d)
    (hwf : WFOp d.shape (.mask m v) = true) :
    Agrees d (setMask d m v) (dSetMask d.shape (get d) m v) := by
  simp only [WFOp, valueFits, Bool.and_eq_true, beq_iff_eq, Bool.not_eq_true', List.isEmpty_eq_false_iff] at hwf
  obtain ⟨hfits, ⟨hne, hlen⟩, hflat⟩ := hwf
  obtain ⟨xs, hlv⟩ : ∃ xs, listVals v (maskSel d.shape m).length = .ok xs := by
    cases h : listVals v (maskSel d.shape m).length with
    | error e => rw [h] at hfits; simp [Except.toBool] at hfits
    | ok xs => exact ⟨xs, rfl⟩
  have hsel : maskSel d.shape m = maskKeys d.shape m := rfl
  have hlen' : ¬ m.length ≠ prod d.shape := fun h => h hlen
  simp only [setMask, hne, hlen', if_false, dSetMask, hlv]
  rw [hsel] at hlv ⊢
  exact fancyStore_refines d _ v xs hc (fancyVals_of_listVals hflat hlv) (fun k hk => mem_maskKeys hk)

/-! ### element reads -/

def partInt (p : NPart × Int) : Int := match p.1 with | .int n => n | .slice _ _ _ => 0

theorem normParts_ints : ∀ (key : List Int) (shape : List Nat), key.length = shape.length →
    match normKey key shape with
    | some k' => ∃ nk, normParts (key.map .int) shape = .ok nk ∧ nk.map partInt = k'
    | none => normParts (key.map .int) shape = .error .index := by
  intro key
  induction key with
  | nil =>
    intro shape h
    cases shape with
    | nil => exact ⟨[], rfl, rfl⟩
    | cons d ds => simp at h
  | cons i is ih =>
    intro shape h
    cases shape with
    | nil => simp at h
    | cons d ds =>
      have hlen : is.length = ds.length := by simpa using h
      have hi := C02.normalize_int_spec i d
      have ih' := ih ds hlen
      simp only [List.map_cons, normKey, normParts, normPart, normIdx]
      by_cases hc : -(d : Int) ≤ i ∧ i < d
      · simp only [hc, and_self, if_true] at hi ⊢
        rw [hi]
        cases hk : normKey is ds with
        | none =>
          rw [hk] at ih'
          simp only [ih']
        | some js =>
          rw [hk] at ih'
          obtain ⟨nk, hnk, hmap⟩ := ih'
          simp only [hnk]
          exact ⟨_, rfl, by simp [partInt, hmap]⟩
      · simp only [hc, if_false] at hi ⊢
        rw [hi]

/-- **reading one element**: `d[i0, i1, …]` with one integer per axis raises IndexError exactly when some
integer is outside `[-dim, dim)` (NumPy's rule), and otherwise returns the element at the wrapped index
tuple — the value `get` that the history theorems speak about. -/
theorem getInt_spec (d : DOK α) (key : List Int) (h : key.length = d.shape.length) :
    getInt d key = match normKey key d.shape with
      | some k' => .ok (get d k')
      | none => .error .index := by
  have hp := normParts_ints key d.shape h
  have hlen : ¬ (key.map KeyPart.int).length > d.shape.length := by simp [h]
  have hpad : padKey (key.map KeyPart.int) d.shape.length = key.map KeyPart.int := by
    simp [padKey, h]
  simp only [getInt, normalizeKey, hlen, if_false, hpad]
  cases hk : normKey key d.shape with
  | none =>
    rw [hk] at hp
    simp [hp]
  | some k' =>
    rw [hk] at hp
    obtain ⟨nk, hnk, hmap⟩ := hp
    have : ¬ key.length ≠ d.shape.length := by simp [h]
    simp only [hnk, this, if_false, get]
    rw [← hmap]
    rfl

/-! ### hypotheses of the property theorems -/

/-- the bounds function visits, on every slice of the key, exactly the indices Python's
`range(*slice(start, stop, step).indices(dim))` lists (and its step is not 0) -/
def PyBounds (bounds : Option Int → Option Int → Option Int → Int → Int × Int × Int) :
    List KeyPart → List Nat → Prop
  | .slice a b c :: ps, d :: ds =>
    ((bounds (some (normalizeSlice a b c d).1) (some (normalizeSlice a b c d).2.1)
        (some (normalizeSlice a b c d).2.2) d).2.2 ≠ 0 ∧
      rangeOf (bounds (some (normalizeSlice a b c d).1) (some (normalizeSlice a b c d).2.1)
        (some (normalizeSlice a b c d).2.2) d) = rangeOf (pyAdjust a b (c.getD 1) d))
    ∧ PyBounds bounds ps ds
  | .int _ :: ps, _ :: ds => PyBounds bounds ps ds
  | _, _ => True

theorem slicesOK_of_pyBounds (bounds : Option Int → Option Int → Option Int → Int → Int × Int × Int) :
    ∀ (key : List KeyPart) (shape : List Nat), key.all stepNonzero = true → PyBounds bounds key shape →
      SlicesOK bounds key shape := by
  intro key
  induction key with
  | nil => intro shape _ _; cases shape <;> trivial
  | cons p ps ih =>
    intro shape hall h
    simp only [List.all_cons, Bool.and_eq_true] at hall
    cases shape with
    | nil => cases p <;> trivial
    | cons d ds =>
      cases p with
      | int n => exact ih ds hall.2 h
      | slice a b c =>
        have hc : c ≠ some 0 := by
          have := hall.1
          simp only [stepNonzero, bne_iff_ne, ne_eq] at this
          exact this
        refine ⟨⟨h.1.1, ?_⟩, ih ds hall.2 h.2⟩
        rw [h.1.2, ← C02.normalize_slice_range a b c d (Int.natCast_nonneg d) hc]

/-- the grammar of a key/value pair: non-zero steps, value broadcastable to what the key selects -/
def WFSet (shape : List Nat) (key : List KeyPart) (v : Val α) : Prop :=
  key.all stepNonzero = true ∧
  ∀ sels, pySels (padKey key shape.length) shape = .ok sels → Broadcastable v (gridShape sels) = true

theorem wfSet_of_wfOp {shape : List Nat} {key : List KeyPart} {v : Val α}
    (h : WFOp shape (.set key v) = true) : WFSet shape key v := by
  simp only [WFOp, valueFits, Bool.and_eq_true, beq_iff_eq] at h
  refine ⟨h.2.1, fun sels hs => ?_⟩
  have := h.1
  rw [hs] at this
  exact this

/-- `dRun` only looks at the values of the dense array -/
theorem dRun_congr (shape : List Nat) (a b : Dense α) (h : ∀ k, a k = b k) (ops : List (Op α)) :
    dRun shape a ops = dRun shape b ops := by
  have : a = b := funext h
  rw [this]

end Dok
end SparseV

/-
  SparseV.Lemmas.DokRefine — the refinement lemmas behind property C12, stated for EVERY bounds
  function that visits the indices of the normalised slices (`SlicesOK`):
  `setitemWith_refines` (keys of ints and slices, scalar and array values) and the integer-list path.
-/
import SparseV.Lemmas.DokKey
import SparseV.Props.C02
namespace SparseV
namespace Dok
open Spec
variable {α : Type}

theorem canon_of_inv {d : DOK α} {es : List (DKey × α)} (hi : Inv d.fill es)
    (hb : ∀ k ∈ keysOf es, InBI k d.shape) : Canon { d with entries := es } := by
  refine ⟨hi.1, fun e he => ⟨hb e.1 (List.mem_map.mpr ⟨e, he, rfl⟩), hi.2 e he⟩⟩

theorem inb_of_mem_keys {d : DOK α} (hc : Canon d) {k : DKey} (hk : k ∈ keysOf d.entries) : InBI k d.shape := by
  obtain ⟨e, he, hek⟩ := List.mem_map.mp hk
  rw [← hek]
  exact (hc.2 e he).1

/-- **assignment through a key of integers and slices, any bounds function that visits the indices of
the normalised slices.**  If NumPy accepts `a[key] = value` then the model raises nothing, every
element afterwards reads what NumPy's array holds, and the state is canonical again; if NumPy
raises IndexError the model raises IndexError and changes nothing. -/
theorem setitemWith_refines [DecidableEq α]
    (bounds : Option Int → Option Int → Option Int → Int → Int × Int × Int)
    (d : DOK α) (key : List KeyPart) (v : Val α) (hc : Canon d) (hk : key.all stepNonzero = true)
    (hb : SlicesOK bounds (padKey key d.shape.length) d.shape)
    (hfit : ∀ sels, pySels (padKey key d.shape.length) d.shape = .ok sels → Broadcastable v (gridShape sels) = true) :
    (∀ a', dSetitem d.shape (get d) key v = .ok a' →
        (setitemWith bounds d key v).2 = none ∧ (∀ k, get (setitemWith bounds d key v).1 k = a' k) ∧
        Canon (setitemWith bounds d key v).1 ∧ (setitemWith bounds d key v).1.shape = d.shape ∧
        (setitemWith bounds d key v).1.fill = d.fill) ∧
    (∀ e, dSetitem d.shape (get d) key v = .error e → setitemWith bounds d key v = (d, some e)) := by
  unfold dSetitem setitemWith normalizeKey
  by_cases hlen : key.length > d.shape.length
  · simp only [hlen, if_true]
    refine ⟨fun a' h => by simp at h, fun e h => ?_⟩
    simp only [Except.error.injEq] at h
    subst h
    rfl
  · simp only [hlen, if_false]
    have hpad := padKey_stepNonzero key d.shape.length hk
    have hsp := normParts_spec (padKey key d.shape.length) d.shape hpad
    cases hn : normParts (padKey key d.shape.length) d.shape with
    | error e =>
      rw [hsp.2 e hn]
      refine ⟨fun a' h => by simp at h, fun e' h => ?_⟩
      simp only [Except.error.injEq] at h
      subst h
      rfl
    | ok nk =>
      rw [hsp.1 nk hn]
      have hbc : Broadcastable v (gridShape (nkSels nk)) = true := hfit _ (hsp.1 nk hn)
      · simp only [hbc, if_true]
        refine ⟨fun a' h => ?_, fun e h => by simp at h⟩
        simp only [Except.ok.injEq] at h
        subst h
        obtain ⟨hfl, hle, hal⟩ := Broadcastable_spec hbc
        have hbd := bcast_desc (gridShape (nkSels nk)) v hfl hle hal
        have hspec := setRec_spec bounds d.fill nk [] v d.entries
          (boundsOKAll_of_slicesOK bounds _ _ nk hn hb) hbd.1
        have hinv : Inv d.fill (setRec bounds d.fill nk [] v d.entries).1 :=
          setRec_preserves bounds d.fill (Inv d.fill) (fun es k x h => store_inv h k x) nk [] v d.entries
            (canon_inv hc)
        have hget : ∀ k, alookup (setRec bounds d.fill nk [] v d.entries).1 d.fill k
            = dSetSel (get d) (nkSels nk) v k := by
          intro k
          rw [hspec.2 k]
          simp only [posP, dSetSel, get]
          cases hp : posOf (nkSels nk) k with
          | none => rfl
          | some p => simp only [hbd.2 p (posOf_lt _ _ _ hp)]
        refine ⟨hspec.1, hget, ?_, trivial, trivial⟩
        apply canon_of_inv (d := d) hinv
        intro k hkm
        have hne := (mem_keys_iff hinv k).mp hkm
        rw [hget k] at hne
        simp only [dSetSel] at hne
        cases hp : posOf (nkSels nk) k with
        | some p => exact pySels_inb _ _ _ hpad (hsp.1 nk hn) k p hp
        | none =>
          simp only [hp] at hne
          exact inb_of_mem_keys hc ((mem_keys_iff (canon_inv hc) k).mpr hne)

/-! ### the integer-list path -/

theorem alookup_storeAll [DecidableEq α] (fill : α) (ws : List (DKey × α)) :
    ∀ (es : List (DKey × α)) (k : DKey),
      alookup (storeAll fill es ws) fill k = assignAll (alookup es fill) ws k := by
  induction ws with
  | nil => intro es k; rfl
  | cons w ws ih =>
    intro es k
    obtain ⟨j, x⟩ := w
    simp only [storeAll, assignAll]
    rw [ih]
    congr 1
    funext i
    exact alookup_store fill es j i x

theorem storeAll_inv [DecidableEq α] {fill : α} (ws : List (DKey × α)) :
    ∀ {es : List (DKey × α)}, Inv fill es → Inv fill (storeAll fill es ws) := by
  induction ws with
  | nil => intro es h; exact h
  | cons w ws ih =>
    intro es h
    obtain ⟨j, x⟩ := w
    exact ih (store_inv h j x)

/-- sequential assignment touches only the listed keys -/
theorem assignAll_of_not_mem (a : Dense α) (ws : List (DKey × α)) (k : DKey) (h : k ∉ ws.map (·.1)) :
    assignAll a ws k = a k := by
  induction ws generalizing a with
  | nil => rfl
  | cons w ws ih =>
    obtain ⟨j, x⟩ := w
    simp only [List.map_cons, List.mem_cons, not_or] at h
    simp only [assignAll]
    rw [ih _ h.2]
    simp [h.1]

theorem normIdx_of_inRange {i : Int} {d : Nat} (h0 : 0 ≤ i) (h1 : i < d) : normIdx i d = some i := by
  have h2 : ¬ i < 0 := by omega
  have h3 : -(d : Int) ≤ i := by omega
  simp [normIdx, h1, h2, h3]

/-- the `j`-th listed key, when every entry is inside its axis, is its own normal form and lies in the shape -/
theorem normKey_zip : ∀ (idxs : List (List Int)) (shape : List Nat) (j : Nat),
    entriesInRange idxs shape = true → (∀ l ∈ idxs, j < l.length) →
    normKey (idxs.map fun l => l.getD j 0) shape = some (idxs.map fun l => l.getD j 0) ∧
    InBI (idxs.map fun l => l.getD j 0) shape := by
  intro idxs
  induction idxs with
  | nil =>
    intro shape j h _
    cases shape with
    | nil => exact ⟨rfl, trivial⟩
    | cons d ds => simp [entriesInRange] at h
  | cons l ls ih =>
    intro shape j h hj
    cases shape with
    | nil => simp [entriesInRange] at h
    | cons d ds =>
      simp only [entriesInRange, Bool.and_eq_true, List.all_eq_true, decide_eq_true_eq] at h
      have hjl : j < l.length := hj l List.mem_cons_self
      have hmem : l.getD j 0 ∈ l := by
        rw [List.getD_eq_getElem?_getD, List.getElem?_eq_getElem hjl]
        simp
      have hr := h.1 _ hmem
      have := ih ds j h.2 (fun l' hl' => hj l' (List.mem_cons_of_mem _ hl'))
      simp only [List.map_cons, normKey, normIdx_of_inRange hr.1 hr.2, this.1]
      exact ⟨trivial, ⟨hr, this.2⟩⟩

theorem normKeys_zip (idxs : List (List Int)) (shape : List Nat) (n : Nat)
    (h : entriesInRange idxs shape = true) (hl : ∀ l ∈ idxs, l.length = n) :
    normKeys shape (zipKeys idxs n) = some (zipKeys idxs n) ∧ ∀ k ∈ zipKeys idxs n, InBI k shape := by
  unfold zipKeys
  have key : ∀ (js : List Nat), (∀ j ∈ js, j < n) →
      normKeys shape (js.map fun j => idxs.map fun l => l.getD j 0) = some (js.map fun j => idxs.map fun l => l.getD j 0)
      ∧ ∀ k ∈ (js.map fun j => idxs.map fun l => l.getD j 0), InBI k shape := by
    intro js
    induction js with
    | nil => intro _; exact ⟨rfl, fun k hk => by simp at hk⟩
    | cons j js ih =>
      intro hjs
      have hj : j < n := hjs j List.mem_cons_self
      have h1 := normKey_zip idxs shape j h (fun l hlm => by rw [hl l hlm]; exact hj)
      have h2 := ih (fun j' hj' => hjs j' (List.mem_cons_of_mem _ hj'))
      simp only [List.map_cons, normKeys, h1.1, h2.1]
      refine ⟨trivial, fun k hk => ?_⟩
      rcases List.mem_cons.mp hk with hk | hk
      · rw [hk]; exact h1.2
      · exact h2.2 k hk
  exact key (List.range n) (fun j hj => List.mem_range.mp hj)

/-- **assignment through one integer list per axis** inside the grammar and outside the known regions:
NumPy accepts it, the model raises nothing, every element afterwards reads what NumPy's array
holds, and the state is canonical again. -/
theorem setFancy_refines [DecidableEq α] (d : DOK α) (idxs : List (List Int)) (v : Val α) (hc : Canon d)
    (hwf : WFOp d.shape (.fancy idxs v) = true) (hex : Excluded d.shape (.fancy idxs v) = false) :
    ∃ a', dSetFancy d.shape (get d) idxs v = .ok a' ∧
      (setFancy d idxs v).2 = none ∧ (∀ k, get (setFancy d idxs v).1 k = a' k) ∧
      Canon (setFancy d idxs v).1 ∧ (setFancy d idxs v).1.shape = d.shape ∧
      (setFancy d idxs v).1.fill = d.fill := by
  simp only [WFOp, valueFits, Bool.and_eq_true, beq_iff_eq, List.all_eq_true] at hwf
  obtain ⟨hfits, ⟨hlen, hall⟩, hflat⟩ := hwf
  simp only [Excluded, Excluded_fancyRawIndex, Excluded_fancyEmpty, Excluded_fancyBcast1,
    Bool.or_eq_false_iff, Bool.not_eq_false', Bool.and_eq_false_iff] at hex
  obtain ⟨⟨hrange, hne⟩, hb1⟩ := hex
  cases idxs with
  | nil => simp at hne
  | cons l ls =>
    simp only [List.headD_cons] at hfits hall hne hb1
    have hn0 : l.length ≠ 0 := by
      intro h0
      have : l = [] := List.eq_nil_of_length_eq_zero h0
      rw [this] at hne
      simp at hne
    have hl : ∀ m ∈ l :: ls, m.length = l.length := hall
    obtain ⟨hnk, hinb⟩ := normKeys_zip (l :: ls) d.shape l.length hrange hl
    -- the values
    have hvals : ∃ xs, listVals v l.length = .ok xs ∧ fancyVals v l.length = .ok xs := by
      cases hlv : listVals v l.length with
      | error e => rw [hlv] at hfits; simp [Except.toBool] at hfits
      | ok xs =>
        refine ⟨xs, rfl, ?_⟩
        unfold listVals at hlv
        unfold fancyVals
        cases hs : v.shape with
        | nil =>
          rw [hs] at hlv
          cases hf : v.flat with
          | nil => rw [hf] at hlv; simp at hlv
          | cons x t =>
            rw [hf] at hlv
            simp only [Except.ok.injEq] at hlv
            simp [hlv]
        | cons m ms =>
          cases ms with
          | cons m2 ms2 => rw [hs] at hlv; simp at hlv
          | nil =>
            rw [hs] at hlv hflat hb1
            simp only [prod, Nat.mul_one] at hflat
            cases hf : v.flat with
            | nil =>
              rw [hf] at hlv
              simp only at hlv
              split at hlv
              · rename_i hh; exact absurd hh.2 hn0
              · simp at hlv
            | cons x t =>
              rw [hf] at hlv hflat
              simp only at hlv
              by_cases hm : m = l.length
              · have hlen' : (x :: t).length = l.length := by rw [hflat, hm]
                simp only [hm, hlen', and_self, if_true, Except.ok.injEq] at hlv
                simp [hm, hlv]
              · exfalso
                simp only [hm, false_and, if_false] at hlv
                split at hlv
                · rename_i h1
                  rcases hb1 with hb | hb
                  · simp [h1] at hb
                  · simp only [bne_eq_false_iff_eq] at hb
                    exact hm (by rw [h1, hb])
                · simp at hlv
    obtain ⟨xs, hlv, hmodel⟩ := hvals
    have hcheck : fancyCheck d.shape (l :: ls) = .ok l.length := by
      have hany : (l :: ls).any (fun m => decide (m.length ≠ l.length)) = false := by
        rw [List.any_eq_false]
        intro m hm
        simp [hl m hm]
      unfold fancyCheck
      rw [if_neg (fun h => h hlen)]
      simp only [hany, Bool.false_eq_true, if_false]
    refine ⟨assignAll (get d) ((zipKeys (l :: ls) l.length).zip xs), ?_, ?_, ?_, ?_, ?_, ?_⟩
    · simp only [dSetFancy, List.headD_cons, hnk, hlv]
    all_goals simp only [setFancy, hcheck, hn0, if_false, hmodel]
    · intro k
      simp only [get]
      exact alookup_storeAll d.fill _ d.entries k
    · have hinv : Inv d.fill (storeAll d.fill d.entries ((zipKeys (l :: ls) l.length).zip xs)) :=
        storeAll_inv _ (canon_inv hc)
      apply canon_of_inv (d := d) hinv
      intro k hkm
      have hne' := (mem_keys_iff hinv k).mp hkm
      rw [alookup_storeAll] at hne'
      by_cases hmem : k ∈ ((zipKeys (l :: ls) l.length).zip xs).map (·.1)
      · obtain ⟨w, hw, hwk⟩ := List.mem_map.mp hmem
        have := (List.of_mem_zip (a := w.1) (b := w.2) hw).1
        rw [← hwk]
        exact hinb _ this
      · rw [assignAll_of_not_mem _ _ _ hmem] at hne'
        exact inb_of_mem_keys hc ((mem_keys_iff (canon_inv hc) k).mpr hne')

/-! ### element reads -/

def partInt (p : NPart × Int) : Int := match p.1 with | .int n => n | .slice _ _ _ => 0

theorem normParts_ints : ∀ (key : List Int) (shape : List Nat), key.length = shape.length →
    match normKey key shape with
    | some k' => ∃ nk, normParts (key.map .int) shape = .ok nk ∧ nk.map partInt = k'
    | none => normParts (key.map .int) shape = .error .index := by
  intro key
  induction key with
  | nil =>
    intro shape h
    cases shape with
    | nil => exact ⟨[], rfl, rfl⟩
    | cons d ds => simp at h
  | cons i is ih =>
    intro shape h
    cases shape with
    | nil => simp at h
    | cons d ds =>
      have hlen : is.length = ds.length := by simpa using h
      have hi := C02.normalize_int_spec i d
      have ih' := ih ds hlen
      simp only [List.map_cons, normKey, normParts, normPart, normIdx]
      by_cases hc : -(d : Int) ≤ i ∧ i < d
      · simp only [hc, and_self, if_true] at hi ⊢
        rw [hi]
        cases hk : normKey is ds with
        | none =>
          rw [hk] at ih'
          simp only [ih']
        | some js =>
          rw [hk] at ih'
          obtain ⟨nk, hnk, hmap⟩ := ih'
          simp only [hnk]
          exact ⟨_, rfl, by simp [partInt, hmap]⟩
      · simp only [hc, if_false] at hi ⊢
        rw [hi]

/-- **reading one element**: `d[i0, i1, …]` with one integer per axis raises IndexError exactly when some
integer is outside `[-dim, dim)` (NumPy's rule), and otherwise returns the element at the wrapped index
tuple — the value `get` that the history theorems speak about. -/
theorem getInt_spec (d : DOK α) (key : List Int) (h : key.length = d.shape.length) :
    getInt d key = match normKey key d.shape with
      | some k' => .ok (get d k')
      | none => .error .index := by
  have hp := normParts_ints key d.shape h
  have hlen : ¬ (key.map KeyPart.int).length > d.shape.length := by simp [h]
  have hpad : padKey (key.map KeyPart.int) d.shape.length = key.map KeyPart.int := by
    simp [padKey, h]
  simp only [getInt, normalizeKey, hlen, if_false, hpad]
  cases hk : normKey key d.shape with
  | none =>
    rw [hk] at hp
    simp [hp]
  | some k' =>
    rw [hk] at hp
    obtain ⟨nk, hnk, hmap⟩ := hp
    have : ¬ key.length ≠ d.shape.length := by simp [h]
    simp only [hnk, this, if_false, get]
    rw [← hmap]
    rfl

/-! ### the refinement relation and the hypotheses of the property theorems -/

/-- **Agrees.**  The outcome of an assignment in the model (`r` = array afterwards and exception, if
any) agrees with NumPy's outcome `s` on the dense array of the state `d` before it: if NumPy
accepts, the model raises nothing, every index tuple reads NumPy's value, the state is canonical
(distinct in-range keys, no stored fill value) and shape and fill value are unchanged; if NumPy
raises, the model raises an error of the same class and the array is unchanged. -/
def Agrees (d : DOK α) (r : DOK α × Option Err) (s : Except Err (Dense α)) : Prop :=
  match s with
  | .ok a' => r.2 = none ∧ (∀ k, get r.1 k = a' k) ∧ Canon r.1 ∧ r.1.shape = d.shape ∧ r.1.fill = d.fill
  | .error e => r = (d, some e)

/-- the bounds function visits, on every slice of the key, exactly the indices Python's
`range(*slice(start, stop, step).indices(dim))` lists (and its step is not 0) -/
def PyBounds (bounds : Option Int → Option Int → Option Int → Int → Int × Int × Int) :
    List KeyPart → List Nat → Prop
  | .slice a b c :: ps, d :: ds =>
    ((bounds (some (normalizeSlice a b c d).1) (some (normalizeSlice a b c d).2.1)
        (some (normalizeSlice a b c d).2.2) d).2.2 ≠ 0 ∧
      rangeOf (bounds (some (normalizeSlice a b c d).1) (some (normalizeSlice a b c d).2.1)
        (some (normalizeSlice a b c d).2.2) d) = rangeOf (pyAdjust a b (c.getD 1) d))
    ∧ PyBounds bounds ps ds
  | .int _ :: ps, _ :: ds => PyBounds bounds ps ds
  | _, _ => True

theorem slicesOK_of_pyBounds (bounds : Option Int → Option Int → Option Int → Int → Int × Int × Int) :
    ∀ (key : List KeyPart) (shape : List Nat), key.all stepNonzero = true → PyBounds bounds key shape →
      SlicesOK bounds key shape := by
  intro key
  induction key with
  | nil => intro shape _ _; cases shape <;> trivial
  | cons p ps ih =>
    intro shape hall h
    simp only [List.all_cons, Bool.and_eq_true] at hall
    cases shape with
    | nil => cases p <;> trivial
    | cons d ds =>
      cases p with
      | int n => exact ih ds hall.2 h
      | slice a b c =>
        have hc : c ≠ some 0 := by
          have := hall.1
          simp only [stepNonzero, bne_iff_ne, ne_eq] at this
          exact this
        refine ⟨⟨h.1.1, ?_⟩, ih ds hall.2 h.2⟩
        rw [h.1.2, ← C02.normalize_slice_range a b c d (Int.natCast_nonneg d) hc]

/-- the grammar of a key/value pair: non-zero steps, value broadcastable to what the key selects -/
def WFSet (shape : List Nat) (key : List KeyPart) (v : Val α) : Prop :=
  key.all stepNonzero = true ∧
  ∀ sels, pySels (padKey key shape.length) shape = .ok sels → Broadcastable v (gridShape sels) = true

/-- a decidable consequence of `Agrees` at one index tuple, for concrete witnesses -/
def agreesAt (k : DKey) (r : DOK Int × Option Err) (s : Except Err (Dense Int)) : Bool :=
  match s with
  | .ok a' => r.2.isNone && decide (get r.1 k = a' k)
  | .error e => decide (r.2 = some e)

theorem agreesAt_of_agrees {d : DOK Int} {r : DOK Int × Option Err} {s : Except Err (Dense Int)}
    (h : Agrees d r s) (k : DKey) : agreesAt k r s = true := by
  unfold Agrees at h
  unfold agreesAt
  cases s with
  | ok a' => simp [h.1, h.2.1 k]
  | error e => simp [h]

theorem wfSet_of_wfOp {shape : List Nat} {bare : Bool} {key : List KeyPart} {v : Val α}
    (h : WFOp shape (.set bare key v) = true) : WFSet shape key v := by
  simp only [WFOp, valueFits, Bool.and_eq_true, beq_iff_eq] at h
  refine ⟨h.2.1, fun sels hs => ?_⟩
  have := h.1
  rw [hs] at this
  exact this

theorem allInts_singleton {key : List KeyPart} {i : Int} (h : allInts key = some [i]) : key = [.int i] := by
  cases key with
  | nil => simp [allInts] at h
  | cons p ps =>
    cases p with
    | slice a b c => simp [allInts] at h
    | int n =>
      simp only [allInts] at h
      cases hps : allInts ps with
      | none => simp [hps] at h
      | some l =>
        simp only [hps, Option.map_some, Option.some.injEq, List.cons.injEq] at h
        obtain ⟨h1, h2⟩ := h
        subst h1 h2
        cases ps with
        | nil => rfl
        | cons q qs =>
          cases q with
          | slice a b c => simp [allInts] at hps
          | int m =>
            simp only [allInts] at hps
            cases allInts qs <;> simp at hps

/-- the "1D fancy indexing" route of `__setitem__` with one in-range integer: the index-list path
stores exactly that element, which is what NumPy's `a[i,] = x` does -/
theorem tupleRoute_refines [DecidableEq α] (d : DOK α) (bare : Bool) (key : List KeyPart) (v : Val α)
    (ints : List Int) (hc : Canon d) (hws : WFSet d.shape key v)
    (hroute : tupleRoute d.shape bare key = some ints) (htup : Excluded_tupleRoute d.shape bare key = false) :
    Agrees d (setFancy d [ints] v) (dSetitem d.shape (get d) key v) := by
  -- the 1-d tuple route, one in-range integer: the index-list path stores exactly that element
  simp only [Excluded_tupleRoute, hroute, Bool.not_eq_false', Bool.and_eq_true, beq_iff_eq] at htup
  obtain ⟨hlen1, hrange⟩ := htup
  obtain ⟨i, rfl⟩ : ∃ i, ints = [i] := by
    cases ints with
    | nil => simp at hlen1
    | cons i t => cases t with
      | nil => exact ⟨i, rfl⟩
      | cons _ _ => simp at hlen1
  simp only [tupleRoute] at hroute
  split at hroute
  · rename_i hsh
    have hkey : key = [.int i] := allInts_singleton hroute
    subst hkey
    obtain ⟨d0, hd0⟩ : ∃ d0, d.shape = [d0] := by
      cases hs : d.shape with
      | nil => rw [hs] at hsh; simp at hsh
      | cons d0 t => cases t with
        | nil => exact ⟨d0, rfl⟩
        | cons _ _ => rw [hs] at hsh; simp at hsh
    rw [hd0] at hrange
    simp only [entriesInRange, List.all_cons, List.all_nil, Bool.and_true, Bool.and_eq_true,
      decide_eq_true_eq] at hrange
    have hsel : pySels (padKey [.int i] d.shape.length) d.shape = .ok [.int i] := by
      have h1 : -(d0 : Int) ≤ i ∧ i < d0 := by omega
      have h2 : ¬ i < 0 := by omega
      simp [hd0, padKey, pySels, pySel, h1, h2]
    have hbc := hws.2 _ hsel
    obtain ⟨hfl, hle, _⟩ := Broadcastable_spec hbc
    have hvs : v.shape = [] := List.eq_nil_of_length_eq_zero (by simpa [gridShape] using hle)
    have hwf' : WFOp d.shape (.fancy [[i]] v) = true := by
      rw [hvs] at hfl
      simp only [prod] at hfl
      cases hf : v.flat with
      | nil => rw [hf] at hfl; simp at hfl
      | cons x t =>
        have ht : t = [] := by rw [hf] at hfl; simpa using hfl
        subst ht
        simp [WFOp, valueFits, listVals, hvs, hf, hd0, prod, Except.toBool]
    have hex' : Excluded d.shape (.fancy [[i]] v) = false := by
      simp [Excluded, Excluded_fancyRawIndex, Excluded_fancyEmpty, Excluded_fancyBcast1, hd0, entriesInRange,
        hrange.1, hrange.2, hvs]
    obtain ⟨a', hs, h1, h2, h3, h4, h5⟩ := setFancy_refines d [[i]] v hc hwf' hex'
    -- the two dense meanings coincide
    have hdense : dSetitem d.shape (get d) [.int i] v = .ok a' := by
      have hlen : ¬ ([KeyPart.int i].length > d.shape.length) := by simp [hd0]
      simp only [dSetitem, hlen, if_false, hsel, hbc, if_true]
      congr 1
      rw [hvs] at hfl
      simp only [prod] at hfl
      cases hf : v.flat with
      | nil => rw [hf] at hfl; simp at hfl
      | cons x t =>
        have ht : t = [] := by rw [hf] at hfl; simpa using hfl
        subst ht
        have hn : normKeys d.shape (zipKeys [[i]] 1) = some [[i]] := by
          simp [hd0, zipKeys, normKeys, normKey, normIdx_of_inRange hrange.1 hrange.2]
        simp only [dSetFancy, List.headD_cons, List.length_cons, List.length_nil, hn, listVals, hvs, hf,
          Except.ok.injEq] at hs
        rw [← hs]
        funext k
        simp only [dSetSel, assignAll, List.replicate, List.zip_cons_cons, List.zip_nil_right]
        cases k with
        | nil => simp [posOf]
        | cons j js =>
          cases js with
          | cons j2 js2 =>
            have : ¬ (j :: j2 :: js2 : DKey) = [i] := by simp
            simp [posOf, this]
          | nil =>
            by_cases hij : i = j
            · subst hij
              simp [posOf, bcastGet, hvs, hf, ravel]
            · have : ¬ ([j] : DKey) = [i] := by simp; exact fun h => hij h.symm
              simp [posOf, hij, this]
    rw [hdense]
    exact ⟨h1, h2, h3, h4, h5⟩
  · simp at hroute

/-- `dRun` only looks at the values of the dense array -/
theorem dRun_congr (shape : List Nat) (a b : Dense α) (h : ∀ k, a k = b k) (ops : List (Op α)) :
    dRun shape a ops = dRun shape b ops := by
  have : a = b := funext h
  rw [this]

end Dok
end SparseV

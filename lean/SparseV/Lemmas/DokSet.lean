/-
  SparseV.Lemmas.DokSet — the recursion of `DOK._setitem` against the dense specification:
  selection positions (`posP`), the value descent (`descend`) against NumPy broadcasting
  (`Spec.bcastGet`), the loop lemma and the main refinement lemma `setRec_spec`.
-/
import SparseV.Lemmas.Dok
import SparseV.Lemmas.Index
namespace SparseV
namespace Dok
open Spec
variable {α : Type}

/-! ### positions of a key in a selection, relative to a prefix of fixed integers -/

/-- `posP pre sels k`: `k = pre ++ suffix` and `suffix` is selected by `sels`, at that grid position -/
def posP : DKey → List Sel → DKey → Option (List Nat)
  | [], sels, k => posOf sels k
  | p :: ps, sels, i :: is => if p = i then posP ps sels is else none
  | _ :: _, _, [] => none

theorem posP_snoc (pre : DKey) (n : Int) (ss : List Sel) (k : DKey) :
    posP (pre ++ [n]) ss k = posP pre (.int n :: ss) k := by
  induction pre generalizing k with
  | nil =>
    cases k with
    | nil => simp [posP, posOf]
    | cons i is => simp [posP, posOf]
  | cons p ps ih =>
    cases k with
    | nil => simp [posP]
    | cons i is =>
      simp only [List.cons_append, posP]
      split
      · exact ih is
      · rfl

theorem posP_nil (pre k : DKey) : posP pre [] k = if k = pre then some [] else none := by
  induction pre generalizing k with
  | nil =>
    cases k with
    | nil => simp [posP, posOf]
    | cons i is => simp [posP, posOf]
  | cons p ps ih =>
    cases k with
    | nil => simp [posP]
    | cons i is =>
      simp only [posP, ih]
      by_cases h : p = i
      · subst h; simp
      · have : ¬ i = p := fun hh => h hh.symm
        simp [h, this]

theorem posP_range_nil (pre : DKey) (ss : List Sel) (k : DKey) : posP pre (.range [] :: ss) k = none := by
  induction pre generalizing k with
  | nil =>
    cases k with
    | nil => simp [posP, posOf]
    | cons i is => simp [posP, posOf, findPos]
  | cons p ps ih =>
    cases k with
    | nil => simp [posP]
    | cons i is =>
      simp only [posP]
      split
      · exact ih is
      · rfl

/-- move the first grid coordinate by `i0` -/
def shiftHead (i0 : Nat) : List Nat → List Nat
  | j :: p => (i0 + j) :: p
  | [] => []

theorem shiftHead_zero (q : List Nat) : shiftHead 0 q = q := by
  cases q <;> simp [shiftHead]

theorem shiftHead_succ (i0 : Nat) (q : List Nat) : shiftHead (i0 + 1) q = shiftHead i0 (shiftHead 1 q) := by
  cases q with
  | nil => rfl
  | cons j p => simp only [shiftHead]; congr 1; omega

/-- the first index of a slice is grid coordinate 0; the others come one later -/
theorem posP_range_cons (pre : DKey) (x : Int) (xs : List Int) (ss : List Sel) (k : DKey) :
    posP pre (.range (x :: xs) :: ss) k =
      match posP pre (.int x :: ss) k with
      | some p => some (0 :: p)
      | none => (posP pre (.range xs :: ss) k).map (shiftHead 1) := by
  induction pre generalizing k with
  | nil =>
    cases k with
    | nil => simp [posP, posOf]
    | cons i is =>
      simp only [posP, posOf, findPos]
      by_cases hx : x = i
      · simp only [hx, if_true]
        cases posOf ss is with
        | none => cases findPos xs i <;> simp
        | some q => simp
      · simp only [hx, if_false]
        cases findPos xs i with
        | none => simp
        | some j =>
          cases posOf ss is with
          | none => simp
          | some p => simp [shiftHead, Nat.add_comm]
  | cons p ps ih =>
    cases k with
    | nil => simp [posP]
    | cons i is =>
      simp only [posP]
      split
      · exact ih is
      · simp

theorem findPos_none_of_not_mem {xs : List Int} {i : Int} (h : i ∉ xs) : findPos xs i = none := by
  induction xs with
  | nil => rfl
  | cons x xs ih =>
    simp only [List.mem_cons, not_or] at h
    have : ¬ x = i := fun hh => h.1 hh.symm
    simp [findPos, this, ih h.2]

/-- a key whose entry on this axis is `x` is not selected by a range that does not contain `x` -/
theorem posP_range_none_of_int (pre : DKey) (x : Int) (xs : List Int) (ss : List Sel) (k : DKey)
    (hx : x ∉ xs) (h : (posP pre (.int x :: ss) k).isSome) : posP pre (.range xs :: ss) k = none := by
  induction pre generalizing k with
  | nil =>
    cases k with
    | nil => simp [posP, posOf] at h
    | cons i is =>
      simp only [posP, posOf] at h ⊢
      by_cases hxi : x = i
      · subst hxi
        simp [findPos_none_of_not_mem hx]
      · simp [hxi] at h
  | cons p ps ih =>
    cases k with
    | nil => simp [posP] at h
    | cons i is =>
      simp only [posP] at h ⊢
      split
      · rename_i hpi
        simp only [hpi, if_true] at h
        exact ih is h
      · rfl

theorem findPos_lt {xs : List Int} {i : Int} {j : Nat} (h : findPos xs i = some j) : j < xs.length := by
  induction xs generalizing j with
  | nil => simp [findPos] at h
  | cons x xs ih =>
    simp only [findPos] at h
    by_cases hx : x = i
    · simp only [hx, if_true, Option.some.injEq] at h
      subst h; simp
    · simp only [hx, if_false] at h
      cases hf : findPos xs i with
      | none => simp [hf] at h
      | some j' =>
        simp only [hf, Option.map_some, Option.some.injEq] at h
        subst h
        have := ih hf
        simp; omega

/-- pointwise `p < grid` with equal lengths -/
def PosLt : List Nat → List Nat → Prop
  | [], [] => True
  | j :: p, g :: gs => j < g ∧ PosLt p gs
  | _, _ => False

theorem PosLt_length : ∀ {p g : List Nat}, PosLt p g → p.length = g.length
  | [], [], _ => rfl
  | _ :: p, _ :: gs, h => by simp [PosLt_length h.2]
  | [], _ :: _, h => h.elim
  | _ :: _, [], h => h.elim

theorem posOf_lt : ∀ (sels : List Sel) (k : DKey) (p : List Nat), posOf sels k = some p → PosLt p (gridShape sels) := by
  intro sels
  induction sels with
  | nil =>
    intro k p h
    cases k with
    | nil => simp [posOf] at h; subst h; trivial
    | cons i is => simp [posOf] at h
  | cons s ss ih =>
    intro k p h
    cases k with
    | nil => cases s <;> simp [posOf] at h
    | cons i is =>
      cases s with
      | int n =>
        simp only [posOf] at h
        split at h
        · exact ih is p h
        · simp at h
      | range l =>
        simp only [posOf] at h
        cases hf : findPos l i with
        | none => simp [hf] at h
        | some j =>
          simp only [hf] at h
          cases hp : posOf ss is with
          | none => simp [hp] at h
          | some q =>
            simp only [hp, Option.map_some, Option.some.injEq] at h
            subst h
            exact ⟨findPos_lt hf, ih is q hp⟩

theorem posP_lt (pre : DKey) (sels : List Sel) (k : DKey) (p : List Nat) (h : posP pre sels k = some p) :
    PosLt p (gridShape sels) := by
  induction pre generalizing k with
  | nil => exact posOf_lt sels k p h
  | cons a as ih =>
    cases k with
    | nil => simp [posP] at h
    | cons i is =>
      simp only [posP] at h
      split at h
      · exact ih is h
      · simp at h

/-! ### the value descent, the loop, the recursion -/

/-- the value the recursion of `_setitem` stores at grid position `p`: at each slice, `value` itself
while it has fewer axes than there are slices left, else `value[0]` / `value[v_idx]` -/
def descend : Val α → List Nat → Option α
  | v, [] => v.flat.head?
  | v, j :: p =>
    if v.shape.length < p.length + 1 then descend v p
    else
      match v.pick j with
      | .ok vi => descend vi p
      | .error _ => none

/-- the recursion does not raise on `v` along a grid of these extents -/
def Desc : Val α → List Nat → Prop
  | v, [] => v.shape = [] ∧ ∃ x xs, v.flat = x :: xs
  | v, g :: gs =>
    (v.shape.length < gs.length + 1 ∧ (0 < g → Desc v gs)) ∨
    (v.shape.length = gs.length + 1 ∧ ∀ j, j < g → ∃ vi, v.pick j = .ok vi ∧ Desc vi gs)

/-- what a normalised key selects (bounds of the slices as normalised) -/
def nkSels : List (NPart × Int) → List Sel
  | [] => []
  | (.int n, _) :: r => .int n :: nkSels r
  | (.slice a b c, _) :: r => .range (rangeOf (a, b, c)) :: nkSels r

/-- the bounds function visits exactly the indices of the normalised slice -/
def BoundsOK (bounds : Option Int → Option Int → Option Int → Int → Int × Int × Int) (a b c dim : Int) : Prop :=
  (bounds (some a) (some b) (some c) dim).2.2 ≠ 0 ∧
    rangeOf (bounds (some a) (some b) (some c) dim) = rangeOf (a, b, c)

def BoundsOKAll (bounds : Option Int → Option Int → Option Int → Int → Int × Int × Int) :
    List (NPart × Int) → Prop
  | [] => True
  | (.int _, _) :: r => BoundsOKAll bounds r
  | (.slice a b c, dim) :: r => BoundsOK bounds a b c dim ∧ BoundsOKAll bounds r

theorem nSlices_eq : ∀ (nk : List (NPart × Int)), nSlices nk = (gridShape (nkSels nk)).length
  | [] => rfl
  | (.int _, _) :: r => by simp [nSlices, nkSels, gridShape, nSlices_eq r]
  | (.slice _ _ _, _) :: r => by simp [nSlices, nkSels, gridShape, nSlices_eq r]

theorem loopS_cons_ok {σ : Type} (f : Int → Nat → σ → σ × Option Err) (k : Int) (ks : List Int) (i : Nat) (s : σ)
    (h : (f k i s).2 = none) : loopS f (k :: ks) i s = loopS f ks (i + 1) (f k i s).1 := by
  simp only [loopS]
  rcases hfk : f k i s with ⟨s', e⟩
  rw [hfk] at h
  simp only at h
  subst h
  rfl

def dvq (dv : Nat → List Nat → Option α) : List Nat → Option α
  | j :: p => dv j p
  | [] => none

/-- **the loop over a slice.**  If the body, run for index `x` as the `vidx`-th iteration, stores
`dv vidx p` at the keys `pre ++ [x] ++ …` it selects and touches nothing else, then the loop over
distinct indices `ks` stores `dv (i0 + j) p` at the keys of its `j`-th index and touches nothing else. -/
theorem loopS_spec (fill : α) (pre : DKey) (ssr : List Sel) (dv : Nat → List Nat → Option α)
    (f : Int → Nat → List (DKey × α) → Res α) (bound : Nat)
    (hf : ∀ x vidx es, vidx < bound → (f x vidx es).2 = none ∧ ∀ k, alookup (f x vidx es).1 fill k =
        match posP (pre ++ [x]) ssr k with
        | some p => (dv vidx p).getD (alookup es fill k)
        | none => alookup es fill k) :
    ∀ (ks : List Int) (i0 : Nat) (es : List (DKey × α)), ks.Nodup → i0 + ks.length ≤ bound →
      (loopS f ks i0 es).2 = none ∧ ∀ k, alookup (loopS f ks i0 es).1 fill k =
        match posP pre (.range ks :: ssr) k with
        | some q => (dvq dv (shiftHead i0 q)).getD (alookup es fill k)
        | none => alookup es fill k := by
  intro ks
  induction ks with
  | nil =>
    intro i0 es _ _
    refine ⟨rfl, fun k => ?_⟩
    simp only [loopS, posP_range_nil]
  | cons x xs ih =>
    intro i0 es hnd hb
    have hx : x ∉ xs := (List.nodup_cons.mp hnd).1
    have hnd' : xs.Nodup := (List.nodup_cons.mp hnd).2
    simp only [List.length_cons] at hb
    have h0 := hf x i0 es (by omega)
    rw [loopS_cons_ok f x xs i0 es h0.1]
    have ih' := ih (i0 + 1) (f x i0 es).1 hnd' (by omega)
    refine ⟨ih'.1, fun k => ?_⟩
    rw [ih'.2 k, h0.2 k, posP_range_cons, posP_snoc]
    cases hA : posP pre (.int x :: ssr) k with
    | some p =>
      have hnone := posP_range_none_of_int pre x xs ssr k hx (by simp [hA])
      rw [hnone]
      show (dv i0 p).getD (alookup es fill k) = (dvq dv ((i0 + 0) :: p)).getD (alookup es fill k)
      rfl
    | none =>
      cases hB : posP pre (.range xs :: ssr) k with
      | none => simp
      | some q =>
        simp only [Option.map_some]
        rw [shiftHead_succ]

theorem descend_cons_lt (v : Val α) (j : Nat) (p : List Nat) (h : v.shape.length < p.length + 1) :
    descend v (j :: p) = descend v p := by
  simp [descend, h]

theorem descend_cons_pick (v vi : Val α) (j : Nat) (p : List Nat) (h : ¬ v.shape.length < p.length + 1)
    (hp : v.pick j = .ok vi) : descend v (j :: p) = descend vi p := by
  simp [descend, h, hp]

/-- the loop lemma at iteration 0 for the value descent -/
theorem loopS_spec0 (fill : α) (pre : DKey) (ssr : List Sel) (v : Val α)
    (f : Int → Nat → List (DKey × α) → Res α) (bound : Nat)
    (hf : ∀ x vidx es, vidx < bound → (f x vidx es).2 = none ∧ ∀ k, alookup (f x vidx es).1 fill k =
        match posP (pre ++ [x]) ssr k with
        | some p => (descend v (vidx :: p)).getD (alookup es fill k)
        | none => alookup es fill k)
    (ks : List Int) (es : List (DKey × α)) (hnd : ks.Nodup) (hb : ks.length ≤ bound) :
    (loopS f ks 0 es).2 = none ∧ ∀ k, alookup (loopS f ks 0 es).1 fill k =
      match posP pre (.range ks :: ssr) k with
      | some q => (descend v q).getD (alookup es fill k)
      | none => alookup es fill k := by
  have hloop := loopS_spec fill pre ssr (fun vidx p => descend v (vidx :: p)) f bound hf ks 0 es hnd (by omega)
  refine ⟨hloop.1, fun k => ?_⟩
  rw [hloop.2 k]
  cases hq : posP pre (.range ks :: ssr) k with
  | none => rfl
  | some q =>
    have hlt := posP_lt pre _ k q hq
    cases q with
    | nil => simp [gridShape, PosLt] at hlt
    | cons j p => simp [shiftHead, dvq]

/-- **the recursion of `_setitem` against selection positions.**  For every bounds function that
visits the indices of the normalised slices, and every value the recursion can descend without
raising: no exception, and afterwards a key selected at grid position `p` reads the value the descent
reaches at `p`, every other key reads what it read before. -/
theorem setRec_spec [DecidableEq α]
    (bounds : Option Int → Option Int → Option Int → Int → Int × Int × Int) (fill : α) :
    ∀ (nk : List (NPart × Int)) (pre : DKey) (v : Val α) (es : List (DKey × α)),
      BoundsOKAll bounds nk → Desc v (gridShape (nkSels nk)) →
      (setRec bounds fill nk pre v es).2 = none ∧
      ∀ k, alookup (setRec bounds fill nk pre v es).1 fill k =
        match posP pre (nkSels nk) k with
        | some p => (descend v p).getD (alookup es fill k)
        | none => alookup es fill k := by
  intro nk
  induction nk with
  | nil =>
    intro pre v es _ hd
    simp only [nkSels, gridShape, Desc] at hd
    obtain ⟨hs, x, xs, hfl⟩ := hd
    simp only [setRec, hs, List.length_nil, Nat.lt_irrefl, if_false, hfl, nkSels]
    refine ⟨trivial, fun k => ?_⟩
    rw [alookup_store, posP_nil]
    by_cases hk : k = pre
    · simp [hk, descend, hfl]
    · simp [hk]
  | cons hd rest ih =>
    intro pre v es hb hdesc
    obtain ⟨part, dim⟩ := hd
    cases part with
    | int n =>
      simp only [BoundsOKAll] at hb
      simp only [nkSels, gridShape] at hdesc
      have := ih (pre ++ [n]) v es hb hdesc
      simp only [setRec, nkSels]
      refine ⟨this.1, fun k => ?_⟩
      rw [this.2 k, posP_snoc]
    | slice a b c =>
      simp only [BoundsOKAll] at hb
      obtain ⟨⟨hstep, hrange⟩, hbr⟩ := hb
      simp only [nkSels, gridShape] at hdesc
      have hns : nSlices rest = (gridShape (nkSels rest)).length := nSlices_eq rest
      have hnot : ¬ nSlices rest + 1 < v.shape.length := by
        rw [hns]
        simp only [Desc] at hdesc
        rcases hdesc with h | h <;> omega
      simp only [setRec, hnot, if_false, hstep, hrange, nkSels]
      refine loopS_spec0 fill pre (nkSels rest) v _ (rangeOf (a, b, c)).length ?_ (rangeOf (a, b, c)) es
        (nodup_rangeOf _) (Nat.le_refl _)
      · intro x vidx es' hv
        simp only [Desc] at hdesc
        rcases hdesc with ⟨hlt, hD⟩ | ⟨heq, hP⟩
        · have hlt' : v.shape.length < nSlices rest + 1 := by rw [hns]; exact hlt
          simp only [hlt', if_true]
          have := ih (pre ++ [x]) v es' hbr (hD (by omega))
          refine ⟨this.1, fun k => ?_⟩
          rw [this.2 k]
          cases hp : posP (pre ++ [x]) (nkSels rest) k with
          | none => rfl
          | some p =>
            have hl := PosLt_length (posP_lt _ _ k p hp)
            simp only
            rw [descend_cons_lt v vidx p (by rw [hl]; exact hlt)]
        · have hnlt : ¬ v.shape.length < nSlices rest + 1 := by rw [hns]; omega
          obtain ⟨vi, hpick, hDi⟩ := hP vidx hv
          simp only [hnlt, if_false, hpick]
          have := ih (pre ++ [x]) vi es' hbr hDi
          refine ⟨this.1, fun k => ?_⟩
          rw [this.2 k]
          cases hp : posP (pre ++ [x]) (nkSels rest) k with
          | none => rfl
          | some p =>
            have hl := PosLt_length (posP_lt _ _ k p hp)
            simp only
            rw [descend_cons_pick v vi vidx p (by rw [hl]; omega) hpick]

/-! ### the descent is NumPy broadcasting -/

/-- the clamped index used by `bcastGet` -/
def clampIdx (shape p : List Nat) : List Nat := List.zipWith (fun s i => if s = 1 then 0 else i) shape p

theorem clamp_InB : ∀ (ss gs p : List Nat), alignedOK ss gs = true → PosLt p gs → InB (clampIdx ss p) ss := by
  intro ss
  induction ss with
  | nil =>
    intro gs p ha hp
    cases gs with
    | nil => cases p <;> simp_all [PosLt, clampIdx]
    | cons g gs => simp [alignedOK] at ha
  | cons s ss ih =>
    intro gs p ha hp
    cases gs with
    | nil => simp [alignedOK] at ha
    | cons g gs =>
      cases p with
      | nil => exact hp.elim
      | cons j p =>
        simp only [alignedOK, Bool.and_eq_true, Bool.or_eq_true, beq_iff_eq] at ha
        simp only [clampIdx, List.zipWith_cons_cons, InB]
        refine ⟨?_, ih gs p ha.2 hp.2⟩
        have := hp.1
        rcases ha.1 with h | h
        · simp [h]
        · by_cases h1 : s = 1
          · simp [h1]
          · simp only [h1, if_false]; omega

theorem sub_flat_length (v : Val α) (s : Nat) (ss : List Nat) (i : Nat) (hs : v.shape = s :: ss)
    (hl : v.flat.length = prod v.shape) (hi : i < s) : (v.sub i).flat.length = prod (v.sub i).shape := by
  simp only [Val.sub, hs, List.tail_cons, List.length_take, List.length_drop, hl, prod]
  have h1 : (i + 1) * prod ss ≤ s * prod ss := Nat.mul_le_mul_right _ hi
  have h2 : (i + 1) * prod ss = i * prod ss + prod ss := by rw [Nat.add_mul, Nat.one_mul]
  omega

theorem sub_getElem (v : Val α) (i r : Nat) (hr : r < prod v.shape.tail) :
    (v.sub i).flat[r]? = v.flat[i * prod v.shape.tail + r]? := by
  simp only [Val.sub]
  rw [List.getElem?_take_of_lt hr, List.getElem?_drop]

theorem bcastGet_cons_lt (v : Val α) (j : Nat) (p : List Nat) (h : v.shape.length < p.length + 1) :
    bcastGet v (j :: p) = bcastGet v p := by
  simp only [bcastGet, List.length_cons]
  have : p.length + 1 - v.shape.length = (p.length - v.shape.length) + 1 := by omega
  rw [this, List.drop_succ_cons]

/-- **descent = broadcasting.**  For a value broadcastable to the grid the recursion never raises, and
at every grid position it reaches the element of `np.broadcast_to(value, grid)` at that position. -/
theorem bcast_desc : ∀ (grid : List Nat) (v : Val α), v.flat.length = prod v.shape →
    v.shape.length ≤ grid.length → alignedOK v.shape (grid.drop (grid.length - v.shape.length)) = true →
    Desc v grid ∧ ∀ p, PosLt p grid → descend v p = bcastGet v p := by
  intro grid
  induction grid with
  | nil =>
    intro v hl hle _
    have hs : v.shape = [] := List.eq_nil_of_length_eq_zero (by simpa using hle)
    rw [hs] at hl
    simp only [prod] at hl
    cases hf : v.flat with
    | nil => rw [hf] at hl; simp at hl
    | cons x xs =>
      refine ⟨⟨hs, x, xs, hf⟩, fun p hp => ?_⟩
      cases p with
      | nil => simp [descend, bcastGet, hs, hf, ravel]
      | cons _ _ => exact hp.elim
  | cons g gs ih =>
    intro v hl hle ha
    by_cases hlt : v.shape.length < gs.length + 1
    · have hd : (g :: gs).drop ((g :: gs).length - v.shape.length) = gs.drop (gs.length - v.shape.length) := by
        have : (g :: gs).length - v.shape.length = (gs.length - v.shape.length) + 1 := by simp; omega
        rw [this, List.drop_succ_cons]
      rw [hd] at ha
      have := ih v hl (by omega) ha
      refine ⟨Or.inl ⟨hlt, fun _ => this.1⟩, fun p hp => ?_⟩
      cases p with
      | nil => exact hp.elim
      | cons j p =>
        have hlen := PosLt_length hp.2
        rw [descend_cons_lt v j p (by rw [hlen]; exact hlt), bcastGet_cons_lt v j p (by rw [hlen]; exact hlt)]
        exact this.2 p hp.2
    · have heq : v.shape.length = gs.length + 1 := by simp at hle; omega
      cases hs : v.shape with
      | nil => rw [hs] at heq; simp at heq
      | cons s ss =>
        have hss : ss.length = gs.length := by rw [hs] at heq; simpa using heq
        have hd : (g :: gs).drop ((g :: gs).length - v.shape.length) = g :: gs := by
          rw [heq]; simp
        rw [hd, hs] at ha
        simp only [alignedOK, Bool.and_eq_true, Bool.or_eq_true, beq_iff_eq] at ha
        -- the sub-value the recursion picks for the `j`-th index
        have hpick : ∀ j, j < g → ∃ i, i < s ∧ (if s = 1 then 0 else j) = i ∧ v.pick j = .ok (v.sub i) := by
          intro j hj
          by_cases h1 : s = 1
          · exact ⟨0, by omega, by simp [h1], by simp [Val.pick, hs, h1]⟩
          · have hsg : s = g := by rcases ha.1 with h | h; exact absurd h h1; exact h
            have hjs : j < s := by omega
            exact ⟨j, hjs, by simp [h1], by simp [Val.pick, hs, h1, hjs]⟩
        have hsub : ∀ i, i < s → Desc (v.sub i) gs ∧ ∀ p, PosLt p gs → descend (v.sub i) p = bcastGet (v.sub i) p := by
          intro i hi
          have hshape : (v.sub i).shape = ss := by simp [Val.sub, hs]
          apply ih (v.sub i) (sub_flat_length v s ss i hs hl hi)
          · rw [hshape, hss]; exact Nat.le_refl _
          · rw [hshape, hss]; simpa using ha.2
        refine ⟨Or.inr ⟨heq, fun j hj => ?_⟩, fun p hp => ?_⟩
        · obtain ⟨i, hi, _, hpk⟩ := hpick j hj
          exact ⟨v.sub i, hpk, (hsub i hi).1⟩
        · cases p with
          | nil => exact hp.elim
          | cons j p =>
            obtain ⟨i, hi, hci, hpk⟩ := hpick j hp.1
            have hlen := PosLt_length hp.2
            rw [descend_cons_pick v (v.sub i) j p (by rw [hlen]; omega) hpk, (hsub i hi).2 p hp.2]
            have hshape : (v.sub i).shape = ss := by simp [Val.sub, hs]
            have hin : InB (clampIdx ss p) ss := clamp_InB ss gs p ha.2 hp.2
            have hr : ravel (clampIdx ss p) ss < prod ss := ravel_lt hin
            simp only [bcastGet, hshape, hs, List.length_cons, hss, hlen, Nat.sub_self, List.drop_zero,
              List.zipWith_cons_cons, ravel, hci]
            have := sub_getElem v i (ravel (clampIdx ss p) ss) (by rw [hs]; exact hr)
            rw [hs] at this
            simpa [clampIdx] using this

theorem Broadcastable_spec {v : Val α} {grid : List Nat} (h : Broadcastable v grid = true) :
    v.flat.length = prod v.shape ∧ v.shape.length ≤ grid.length ∧
      alignedOK v.shape (grid.drop (grid.length - v.shape.length)) = true := by
  simp only [Broadcastable, Bool.and_eq_true, beq_iff_eq, decide_eq_true_eq] at h
  exact ⟨h.1.1, h.1.2, h.2⟩

end Dok
end SparseV

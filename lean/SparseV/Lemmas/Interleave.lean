/-
  SparseV.Lemmas.Interleave — invariants and helper lemmas behind the C13 theorems (Props/C13.lean):
  the invariants of the memo system (MInv) and of the cache-deque system (CInv: values; PInv: versions,
  for schedules outside the excluded region), their preservation by every step of every thread, and the
  commutation facts for actions that touch only the acting thread.
  Core Lean only.
-/
import SparseV.Model.Interleave
import SparseV.Lemmas.Cache
namespace SparseV.C13
open SparseV SparseV.Interleave SparseV.Cache

theorem forall_set {T : Type} {P : T → Prop} {l : List T} {i : Nat} {b : T}
    (hl : ∀ a ∈ l, P a) (hb : P b) : ∀ a ∈ l.set i b, P a := by
  intro a ha
  rcases List.mem_or_eq_of_mem_set ha with h | h
  · exact hl a h
  · exact h ▸ hb

theorem run_inv {σ : Type} (step : Nat → σ → σ) (I : σ → Prop) (hstep : ∀ t s, I s → I (step t s))
    (sched : List Nat) : ∀ s, I s → I (runSched step sched s) := by
  induction sched with
  | nil => intro s h; exact h
  | cons t ts ih => intro s h; exact ih _ (hstep t s h)

section Memo

variable {K V : Type} [DecidableEq K]

def MemoOK (compute : K → V) (m : List (K × V)) : Prop := ∀ e ∈ m, e.2 = compute e.1

def MThreadOK (compute : K → V) (m : List (K × V)) (th : MThread K V) : Prop :=
  (∀ r ∈ th.rets, r.2 = .ok (compute r.1)) ∧
  (match th.pc with
   | .get k => (dictGet m k).isSome = true
   | .store k v => v = compute k
   | _ => True)

def MInv (compute : K → V) (s : MState K V) : Prop :=
  MemoOK compute s.memo ∧ ∀ th ∈ s.threads, MThreadOK compute s.memo th

theorem dictGet_ok {compute : K → V} {m : List (K × V)} (hm : MemoOK compute m) {k : K} {v : V}
    (h : dictGet m k = some v) : v = compute k := by
  unfold dictGet at h
  cases hf : m.find? (fun e => e.1 == k) with
  | none => simp [hf] at h
  | some e =>
    simp only [hf, Option.map_some, Option.some.injEq] at h
    have hmem := List.mem_of_find?_eq_some hf
    have hk : e.1 = k := by simpa using List.find?_some hf
    rw [← h, ← hk]; exact hm e hmem

theorem dictGet_cons_isSome {m : List (K × V)} {k k' : K} {v : V}
    (h : (dictGet m k').isSome = true) : (dictGet ((k, v) :: m) k').isSome = true := by
  unfold dictGet at *
  simp only [List.find?_cons]
  by_cases hk : (k == k') = true
  · simp [hk]
  · have : (k == k') = false := by simpa using hk
    simp only [this]; exact h

theorem mthread_mono {compute : K → V} {m : List (K × V)} {th : MThread K V} (k : K) (v : V)
    (h : MThreadOK compute m th) : MThreadOK compute ((k, v) :: m) th := by
  refine ⟨h.1, ?_⟩
  have h2 := h.2
  cases hp : th.pc with
  | get k' => simp only [hp] at h2 ⊢; exact dictGet_cons_isSome h2
  | store k' v' => simp only [hp] at h2 ⊢; exact h2
  | idle => trivial
  | check _ => trivial
  | compute _ => trivial

theorem mstep_inv (compute : K → V) (t : Nat) (s : MState K V) (h : MInv compute s) :
    MInv compute (mstep compute t s) := by
  obtain ⟨hm, hth⟩ := h
  unfold mstep
  cases ht : s.threads[t]? with
  | none => exact ⟨hm, hth⟩
  | some th =>
    have hmem : th ∈ s.threads := List.mem_of_getElem? ht
    have hok := hth th hmem
    simp only
    cases hp : th.pc with
    | idle =>
      simp only
      cases hd : th.todo with
      | nil => exact ⟨hm, hth⟩
      | cons k ks => exact ⟨hm, forall_set hth ⟨hok.1, trivial⟩⟩
    | check k =>
      simp only
      by_cases hc : (dictGet s.memo k).isSome = true
      · rw [if_pos hc]; exact ⟨hm, forall_set hth ⟨hok.1, hc⟩⟩
      · rw [if_neg hc]; exact ⟨hm, forall_set hth ⟨hok.1, trivial⟩⟩
    | get k =>
      simp only
      have hg := hok.2
      simp only [hp] at hg
      cases hd : dictGet s.memo k with
      | none => rw [hd] at hg; cases hg
      | some v =>
        refine ⟨hm, forall_set hth ⟨?_, trivial⟩⟩
        intro r hr
        rcases List.mem_cons.mp hr with hr | hr
        · rw [hr]; simp only; rw [dictGet_ok hm hd]
        · exact hok.1 r hr
    | compute k =>
      exact ⟨hm, forall_set hth ⟨hok.1, rfl⟩⟩
    | store k v =>
      have hv := hok.2
      simp only [hp] at hv
      refine ⟨?_, forall_set (fun a ha => mthread_mono k v (hth a ha)) ⟨?_, trivial⟩⟩
      · intro e he
        rcases List.mem_cons.mp he with he | he
        · rw [he]; exact hv
        · exact hm e he
      · intro r hr
        rcases List.mem_cons.mp hr with hr | hr
        · rw [hr]; simp only; rw [hv]
        · exact hok.1 r hr

theorem minit_inv (compute : K → V) (m : List (K × V)) (hm : MemoOK compute m) (progs : List (List K)) :
    MInv compute (minit m progs) := by
  refine ⟨hm, ?_⟩
  intro th hth
  simp only [minit, List.mem_map] at hth
  obtain ⟨p, _, rfl⟩ := hth
  exact ⟨(by intro r hr; cases hr), trivial⟩

end Memo

variable {V : Type}

def DqOK (compute : Key → V) (c : Cache V) : Prop := ∀ e ∈ c, e.2 = compute e.1

/-- what a thread holds is correct: returned values, the fetched item, its snapshot, the value it
is about to append -/
def CThreadOK (compute : Key → V) (th : CThread V) : Prop :=
  (∀ r ∈ th.rets, ∀ v, r.2 = .ok v → v = compute r.1) ∧
  (match th.pc with
   | .iter _ _ _ snap => DqOK compute snap
   | .compare _ _ _ snap it => DqOK compute snap ∧ it.2 = compute it.1
   | .append k v => v = compute k
   | _ => True)

def CInv (compute : Key → V) (s : CState V) : Prop :=
  DqOK compute s.dq ∧ ∀ th ∈ s.threads, CThreadOK compute th

theorem dqOK_append {compute : Key → V} {c : Cache V} (h : DqOK compute c) (k : Key) :
    DqOK compute (Cache.append c k (compute k)) := by
  intro e he
  rcases C11.mem_append he with he | he
  · exact h e he
  · rw [he]

theorem cstep_inv (mode : Mode) (compute : Key → V) (t : Nat) (s : CState V) (h : CInv compute s) :
    CInv compute (cstep mode compute t s) := by
  obtain ⟨hd, hth⟩ := h
  unfold cstep
  cases ht : s.threads[t]? with
  | none => exact ⟨hd, hth⟩
  | some th =>
    have hmem : th ∈ s.threads := List.mem_of_getElem? ht
    have hok := hth th hmem
    simp only
    cases hp : th.pc with
    | idle =>
      simp only
      cases hdo : th.todo with
      | nil => exact ⟨hd, hth⟩
      | cons k ks => exact ⟨hd, forall_set hth ⟨hok.1, trivial⟩⟩
    | start k =>
      cases mode with
      | live => exact ⟨hd, forall_set hth ⟨hok.1, by intro e he; cases he⟩⟩
      | snapshot => exact ⟨hd, forall_set hth ⟨hok.1, hd⟩⟩
    | iter k ver idx snap =>
      have hs := hok.2
      simp only [hp] at hs
      have herr : ∀ r ∈ (k, (Except.error Err.runtime : Except Err V)) :: th.rets, ∀ v, r.2 = .ok v → v = compute r.1 := by
        intro r hr v hv
        rcases List.mem_cons.mp hr with hr | hr
        · rw [hr] at hv; cases hv
        · exact hok.1 r hr v hv
      cases mode with
      | live =>
        simp only
        by_cases hv : s.ver ≠ ver
        · rw [if_pos hv]; exact ⟨hd, forall_set hth ⟨herr, trivial⟩⟩
        · rw [if_neg hv]
          cases hi : s.dq[idx]? with
          | none => exact ⟨hd, forall_set hth ⟨hok.1, trivial⟩⟩
          | some it => exact ⟨hd, forall_set hth ⟨hok.1, hs, hd it (List.mem_of_getElem? hi)⟩⟩
      | snapshot =>
        simp only
        cases hi : snap[idx]? with
        | none => exact ⟨hd, forall_set hth ⟨hok.1, trivial⟩⟩
        | some it => exact ⟨hd, forall_set hth ⟨hok.1, hs, hs it (List.mem_of_getElem? hi)⟩⟩
    | compare k ver idx snap it =>
      have hs := hok.2
      simp only [hp] at hs
      simp only
      by_cases hk : it.1 = k
      · rw [if_pos hk]
        refine ⟨hd, forall_set hth ⟨?_, trivial⟩⟩
        intro r hr v hv
        rcases List.mem_cons.mp hr with hr | hr
        · rw [hr] at hv ⊢
          simp only [Except.ok.injEq] at hv
          rw [← hv, hs.2, hk]
        · exact hok.1 r hr v hv
      · rw [if_neg hk]; exact ⟨hd, forall_set hth ⟨hok.1, hs.1⟩⟩
    | compute k => exact ⟨hd, forall_set hth ⟨hok.1, rfl⟩⟩
    | append k v =>
      have hv := hok.2
      simp only [hp] at hv
      refine ⟨?_, forall_set hth ⟨?_, trivial⟩⟩
      · rw [hv]; exact dqOK_append hd k
      · intro r hr v' hv'
        rcases List.mem_cons.mp hr with hr | hr
        · rw [hr] at hv' ⊢
          simp only [Except.ok.injEq] at hv'
          rw [← hv', hv]
        · exact hok.1 r hr v' hv'

theorem cinit_inv (compute : Key → V) (dq : Cache V) (hd : DqOK compute dq) (progs : List (List Key)) :
    CInv compute (cinit dq progs) := by
  refine ⟨hd, ?_⟩
  intro th hth
  simp only [cinit, List.mem_map] at hth
  obtain ⟨p, _, rfl⟩ := hth
  exact ⟨(by intro r hr; cases hr), trivial⟩

def NoErr (th : CThread V) : Prop := ∀ r ∈ th.rets, ∀ e, r.2 ≠ .error e

/-- every thread inside its loop has seen the current deque version -/
def VerOK (s : CState V) (th : CThread V) : Prop :=
  match th.pc with
  | .iter _ ver _ _ => ver = s.ver
  | .compare _ ver _ _ _ => ver = s.ver
  | _ => True

def PInv (s : CState V) : Prop := ∀ th ∈ s.threads, NoErr th ∧ VerOK s th

theorem noErr_cons_ok {th : CThread V} (h : NoErr th) (k : Key) (v : V) :
    ∀ r ∈ (k, (Except.ok v : Except Err V)) :: th.rets, ∀ e, r.2 ≠ .error e := by
  intro r hr e
  rcases List.mem_cons.mp hr with hr | hr
  · rw [hr]; intro hc; cases hc
  · exact h r hr e

theorem cstep_pinv (compute : Key → V) (t : Nat) (s : CState V) (h : PInv s)
    (hr : racyStep s t = false) : PInv (cstep .live compute t s) := by
  unfold cstep
  cases ht : s.threads[t]? with
  | none => exact h
  | some th =>
    have hmem : th ∈ s.threads := List.mem_of_getElem? ht
    have hok := h th hmem
    simp only
    cases hp : th.pc with
    | idle =>
      simp only
      cases hdo : th.todo with
      | nil => exact h
      | cons k ks => exact forall_set h ⟨hok.1, trivial⟩
    | start k => exact forall_set h ⟨hok.1, rfl⟩
    | iter k ver idx snap =>
      have hv := hok.2
      simp only [VerOK, hp] at hv
      simp only
      rw [if_neg (by intro hc; exact hc hv.symm)]
      cases hi : s.dq[idx]? with
      | none => exact forall_set h ⟨hok.1, trivial⟩
      | some it => exact forall_set h ⟨hok.1, hv⟩
    | compare k ver idx snap it =>
      have hv := hok.2
      simp only [VerOK, hp] at hv
      simp only
      by_cases hk : it.1 = k
      · rw [if_pos hk]; exact forall_set h ⟨noErr_cons_ok hok.1 k it.2, trivial⟩
      · rw [if_neg hk]; exact forall_set h ⟨hok.1, hv⟩
    | compute k => exact forall_set h ⟨hok.1, trivial⟩
    | append k v =>
      -- not racy: no thread is inside its loop, so nobody holds an old version
      have hnone : s.threads.any midIter = false := by
        simp only [racyStep, ht, atAppend, hp, Bool.true_and] at hr
        exact hr
      have hno : ∀ u ∈ s.threads, midIter u = false := by
        intro u hu
        cases hm : midIter u with
        | false => rfl
        | true =>
          have : s.threads.any midIter = true := List.any_eq_true.mpr ⟨u, hu, hm⟩
          rw [hnone] at this; cases this
      refine forall_set ?_ ⟨noErr_cons_ok hok.1 k v, trivial⟩
      intro u hu
      refine ⟨(h u hu).1, ?_⟩
      have := hno u hu
      unfold midIter at this
      unfold VerOK
      cases hpu : u.pc with
      | iter _ _ _ _ => rw [hpu] at this; cases this
      | compare _ _ _ _ _ => rw [hpu] at this; cases this
      | idle => trivial
      | start _ => trivial
      | compute _ => trivial
      | append _ _ => trivial

theorem errorsOf_nil_of_noErr (s : CState V) (h : ∀ th ∈ s.threads, NoErr th) : errorsOf s = [] := by
  unfold errorsOf
  rw [List.flatMap_eq_nil_iff]
  intro th hth
  rw [List.filterMap_eq_nil_iff]
  intro r hr
  cases hr2 : r.2 with
  | ok v => rfl
  | error e => exact absurd hr2 (h th hth r hr e)

theorem cstep_snapshot_noErr (compute : Key → V) (t : Nat) (s : CState V)
    (h : ∀ th ∈ s.threads, NoErr th) : ∀ th ∈ (cstep .snapshot compute t s).threads, NoErr th := by
  unfold cstep
  cases ht : s.threads[t]? with
  | none => exact h
  | some th =>
    have hok := h th (List.mem_of_getElem? ht)
    simp only
    cases hp : th.pc with
    | idle =>
      simp only
      cases hdo : th.todo with
      | nil => exact h
      | cons k ks => exact forall_set h hok
    | start k => exact forall_set h hok
    | iter k ver idx snap =>
      simp only
      cases hi : snap[idx]? with
      | none => exact forall_set h hok
      | some it => exact forall_set h hok
    | compare k ver idx snap it =>
      simp only
      by_cases hk : it.1 = k
      · rw [if_pos hk]; exact forall_set h (noErr_cons_ok hok k it.2)
      · rw [if_neg hk]; exact forall_set h hok
    | compute k => exact forall_set h hok
    | append k v => exact forall_set h (noErr_cons_ok hok k v)

/-- what a thread does to itself when its next action touches no shared state -/
def localUpd (compute : Key → V) (th : CThread V) : CThread V :=
  match th.pc with
  | .idle =>
    (match th.todo with
     | [] => th
     | k :: ks => { th with pc := .start k, todo := ks })
  | .compare k ver idx snap it =>
    if it.1 = k then { th with pc := .idle, rets := (k, .ok it.2) :: th.rets }
    else { th with pc := .iter k ver idx snap }
  | .compute k => { th with pc := .append k (compute k) }
  | _ => th

def isLocalPc (th : CThread V) : Bool :=
  match th.pc with
  | .idle => true
  | .compare .. => true
  | .compute _ => true
  | _ => false

theorem set_self {α : Type} (l : List α) (i : Nat) (a : α) (h : l[i]? = some a) : l.set i a = l := by
  induction l generalizing i with
  | nil => rfl
  | cons x xs ih =>
    cases i with
    | zero => simp at h; simp [h]
    | succ j => simp at h; simp [ih j h]

theorem cstep_local (mode : Mode) (compute : Key → V) (s : CState V) (t : Nat) (th : CThread V)
    (ht : s.threads[t]? = some th) (hl : isLocalPc th = true) :
    cstep mode compute t s = { s with threads := s.threads.set t (localUpd compute th) } := by
  unfold cstep localUpd
  simp only [ht]
  cases hp : th.pc with
  | idle =>
    simp only
    cases hd : th.todo with
    | nil => simp only; rw [set_self _ _ _ ht]
    | cons k ks => rfl
  | compare k ver idx snap it =>
    simp only
    by_cases hk : it.1 = k
    · simp only [if_pos hk]
    · simp only [if_neg hk]
  | compute k => rfl
  | start k => simp [isLocalPc, hp] at hl
  | iter k ver idx snap => simp [isLocalPc, hp] at hl
  | append k v => simp [isLocalPc, hp] at hl

theorem cstep_other_slot (mode : Mode) (compute : Key → V) (s : CState V) (t u : Nat) (htu : t ≠ u) :
    (cstep mode compute u s).threads[t]? = s.threads[t]? := by
  unfold cstep
  cases hu : s.threads[u]? with
  | none => rfl
  | some th =>
    simp only
    cases hp : th.pc <;> simp only <;> (try split) <;> (try split) <;> (try split) <;>
      first | rfl | (simp only [List.getElem?_set_ne (Ne.symm htu)])

theorem cstep_overwrite (mode : Mode) (compute : Key → V) (s : CState V) (t u : Nat) (htu : t ≠ u) (x : CThread V) :
    cstep mode compute u { s with threads := s.threads.set t x }
      = { (cstep mode compute u s) with threads := (cstep mode compute u s).threads.set t x } := by
  unfold cstep
  have hget : (s.threads.set t x)[u]? = s.threads[u]? := List.getElem?_set_ne htu
  simp only [hget]
  cases hu : s.threads[u]? with
  | none => rfl
  | some th =>
    simp only
    cases hp : th.pc <;> simp only <;> (try split) <;> (try split) <;> (try split) <;>
      first | rfl | (simp only [List.set_comm _ _ htu])

theorem runSched_append {σ : Type} (step : Nat → σ → σ) (a b : List Nat) (s : σ) :
    runSched step (a ++ b) s = runSched step b (runSched step a s) := by
  unfold runSched; rw [List.foldl_append]

theorem quantum_is_fine (mode : Mode) (compute : Key → V) (t : Nat) (s : CState V) :
    (quantum mode compute t s).1 = runSched (cstep mode compute) (quantum mode compute t s).2 s := by
  unfold quantum
  simp only
  split
  · split <;> rfl
  · rfl

end SparseV.C13

/-
  SparseV.Lemmas.Rewrite — the generic shape of a coordinate-rewriting operation:
  entries ↦ (optionally sort) (filterMap rewrite entries).
-/
import SparseV.Lemmas.Assoc
import SparseV.Lemmas.Index
namespace SparseV
namespace COO
variable {α : Type}

/-- rewrite with a partial coordinate map -/
def rewrite (g : Idx → Option Idx) (es : List (Idx × α)) : List (Idx × α) :=
  es.filterMap fun e => (g e.1).map fun k => (k, e.2)

theorem mapIdx_eq_rewrite (f : Idx → Idx) (es : List (Idx × α)) :
    mapIdx f es = rewrite (fun i => some (f i)) es := mapIdx_eq_filterMap f es

theorem keys_eq_keysOf (x : COO α) : x.keys = keysOf x.entries := rfl

/-- unsorted result -/
theorem rewrite_lookup (es : List (Idx × α)) (d : α) (g : Idx → Option Idx) (h : Idx → Idx) (j : Idx)
    (hinv : ∀ e ∈ es, ∀ j', g e.1 = some j' → h j' = e.1) (hj : g (h j) = some j) :
    lookup (rewrite g es) d j = lookup es d (h j) :=
  lookup_filterMap es d g h j hinv hj

theorem rewrite_nodup (es : List (Idx × α)) (g : Idx → Option Idx) (h : Idx → Idx)
    (hinv : ∀ e ∈ es, ∀ j', g e.1 = some j' → h j' = e.1) (hnd : (keysOf es).Nodup) :
    (keysOf (rewrite g es)).Nodup := by
  apply nodup_filterMap es g _ hnd
  intro e he e' he' k hk hk'
  rw [← hinv e he k hk, ← hinv e' he' k hk']

/-- sorted result (the constructor's `_sort_indices` ran) -/
theorem rewrite_sort_lookup (shape : List Nat) (es : List (Idx × α)) (d : α) (g : Idx → Option Idx)
    (h : Idx → Idx) (j : Idx) (hnd : (keysOf es).Nodup)
    (hinv : ∀ e ∈ es, ∀ j', g e.1 = some j' → h j' = e.1) (hj : g (h j) = some j) :
    lookup (sortEntries shape (rewrite g es)) d j = lookup es d (h j) := by
  rw [lookup_sortEntries shape _ d j (rewrite_nodup es g h hinv hnd)]
  exact rewrite_lookup es d g h j hinv hj

end COO
end SparseV

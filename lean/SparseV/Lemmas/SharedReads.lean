/-
  SparseV.Lemmas.SharedReads — invariants behind the shared-dictionary and warning-filter theorems of
  Props/C13.lean: DInv (the dictionary is untouched, every iterator was created on it, what a call
  has seen so far is a prefix of what it sees alone) and WInv (no installed, saved or pending filter
  can turn a catalogued warning into an error), and their preservation by every step of every thread.
  Core Lean only.
-/
import SparseV.Model.SharedReads
import SparseV.Lemmas.Interleave
namespace SparseV.C13
open SparseV SparseV.Interleave SparseV.Shared

/-! ### the dictionary -/

theorem nextIn_none : ∀ (es : List (Option Item)) (p : Nat), nextIn es p = none → items es = []
  | [], _, _ => rfl
  | some _ :: _, _, h => by simp [nextIn] at h
  | none :: r, p, h => by
    simp only [nextIn] at h
    simpa [items] using nextIn_none r (p + 1) h

theorem nextIn_some : ∀ (es : List (Option Item)) (p : Nat) (it : Item) (p' : Nat), nextIn es p = some (it, p') →
    ∃ k, p' = p + (k + 1) ∧ items (es.take (k + 1)) = [it]
  | [], _, _, _, h => by simp [nextIn] at h
  | some x :: _, p, it, p', h => by
    simp only [nextIn, Option.some.injEq, Prod.mk.injEq] at h
    exact ⟨0, by omega, by simp [items, h.1]⟩
  | none :: r, p, it, p', h => by
    simp only [nextIn] at h
    obtain ⟨k, hk, hi⟩ := nextIn_some r (p + 1) it p' h
    exact ⟨k + 1, by omega, by simpa [items] using hi⟩

theorem items_append (a b : Dict) : items (a ++ b) = items a ++ items b := by
  simp [items, List.filterMap_append]

theorem nextFrom_none {d : Dict} {pos : Nat} (h : nextFrom d pos = none) : items (d.take pos) = items d := by
  have h1 := nextIn_none _ _ h
  have : items d = items (d.take pos) ++ items (d.drop pos) := by rw [← items_append, List.take_append_drop]
  rw [this, h1, List.append_nil]

theorem nextFrom_some {d : Dict} {pos pos' : Nat} {it : Item} (h : nextFrom d pos = some (it, pos')) :
    items (d.take pos') = items (d.take pos) ++ [it] := by
  obtain ⟨k, hk, hi⟩ := nextIn_some _ _ _ _ h
  rw [hk, List.take_add, items_append, hi]

theorem items_take_le (d : Dict) (n : Nat) : (items (d.take n)).length ≤ used d := by
  have : items d = items (d.take n) ++ items (d.drop n) := by rw [← items_append, List.take_append_drop]
  unfold used
  rw [this, List.length_append]
  omega

theorem seqSeen_snoc (d : Dict) (done : List Stmt) (st : Stmt) : seqSeen d (done ++ [st]) = seqSeen d done ++ items d := by
  simp [seqSeen, List.flatMap_append]

/-- the call in progress is consistent with running alone on `d0` up to the statement it is at -/
def FrameAt (d0 : Dict) (f : Frame) (extra : List Item) : Prop :=
  Op.isRead f.op = true ∧ ∃ done st, f.op = done ++ st :: f.rest ∧ f.seen = seqSeen d0 done ++ extra

def DPcOK (d0 : Dict) : DPc → Prop
  | .idle => True
  | .run f => Op.isRead f.op = true ∧ ∃ done, f.op = done ++ f.rest ∧ f.seen = seqSeen d0 done
  | .iter f mode u pos rem _ => mode ≠ .prune ∧ u = used d0 ∧ rem + (items (d0.take pos)).length = used d0 ∧ FrameAt d0 f (items (d0.take pos))
  | .body f u pos rem => u = used d0 ∧ rem + (items (d0.take pos)).length = used d0 ∧ FrameAt d0 f (items (d0.take pos))
  | .dels _ _ => False

def DThOK (d0 : Dict) (th : DThread) : Prop :=
  (∀ op ∈ th.todo, Op.isRead op = true) ∧ (∀ r ∈ th.rets, r.2 = .ok (seqSeen d0 r.1)) ∧ DPcOK d0 th.pc

def DInv (d0 : Dict) (s : DState) : Prop := s.dict = d0 ∧ ∀ th ∈ s.threads, DThOK d0 th

theorem isRead_mid {done rest : List Stmt} {st : Stmt} (h : Op.isRead (done ++ st :: rest) = true) : st.isRead = true := by
  simp only [Op.isRead, List.all_append, List.all_cons, Bool.and_eq_true] at h
  exact h.2.1

theorem frameAt_done {d0 : Dict} {f : Frame} {pos : Nat} (h : FrameAt d0 f (items (d0.take pos)))
    (hn : nextFrom d0 pos = none) : DPcOK d0 (.run f) := by
  obtain ⟨hr, done, st, hop, hs⟩ := h
  refine ⟨hr, done ++ [st], by rw [hop, List.append_assoc]; rfl, ?_⟩
  rw [hs, nextFrom_none hn, seqSeen_snoc]

theorem frameAt_next {d0 : Dict} {f : Frame} {pos pos' : Nat} {it : Item} (h : FrameAt d0 f (items (d0.take pos)))
    (hn : nextFrom d0 pos = some (it, pos')) : FrameAt d0 { f with seen := f.seen ++ [it] } (items (d0.take pos')) := by
  obtain ⟨hr, done, st, hop, hs⟩ := h
  refine ⟨hr, done, st, hop, ?_⟩
  simp only
  rw [hs, nextFrom_some hn, List.append_assoc]

theorem dstep_inv (d0 : Dict) (t : Nat) (s : DState) (h : DInv d0 s) : DInv d0 (dstep t s) := by
  obtain ⟨hd, hth⟩ := h
  unfold dstep
  cases ht : s.threads[t]? with
  | none => exact ⟨hd, hth⟩
  | some th =>
    have hok := hth th (List.mem_of_getElem? ht)
    obtain ⟨htodo, hrets, hpc⟩ := hok
    simp only
    cases hp : th.pc with
    | idle =>
      simp only
      cases hq : th.todo with
      | nil => exact ⟨hd, hth⟩
      | cons op ops =>
        refine ⟨hd, forall_set hth ⟨?_, hrets, ?_⟩⟩
        · intro o ho; exact htodo o (by rw [hq]; exact List.mem_cons_of_mem _ ho)
        · exact ⟨htodo op (by rw [hq]; exact List.mem_cons_self), [], rfl, rfl⟩
    | run f =>
      rw [hp] at hpc
      obtain ⟨hr, done, hop, hs⟩ := hpc
      simp only
      cases hrest : f.rest with
      | nil =>
        refine ⟨hd, forall_set hth ⟨htodo, ?_, trivial⟩⟩
        intro r hrm
        rcases List.mem_cons.mp hrm with hrm | hrm
        · rw [hrm]; simp only
          rw [hrest, List.append_nil] at hop
          rw [hs, hop]
        · exact hrets r hrm
      | cons st rest =>
        rw [hrest] at hop
        have hst : st.isRead = true := isRead_mid (hop ▸ hr)
        have hop' : f.op = (done ++ [st]) ++ rest := by rw [hop, List.append_assoc]; rfl
        cases st with
        | snapshot =>
          refine ⟨hd, forall_set hth ⟨htodo, hrets, hr, done ++ [.snapshot], hop', ?_⟩⟩
          simp only
          rw [hs, seqSeen_snoc, hd]
        | iterItems =>
          refine ⟨hd, forall_set hth ⟨htodo, hrets, by decide, by rw [hd], by simp [hd, items], hr, done, .iterItems, hop, ?_⟩⟩
          simp [hs, items]
        | scanItems =>
          refine ⟨hd, forall_set hth ⟨htodo, hrets, by decide, by rw [hd], by simp [hd, items], hr, done, .scanItems, hop, ?_⟩⟩
          simp [hs, items]
        | pruneFill => cases hst
        | setItem k v => cases hst
        | delItem k => cases hst
    | iter f mode u pos rem acc =>
      rw [hp] at hpc
      obtain ⟨hm, hu, hrem, hf⟩ := hpc
      simp only
      have hused : ¬ (used s.dict ≠ u) := by rw [hd, hu]; simp
      rw [if_neg hused, hd]
      cases hn : nextFrom d0 pos with
      | none =>
        cases mode with
        | prune => exact absurd rfl hm
        | loop => exact ⟨hd, forall_set hth ⟨htodo, hrets, frameAt_done hf hn⟩⟩
        | comp => exact ⟨hd, forall_set hth ⟨htodo, hrets, frameAt_done hf hn⟩⟩
      | some r =>
        obtain ⟨it, pos'⟩ := r
        have hlen : (items (d0.take pos')).length = (items (d0.take pos)).length + 1 := by
          rw [nextFrom_some hn, List.length_append]; rfl
        have hle := items_take_le d0 pos'
        have hrem0 : ¬ rem = 0 := by omega
        have hrem' : rem - 1 + (items (d0.take pos')).length = used d0 := by omega
        simp only
        rw [if_neg hrem0]
        cases mode with
        | prune => exact absurd rfl hm
        | loop => exact ⟨hd, forall_set hth ⟨htodo, hrets, hu, hrem', frameAt_next hf hn⟩⟩
        | comp => exact ⟨hd, forall_set hth ⟨htodo, hrets, hm, hu, hrem', frameAt_next hf hn⟩⟩
    | body f u pos rem =>
      rw [hp] at hpc
      exact ⟨hd, forall_set hth ⟨htodo, hrets, by decide, hpc.1, hpc.2.1, hpc.2.2⟩⟩
    | dels f ks =>
      rw [hp] at hpc
      exact hpc.elim

theorem dinit_inv (d0 : Dict) (progs : List (List Op)) (hp : ∀ p ∈ progs, ∀ op ∈ p, Op.isRead op = true) :
    DInv d0 (dinit d0 progs) := by
  refine ⟨rfl, ?_⟩
  intro th hth
  simp only [dinit, List.mem_map] at hth
  obtain ⟨p, hpm, rfl⟩ := hth
  exact ⟨hp p hpm, (by intro r hr; cases hr), trivial⟩

theorem derrorsOf_nil {s : DState} (h : ∀ th ∈ s.threads, ∀ r ∈ th.rets, ∃ v, r.2 = .ok v) : derrorsOf s = [] := by
  unfold derrorsOf
  rw [List.flatMap_eq_nil_iff]
  intro th hth
  rw [List.filterMap_eq_nil_iff]
  intro r hr
  obtain ⟨v, hv⟩ := h th hth r hr
  rw [hv]

/-! ### the warning filters -/

def Benign (cat : List Warn) (fs : List Filter) : Prop := ∀ f ∈ fs, harmful cat f = false

theorem benign_iff {cat : List Warn} {fs : List Filter} : benign cat fs = true ↔ Benign cat fs := by
  simp [benign, Benign]

theorem emit_ok_of_benign {cat : List Warn} {fs : List Filter} {w : Warn} (hb : Benign cat fs) (hw : w ∈ cat) :
    emit fs w = .ok () := by
  unfold emit
  cases hf : fs.find? (fun f => f.matches w) with
  | none => rfl
  | some f =>
    simp only
    have hmem := List.mem_of_find?_eq_some hf
    have hmatch : f.matches w = true := by simpa using List.find?_some hf
    by_cases ha : f.action = .error
    · have hh := hb f hmem
      have : harmful cat f = true := by
        simp only [harmful, ha, beq_self_eq_true, Bool.true_and, Bool.or_eq_true, List.any_eq_true]
        exact Or.inr ⟨w, hw, hmatch⟩
      rw [this] at hh; cases hh
    · rw [if_neg ha]

theorem benign_insertFront {cat : List Warn} {f : Filter} {fs : List Filter} (hf : harmful cat f = false) (hfs : Benign cat fs) :
    Benign cat (insertFront f fs) := by
  intro g hg
  rcases List.mem_cons.mp hg with hg | hg
  · rw [hg]; exact hf
  · exact hfs g (List.mem_of_mem_erase hg)

def WOpOK (cat : List Warn) : WOp → Prop
  | .block fs => Benign cat fs
  | .warn w => w ∈ cat

def WPcOK (cat : List Warn) : WPc → Prop
  | .idle => True
  | .enter fs => Benign cat fs
  | .install _ saved fs => Benign cat saved ∧ Benign cat fs
  | .exit _ saved => Benign cat saved
  | .emitting w => w ∈ cat

def WThOK (cat : List Warn) (th : WThread) : Prop :=
  (∀ op ∈ th.todo, WOpOK cat op) ∧ (∀ r ∈ th.rets, r.2 = .ok ()) ∧ WPcOK cat th.pc

def WInv (cat : List Warn) (s : WState) : Prop := Benign cat s.filters ∧ ∀ th ∈ s.threads, WThOK cat th

theorem wstep_inv (cat : List Warn) (t : Nat) (s : WState) (h : WInv cat s) : WInv cat (wstep t s) := by
  obtain ⟨hfl, hth⟩ := h
  unfold wstep
  cases ht : s.threads[t]? with
  | none => exact ⟨hfl, hth⟩
  | some th =>
    obtain ⟨htodo, hrets, hpc⟩ := hth th (List.mem_of_getElem? ht)
    simp only
    cases hp : th.pc with
    | idle =>
      simp only
      cases hq : th.todo with
      | nil => exact ⟨hfl, hth⟩
      | cons op ops =>
        have hop := htodo op (by rw [hq]; exact List.mem_cons_self)
        have hops : ∀ o ∈ ops, WOpOK cat o := fun o ho => htodo o (by rw [hq]; exact List.mem_cons_of_mem _ ho)
        cases op with
        | block fs => exact ⟨hfl, forall_set hth ⟨hops, hrets, hop⟩⟩
        | warn w => exact ⟨hfl, forall_set hth ⟨hops, hrets, hop⟩⟩
    | enter fs =>
      rw [hp] at hpc
      exact ⟨hfl, forall_set hth ⟨htodo, hrets, hfl, hpc⟩⟩
    | install b saved fs =>
      rw [hp] at hpc
      cases fs with
      | nil => exact ⟨hfl, forall_set hth ⟨htodo, hrets, hpc.1⟩⟩
      | cons f fs =>
        refine ⟨benign_insertFront (hpc.2 f List.mem_cons_self) hfl, forall_set hth ⟨htodo, hrets, hpc.1, ?_⟩⟩
        intro g hg; exact hpc.2 g (List.mem_cons_of_mem _ hg)
    | exit b saved =>
      rw [hp] at hpc
      refine ⟨hpc, forall_set hth ⟨htodo, ?_, trivial⟩⟩
      intro r hr
      rcases List.mem_cons.mp hr with hr | hr
      · rw [hr]
      · exact hrets r hr
    | emitting w =>
      rw [hp] at hpc
      refine ⟨hfl, forall_set hth ⟨htodo, ?_, trivial⟩⟩
      intro r hr
      rcases List.mem_cons.mp hr with hr | hr
      · rw [hr]; exact emit_ok_of_benign hfl hpc
      · exact hrets r hr

theorem winit_inv (cat : List Warn) (fs : List Filter) (hfs : Benign cat fs) (progs : List (List WOp))
    (hp : ∀ p ∈ progs, ∀ op ∈ p, WOpOK cat op) : WInv cat (winit fs progs) := by
  refine ⟨hfs, ?_⟩
  intro th hth
  simp only [winit, List.mem_map] at hth
  obtain ⟨p, hpm, rfl⟩ := hth
  exact ⟨hp p hpm, (by intro r hr; cases hr), trivial⟩

theorem werrorsOf_nil {s : WState} (h : ∀ th ∈ s.threads, ∀ r ∈ th.rets, r.2 = .ok ()) : werrorsOf s = [] := by
  unfold werrorsOf
  rw [List.flatMap_eq_nil_iff]
  intro th hth
  rw [List.filterMap_eq_nil_iff]
  intro r hr
  rw [h th hth r hr]

end SparseV.C13

/-
  SparseV.Lemmas.Index — row-major index arithmetic: `ravel`/`unravel` are mutually inverse
  bijections between in-bounds indices and `[0, prod shape)`, and `ravel` is strictly monotone for
  the lexicographic order (so "sorted by linear location" = "row-major order").
-/
import SparseV.Model.Basic
namespace SparseV

theorem InB_length : ∀ {i : Idx} {s : List Nat}, InB i s → i.length = s.length
  | [], [], _ => rfl
  | _ :: is, _ :: ds, h => by simp [InB_length (i := is) (s := ds) h.2]
  | [], _ :: _, h => absurd h (by simp [InB])
  | _ :: _, [], h => absurd h (by simp [InB])

@[simp] theorem InB_nil : InB [] [] := trivial
@[simp] theorem InB_cons (i d : Nat) (is ds : List Nat) : InB (i :: is) (d :: ds) ↔ i < d ∧ InB is ds := Iff.rfl
@[simp] theorem InB_nil_cons (d : Nat) (ds : List Nat) : ¬ InB [] (d :: ds) := fun h => h
@[simp] theorem InB_cons_nil (i : Nat) (is : List Nat) : ¬ InB (i :: is) [] := fun h => h

theorem prod_pos_of_InB : ∀ {i : Idx} {s : List Nat}, InB i s → 0 < prod s
  | [], [], _ => by simp [prod]
  | i :: is, d :: ds, h => by
    have h1 : 0 < prod ds := prod_pos_of_InB h.2
    have h2 : 0 < d := by have := h.1; omega
    simp only [prod]
    exact Nat.mul_pos h2 h1
  | [], _ :: _, h => absurd h (by simp)
  | _ :: _, [], h => absurd h (by simp)

theorem ravel_lt : ∀ {i : Idx} {s : List Nat}, InB i s → ravel i s < prod s
  | [], [], _ => by simp [ravel, prod]
  | i :: is, d :: ds, h => by
    have ih : ravel is ds < prod ds := ravel_lt h.2
    have hi : i < d := h.1
    simp only [ravel, prod]
    calc i * prod ds + ravel is ds < i * prod ds + prod ds := by omega
      _ = (i + 1) * prod ds := by rw [Nat.add_mul, Nat.one_mul]
      _ ≤ d * prod ds := Nat.mul_le_mul_right _ hi
  | [], _ :: _, h => absurd h (by simp)
  | _ :: _, [], h => absurd h (by simp)

theorem unravel_ravel : ∀ {i : Idx} {s : List Nat}, InB i s → unravel (ravel i s) s = i
  | [], [], _ => by simp [ravel, unravel]
  | i :: is, d :: ds, h => by
    have hlt : ravel is ds < prod ds := ravel_lt h.2
    have hp : 0 < prod ds := prod_pos_of_InB h.2
    simp only [ravel, unravel]
    have h1 : (i * prod ds + ravel is ds) / prod ds = i := by
      rw [Nat.add_comm, Nat.add_mul_div_right _ _ hp, Nat.div_eq_of_lt hlt, Nat.zero_add]
    have h2 : (i * prod ds + ravel is ds) % prod ds = ravel is ds := by
      rw [Nat.add_comm, Nat.add_mul_mod_self_right, Nat.mod_eq_of_lt hlt]
    rw [h1, h2, unravel_ravel h.2]
  | [], _ :: _, h => absurd h (by simp)
  | _ :: _, [], h => absurd h (by simp)

theorem unravel_InB : ∀ (s : List Nat) (n : Nat), n < prod s → InB (unravel n s) s
  | [], _, _ => by simp [unravel]
  | d :: ds, n, h => by
    simp only [prod] at h
    have hp : 0 < prod ds := by
      rcases Nat.eq_zero_or_pos (prod ds) with h0 | h0
      · rw [h0, Nat.mul_zero] at h; omega
      · exact h0
    simp only [unravel, InB_cons]
    refine ⟨?_, unravel_InB ds _ (Nat.mod_lt _ hp)⟩
    rw [Nat.div_lt_iff_lt_mul hp]
    exact h

theorem ravel_unravel : ∀ (s : List Nat) (n : Nat), n < prod s → ravel (unravel n s) s = n
  | [], n, h => by simp [prod] at h; simp [unravel, ravel, h]
  | d :: ds, n, h => by
    simp only [prod] at h
    have hp : 0 < prod ds := by
      rcases Nat.eq_zero_or_pos (prod ds) with h0 | h0
      · rw [h0, Nat.mul_zero] at h; omega
      · exact h0
    simp only [unravel, ravel]
    rw [ravel_unravel ds _ (Nat.mod_lt _ hp)]
    exact Nat.div_add_mod' n (prod ds)

/-- `ravel` is injective on in-bounds indices -/
theorem ravel_inj {i j : Idx} {s : List Nat} (hi : InB i s) (hj : InB j s)
    (h : ravel i s = ravel j s) : i = j := by
  rw [← unravel_ravel hi, ← unravel_ravel hj, h]

/-- lexicographic order on equal-rank in-bounds indices is the order of linear locations -/
theorem ravel_lt_of_lex : ∀ {i j : Idx} {s : List Nat}, InB i s → InB j s → i < j → ravel i s < ravel j s
  | [], [], [], _, _, h => absurd h (by simp)
  | a :: as, b :: bs, d :: ds, hi, hj, h => by
    have hlt_a : ravel as ds < prod ds := ravel_lt hi.2
    simp only [ravel]
    rcases List.cons_lt_cons_iff.mp h with hab | ⟨hab, hrest⟩
    · calc a * prod ds + ravel as ds < a * prod ds + prod ds := by omega
        _ = (a + 1) * prod ds := by rw [Nat.add_mul, Nat.one_mul]
        _ ≤ b * prod ds := Nat.mul_le_mul_right _ hab
        _ ≤ b * prod ds + ravel bs ds := Nat.le_add_right _ _
    · subst hab
      have := ravel_lt_of_lex hi.2 hj.2 hrest
      omega
  | [], _ :: _, [], _, hj, _ => absurd hj (by simp)
  | [], _, _ :: _, hi, _, _ => absurd hi (by simp)
  | _ :: _, _, [], hi, _, _ => absurd hi (by simp)
  | _ :: _, [], _ :: _, _, hj, _ => absurd hj (by simp)

end SparseV

/-
  SparseV.Lemmas.ProgJoin — step lemmas of the program theorem for the joins:
  concatenate and stack.
-/
import SparseV.Lemmas.ProgBase
import SparseV.Lemmas.ProgShape
import SparseV.Lemmas.Join
import SparseV.Props.C09

namespace SparseV
open SparseV.COO

/-! ### member-wise refinement -/

theorem refines_getD {xs : List (COO Int)} {ds : List Dense} (h : RefinesL xs ds) :
    ∀ (x0 : COO Int) (d0 : Dense), Refines x0 d0 → ∀ k, Refines (xs.getD k x0) (ds.getD k d0) := by
  induction h with
  | nil => intro x0 d0 h0 k; simpa using h0
  | cons hab _ ih =>
    intro x0 d0 h0 k
    cases k with
    | zero => simpa using hab
    | succ k => simpa using ih x0 d0 h0 k

theorem all_refinesL {p : COO Int → Bool} {q : Dense → Bool} (hpq : ∀ x d, Refines x d → p x = q d)
    {xs : List (COO Int)} {ds : List Dense} (h : RefinesL xs ds) : xs.all p = ds.all q := by
  induction h with
  | nil => rfl
  | cons hab _ ih => simp only [List.all_cons, hpq _ _ hab, ih]

theorem length_refinesL {xs : List (COO Int)} {ds : List Dense} (h : RefinesL xs ds) :
    xs.length = ds.length := by
  induction h with
  | nil => rfl
  | cons _ _ ih => simp only [List.length_cons, ih]

theorem exts_refinesL (ax : Nat) {xs : List (COO Int)} {ds : List Dense} (h : RefinesL xs ds) :
    exts xs ax = ds.map fun y => y.shape.getD ax 0 := by
  induction h with
  | nil => rfl
  | cons hab _ ih =>
    unfold exts at ih ⊢
    simp only [List.map_cons, hab.shape, ih]

theorem locateD_eq : ∀ (es : List Nat) (p : Nat), Expr.locateD es p = locate es p
  | [], _ => rfl
  | e :: es, p => by
    unfold Expr.locateD locate
    rw [locateD_eq es (p - e)]

theorem getD_cons_mem {β : Type} (x0 : β) (l : List β) (k : Nat) : (x0 :: l).getD k x0 ∈ x0 :: l := by
  by_cases hk : k < (x0 :: l).length
  · rw [List.getD_eq_getElem?_getD, List.getElem?_eq_getElem hk]
    exact List.getElem_mem hk
  · rw [List.getD_eq_getElem?_getD, List.getElem?_eq_none (by omega)]
    exact List.mem_cons_self

theorem forall_cons_of {β : Type} {P : β → Prop} {x0 : β} {rest : List β} (h0 : P x0) (h : ∀ y ∈ rest, P y) :
    ∀ y ∈ x0 :: rest, P y := by
  intro y hy
  rcases List.mem_cons.mp hy with h1 | h1
  · rw [h1]; exact h0
  · exact h y h1

namespace COO
variable {α : Type}

/-! ### concatenate: where the stored entries of the result come from -/

theorem concat_go_mem (axis : Nat) (ys : List (COO α)) (off : Nat) :
    ∀ e ∈ (concatCore.go axis ys off).1,
      ∃ y ∈ ys, ∃ o, ∃ e0 ∈ y.entries, e = (shiftAx axis o e0.1, e0.2) := by
  induction ys generalizing off with
  | nil => intro e he; simp [concatCore.go] at he
  | cons y ys ih =>
    intro e he
    rw [concat_go_cons] at he
    rcases List.mem_append.mp he with h | h
    · obtain ⟨e0, he0, rfl⟩ := List.mem_map.mp h
      exact ⟨y, List.mem_cons_self, off, e0, he0, rfl⟩
    · obtain ⟨z, hz, o, e0, he0, heq⟩ := ih _ e h
      exact ⟨z, List.mem_cons_of_mem _ hz, o, e0, he0, heq⟩

theorem concat_go_inb (axis : Nat) (s0 : List Nat) (hax : axis < s0.length) (ys : List (COO α)) (off tot : Nat)
    (hwf : ∀ y ∈ ys, y.WF) (hshape : ∀ y ∈ ys, y.shape.set axis 0 = s0.set axis 0)
    (htot : off + (exts ys axis).sum ≤ tot) :
    ∀ e ∈ (concatCore.go axis ys off).1, InB e.1 (s0.set axis tot) := by
  have hlen : ∀ y ∈ ys, y.shape.length = s0.length := by
    intro y hy
    have := congrArg List.length (hshape y hy)
    simpa using this
  have hrank : ∀ y ∈ ys, axis < y.shape.length := fun y hy => by rw [hlen y hy]; exact hax
  intro e he
  have hrange := (concat_go_key_range axis ys off hwf hrank e he).2
  obtain ⟨y, hy, o, e0, he0, heq⟩ := concat_go_mem axis ys off e he
  have hin := hwf y hy e0 he0
  have hin' := InB_iff_getD_j.mp hin
  rw [InB_iff_getD_j]
  subst heq
  refine ⟨?_, fun a ha => ?_⟩
  · simp only [shiftAx, List.length_set]
    rw [hin'.1, hlen y hy]
  · have ha' : a < s0.length := by simpa using ha
    by_cases haa : a = axis
    · subst haa
      rw [getD_set_eq _ _ _ ha']
      omega
    · have h1 := hin'.2 a (by rw [hlen y hy]; exact ha')
      have h2 := congrArg (fun l => List.getD l a 0) (hshape y hy)
      simp only [getD_set_ne _ _ _ _ (Ne.symm haa)] at h2
      simp only [shiftAx]
      rw [getD_set_ne _ _ _ _ (Ne.symm haa), getD_set_ne _ _ _ _ (Ne.symm haa)]
      omega

theorem concatCore_mem_entries (x0 : COO α) (rest : List (COO α)) (axis : Nat) (e : Idx × α)
    (he : e ∈ (concatCore x0 rest axis).entries) : e ∈ (concatCore.go axis (x0 :: rest) 0).1 := by
  simp only [concatCore] at he
  split at he
  · exact he
  · exact mem_sortEntries.mp he

/-! ### stack: where the stored entries of the result come from, and the `axis = 0` order promise -/

theorem stackGo_mem (axis : Nat) (ys : List (COO α)) (s : Nat) :
    ∀ e ∈ stackGo axis s ys,
      ∃ y ∈ ys, ∃ k, ∃ e0 ∈ y.entries, e = (insertAt e0.1 axis k, e0.2) ∧ s ≤ k ∧ k < s + ys.length := by
  induction ys generalizing s with
  | nil => intro e he; simp [stackGo] at he
  | cons y ys ih =>
    intro e he
    rw [stackGo_cons] at he
    rcases List.mem_append.mp he with h | h
    · obtain ⟨e0, he0, rfl⟩ := List.mem_map.mp h
      exact ⟨y, List.mem_cons_self, s, e0, he0, rfl, Nat.le_refl _, by simp⟩
    · obtain ⟨z, hz, k, e0, he0, heq, h1, h2⟩ := ih _ e h
      exact ⟨z, List.mem_cons_of_mem _ hz, k, e0, he0, heq, by omega,
        by simp only [List.length_cons]; omega⟩

theorem stackCore_entries (x0 : COO α) (rest : List (COO α)) (axis : Nat) :
    (stackCore x0 rest axis).entries = if axis = 0 then stackGo axis 0 (x0 :: rest)
      else sortEntries (stackCore x0 rest axis).shape (stackGo axis 0 (x0 :: rest)) := by
  simp only [stackCore]
  rw [stackGo, List.range_eq_range']

theorem stackCore_mem_entries (x0 : COO α) (rest : List (COO α)) (axis : Nat) (e : Idx × α)
    (he : e ∈ (stackCore x0 rest axis).entries) : e ∈ stackGo axis 0 (x0 :: rest) := by
  rw [stackCore_entries] at he
  split at he
  · exact he
  · exact mem_sortEntries.mp he

theorem lin_stack0 (y : COO α) (s : List Nat) (hs : y.shape = s) (tot k : Nat) :
    lin (tot :: s) (mapIdx (fun i => insertAt i 0 k) y.entries)
      = (lin y.shape y.entries).map (· + k * prod s) := by
  unfold lin mapIdx
  rw [List.map_map, List.map_map]
  apply List.map_congr_left
  intro e _
  simp only [Function.comp, insertAt_zero, ravel, hs]
  exact Nat.add_comm _ _

theorem stackGo_sorted0 (s : List Nat) (tot : Nat) (ys : List (COO α)) (k : Nat)
    (hwf : ∀ y ∈ ys, y.WF) (hshape : ∀ y ∈ ys, y.shape = s)
    (hs : ∀ y ∈ ys, SortedLin y.shape y.entries) :
    SortedLin (tot :: s) (stackGo 0 k ys) ∧
    ∀ n ∈ lin (tot :: s) (stackGo 0 k ys), k * prod s ≤ n := by
  induction ys generalizing k with
  | nil => simp [stackGo, SortedLin, lin]
  | cons y ys ih =>
    have hy := hshape y List.mem_cons_self
    have hwfy := hwf y List.mem_cons_self
    obtain ⟨ih1, ih2⟩ := ih (k + 1) (fun z hz => hwf z (List.mem_cons_of_mem _ hz))
      (fun z hz => hshape z (List.mem_cons_of_mem _ hz)) (fun z hz => hs z (List.mem_cons_of_mem _ hz))
    have hlt : ∀ n ∈ lin y.shape y.entries, n < prod s := by
      intro n hn
      obtain ⟨e, he, rfl⟩ := List.mem_map.mp hn
      have := ravel_lt (hwfy e he)
      rw [hy] at this ⊢
      exact this
    rw [stackGo_cons]
    unfold SortedLin at *
    have happ : lin (tot :: s) (mapIdx (fun i => insertAt i 0 k) y.entries ++ stackGo 0 (k + 1) ys)
        = (lin y.shape y.entries).map (· + k * prod s) ++ lin (tot :: s) (stackGo 0 (k + 1) ys) := by
      rw [← lin_stack0 y s hy tot k]
      simp [lin]
    rw [happ]
    constructor
    · rw [List.pairwise_append]
      refine ⟨?_, ih1, ?_⟩
      · rw [List.pairwise_map]
        exact (hs y List.mem_cons_self).imp (fun h => by omega)
      · intro a ha b hb
        obtain ⟨a0, ha0, rfl⟩ := List.mem_map.mp ha
        have h1 := hlt a0 ha0
        have h2 := ih2 b hb
        rw [Nat.add_mul] at h2
        omega
    · intro n hn
      rcases List.mem_append.mp hn with h | h
      · obtain ⟨a0, _, rfl⟩ := List.mem_map.mp h
        omega
      · have := ih2 n h
        rw [Nat.add_mul] at this
        omega

end COO

/-! ### concatenate -/

theorem concat_step (x0 : COO Int) (rest : List (COO Int)) (d0 : Dense) (drest : List Dense) (axis : Int)
    (hg : ∀ y ∈ x0 :: rest, Good y) (hr0 : Refines x0 d0) (hrr : RefinesL rest drest) :
    Sim (∀ y ∈ x0 :: rest, y.NoFill) (Expr.mConcat x0 rest axis) (Expr.sConcat d0 drest axis) := by
  have hall : RefinesL (x0 :: rest) (d0 :: drest) := RefinesL.cons hr0 hrr
  have hsf : Expr.sameFill x0 rest = Expr.sameFillD d0 drest := by
    unfold Expr.sameFill Expr.sameFillD
    exact all_refinesL (fun x d h => by rw [h.fill, hr0.fill]) hrr
  have htf : ¬ (true = false) := by decide
  unfold Expr.mConcat Expr.sConcat
  rw [← hsf, normAxis_eq_npAxis, ← hr0.shape]
  cases hsf' : Expr.sameFill x0 rest with
  | false => rw [if_pos rfl, if_pos rfl]; exact Sim.err _
  | true =>
    rw [if_neg htf, if_neg htf]
    cases hax : npAxis axis x0.shape.length with
    | error e => exact Sim.err e
    | ok ax =>
      simp only []
      have hsb : (rest.all fun y => y.shape.set ax 0 == x0.shape.set ax 0)
          = (drest.all fun y => y.shape.set ax 0 == x0.shape.set ax 0) :=
        all_refinesL (fun x d h => by rw [h.shape]) hrr
      rw [← hsb]
      cases hsb' : (rest.all fun y => y.shape.set ax 0 == x0.shape.set ax 0) with
      | false => rw [if_pos rfl, if_pos rfl]; exact Sim.err _
      | true =>
        rw [if_neg htf, if_neg htf]
        have haxlt : ax < x0.shape.length := npAxis_lt hax
        have hfill : ∀ y ∈ rest, y.fill = x0.fill := by
          intro y hy
          unfold Expr.sameFill at hsf'
          have := List.all_eq_true.mp hsf' y hy
          simpa using this
        have hshape : ∀ y ∈ rest, y.shape.set ax 0 = x0.shape.set ax 0 := by
          intro y hy
          have := List.all_eq_true.mp hsb' y hy
          simpa using this
        have hshape' : ∀ y ∈ x0 :: rest, y.shape.set ax 0 = x0.shape.set ax 0 := forall_cons_of rfl hshape
        have hfill' : ∀ y ∈ x0 :: rest, y.fill = x0.fill := forall_cons_of rfl hfill
        have hwf : ∀ y ∈ x0 :: rest, y.WF := fun y hy => (hg y hy).wf
        have hnd : ∀ y ∈ x0 :: rest, (keysOf y.entries).Nodup := fun y hy => (hg y hy).nodup
        have hrank : ∀ y ∈ x0 :: rest, ax < y.shape.length := by
          intro y hy
          have := congrArg List.length (hshape' y hy)
          simp only [List.length_set] at this
          omega
        obtain ⟨hsh, hfl, hget⟩ := C09.concat_get x0 rest ax hwf hnd haxlt hshape hfill
        have hwfr : (concatCore x0 rest ax).WF := by
          intro e he
          rw [hsh]
          exact concat_go_inb ax x0.shape haxlt (x0 :: rest) 0 _ hwf hshape' (by omega) e
            (concatCore_mem_entries x0 rest ax e he)
        have hexts : ((d0 :: drest).map fun y => y.shape.getD ax 0) = exts (x0 :: rest) ax :=
          (exts_refinesL ax hall).symm
        refine Sim.ok ⟨hwfr, ?_⟩ ?_ ⟨?_, ?_, ?_⟩
        · -- sorted
          by_cases h0 : ax = 0
          · subst h0
            exact C09.concat_axis0_sorted x0 rest hwf haxlt hshape (fun y hy => (hg y hy).sorted)
          · have hent : (concatCore x0 rest ax).entries
                = sortEntries (concatCore x0 rest ax).shape (concatCore.go ax (x0 :: rest) 0).1 := by
              simp only [concatCore, h0, if_false]
            rw [hent]
            refine sortedLin_of_le_nodup _ _ (sortEntries_sortedLe _ _)
              (nodup_sortEntries _ _ (concat_go_nodup ax (x0 :: rest) 0 hwf hrank hnd)) ?_
            intro e he
            rw [← hent] at he
            exact hwfr e he
        · -- no fill value stored
          intro hnf e he
          obtain ⟨y, hy, o, e0, he0, heq⟩ := concat_go_mem ax (x0 :: rest) 0 e
            (concatCore_mem_entries x0 rest ax e he)
          rw [hfl, heq, ← hfill' y hy]
          exact hnf y hy e0 he0
        · rw [hsh]
          show _ = d0.shape.set ax ((d0 :: drest).map fun y => y.shape.getD ax 0).sum
          rw [hexts, hr0.shape]
        · rw [hfl]; exact hr0.fill
        · intro j hj
          rw [hsh] at hj
          obtain ⟨_, hin, hgj⟩ := hget j hj
          rw [hgj]
          show _ = ((d0 :: drest).getD (Expr.locateD ((d0 :: drest).map fun y => y.shape.getD ax 0) (j.getD ax 0)).1 d0).val
            (j.set ax (Expr.locateD ((d0 :: drest).map fun y => y.shape.getD ax 0) (j.getD ax 0)).2)
          rw [hexts, locateD_eq]
          exact (refines_getD hall x0 d0 hr0 _).val _ hin

/-! ### stack -/

theorem stack_step (x0 : COO Int) (rest : List (COO Int)) (d0 : Dense) (drest : List Dense) (axis : Int)
    (hg : ∀ y ∈ x0 :: rest, Good y) (hr0 : Refines x0 d0) (hrr : RefinesL rest drest) :
    Sim (∀ y ∈ x0 :: rest, y.NoFill) (Expr.mStack x0 rest axis) (Expr.sStack d0 drest axis) := by
  have hall : RefinesL (x0 :: rest) (d0 :: drest) := RefinesL.cons hr0 hrr
  have hsf : Expr.sameFill x0 rest = Expr.sameFillD d0 drest := by
    unfold Expr.sameFill Expr.sameFillD
    exact all_refinesL (fun x d h => by rw [h.fill, hr0.fill]) hrr
  have htf : ¬ (true = false) := by decide
  unfold Expr.mStack Expr.sStack
  rw [← hsf, normAxis_eq_npAxis, ← hr0.shape]
  cases hsf' : Expr.sameFill x0 rest with
  | false => rw [if_pos rfl, if_pos rfl]; exact Sim.err _
  | true =>
    rw [if_neg htf, if_neg htf]
    have hsb : (rest.all fun y => y.shape == x0.shape) = (drest.all fun y => y.shape == x0.shape) :=
      all_refinesL (fun x d h => by rw [h.shape]) hrr
    rw [← hsb]
    cases hsb' : (rest.all fun y => y.shape == x0.shape) with
    | false => rw [if_pos rfl, if_pos rfl]; exact Sim.err _
    | true =>
      rw [if_neg htf, if_neg htf]
      cases hax : npAxis axis (x0.shape.length + 1) with
      | error e => exact Sim.err e
      | ok ax =>
        simp only []
        have haxle : ax ≤ x0.shape.length := by have := npAxis_lt hax; omega
        have hfill : ∀ y ∈ rest, y.fill = x0.fill := by
          intro y hy
          unfold Expr.sameFill at hsf'
          have := List.all_eq_true.mp hsf' y hy
          simpa using this
        have hshape : ∀ y ∈ rest, y.shape = x0.shape := by
          intro y hy
          have := List.all_eq_true.mp hsb' y hy
          simpa using this
        have hshape' : ∀ y ∈ x0 :: rest, y.shape = x0.shape := forall_cons_of rfl hshape
        have hfill' : ∀ y ∈ x0 :: rest, y.fill = x0.fill := forall_cons_of rfl hfill
        have hwf : ∀ y ∈ x0 :: rest, y.WF := fun y hy => (hg y hy).wf
        have hnd : ∀ y ∈ x0 :: rest, (keysOf y.entries).Nodup := fun y hy => (hg y hy).nodup
        have hlen : ∀ y ∈ x0 :: rest, ∀ e ∈ y.entries, ax ≤ e.1.length := by
          intro y hy e he
          rw [InB_length (hwf y hy e he), hshape' y hy]
          exact haxle
        obtain ⟨hsh, hfl, hget⟩ := C09.stack_get x0 rest ax hwf hnd haxle hshape hfill
        have hwfr : (stackCore x0 rest ax).WF := by
          intro e he
          obtain ⟨y, hy, k, e0, he0, heq, _, hk⟩ := stackGo_mem ax (x0 :: rest) 0 e
            (stackCore_mem_entries x0 rest ax e he)
          rw [hsh, heq]
          refine (InB_insertAt_j e0.1 x0.shape ax k _ haxle).mpr ⟨?_, ?_⟩
          · simp only [List.length_cons] at hk; omega
          · rw [← hshape' y hy]; exact hwf y hy e0 he0
        refine Sim.ok ⟨hwfr, ?_⟩ ?_ ⟨?_, ?_, ?_⟩
        · -- sorted
          by_cases h0 : ax = 0
          · subst h0
            rw [stackCore_entries, if_pos rfl, hsh, insertAt_zero]
            exact (stackGo_sorted0 x0.shape _ (x0 :: rest) 0 hwf hshape' (fun y hy => (hg y hy).sorted)).1
          · have hent := stackCore_entries x0 rest ax
            rw [if_neg h0] at hent
            rw [hent]
            refine sortedLin_of_le_nodup _ _ (sortEntries_sortedLe _ _)
              (nodup_sortEntries _ _ (stackGo_nodup ax (x0 :: rest) 0 hlen hnd)) ?_
            intro e he
            rw [← hent] at he
            exact hwfr e he
        · -- no fill value stored
          intro hnf e he
          obtain ⟨y, hy, k, e0, he0, heq, _, _⟩ := stackGo_mem ax (x0 :: rest) 0 e
            (stackCore_mem_entries x0 rest ax e he)
          rw [hfl, heq, ← hfill' y hy]
          exact hnf y hy e0 he0
        · rw [hsh, length_refinesL hrr]
        · rw [hfl]; exact hr0.fill
        · intro j hj
          rw [hsh] at hj
          obtain ⟨hform, hlt, hin⟩ := C09.stack_index_form x0.shape ax (rest.length + 1) haxle j hj
          have hgj := (hget (j.getD ax 0) (j.eraseIdx ax) hlt hin).2
          rw [← hform] at hgj
          rw [hgj]
          show _ = ((d0 :: drest).getD (j.getD ax 0) d0).val (j.eraseIdx ax)
          refine (refines_getD hall x0 d0 hr0 _).val _ ?_
          rw [hshape' _ (getD_cons_mem x0 rest _)]
          exact hin

end SparseV

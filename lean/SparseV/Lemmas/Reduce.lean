/-
  SparseV.Lemmas.Reduce — helper lemmas for reductions: what `groupRuns` computes on a list
  sorted by row, strictly increasing lists of naturals in an interval (counting), sums over a row
  with one stored cell changed, and the row reduction of a canonical 2-D array.
-/
import SparseV.Lemmas.Join
import SparseV.Model.Reduce
import SparseV.Model.Gcxs
import SparseV.Props.C08
namespace SparseV

/-! ### `groupRuns` -/

/-- the values stored for row `r`, in storage order -/
def rowVals (l : List (Nat × Int)) (r : Nat) : List Int := (l.filter fun p => p.1 = r).map (·.2)

/-- left fold of a non-empty list starting from its head (`ufunc.reduceat` on one segment) -/
def foldl1 (op : Int → Int → Int) : List Int → Int
  | [] => 0
  | v :: vs => vs.foldl op v

theorem rowVals_cons_eq (r : Nat) (v : Int) (l : List (Nat × Int)) : rowVals ((r, v) :: l) r = v :: rowVals l r := by
  simp [rowVals]

theorem rowVals_cons_ne (r r' : Nat) (v : Int) (l : List (Nat × Int)) (h : r' ≠ r) :
    rowVals ((r', v) :: l) r = rowVals l r := by
  simp [rowVals, h]

theorem rowVals_eq_nil {l : List (Nat × Int)} {r : Nat} (h : r ∉ l.map (·.1)) : rowVals l r = [] := by
  simp only [rowVals, List.map_eq_nil_iff, List.filter_eq_nil_iff]
  intro p hp hc
  apply h
  simp only [decide_eq_true_eq] at hc
  exact List.mem_map.mpr ⟨p, hp, hc⟩

theorem rowVals_ne_nil {l : List (Nat × Int)} {r : Nat} (h : r ∈ l.map (·.1)) : rowVals l r ≠ [] := by
  obtain ⟨p, hp, rfl⟩ := List.mem_map.mp h
  intro hc
  simp only [rowVals, List.map_eq_nil_iff, List.filter_eq_nil_iff] at hc
  exact hc p hp (by simp)

/-- the invariant of `groupRunsAux`: the pending run `(r, acc, n)` absorbs the remaining values of
row `r`; every later row gets the left fold of its own values and their count -/
theorem groupRunsAux_spec (op : Int → Int → Int) : ∀ (rest : List (Nat × Int)) (r : Nat) (acc : Int) (n : Nat),
    (rest.map (·.1)).Pairwise (· ≤ ·) → (∀ p ∈ rest, r ≤ p.1) →
    ((groupRunsAux op (r, acc, n) rest).map (·.1)).Pairwise (· < ·) ∧
    (∀ g ∈ groupRunsAux op (r, acc, n) rest, r ≤ g.1) ∧
    (∀ r', r' ∈ (groupRunsAux op (r, acc, n) rest).map (·.1) ↔ r' = r ∨ r' ∈ rest.map (·.1)) ∧
    ∀ g ∈ groupRunsAux op (r, acc, n) rest,
      (g.1 = r → g.2.1 = (rowVals rest r).foldl op acc ∧ g.2.2 = n + (rowVals rest r).length) ∧
      (g.1 ≠ r → g.2.1 = foldl1 op (rowVals rest g.1) ∧ g.2.2 = (rowVals rest g.1).length)
  | [], r, acc, n, _, _ => by simp [groupRunsAux, rowVals]
  | (r', v) :: rest, r, acc, n, hs, hge => by
    simp only [List.map_cons, List.pairwise_cons] at hs
    have hge' : ∀ p ∈ rest, r' ≤ p.1 := fun p hp => hs.1 _ (List.mem_map.mpr ⟨p, hp, rfl⟩)
    by_cases hr : r = r'
    · subst hr
      have ih := groupRunsAux_spec op rest r (op acc v) (n + 1) hs.2 hge'
      simp only [groupRunsAux, if_true]
      obtain ⟨i1, i2, i3, i4⟩ := ih
      refine ⟨i1, i2, ?_, ?_⟩
      · intro r''
        rw [i3 r'']
        simp only [List.map_cons, List.mem_cons]
        constructor
        · rintro (h | h)
          · exact Or.inl h
          · exact Or.inr (Or.inr h)
        · rintro (h | h | h)
          · exact Or.inl h
          · exact Or.inl h
          · exact Or.inr h
      · intro g hg
        obtain ⟨j1, j2⟩ := i4 g hg
        constructor
        · intro h
          rw [rowVals_cons_eq, List.foldl_cons, List.length_cons]
          have := j1 h
          exact ⟨this.1, by omega⟩
        · intro h
          rw [rowVals_cons_ne _ _ _ _ (Ne.symm h)]
          exact j2 h
    · have hlt : r < r' := by
        have := hge (r', v) List.mem_cons_self
        simp only at this
        omega
      have ih := groupRunsAux_spec op rest r' v 1 hs.2 hge'
      simp only [groupRunsAux, hr, if_false]
      obtain ⟨i1, i2, i3, i4⟩ := ih
      have hnone : r ∉ ((r', v) :: rest).map (·.1) := by
        simp only [List.map_cons, List.mem_cons, not_or]
        refine ⟨hr, fun hm => ?_⟩
        have := hs.1 r hm
        omega
      refine ⟨?_, ?_, ?_, ?_⟩
      · simp only [List.map_cons, List.pairwise_cons]
        refine ⟨fun x hx => ?_, i1⟩
        obtain ⟨g, hg, rfl⟩ := List.mem_map.mp hx
        have := i2 g hg
        omega
      · intro g hg
        rcases List.mem_cons.mp hg with h | h
        · rw [h]; exact Nat.le_refl _
        · have := i2 g h; omega
      · intro r''
        simp only [List.map_cons, List.mem_cons]
        rw [i3 r'']
      · intro g hg
        rcases List.mem_cons.mp hg with h | h
        · subst h
          refine ⟨fun _ => ?_, fun h => absurd rfl h⟩
          simp [rowVals_eq_nil hnone]
        · have hgr : g.1 ≠ r := by have := i2 g h; omega
          refine ⟨fun h' => absurd h' hgr, fun _ => ?_⟩
          obtain ⟨j1, j2⟩ := i4 g h
          by_cases hg' : g.1 = r'
          · have := j1 hg'
            rw [hg', rowVals_cons_eq]
            simp only [foldl1, List.length_cons]
            exact ⟨this.1, by omega⟩
          · rw [rowVals_cons_ne _ _ _ _ (Ne.symm hg')]
            exact j2 hg'

/-! ### strictly increasing lists of naturals in an interval -/

theorem strictInc_length_le : ∀ (l : List Nat) (lo hi : Nat), l.Pairwise (· < ·) →
    (∀ x ∈ l, lo ≤ x ∧ x < hi) → l.length ≤ hi - lo
  | [], _, _, _, _ => Nat.zero_le _
  | x :: l, lo, hi, hp, hb => by
    simp only [List.pairwise_cons] at hp
    have hx := hb x List.mem_cons_self
    have := strictInc_length_le l (x + 1) hi hp.2 (fun y hy => ⟨hp.1 y hy, (hb y (List.mem_cons_of_mem _ hy)).2⟩)
    simp only [List.length_cons]
    omega

/-- a strictly increasing list that fills the interval's size contains every point of it -/
theorem strictInc_full : ∀ (l : List Nat) (lo hi : Nat), l.Pairwise (· < ·) →
    (∀ x ∈ l, lo ≤ x ∧ x < hi) → l.length = hi - lo → ∀ c, lo ≤ c → c < hi → c ∈ l
  | [], lo, hi, _, _, hl, c, h1, h2 => by simp at hl; omega
  | x :: l, lo, hi, hp, hb, hl, c, h1, h2 => by
    simp only [List.pairwise_cons] at hp
    have hx := hb x List.mem_cons_self
    have hb' : ∀ y ∈ l, x + 1 ≤ y ∧ y < hi := fun y hy => ⟨hp.1 y hy, (hb y (List.mem_cons_of_mem _ hy)).2⟩
    have hle := strictInc_length_le l (x + 1) hi hp.2 hb'
    simp only [List.length_cons] at hl
    have hxlo : x = lo := by omega
    by_cases hc : c = x
    · rw [hc]; exact List.mem_cons_self
    · exact List.mem_cons_of_mem _ (strictInc_full l (x + 1) hi hp.2 hb' (by omega) c (by omega) h2)

/-- a strictly increasing list shorter than the interval misses a point of it -/
theorem strictInc_covers_length : ∀ (l : List Nat) (lo hi : Nat), l.Pairwise (· < ·) →
    (∀ x ∈ l, lo ≤ x ∧ x < hi) → (∀ c, lo ≤ c → c < hi → c ∈ l) → hi - lo ≤ l.length
  | [], lo, hi, _, _, hc => by
    rcases Nat.lt_or_ge lo hi with h | h
    · have := hc lo (Nat.le_refl _) h; simp at this
    · omega
  | x :: l, lo, hi, hp, hb, hc => by
    simp only [List.pairwise_cons] at hp
    rcases Nat.lt_or_ge lo hi with h | h
    · have hx := hb x List.mem_cons_self
      have hxlo : x = lo := by
        rcases List.mem_cons.mp (hc lo (Nat.le_refl _) h) with h' | h'
        · exact h'.symm
        · have := hp.1 lo h'; omega
      have := strictInc_covers_length l (x + 1) hi hp.2
        (fun y hy => ⟨hp.1 y hy, (hb y (List.mem_cons_of_mem _ hy)).2⟩)
        (fun c h1 h2 => by
          rcases List.mem_cons.mp (hc c (by omega) h2) with h' | h'
          · omega
          · exact h')
      simp only [List.length_cons]
      omega
    · omega

theorem strictInc_missing (l : List Nat) (lo hi : Nat) (hp : l.Pairwise (· < ·))
    (hb : ∀ x ∈ l, lo ≤ x ∧ x < hi) (hl : l.length < hi - lo) : ∃ c, lo ≤ c ∧ c < hi ∧ c ∉ l := by
  apply Classical.byContradiction
  intro hne
  have : ∀ c, lo ≤ c → c < hi → c ∈ l := by
    intro c h1 h2
    apply Classical.byContradiction
    intro hc
    exact hne ⟨c, h1, h2, hc⟩
  have := strictInc_covers_length l lo hi hp hb this
  omega

/-! ### sums with one point changed -/

theorem sum_map_update (f : Nat → Int) (c : Nat) (v : Int) : ∀ (l : List Nat), l.Nodup → c ∈ l →
    (l.map fun c' => if c = c' then v else f c').sum = (l.map f).sum - f c + v
  | [], _, h => by simp at h
  | x :: l, hnd, hm => by
    simp only [List.nodup_cons] at hnd
    simp only [List.map_cons, List.sum_cons]
    by_cases hx : c = x
    · subst hx
      have : (l.map fun c' => if c = c' then v else f c') = l.map f := by
        apply List.map_congr_left
        intro a ha
        have : c ≠ a := fun h => hnd.1 (h ▸ ha)
        simp [this]
      rw [this]
      simp
      omega
    · have hm' : c ∈ l := by
        rcases List.mem_cons.mp hm with h | h
        · exact absurd h hx
        · exact h
      rw [sum_map_update f c v l hnd.2 hm']
      simp [hx]
      omega

theorem foldl_add_eq_sum (l : List Int) (a : Int) : l.foldl (· + ·) a = a + l.sum := by
  induction l generalizing a with
  | nil => simp
  | cons x l ih => rw [List.foldl_cons, ih, List.sum_cons]; omega

theorem foldl1_add_eq_sum (l : List Int) : foldl1 (· + ·) l = l.sum := by
  cases l with
  | nil => rfl
  | cons x l => simp only [foldl1, foldl_add_eq_sum, List.sum_cons]

theorem groupRuns_spec_aux (op : Int → Int → Int) (l : List (Nat × Int)) (hs : (l.map (·.1)).Pairwise (· ≤ ·)) :
    ((groupRuns op l).map (·.1)).Pairwise (· < ·) ∧
    (∀ r, r ∈ (groupRuns op l).map (·.1) ↔ r ∈ l.map (·.1)) ∧
    ∀ g ∈ groupRuns op l, g.2.1 = foldl1 op (rowVals l g.1) ∧ g.2.2 = (rowVals l g.1).length := by
  match l, hs with
  | [], _ => simp [groupRuns]
  | (r, v) :: rest, hs =>
    simp only [List.map_cons, List.pairwise_cons] at hs
    obtain ⟨i1, _, i3, i4⟩ := groupRunsAux_spec op rest r v 1 hs.2
      (fun p hp => hs.1 _ (List.mem_map.mpr ⟨p, hp, rfl⟩))
    simp only [groupRuns]
    refine ⟨i1, ?_, ?_⟩
    · intro r'
      rw [i3 r']
      simp
    · intro g hg
      obtain ⟨j1, j2⟩ := i4 g hg
      by_cases h : g.1 = r
      · have := j1 h
        rw [h, rowVals_cons_eq]
        simp only [foldl1, List.length_cons]
        exact ⟨this.1, by omega⟩
      · rw [rowVals_cons_ne _ _ _ _ (Ne.symm h)]
        exact j2 h


namespace COO

/-- the row reduction `reduceCore` performs on the 2-D array `a` (`fill` = fill value of the operand):
runs of equal row number, correction for the unstored cells, new fill value, prune -/
def rowReduce (op : RedOp) (a : COO Int) (fill : Int) : COO Int :=
  let nCols := a.shape.getD 1 0
  let runs := groupRuns op.ap (a.entries.map fun e => (e.1.getD 0 0, e.2))
  let (data, fill') : List (Nat × Int) × Int :=
    match op.super? with
    | none => (runs.map fun (r, v, n) => (r, if n ≠ nCols then op.ap v fill else v), fill)
    | some sup => (runs.map fun (r, v, n) => (r, op.ap v (sup fill (nCols - n))), sup fill nCols)
  COO.build [a.shape.getD 0 0] (data.map fun (r, v) => ([r], v)) fill' true false true

/-- `reduceCore` is: admissibility test, empty-reduced-axis test (no super ufunc and a reduced extent
of 0: `ValueError`), transpose + reshape to 2-D, `rowReduce`, reshape back -/
theorem reduceCore_eq (op : RedOp) (x : COO Int) (axes : Option (List Nat)) (keepdims : Bool) :
    reduceCore op x axes keepdims =
      if op.ap x.fill x.fill ≠ x.fill ∧ op.super?.isNone then .error .value else
      let nd := x.shape.length
      let axes := match axes with | none => List.range nd | some a => a
      if op.super?.isNone ∧ axes.any (fun a => x.shape.getD a 0 == 0) then .error .value else
      let kept := (List.range nd).filter fun a => !axes.contains a
      let a := (x.transposeCore (kept ++ axes)).reshapeCore
        [prod (kept.map fun d => x.shape.getD d 0), prod (axes.map fun d => x.shape.getD d 0)]
      let out := (rowReduce op a x.fill).reshapeCore (kept.map fun d => x.shape.getD d 0)
      let out := if keepdims then
          out.reshapeCore ((List.range nd).map fun d => if axes.contains d then 1 else x.shape.getD d 0)
        else out
      if out.shape.length = 0 then
        .ok (.scalar (match out.entries with | e :: _ => e.2 | [] => out.fill))
      else .ok (.arr out) := by
  unfold reduceCore
  by_cases h : op.ap x.fill x.fill ≠ x.fill ∧ op.super?.isNone
  · simp only [if_pos h]; rfl
  · cases axes with
    | none =>
      dsimp only
      by_cases h2 : op.super?.isNone ∧ (List.range x.shape.length).any (fun a => x.shape.getD a 0 == 0)
      · simp only [if_neg h, if_pos h2]; rfl
      · simp only [if_neg h, if_neg h2]; rfl
    | some axes =>
      dsimp only
      by_cases h2 : op.super?.isNone ∧ axes.any (fun a => x.shape.getD a 0 == 0)
      · simp only [if_neg h, if_pos h2]; rfl
      · simp only [if_neg h, if_neg h2]; rfl

/-- a positive product of the gathered extents: none of them is 0 -/
theorem any_zero_false_of_prod_pos (s : List Nat) : ∀ (axes : List Nat), 0 < prod (gather s axes) →
    axes.any (fun a => s.getD a 0 == 0) = false
  | [], _ => rfl
  | a :: axes, h => by
    simp only [gather, List.map_cons, prod] at h
    have h1 : 0 < s.getD a 0 := Nat.pos_of_mul_pos_right h
    have h2 : 0 < prod (gather s axes) := Nat.pos_of_mul_pos_left h
    simp only [List.any_cons, any_zero_false_of_prod_pos s axes h2, Bool.or_false, beq_eq_false_iff_ne]
    omega


/-- (row, value) pairs of the stored entries, in storage order -/
def rowList (es : List (Idx × Int)) : List (Nat × Int) := es.map fun e => (e.1.getD 0 0, e.2)

theorem InB2 {k : Idx} {R C : Nat} (h : InB k [R, C]) : ∃ r c, k = [r, c] ∧ r < R ∧ c < C := by
  match k, h with
  | [r, c], h => exact ⟨r, c, rfl, h.1, h.2.1⟩

theorem ravel2 (r c R C : Nat) : ravel [r, c] [R, C] = r * C + c := by simp [ravel, prod]

/-- canonical order of a 2-D array: the row numbers are non-decreasing -/
theorem rowList_sorted (es : List (Idx × Int)) (R C : Nat) (hwf : ∀ e ∈ es, InB e.1 [R, C])
    (hs : SortedLin [R, C] es) : ((rowList es).map (·.1)).Pairwise (· ≤ ·) := by
  unfold SortedLin lin at hs
  rw [List.pairwise_map] at hs
  unfold rowList
  rw [List.map_map, List.pairwise_map]
  refine hs.imp_of_mem ?_
  intro e e' he he' hlt
  obtain ⟨r, c, hk, _, hc⟩ := InB2 (hwf e he)
  obtain ⟨r', c', hk', _, hc'⟩ := InB2 (hwf e' he')
  simp only [Function.comp, hk, hk', ravel2, List.getD_cons_zero] at hlt ⊢
  apply Classical.byContradiction
  intro hn
  have h1 : (r' + 1) * C ≤ r * C := Nat.mul_le_mul_right _ (by omega)
  rw [Nat.add_mul] at h1
  omega

/-- … and within a row the column numbers are strictly increasing -/
theorem rowCols_sorted (es : List (Idx × Int)) (R C : Nat) (hwf : ∀ e ∈ es, InB e.1 [R, C])
    (hs : SortedLin [R, C] es) (i : Nat) :
    (((es.filter fun e => e.1.getD 0 0 = i).map fun e => e.1.getD 1 0)).Pairwise (· < ·) := by
  unfold SortedLin lin at hs
  rw [List.pairwise_map] at hs
  rw [List.pairwise_map]
  refine (hs.filter _).imp_of_mem ?_
  intro e e' he he' hlt
  obtain ⟨hee, hi⟩ := List.mem_filter.mp he
  obtain ⟨hee', hi'⟩ := List.mem_filter.mp he'
  obtain ⟨r, c, hk, _, hc⟩ := InB2 (hwf e hee)
  obtain ⟨r', c', hk', _, hc'⟩ := InB2 (hwf e' hee')
  simp only [hk, hk', ravel2, List.getD_cons_zero, List.getD_cons_succ, decide_eq_true_eq] at hlt hi hi' ⊢
  subst hi hi'
  omega

theorem rowVals_rowList_length (es : List (Idx × Int)) (i : Nat) :
    (rowVals (rowList es) i).length = ((es.filter fun e => e.1.getD 0 0 = i).map fun e => e.1.getD 1 0).length := by
  simp only [rowVals, rowList, List.length_map, List.filter_map, Function.comp_def]

/-- a row of a canonical `R × C` array stores at most `C` cells -/
theorem rowCount_le (es : List (Idx × Int)) (R C : Nat) (hwf : ∀ e ∈ es, InB e.1 [R, C])
    (hs : SortedLin [R, C] es) (i : Nat) : (rowVals (rowList es) i).length ≤ C := by
  rw [rowVals_rowList_length]
  have := strictInc_length_le _ 0 C (rowCols_sorted es R C hwf hs i) (by
    intro x hx
    obtain ⟨e, he, rfl⟩ := List.mem_map.mp hx
    obtain ⟨r, c, hk, _, hc⟩ := InB2 (hwf e (List.mem_filter.mp he).1)
    simp [hk, hc])
  omega

theorem keys_nodup_of_sortedLin (shape : List Nat) (es : List (Idx × Int)) (hs : SortedLin shape es) :
    (keysOf es).Nodup := by
  unfold SortedLin lin at hs
  unfold keysOf
  rw [List.pairwise_map] at hs
  rw [List.nodup_iff_pairwise_ne, List.pairwise_map]
  exact hs.imp (fun h heq => by rw [heq] at h; omega)

/-- the sum of a row of a 2-D array with distinct stored indices -/
theorem row_sum (R C : Nat) (fill : Int) (i : Nat) : ∀ (es : List (Idx × Int)), (∀ e ∈ es, InB e.1 [R, C]) →
    (keysOf es).Nodup →
    ((List.range C).map fun c => lookup es fill [i, c]).sum
      = fill * C + (rowVals (rowList es) i).sum - fill * ((rowVals (rowList es) i).length : Int)
  | [], _, _ => by
    simp [rowVals, rowList, List.map_const', List.sum_replicate_int, Int.mul_comm]
  | e :: es, hwf, hnd => by
    simp only [keysOf, List.map_cons, List.nodup_cons] at hnd
    have ih := row_sum R C fill i es (fun e' he' => hwf e' (List.mem_cons_of_mem _ he')) hnd.2
    obtain ⟨r, c, hk, _, hc⟩ := InB2 (hwf e List.mem_cons_self)
    by_cases hr : r = i
    · subst hr
      have hfun : (fun c' => lookup (e :: es) fill [r, c']) =
          fun c' => if c = c' then e.2 else lookup es fill [r, c'] := by
        funext c'
        rw [lookup_cons, hk]
        simp
      have hmiss : lookup es fill [r, c] = fill := lookup_of_not_mem (hk ▸ hnd.1)
      rw [hfun, sum_map_update _ c e.2 _ List.nodup_range (List.mem_range.mpr hc), ih, hmiss]
      have : rowList (e :: es) = (r, e.2) :: rowList es := by simp [rowList, hk]
      rw [this, rowVals_cons_eq]
      simp only [List.sum_cons, List.length_cons, Int.natCast_add, Int.mul_add]
      omega
    · have hfun : (fun c' => lookup (e :: es) fill [i, c']) = fun c' => lookup es fill [i, c'] := by
        funext c'
        rw [lookup_cons, hk]
        simp [hr]
      have : rowList (e :: es) = (r, e.2) :: rowList es := by simp [rowList, hk]
      rw [hfun, ih, this, rowVals_cons_ne _ _ _ _ hr]


/-- pruning does not change lookups with the pruned value as default (distinct keys) -/
theorem lookup_prune_r (f : Int) : ∀ (es : List (Idx × Int)), (keysOf es).Nodup → ∀ j,
    lookup (pruneEntries f es) f j = lookup es f j
  | [], _, j => by simp [pruneEntries]
  | e :: es, hnd, j => by
    simp only [keysOf, List.map_cons, List.nodup_cons] at hnd
    have ih := lookup_prune_r f es hnd.2 j
    unfold pruneEntries at ih ⊢
    rw [List.filter_cons]
    by_cases hv : e.2 = f
    · simp only [hv, ne_eq, not_true_eq_false, decide_false, Bool.false_eq_true, if_false]
      rw [ih, lookup_cons]
      by_cases hk : e.1 = j
      · rw [if_pos hk, hv]
        exact lookup_of_not_mem (hk ▸ hnd.1)
      · rw [if_neg hk]
    · simp only [ne_eq, hv, not_false_eq_true, decide_true, if_true]
      rw [lookup_cons, lookup_cons, ih]

/-- what a row of the pruned 1-D result of a grouped reduction reads -/
theorem lookup_rowRuns (op : Int → Int → Int) (l : List (Nat × Int)) (hs : (l.map (·.1)).Pairwise (· ≤ ·))
    (φ : Nat × Int × Nat → Int) (d : Int) (i : Nat) :
    lookup (pruneEntries d ((groupRuns op l).map fun g => ([g.1], φ g))) d [i]
      = if i ∈ l.map (·.1) then φ (i, foldl1 op (rowVals l i), (rowVals l i).length) else d := by
  obtain ⟨s1, s2, s3⟩ := groupRuns_spec_aux op l hs
  have hnd : (keysOf ((groupRuns op l).map fun g => ([g.1], φ g))).Nodup := by
    unfold keysOf
    rw [List.map_map, List.nodup_iff_pairwise_ne, List.pairwise_map]
    rw [List.pairwise_map] at s1
    exact s1.imp (fun h heq => by simp only [Function.comp, List.cons.injEq, and_true] at heq; omega)
  rw [lookup_prune_r d _ hnd]
  by_cases hi : i ∈ l.map (·.1)
  · rw [if_pos hi]
    obtain ⟨g, hg, hgi⟩ := List.mem_map.mp ((s2 i).mpr hi)
    obtain ⟨t1, t2⟩ := s3 g hg
    have hgeq : g = (i, foldl1 op (rowVals l i), (rowVals l i).length) := by
      rw [← hgi, ← t1, ← t2]
    rw [← hgeq]
    apply lookup_of_mem hnd
    rw [← hgi]
    exact List.mem_map.mpr ⟨g, hg, rfl⟩
  · rw [if_neg hi]
    apply lookup_of_not_mem
    intro hm
    obtain ⟨e, he, hk⟩ := mem_keysOf.mp hm
    obtain ⟨g, hg, rfl⟩ := List.mem_map.mp he
    simp only [List.cons.injEq, and_true] at hk
    exact hi ((s2 i).mp (List.mem_map.mpr ⟨g, hg, hk⟩))

theorem rowReduce_add_eq (a : COO Int) (fill : Int) :
    rowReduce .add a fill =
      { shape := [a.shape.getD 0 0],
        entries := pruneEntries (fill * (a.shape.getD 1 0 : Int))
          ((groupRuns (· + ·) (rowList a.entries)).map fun g =>
            ([g.1], g.2.1 + fill * ((a.shape.getD 1 0 - g.2.2 : Nat) : Int))),
        fill := fill * (a.shape.getD 1 0 : Int) } := by
  simp only [rowReduce, RedOp.super?, COO.build, List.map_map, Bool.false_eq_true, if_false, if_true]
  rfl

end COO

/-- a fold of a "selecting" operation (max, min) returns one of its arguments, and that one dominates all -/
theorem foldl_sel_spec (op : Int → Int → Int) (le : Int → Int → Prop)
    (hsel : ∀ a b, op a b = a ∨ op a b = b) (hl : ∀ a b, le a (op a b)) (hr : ∀ a b, le b (op a b))
    (htrans : ∀ a b c, le a b → le b c → le a c) (hrefl : ∀ a, le a a) :
    ∀ (l : List Int) (a : Int), l.foldl op a ∈ a :: l ∧ ∀ v ∈ a :: l, le v (l.foldl op a)
  | [], a => by simp [hrefl]
  | x :: l, a => by
    obtain ⟨i1, i2⟩ := foldl_sel_spec op le hsel hl hr htrans hrefl l (op a x)
    rw [List.foldl_cons]
    constructor
    · rcases List.mem_cons.mp i1 with h | h
      · rw [h]
        rcases hsel a x with h' | h'
        · rw [h']; exact List.mem_cons_self
        · rw [h']; exact List.mem_cons_of_mem _ List.mem_cons_self
      · exact List.mem_cons_of_mem _ (List.mem_cons_of_mem _ h)
    · intro v hv
      have htop := i2 (op a x) List.mem_cons_self
      rcases List.mem_cons.mp hv with h | h
      · rw [h]; exact htrans _ _ _ (hl a x) htop
      · rcases List.mem_cons.mp h with h | h
        · rw [h]; exact htrans _ _ _ (hr a x) htop
        · exact i2 v (List.mem_cons_of_mem _ h)

theorem foldl1_sel_spec (op : Int → Int → Int) (le : Int → Int → Prop)
    (hsel : ∀ a b, op a b = a ∨ op a b = b) (hl : ∀ a b, le a (op a b)) (hr : ∀ a b, le b (op a b))
    (htrans : ∀ a b c, le a b → le b c → le a c) (hrefl : ∀ a, le a a) (l : List Int) (hne : l ≠ []) :
    foldl1 op l ∈ l ∧ ∀ v ∈ l, le v (foldl1 op l) := by
  cases l with
  | nil => exact absurd rfl hne
  | cons x l => exact foldl_sel_spec op le hsel hl hr htrans hrefl l x

namespace COO

/-- the stored column numbers of row `i`, in storage order -/
def rowCols (es : List (Idx × Int)) (i : Nat) : List Nat :=
  (es.filter fun e => e.1.getD 0 0 = i).map fun e => e.1.getD 1 0

theorem mem_rowVals_rowList {es : List (Idx × Int)} {i : Nat} {v : Int} :
    v ∈ rowVals (rowList es) i ↔ ∃ e ∈ es, e.1.getD 0 0 = i ∧ e.2 = v := by
  simp only [rowVals, rowList, List.mem_map, List.mem_filter, decide_eq_true_eq]
  constructor
  · rintro ⟨p, ⟨⟨e, he, rfl⟩, hp⟩, rfl⟩
    exact ⟨e, he, hp, rfl⟩
  · rintro ⟨e, he, h1, h2⟩
    exact ⟨_, ⟨⟨e, he, rfl⟩, h1⟩, h2⟩

/-- a cell of row `i` reads a stored value of that row, or it is unstored and reads the fill value -/
theorem lookup_row_missing (es : List (Idx × Int))
    (fill : Int) (i c : Nat) (hc : c ∉ rowCols es i) : lookup es fill [i, c] = fill := by
  apply lookup_of_not_mem
  intro hk
  obtain ⟨e, he, hek⟩ := mem_keysOf.mp hk
  apply hc
  exact List.mem_map.mpr ⟨e, List.mem_filter.mpr ⟨he, by simp [hek]⟩, by simp [hek]⟩

theorem rowCols_mem_key (es : List (Idx × Int)) (R C : Nat) (hwf : ∀ e ∈ es, InB e.1 [R, C])
    (i c : Nat) (hc : c ∈ rowCols es i) : [i, c] ∈ keysOf es := by
  obtain ⟨e, he, hcc⟩ := List.mem_map.mp hc
  obtain ⟨hee, hi⟩ := List.mem_filter.mp he
  obtain ⟨r, c', hk, _, _⟩ := InB2 (hwf e hee)
  simp only [hk, List.getD_cons_zero, List.getD_cons_succ, decide_eq_true_eq] at hi hcc
  exact mem_keysOf.mpr ⟨e, hee, by rw [hk, hi, hcc]⟩

theorem get_row_cases (es : List (Idx × Int)) (R C : Nat) (hwf : ∀ e ∈ es, InB e.1 [R, C])
    (hnd : (keysOf es).Nodup) (fill : Int) (i c : Nat) :
    lookup es fill [i, c] ∈ rowVals (rowList es) i ∨ (lookup es fill [i, c] = fill ∧ c ∉ rowCols es i) := by
  by_cases hk : [i, c] ∈ keysOf es
  · left
    obtain ⟨e, he, hek⟩ := mem_keysOf.mp hk
    have : ([i, c], e.2) ∈ es := by rw [← hek]; exact he
    rw [lookup_of_mem hnd this]
    exact mem_rowVals_rowList.mpr ⟨e, he, by simp [hek], rfl⟩
  · right
    refine ⟨lookup_of_not_mem hk, ?_⟩
    intro hm
    exact hk (rowCols_mem_key es R C hwf i c hm)

/-- every stored value of row `i` is read at some column `< C` -/
theorem rowVals_attained (es : List (Idx × Int)) (R C : Nat) (hwf : ∀ e ∈ es, InB e.1 [R, C])
    (hnd : (keysOf es).Nodup) (fill : Int) (i : Nat) (v : Int) (hv : v ∈ rowVals (rowList es) i) :
    ∃ c, c < C ∧ lookup es fill [i, c] = v := by
  obtain ⟨e, he, hi, hev⟩ := mem_rowVals_rowList.mp hv
  obtain ⟨r, c, hk, _, hc⟩ := InB2 (hwf e he)
  simp only [hk, List.getD_cons_zero] at hi
  refine ⟨c, hc, ?_⟩
  apply lookup_of_mem hnd
  rw [← hev, ← hi, ← hk]
  exact he

theorem rowReduce_sel_eq (op : RedOp) (hsup : op.super? = none) (a : COO Int) (fill : Int) :
    rowReduce op a fill =
      { shape := [a.shape.getD 0 0],
        entries := pruneEntries fill
          ((groupRuns op.ap (rowList a.entries)).map fun g =>
            ([g.1], if g.2.2 ≠ a.shape.getD 1 0 then op.ap g.2.1 fill else g.2.1)),
        fill := fill } := by
  simp only [rowReduce, hsup, COO.build, List.map_map, Bool.false_eq_true, if_false, if_true]
  rfl

end COO

namespace COO

/-- row reduction with a selecting operation (max, min; no "super ufunc"): every row of the result
dominates all `C ≥ 1` cells of the operand's row and is attained by one of them -/
theorem rowReduce_sel_get (op : RedOp) (hsup : op.super? = none) (le : Int → Int → Prop)
    (hsel : ∀ a b, op.ap a b = a ∨ op.ap a b = b) (hl : ∀ a b, le a (op.ap a b)) (hr : ∀ a b, le b (op.ap a b))
    (htrans : ∀ a b c, le a b → le b c → le a c) (hrefl : ∀ a, le a a)
    (a : COO Int) (R C : Nat) (hshape : a.shape = [R, C]) (hwf : a.WF)
    (hs : SortedLin a.shape a.entries) (hC : 0 < C) :
    (rowReduce op a a.fill).shape = [R] ∧ (rowReduce op a a.fill).fill = a.fill ∧
    ∀ i, (∀ c, c < C → le (a.get [i, c]) ((rowReduce op a a.fill).get [i])) ∧
         ∃ c, c < C ∧ a.get [i, c] = (rowReduce op a a.fill).get [i] := by
  have hwf' : ∀ e ∈ a.entries, InB e.1 [R, C] := fun e he => hshape ▸ hwf e he
  have hs' : SortedLin [R, C] a.entries := hshape ▸ hs
  have hnd := keys_nodup_of_sortedLin _ _ hs'
  rw [rowReduce_sel_eq op hsup]
  simp only [hshape, List.getD_cons_zero, List.getD_cons_succ, true_and]
  intro i
  simp only [COO.get]
  rw [lookup_rowRuns _ _ (rowList_sorted a.entries R C hwf' hs')]
  have hcases := get_row_cases a.entries R C hwf' hnd a.fill i
  by_cases hi : i ∈ (rowList a.entries).map (·.1)
  · rw [if_pos hi]
    obtain ⟨hM, hdom⟩ := foldl1_sel_spec op.ap le hsel hl hr htrans hrefl _ (rowVals_ne_nil hi)
    have hle := rowCount_le a.entries R C hwf' hs' i
    have hcolsorted := rowCols_sorted a.entries R C hwf' hs' i
    have hcolb : ∀ x ∈ rowCols a.entries i, 0 ≤ x ∧ x < C := by
      intro x hx
      obtain ⟨e, he, rfl⟩ := List.mem_map.mp hx
      obtain ⟨r, c, hk, _, hc⟩ := InB2 (hwf' e (List.mem_filter.mp he).1)
      simp [hk, hc]
    have hlen : (rowVals (rowList a.entries) i).length = (rowCols a.entries i).length :=
      rowVals_rowList_length a.entries i
    by_cases hn : (rowVals (rowList a.entries) i).length ≠ C
    · dsimp only
      rw [if_pos hn]
      constructor
      · intro c _
        rcases hcases c with h | ⟨h, _⟩
        · exact htrans _ _ _ (hdom _ h) (hl _ _)
        · rw [h]; exact hr _ _
      · rcases hsel (foldl1 op.ap (rowVals (rowList a.entries) i)) a.fill with h | h
        · rw [h]; exact rowVals_attained a.entries R C hwf' hnd a.fill i _ hM
        · rw [h]
          obtain ⟨c, _, hc, hmiss⟩ := strictInc_missing (rowCols a.entries i) 0 C hcolsorted hcolb (by omega)
          exact ⟨c, hc, lookup_row_missing a.entries a.fill i c hmiss⟩
    · dsimp only
      rw [if_neg hn]
      have hn' : (rowCols a.entries i).length = C - 0 := by omega
      constructor
      · intro c hc
        rcases hcases c with h | ⟨_, h⟩
        · exact hdom _ h
        · exact absurd (strictInc_full _ 0 C hcolsorted hcolb hn' c (Nat.zero_le _) hc) h
      · exact rowVals_attained a.entries R C hwf' hnd a.fill i _ hM
  · rw [if_neg hi]
    have hV := rowVals_eq_nil hi
    have hall : ∀ c, lookup a.entries a.fill [i, c] = a.fill := by
      intro c
      rcases hcases c with h | ⟨h, _⟩
      · rw [hV] at h; simp at h
      · exact h
    exact ⟨fun c _ => by rw [hall c]; exact hrefl _, ⟨0, hC, hall 0⟩⟩

end COO

/-! ### lifting the 2-D core to `reduceCore` -/

theorem prod_append_r : ∀ (a b : List Nat), prod (a ++ b) = prod a * prod b
  | [], b => by simp [prod]
  | d :: a, b => by simp only [List.cons_append, prod, prod_append_r a b, Nat.mul_assoc]

theorem ravel_append : ∀ (j ks : List Nat), j.length = ks.length → ∀ (u as : List Nat),
    ravel (j ++ u) (ks ++ as) = ravel j ks * prod as + ravel u as
  | [], [], _, u, as => by simp [ravel]
  | i :: is, d :: ds, h, u, as => by
    simp only [List.cons_append, ravel, ravel_append is ds (by simpa using h) u as, prod_append_r,
      Nat.add_mul, Nat.mul_assoc, Nat.add_assoc]
  | [], _ :: _, h, _, _ => by simp at h
  | _ :: _, [], h, _, _ => by simp at h

namespace COO

theorem gather_range_self_r (s : List Nat) : gather s (List.range s.length) = s := by
  apply List.ext_getElem
  · simp [gather]
  · intro i h1 h2
    simp [gather, List.getD_eq_getElem?_getD, h2]

/-- gathering along a list of axes that covers every position is injective on indices of that rank -/
theorem gather_inj (p : List Nat) (n : Nat) (hcov : ∀ k, k < n → k ∈ p) (a b : List Nat)
    (ha : a.length = n) (hb : b.length = n) (h : gather a p = gather b p) : a = b := by
  apply List.ext_getElem (by rw [ha, hb])
  intro k h1 h2
  obtain ⟨m, hm, hpk⟩ := List.getElem_of_mem (hcov k (ha ▸ h1))
  have := congrArg (fun l => List.getD l m 0) h
  simp only [gather_getD _ _ _ hm] at this
  have hpm : p.getD m 0 = k := by simp [List.getD_eq_getElem?_getD, List.getElem?_eq_getElem hm, hpk]
  rw [hpm] at this
  simpa [List.getD_eq_getElem?_getD, List.getElem?_eq_getElem h1, List.getElem?_eq_getElem h2] using this

/-- kept axes followed by the reduced axes: a permutation of all axes -/
theorem kept_axes_perm (n : Nat) (axes : List Nat) (hnd : axes.Nodup) (hr : ∀ a ∈ axes, a < n) :
    (((List.range n).filter fun a => !axes.contains a) ++ axes).Perm (List.range n) := by
  have h1 : axes.Perm ((List.range n).filter fun a => axes.contains a) := by
    rw [List.perm_ext_iff_of_nodup hnd (List.Nodup.sublist List.filter_sublist List.nodup_range)]
    intro a
    simp only [List.mem_filter, List.mem_range, List.contains_iff_mem]
    exact ⟨fun h => ⟨hr a h, h⟩, fun h => h.2⟩
  have h2 := List.filter_append_perm (fun a => axes.contains a) (List.range n)
  refine List.Perm.trans ?_ h2
  refine List.Perm.trans List.perm_append_comm ?_
  exact List.Perm.append h1 (by
    have : (fun a => !axes.contains a) = fun a => !(fun a => axes.contains a) a := rfl
    rw [this])


variable {α : Type}

/-- `transpose` by a permutation of a canonical array: shape, fill, well-formedness, canonical order -/
theorem transposeCore_facts (x : COO α) (p : List Nat) (hp : p.Perm (List.range x.shape.length))
    (hwf : x.WF) (hs : SortedLin x.shape x.entries) :
    (x.transposeCore p).shape = gather x.shape p ∧ (x.transposeCore p).fill = x.fill ∧
    (x.transposeCore p).WF ∧ SortedLin (x.transposeCore p).shape (x.transposeCore p).entries := by
  unfold transposeCore
  by_cases hid : p = List.range x.shape.length
  · simp only [hid, if_true, gather_range_self_r, true_and]
    exact ⟨hwf, hs⟩
  · simp only [hid, if_false, true_and]
    have hmem : ∀ a ∈ p, a < x.shape.length := fun a ha => List.mem_range.mp (hp.mem_iff.mp ha)
    have hcov : ∀ k, k < x.shape.length → k ∈ p := fun k hk => hp.mem_iff.mpr (List.mem_range.mpr hk)
    have hwfm : ∀ e ∈ mapIdx (fun i => gather i p) x.entries, InB e.1 (gather x.shape p) := by
      intro e he
      obtain ⟨e0, he0, rfl⟩ := List.mem_map.mp he
      exact InB_gather_j _ _ (hwf e0 he0) p hmem
    have hwf' : ∀ e ∈ sortEntries (gather x.shape p) (mapIdx (fun i => gather i p) x.entries),
        InB e.1 (gather x.shape p) := fun e he => hwfm e (mem_sortEntries.mp he)
    refine ⟨hwf', ?_⟩
    apply sortedLin_of_le_nodup _ _ (sortEntries_sortedLe _ _) _ hwf'
    apply nodup_sortEntries
    have hnd : (keysOf x.entries).Nodup := by
      unfold SortedLin lin at hs
      unfold keysOf
      rw [List.pairwise_map] at hs
      rw [List.nodup_iff_pairwise_ne, List.pairwise_map]
      exact hs.imp (fun h heq => by rw [heq] at h; omega)
    apply nodup_mapIdx _ _ hnd
    intro a ha b hb hab
    obtain ⟨ea, hea, rfl⟩ := mem_keysOf.mp ha
    obtain ⟨eb, heb, rfl⟩ := mem_keysOf.mp hb
    exact gather_inj p x.shape.length hcov _ _ (InB_length (hwf ea hea)) (InB_length (hwf eb heb)) hab

/-- `reshape`: shape, fill, well-formedness -/
theorem reshapeCore_facts (x : COO α) (s : List Nat) (hwf : x.WF) (hsize : prod x.shape = prod s) :
    (x.reshapeCore s).shape = s ∧ (x.reshapeCore s).fill = x.fill ∧ (x.reshapeCore s).WF := by
  refine ⟨?_, ?_, ?_⟩
  · unfold reshapeCore; by_cases h : x.shape = s <;> simp [h]
  · unfold reshapeCore; by_cases h : x.shape = s <;> simp [h]
  · unfold reshapeCore
    by_cases h : x.shape = s
    · simp only [h, if_true]; exact hwf
    · simp only [h, if_false]
      intro e he
      obtain ⟨e0, he0, rfl⟩ := List.mem_map.mp he
      exact unravel_InB s _ (hsize ▸ ravel_lt (hwf e0 he0))

/-- `reshape` keeps the canonical order (its `sorted=True` promise) -/
theorem reshapeCore_sorted (x : COO α) (s : List Nat) (hwf : x.WF) (hsize : prod x.shape = prod s)
    (hs : SortedLin x.shape x.entries) : SortedLin s (x.reshapeCore s).entries := by
  have hlin := C08.reshape_preserves_linear x s hwf hsize
  unfold SortedLin lin at hs ⊢
  rw [hlin]; exact hs

end COO

theorem range_mul (d P : Nat) :
    List.range (d * P) = (List.range d).flatMap fun i => (List.range P).map fun m => i * P + m := by
  induction d with
  | zero => simp
  | succ d ih =>
    rw [Nat.succ_mul, List.range_add, ih, List.range_succ, List.flatMap_append]
    simp

/-- `allIdx` lists the indices of a shape in row-major order: the `n`-th one is `unravel n` -/
theorem allIdx_eq_map_unravel : ∀ (s : List Nat), allIdx s = (List.range (prod s)).map fun n => unravel n s
  | [] => by simp [allIdx, prod, unravel]
  | d :: ds => by
    simp only [allIdx, prod, range_mul, List.map_flatMap, List.map_map, allIdx_eq_map_unravel ds]
    congr 1
    funext i
    apply List.map_congr_left
    intro m hm
    have hm' : m < prod ds := List.mem_range.mp hm
    have hp : 0 < prod ds := by omega
    have h1 : (i * prod ds + m) / prod ds = i := by
      rw [Nat.add_comm, Nat.add_mul_div_right _ _ hp, Nat.div_eq_of_lt hm', Nat.zero_add]
    have h2 : (i * prod ds + m) % prod ds = m := by
      rw [Nat.add_comm, Nat.add_mul_mod_self_right, Nat.mod_eq_of_lt hm']
    simp only [Function.comp, unravel, h1, h2]


/-- reading `gather v (invPerm p)` at axis `p[m]` gives component `m` of `v` -/
theorem gather_invPerm_getD (p : List Nat) (hnd : p.Nodup) (hlt : ∀ a ∈ p, a < p.length) (v : List Nat)
    (m : Nat) (hm : m < p.length) : (COO.gather v (invPerm p)).getD (p[m]) 0 = v.getD m 0 := by
  have hk : p[m] < p.length := hlt _ (List.getElem_mem hm)
  rw [COO.gather_getD _ _ _ (by simpa [invPerm] using hk)]
  unfold invPerm
  rw [getD_map_range _ _ _ hk, idxOf_getElem_of_nodup p m hm hnd]

namespace COO

theorem rowReduce_shape (op : RedOp) (a : COO Int) (fill : Int) :
    (rowReduce op a fill).shape = [a.shape.getD 0 0] := by
  unfold rowReduce
  cases op.super? <;> rfl

/-- every stored index of the row reduction is `[row]` for a run of `groupRuns` -/
theorem rowReduce_keys (op : RedOp) (a : COO Int) (fill : Int) :
    ∀ e ∈ (rowReduce op a fill).entries, ∃ g ∈ groupRuns op.ap (rowList a.entries), e.1 = [g.1] := by
  intro e he
  unfold rowReduce at he
  cases hsup : op.super? with
  | none =>
    simp only [hsup, COO.build, pruneEntries, Bool.false_eq_true, if_false, if_true, List.map_map,
      List.mem_filter, List.mem_map] at he
    obtain ⟨⟨g, hg, rfl⟩, _⟩ := he
    exact ⟨g, hg, rfl⟩
  | some sup =>
    simp only [hsup, COO.build, pruneEntries, Bool.false_eq_true, if_false, if_true, List.map_map,
      List.mem_filter, List.mem_map] at he
    obtain ⟨⟨g, hg, rfl⟩, _⟩ := he
    exact ⟨g, hg, rfl⟩

/-- the 1-D result of the row reduction stores only row numbers of the operand -/
theorem rowReduce_wf (op : RedOp) (a : COO Int) (R C : Nat) (hshape : a.shape = [R, C]) (hwf : a.WF)
    (hs : SortedLin a.shape a.entries) (fill : Int) : (rowReduce op a fill).WF := by
  have hwf' : ∀ e ∈ a.entries, InB e.1 [R, C] := fun e he => hshape ▸ hwf e he
  have hs' : SortedLin [R, C] a.entries := hshape ▸ hs
  intro e he
  obtain ⟨g, hg, hk⟩ := rowReduce_keys op a fill e he
  obtain ⟨_, s2, _⟩ := groupRuns_spec_aux op.ap _ (rowList_sorted a.entries R C hwf' hs')
  obtain ⟨q, hq, hqg⟩ := List.mem_map.mp ((s2 g.1).mp (List.mem_map.mpr ⟨g, hg, rfl⟩))
  obtain ⟨e0, he0, rfl⟩ := List.mem_map.mp hq
  obtain ⟨r, c, hk0, hr, _⟩ := InB2 (hwf' e0 he0)
  simp only [hk0, List.getD_cons_zero] at hqg
  rw [rowReduce_shape, hk, hshape]
  simp only [List.getD_cons_zero, InB_cons, InB_nil, and_true]
  omega


/-- **the lift**: `reduceCore op x (some axes) false` for a canonical `x` and distinct in-range axes
is the row reduction of a canonical 2-D array `A` whose cell `[ravel j, c]` is the operand element
with kept coordinates `j` and reduced coordinates `unravel c`, reshaped to the kept extents (and
turned into a scalar when nothing is kept) -/
theorem reduceCore_lift (op : RedOp) (x : COO Int) (axes : List Nat)
    (transpose_get : ∀ (y : COO Int) (p : List Nat), p.Perm (List.range y.shape.length) → y.WF →
      (keysOf y.entries).Nodup → ∀ j, InB j (gather y.shape p) →
      (y.transposeCore p).get j = y.get (gather j (invPerm p)))
    (hadm : ¬ (op.ap x.fill x.fill ≠ x.fill ∧ op.super?.isNone))
    (hguard : ¬ (op.super?.isNone ∧ axes.any (fun a => x.shape.getD a 0 == 0)))
    (hwf : x.WF) (hs : SortedLin x.shape x.entries) (hnd : axes.Nodup)
    (hr : ∀ a ∈ axes, a < x.shape.length) (kept : List Nat)
    (hkept : ((List.range x.shape.length).filter fun a => !axes.contains a) = kept) :
    ∃ A out : COO Int,
      A.shape = [prod (gather x.shape kept), prod (gather x.shape axes)] ∧ A.WF ∧
      SortedLin A.shape A.entries ∧ A.fill = x.fill ∧
      (∀ j c, InB j (gather x.shape kept) → c < prod (gather x.shape axes) →
        A.get [ravel j (gather x.shape kept), c]
          = x.get (gather (j ++ unravel c (gather x.shape axes)) (invPerm (kept ++ axes)))) ∧
      COO.reduceCore op x (some axes) false =
        .ok (if kept = [] then .scalar (out.get []) else .arr out) ∧
      out.shape = gather x.shape kept ∧ out.fill = (rowReduce op A A.fill).fill ∧
      ∀ j, InB j (gather x.shape kept) →
        out.get j = (rowReduce op A A.fill).get [ravel j (gather x.shape kept)] := by
  rw [reduceCore_eq, if_neg hadm]
  dsimp only
  rw [if_neg hguard]
  have gdef : ∀ (s l : List Nat), (l.map fun d => s.getD d 0) = gather s l := fun _ _ => rfl
  simp only [gdef, Bool.false_eq_true, if_false, hkept]
  have hperm : (kept ++ axes).Perm (List.range x.shape.length) := hkept ▸ kept_axes_perm _ axes hnd hr
  have hxnd : (keysOf x.entries).Nodup := keys_nodup_of_sortedLin _ _ hs
  -- the transposed array
  obtain ⟨hTs, hTf, hTwf, hTsort⟩ := transposeCore_facts x (kept ++ axes) hperm hwf hs
  rw [gather_append] at hTs
  have hTget := transpose_get x (kept ++ axes) hperm hwf hxnd
  generalize x.transposeCore (kept ++ axes) = T at *
  -- reshaped to 2-D
  have hsize : prod T.shape = prod [prod (gather x.shape kept), prod (gather x.shape axes)] := by
    rw [hTs, prod_append_r]; simp [prod]
  obtain ⟨hAs, hAf, hAwf⟩ := reshapeCore_facts T _ hTwf hsize
  have hAsort := reshapeCore_sorted T _ hTwf hsize hTsort
  have hAget := fun j hj => (C08.reshape_get T _ hTwf hsize j hj).1
  generalize T.reshapeCore [prod (gather x.shape kept), prod (gather x.shape axes)] = A at *
  -- the row reduction
  have hfill : x.fill = A.fill := by rw [hAf, hTf]
  have hRs := rowReduce_shape op A A.fill
  rw [hAs, List.getD_cons_zero] at hRs
  have hRwf := rowReduce_wf op A _ _ hAs hAwf (hAs ▸ hAsort) A.fill
  have hRR : rowReduce op A x.fill = rowReduce op A A.fill := by rw [hfill]
  rw [hRR]
  generalize hR : rowReduce op A A.fill = R1 at *
  -- reshaped back
  have hsize2 : prod R1.shape = prod (gather x.shape kept) := by rw [hRs]; simp [prod]
  obtain ⟨hOs, hOf, hOwf⟩ := reshapeCore_facts R1 _ hRwf hsize2
  have hOget := fun j hj => (C08.reshape_get R1 _ hRwf hsize2 j hj).1
  refine ⟨A, R1.reshapeCore (gather x.shape kept), hAs, hAwf, hAs ▸ hAsort, hfill.symm, ?_, ?_, hOs, hR ▸ hOf, ?_⟩
  · intro j c hj hc'
    have hjl : j.length = (gather x.shape kept).length := InB_length hj
    have hrj : ravel j (gather x.shape kept) < prod (gather x.shape kept) := ravel_lt hj
    have hu := unravel_InB (gather x.shape axes) c hc'
    rw [hAget [ravel j (gather x.shape kept), c] (by simp [hrj, hc']), hTs]
    have hlin : ravel [ravel j (gather x.shape kept), c] [prod (gather x.shape kept), prod (gather x.shape axes)]
        = ravel (j ++ unravel c (gather x.shape axes)) (gather x.shape kept ++ gather x.shape axes) := by
      rw [ravel_append j _ hjl, ravel_unravel _ c hc', ravel2]
    have hin : InB (j ++ unravel c (gather x.shape axes)) (gather x.shape kept ++ gather x.shape axes) :=
      (InB_append _ _ _ _ hjl).mpr ⟨hj, hu⟩
    rw [hlin, unravel_ravel hin]
    exact hTget _ (by rw [gather_append]; exact hin)
  · have hlen : (R1.reshapeCore (gather x.shape kept)).shape.length = kept.length := by
      rw [hOs, gather_length_j]
    by_cases hk : kept = []
    · have h0 : (R1.reshapeCore (gather x.shape kept)).shape.length = 0 := by rw [hlen, hk]; rfl
      rw [if_pos h0, if_pos hk]
      congr 2
      -- a 0-d array: every stored index is `[]`
      have hs0 : (R1.reshapeCore (gather x.shape kept)).shape = [] := by rw [hOs, hk]; rfl
      unfold COO.get
      match hes : (R1.reshapeCore (gather x.shape kept)).entries with
      | [] => simp
      | e :: rest =>
        have hin := hOwf e (by rw [hes]; exact List.mem_cons_self)
        rw [hs0] at hin
        have : e.1 = [] := by
          match h : e.1, hin with
          | [], _ => rfl
        rw [lookup_cons, if_pos this]
    · have h0 : ¬ (R1.reshapeCore (gather x.shape kept)).shape.length = 0 := by
        rw [hlen]; intro h; exact hk (List.length_eq_zero_iff.mp h)
      rw [if_neg h0, if_neg hk]
  · intro j hj
    rw [hOget j hj, hRs, hR]
    simp [unravel, prod]

end COO

namespace COO

/-- `max`/`min` over arbitrary axes: the lifted form of `rowReduce_sel_get` -/
theorem reduceCore_sel_get (op : RedOp) (hsup : op.super? = none) (le : Int → Int → Prop)
    (hsel : ∀ a b, op.ap a b = a ∨ op.ap a b = b) (hl : ∀ a b, le a (op.ap a b)) (hr' : ∀ a b, le b (op.ap a b))
    (htrans : ∀ a b c, le a b → le b c → le a c) (hrefl : ∀ a, le a a)
    (hidem : ∀ a, op.ap a a = a)
    (x : COO Int) (axes : List Nat)
    (transpose_get : ∀ (y : COO Int) (p : List Nat), p.Perm (List.range y.shape.length) → y.WF →
      (keysOf y.entries).Nodup → ∀ j, InB j (gather y.shape p) →
      (y.transposeCore p).get j = y.get (gather j (invPerm p)))
    (hwf : x.WF) (hs : SortedLin x.shape x.entries) (hnd : axes.Nodup)
    (hr : ∀ a ∈ axes, a < x.shape.length) (hpos : 0 < prod (gather x.shape axes)) :
    ∃ out : COO Int,
      COO.reduceCore op x (some axes) false =
        .ok (if (List.range x.shape.length).filter (fun a => !axes.contains a) = [] then .scalar (out.get [])
             else .arr out) ∧
      out.shape = gather x.shape ((List.range x.shape.length).filter fun a => !axes.contains a) ∧
      out.fill = x.fill ∧
      ∀ j, InB j (gather x.shape ((List.range x.shape.length).filter fun a => !axes.contains a)) →
        (∀ r ∈ allIdx (gather x.shape axes), le (x.get (gather (j ++ r)
            (invPerm (((List.range x.shape.length).filter fun a => !axes.contains a) ++ axes)))) (out.get j)) ∧
        ∃ r ∈ allIdx (gather x.shape axes), x.get (gather (j ++ r)
            (invPerm (((List.range x.shape.length).filter fun a => !axes.contains a) ++ axes))) = out.get j := by
  obtain ⟨A, out, hAs, hAwf, hAsort, hAf, hAget, hred, hOs, hOf, hOget⟩ :=
    reduceCore_lift op x axes transpose_get (fun h => h.1 (hidem _))
      (fun h => by rw [any_zero_false_of_prod_pos _ _ hpos] at h; exact Bool.false_ne_true h.2)
      hwf hs hnd hr _ rfl
  obtain ⟨_, hRf, hRget⟩ := rowReduce_sel_get op hsup le hsel hl hr' htrans hrefl A _ _ hAs hAwf hAsort hpos
  refine ⟨out, hred, hOs, by rw [hOf, hRf, hAf], fun j hj => ?_⟩
  obtain ⟨hb, c, hc, hatt⟩ := hRget (ravel j (gather x.shape _))
  rw [hOget j hj]
  constructor
  · intro r hr
    rw [allIdx_eq_map_unravel] at hr
    obtain ⟨c, hc, rfl⟩ := List.mem_map.mp hr
    have hc' := List.mem_range.mp hc
    rw [← hAget j c hj hc']
    exact hb c hc'
  · refine ⟨unravel c (gather x.shape axes), ?_, ?_⟩
    · rw [allIdx_eq_map_unravel]
      exact List.mem_map.mpr ⟨c, List.mem_range.mpr hc, rfl⟩
    · rw [← hAget j c hj hc]; exact hatt

end COO

end SparseV

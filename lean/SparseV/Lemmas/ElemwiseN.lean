/-
  SparseV.Lemmas.ElemwiseN — the n-ary element-wise model `elemwiseN` (`_Elemwise`):
  its three-way decision and the element reads of the sparse result.
-/
import SparseV.Lemmas.Broadcast
namespace SparseV

/-! ## consequences of a successful n-ary broadcast -/

theorem bcRank_le {shapes : List (List Nat)} {n : Nat} (h : ∀ s ∈ shapes, s.length ≤ n) : bcRank shapes ≤ n := by
  induction shapes with
  | nil => simp [bcRank]
  | cons s rest ih =>
    rw [bcRank_cons]
    have := h s (by simp)
    have := ih fun t ht => h t (List.mem_cons_of_mem _ ht)
    omega

/-- every operand shape broadcasts to the n-ary result shape -/
theorem bcTo_of_bshapeN {shapes : List (List Nat)} {r s : List Nat} (h : bshapeN shapes = .ok r)
    (hs : s ∈ shapes) : BcTo s r := by
  obtain ⟨hok, rfl⟩ := bshapeN_ok_iff.mp h
  apply bcTo_of_ext
  · rw [nDims_length]; exact le_bcRank hs
  · intro k _
    rw [ext_nDims']
    exact (hok k).mem_eq (List.mem_map.mpr ⟨s, hs, rfl⟩)

/-- a sub-collection of broadcastable shapes is broadcastable -/
theorem bshapeN_sub_ok {shapes sub : List (List Nat)} {r : List Nat} (h : bshapeN shapes = .ok r)
    (hsub : ∀ s ∈ sub, s ∈ shapes) : bshapeN sub = .ok (nDims sub) := by
  obtain ⟨hok, _⟩ := bshapeN_ok_iff.mp h
  apply bshapeN_of_ok
  intro k a ha b hb
  obtain ⟨s, hs, rfl⟩ := List.mem_map.mp ha
  obtain ⟨t, ht, rfl⟩ := List.mem_map.mp hb
  exact hok k _ (List.mem_map.mpr ⟨s, hsub s hs, rfl⟩) _ (List.mem_map.mpr ⟨t, hsub t ht, rfl⟩)

/-- the broadcast shape of a sub-collection broadcasts to the broadcast shape of the whole -/
theorem bcTo_sub {shapes sub : List (List Nat)} {r r' : List Nat} (h : bshapeN shapes = .ok r)
    (h' : bshapeN sub = .ok r') (hsub : ∀ s ∈ sub, s ∈ shapes) : BcTo r' r := by
  obtain ⟨hok, rfl⟩ := bshapeN_ok_iff.mp h
  obtain ⟨_, rfl⟩ := bshapeN_ok_iff.mp h'
  apply bcTo_of_ext
  · rw [nDims_length, nDims_length]
    exact bcRank_le fun s hs => le_bcRank (hsub s hs)
  · intro k _
    rw [ext_nDims', ext_nDims']
    rcases colDim_spec (colAt sub k) with hs | hs
    · exact Or.inr hs.1
    · obtain ⟨s, hs', he⟩ := List.mem_map.mp hs.2
      exact (hok k).mem_eq (List.mem_map.mpr ⟨s, hsub s hs', he⟩)

/-! ## `eraseDups` -/

theorem nodup_eraseDups : ∀ (l : List Idx), l.eraseDups.Nodup := by
  intro l
  induction h : l.length using Nat.strongRecOn generalizing l with
  | _ n ih =>
    cases l with
    | nil => simp
    | cons a as =>
      rw [List.eraseDups_cons, List.nodup_cons]
      constructor
      · rw [List.mem_eraseDups, List.mem_filter]
        simp
      · apply ih (as.filter fun b => !b == a).length _ _ rfl
        subst h
        have := List.length_filter_le (fun b => !b == a) as
        simp only [List.length_cons]
        omega

/-! ## the model, unfolded -/

variable {α : Type} [Inhabited α] [DecidableEq α]

/-- operands as `_Elemwise.__init__` leaves them: COO operands are in range with distinct stored indices -/
def Operand.WF : Operand α → Prop
  | .coo x => x.WF ∧ x.keys.Nodup
  | _ => True

/-- `fill_value_array`: the function applied to the fill values and the dense operands, one value
per position of the dense operands' common shape -/
def fillArrOf (f : List α → α) (ops : List (Operand α)) (ndShape : List Nat) : List α :=
  (allIdx ndShape).map fun i => f (ops.map fun o => o.fillAt ndShape i)

/-- the result fill value -/
def fillOf (f : List α → α) (ops : List (Operand α)) (ndShape : List Nat) : α :=
  (fillArrOf f ops ndShape).headD (f (ops.map fun o => match o with | .coo x => x.fill | _ => default))

/-- candidate positions: every position stored by some (broadcast) sparse operand -/
def candsOf (ops : List (Operand α)) (shape : List Nat) : List Idx :=
  (ops.flatMap fun o => match o with
    | .coo x => (COO.expand x.entries x.shape shape).map (·.1)
    | _ => []).eraseDups

def entriesOf (f : List α → α) (ops : List (Operand α)) (shape : List Nat) (fill : α) : List (Idx × α) :=
  (candsOf ops shape).filterMap fun i =>
    let v := f (ops.map fun o => o.valueAt shape i)
    if v = fill then none else some (i, v)

/-- "a sparse result exists": the function of the fill values and the dense operands' values does
not depend on the position -/
def FillConst (f : List α → α) (ops : List (Operand α)) (ndShape : List Nat) : Prop :=
  ∀ i, InB i ndShape → ∀ i', InB i' ndShape →
    f (ops.map fun o => o.fillAt ndShape i) = f (ops.map fun o => o.fillAt ndShape i')

theorem elemwiseN_eq (f : List α → α) (ops : List (Operand α)) (shape ndShape : List Nat)
    (hc : ops.any Operand.isCoo = true) (hs : bshapeN (ops.map Operand.shape) = .ok shape)
    (hn : bshapeN ((ops.filter Operand.isDense).map Operand.shape) = .ok ndShape) :
    elemwiseN f ops =
      if (fillArrOf f ops ndShape).all (· = fillOf f ops ndShape) then
        if shape.any (· = 0) then .ok (.sparse { shape := shape, entries := [], fill := fillOf f ops ndShape })
        else .ok (.sparse { shape := shape, entries := COO.sortEntries shape (entriesOf f ops shape (fillOf f ops ndShape)), fill := fillOf f ops ndShape })
      else if shape = ndShape then
        .ok (.dense shape ((allIdx shape).map fun i => f (ops.map fun o => o.valueAt shape i)))
      else .error .value := by
  unfold elemwiseN
  simp only [hc, hs, hn]
  simp only [Bool.not_true, Bool.false_eq_true, if_false]
  rfl

theorem elemwiseN_no_coo (f : List α → α) (ops : List (Operand α)) (hc : ops.any Operand.isCoo = false) :
    elemwiseN f ops = .error .value := by
  unfold elemwiseN
  simp only [hc]
  rfl

theorem elemwiseN_shape_err (f : List α → α) (ops : List (Operand α)) (e : Err)
    (hc : ops.any Operand.isCoo = true) (hs : bshapeN (ops.map Operand.shape) = .error e) :
    elemwiseN f ops = .error .value := by
  have he : e = .value := by
    by_cases h : ∀ k, ColOk (colAt (ops.map Operand.shape) k)
    · rw [bshapeN_of_ok h] at hs; cases hs
    · rw [bshapeN_of_not_ok h] at hs; exact (Except.error.inj hs).symm
  subst he
  unfold elemwiseN
  simp only [hc, hs]
  simp only [Bool.not_true, Bool.false_eq_true, if_false]
  rfl

/-- the decision `fillArr.all (· = fill)` is `FillConst` -/
theorem fillArr_all_iff (f : List α → α) (ops : List (Operand α)) (ndShape : List Nat) :
    ((fillArrOf f ops ndShape).all (· = fillOf f ops ndShape)) = true ↔ FillConst f ops ndShape := by
  rw [List.all_eq_true]
  unfold fillOf
  constructor
  · intro h i hi i' hi'
    have h1 := h _ (List.mem_map.mpr ⟨i, bc_mem_allIdx.mpr hi, rfl⟩)
    have h2 := h _ (List.mem_map.mpr ⟨i', bc_mem_allIdx.mpr hi', rfl⟩)
    simp only [decide_eq_true_eq] at h1 h2
    rw [h1, h2]
  · intro h x hx
    simp only [decide_eq_true_eq]
    obtain ⟨i, hi, rfl⟩ := List.mem_map.mp hx
    unfold fillArrOf
    cases hall : allIdx ndShape with
    | nil => rw [hall] at hi; cases hi
    | cons i0 rest =>
      simp only [List.map_cons, List.headD_cons]
      exact h i (bc_mem_allIdx.mp hi) i0 (bc_mem_allIdx.mp (by rw [hall]; simp))

/-- under `FillConst` the fill is the function at ANY position of the dense operands' shape -/
theorem fillOf_eq (f : List α → α) (ops : List (Operand α)) (ndShape : List Nat)
    (h : FillConst f ops ndShape) {i : Idx} (hi : InB i ndShape) :
    fillOf f ops ndShape = f (ops.map fun o => o.fillAt ndShape i) := by
  have := (fillArr_all_iff f ops ndShape).mpr h
  rw [List.all_eq_true] at this
  have := this _ (List.mem_map.mpr ⟨i, bc_mem_allIdx.mpr hi, rfl⟩)
  simp only [decide_eq_true_eq] at this
  exact this.symm

/-! ## the stored entries -/

omit [Inhabited α] [DecidableEq α] in
theorem mem_candsOf {ops : List (Operand α)} {shape : List Nat} {j : Idx} :
    j ∈ candsOf ops shape ↔ ∃ x, Operand.coo x ∈ ops ∧ j ∈ COO.keysOf (COO.expand x.entries x.shape shape) := by
  unfold candsOf
  rw [List.mem_eraseDups, List.mem_flatMap]
  constructor
  · rintro ⟨o, ho, hj⟩
    cases o with
    | coo x => exact ⟨x, ho, hj⟩
    | dense _ _ => cases hj
    | scalar _ => cases hj
  · rintro ⟨x, hx, hj⟩
    exact ⟨.coo x, hx, hj⟩

theorem keysOf_entriesOf (f : List α → α) (ops : List (Operand α)) (shape : List Nat) (fill : α) :
    COO.keysOf (entriesOf f ops shape fill) =
      (candsOf ops shape).filter fun i => decide (f (ops.map fun o => o.valueAt shape i) ≠ fill) := by
  unfold entriesOf COO.keysOf
  generalize candsOf ops shape = L
  induction L with
  | nil => rfl
  | cons i L ih =>
    rw [List.filterMap_cons, List.filter_cons]
    by_cases h : f (ops.map fun o => o.valueAt shape i) = fill
    · simp only [h, if_true, ne_eq, not_true_eq_false, decide_false, Bool.false_eq_true, if_false]
      exact ih
    · simp only [h, if_false, ne_eq, not_false_eq_true, decide_true, if_true, List.map_cons]
      rw [ih]

theorem nodup_entriesOf (f : List α → α) (ops : List (Operand α)) (shape : List Nat) (fill : α) :
    (COO.keysOf (entriesOf f ops shape fill)).Nodup := by
  rw [keysOf_entriesOf]
  exact (nodup_eraseDups _).sublist List.filter_sublist

theorem mem_entriesOf {f : List α → α} {ops : List (Operand α)} {shape : List Nat} {fill : α} {e : Idx × α} :
    e ∈ entriesOf f ops shape fill ↔
      e.1 ∈ candsOf ops shape ∧ e.2 = f (ops.map fun o => o.valueAt shape e.1) ∧ e.2 ≠ fill := by
  unfold entriesOf
  rw [List.mem_filterMap]
  constructor
  · rintro ⟨i, hi, he⟩
    simp only at he
    split at he
    · cases he
    · next hne =>
      have := Option.some.inj he
      subst this
      exact ⟨hi, rfl, hne⟩
  · rintro ⟨h1, h2, h3⟩
    refine ⟨e.1, h1, ?_⟩
    simp only
    rw [← h2, if_neg h3]

/-- **element reads of the sparse branch.** -/
theorem lookup_entriesOf (f : List α → α) (ops : List (Operand α)) (shape ndShape : List Nat)
    (hwf : ∀ o ∈ ops, o.WF)
    (hs : bshapeN (ops.map Operand.shape) = .ok shape)
    (hn : bshapeN ((ops.filter Operand.isDense).map Operand.shape) = .ok ndShape)
    (hconst : FillConst f ops ndShape) {j : Idx} (hj : InB j shape) :
    COO.lookup (entriesOf f ops shape (fillOf f ops ndShape)) (fillOf f ops ndShape) j =
      f (ops.map fun o => o.valueAt shape j) := by
  by_cases hc : j ∈ candsOf ops shape
  · by_cases hv : f (ops.map fun o => o.valueAt shape j) = fillOf f ops ndShape
    · rw [hv]
      apply COO.lookup_of_not_mem
      rw [keysOf_entriesOf, List.mem_filter]
      simp [hv]
    · exact COO.lookup_of_mem (nodup_entriesOf _ _ _ _) (mem_entriesOf.mpr ⟨hc, rfl, hv⟩)
  · rw [COO.lookup_of_not_mem (by rw [keysOf_entriesOf, List.mem_filter]; exact fun h => hc h.1)]
    -- `j` is stored by no sparse operand: every operand contributes what it contributes to the fill
    have hsub : ∀ s ∈ (ops.filter Operand.isDense).map Operand.shape, s ∈ ops.map Operand.shape := by
      intro s hs'
      obtain ⟨o, ho, rfl⟩ := List.mem_map.mp hs'
      exact List.mem_map.mpr ⟨o, (List.mem_filter.mp ho).1, rfl⟩
    have hnd : BcTo ndShape shape := bcTo_sub hs hn hsub
    have hi : InB (projIdx ndShape shape j) ndShape := projIdx_InB hnd hj
    rw [fillOf_eq f ops ndShape hconst hi]
    congr 1
    apply List.map_congr_left
    intro o ho
    cases o with
    | coo x =>
      simp only [Operand.fillAt, Operand.valueAt]
      have hb : BcTo x.shape shape := bcTo_of_bshapeN hs (List.mem_map.mpr ⟨_, ho, rfl⟩)
      have hx := hwf _ ho
      have hnk : j ∉ COO.keysOf (COO.expand x.entries x.shape shape) :=
        fun h => hc (mem_candsOf.mpr ⟨x, ho, h⟩)
      exact (COO.lookup_of_not_mem (COO.not_mem_keys_expand hb hx.1 hnk hj)).symm
    | dense sh flat =>
      simp only [Operand.fillAt, Operand.valueAt]
      have hb : BcTo sh ndShape :=
        bcTo_of_bshapeN hn (List.mem_map.mpr ⟨_, List.mem_filter.mpr ⟨ho, rfl⟩, rfl⟩)
      rw [projIdx_comp hb hnd hj]
    | scalar v => rfl

theorem wf_entriesOf (f : List α → α) (ops : List (Operand α)) (shape : List Nat) (fill : α)
    (hwf : ∀ o ∈ ops, o.WF) (hs : bshapeN (ops.map Operand.shape) = .ok shape) :
    ∀ e ∈ entriesOf f ops shape fill, InB e.1 shape := by
  intro e he
  obtain ⟨x, hx, hk⟩ := mem_candsOf.mp (mem_entriesOf.mp he).1
  obtain ⟨e', he', hi⟩ := List.mem_map.mp hk
  have hb : BcTo x.shape shape := bcTo_of_bshapeN hs (List.mem_map.mpr ⟨_, hx, rfl⟩)
  rw [← hi]
  exact COO.wf_expand hb (hwf _ hx).1 e' he'

end SparseV

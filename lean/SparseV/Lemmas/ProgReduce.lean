/-
  SparseV.Lemmas.ProgReduce — step lemma of the program theorem for `sum` / `max` / `min` over axes.
-/
import SparseV.Lemmas.ProgBase
import SparseV.Lemmas.ProgShape
import SparseV.Lemmas.Reduce
import SparseV.Props.C03
import SparseV.Props.C06
namespace SparseV
open SparseV.COO

/-! ### `max` / `min` of a list, characterised by bound + attainment -/

theorem foldl_max_eq (m : Int) : ∀ (t : List Int) (a : Int), a ≤ m → (∀ v ∈ t, v ≤ m) → (a = m ∨ m ∈ t) →
    t.foldl max a = m
  | [], a, _, _, h => by
    rcases h with h | h
    · exact h
    · cases h
  | b :: t, a, ha, ht, h => by
    rw [List.foldl_cons]
    have hb : b ≤ m := ht b List.mem_cons_self
    apply foldl_max_eq m t (max a b) (by omega) (fun v hv => ht v (List.mem_cons_of_mem _ hv))
    rcases h with h | h
    · left; omega
    · rcases List.mem_cons.mp h with h | h
      · left; omega
      · right; exact h

theorem foldl_min_eq (m : Int) : ∀ (t : List Int) (a : Int), m ≤ a → (∀ v ∈ t, m ≤ v) → (a = m ∨ m ∈ t) →
    t.foldl min a = m
  | [], a, _, _, h => by
    rcases h with h | h
    · exact h
    · cases h
  | b :: t, a, ha, ht, h => by
    rw [List.foldl_cons]
    have hb : m ≤ b := ht b List.mem_cons_self
    apply foldl_min_eq m t (min a b) (by omega) (fun v hv => ht v (List.mem_cons_of_mem _ hv))
    rcases h with h | h
    · left; omega
    · rcases List.mem_cons.mp h with h | h
      · left; omega
      · right; exact h

theorem npFold1_max_eq (l : List Int) (m : Int) (hub : ∀ v ∈ l, v ≤ m) (hatt : m ∈ l) : npFold1 max l = m := by
  cases l with
  | nil => cases hatt
  | cons a t =>
    unfold npFold1
    apply foldl_max_eq m t a (hub a List.mem_cons_self) (fun v hv => hub v (List.mem_cons_of_mem _ hv))
    rcases List.mem_cons.mp hatt with h | h
    · left; exact h.symm
    · right; exact h

theorem npFold1_min_eq (l : List Int) (m : Int) (hlb : ∀ v ∈ l, m ≤ v) (hatt : m ∈ l) : npFold1 min l = m := by
  cases l with
  | nil => cases hatt
  | cons a t =>
    unfold npFold1
    apply foldl_min_eq m t a (hlb a List.mem_cons_self) (fun v hv => hlb v (List.mem_cons_of_mem _ hv))
    rcases List.mem_cons.mp hatt with h | h
    · left; exact h.symm
    · right; exact h

/-! ### the result of a reduction is canonical and stores no fill value -/

namespace COO

theorem rowReduce_sorted (op : RedOp) (a : COO Int) (R C : Nat) (hshape : a.shape = [R, C]) (hwf : a.WF)
    (hs : SortedLin a.shape a.entries) (fill : Int) : SortedLin [R] (rowReduce op a fill).entries := by
  have hwf' : ∀ e ∈ a.entries, InB e.1 [R, C] := fun e he => hshape ▸ hwf e he
  have hs' : SortedLin [R, C] a.entries := hshape ▸ hs
  obtain ⟨s1, _, _⟩ := groupRuns_spec_aux op.ap _ (rowList_sorted a.entries R C hwf' hs')
  have hrav : ∀ r : Nat, ravel [r] [R] = r := by intro r; simp [ravel, prod]
  unfold SortedLin lin rowReduce
  cases hsup : op.super? with
  | none =>
    simp only [COO.build, pruneEntries, Bool.false_eq_true, if_false, if_true]
    refine List.Pairwise.sublist (List.Sublist.map _ List.filter_sublist) ?_
    simp only [List.map_map]
    have : (List.map ((fun e : Idx × Int => ravel e.1 [R]) ∘ (fun x : Nat × Int => ([x.1], x.2)) ∘
        fun x : Nat × Int × Nat => (x.1, if x.2.2 ≠ a.shape.getD 1 0 then op.ap x.2.1 fill else x.2.1))
        (groupRuns op.ap (a.entries.map fun e => (e.1.getD 0 0, e.2))))
        = (groupRuns op.ap (rowList a.entries)).map (·.1) := by
      apply List.map_congr_left
      intro g _
      simp only [Function.comp, hrav]
    rw [this]; exact s1
  | some sup =>
    simp only [COO.build, pruneEntries, Bool.false_eq_true, if_false, if_true]
    refine List.Pairwise.sublist (List.Sublist.map _ List.filter_sublist) ?_
    simp only [List.map_map]
    have : (List.map ((fun e : Idx × Int => ravel e.1 [R]) ∘ (fun x : Nat × Int => ([x.1], x.2)) ∘
        fun x : Nat × Int × Nat => (x.1, op.ap x.2.1 (sup fill (a.shape.getD 1 0 - x.2.2))))
        (groupRuns op.ap (a.entries.map fun e => (e.1.getD 0 0, e.2))))
        = (groupRuns op.ap (rowList a.entries)).map (·.1) := by
      apply List.map_congr_left
      intro g _
      simp only [Function.comp, hrav]
    rw [this]; exact s1

theorem rowReduce_nofill (op : RedOp) (a : COO Int) (fill : Int) : (rowReduce op a fill).NoFill := by
  unfold rowReduce
  cases hsup : op.super? with
  | none =>
    intro e he
    simp only [COO.build, Bool.false_eq_true, if_false, if_true] at he ⊢
    exact C06.nofill_prune _ _ e he
  | some sup =>
    intro e he
    simp only [COO.build, Bool.false_eq_true, if_false, if_true] at he ⊢
    exact C06.nofill_prune _ _ e he

/-- whatever array `reduceCore` returns for a canonical operand and distinct in-range axes is
canonical and stores no fill-valued entry -/
theorem reduceCore_good (op : RedOp) (x : COO Int) (axes : List Nat) (hwf : x.WF)
    (hs : SortedLin x.shape x.entries) (hnd : axes.Nodup) (hr : ∀ a ∈ axes, a < x.shape.length)
    (r : COO Int) (h : COO.reduceCore op x (some axes) false = .ok (.arr r)) :
    r.WF ∧ SortedLin r.shape r.entries ∧ r.NoFill := by
  rw [reduceCore_eq] at h
  split at h
  · cases h
  · dsimp only at h
    split at h
    · cases h
    · have gdef : ∀ (s l : List Nat), (l.map fun d => s.getD d 0) = gather s l := fun _ _ => rfl
      simp only [gdef, Bool.false_eq_true, if_false] at h
      generalize hkept : ((List.range x.shape.length).filter fun a => !axes.contains a) = kept at h
      have hperm : (kept ++ axes).Perm (List.range x.shape.length) := hkept ▸ kept_axes_perm _ axes hnd hr
      obtain ⟨hTs, hTf, hTwf, hTsort⟩ := transposeCore_facts x (kept ++ axes) hperm hwf hs
      rw [gather_append] at hTs
      generalize x.transposeCore (kept ++ axes) = T at *
      have hsize : prod T.shape = prod [prod (gather x.shape kept), prod (gather x.shape axes)] := by
        rw [hTs, prod_append_r]; simp [prod]
      obtain ⟨hAs, hAf, hAwf⟩ := reshapeCore_facts T _ hTwf hsize
      have hAsort := reshapeCore_sorted T _ hTwf hsize hTsort
      generalize T.reshapeCore [prod (gather x.shape kept), prod (gather x.shape axes)] = A at *
      have hRs := rowReduce_shape op A x.fill
      rw [hAs, List.getD_cons_zero] at hRs
      have hRwf := rowReduce_wf op A _ _ hAs hAwf (hAs ▸ hAsort) x.fill
      have hRsort := rowReduce_sorted op A _ _ hAs hAwf (hAs ▸ hAsort) x.fill
      have hRnf := rowReduce_nofill op A x.fill
      generalize rowReduce op A x.fill = R1 at *
      have hsize2 : prod R1.shape = prod (gather x.shape kept) := by rw [hRs]; simp [prod]
      obtain ⟨hOs, hOf, hOwf⟩ := reshapeCore_facts R1 _ hRwf hsize2
      have hOsort := reshapeCore_sorted R1 _ hRwf hsize2 (hRs ▸ hRsort)
      split at h
      · cases h
      · have := RedResult.arr.inj (Except.ok.inj h)
        subst this
        refine ⟨hOwf, by rw [hOs]; exact hOsort, ?_⟩
        apply noFill_of_vals hOf _ hRnf
        unfold reshapeCore
        split
        · intro e he; exact ⟨e, he, rfl⟩
        · exact fun e he => vals_mapIdx (fun i => unravel (ravel i R1.shape) (gather x.shape kept)) R1.entries e he

end COO

/-! ### the step -/

theorem prod_gather_pos (s : List Nat) : ∀ (axes : List Nat), axes.any (fun a => s.getD a 0 == 0) = false →
    0 < prod (gather s axes)
  | [], _ => by simp [gather, prod]
  | a :: axes, h => by
    simp only [List.any_cons, Bool.or_eq_false_iff, beq_eq_false_iff_ne] at h
    have ih := prod_gather_pos s axes h.2
    simp only [gather, List.map_cons, prod]
    have : 0 < s.getD a 0 := by omega
    exact Nat.mul_pos this ih

theorem reduce_unfold (op : RedOp) (x : COO Int) (axes : Option (List Int)) :
    x.reduce op axes false = (match Expr.reduceAxesD x.shape.length axes with
      | .error e => .error e
      | .ok ax => if ¬ ax.Nodup then .error .value else COO.reduceCore op x (some ax) false) := by
  unfold COO.reduce Expr.reduceAxesD
  cases axes with
  | none =>
    simp only []
    rw [if_neg (fun h => h List.nodup_range)]
    exact C03.reduceCore_none op x false
  | some as =>
    simp only []
    have : (as.mapM fun a => (Gen.normalizeAxisInt a x.shape.length).map Int.toNat) = npAxes as x.shape.length := by
      rw [← normAxes_eq_npAxes]; rfl
    rw [this]
    cases npAxes as x.shape.length with
    | error e => rfl
    | ok ax =>
      simp only [bind, Except.bind]
      by_cases hnd : ax.Nodup
      · simp [hnd]
      · simp [hnd, throw, throwThe, MonadExceptOf.throw]

theorem reduce_step (op : ROp) (x : COO Int) (d : Dense) (axes : Option (List Int)) (hg : Good x)
    (hr : Refines x d) : Sim x.NoFill (Expr.mReduce op x axes) (Expr.sReduce op d axes) := by
  unfold Expr.mReduce Expr.sReduce
  rw [reduce_unfold, ← hr.shape]
  cases hax : Expr.reduceAxesD x.shape.length axes with
  | error e => exact Sim.err e
  | ok ax =>
    simp only []
    by_cases hnd : ax.Nodup
    · rw [if_neg (fun h => h hnd), if_neg (fun h => h hnd)]
      have hlt : ∀ a ∈ ax, a < x.shape.length := by
        unfold Expr.reduceAxesD at hax
        cases axes with
        | none =>
          have := Except.ok.inj hax
          subst this
          intro a ha; exact List.mem_range.mp ha
        | some as => exact npAxes_lt hax
      generalize hkept : ((List.range x.shape.length).filter fun a => !ax.contains a) = kept
      have hperm : (kept ++ ax).Perm (List.range x.shape.length) := hkept ▸ kept_axes_perm _ ax hnd hlt
      -- the operand index read for kept coordinates `j` and reduced coordinates `r` is in bounds
      have hsrc : ∀ j r, InB j (gather x.shape kept) → InB r (gather x.shape ax) →
          InB (gather (j ++ r) (invPerm (kept ++ ax))) x.shape := by
        intro j r hj hrr
        apply InB_gather_invPerm hperm
        rw [gather_append]
        exact (InB_append _ _ _ _ (InB_length hj)).mpr ⟨hj, hrr⟩
      have hcell : ∀ j, InB j (gather x.shape kept) →
          (allIdx (gather x.shape ax)).map (fun r => d.val (gather (j ++ r) (invPerm (kept ++ ax))))
          = (allIdx (gather x.shape ax)).map (fun r => x.get (gather (j ++ r) (invPerm (kept ++ ax)))) := by
        intro j hj
        apply List.map_congr_left
        intro r hrr
        exact (hr.val _ (hsrc j r hj (mem_allIdx.mp hrr))).symm
      cases op with
      | add =>
        obtain ⟨out, hred, hOs, hOf, hOget⟩ := C03.reduce_add_get x ax hg.wf hg.sorted hnd hlt
        rw [hkept] at hred hOs hOget
        have h1 : ¬ (ROp.add ≠ ROp.add ∧ ax.any (fun a => x.shape.getD a 0 == 0) = true) := fun h => h.1 rfl
        rw [if_neg h1]
        show Sim _ (match COO.reduceCore RedOp.add x (some ax) false with
          | .error e => .error e | .ok (.arr r) => .ok r | .ok (.scalar _) => .error .type) _
        rw [hred]
        by_cases hk : kept = []
        · rw [if_pos hk, if_pos hk]; exact Sim.err _
        · rw [if_neg hk, if_neg hk]
          rw [if_neg hk] at hred
          obtain ⟨hwf, hsorted, hnf⟩ := COO.reduceCore_good .add x ax hg.wf hg.sorted hnd hlt out hred
          refine Sim.ok ⟨hwf, hsorted⟩ (fun _ => hnf) ⟨?_, ?_, ?_⟩
          · rw [hOs]; unfold Expr.reduceD; simp only [← hr.shape, hkept]
          · rw [hOf]; unfold Expr.reduceD; simp only [← hr.shape, ← hr.fill]
          · intro j hj
            rw [hOs] at hj
            rw [hOget j hj]
            unfold Expr.reduceD
            simp only [← hr.shape, hkept]
            rw [hcell j hj]
      | max =>
        show Sim _ (match COO.reduceCore RedOp.max x (some ax) false with
          | .error e => .error e | .ok (.arr r) => .ok r | .ok (.scalar _) => .error .type) _
        by_cases hzero : ax.any (fun a => x.shape.getD a 0 == 0) = true
        · rw [if_pos ⟨by decide, hzero⟩]
          obtain ⟨a, ha, hz⟩ := List.any_eq_true.mp hzero
          rw [C03.reduce_empty_axis_rejected .max x ax false rfl ⟨a, ha, by simpa using hz⟩]
          exact Sim.err _
        · rw [if_neg (fun h => hzero h.2)]
          have hpos := prod_gather_pos x.shape ax (by simpa using hzero)
          obtain ⟨out, hred, hOs, hOf, hOget⟩ := C03.reduce_max_get x ax hg.wf hg.sorted hnd hlt hpos
          rw [hkept] at hred hOs hOget
          rw [hred]
          by_cases hk : kept = []
          · rw [if_pos hk, if_pos hk]; exact Sim.err _
          · rw [if_neg hk, if_neg hk]
            rw [if_neg hk] at hred
            obtain ⟨hwf, hsorted, hnf⟩ := COO.reduceCore_good .max x ax hg.wf hg.sorted hnd hlt out hred
            refine Sim.ok ⟨hwf, hsorted⟩ (fun _ => hnf) ⟨?_, ?_, ?_⟩
            · rw [hOs]; unfold Expr.reduceD; simp only [← hr.shape, hkept]
            · rw [hOf]; unfold Expr.reduceD; simp only [← hr.fill]
            · intro j hj
              rw [hOs] at hj
              obtain ⟨hub, r0, hr0, hatt⟩ := hOget j hj
              unfold Expr.reduceD
              simp only [← hr.shape, hkept]
              rw [hcell j hj]
              symm
              apply npFold1_max_eq
              · intro v hv
                obtain ⟨r, hrr, rfl⟩ := List.mem_map.mp hv
                exact hub r hrr
              · exact List.mem_map.mpr ⟨r0, hr0, hatt⟩
      | min =>
        show Sim _ (match COO.reduceCore RedOp.min x (some ax) false with
          | .error e => .error e | .ok (.arr r) => .ok r | .ok (.scalar _) => .error .type) _
        by_cases hzero : ax.any (fun a => x.shape.getD a 0 == 0) = true
        · rw [if_pos ⟨by decide, hzero⟩]
          obtain ⟨a, ha, hz⟩ := List.any_eq_true.mp hzero
          rw [C03.reduce_empty_axis_rejected .min x ax false rfl ⟨a, ha, by simpa using hz⟩]
          exact Sim.err _
        · rw [if_neg (fun h => hzero h.2)]
          have hpos := prod_gather_pos x.shape ax (by simpa using hzero)
          obtain ⟨out, hred, hOs, hOf, hOget⟩ := C03.reduce_min_get x ax hg.wf hg.sorted hnd hlt hpos
          rw [hkept] at hred hOs hOget
          rw [hred]
          by_cases hk : kept = []
          · rw [if_pos hk, if_pos hk]; exact Sim.err _
          · rw [if_neg hk, if_neg hk]
            rw [if_neg hk] at hred
            obtain ⟨hwf, hsorted, hnf⟩ := COO.reduceCore_good .min x ax hg.wf hg.sorted hnd hlt out hred
            refine Sim.ok ⟨hwf, hsorted⟩ (fun _ => hnf) ⟨?_, ?_, ?_⟩
            · rw [hOs]; unfold Expr.reduceD; simp only [← hr.shape, hkept]
            · rw [hOf]; unfold Expr.reduceD; simp only [← hr.fill]
            · intro j hj
              rw [hOs] at hj
              obtain ⟨hlb, r0, hr0, hatt⟩ := hOget j hj
              unfold Expr.reduceD
              simp only [← hr.shape, hkept]
              rw [hcell j hj]
              symm
              apply npFold1_min_eq
              · intro v hv
                obtain ⟨r, hrr, rfl⟩ := List.mem_map.mp hv
                exact hlb r hrr
              · exact List.mem_map.mpr ⟨r0, hr0, hatt⟩
    · rw [if_pos hnd, if_pos hnd]
      exact Sim.err _

end SparseV

/-
  SparseV.Lemmas.GcxsKey — a normalised GCXS key as per-axis index arrays: the operand index a result index reads
  (`Spec.srcOf`) is "pick from the arrays at the result index expanded by zeros on the integer axes"; masks commute;
  unit axes do not change linear locations; what validity of the key gives.
-/
import SparseV.Lemmas.GcxsFlat
import SparseV.Spec.GcxsGetitem
import SparseV.Lemmas.Search
namespace SparseV
open COO Spec
namespace GIx

/-! ### expanding a result index by zeros on the integer axes -/

def expandJ : List Bool → Idx → Idx
  | [], _ => []
  | b :: m, j => if b then j.headD 0 :: expandJ m j.tail else 0 :: expandJ m j

theorem srcOf_eq_pick : ∀ (key : List NIx) (j : Idx),
    srcOf key j = pick (key.map keyArr) (expandJ (key.map keyOut) j)
  | [], _ => rfl
  | k :: rest, j => by
    unfold srcOf
    simp only [List.map_cons, expandJ]
    cases keyOut k with
    | true => simp only [if_true, pick, srcOf_eq_pick rest j.tail]
    | false => simp only [Bool.false_eq_true, if_false, pick, srcOf_eq_pick rest j]

/-- the extents on the `false` positions of the mask are 1 -/
def UnitL : List Bool → List Nat → Prop
  | [], [] => True
  | b :: m, l :: L => (b = false → l = 1) ∧ UnitL m L
  | _, _ => False

/-- … and the coordinates there are 0 -/
def Units : List Bool → Idx → List Nat → Prop
  | [], [], [] => True
  | b :: m, x :: J, l :: L => (b = false → l = 1 ∧ x = 0) ∧ Units m J L
  | _, _, _ => False

theorem UnitL_length : ∀ {m : List Bool} {L : List Nat}, UnitL m L → m.length = L.length
  | [], [], _ => rfl
  | _ :: m, _ :: L, h => by simp [UnitL_length (m := m) (L := L) h.2]
  | [], _ :: _, h => absurd h (by simp [UnitL])
  | _ :: _, [], h => absurd h (by simp [UnitL])

theorem expandJ_facts : ∀ (m : List Bool) (L : List Nat) (j : Idx), UnitL m L → InB j (sel m L) →
    sel m (expandJ m j) = j ∧ InB (expandJ m j) L ∧ Units m (expandJ m j) L
  | [], [], j, _, hj => by
    cases j with
    | nil => simp [sel, expandJ, Units]
    | cons a as => simp [sel] at hj
  | b :: m, l :: L, j, hu, hj => by
    cases b with
    | true =>
      simp only [sel, if_true] at hj
      cases j with
      | nil => simp at hj
      | cons a as =>
        obtain ⟨h1, h2, h3⟩ := expandJ_facts m L as hu.2 hj.2
        have e : expandJ (true :: m) (a :: as) = a :: expandJ m as := by simp [expandJ]
        rw [e]
        refine ⟨by simp [sel, h1], ⟨hj.1, h2⟩, ?_⟩
        show (true = false → l = 1 ∧ a = 0) ∧ Units m (expandJ m as) L
        exact ⟨fun h => Bool.noConfusion h, h3⟩
    | false =>
      simp only [sel, Bool.false_eq_true, if_false] at hj
      obtain ⟨h1, h2, h3⟩ := expandJ_facts m L j hu.2 hj
      have hl : l = 1 := hu.1 rfl
      have e : expandJ (false :: m) j = 0 :: expandJ m j := by simp [expandJ]
      rw [e]
      refine ⟨by simp [sel, h1], ⟨by omega, h2⟩, ?_⟩
      show (false = false → l = 1 ∧ 0 = 0) ∧ Units m (expandJ m j) L
      exact ⟨fun _ => ⟨hl, rfl⟩, h3⟩
  | [], _ :: _, _, hu, _ => absurd hu (by simp [UnitL])
  | _ :: _, [], _, hu, _ => absurd hu (by simp [UnitL])

/-! ### unit axes -/

theorem ravel_sel_units : ∀ (m : List Bool) (J L : List Nat), Units m J L →
    ravel (sel m J) (sel m L) = ravel J L ∧ prod (sel m L) = prod L
  | [], [], [], _ => by simp [sel]
  | b :: m, x :: J, l :: L, h => by
    obtain ⟨h1, h2⟩ := ravel_sel_units m J L h.2
    cases b with
    | true => simp only [sel, if_true, ravel, prod, h1, h2, and_self]
    | false =>
      obtain ⟨hl, hx⟩ := h.1 rfl
      subst hl hx
      simp only [sel, Bool.false_eq_true, if_false, ravel, prod, h1, h2]
      omega
  | [], [], _ :: _, h => absurd h (by simp [Units])
  | [], _ :: _, _, h => absurd h (by simp [Units])
  | _ :: _, [], _, h => absurd h (by simp [Units])
  | _ :: _, _ :: _, [], h => absurd h (by simp [Units])

theorem Units_sel : ∀ (p m : List Bool) (J L : List Nat), p.length = m.length → Units m J L →
    Units (sel p m) (sel p J) (sel p L)
  | [], [], [], [], _, _ => by simp [sel, Units]
  | c :: p, b :: m, x :: J, l :: L, hp, h => by
    have ih := Units_sel p m J L (by simpa using hp) h.2
    cases c with
    | true => simp only [sel, if_true, Units]; exact ⟨h.1, ih⟩
    | false => simp only [sel, Bool.false_eq_true, if_false]; exact ih
  | [], _ :: _, _, _, hp, _ => by simp at hp
  | _ :: _, [], _, _, hp, _ => by simp at hp
  | [], [], [], _ :: _, _, h => absurd h (by simp [Units])
  | [], [], _ :: _, _, _, h => absurd h (by simp [Units])
  | _ :: _, _ :: _, [], _, _, h => absurd h (by simp [Units])
  | _ :: _, _ :: _, _ :: _, [], _, h => absurd h (by simp [Units])

/-- if the mask `q` holds wherever `m` does, selecting by `q` keeps the `m`-units structure on the `q`-part …
used for "all compressed axes are integers" / "all uncompressed axes are integers" -/
theorem Units_all_false : ∀ (m : List Bool) (J L : List Nat), Units m J L → (∀ b ∈ m, b = false) →
    ravel J L = 0 ∧ prod L = 1
  | [], [], [], _, _ => by simp [ravel, prod]
  | b :: m, x :: J, l :: L, h, hall => by
    obtain ⟨hl, hx⟩ := h.1 (hall b List.mem_cons_self)
    obtain ⟨h1, h2⟩ := Units_all_false m J L h.2 (fun c hc => hall c (List.mem_cons_of_mem _ hc))
    subst hl hx
    simp [ravel, prod, h1, h2]
  | [], [], _ :: _, h, _ => absurd h (by simp [Units])
  | [], _ :: _, _, h, _ => absurd h (by simp [Units])
  | _ :: _, [], _, h, _ => absurd h (by simp [Units])
  | _ :: _, _ :: _, [], h, _ => absurd h (by simp [Units])

/-! ### masks commute -/

theorem sel_sel_comm {β : Type} : ∀ (m p : List Bool) (x : List β), m.length = p.length → x.length = p.length →
    sel (sel m p) (sel m x) = sel (sel p m) (sel p x)
  | [], [], [], _, _ => rfl
  | b :: m, c :: p, a :: x, h1, h2 => by
    have ih := sel_sel_comm m p x (by simpa using h1) (by simpa using h2)
    cases b <;> cases c <;> simp [sel, ih]
  | [], _ :: _, _, h, _ => by simp at h
  | _ :: _, [], _, h, _ => by simp at h
  | [], [], _ :: _, _, h => by simp at h
  | _ :: _, _ :: _, [], _, h => by simp at h

theorem sel_map_not : ∀ (p m : List Bool), sel p (m.map not) = (sel p m).map not
  | [], _ => by simp [sel]
  | _ :: _, [] => by simp [sel]
  | c :: p, b :: m => by cases c <;> simp [sel, sel_map_not p m]

theorem sel_map {β γ : Type} (f : β → γ) : ∀ (m : List Bool) (xs : List β), sel m (xs.map f) = (sel m xs).map f
  | [], _ => by simp [sel]
  | _ :: _, [] => by simp [sel]
  | b :: m, x :: xs => by cases b <;> simp [sel, sel_map f m xs]

theorem pick_sel : ∀ (m : List Bool) (A : List (List Nat)) (J : Idx), A.length = m.length → J.length = m.length →
    sel m (pick A J) = pick (sel m A) (sel m J)
  | [], [], [], _, _ => rfl
  | b :: m, a :: A, x :: J, h1, h2 => by
    have ih := pick_sel m A J (by simpa using h1) (by simpa using h2)
    cases b <;> simp [sel, pick, ih]
  | [], _ :: _, _, h, _ => by simp at h
  | _ :: _, [], _, h, _ => by simp at h
  | [], [], _ :: _, _, h => by simp at h
  | _ :: _, _ :: _, [], _, h => by simp at h

theorem InB_sel : ∀ (m : List Bool) {J L : List Nat}, InB J L → InB (sel m J) (sel m L)
  | [], _, _, _ => by simp [sel]
  | _ :: _, [], [], _ => by simp [sel]
  | b :: m, x :: J, l :: L, h => by
    cases b with
    | true => simp only [sel, if_true, InB_cons]; exact ⟨h.1, InB_sel m h.2⟩
    | false => simp only [sel, Bool.false_eq_true, if_false]; exact InB_sel m h.2
  | _ :: _, [], _ :: _, h => absurd h (by simp)
  | _ :: _, _ :: _, [], h => absurd h (by simp)

/-! ### in-range index arrays -/

/-- every element of the index array of axis `a` is smaller than the extent of that axis -/
def AllLt : List (List Nat) → List Nat → Prop
  | [], [] => True
  | a :: A, d :: S => (∀ v ∈ a, v < d) ∧ AllLt A S
  | _, _ => False

theorem AllLt_length : ∀ {A : List (List Nat)} {S : List Nat}, AllLt A S → A.length = S.length
  | [], [], _ => rfl
  | _ :: A, _ :: S, h => by simp [AllLt_length (A := A) (S := S) h.2]
  | [], _ :: _, h => absurd h (by simp [AllLt])
  | _ :: _, [], h => absurd h (by simp [AllLt])

theorem AllLt_sel : ∀ (m : List Bool) {A : List (List Nat)} {S : List Nat}, AllLt A S → AllLt (sel m A) (sel m S)
  | [], _, _, _ => by simp [sel, AllLt]
  | _ :: _, [], [], _ => by simp [sel, AllLt]
  | b :: m, a :: A, d :: S, h => by
    cases b with
    | true => simp only [sel, if_true, AllLt]; exact ⟨h.1, AllLt_sel m h.2⟩
    | false => simp only [sel, Bool.false_eq_true, if_false]; exact AllLt_sel m h.2
  | _ :: _, [], _ :: _, h => absurd h (by simp [AllLt])
  | _ :: _, _ :: _, [], h => absurd h (by simp [AllLt])

theorem InB_pick : ∀ {A : List (List Nat)} {S : List Nat} {J : Idx}, AllLt A S → InB J (A.map List.length) →
    InB (pick A J) S
  | [], [], [], _, _ => by simp [pick]
  | a :: A, d :: S, x :: J, h, hJ => by
    simp only [List.map_cons, InB_cons] at hJ
    simp only [pick, InB_cons]
    refine ⟨h.1 _ ?_, InB_pick h.2 hJ.2⟩
    rw [List.getD_eq_getElem?_getD, List.getElem?_eq_getElem hJ.1]
    exact List.getElem_mem hJ.1
  | [], [], _ :: _, _, hJ => by simp at hJ
  | _ :: _, _ :: _, [], _, hJ => by simp at hJ
  | [], _ :: _, _, h, _ => absurd h (by simp [AllLt])
  | _ :: _, [], _, h, _ => absurd h (by simp [AllLt])

/-! ### what validity of the key gives -/

theorem arange_getD (a s : Int) (n t : Nat) (ht : t < n) : (arange a s n).getD t 0 = (a + (t : Int) * s).toNat := by
  unfold arange
  rw [List.getD_eq_getElem?_getD, List.getElem?_eq_getElem (by simpa using ht)]
  simp

theorem arange_length (a s : Int) (n : Nat) : (arange a s n).length = n := by simp [arange]

theorem GValid_facts : ∀ (key : List NIx) (shape : List Nat), GValid key shape →
    AllLt (key.map keyArr) shape ∧ UnitL (key.map keyOut) ((key.map keyArr).map List.length)
  | [], [], _ => by simp [AllLt, UnitL]
  | .int n :: rest, d :: ds, h => by
    obtain ⟨h1, h2⟩ := GValid_facts rest ds h.2
    refine ⟨⟨?_, h1⟩, ⟨fun _ => rfl, h2⟩⟩
    intro v hv
    simp only [keyArr, List.mem_singleton] at hv
    subst hv
    have := h.1
    omega
  | .slice a b s :: rest, d :: ds, h => by
    obtain ⟨h1, h2⟩ := GValid_facts rest ds h.2
    refine ⟨⟨?_, h1⟩, ⟨fun hb => by simp [keyOut] at hb, h2⟩⟩
    intro v hv
    simp only [keyArr, arange, List.mem_map, List.mem_range] at hv
    obtain ⟨t, ht, rfl⟩ := hv
    have := slice_fwd a b s d h.1 t ht
    omega
  | .arr xs :: rest, d :: ds, h => by
    obtain ⟨h1, h2⟩ := GValid_facts rest ds h.2
    refine ⟨⟨?_, h1⟩, ⟨fun hb => by simp [keyOut] at hb, h2⟩⟩
    intro v hv
    simp only [keyArr, List.mem_map] at hv
    obtain ⟨x, hx, rfl⟩ := hv
    have := h.1 x hx
    omega
  | [], _ :: _, h => absurd h (by simp [GValid])
  | .newaxis :: _, _, h => absurd h (by simp [GValid])
  | .int _ :: _, [], h => absurd h (by simp [GValid])
  | .slice _ _ _ :: _, [], h => absurd h (by simp [GValid])
  | .arr _ :: _, [], h => absurd h (by simp [GValid])

theorem GValid_length : ∀ (key : List NIx) (shape : List Nat), GValid key shape → key.length = shape.length :=
  fun key shape h => by
    have := AllLt_length (GValid_facts key shape h).1
    simpa using this

/-! ### `pos_slice`: the requested columns are strictly increasing -/

theorem isSortedArr_pairwise : ∀ (xs : List Int), isSortedArr xs = true → xs.Pairwise (· < ·)
  | [], _ => by simp
  | [_], _ => by simp
  | a :: b :: rest, h => by
    simp only [isSortedArr, Bool.and_eq_true, Bool.not_eq_true', decide_eq_false_iff_not] at h
    have ih := isSortedArr_pairwise (b :: rest) h.2
    rw [List.pairwise_cons]
    refine ⟨?_, ih⟩
    intro y hy
    rcases List.mem_cons.mp hy with rfl | hy
    · omega
    · have := (List.pairwise_cons.mp ih).1 y hy
      omega

theorem posSlice_strict : ∀ (key : List NIx) (shape : List Nat), GValid key shape → posSliceOf key = true →
    ∀ a ∈ key.map keyArr, a.Pairwise (· < ·)
  | [], _, _, _ => by simp
  | k :: rest, [], h, _ => by cases k <;> simp [GValid] at h
  | k :: rest, d :: ds, h, hp => by
    have hp' : posSliceOf rest = true := by
      unfold posSliceOf at hp ⊢
      rw [List.all_cons, Bool.and_eq_true] at hp
      exact hp.2
    have hk0 := hp
    unfold posSliceOf at hk0
    rw [List.all_cons, Bool.and_eq_true] at hk0
    have hk := hk0.1
    intro a ha
    rw [List.map_cons] at ha
    rcases List.mem_cons.mp ha with rfl | ha
    · cases k with
      | int n => simp [keyArr]
      | newaxis => simp [keyArr]
      | slice a b s =>
        have hv := h.1
        have hs : 0 ≤ s := by simpa using hk
        have hs' : 0 < s := by
          rcases hv with ⟨h1, _⟩ | ⟨h1, _⟩ <;> omega
        simp only [keyArr, arange]
        rw [List.pairwise_map]
        refine List.pairwise_lt_range.imp_of_mem ?_
        intro i j hi hj hij
        have h1 := slice_fwd a b s d hv i (List.mem_range.mp hi)
        have h2 : (i : Int) * s < (j : Int) * s := Int.mul_lt_mul_of_pos_right (by omega) hs'
        omega
      | arr xs =>
        have hv := h.1
        have hsorted := isSortedArr_pairwise xs (by simpa using hk)
        simp only [keyArr]
        rw [List.pairwise_map]
        refine hsorted.imp_of_mem ?_
        intro x y hx hy hxy
        have := hv x hx
        omega
    · have hrest : GValid rest ds := by
        cases k <;> first | exact h.2 | exact absurd h (by simp [GValid])
      exact posSlice_strict rest ds hrest hp' a ha

theorem pick_lex_mono : ∀ (A : List (List Nat)) (p q : Idx), (∀ a ∈ A, a.Pairwise (· < ·)) →
    InB p (A.map List.length) → InB q (A.map List.length) → p < q → pick A p < pick A q
  | [], [], [], _, _, _, h => absurd h (by simp)
  | a :: A, x :: ps, y :: qs, hs, hp, hq, h => by
    simp only [List.map_cons, InB_cons] at hp hq
    simp only [pick]
    rcases List.cons_lt_cons_iff.mp h with hxy | ⟨hxy, hrest⟩
    · apply List.cons_lt_cons_iff.mpr
      left
      rw [List.getD_eq_getElem?_getD, List.getD_eq_getElem?_getD, List.getElem?_eq_getElem hp.1,
        List.getElem?_eq_getElem hq.1]
      exact sorted_lt (hs a List.mem_cons_self) hp.1 hq.1 hxy
    · subst hxy
      exact List.cons_lt_cons_iff.mpr (Or.inr ⟨rfl,
        pick_lex_mono A ps qs (fun b hb => hs b (List.mem_cons_of_mem _ hb)) hp.2 hq.2 hrest⟩)
  | [], _ :: _, _, _, hp, _, _ => by simp at hp
  | [], [], _ :: _, _, _, hq, _ => by simp at hq
  | _ :: _, [], _, _, hp, _, _ => by simp at hp
  | _ :: _, _ :: _, [], _, _, hq, _ => by simp at hq

/-- strictly increasing in-range per-axis arrays give strictly increasing linear positions -/
theorem convertToFlat_sorted (A : List (List Nat)) (S : List Nat) (hlt : AllLt A S)
    (hs : ∀ a ∈ A, a.Pairwise (· < ·)) : (convertToFlat A S).Pairwise (· < ·) := by
  rw [convertToFlat_spec A S (AllLt_length hlt), List.pairwise_map]
  refine (Search.allIdx_sorted (A.map List.length)).imp_of_mem ?_
  intro p q hp hq hpq
  have hp' := (Search.mem_allIdx _ _).mp hp
  have hq' := (Search.mem_allIdx _ _).mp hq
  exact ravel_lt_of_lex (InB_pick hlt hp') (InB_pick hlt hq') (pick_lex_mono A p q hs hp' hq' hpq)

theorem convertToFlat_lt (A : List (List Nat)) (S : List Nat) (hlt : AllLt A S) :
    ∀ r ∈ convertToFlat A S, r < prod S := by
  rw [convertToFlat_spec A S (AllLt_length hlt)]
  intro r hr
  obtain ⟨p, hp, rfl⟩ := List.mem_map.mp hr
  exact ravel_lt (InB_pick hlt ((Search.mem_allIdx _ _).mp hp))

end GIx
end SparseV

/-
  SparseV.Lemmas.ProgMisc — step lemmas of the program theorem for triu / tril, diagonal and the
  format round trips (COO → GCXS → COO, COO → DOK → COO).
-/
import SparseV.Lemmas.ProgBase
import SparseV.Lemmas.ProgShape
import SparseV.Lemmas.Compress
import SparseV.Props.C06
import SparseV.Props.C09
import SparseV.Props.C05
namespace SparseV
open SparseV.COO

/-! ### the constructor on distinct in-bounds keys only sorts -/

theorem build_entries_distinct (shape : List Nat) (es : List (Idx × Int)) (d : Int)
    (hnd : (keysOf es).Nodup) (hwf : ∀ e ∈ es, InB e.1 shape) :
    (COO.build shape es d).entries = sortEntries shape es := by
  have hs : SortedLin shape (sortEntries shape es) :=
    sortedLin_of_le_nodup shape _ (sortEntries_sortedLe shape es) (nodup_sortEntries shape es hnd)
      (fun e he => hwf e (mem_sortEntries.mp he))
  simp only [COO.build, Bool.false_eq_true, if_false, if_true]
  exact sumDup_eq_self_of_sortedLin shape _ hs

theorem build_distinct_good (shape : List Nat) (es : List (Idx × Int)) (d : Int)
    (hnd : (keysOf es).Nodup) (hwf : ∀ e ∈ es, InB e.1 shape) :
    Good (COO.build shape es d) ∧ (∀ e ∈ (COO.build shape es d).entries, e ∈ es) := by
  obtain ⟨h1, h2⟩ := build_wf_sorted shape es d false hwf
  refine ⟨⟨h1, h2⟩, ?_⟩
  intro e he
  rw [build_entries_distinct shape es d hnd hwf] at he
  exact mem_sortEntries.mp he

/-! ### triu / tril -/

theorem tri_step (upper : Bool) (x : COO Int) (d : Dense) (k : Int) (hg : Good x) (hr : Refines x d) :
    Sim x.NoFill (Expr.mTri upper x k) (Expr.sTri upper d k) := by
  unfold Expr.mTri Expr.sTri
  rw [← hr.shape, ← hr.fill]
  by_cases hf : x.fill = 0
  · have hf' : ¬ (x.fill ≠ 0) := fun h => h hf
    rw [if_neg hf', if_neg hf']
    by_cases hn : x.shape.length < 2
    · rw [if_pos hn, if_pos hn]; exact Sim.err _
    · rw [if_neg hn, if_neg hn]
      have hlk : ∀ j, COO.lookup x.entries 0 j = x.get j := by intro j; rw [COO.get, hf]
      cases upper with
      | true =>
        simp only [if_true]
        refine Sim.ok ⟨?_, ?_⟩ ?_ ⟨rfl, rfl, ?_⟩
        · intro e he
          exact hg.wf e (List.mem_filter.mp he).1
        · exact C06.filter_canonical _ _ _ hg.sorted
        · intro hx e he
          have := hx e (List.mem_filter.mp he).1
          rw [hf] at this
          exact this
        · intro j hj
          rw [C09.triu_get, hlk]
          show _ = if decide (_ ≤ _) = true then d.val j else 0
          by_cases hc : (j.getD (x.shape.length - 2) 0 : Int) + k ≤ (j.getD (x.shape.length - 1) 0 : Int)
          · rw [if_pos hc, if_pos (by simpa using hc)]; exact hr.val j hj
          · rw [if_neg hc, if_neg (by simpa using hc)]
      | false =>
        simp only [Bool.false_eq_true, if_false]
        refine Sim.ok ⟨?_, ?_⟩ ?_ ⟨rfl, rfl, ?_⟩
        · intro e he
          exact hg.wf e (List.mem_filter.mp he).1
        · exact C06.filter_canonical _ _ _ hg.sorted
        · intro hx e he
          have := hx e (List.mem_filter.mp he).1
          rw [hf] at this
          exact this
        · intro j hj
          rw [C09.tril_get, hlk]
          show _ = if decide (_ ≥ _) = true then d.val j else 0
          by_cases hc : (j.getD (x.shape.length - 2) 0 : Int) + k ≥ (j.getD (x.shape.length - 1) 0 : Int)
          · rw [if_pos hc, if_pos (by simpa using hc)]; exact hr.val j hj
          · rw [if_neg hc, if_neg (by simpa using hc)]
  · rw [if_pos hf, if_pos hf]; exact Sim.err _

/-! ### diagonal -/

theorem diagonal_step (x : COO Int) (d : Dense) (offset axis1 axis2 : Int) (hg : Good x) (hr : Refines x d) :
    Sim x.NoFill (Expr.mDiagonal x offset axis1 axis2) (Expr.sDiagonal d offset axis1 axis2) := by
  unfold Expr.mDiagonal Expr.sDiagonal
  rw [normAxis_eq_npAxis, normAxis_eq_npAxis, ← hr.shape]
  cases h1 : npAxis axis1 x.shape.length with
  | error e => exact Sim.err e
  | ok a1 =>
    cases h2 : npAxis axis2 x.shape.length with
    | error e => exact Sim.err e
    | ok a2 =>
      simp only []
      by_cases hne : a1 = a2
      · rw [if_pos hne, if_pos hne]; exact Sim.err _
      · rw [if_neg hne, if_neg hne]
        by_cases hsq : x.shape.getD a1 0 = x.shape.getD a2 0
        · have hsq' : ¬ (x.shape.getD a1 0 ≠ x.shape.getD a2 0) := fun h => h hsq
          rw [if_neg hsq', if_neg hsq']
          have hl1 := npAxis_lt h1
          have hl2 := npAxis_lt h2
          obtain ⟨hshape, hfill, hget⟩ :=
            C09.diagonal_get x offset a1 a2 (x.shape.getD a1 0) hg.wf hg.nodup hne hl1 hl2 rfl hsq.symm
          -- the list handed to the constructor: in range, distinct
          have hcore : x.diagonalCore offset a1 a2 = COO.build (x.diagonalCore offset a1 a2).shape
              (mapIdx (gather · (diagAxes x.shape.length a1 a2 offset))
                (x.entries.filter fun e => decide ((e.1.getD a1 0 : Int) + offset = (e.1.getD a2 0 : Int)))) x.fill := rfl
          have hselnd : (keysOf (x.entries.filter fun e => decide ((e.1.getD a1 0 : Int) + offset = (e.1.getD a2 0 : Int)))).Nodup :=
            List.Nodup.sublist (List.Sublist.map _ List.filter_sublist) hg.nodup
          have hinv : ∀ e ∈ x.entries.filter (fun e => decide ((e.1.getD a1 0 : Int) + offset = (e.1.getD a2 0 : Int))),
              ∀ j', (fun i => some (gather i (diagAxes x.shape.length a1 a2 offset))) e.1 = some j' →
                diagSrc x.shape.length a1 a2 offset j' = e.1 := by
            intro e he j' hgj
            simp only [Option.some.injEq] at hgj
            subst hgj
            obtain ⟨hex, hP⟩ := List.mem_filter.mp he
            exact diagSrc_gather _ _ _ _ _ (InB_length (hg.wf e hex)) hl1 hl2 (by simpa using hP)
          have hnd' : (keysOf (mapIdx (gather · (diagAxes x.shape.length a1 a2 offset))
                (x.entries.filter fun e => decide ((e.1.getD a1 0 : Int) + offset = (e.1.getD a2 0 : Int))))).Nodup := by
            rw [mapIdx_eq_rewrite]
            exact rewrite_nodup _ _ _ hinv hselnd
          have hwf' : ∀ e ∈ mapIdx (gather · (diagAxes x.shape.length a1 a2 offset))
                (x.entries.filter fun e => decide ((e.1.getD a1 0 : Int) + offset = (e.1.getD a2 0 : Int))),
              InB e.1 (x.diagonalCore offset a1 a2).shape := by
            intro e he
            rw [hshape]
            obtain ⟨e0, he0, rfl⟩ := List.mem_map.mp he
            obtain ⟨hex, hP⟩ := List.mem_filter.mp he0
            have hin := hg.wf e0 hex
            simp only [decide_eq_true_eq] at hP
            show InB (gather e0.1 (diagAxes x.shape.length a1 a2 offset)) _
            rw [diagAxes, gather_append, InB_append _ _ _ _ (by simp [gather])]
            refine ⟨InB_gather_j _ _ hin _ (fun a ha => (mem_diagOthers.mp ha).1), ?_⟩
            have b1 := InB_getD_lt hin hl1
            have b2 := InB_getD_lt hin hl2
            simp only [gather, List.map_cons, List.map_nil, InB_cons, InB_nil, and_true]
            by_cases ho : offset ≥ 0
            · simp only [ho, if_true]; omega
            · simp only [ho, if_false]; omega
          obtain ⟨hgood, hmem⟩ := build_distinct_good _ _ x.fill hnd' hwf'
          rw [← hcore] at hgood hmem
          refine Sim.ok hgood ?_ ⟨hshape, by rw [hfill]; exact hr.fill, ?_⟩
          · apply noFill_of_vals hfill
            intro e he
            obtain ⟨e0, he0, rfl⟩ := List.mem_map.mp (hmem e he)
            exact ⟨e0, (List.mem_filter.mp he0).1, rfl⟩
          · intro j hj
            rw [hshape] at hj
            obtain ⟨hin, hval⟩ := hget j hj
            rw [hval]
            exact hr.val _ hin
        · rw [if_pos hsq, if_pos hsq]; exact Sim.err _

/-! ### COO → DOK → COO -/

theorem viaDok_step (x : COO Int) (d : Dense) (hg : Good x) (hr : Refines x d) :
    Sim x.NoFill (Expr.mViaDok x) (Expr.sViaDok d) := by
  unfold Expr.mViaDok Expr.sViaDok SArr.toCoo
  obtain ⟨hgood, hmem⟩ := build_distinct_good x.shape x.entries x.fill hg.nodup hg.wf
  refine Sim.ok hgood ?_ ⟨hr.shape, hr.fill, ?_⟩
  · intro hx e he
    exact hx e (hmem e he)
  · intro j hj
    rw [lookup_build_distinct x.shape x.entries x.fill hg.nodup hg.wf j]
    exact hr.val j hj

/-! ### COO → GCXS → COO -/

theorem vals_transposeCore (x : COO Int) (axes : List Nat) :
    ∀ e ∈ (x.transposeCore axes).entries, ∃ e0 ∈ x.entries, e.2 = e0.2 := by
  unfold transposeCore
  split
  · intro e he; exact ⟨e, he, rfl⟩
  · exact vals_sort_mapIdx _ _ _

theorem vals_reshapeCore (x : COO Int) (s : List Nat) :
    ∀ e ∈ (x.reshapeCore s).entries, ∃ e0 ∈ x.entries, e.2 = e0.2 := by
  unfold reshapeCore
  split
  · intro e he; exact ⟨e, he, rfl⟩
  · exact fun e he => vals_mapIdx (fun i => unravel (ravel i x.shape) s) x.entries e he

namespace GCXS

/-- the COO array `tocoo` returns for a freshly compressed canonical array is in canonical order and
stores the operand's values -/
theorem tocoo_fromCooCore_good (x : COO Int) (caxes : List Nat) (hwf : x.WF) (hnd : (keysOf x.entries).Nodup)
    (hcnd : caxes.Nodup) (hclt : ∀ a ∈ caxes, a < x.shape.length) :
    SortedLin (fromCooCore x caxes).tocoo.shape (fromCooCore x caxes).tocoo.entries ∧
    ∀ e ∈ (fromCooCore x caxes).tocoo.entries, ∃ e0 ∈ x.entries, e.2 = e0.2 := by
  have hperm := axisOrder_perm x.shape.length caxes hcnd hclt
  obtain ⟨hplen, _, hpmem⟩ := perm_range_facts_c hperm
  rw [tocoo_fromCooCore_eq x caxes hwf hperm]
  obtain ⟨hes_in, hes_nd, _⟩ := csEs_facts x caxes hwf hnd hperm
  have hc2 := build_wf_sorted [csR x caxes, csC x caxes] (csEs x caxes) x.fill false hes_in
  have hc2mem := (build_distinct_good [csR x caxes, csC x caxes] (csEs x caxes) x.fill hes_nd hes_in).2
  have hc2shape : (COO.build [csR x caxes, csC x caxes] (csEs x caxes) x.fill false true false).shape
      = [csR x caxes, csC x caxes] := rfl
  have hsize : prod (COO.build [csR x caxes, csC x caxes] (csEs x caxes) x.fill false true false).shape
      = prod (gather x.shape (axisOrder x.shape.length caxes)) := by
    rw [hc2shape, ← csR_mul_csC]; simp [prod, Nat.mul_comm]
  have hy1wf := reshapeCore_wf _ _ hc2.1 hsize
  have hy1sorted := COO.reshapeCore_sorted _ _ hc2.1 hsize hc2.2
  have hy1sh := reshapeCore_shape (COO.build [csR x caxes, csC x caxes] (csEs x caxes) x.fill false true false)
    (gather x.shape (axisOrder x.shape.length caxes))
  have hqperm : (invPerm (axisOrder x.shape.length caxes)).Perm
      (List.range ((COO.build [csR x caxes, csC x caxes] (csEs x caxes) x.fill false true false).reshapeCore
        (gather x.shape (axisOrder x.shape.length caxes))).shape.length) := by
    rw [hy1sh.1, gather_length, hplen]
    exact invPerm_perm hperm
  refine ⟨(COO.transposeCore_facts _ _ hqperm hy1wf (by rw [hy1sh.1]; exact hy1sorted)).2.2.2, ?_⟩
  intro e he
  obtain ⟨e1, he1, h1⟩ := vals_transposeCore _ _ e he
  obtain ⟨e2, he2, h2⟩ := vals_reshapeCore _ _ e1 he1
  have he3 := hc2mem e2 he2
  obtain ⟨e0, he0, h3⟩ := List.mem_map.mp ((csEs_perm x caxes hwf hperm).mem_iff.mp he3)
  exact ⟨e0, he0, by rw [h1, h2, ← h3]⟩

/-- the same through `_from_coo`, every rank and every accepted `compressed_axes` -/
theorem tocoo_fromCoo_good (x : COO Int) (c : Option (List Nat)) (g : GCXS Int) (h : fromCoo x c = .ok g)
    (hwf : x.WF) (hnd : (keysOf x.entries).Nodup) :
    gcxsAxesOk x.shape.length c = true ∧ SortedLin g.tocoo.shape g.tocoo.entries ∧
      ∀ e ∈ g.tocoo.entries, ∃ e0 ∈ x.entries, e.2 = e0.2 := by
  unfold fromCoo at h
  split at h
  · -- 0-d
    rename_i hlen
    cases c with
    | some _ => cases h
    | none =>
      simp only [Except.ok.injEq] at h
      subst h
      have hes : (x.vals.map fun d => (([] : Idx), d)) = x.entries := by
        unfold COO.vals
        rw [List.map_map]
        conv => rhs; rw [← List.map_id x.entries]
        apply List.map_congr_left
        intro e he
        have hin := hwf e he
        have hs : x.shape = [] := List.length_eq_zero_iff.mp hlen
        rw [hs] at hin
        have : e.1 = [] := by
          cases hk : e.1 with
          | nil => rfl
          | cons a as => rw [hk] at hin; exact absurd hin (by simp)
        simp only [Function.comp, id]
        rw [← this]
      refine ⟨by simp [gcxsAxesOk, hlen], ?_⟩
      unfold tocoo
      simp only [hlen, if_true, hes]
      obtain ⟨hgood, hmem⟩ := build_distinct_good x.shape x.entries x.fill hnd hwf
      exact ⟨hgood.sorted, fun e he => ⟨e, hmem e he, rfl⟩⟩
  · -- 1-d
    rename_i hlen
    cases c with
    | some _ => cases h
    | none =>
      simp only [Except.ok.injEq] at h
      subst h
      have hes : (((x.keys.map fun k => k.getD 0 0).zip x.vals).map fun p => ([p.1], p.2)) = x.entries := by
        unfold COO.vals COO.keys
        rw [List.map_map, List.zip_map', List.map_map]
        conv => rhs; rw [← List.map_id x.entries]
        apply List.map_congr_left
        intro e he
        have hin := hwf e he
        obtain ⟨d, hs⟩ : ∃ d, x.shape = [d] := List.length_eq_one_iff.mp hlen
        rw [hs] at hin
        have : [e.1.getD 0 0] = e.1 := by
          cases hk : e.1 with
          | nil => rw [hk] at hin; exact absurd hin (by simp)
          | cons a as =>
            cases as with
            | nil => simp
            | cons b bs => rw [hk] at hin; exact absurd hin.2 (by simp)
        simp only [Function.comp, id]
        rw [this]
      refine ⟨by simp [gcxsAxesOk, hlen], ?_⟩
      unfold tocoo
      have hne : ¬ x.shape.length = 0 := by omega
      simp only [hne, if_false, hes]
      obtain ⟨hgood, hmem⟩ := build_distinct_good x.shape x.entries x.fill hnd hwf
      exact ⟨hgood.sorted, fun e he => ⟨e, hmem e he, rfl⟩⟩
  · -- n-d, n ≥ 2
    rename_i n hlen
    cases c with
    | none =>
      simp only [Except.ok.injEq] at h
      subst h
      refine ⟨by simp [gcxsAxesOk, hlen], ?_⟩
      apply tocoo_fromCooCore_good x _ hwf hnd (by simp)
      intro a ha
      simp only [List.mem_singleton] at ha
      subst ha
      apply List.idxOf_lt_length_of_mem
      cases hs : x.shape with
      | nil => rw [hs] at hlen; simp at hlen
      | cons d ds =>
        have := foldl_min_mem (d :: ds) d
        simp only [List.getD_cons_zero]
        rcases this with h | h
        · rw [h]; exact List.mem_cons_self
        · exact h
    | some cx =>
      simp only at h
      split at h
      · cases h
      · split at h
        · cases h
        · split at h
          · cases h
          · rename_i h1 h2 h3
            simp only [Except.ok.injEq] at h
            subst h
            have hpw : cx.Pairwise (· < ·) := by simpa using h2
            have hall : ∀ a ∈ cx, a < n + 2 := by
              intro a ha
              have := h3
              simp only [List.any_eq_true, decide_eq_true_eq, not_exists, not_and] at this
              have := this a ha
              omega
            refine ⟨?_, ?_⟩
            · have h3' : cx.any (fun a => decide (a ≥ n + 2)) = false := by simpa using h3
              have h1' : decide (cx.length ≥ n + 2) = false := by simpa using h1
              simp only [gcxsAxesOk, hlen, h1', h3', decide_eq_true hpw, Bool.not_false, Bool.and_self]
            · apply tocoo_fromCooCore_good x cx hwf hnd
              · exact hpw.imp (fun {a b} hab => by omega)
              · rw [hlen]; exact hall

/-- what `_from_coo` rejects is exactly what `gcxsAxesOk` rejects, always with `ValueError` -/
theorem fromCoo_rejects (x : COO Int) (c : Option (List Nat)) (e : Err) (h : fromCoo x c = .error e) :
    e = .value ∧ gcxsAxesOk x.shape.length c = false := by
  unfold fromCoo at h
  split at h
  · rename_i hlen
    cases c with
    | some _ => exact ⟨(Except.error.inj h).symm, by simp [gcxsAxesOk, hlen]⟩
    | none => cases h
  · rename_i hlen
    cases c with
    | some _ => exact ⟨(Except.error.inj h).symm, by simp [gcxsAxesOk, hlen]⟩
    | none => cases h
  · rename_i n hlen
    cases c with
    | none => cases h
    | some cx =>
      simp only at h
      split at h
      · rename_i h1
        refine ⟨(Except.error.inj h).symm, ?_⟩
        have h1' : decide (cx.length ≥ n + 2) = true := by simpa using h1
        simp only [gcxsAxesOk, hlen, h1', Bool.not_true, Bool.false_and]
      · split at h
        · rename_i h1 h2
          refine ⟨(Except.error.inj h).symm, ?_⟩
          have h2' : decide (List.Pairwise (fun a b => a < b) cx) = false := by simpa using h2
          simp only [gcxsAxesOk, hlen, h2', Bool.and_false, Bool.false_and]
        · split at h
          · rename_i h1 h2 h3
            refine ⟨(Except.error.inj h).symm, ?_⟩
            simp only [gcxsAxesOk, hlen, h3, Bool.not_true, Bool.and_false]
          · cases h

end GCXS

theorem viaGcxs_step (x : COO Int) (d : Dense) (c : Option (List Nat)) (hg : Good x) (hr : Refines x d) :
    Sim x.NoFill (Expr.mViaGcxs x c) (Expr.sViaGcxs d c) := by
  unfold Expr.mViaGcxs Expr.sViaGcxs
  rw [← hr.shape]
  cases hfc : GCXS.fromCoo x c with
  | error e =>
    obtain ⟨h1, h2⟩ := GCXS.fromCoo_rejects x c e hfc
    simp only []
    rw [h2, h1]
    exact Sim.err _
  | ok g =>
    obtain ⟨hok, hsorted, hvals⟩ := GCXS.tocoo_fromCoo_good x c g hfc hg.wf hg.nodup
    obtain ⟨hget, hshape, hfill, hwf, _⟩ := C05.tocoo_fromCoo_ok x c g hfc hg.wf hg.nodup
    simp only []
    rw [hok]
    simp only [if_true]
    refine Sim.ok ⟨hwf, hsorted⟩ (noFill_of_vals hfill hvals) ⟨hshape.trans hr.shape, hfill.trans hr.fill, ?_⟩
    intro i hi
    rw [hshape] at hi
    rw [hget i hi]
    exact hr.val i hi

end SparseV

/-
  SparseV.Lemmas.GcxsFlat — the reduction of an n-d GCXS key to a (rows, cols) problem:
  Boolean masks instead of axis lists (`compressed_axes` is strictly increasing, so `x[axis_order]` is
  "the masked part, then the rest"), `convert_to_flat` enumerates the selected positions in row-major order,
  unit axes (integers in the key) do not change a linear location.
-/
import SparseV.Lemmas.GcxsSelect
import SparseV.Lemmas.Reduce
import SparseV.Lemmas.Range
namespace SparseV
open COO
namespace GIx

/-! ### masks -/

/-- positions of `true`, counted from `k` -/
def idxsFrom : Nat → List Bool → List Nat
  | _, [] => []
  | k, b :: m => if b then k :: idxsFrom (k + 1) m else idxsFrom (k + 1) m

theorem mem_idxsFrom : ∀ (m : List Bool) (k a : Nat),
    a ∈ idxsFrom k m ↔ k ≤ a ∧ a - k < m.length ∧ m.getD (a - k) false = true
  | [], k, a => by simp [idxsFrom]
  | b :: m, k, a => by
    have ih := mem_idxsFrom m (k + 1) a
    unfold idxsFrom
    by_cases hak : a = k
    · subst hak
      cases b with
      | true => simp
      | false =>
        simp only [Bool.false_eq_true, if_false, ih]
        simp
        intro h; omega
    · have hsub : k ≤ a → a - k = (a - (k + 1)) + 1 := by omega
      cases b with
      | true =>
        simp only [if_true, List.mem_cons, hak, false_or, ih, List.length_cons]
        constructor
        · rintro ⟨h1, h2, h3⟩
          refine ⟨by omega, by omega, ?_⟩
          rw [hsub (by omega), List.getD_cons_succ]; exact h3
        · rintro ⟨h1, h2, h3⟩
          have hk : k + 1 ≤ a := by omega
          rw [hsub h1, List.getD_cons_succ] at h3
          exact ⟨hk, by omega, h3⟩
      | false =>
        simp only [Bool.false_eq_true, if_false, ih, List.length_cons]
        constructor
        · rintro ⟨h1, h2, h3⟩
          refine ⟨by omega, by omega, ?_⟩
          rw [hsub (by omega), List.getD_cons_succ]; exact h3
        · rintro ⟨h1, h2, h3⟩
          have hk : k + 1 ≤ a := by omega
          rw [hsub h1, List.getD_cons_succ] at h3
          exact ⟨hk, by omega, h3⟩

theorem idxsFrom_sorted : ∀ (m : List Bool) (k : Nat), (idxsFrom k m).Pairwise (· < ·)
  | [], _ => by simp [idxsFrom]
  | b :: m, k => by
    unfold idxsFrom
    have ih := idxsFrom_sorted m (k + 1)
    cases b with
    | false => simpa using ih
    | true =>
      simp only [if_true, List.pairwise_cons]
      refine ⟨fun a ha => ?_, ih⟩
      have := (mem_idxsFrom m (k + 1) a).mp ha
      omega

theorem idxsFrom_length : ∀ (m : List Bool) (k : Nat), (idxsFrom k m).length = (m.filter id).length
  | [], _ => rfl
  | b :: m, k => by
    unfold idxsFrom
    cases b <;> simp [idxsFrom_length m (k + 1)]

/-- `xs[idxs]` for the positions of a mask is the masked sublist -/
theorem gatherD_idxsFrom {β : Type} (d : β) : ∀ (m : List Bool) (xs pre : List β), xs.length = m.length →
    (idxsFrom pre.length m).map (fun a => (pre ++ xs).getD a d) = sel m xs
  | [], xs, _, _ => by simp [idxsFrom, sel]
  | b :: m, [], _, h => by simp at h
  | b :: m, x :: xs, pre, h => by
    have ih := gatherD_idxsFrom d m xs (pre ++ [x]) (by simpa using h)
    simp only [List.length_append, List.length_cons, List.length_nil, Nat.zero_add, List.append_assoc,
      List.cons_append, List.nil_append] at ih
    unfold idxsFrom sel
    cases b with
    | true =>
      simp only [if_true, List.map_cons, ih]
      congr 1
      simp [List.getD_eq_getElem?_getD]
    | false => simp only [Bool.false_eq_true, if_false, ih]

theorem gather_idxsFrom (m : List Bool) (xs : List Nat) (h : xs.length = m.length) :
    gather xs (idxsFrom 0 m) = sel m xs := by
  have := gatherD_idxsFrom 0 m xs [] h
  simpa [gather] using this

theorem filter_range'_idxsFrom (p : Nat → Bool) : ∀ (n k : Nat),
    (List.range' k n).filter p = idxsFrom k ((List.range' k n).map p)
  | 0, _ => rfl
  | n + 1, k => by
    rw [List.range'_succ, List.filter_cons, List.map_cons]
    unfold idxsFrom
    rw [filter_range'_idxsFrom p n (k + 1)]

/-- the mask of an axis list over `range n` -/
def maskOf (n : Nat) (axes : List Nat) : List Bool := (List.range n).map fun a => axes.contains a

theorem maskOf_length (n : Nat) (axes : List Nat) : (maskOf n axes).length = n := by simp [maskOf]

theorem restAxes_eq (n : Nat) (axes : List Nat) :
    restAxes n axes = idxsFrom 0 ((maskOf n axes).map not) := by
  unfold restAxes maskOf
  rw [List.range_eq_range', filter_range'_idxsFrom, List.map_map]
  rfl

/-- two strictly increasing lists with the same elements are equal -/
theorem eq_of_sorted_mem : ∀ (a b : List Nat), a.Pairwise (· < ·) → b.Pairwise (· < ·) → (∀ x, x ∈ a ↔ x ∈ b) → a = b
  | [], [], _, _, _ => rfl
  | [], y :: b, _, _, h => by have := (h y).mpr List.mem_cons_self; simp at this
  | x :: a, [], _, _, h => by have := (h x).mp List.mem_cons_self; simp at this
  | x :: a, y :: b, ha, hb, h => by
    have ha' := List.pairwise_cons.mp ha
    have hb' := List.pairwise_cons.mp hb
    have hxy : x = y := by
      have h1 := (h x).mp List.mem_cons_self
      have h2 := (h y).mpr List.mem_cons_self
      rcases List.mem_cons.mp h1 with h1 | h1
      · exact h1
      · rcases List.mem_cons.mp h2 with h2 | h2
        · exact h2.symm
        · have := hb'.1 x h1; have := ha'.1 y h2; omega
    subst hxy
    congr 1
    apply eq_of_sorted_mem a b ha'.2 hb'.2
    intro z
    constructor
    · intro hz
      have := (h z).mp (List.mem_cons_of_mem _ hz)
      rcases List.mem_cons.mp this with h1 | h1
      · have := ha'.1 z hz; omega
      · exact h1
    · intro hz
      have := (h z).mpr (List.mem_cons_of_mem _ hz)
      rcases List.mem_cons.mp this with h1 | h1
      · have := hb'.1 z hz; omega
      · exact h1

/-- a strictly increasing in-range axis list is the list of positions of its mask -/
theorem idxsFrom_maskOf (n : Nat) (axes : List Nat) (hp : axes.Pairwise (· < ·)) (hlt : ∀ a ∈ axes, a < n) :
    idxsFrom 0 (maskOf n axes) = axes := by
  apply eq_of_sorted_mem _ _ (idxsFrom_sorted _ _) hp
  intro x
  rw [mem_idxsFrom]
  simp only [Nat.zero_le, Nat.sub_zero, true_and, maskOf_length]
  constructor
  · rintro ⟨h1, h2⟩
    unfold maskOf at h2
    rw [List.getD_eq_getElem?_getD, List.getElem?_eq_getElem (by simpa using h1)] at h2
    simpa using h2
  · intro hx
    refine ⟨hlt x hx, ?_⟩
    unfold maskOf
    rw [List.getD_eq_getElem?_getD, List.getElem?_eq_getElem (by simpa using hlt x hx)]
    simpa using hx

theorem sel_length_le {β : Type} : ∀ (m : List Bool) (xs : List β), (sel m xs).length ≤ xs.length
  | [], _ => by simp [sel]
  | _ :: _, [] => by simp [sel]
  | b :: m, x :: xs => by
    unfold sel
    have := sel_length_le m xs
    cases b <;> simp <;> omega

theorem sel_length {β : Type} : ∀ (m : List Bool) (xs : List β), xs.length = m.length →
    (sel m xs).length = (m.filter id).length
  | [], [], _ => rfl
  | [], _ :: _, h => by simp at h
  | _ :: _, [], h => by simp at h
  | b :: m, x :: xs, h => by
    unfold sel
    have := sel_length m xs (by simpa using h)
    cases b <;> simp [this]

/-- `x[axis_order]` is the masked part followed by the rest -/
theorem gather_axisOrder (n : Nat) (axes xs : List Nat) (hp : axes.Pairwise (· < ·)) (hlt : ∀ a ∈ axes, a < n)
    (hx : xs.length = n) :
    gather xs (axisOrder n axes) = sel (maskOf n axes) xs ++ sel ((maskOf n axes).map not) xs := by
  unfold axisOrder
  have : gather xs (axes ++ restAxes n axes) = gather xs axes ++ gather xs (restAxes n axes) := by simp [gather]
  rw [this, restAxes_eq]
  conv => lhs; arg 1; rw [← idxsFrom_maskOf n axes hp hlt]
  rw [gather_idxsFrom _ _ (by rw [maskOf_length, hx]), gather_idxsFrom _ _ (by simp [maskOf_length, hx])]

/-! ### `convert_to_flat` -/

/-- the element of every per-axis index array selected by a multi-position -/
def pick : List (List Nat) → Idx → Idx
  | a :: A, p :: ps => a.getD p 0 :: pick A ps
  | _, _ => []

theorem flatMap_eq_range {β : Type} (l : List Nat) (F : Nat → List β) :
    l.flatMap F = (List.range l.length).flatMap fun i => F (l.getD i 0) := by
  have : l = (List.range l.length).map fun i => l.getD i 0 := by
    apply List.ext_getElem
    · simp
    · intro i h1 h2
      simp [List.getD_eq_getElem?_getD, h1]
  conv => lhs; rw [this]
  rw [List.flatMap_map]

theorem strides_length : ∀ (s : List Nat), (strides s).length = s.length
  | [] => rfl
  | _ :: ds => by simp [strides, strides_length ds]

/-- **`convert_to_flat`** lists, in row-major order of the multi-positions, the linear location (in `shape`) of the
index picked from the per-axis arrays -/
theorem convertToFlat_spec : ∀ (A : List (List Nat)) (S : List Nat), A.length = S.length →
    convertToFlat A S = (allIdx (A.map List.length)).map fun p => ravel (pick A p) S
  | [], [], _ => by simp [convertToFlat, flatGo, allIdx, strides, ravel, pick]
  | [], _ :: _, h => by simp at h
  | _ :: _, [], h => by simp at h
  | a :: A, d :: S, h => by
    have ih := convertToFlat_spec A S (by simpa using h)
    unfold convertToFlat at ih ⊢
    simp only [strides, List.zip_cons_cons, List.map_cons, flatGo, allIdx]
    rw [ih, List.flatMap_map, flatMap_eq_range, List.map_flatMap]
    apply flatMap_congr_mem
    intro i _
    rw [List.map_map, List.map_map]
    apply List.map_congr_left
    intro p _
    simp [pick, ravel]

theorem convertToFlat_length (A : List (List Nat)) (S : List Nat) (h : A.length = S.length) :
    (convertToFlat A S).length = prod (A.map List.length) := by
  rw [convertToFlat_spec A S h, List.length_map, allIdx_length]

theorem convertToFlat_getD (A : List (List Nat)) (S : List Nat) (h : A.length = S.length) (J : Idx)
    (hJ : InB J (A.map List.length)) :
    (convertToFlat A S).getD (ravel J (A.map List.length)) 0 = ravel (pick A J) S := by
  have hlt : ravel J (A.map List.length) < (allIdx (A.map List.length)).length := by
    rw [allIdx_length]; exact ravel_lt hJ
  rw [convertToFlat_spec A S h, List.getD_eq_getElem?_getD, List.getElem?_eq_getElem (by simpa using hlt),
    Option.getD_some, List.getElem_map, allIdx_getElem _ _ hlt, unravel_ravel hJ]

end GIx
end SparseV

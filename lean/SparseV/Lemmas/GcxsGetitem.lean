/-
  SparseV.Lemmas.GcxsGetitem — `_getitem` on an n-d GCXS array: the (rows, cols) problem in mask form, the three
  post-processing cases, and the refinement statement `r.tocoo.get j = g.tocoo.get (srcOf key j)`.
-/
import SparseV.Lemmas.GcxsVec
namespace SparseV
open COO Spec
namespace GIx

/-! ### setup: the model's index-list expressions in mask form -/

theorem maskOf_idxsFrom (m : List Bool) : maskOf m.length (idxsFrom 0 m) = m := by
  apply List.ext_getElem
  · simp [maskOf]
  · intro i h1 h2
    simp only [maskOf, List.getElem_map, List.getElem_range]
    have hmem := mem_idxsFrom m 0 i
    simp only [Nat.zero_le, Nat.sub_zero, true_and] at hmem
    cases hb : m[i] with
    | true =>
      have : i ∈ idxsFrom 0 m := by
        rw [hmem]
        refine ⟨h2, ?_⟩
        rw [List.getD_eq_getElem?_getD, List.getElem?_eq_getElem h2, Option.getD_some, hb]
      simpa using this
    | false =>
      have : ¬ i ∈ idxsFrom 0 m := by
        rw [hmem]
        rintro ⟨_, h⟩
        rw [List.getD_eq_getElem?_getD, List.getElem?_eq_getElem h2, Option.getD_some, hb] at h
        cases h
      simpa using this

theorem filter_map_sel {β γ : Type} (p : β → Bool) (f : β → γ) : ∀ (l : List β),
    (l.filter p).map f = sel (l.map p) (l.map f)
  | [] => by simp [sel]
  | a :: l => by
    rw [List.filter_cons, List.map_cons, List.map_cons]
    unfold sel
    cases p a <;> simp [filter_map_sel p f l]

theorem newCaxes_eq : ∀ (c : Nat) (key : List NIx) (cm : List Bool),
    newCaxes c key cm = idxsFrom c (sel (key.map keyOut) cm)
  | _, [], _ => by simp [newCaxes, sel, idxsFrom]
  | _, _ :: _, [] => by simp [newCaxes, sel, idxsFrom]
  | c, k :: ks, b :: bs => by
    unfold newCaxes
    rw [List.map_cons]
    unfold sel
    cases hk : keyOut k with
    | true =>
      simp only [if_true]
      unfold idxsFrom
      cases b <;> simp [newCaxes_eq (c + 1) ks bs]
    | false => simp [newCaxes_eq c ks bs]

theorem any_zip_sel (p : NIx → Bool) : ∀ (key : List NIx) (cm : List Bool),
    (key.zip cm).any (fun q => p q.1 && q.2) = (sel (key.map p) cm).any id
  | [], _ => by simp [sel]
  | _ :: _, [] => by simp [sel]
  | k :: ks, b :: bs => by
    rw [List.zip_cons_cons, List.any_cons, List.map_cons]
    unfold sel
    cases hp : p k <;> simp [any_zip_sel p ks bs]

theorem any_zip_sel_not (p : NIx → Bool) : ∀ (key : List NIx) (cm : List Bool),
    (key.zip cm).any (fun q => p q.1 && !q.2) = (sel (key.map p) (cm.map not)).any id
  | [], _ => by simp [sel]
  | _ :: _, [] => by simp [sel]
  | k :: ks, b :: bs => by
    rw [List.zip_cons_cons, List.any_cons, List.map_cons, List.map_cons]
    unfold sel
    cases hp : p k <;> simp [any_zip_sel_not p ks bs]

theorem UnitL_sel : ∀ (p m : List Bool) (L : List Nat), p.length = m.length → UnitL m L → UnitL (sel p m) (sel p L)
  | [], [], [], _, _ => by simp [sel, UnitL]
  | c :: p, b :: m, l :: L, hp, h => by
    have ih := UnitL_sel p m L (by simpa using hp) h.2
    cases c with
    | true => simp only [sel, if_true]; exact ⟨h.1, ih⟩
    | false => simp only [sel, Bool.false_eq_true, if_false]; exact ih
  | [], _ :: _, _, hp, _ => by simp at hp
  | _ :: _, [], _, hp, _ => by simp at hp
  | [], [], _ :: _, _, h => absurd h (by simp [UnitL])
  | _ :: _, _ :: _, [], _, h => absurd h (by simp [UnitL])

theorem prod_sel_unitL : ∀ (m : List Bool) (L : List Nat), UnitL m L → prod (sel m L) = prod L
  | [], [], _ => by simp [sel]
  | b :: m, l :: L, h => by
    have ih := prod_sel_unitL m L h.2
    cases b with
    | true => simp only [sel, if_true, prod, ih]
    | false =>
      have hl := h.1 rfl
      subst hl
      simp only [sel, Bool.false_eq_true, if_false, prod, ih]; omega
  | [], _ :: _, h => absurd h (by simp [UnitL])
  | _ :: _, [], h => absurd h (by simp [UnitL])

theorem Units_unitL : ∀ {m : List Bool} {J L : List Nat}, Units m J L → UnitL m L ∧ J.length = m.length
  | [], [], [], _ => by simp [UnitL]
  | b :: m, x :: J, l :: L, h => by
    obtain ⟨h1, h2⟩ := Units_unitL h.2
    exact ⟨⟨fun hb => (h.1 hb).1, h1⟩, by simp [h2]⟩
  | [], [], _ :: _, h => absurd h (by simp [Units])
  | [], _ :: _, _, h => absurd h (by simp [Units])
  | _ :: _, [], _, h => absurd h (by simp [Units])
  | _ :: _, _ :: _, [], h => absurd h (by simp [Units])

/-- selecting with an all-true mask is the identity -/
theorem sel_all_true {β : Type} : ∀ (m : List Bool) (xs : List β), xs.length = m.length → (∀ b ∈ m, b = true) →
    sel m xs = xs
  | [], [], _, _ => rfl
  | b :: m, x :: xs, h, hall => by
    have hb := hall b List.mem_cons_self
    subst hb
    simp only [sel, if_true]
    rw [sel_all_true m xs (by simpa using h) (fun c hc => hall c (List.mem_cons_of_mem _ hc))]
  | [], _ :: _, h, _ => by simp at h
  | _ :: _, [], h, _ => by simp at h

theorem divmod_of_lt (r x C : Nat) (h : x < C) : (r * C + x) / C = r ∧ (r * C + x) % C = x := by
  have hC : 0 < C := by omega
  constructor
  · rw [Nat.add_comm, Nat.add_mul_div_right _ _ hC, Nat.div_eq_of_lt h, Nat.zero_add]
  · rw [Nat.add_comm, Nat.add_mul_mod_self_right, Nat.mod_eq_of_lt h]

/-! ### the index bookkeeping shared by the three cases -/

/-- For a valid key, any axis mask `m` (the compressed axes, or the uncompressed ones) and an in-bounds result index
`j` (expanded to `J` by zeros on the integer axes): the `m`-part of `J` is a multi-position of the `m`-part of the
per-axis arrays; `convert_to_flat` of that part, at the row-major number of that multi-position, is the linear location
of the `m`-part of the operand index `srcOf key j`; and that number is also the linear location of the `m`-part of `j`
within the result shape (integer axes are unit axes). -/
theorem index_core (key : List NIx) (S : List Nat) (hv : GValid key S) (m : List Bool) (hm : m.length = S.length)
    (j : Idx) (hj : InB j (sel (key.map keyOut) ((key.map keyArr).map List.length))) :
    InB (srcOf key j) S ∧
    InB (sel m (expandJ (key.map keyOut) j)) ((sel m (key.map keyArr)).map List.length) ∧
    (convertToFlat (sel m (key.map keyArr)) (sel m S)).getD
        (ravel (sel m (expandJ (key.map keyOut) j)) ((sel m (key.map keyArr)).map List.length)) 0
      = ravel (sel m (srcOf key j)) (sel m S) ∧
    ravel (sel (sel (key.map keyOut) m) j) (sel (sel (key.map keyOut) m) (sel (key.map keyOut) ((key.map keyArr).map List.length)))
      = ravel (sel m (expandJ (key.map keyOut) j)) ((sel m (key.map keyArr)).map List.length) := by
  obtain ⟨hAll, hU⟩ := GValid_facts key S hv
  have hklen := GValid_length key S hv
  obtain ⟨hsel, hJin, hUnits⟩ := expandJ_facts _ _ j hU hj
  have hJlen : (expandJ (key.map keyOut) j).length = key.length := by
    have := (Units_unitL hUnits).2; simpa using this
  have hsm : (sel m (key.map keyArr)).map List.length = sel m ((key.map keyArr).map List.length) := (sel_map _ _ _).symm
  have hJm : InB (sel m (expandJ (key.map keyOut) j)) ((sel m (key.map keyArr)).map List.length) := by
    rw [hsm]; exact InB_sel m hJin
  have hsrc : srcOf key j = pick (key.map keyArr) (expandJ (key.map keyOut) j) := srcOf_eq_pick key j
  refine ⟨?_, hJm, ?_, ?_⟩
  · rw [hsrc]; exact InB_pick hAll hJin
  · rw [convertToFlat_getD _ _ (AllLt_length (AllLt_sel m hAll)) _ hJm, hsrc,
      pick_sel m _ _ (by simp [hm, hklen]) (by rw [hJlen, hm, hklen])]
  · conv => lhs; arg 1; arg 2; rw [← hsel]
    rw [sel_sel_comm (key.map keyOut) m (expandJ (key.map keyOut) j) (by simp [hm, hklen]) (by rw [hJlen, hm, hklen]),
      sel_sel_comm (key.map keyOut) m ((key.map keyArr).map List.length) (by simp [hm, hklen]) (by simp [hm, hklen]), hsm]
    exact (ravel_sel_units _ _ _ (Units_sel m _ _ _ (by simp [hm, hklen]) hUnits)).1

theorem sel_any_comm : ∀ (m p : List Bool), m.length = p.length → (sel m p).any id = (sel p m).any id
  | [], [], _ => rfl
  | b :: m, c :: p, h => by
    have ih := sel_any_comm m p (by simpa using h)
    cases b <;> cases c <;> simp [sel, ih]
  | [], _ :: _, h => by simp at h
  | _ :: _, [], h => by simp at h

theorem UnitL_all_false : ∀ (m : List Bool) (L : List Nat), UnitL m L → m.any id = false → prod L = 1
  | [], [], _, _ => by simp [prod]
  | b :: m, l :: L, h, hall => by
    rw [List.any_cons, Bool.or_eq_false_iff] at hall
    have hb : b = false := by simpa using hall.1
    have hl := h.1 hb
    subst hl
    simp [prod, UnitL_all_false m L h.2 hall.2]
  | [], _ :: _, h, _ => absurd h (by simp [UnitL])
  | _ :: _, [], h, _ => absurd h (by simp [UnitL])

theorem any_true_filter : ∀ (m : List Bool), m.any id = true → 0 < (m.filter id).length
  | [], h => by simp at h
  | b :: m, h => by
    cases b with
    | true => simp
    | false =>
      have : m.any id = true := by simpa using h
      have := any_true_filter m this
      simpa using this

theorem any_not_filter : ∀ (m : List Bool), (m.map not).any id = true → (m.filter id).length < m.length
  | [], h => by simp at h
  | b :: m, h => by
    have hle : (m.filter id).length ≤ m.length := List.length_filter_le _ _
    cases b with
    | false => simp; omega
    | true =>
      have : (m.map not).any id = true := by simpa using h
      have := any_not_filter m this
      simpa using this

/-- where the mask `p` is nowhere true together with `m`, the `p`-positions all lie in the complement of `m` -/
theorem sel_not_all_true : ∀ (p m : List Bool), p.length = m.length → (sel p m).any id = false →
    ∀ b ∈ sel p (m.map not), b = true
  | [], [], _, _ => by simp [sel]
  | c :: p, b :: m, h, hall => by
    cases c with
    | false =>
      simp only [sel, Bool.false_eq_true, if_false, List.map_cons] at hall ⊢
      exact sel_not_all_true p m (by simpa using h) hall
    | true =>
      simp only [sel, if_true, List.any_cons, Bool.or_eq_false_iff, List.map_cons] at hall ⊢
      have hb : b = false := by simpa using hall.1
      intro x hx
      rcases List.mem_cons.mp hx with rfl | hx
      · simp [hb]
      · exact sel_not_all_true p m (by simpa using h) hall.2 x hx
  | [], _ :: _, h, _ => by simp at h
  | _ :: _, [], h, _ => by simp at h

theorem flatMap_replicate_sorted (k : Nat → Nat) : ∀ (R : Nat), (∀ r, r < R → k r ≤ 1) →
    ((List.range R).flatMap fun r => List.replicate (k r) r).Pairwise (· < ·)
  | 0, _ => by simp
  | R + 1, h => by
    rw [List.range_succ, List.flatMap_append, List.pairwise_append]
    refine ⟨flatMap_replicate_sorted k R (fun r hr => h r (by omega)), ?_, ?_⟩
    · simp only [List.flatMap_cons, List.flatMap_nil, List.append_nil]
      have := h R (by omega)
      rcases Nat.le_one_iff_eq_zero_or_eq_one.mp this with h0 | h1
      · rw [h0]; simp
      · rw [h1]; simp
    · intro a ha b hb
      obtain ⟨r, hr, har⟩ := List.mem_flatMap.mp ha
      have e1 := (List.mem_replicate.mp har).2
      simp only [List.flatMap_cons, List.flatMap_nil, List.append_nil] at hb
      have e2 := (List.mem_replicate.mp hb).2
      have := List.mem_range.mp hr
      omega

theorem zip_replicate_zero : ∀ (l : List Nat) (z : List Nat), z.length = l.length → (∀ c ∈ z, c = 0) →
    l.zip z = l.map fun x => (x, 0)
  | [], _, _, _ => by simp
  | _ :: _, [], h, _ => by simp at h
  | a :: l, c :: z, h, hz => by
    rw [List.zip_cons_cons, List.map_cons, hz c List.mem_cons_self,
      zip_replicate_zero l z (by simpa using h) (fun x hx => hz x (List.mem_cons_of_mem _ hx))]

theorem sel_all_false {β : Type} : ∀ (m : List Bool) (xs : List β), m.any id = false → sel m xs = []
  | [], _, _ => by simp [sel]
  | _ :: _, [], _ => by simp [sel]
  | b :: m, x :: xs, h => by
    rw [List.any_cons, Bool.or_eq_false_iff] at h
    have hb : b = false := by simpa using h.1
    subst hb
    simp only [sel, Bool.false_eq_true, if_false]
    exact sel_all_false m xs h.2

theorem length_le_one_of_sorted_zero : ∀ (l : List Nat), l.Pairwise (· < ·) → (∀ x ∈ l, x = 0) → l.length ≤ 1
  | [], _, _ => by simp
  | [_], _, _ => by simp
  | a :: b :: l, hp, hz => by
    have h1 := hz a List.mem_cons_self
    have h2 := hz b (List.mem_cons_of_mem _ List.mem_cons_self)
    have := (List.pairwise_cons.mp hp).1 b List.mem_cons_self
    omega

/-- where every `out`-position lies in the mask `m`, the `m`-part of the per-axis lengths has the product of the
result shape (the other axes of the `m`-part are unit axes) -/
theorem prod_sel_full (out m : List Bool) (L : List Nat) (hU : UnitL out L) (hm : m.length = out.length)
    (hall : ∀ b ∈ sel out m, b = true) : prod (sel m L) = prod (sel out L) := by
  have hL := UnitL_length hU
  rw [← prod_sel_unitL (sel m out) (sel m L) (UnitL_sel m out L hm hU),
    ← sel_sel_comm out m L (by omega) (by omega),
    sel_all_true (sel out m) (sel out L) (by
      rw [sel_length _ _ (by omega), sel_length _ _ (by omega)]) hall]

/-- the row numbers of the stored elements of a well-formed CSR triple -/
theorem uncompress_csr (R C : Nat) (indptr indices : List Nat) (n : Nat) (h : CsrWF R C indptr indices n) :
    uncompress indptr = (List.range R).flatMap (fun r =>
      List.replicate (rowSlice indices (indptr.getD r 0) (indptr.getD (r + 1) 0)).length r) ∧
    (uncompress indptr).length = indices.length := by
  obtain ⟨hlen, h0, hR, _, hm, _, _⟩ := h
  have hle : ∀ r, r < R → indptr.getD (r + 1) 0 ≤ indices.length := fun r hr => by
    rw [← hR]; exact mono_le (fun r => indptr.getD r 0) R (r + 1) hm (by omega)
  have hU : uncompress indptr = (List.range R).flatMap fun r =>
      List.replicate (rowSlice indices (indptr.getD r 0) (indptr.getD (r + 1) 0)).length r := by
    unfold uncompress
    rw [hlen, Nat.add_sub_cancel]
    apply flatMap_congr_mem
    intro r hr
    have := hle r (List.mem_range.mp hr)
    rw [rowSlice_length, Nat.min_eq_left this]
  refine ⟨hU, ?_⟩
  have hI := eq_flatMap_slices indices (fun r => indptr.getD r 0) R h0 hm hR
  rw [hU]
  conv => rhs; rw [hI]
  rw [List.length_flatMap, List.length_flatMap]
  congr 1
  apply List.map_congr_left
  intro r _
  simp

/-- a well-formed CSR triple with ONE column: the row numbers of the stored elements are strictly increasing and
the element of row `q` is the value stored under row number `q` -/
theorem one_col_facts (R : Nat) (indptr indices : List Nat) (dat : List Int)
    (h : CsrWF R 1 indptr indices dat.length) :
    (uncompress indptr).Pairwise (· < ·) ∧ (∀ q ∈ uncompress indptr, q < R) ∧
    dat.length = (uncompress indptr).length ∧
    ∀ (d : Int) (q : Nat), q < R →
      rowGet ((uncompress indptr).zip dat) d q = rowGet (csrRow indptr indices dat q) d 0 := by
  obtain ⟨hU, hUlen⟩ := uncompress_csr R 1 indptr indices dat.length h
  have hzero : ∀ c ∈ indices, c = 0 := fun c hc => by have := h.2.2.2.2.2.2 c hc; omega
  refine ⟨?_, ?_, by rw [hUlen, h.2.2.2.1], ?_⟩
  · rw [hU]
    apply flatMap_replicate_sorted
    intro r hr
    exact length_le_one_of_sorted_zero _ (h.2.2.2.2.2.1 r hr) (fun x hx => hzero x (mem_rowSlice hx))
  · intro q hq
    rw [hU] at hq
    obtain ⟨r, hr, hqr⟩ := List.mem_flatMap.mp hq
    rw [(List.mem_replicate.mp hqr).2]
    exact List.mem_range.mp hr
  · intro d q hq
    obtain ⟨_, _, hlk⟩ := csr_facts R 1 indptr indices dat h
    have := hlk d q 0
    rw [if_pos hq] at this
    rw [← this]
    unfold csrEntries
    rw [zip_replicate_zero (uncompress indptr) indices hUlen.symm hzero, List.zip_map_left, List.map_map]
    exact (lookup_map_inj (fun q => [q, 0]) (fun a b hab => by simpa using hab) _ d q).symm

/-- a well-formed CSR triple with ONE row: the column numbers are strictly increasing and the row is the whole triple -/
theorem one_row_facts (C : Nat) (indptr indices : List Nat) (dat : List Int)
    (h : CsrWF 1 C indptr indices dat.length) :
    indices.Pairwise (· < ·) ∧ (∀ q ∈ indices, q < C) ∧ dat.length = indices.length ∧
    csrRow indptr indices dat 0 = indices.zip dat := by
  obtain ⟨_, h0, hR, hd, _, hs, hlt⟩ := h
  have e1 : rowSlice indices (indptr.getD 0 0) (indptr.getD (0 + 1) 0) = indices := by
    rw [h0, Nat.zero_add, hR]; simp [rowSlice]
  have e2 : rowSlice dat (indptr.getD 0 0) (indptr.getD (0 + 1) 0) = dat := by
    rw [h0, Nat.zero_add, hR, ← hd]; simp [rowSlice]
  refine ⟨by have := hs 0 (by omega); rwa [e1] at this, hlt, hd, ?_⟩
  unfold csrRow
  rw [e1, e2]

theorem GValid_sel : ∀ (m : List Bool) (key : List NIx) (S : List Nat), GValid key S → GValid (sel m key) (sel m S)
  | [], _, _, _ => by simp [sel, GValid]
  | _ :: _, [], [], _ => by simp [sel, GValid]
  | _ :: _, [], _ :: _, h => absurd h (by simp [GValid])
  | _ :: _, k :: _, [], h => by cases k <;> exact absurd h (by simp [GValid])
  | b :: m, k :: key, d :: S, h => by
    cases k with
    | newaxis => exact absurd h (by simp [GValid])
    | int n =>
      have ih := GValid_sel m key S h.2
      cases b with
      | true => simp only [sel, if_true]; exact ⟨h.1, ih⟩
      | false => simp only [sel, Bool.false_eq_true, if_false]; exact ih
    | slice a b' s =>
      have ih := GValid_sel m key S h.2
      cases b with
      | true => simp only [sel, if_true]; exact ⟨h.1, ih⟩
      | false => simp only [sel, Bool.false_eq_true, if_false]; exact ih
    | arr xs =>
      have ih := GValid_sel m key S h.2
      cases b with
      | true => simp only [sel, if_true]; exact ⟨h.1, ih⟩
      | false => simp only [sel, Bool.false_eq_true, if_false]; exact ih

end GIx

namespace GCXS
open GIx

/-- the CSR view in mask form: rows / columns / the location of an index -/
theorem view_mask (shape c : List Nat) (hp : c.Pairwise (· < ·)) (hlt : ∀ a ∈ c, a < shape.length) :
    csrR shape c = prod (sel (maskOf shape.length c) shape) ∧
    csrC shape c = prod (sel ((maskOf shape.length c).map not) shape) ∧
    ∀ i : Idx, i.length = shape.length →
      linOf shape c i = ravel (sel (maskOf shape.length c) i) (sel (maskOf shape.length c) shape) *
          prod (sel ((maskOf shape.length c).map not) shape) +
        ravel (sel ((maskOf shape.length c).map not) i) (sel ((maskOf shape.length c).map not) shape) := by
  have hg := gather_axisOrder shape.length c shape hp hlt rfl
  have hlen : (sel (maskOf shape.length c) shape).length = c.length := by
    rw [sel_length _ _ (by rw [maskOf_length]), ← idxsFrom_length _ 0, idxsFrom_maskOf _ _ hp hlt]
  refine ⟨?_, ?_, ?_⟩
  · unfold csrR
    rw [hg, List.take_left' hlen]
  · unfold csrC
    rw [hg, List.drop_left' hlen]
  · intro i hi
    unfold linOf
    rw [hg, gather_axisOrder shape.length c i hp hlt hi]
    apply ravel_append
    rw [sel_length _ _ (by rw [maskOf_length, hi]), sel_length _ _ (by rw [maskOf_length])]

/-- `keyRowsCols` in mask form -/
theorem keyRowsCols_mask (shape c : List Nat) (key : List NIx) (hp : c.Pairwise (· < ·))
    (hlt : ∀ a ∈ c, a < shape.length) (hk : key.length = shape.length) :
    keyRowsCols shape c key =
      (convertToFlat (sel (maskOf shape.length c) (key.map keyArr)) (sel (maskOf shape.length c) shape),
       convertToFlat (sel ((maskOf shape.length c).map not) (key.map keyArr)) (sel ((maskOf shape.length c).map not) shape),
       posSliceOf (sel ((maskOf shape.length c).map not) key)) := by
  have hg := gather_axisOrder shape.length c shape hp hlt rfl
  have hcl : c.length = ((maskOf shape.length c).filter id).length := by
    rw [← idxsFrom_length _ 0, idxsFrom_maskOf _ _ hp hlt]
  have hlen : (sel (maskOf shape.length c) shape).length = c.length := by
    rw [sel_length _ _ (by rw [maskOf_length]), hcl]
  have hrkey : (axisOrder shape.length c).map (fun a => key.getD a (.int 0)) =
      sel (maskOf shape.length c) key ++ sel ((maskOf shape.length c).map not) key := by
    unfold axisOrder
    rw [List.map_append, restAxes_eq]
    conv => lhs; arg 1; rw [← idxsFrom_maskOf shape.length c hp hlt]
    have h1 := gatherD_idxsFrom (NIx.int 0) (maskOf shape.length c) key [] (by rw [maskOf_length, hk])
    have h2 := gatherD_idxsFrom (NIx.int 0) ((maskOf shape.length c).map not) key [] (by simp [maskOf_length, hk])
    simp only [List.length_nil, List.nil_append] at h1 h2
    rw [h1, h2]
  have hlenk : (sel (maskOf shape.length c) (key.map keyArr)).length = c.length := by
    rw [sel_length _ _ (by simp [maskOf_length, hk]), hcl]
  unfold keyRowsCols
  simp only []
  rw [hrkey, hg, List.map_append, ← sel_map, ← sel_map, List.take_left' hlenk, List.drop_left' hlenk,
    List.take_left' hlen, List.drop_left' hlen]
  have hlenk2 : (sel (maskOf shape.length c) key).length = c.length := by
    rw [sel_length _ _ (by simp [maskOf_length, hk]), hcl]
  rw [List.drop_left' hlenk2]

/-- `tocoo` of a well-formed GCXS array in mask form: row = location of the compressed part of the index, column =
location of the uncompressed part -/
theorem tocoo_get_mask (g : GCXS Int) (c : List Nat) (hc : g.caxes = some c) (hwf : g.WF) (i : Idx)
    (hi : InB i g.shape) :
    g.tocoo.get i =
      rowGet (csrRow g.indptr g.indices g.data
        (ravel (sel (maskOf g.shape.length c) i) (sel (maskOf g.shape.length c) g.shape))) g.fill
        (ravel (sel ((maskOf g.shape.length c).map not) i) (sel ((maskOf g.shape.length c).map not) g.shape)) := by
  have hwf' := hwf
  unfold WF at hwf'
  rw [hc] at hwf'
  obtain ⟨_, _, hpw, hclt, _⟩ := hwf'
  obtain ⟨_, hC, hlin⟩ := view_mask g.shape c hpw hclt
  rw [(tocoo_get g c hc hwf).2.2.2.2 i hi, hlin i (InB_length hi), hC]
  have hlt : ravel (sel ((maskOf g.shape.length c).map not) i) (sel ((maskOf g.shape.length c).map not) g.shape)
      < prod (sel ((maskOf g.shape.length c).map not) g.shape) := ravel_lt (InB_sel _ hi)
  obtain ⟨e1, e2⟩ := divmod_of_lt _ _ _ hlt
  rw [e1, e2]

/-- **The selection step of `_getitem` on an n-d array.**  For a well-formed `g` and a valid key the selection
succeeds; the selected triple is a well-formed CSR triple with one row per combination of the compressed-axis entries
and one column per combination of the uncompressed-axis entries; and its entry at (location of the compressed part of
`j`, location of the uncompressed part of `j`) is `g`'s element `srcOf key j`. -/
theorem select_index (g : GCXS Int) (c : List Nat) (hc : g.caxes = some c) (hwf : g.WF) (key : List NIx)
    (hv : GValid key g.shape) :
    ∃ s dat,
      g.select (convertToFlat (sel (maskOf g.shape.length c) (key.map keyArr)) (sel (maskOf g.shape.length c) g.shape))
        (convertToFlat (sel ((maskOf g.shape.length c).map not) (key.map keyArr))
          (sel ((maskOf g.shape.length c).map not) g.shape))
        (posSliceOf (sel ((maskOf g.shape.length c).map not) key)) = .ok (s, dat) ∧
      CsrWF (prod (sel (maskOf g.shape.length c) ((key.map keyArr).map List.length)))
        (prod (sel ((maskOf g.shape.length c).map not) ((key.map keyArr).map List.length))) s.indptr s.indices dat.length ∧
      ∀ j, InB j (sel (key.map keyOut) ((key.map keyArr).map List.length)) →
        InB (srcOf key j) g.shape ∧
        rowGet (csrRow s.indptr s.indices dat
            (ravel (sel (sel (key.map keyOut) (maskOf g.shape.length c)) j)
              (sel (sel (key.map keyOut) (maskOf g.shape.length c)) (sel (key.map keyOut) ((key.map keyArr).map List.length)))))
          g.fill
          (ravel (sel (sel (key.map keyOut) ((maskOf g.shape.length c).map not)) j)
            (sel (sel (key.map keyOut) ((maskOf g.shape.length c).map not))
              (sel (key.map keyOut) ((key.map keyArr).map List.length))))
          = g.tocoo.get (srcOf key j) := by
  have hwf' := hwf
  unfold WF at hwf'
  rw [hc] at hwf'
  obtain ⟨_, _, hpw, hclt, hcsr⟩ := hwf'
  obtain ⟨hR, hC, _⟩ := view_mask g.shape c hpw hclt
  obtain ⟨hAll, hU⟩ := GValid_facts key g.shape hv
  have hcml : (maskOf g.shape.length c).length = g.shape.length := maskOf_length _ _
  have hcml' : ((maskOf g.shape.length c).map not).length = g.shape.length := by simp [maskOf_length]
  have hrows : ∀ r ∈ convertToFlat (sel (maskOf g.shape.length c) (key.map keyArr)) (sel (maskOf g.shape.length c) g.shape),
      r < csrR g.shape c := by
    rw [hR]; exact convertToFlat_lt _ _ (AllLt_sel _ hAll)
  have hcols : posSliceOf (sel ((maskOf g.shape.length c).map not) key) = true →
      (convertToFlat (sel ((maskOf g.shape.length c).map not) (key.map keyArr))
        (sel ((maskOf g.shape.length c).map not) g.shape)).Pairwise (· < ·) := by
    intro hp
    apply convertToFlat_sorted _ _ (AllLt_sel _ hAll)
    rw [sel_map]
    exact posSlice_strict _ _ (GValid_sel _ key g.shape hv) hp
  obtain ⟨s, dat, hsel, hscsr, hlk⟩ := select_spec g _ _ hcsr _ _ hrows _ hcols
  rw [convertToFlat_length _ _ (AllLt_length (AllLt_sel _ hAll)),
    convertToFlat_length _ _ (AllLt_length (AllLt_sel _ hAll)), ← sel_map, ← sel_map] at hscsr
  refine ⟨s, dat, hsel, hscsr, fun j hj => ?_⟩
  obtain ⟨hi, hJc, hrow, hrho⟩ := index_core key g.shape hv _ hcml j hj
  obtain ⟨_, hJu, hcol, hkap⟩ := index_core key g.shape hv _ hcml' j hj
  refine ⟨hi, ?_⟩
  rw [hrho, hkap, hlk g.fill _ _
    (by rw [convertToFlat_length _ _ (AllLt_length (AllLt_sel _ hAll))]; exact ravel_lt hJc)
    (by rw [convertToFlat_length _ _ (AllLt_length (AllLt_sel _ hAll))]; exact ravel_lt hJu),
    hrow, hcol, tocoo_get_mask g c hc hwf _ hi]

theorem map_not_not (m : List Bool) : (m.map not).map not = m := by
  rw [List.map_map]
  conv => rhs; rw [← List.map_id m]
  apply List.map_congr_left
  intro b _; simp

/-- **`_getitem` refines NumPy indexing (array results).**  For a well-formed n-d GCXS array and a valid key with at
least one non-integer entry, `_getitem` succeeds; the result has the shape NumPy gives (`gOutShape`), the operand's fill
value, is again well-formed (rows sorted; a 1-d result has strictly increasing positions), and its element `j` is the
operand's element `srcOf key j`, which lies inside the operand's shape.  All three post-processing cases (both kinds of
axes indexed / only compressed / only uncompressed), both selection kernels, every `compressed_axes`. -/
theorem getitemCore_spec (g : GCXS Int) (key : List NIx) (hwf : g.WF) (hv : GValid key g.shape)
    (ho : key.any keyOut = true) :
    ∃ r, g.getitemCore key = .ok (.arr r) ∧ r.shape = gOutShape key ∧ r.fill = g.fill ∧ (r.WF ∨ r.WF1) ∧
      r.tocoo.shape = gOutShape key ∧ r.tocoo.fill = g.fill ∧
      ∀ j, InB j (gOutShape key) → InB (srcOf key j) g.shape ∧ r.tocoo.get j = g.tocoo.get (srcOf key j) := by
  have hwf' := hwf
  unfold WF at hwf'
  cases hc : g.caxes with
  | none => rw [hc] at hwf'; exact absurd hwf' (by simp)
  | some c =>
  rw [hc] at hwf'
  obtain ⟨_, _, hpw, hclt, hcsr⟩ := hwf'
  have hk := GValid_length key g.shape hv
  obtain ⟨hAll, hU⟩ := GValid_facts key g.shape hv
  have hall : key.all (fun k => !keyOut k) = false := by
    rw [List.all_eq_false]
    obtain ⟨k, hk, hko⟩ := List.any_eq_true.mp ho
    exact ⟨k, hk, by simp [hko]⟩
  obtain ⟨s, dat, hsel, hscsr, hget⟩ := select_index g c hc hwf key hv
  have hm : (List.map (fun a => c.contains a) (List.range g.shape.length)) = maskOf g.shape.length c := rfl
  have hshape : gOutShape key = sel (key.map keyOut) ((key.map keyArr).map List.length) := by
    unfold gOutShape
    rw [filter_map_sel, List.map_map]
    rfl
  unfold getitemCore
  rw [hc]
  simp only [hall, Bool.false_eq_true, if_false]
  rw [keyRowsCols_mask g.shape c key hpw hclt hk]
  simp only [hsel]
  rw [hm, any_zip_sel_not, any_zip_sel, newCaxes_eq]
  have hshape' : List.map (fun k => (keyArr k).length) (List.filter keyOut key) = gOutShape key := rfl
  rw [hshape', hshape]
  -- abbreviations
  have hcml : (maskOf g.shape.length c).length = (key.map keyOut).length := by rw [maskOf_length]; simp [hk]
  have hcml' : ((maskOf g.shape.length c).map not).length = (key.map keyOut).length := by simp [maskOf_length, hk]
  have hLlen : ((key.map keyArr).map List.length).length = (key.map keyOut).length := by simp
  generalize hout : key.map keyOut = out at *
  generalize hL : (key.map keyArr).map List.length = L at *
  generalize hcm : maskOf g.shape.length c = cm at *
  have hrank : 1 ≤ (sel out L).length := by
    rw [sel_length _ _ hLlen]
    apply any_true_filter
    rw [← hout, List.any_map]
    exact ho
  by_cases hanyU : (sel out (cm.map not)).any id = true
  · by_cases hanyC : (sel out cm).any id = true
    · -- both kinds of axes are indexed
      simp only [hanyU, hanyC, Bool.not_true, Bool.false_eq_true, if_false]
      have hnlen : (sel out L).length = (sel out cm).length := by
        rw [sel_length _ _ hLlen, sel_length _ _ hcml]
      have hmask : maskOf (sel out L).length (idxsFrom 0 (sel out cm)) = sel out cm := by
        rw [hnlen]; exact maskOf_idxsFrom _
      have hnot : (sel out cm).map not = sel out (cm.map not) := (sel_map_not out cm).symm
      have hpwR : (idxsFrom 0 (sel out cm)).Pairwise (· < ·) := idxsFrom_sorted _ _
      have hltR : ∀ a ∈ idxsFrom 0 (sel out cm), a < (sel out L).length := by
        intro a ha
        have := (mem_idxsFrom _ 0 a).mp ha
        rw [hnlen]; omega
      obtain ⟨hRv, hCv, _⟩ := view_mask (sel out L) (idxsFrom 0 (sel out cm)) hpwR hltR
      have hRR : csrR (sel out L) (idxsFrom 0 (sel out cm)) = prod (sel cm L) := by
        rw [hRv, hmask, sel_sel_comm out cm L hcml.symm (hLlen.trans hcml.symm), prod_sel_unitL _ _ (UnitL_sel cm out L hcml hU)]
      have hCC : csrC (sel out L) (idxsFrom 0 (sel out cm)) = prod (sel (cm.map not) L) := by
        rw [hCv, hmask, hnot, sel_sel_comm out (cm.map not) L hcml'.symm (hLlen.trans hcml'.symm),
          prod_sel_unitL _ _ (UnitL_sel (cm.map not) out L hcml' hU)]
      have hwfR : (GCXS.mk (sel out L) (some (idxsFrom 0 (sel out cm))) s.indptr s.indices dat g.fill).WF := by
        show idxsFrom 0 (sel out cm) ≠ [] ∧ (idxsFrom 0 (sel out cm)).length < (sel out L).length ∧ _ ∧ _ ∧
          CsrWF (csrR (sel out L) (idxsFrom 0 (sel out cm))) (csrC (sel out L) (idxsFrom 0 (sel out cm)))
            s.indptr s.indices dat.length
        refine ⟨?_, ?_, hpwR, hltR, by rw [hRR, hCC]; exact hscsr⟩
        · intro h
          have h1 := idxsFrom_length (sel out cm) 0
          rw [h] at h1
          have := any_true_filter _ hanyC
          simp at h1; omega
        · rw [idxsFrom_length, hnlen]
          exact any_not_filter _ (by rw [hnot]; exact hanyU)
      obtain ⟨t1, t2, _, _, _⟩ := tocoo_get _ (idxsFrom 0 (sel out cm)) rfl hwfR
      refine ⟨_, rfl, rfl, rfl, Or.inl hwfR, t1, t2, fun j hj => ?_⟩
      obtain ⟨hi, hg⟩ := hget j hj
      refine ⟨hi, ?_⟩
      rw [tocoo_get_mask _ (idxsFrom 0 (sel out cm)) rfl hwfR j hj, ← hg]
      show rowGet (csrRow s.indptr s.indices dat
          (ravel (sel (maskOf (sel out L).length (idxsFrom 0 (sel out cm))) j)
            (sel (maskOf (sel out L).length (idxsFrom 0 (sel out cm))) (sel out L)))) g.fill
          (ravel (sel ((maskOf (sel out L).length (idxsFrom 0 (sel out cm))).map not) j)
            (sel ((maskOf (sel out L).length (idxsFrom 0 (sel out cm))).map not) (sel out L))) = _
      rw [hmask, hnot]
    · -- only uncompressed axes
      have hanyC' : (sel out cm).any id = false := by simpa using hanyC
      simp only [hanyU, hanyC', Bool.not_true, Bool.not_false, Bool.false_eq_true, if_false, if_true]
      have hR1 : prod (sel cm L) = 1 :=
        UnitL_all_false (sel cm out) (sel cm L) (UnitL_sel cm out L hcml hU)
          (by rw [sel_any_comm cm out hcml]; exact hanyC')
      rw [hR1] at hscsr
      obtain ⟨q1, q2, q3, q4⟩ := one_row_facts _ _ _ _ hscsr
      have hfull := sel_not_all_true out cm hcml.symm hanyC'
      have hC : prod (sel (cm.map not) L) = prod (sel out L) := prod_sel_full out _ L hU hcml' hfull
      obtain ⟨v1, v2, v3, v4, v5, v6⟩ := vecResult_spec (sel out L) s.indices dat g.fill hrank q1
        (fun q hq => by rw [← hC]; exact q2 q hq) q3
      refine ⟨_, rfl, v1, v2, v3, v4, v5, fun j hj => ?_⟩
      obtain ⟨hi, hg⟩ := hget j hj
      refine ⟨hi, ?_⟩
      rw [v6 j hj, ← hg, sel_all_false (sel out cm) j hanyC', sel_all_false (sel out cm) (sel out L) hanyC',
        sel_all_true _ j (by rw [sel_length _ _ hcml', InB_length hj, sel_length _ _ hLlen]) hfull,
        sel_all_true _ (sel out L) (by rw [sel_length _ _ hcml', sel_length _ _ hLlen]) hfull]
      show _ = rowGet (csrRow s.indptr s.indices dat 0) g.fill _
      rw [q4]
  · -- only compressed axes
    have hanyU' : (sel out (cm.map not)).any id = false := by simpa using hanyU
    simp only [hanyU', Bool.not_false, if_true]
    have hC1 : prod (sel (cm.map not) L) = 1 :=
      UnitL_all_false (sel (cm.map not) out) (sel (cm.map not) L) (UnitL_sel _ out L hcml' hU)
        (by rw [sel_any_comm _ out hcml']; exact hanyU')
    rw [hC1] at hscsr
    obtain ⟨q1, q2, q3, q4⟩ := one_col_facts _ _ _ _ hscsr
    have hfull : ∀ b ∈ sel out cm, b = true := by
      have := sel_not_all_true out (cm.map not) hcml'.symm hanyU'
      rwa [map_not_not] at this
    have hR : prod (sel cm L) = prod (sel out L) := prod_sel_full out _ L hU hcml hfull
    obtain ⟨v1, v2, v3, v4, v5, v6⟩ := vecResult_spec (sel out L) (uncompress s.indptr) dat g.fill hrank q1
      (fun q hq => by rw [← hR]; exact q2 q hq) q3
    refine ⟨_, rfl, v1, v2, v3, v4, v5, fun j hj => ?_⟩
    obtain ⟨hi, hg⟩ := hget j hj
    refine ⟨hi, ?_⟩
    rw [v6 j hj, ← hg, sel_all_false (sel out (cm.map not)) j hanyU',
      sel_all_false (sel out (cm.map not)) (sel out L) hanyU',
      sel_all_true _ j (by rw [sel_length _ _ hcml, InB_length hj, sel_length _ _ hLlen]) hfull,
      sel_all_true _ (sel out L) (by rw [sel_length _ _ hcml, sel_length _ _ hLlen]) hfull]
    exact q4 g.fill _ (by rw [hR]; exact ravel_lt hj)
theorem srcOf_ints : ∀ (key : List NIx), key.any keyOut = false → srcOf key [] = key.map keyInt
  | [], _ => rfl
  | k :: rest, h => by
    rw [List.any_cons, Bool.or_eq_false_iff] at h
    unfold srcOf
    rw [h.1]
    simp only [Bool.false_eq_true, if_false, List.map_cons, srcOf_ints rest h.2]
    cases k with
    | int v => simp [keyArr, keyInt]
    | slice a b s => simp [keyOut] at h
    | newaxis => simp [keyOut] at h
    | arr xs => simp [keyOut] at h

theorem getD_map_keyInt (key : List NIx) (a : Nat) : (key.map keyInt).getD a 0 = keyInt (key.getD a (.int 0)) := by
  simp only [List.getD_eq_getElem?_getD, List.getElem?_map]
  cases key[a]? with
  | none => simp [keyInt]
  | some k => simp

/-- **`get_single_element`.**  For a well-formed n-d GCXS array and a valid all-integer key, `_getitem` returns the
scalar stored at those integers (the fill value when nothing is stored there). -/
theorem getitemCore_scalar (g : GCXS Int) (key : List NIx) (hwf : g.WF) (hv : GValid key g.shape)
    (ho : key.any keyOut = false) :
    g.getitemCore key = .ok (.scalar (g.tocoo.get (srcOf key []))) ∧ InB (srcOf key []) g.shape := by
  have hwf' := hwf
  unfold WF at hwf'
  cases hc : g.caxes with
  | none => rw [hc] at hwf'; exact absurd hwf' (by simp)
  | some c =>
  rw [hc] at hwf'
  obtain ⟨_, _, hpw, hclt, hcsr⟩ := hwf'
  have hcnd : c.Nodup := hpw.imp (fun {a b} hab => by omega)
  have hall : key.all (fun k => !keyOut k) = true := by
    rw [List.all_eq_true]
    intro k hk
    have := List.any_eq_false.mp ho k hk
    simpa using this
  obtain ⟨hAll, hU⟩ := GValid_facts key g.shape hv
  -- the operand index
  have hi : InB (srcOf key []) g.shape := by
    have hj : InB ([] : Idx) (sel (key.map keyOut) ((key.map keyArr).map List.length)) := by
      rw [sel_all_false _ _ (by rw [List.any_map]; exact ho)]; trivial
    exact (index_core key g.shape hv (maskOf g.shape.length c) (maskOf_length _ _) [] hj).1
  refine ⟨?_, hi⟩
  unfold getitemCore
  rw [hc]
  simp only [hall, if_true]
  congr 2
  unfold getSingle
  have hrk : (axisOrder g.shape.length c).map (fun a => keyInt (key.getD a (.int 0)))
      = gather (srcOf key []) (axisOrder g.shape.length c) := by
    rw [srcOf_ints key ho]
    unfold gather
    apply List.map_congr_left
    intro a _
    rw [getD_map_keyInt]
  simp only []
  rw [hrk]
  have hlinD : ravel (gather (srcOf key []) (axisOrder g.shape.length c)) (gather g.shape (axisOrder g.shape.length c))
      = linOf g.shape c (srcOf key []) := rfl
  have hCD : prod (List.drop c.length (gather g.shape (axisOrder g.shape.length c))) = csrC g.shape c := rfl
  rw [hlinD, hCD, (tocoo_get g c hc hwf).2.2.2.2 _ hi]
  generalize hlin : linOf g.shape c (srcOf key []) = lin
  have hrow : lin / csrC g.shape c < csrR g.shape c := by
    apply Nat.div_lt_of_lt_mul
    rw [Nat.mul_comm, ← hlin]
    exact linOf_lt g.shape c hcnd hclt hi
  have hsorted := hcsr.2.2.2.2.2.1 _ hrow
  unfold csrRow
  have hlen : (rowSlice g.indices (g.indptr.getD (lin / csrC g.shape c) 0) (g.indptr.getD (lin / csrC g.shape c + 1) 0)).length =
      (rowSlice g.data (g.indptr.getD (lin / csrC g.shape c) 0) (g.indptr.getD (lin / csrC g.shape c + 1) 0)).length := by
    rw [rowSlice_length, rowSlice_length, hcsr.2.2.2.1]
  rw [rowGet_zip _ _ _ _ (by omega)]
  by_cases hmem : lin % csrC g.shape c ∈ rowSlice g.indices (g.indptr.getD (lin / csrC g.shape c) 0) (g.indptr.getD (lin / csrC g.shape c + 1) 0)
  · rw [if_pos ((hit_iff_mem _ _ hsorted).mpr hmem), if_pos hmem, searchsorted_of_mem _ _ hsorted hmem,
      rowSlice_getD g.data _ _ _ g.fill 0 (by have := List.idxOf_lt_length_of_mem hmem; omega), Nat.add_comm]
  · rw [if_neg (fun h => hmem ((hit_iff_mem _ _ hsorted).mp h)), if_neg hmem]

/-- for keys without index arrays, validity, result shape and operand index are those of the COO theorems of
`Props/C02` (`Spec.ValidIdx`, `outShape`, `Spec.compose`) -/
theorem basic_key_facts : ∀ (key : List NIx) (shape : List Nat), GValid key shape → NoArr key →
    ValidIdx key shape ∧ gOutShape key = outShape key false ∧ hasOut key = key.any keyOut ∧
    ∀ j, InB j (gOutShape key) → srcOf key j = compose key j
  | [], [], _, _ => by simp [ValidIdx, gOutShape, outShape, hasOut, srcOf, compose]
  | .int n :: rest, d :: ds, hv, hn => by
    obtain ⟨h1, h2, h3, h4⟩ := basic_key_facts rest ds hv.2 hn
    refine ⟨⟨hv.1, h1⟩, ?_, ?_, ?_⟩
    · simpa [gOutShape, outShape, keyOut] using h2
    · simpa [hasOut, keyOut] using h3
    · intro j hj
      have hj' : InB j (gOutShape rest) := by simpa [gOutShape, keyOut] using hj
      simp [srcOf, compose, keyOut, keyArr, h4 j hj']
  | .slice a b s :: rest, d :: ds, hv, hn => by
    obtain ⟨h1, h2, h3, h4⟩ := basic_key_facts rest ds hv.2 hn
    have hg : gOutShape (.slice a b s :: rest) = sliceLen a b s :: gOutShape rest := by
      unfold gOutShape
      rw [List.filter_cons, if_pos (by rfl), List.map_cons]
      simp only [keyArr, arange_length]
    refine ⟨⟨hv.1, h1⟩, ?_, ?_, ?_⟩
    · rw [hg, h2]; rfl
    · simp [hasOut, keyOut]
    · intro j hj
      rw [hg] at hj
      cases j with
      | nil => simp at hj
      | cons t j' =>
        simp only [srcOf, keyOut, if_true, List.headD_cons, List.tail_cons, compose, keyArr]
        rw [arange_getD a s _ t hj.1, h4 j' hj.2]
  | .arr _ :: _, _, _, hn => absurd hn (by simp [NoArr])
  | [], _ :: _, h, _ => absurd h (by simp [GValid])
  | .newaxis :: _, _, h, _ => absurd h (by simp [GValid])
  | .int _ :: _, [], h, _ => absurd h (by simp [GValid])
  | .slice _ _ _ :: _, [], h, _ => absurd h (by simp [GValid])

theorem isFull_noArr : ∀ (idx : List NIx) (shape : List Nat), idx.length = shape.length →
    ((List.zip idx shape).all fun p => match p.1 with
      | .slice a b s => decide (a = 0 ∧ b = (p.2 : Int) ∧ s = 1)
      | _ => false) = true → NoArr idx ∧ GValid idx shape
  | [], [], _, _ => by simp [NoArr, GValid]
  | [], _ :: _, h, _ => by simp at h
  | _ :: _, [], h, _ => by simp at h
  | k :: rest, d :: ds, hl, h => by
    rw [List.zip_cons_cons, List.all_cons, Bool.and_eq_true] at h
    obtain ⟨ih1, ih2⟩ := isFull_noArr rest ds (by simpa using hl) h.2
    cases k with
    | int n => simp at h
    | newaxis => simp at h
    | arr xs => simp at h
    | slice a b s =>
      have h1 := h.1
      simp only [decide_eq_true_eq] at h1
      obtain ⟨ha, hb, hs⟩ := h1
      refine ⟨ih1, ⟨?_, ih2⟩⟩
      left
      subst ha hb hs
      refine ⟨by omega, by omega, by omega, fun _ => by omega⟩

/-- **`getitem` (full-slice shortcut included) refines NumPy indexing.** -/
theorem getitemN_spec (g : GCXS Int) (key : List NIx) (hwf : g.WF) (hv : GValid key g.shape)
    (ho : key.any keyOut = true) :
    ∃ r, g.getitemN key = .ok (.arr r) ∧ r.shape = gOutShape key ∧ r.fill = g.fill ∧ (r.WF ∨ r.WF1) ∧
      r.tocoo.shape = gOutShape key ∧ r.tocoo.fill = g.fill ∧
      ∀ j, InB j (gOutShape key) → InB (srcOf key j) g.shape ∧ r.tocoo.get j = g.tocoo.get (srcOf key j) := by
  unfold getitemN
  by_cases hfull : isFullIndex key g.shape = true
  · rw [if_pos hfull]
    have hf := hfull
    unfold isFullIndex at hf
    simp only [Bool.and_eq_true, decide_eq_true_eq] at hf
    obtain ⟨hna, _⟩ := isFull_noArr key g.shape hf.1.1 hf.2
    obtain ⟨_, hsh, _, hsrc⟩ := basic_key_facts key g.shape hv hna
    obtain ⟨hsh2, hcomp⟩ := isFullIndex_spec false key g.shape hfull
    have hshape : gOutShape key = g.shape := by rw [hsh, hsh2]
    cases hc : g.caxes with
    | none => unfold WF at hwf; rw [hc] at hwf; exact absurd hwf (by simp)
    | some c =>
      obtain ⟨t1, t2, _, _, _⟩ := tocoo_get g c hc hwf
      refine ⟨g, rfl, hshape.symm, rfl, Or.inl hwf, by rw [t1, hshape], t2, fun j hj => ?_⟩
      rw [hsrc j hj, hcomp j (by rw [InB_length hj, hshape])]
      exact ⟨by rw [← hshape]; exact hj, rfl⟩
  · rw [if_neg hfull]
    exact getitemCore_spec g key hwf hv ho

end GCXS
end SparseV

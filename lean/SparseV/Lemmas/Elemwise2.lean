/- SparseV.Lemmas.Elemwise2 — refinement of the two-operand mask algorithm -/
import SparseV.Model.Elemwise2
import SparseV.Lemmas.Assoc
namespace SparseV
namespace COO
variable {α β γ : Type}

theorem mem_of_mem_keysOf {es : List (Idx × α)} {i : Idx} (h : i ∈ keysOf es) : ∃ v, (i, v) ∈ es := by
  obtain ⟨e, he, rfl⟩ := List.mem_map.mp h
  exact ⟨e.2, he⟩

theorem lookup_eq_of_forall {es : List (Idx × γ)} {fill : γ} {i : Idx} {v : γ}
    (hall : ∀ e ∈ es, e.1 = i → e.2 = v) (hex : i ∈ keysOf es) : lookup es fill i = v := by
  unfold lookup
  cases hf : es.find? (fun e => e.1 == i) with
  | none =>
    exfalso
    rw [List.find?_eq_none] at hf
    obtain ⟨e, he, rfl⟩ := List.mem_map.mp hex
    exact hf e he (by simp)
  | some e =>
    have hm := List.mem_of_find?_eq_some hf
    have hk : e.1 = i := by simpa using List.find?_some hf
    exact hall e hm hk

theorem elemwise2_lookup [DecidableEq γ] (f : α → β → γ) (A : List (Idx × α)) (fa : α)
    (B : List (Idx × β)) (fb : β) (hA : (keysOf A).Nodup) (hB : (keysOf B).Nodup) (i : Idx) :
    lookup (elemwise2 f A fa B fb) (f fa fb) i = f (lookup A fa i) (lookup B fb i) := by
  have key : ∀ e ∈ elemwise2 f A fa B fb, e.1 = i → e.2 = f (lookup A fa i) (lookup B fb i) := by
    intro e he hi
    unfold elemwise2 at he
    rw [List.mem_filter] at he
    obtain ⟨hmem, _⟩ := he
    rw [List.mem_append, List.mem_append] at hmem
    rcases hmem with (h | h) | h
    · unfold matched at h
      rw [List.mem_filterMap] at h
      obtain ⟨ea, hja, hsome⟩ := h
      cases hf : B.find? (fun b => b.1 == ea.1) with
      | none => simp [hf] at hsome
      | some eb =>
        simp only [hf, Option.some.injEq] at hsome
        subst hsome
        simp only at hi
        have hbm := List.mem_of_find?_eq_some hf
        have hbk : eb.1 = ea.1 := by simpa using List.find?_some hf
        have h1 : (i, ea.2) ∈ A := by rw [← hi]; exact hja
        have h2 : (i, eb.2) ∈ B := by rw [← hi, ← hbk]; exact hbm
        rw [lookup_of_mem hA h1, lookup_of_mem hB h2]
    · unfold aOnly at h
      rw [List.mem_filterMap] at h
      obtain ⟨ea, hja, hsome⟩ := h
      by_cases hc : (B.map (·.1)).contains ea.1
      · rw [if_pos hc] at hsome; cases hsome
      · simp only [hc, Bool.false_eq_true, if_false, Option.some.injEq] at hsome
        subst hsome
        simp only at hi
        have hnb : i ∉ keysOf B := by rw [← hi]; simpa [keysOf] using hc
        have h1 : (i, ea.2) ∈ A := by rw [← hi]; exact hja
        rw [lookup_of_mem hA h1, lookup_of_not_mem hnb]
    · unfold bOnly at h
      rw [List.mem_filterMap] at h
      obtain ⟨eb, hjb, hsome⟩ := h
      by_cases hc : (A.map (·.1)).contains eb.1
      · rw [if_pos hc] at hsome; cases hsome
      · simp only [hc, Bool.false_eq_true, if_false, Option.some.injEq] at hsome
        subst hsome
        simp only at hi
        have hna : i ∉ keysOf A := by rw [← hi]; simpa [keysOf] using hc
        have h2 : (i, eb.2) ∈ B := by rw [← hi]; exact hjb
        rw [lookup_of_not_mem hna, lookup_of_mem hB h2]
  by_cases hex : i ∈ keysOf (elemwise2 f A fa B fb)
  · exact lookup_eq_of_forall key hex
  · rw [lookup_of_not_mem hex]
    by_cases hv : f (lookup A fa i) (lookup B fb i) = f fa fb
    · exact hv.symm
    · exfalso
      apply hex
      by_cases ha : i ∈ keysOf A <;> by_cases hb : i ∈ keysOf B
      · obtain ⟨a, ham⟩ := mem_of_mem_keysOf ha
        obtain ⟨b, hbm⟩ := mem_of_mem_keysOf hb
        have e1 : lookup A fa i = a := lookup_of_mem hA ham
        have e2 : lookup B fb i = b := lookup_of_mem hB hbm
        have : (i, f a b) ∈ matched f A B := by
          unfold matched
          rw [List.mem_filterMap]
          refine ⟨(i, a), ham, ?_⟩
          simp only
          cases hf : B.find? (fun e => e.1 == i) with
          | none =>
            exfalso; rw [List.find?_eq_none] at hf; exact hf (i, b) hbm (by simp)
          | some eb =>
            have hbm' := List.mem_of_find?_eq_some hf
            have hbk : eb.1 = i := by simpa using List.find?_some hf
            have hm2 : (i, eb.2) ∈ B := by rw [← hbk]; exact hbm'
            have : eb.2 = b := by rw [← lookup_of_mem (d := fb) hB hm2, e2]
            simp [this]
        have hm : (i, f a b) ∈ elemwise2 f A fa B fb := by
          unfold elemwise2
          rw [List.mem_filter]
          refine ⟨by simp [this], ?_⟩
          simp only [ne_eq, decide_eq_true_eq]
          rw [e1, e2] at hv; exact hv
        exact List.mem_map.mpr ⟨_, hm, rfl⟩
      · obtain ⟨a, ham⟩ := mem_of_mem_keysOf ha
        have e1 : lookup A fa i = a := lookup_of_mem hA ham
        have e2 : lookup B fb i = fb := lookup_of_not_mem hb
        have : (i, f a fb) ∈ aOnly f fb A B := by
          unfold aOnly
          rw [List.mem_filterMap]
          refine ⟨(i, a), ham, ?_⟩
          have hcf : ¬ ((B.map (·.1)).contains i = true) := by simpa [keysOf] using hb
          show (if (B.map (·.1)).contains i = true then none else some (i, f a fb)) = some (i, f a fb)
          rw [if_neg hcf]
        have hm : (i, f a fb) ∈ elemwise2 f A fa B fb := by
          unfold elemwise2
          rw [List.mem_filter]
          refine ⟨by simp [this], ?_⟩
          simp only [ne_eq, decide_eq_true_eq]
          rw [e1, e2] at hv; exact hv
        exact List.mem_map.mpr ⟨_, hm, rfl⟩
      · obtain ⟨b, hbm⟩ := mem_of_mem_keysOf hb
        have e1 : lookup A fa i = fa := lookup_of_not_mem ha
        have e2 : lookup B fb i = b := lookup_of_mem hB hbm
        have : (i, f fa b) ∈ bOnly f fa A B := by
          unfold bOnly
          rw [List.mem_filterMap]
          refine ⟨(i, b), hbm, ?_⟩
          have hcf : ¬ ((A.map (·.1)).contains i = true) := by simpa [keysOf] using ha
          show (if (A.map (·.1)).contains i = true then none else some (i, f fa b)) = some (i, f fa b)
          rw [if_neg hcf]
        have hm : (i, f fa b) ∈ elemwise2 f A fa B fb := by
          unfold elemwise2
          rw [List.mem_filter]
          refine ⟨by simp [this], ?_⟩
          simp only [ne_eq, decide_eq_true_eq]
          rw [e1, e2] at hv; exact hv
        exact List.mem_map.mpr ⟨_, hm, rfl⟩
      · rw [lookup_of_not_mem ha, lookup_of_not_mem hb] at hv
        exact absurd rfl hv

end COO
end SparseV

/-
  SparseV.Lemmas.Gen.Slicing — INTERFACE lemmas for the definitions generated from `_slicing.py` (tie T1):
  `Gen.replaceNone`, `Gen.posifySlice`, `Gen.posifyInt`, `Gen.clipSlice`, `Gen.checkIndexInt`.

  Each lemma states that the generated definition computes the hand-written reference below, for ALL arguments.
  This file is the only place where these five definitions are unfolded; see `SparseV/Lemmas/Gen/Tac.lean` for why the
  proofs do not depend on the shape of the generated terms.
-/
import SparseV.Model.Slice
import SparseV.Lemmas.Gen.Tac
namespace SparseV

namespace Ref

/-- `replace_none`: `None` parts of a slice replaced by the defaults of the step's direction (`step = None` is 1) -/
def replaceNone (start stop step : Option Int) (dim : Int) : Int × Int × Int :=
  if 0 < step.getD 1 then (start.getD 0, stop.getD dim, step.getD 1)
  else (start.getD (dim - 1), stop.getD (-dim - 1), step.getD 1)

/-- `posify_index` on a slice without `None`: a negative bound counts from the end -/
def posifySlice (shape start stop step : Int) : Int × Int × Int :=
  (if start < 0 then start + shape else start, if stop < 0 then stop + shape else stop, step)

/-- `posify_index` on an integer -/
def posifyInt (shape ind : Int) : Int := if ind < 0 then ind + shape else ind

/-- `clip_slice`: both bounds clipped to the axis, then `start` clamped to `stop` in the step's direction -/
def clipSlice (start stop step dim : Int) : Int × Int × Int :=
  if 0 < step then (min (max start 0) (min stop dim), min stop dim, step)
  else (max (min start (dim - 1)) (max stop (-1)), max stop (-1), step)

/-- `check_index` on an integer: `IndexError` outside `[-dim, dim)` -/
def checkIndexInt (ind dim : Int) : Except Err Unit :=
  if -dim ≤ ind ∧ ind < dim then .ok () else .error Err.index

end Ref

theorem Gen.replaceNone_eq (start stop step : Option Int) (dim : Int) :
    Gen.replaceNone start stop step dim = Ref.replaceNone start stop step dim := by
  unfold Gen.replaceNone Ref.replaceNone
  cases start <;> cases stop <;> cases step <;> simp only [Option.getD] <;> gen_eq

theorem Gen.posifySlice_eq (shape start stop step : Int) :
    Gen.posifySlice shape start stop step = Ref.posifySlice shape start stop step := by
  unfold Gen.posifySlice Ref.posifySlice
  gen_eq

theorem Gen.posifyInt_eq (shape ind : Int) : Gen.posifyInt shape ind = Ref.posifyInt shape ind := by
  unfold Gen.posifyInt Ref.posifyInt
  gen_eq

theorem Gen.clipSlice_eq (start stop step dim : Int) :
    Gen.clipSlice start stop step dim = Ref.clipSlice start stop step dim := by
  unfold Gen.clipSlice Ref.clipSlice
  gen_eq

theorem Gen.checkIndexInt_eq (ind dim : Int) : Gen.checkIndexInt ind dim = Ref.checkIndexInt ind dim := by
  unfold Gen.checkIndexInt Ref.checkIndexInt
  gen_eq

/-! ## the two pipelines of `normalize_index` (`Model/Slice.lean`) in terms of the references -/

/-- `replace_none` → `posify_index` → `clip_slice` on one slice entry -/
def Ref.normalizeSlice (start stop step : Option Int) (dim : Int) : Int × Int × Int :=
  let r := Ref.replaceNone start stop step dim
  let p := Ref.posifySlice dim r.1 r.2.1 r.2.2
  Ref.clipSlice p.1 p.2.1 p.2.2 dim

theorem normalizeSlice_eq (start stop step : Option Int) (dim : Int) :
    normalizeSlice start stop step dim = Ref.normalizeSlice start stop step dim := by
  simp only [normalizeSlice, Ref.normalizeSlice, Gen.replaceNone_eq, Gen.posifySlice_eq, Gen.clipSlice_eq]

/-- `check_index` then `posify_index` on one integer entry -/
theorem normalizeInt_eq (ind dim : Int) :
    normalizeInt ind dim = (if -dim ≤ ind ∧ ind < dim then .ok (if ind < 0 then ind + dim else ind) else .error Err.index) := by
  simp only [normalizeInt, Gen.checkIndexInt_eq, Gen.posifyInt_eq, Ref.checkIndexInt, Ref.posifyInt]
  by_cases h : -dim ≤ ind ∧ ind < dim
  · rw [if_pos h, if_pos h]
  · rw [if_neg h, if_neg h]

/-- the step is never touched: it is the user's step, `1` for `None` -/
theorem Ref.clipSlice_step (a b s d : Int) : (Ref.clipSlice a b s d).2.2 = s := by
  unfold Ref.clipSlice; split <;> rfl

theorem Ref.replaceNone_step (a b c : Option Int) (d : Int) : (Ref.replaceNone a b c d).2.2 = c.getD 1 := by
  unfold Ref.replaceNone; split <;> rfl

theorem Ref.normalizeSlice_step (a b c : Option Int) (d : Int) : (Ref.normalizeSlice a b c d).2.2 = c.getD 1 := by
  simp only [Ref.normalizeSlice, Ref.clipSlice_step, Ref.posifySlice, Ref.replaceNone_step]

end SparseV

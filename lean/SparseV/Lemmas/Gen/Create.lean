/-
  SparseV.Lemmas.Gen.Create — INTERFACE lemmas for the definitions generated from `_common.eye` (`Gen.eyeLen`, `Gen.eyeCoord`)
  and from the sampler selection of `_utils.random` (`Gen.randomBranch`), tie T1.  The only place where these definitions are
  unfolded; see `SparseV/Lemmas/Gen/Tac.lean`.
-/
import SparseV.Generated.Common
import SparseV.Generated.Utils
import SparseV.Lemmas.Gen.Tac
namespace SparseV

/-- number of ones of `eye(N, M, k)`: `M = None` means `N`; the `k`-th diagonal of an `N × M` matrix -/
def Ref.eyeLen (N : Int) (M : Option Int) (k : Int) : Int :=
  if k > 0 then max (min (min N (M.getD N)) (M.getD N - k)) 0
  else if k < 0 then max (min (min N (M.getD N)) (N + k)) 0
  else min N (M.getD N)

/-- (row, column, 0) of the `t`-th one of the `k`-th diagonal -/
def Ref.eyeCoord (t k : Int) : Int × Int × Int := (if k < 0 then t - k else t, if k > 0 then t + k else t, 0)

theorem Gen.eyeLen_eq (N : Int) (M : Option Int) (k : Int) : Gen.eyeLen N M k = Ref.eyeLen N M k := by
  unfold Gen.eyeLen Ref.eyeLen
  cases M <;> simp only [Option.getD] <;> gen_eq

theorem Gen.eyeCoord_eq (t k : Int) : Gen.eyeCoord t k = Ref.eyeCoord t k := by
  unfold Gen.eyeCoord Ref.eyeCoord
  gen_eq

/-- the seven leaves of the generated selection and what holds at each: only what the samplers need
(`choice` with size 0 or 1, algD with `1 ≤ n < N`, algA with `1 ≤ n ≤ N`) — the `10 *` thresholds between
algA and algD are performance choices and are not pinned here.  Every leaf is visited, whatever tests lead to it: the
tuple identifies the disjunct, the path conditions give the rest. -/
theorem Gen.randomBranch_cases (nnz elements : Int) (dge1 : Bool) (_h0 : 0 ≤ nnz) (h1 : nnz ≤ elements)
    (hd : dge1 = true → nnz = elements) :
    (Gen.randomBranch nnz elements dge1 = (0, nnz, elements) ∧ nnz = elements) ∨
    (Gen.randomBranch nnz elements dge1 = (1, nnz, elements) ∧ nnz < 2 ∧ nnz < elements) ∨
    (Gen.randomBranch nnz elements dge1 = (2, elements - nnz, elements) ∧ 2 ≤ nnz ∧ elements - nnz = 1) ∨
    (Gen.randomBranch nnz elements dge1 = (3, elements - nnz, elements) ∧ 1 ≤ elements - nnz ∧ 1 ≤ nnz) ∨
    (Gen.randomBranch nnz elements dge1 = (4, elements - nnz, elements) ∧ 1 ≤ elements - nnz ∧ 0 ≤ nnz) ∨
    (Gen.randomBranch nnz elements dge1 = (5, nnz, elements) ∧ 1 ≤ nnz ∧ 1 ≤ elements - nnz) ∨
    (Gen.randomBranch nnz elements dge1 = (6, nnz, elements) ∧ 1 ≤ nnz ∧ 0 ≤ elements - nnz) := by
  cases dge1
  · unfold Gen.randomBranch
    try simp only [Bool.false_eq_true, or_false, false_or, if_false]
    repeat' split
    all_goals (simp only [Prod.mk.injEq, true_and, and_true]; omega)
  · have := hd rfl
    unfold Gen.randomBranch
    try simp only [or_true, true_or, if_true]
    repeat' split
    all_goals (simp only [Prod.mk.injEq, true_and, and_true]; omega)

end SparseV

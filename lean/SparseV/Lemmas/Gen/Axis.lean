/-
  SparseV.Lemmas.Gen.Axis — INTERFACE lemma for `Gen.normalizeAxisInt` (the integer branch of `_utils.normalize_axis`, tie T1).
  The only place where that definition is unfolded; see `SparseV/Lemmas/Gen/Tac.lean`.
-/
import SparseV.Generated.Utils
import SparseV.Lemmas.Gen.Tac
namespace SparseV

/-- NumPy's rule: an axis number is accepted iff `-ndim ≤ axis < ndim` and then counts from the end when negative;
otherwise `ValueError` (NumPy's AxisError is one) -/
def Ref.normalizeAxisInt (axis ndim : Int) : Except Err Int :=
  if -ndim ≤ axis ∧ axis < ndim then .ok (if axis < 0 then axis + ndim else axis) else .error Err.value

theorem Gen.normalizeAxisInt_eq (axis ndim : Int) : Gen.normalizeAxisInt axis ndim = Ref.normalizeAxisInt axis ndim := by
  unfold Gen.normalizeAxisInt Ref.normalizeAxisInt
  gen_eq

end SparseV

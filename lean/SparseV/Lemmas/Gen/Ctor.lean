/-
  SparseV.Lemmas.Gen.Ctor — INTERFACE lemmas for the constructor checks translated from `SparseArray.__init__`
  (`Gen.shapeEltOk`), `COO.__init__` (`Gen.cooCtorChecks`) and `GCXS.__init__` (`Gen.gcxsShapeEltOk`, `Gen.gcxsCtorChecksHead`,
  `Gen.gcxsCtorChecks`), tie T1 (tools/targets.d/C14.py).  The only place where these definitions are unfolded: a change of a
  check in one of the three constructors that changes what is accepted makes the lemma about it (and every theorem that
  uses it) fail to check; a change that does not, does not — see `SparseV/Lemmas/Gen/Tac.lean`.
-/
import SparseV.Generated.Compressed
import SparseV.Generated.CooCore
import SparseV.Generated.SparseArray
import SparseV.Lemmas.Gen.Tac
namespace SparseV
namespace Npz

/-- one extent passes iff it is non-negative (members of an integer array are Integral) -/
theorem shapeEltOk_iff (e : Int) : Gen.shapeEltOk e = true ↔ 0 ≤ e := by
  unfold Gen.shapeEltOk
  gen_eq

theorem gcxsShapeEltOk_iff (e : Int) : Gen.gcxsShapeEltOk e = true ↔ 0 ≤ e := by
  unfold Gen.gcxsShapeEltOk
  gen_eq

theorem all_shapeEltOk_iff (s : List Int) : s.all Gen.shapeEltOk = true ↔ ∀ e ∈ s, 0 ≤ e := by
  simp only [List.all_eq_true, shapeEltOk_iff]

theorem all_gcxsShapeEltOk_iff (s : List Int) : s.all Gen.gcxsShapeEltOk = true ↔ ∀ e ∈ s, 0 ≤ e := by
  simp only [List.all_eq_true, gcxsShapeEltOk_iff]

/-- `COO.__init__`: the checks pass iff there is one value per coordinate column and one coordinate row per
dimension; every failure is a ValueError -/
theorem cooCtorChecks_ok_iff (nd nc dim nr : Int) : Gen.cooCtorChecks 2 nd nc dim nr = .ok () ↔ nd = nc ∧ dim = nr := by
  unfold Gen.cooCtorChecks
  gen_eq

theorem cooCtorChecks_cases (a nd nc dim nr : Int) :
    Gen.cooCtorChecks a nd nc dim nr = .ok () ∨ Gen.cooCtorChecks a nd nc dim nr = .error .value := by
  unfold Gen.cooCtorChecks
  gen_eq

set_option maxHeartbeats 4000000 in
/-- `GCXS.__init__`: the checks pass iff every extent is a non-negative integer, there is one value per index
(one dimension and up), — two dimensions and up — `indptr` has `rows + 1` entries, the first 0 and the last
`len(indices)`, it does not decrease, and — when there are indices — the least and greatest index lie in
`[0, cols)` (two dimensions and up) resp. `[0, shape[0])` (one dimension) -/
theorem gcxsCtorChecks_ok_iff (shapeOk dec : Bool) (ndim sh0 nd ni np rows cols p0 pl imin imax : Int) :
    Gen.gcxsCtorChecks 1 shapeOk ndim sh0 nd ni np rows cols p0 pl dec 1 imin imax = .ok () ↔
      shapeOk = true ∧ (1 ≤ ndim → nd = ni)
      ∧ (2 ≤ ndim → np = rows + 1 ∧ p0 = 0 ∧ pl = ni ∧ dec = false ∧ (ni ≠ 0 → 0 ≤ imin ∧ imax < cols))
      ∧ (ndim = 1 → ni ≠ 0 → 0 ≤ imin ∧ imax < sh0) := by
  unfold Gen.gcxsCtorChecks
  cases shapeOk <;> cases dec <;> gen_eq

set_option maxHeartbeats 4000000 in
/-- every failure of these checks is a ValueError -/
theorem gcxsCtorChecks_cases (a b : Int) (shapeOk dec : Bool) (ndim sh0 nd ni np rows cols p0 pl imin imax : Int) :
    Gen.gcxsCtorChecks a shapeOk ndim sh0 nd ni np rows cols p0 pl dec b imin imax = .ok ()
      ∨ Gen.gcxsCtorChecks a shapeOk ndim sh0 nd ni np rows cols p0 pl dec b imin imax = .error .value := by
  unfold Gen.gcxsCtorChecks
  gen_eq

set_option maxHeartbeats 4000000 in
/-- from two dimensions up, a triple whose `indptr` decreases somewhere is never accepted (whatever the other quantities are) -/
theorem gcxsCtorChecks_ok_nondecreasing (a b : Int) (shapeOk dec : Bool) (ndim sh0 nd ni np rows cols p0 pl imin imax : Int)
    (h2 : 2 ≤ ndim)
    (h : Gen.gcxsCtorChecks a shapeOk ndim sh0 nd ni np rows cols p0 pl dec b imin imax = .ok ()) : dec = false := by
  revert h
  unfold Gen.gcxsCtorChecks
  cases dec <;> gen_eq

theorem gcxsCtorChecksHead_ok_iff (shapeOk : Bool) (ndim nd ni : Int) :
    Gen.gcxsCtorChecksHead 1 shapeOk ndim nd ni = .ok () ↔ shapeOk = true ∧ (1 ≤ ndim → nd = ni) := by
  unfold Gen.gcxsCtorChecksHead
  cases shapeOk <;> gen_eq

theorem gcxsCtorChecksHead_cases (a : Int) (shapeOk : Bool) (ndim nd ni : Int) :
    Gen.gcxsCtorChecksHead a shapeOk ndim nd ni = .ok () ∨ Gen.gcxsCtorChecksHead a shapeOk ndim nd ni = .error .value := by
  unfold Gen.gcxsCtorChecksHead
  gen_eq

end Npz
end SparseV

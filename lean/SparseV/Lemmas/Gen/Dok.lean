/-
  SparseV.Lemmas.Gen.Dok — INTERFACE lemma for `Gen.dokSliceBounds`, the slice-bound computation inside `DOK._setitem`
  (tie T1).  The only place where that definition is unfolded; see `SparseV/Lemmas/Gen/Tac.lean`.
-/
import SparseV.Generated.Dok
import SparseV.Lemmas.Gen.Tac
namespace SparseV
namespace Dok

/-- `DOK._setitem`'s slice bounds written by hand (both branches read a missing part as `None`, never by
truthiness): the reference the generated `Gen.dokSliceBounds` is compared with (`gen_is_fixed`).  Until
/repo commit 5f937a6 the negative-step branch read `ind.start or self.shape[i] - 1`, which took a start
of 0 for missing, and the two definitions differed. -/
def dokSliceBoundsFixed (istart istop istep : Option Int) (dim : Int) : Int × Int × Int :=
  let step : Int := (match istep with | none => 1 | some s => s)
  if step > 0 then
    let start : Int := max (match istart with | none => 0 | some s => s) 0
    let stop : Int := min (match istop with | none => dim | some s => s) dim
    if start > stop then (stop, stop, step) else (start, stop, step)
  else
    let start : Int := min (match istart with | none => dim - 1 | some s => s) (dim - 1)
    let stop : Int := max (match istop with | none => -1 | some s => s) (-1)
    if start < stop then (stop, stop, step) else (start, stop, step)

end Dok

/-- the generated bounds are the reference bounds, for every slice and extent -/
theorem Gen.dokSliceBounds_eq (istart istop istep : Option Int) (dim : Int) :
    Gen.dokSliceBounds istart istop istep dim = Dok.dokSliceBoundsFixed istart istop istep dim := by
  unfold Gen.dokSliceBounds Dok.dokSliceBoundsFixed
  cases istart <;> cases istop <;> cases istep <;> gen_eq

end SparseV

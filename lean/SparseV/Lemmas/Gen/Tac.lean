/-
  SparseV.Lemmas.Gen.Tac — the one proof script of the INTERFACE lemmas (`SparseV/Lemmas/Gen/*.lean`).

  An interface lemma says that a definition generated from the Python source (`Gen.f`, tie T1) computes a hand-written
  reference (`Ref.f`): `Gen.f x = Ref.f x`, for all arguments.  Every other proof of the library goes through these
  lemmas and never unfolds `Gen.f` itself, so the shape of the generated term matters in exactly one place — here — and
  here it is not looked at: after unfolding both sides, `gen_eq`

    1. splits EVERY `if` and `match` of the goal, whatever their number, order and nesting (`repeat' split`): the two
       sides are decision trees over integer comparisons, Booleans and `Option` parameters;
    2. closes each leaf by what it is: syntactically equal terms (`rfl`), equal pairs / `Except.ok` / `some` of equal
       linear-arithmetic terms (`min`, `max` included), or an infeasible path (contradictory comparisons among the
       hypotheses collected by the splits) — `omega`, after `simp` has decomposed the constructors; `grind` as the last resort.

  A rewrite of the Python code that keeps its behaviour changes the tree (or not even that: the translator normalises) but
  not the function, and this script proves equality of functions, not of shapes.
-/
namespace SparseV

/-- decompose constructor equations and decide linear integer arithmetic, on every leaf of a fully split goal
(cheap attempts first: most leaves are `rfl` or plain arithmetic) -/
syntax "gen_leaf" : tactic
macro_rules
  | `(tactic| gen_leaf) => `(tactic|
      first
        | rfl
        | omega
        | (simp only [Prod.mk.injEq, Except.ok.injEq, Option.some.injEq, reduceCtorEq, Bool.true_eq_false, Bool.false_eq_true,
             decide_eq_true_eq, decide_eq_false_iff_not, and_true, true_and, and_false, false_and, or_true, true_or, or_false, false_or,
             not_false_eq_true, not_true_eq_false, iff_true, iff_false, true_iff, false_iff, Bool.not_eq_true, ne_eq,
             true_implies, false_implies, implies_true]
           first | done | omega | (refine ⟨?_, ?_, ?_⟩ <;> omega) | (refine ⟨?_, ?_⟩ <;> omega))
        | (simp only [Prod.mk.injEq, Except.ok.injEq, Option.some.injEq, reduceCtorEq, Bool.true_eq_false, Bool.false_eq_true,
             decide_eq_true_eq, decide_eq_false_iff_not, and_true, true_and, and_false, false_and, or_true, true_or, or_false, false_or,
             not_false_eq_true, not_true_eq_false, iff_true, iff_false, true_iff, false_iff, Bool.not_eq_true, ne_eq,
             true_implies, false_implies, implies_true] at *
           first | done | omega | (refine ⟨?_, ?_, ?_⟩ <;> omega) | (refine ⟨?_, ?_⟩ <;> omega))
        | (simp_all; done)
        | (simp_all <;> omega)
        | grind)

/-- `Gen.f x = Ref.f x` (or any statement about unfolded decision trees): split everything, decide every leaf -/
syntax "gen_eq" : tactic
macro_rules
  | `(tactic| gen_eq) => `(tactic| (try dsimp only) <;> (repeat' split) <;> gen_leaf)

end SparseV

/-
  SparseV.Lemmas.Gen.Bcast — INTERFACE lemmas for `Gen.bcastOk` / `Gen.bcastDim`, the per-pair broadcasting rule inside
  `_umath._get_broadcast_shape` (tie T1).  The only place where the two definitions are unfolded; see
  `SparseV/Lemmas/Gen/Tac.lean`.
-/
import SparseV.Generated.Umath
import SparseV.Lemmas.Gen.Tac
namespace SparseV

/-- admissibility of one right-aligned pair of extents: equal, or the first is 1, or — unless the second shape is the
result shape, which may not be stretched — the second is 1 -/
def Ref.bcastOk (l1 l2 : Int) (isResult : Bool) : Bool :=
  decide (l1 = l2 ∨ l1 = 1 ∨ (l2 = 1 ∧ isResult = false))

/-- the resulting extent of an admissible pair -/
def Ref.bcastDim (l1 l2 : Int) : Int := if l1 = 1 then l2 else l1

theorem Gen.bcastOk_eq (l1 l2 : Int) (isResult : Bool) : Gen.bcastOk l1 l2 isResult = Ref.bcastOk l1 l2 isResult := by
  unfold Gen.bcastOk Ref.bcastOk
  cases isResult <;> gen_eq

theorem Gen.bcastDim_eq (l1 l2 : Int) : Gen.bcastDim l1 l2 = Ref.bcastDim l1 l2 := by
  unfold Gen.bcastDim Ref.bcastDim
  gen_eq

/-- the rule as a proposition -/
theorem Gen.bcastOk_iff (l1 l2 : Int) (isResult : Bool) :
    Gen.bcastOk l1 l2 isResult = true ↔ (l1 = l2 ∨ l1 = 1 ∨ (l2 = 1 ∧ isResult = false)) := by
  rw [Gen.bcastOk_eq, Ref.bcastOk, decide_eq_true_eq]

end SparseV

def ColOk (col : List Nat) : Prop := ∀ a ∈ col, ∀ b ∈ col, a = b ∨ a = 1 ∨ b = 1
example (a s : Nat) (rest : List Nat) (hc : s = a ∨ s = 1 ∨ a = 1) :
    ColOk ((if s = 1 then a else s) :: rest) ↔ ColOk (a :: s :: rest) := by
  unfold ColOk
  simp only [List.mem_cons, forall_eq_or_imp]
  constructor
  · intro h
    trace_state
    sorry
  · intro h
    trace_state
    sorry

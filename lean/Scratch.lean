import SparseV.Lemmas.Broadcast
open SparseV

variable {α : Type} [Inhabited α] [DecidableEq α]

/-- the fill-value array of `_get_fill_value` -/
def fillArrOf (f : List α → α) (ops : List (Operand α)) (ndShape : List Nat) : List α :=
  (allIdx ndShape).map fun i => f (ops.map fun o => o.fillAt ndShape i)
def fillOf (f : List α → α) (ops : List (Operand α)) (ndShape : List Nat) : α :=
  (fillArrOf f ops ndShape).headD (f (ops.map fun o => match o with | .coo x => x.fill | _ => default))
def candsOf (ops : List (Operand α)) (shape : List Nat) : List Idx :=
  (ops.flatMap fun o => match o with
    | .coo x => (COO.expand x.entries x.shape shape).map (·.1)
    | _ => []).eraseDups
def entriesOf (f : List α → α) (ops : List (Operand α)) (shape : List Nat) (fill : α) : List (Idx × α) :=
  (candsOf ops shape).filterMap fun i =>
    let v := f (ops.map fun o => o.valueAt shape i)
    if v = fill then none else some (i, v)

theorem elemwiseN_eq (f : List α → α) (ops : List (Operand α)) (shape ndShape : List Nat)
    (hc : ops.any Operand.isCoo = true) (hs : bshapeN (ops.map Operand.shape) = .ok shape)
    (hn : bshapeN ((ops.filter Operand.isDense).map Operand.shape) = .ok ndShape) :
    elemwiseN f ops =
      if (fillArrOf f ops ndShape).all (· = fillOf f ops ndShape) then
        if shape.any (· = 0) then .ok (.sparse { shape := shape, entries := [], fill := fillOf f ops ndShape })
        else .ok (.sparse { shape := shape, entries := COO.sortEntries shape (entriesOf f ops shape (fillOf f ops ndShape)), fill := fillOf f ops ndShape })
      else if shape = ndShape then
        .ok (.dense shape ((allIdx shape).map fun i => f (ops.map fun o => o.valueAt shape i)))
      else .error .value := by
  unfold elemwiseN
  simp only [hc, hs, hn]
  simp only [Bool.not_true, Bool.false_eq_true, if_false]
  rfl

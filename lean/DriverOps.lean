import DriverOps.C04
import DriverOps.Core
open Lean
namespace DriverOps
def tables : List (String → Array Json → R (Option Json)) := [c04, core]
end DriverOps

import DriverOps.C11
import DriverOps.C13
import DriverOps.Core
open Lean
namespace DriverOps
def tables : List (String → Array Json → R (Option Json)) := [c11, c13, core]
end DriverOps

import DriverOps.C15
import DriverOps.Core
open Lean
namespace DriverOps
def tables : List (String → Array Json → R (Option Json)) := [c15, core]
end DriverOps

import DriverOps.C19
import DriverOps.Core
open Lean
namespace DriverOps
def tables : List (String → Array Json → R (Option Json)) := [c19, core]
end DriverOps

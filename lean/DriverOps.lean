import DriverOps.C12
import DriverOps.Core
open Lean
namespace DriverOps
def tables : List (String → Array Json → R (Option Json)) := [c12, core]
end DriverOps

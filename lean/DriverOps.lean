import DriverOps.C14
import DriverOps.Core
open Lean
namespace DriverOps
def tables : List (String → Array Json → R (Option Json)) := [c14, core]
end DriverOps

import DriverOps.C07
import DriverOps.C17
import DriverOps.Core
open Lean
namespace DriverOps
def tables : List (String → Array Json → R (Option Json)) := [c07, c17, core]
end DriverOps

import DriverOps.C10
import DriverOps.Core
open Lean
namespace DriverOps
def tables : List (String → Array Json → R (Option Json)) := [c10, core]
end DriverOps

import DriverOps.Core
open Lean
namespace DriverOps
def tables : List (String → Array Json → R (Option Json)) := [core]
end DriverOps

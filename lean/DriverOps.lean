import DriverOps.C01
import DriverOps.C02
import DriverOps.C03
import DriverOps.C05
import DriverOps.C06
import DriverOps.C09
import DriverOps.C14
import DriverOps.C16
import DriverOps.C18
import DriverOps.C19
import DriverOps.Core
open Lean
namespace DriverOps
def tables : List (String → Array Json → R (Option Json)) := [c01, c02, c03, c05, c06, c09, c14, c16, c18, c19, core]
end DriverOps

/- DriverOps.C11 — the cache state machine and the buffer-protocol table for the line protocol -/
import DriverOps.Base
import SparseV.Model.Cache
import SparseV.Model.Buffer
open Lean SparseV SparseV.Cache

/-- a cache key: ["t",[axes]] | ["r",[shape]] | ["csr"] | ["csc"] -/
def jKey (j : Json) : R Key := do
  let a ← j.getArr?
  match (a[0]? : Option Json) with
  | some (Json.str "t") => Key.transpose <$> jList jNat (← arg a 1)
  | some (Json.str "r") => Key.reshape <$> jList jNat (← arg a 1)
  | some (Json.str "csr") => pure Key.csr
  | some (Json.str "csc") => pure Key.csc
  | _ => throw "bad key"

/-- a call: a key, where ["r",[shape],false] marks a reshape whose tuple contained -1 -/
def jCall (j : Json) : R Call := do
  match ← jKey j with
  | .transpose ax => pure (.transpose ax)
  | .reshape sh =>
    let a ← j.getArr?
    let lit ← match (a[2]? : Option Json) with
      | some b => jBool b
      | none => pure true
    pure (.reshape sh lit)
  | .csr => pure .csr
  | .csc => pure .csc

def keyJ : Key → Json
  | .transpose ax => Json.arr #[Json.str "t", listJ natJ ax]
  | .reshape sh => Json.arr #[Json.str "r", listJ natJ sh]
  | .csr => Json.arr #[Json.str "csr"]
  | .csc => Json.arr #[Json.str "csc"]

def stepJ : Buffer.Step → Json
  | .alloc => Json.arr #[Json.str "alloc"]
  | .copyOf s => Json.arr #[Json.str "copyOf", natJ s]
  | .viewOf s => Json.arr #[Json.str "viewOf", natJ s]
  | .writeInPlace d => Json.arr #[Json.str "writeInPlace", natJ d]

namespace DriverOps
def c11 (op : String) (a : Array Json) : R (Option Json) := do
  match op with
  | "c11_cache_run" =>
    -- shape of the array, keys whose uncached computation raises, the call sequence
    let shape ← jList jNat (← arg a 1)
    let errs ← jList jKey (← arg a 2)
    let calls ← jList jCall (← arg a 3)
    let o : Ops Key :=
      { shape := shape, self := .reshape shape,
        compute := fun k => if errs.contains k then .error .value else .ok k,
        csrToCsc := fun _ => .csc, cscToCsr := fun _ => .csr }
    let obs := observe o {} calls
    let same := decide (outputs o calls = calls.map (uncached o))
    let obsJ := obs.map fun b => Json.mkObj
      [("hit", Json.bool b.hit), ("self", Json.bool b.self), ("ok", Json.bool b.ok),
       ("tr", listJ keyJ b.tr), ("rs", listJ keyJ b.rs), ("csr", Json.bool b.csr), ("csc", Json.bool b.csc)]
    pure (some (okJ (Json.mkObj [("obs", Json.arr obsJ.toArray), ("equal_uncached", Json.bool same)])))
  | "c11_protocols" =>
    let rows := Buffer.protocols.map fun p => Json.mkObj
      [("name", Json.str p.name), ("operands", listJ Json.str p.operands), ("steps", listJ stepJ p.steps),
       ("writes_fresh", Json.bool p.writesFresh), ("well_scoped", Json.bool p.wellScoped),
       ("alias", listJ (fun (r : String × Option String) =>
          Json.arr #[Json.str r.1, match r.2 with | some s => Json.str s | none => Json.null]) p.aliasMap)]
    pure (some (okJ (Json.arr rows.toArray)))
  | _ => pure none
end DriverOps

/- DriverOps.C01 — broadcasting and element-wise ops -/
import DriverOps.Base
import SparseV.Model.Elemwise
open Lean SparseV

namespace DriverOps

def jOperand (j : Json) : R (Operand Int) := do
  match j.getObjVal? "coo" with
  | .ok c => pure (.coo (← jCoo c))
  | .error _ =>
    match j.getObjVal? "dense" with
    | .ok d => pure (.dense (← jList jNat (← jField d "shape")) (← jList jInt (← jField d "flat")))
    | .error _ => pure (.scalar (← jInt (← jField j "scalar")))

def b2i (b : Bool) : Int := if b then 1 else 0

/-- the scalar functions the harness uses (integers; booleans as 0/1) -/
def scalarFn (name : String) : Option (List Int → Int) :=
  match name with
  | "add" => some fun l => l.getD 0 0 + l.getD 1 0
  | "subtract" => some fun l => l.getD 0 0 - l.getD 1 0
  | "multiply" => some fun l => l.getD 0 0 * l.getD 1 0
  | "maximum" => some fun l => max (l.getD 0 0) (l.getD 1 0)
  | "minimum" => some fun l => min (l.getD 0 0) (l.getD 1 0)
  | "negative" => some fun l => - l.getD 0 0
  | "absolute" => some fun l => ((l.getD 0 0).natAbs : Int)
  | "square" => some fun l => l.getD 0 0 * l.getD 0 0
  | "sign" => some fun l => (l.getD 0 0).sign
  | "equal" => some fun l => b2i (l.getD 0 0 == l.getD 1 0)
  | "not_equal" => some fun l => b2i (l.getD 0 0 != l.getD 1 0)
  | "less" => some fun l => b2i (decide (l.getD 0 0 < l.getD 1 0))
  | "greater_equal" => some fun l => b2i (decide (l.getD 0 0 ≥ l.getD 1 0))
  | "logical_not" => some fun l => b2i (l.getD 0 0 == 0)
  | "logical_and" => some fun l => b2i (l.getD 0 0 != 0 && l.getD 1 0 != 0)
  | "logical_or" => some fun l => b2i (l.getD 0 0 != 0 || l.getD 1 0 != 0)
  | "where" => some fun l => if l.getD 0 0 != 0 then l.getD 1 0 else l.getD 2 0
  | "add3" => some fun l => l.getD 0 0 + l.getD 1 0 + l.getD 2 0
  | "fma" => some fun l => l.getD 0 0 * l.getD 1 0 + l.getD 2 0
  | "add_one" => some fun l => l.getD 0 0 + 1
  | _ => none

def elemResultJ : ElemResult Int → Json
  | .sparse x => Json.mkObj [("sparse", cooJ x)]
  | .dense s flat => Json.mkObj [("dense", Json.mkObj [("shape", listJ natJ s), ("flat", listJ intJ flat)])]

def c01 (op : String) (a : Array Json) : R (Option Json) := do
  match op with
  | "bshape" =>
    let shapes ← jList (jList jNat) (← arg a 1)
    pure (some (exceptJ (listJ natJ) (bshapeN shapes)))
  | "bshape2" =>
    let s1 ← jList jNat (← arg a 1); let s2 ← jList jNat (← arg a 2); let r ← jBool (← arg a 3)
    pure (some (exceptJ (listJ natJ) (bshape2 s1 s2 r)))
  | "broadcast_to" =>
    let x ← jCoo (← arg a 1); let s ← jList jNat (← arg a 2)
    pure (some (exceptJ cooJ (x.broadcastTo s)))
  | "elemwise" =>
    let fname ← (← arg a 1).getStr?
    let ops ← jList jOperand (← arg a 2)
    match scalarFn fname with
    | none => throw s!"unknown scalar function {fname}"
    | some f => pure (some (exceptJ elemResultJ (elemwiseN f ops)))
  | _ => pure none

end DriverOps

/- DriverOps.C17 — the generated dispatch tables, the lookup/resolution model and the report of `spellings_agree` -/
import DriverOps.Base
import SparseV.Model.Dispatch
open Lean SparseV SparseV.Gen SparseV.Dispatch

namespace DriverOps

def nameStr (n : Gen.Name) : String := (Gen.names[n]?).getD s!"?{n}"
def nameJ (n : Gen.Name) : Json := Json.str (nameStr n)
def nameId (s : String) : R Gen.Name :=
  match Gen.names.idxOf? s with
  | some i => pure i
  | none => throw s!"unknown name {s}"

def sigJ (s : Sig) : Json :=
  Json.mkObj [("posonly", listJ nameJ s.posonly), ("pos", listJ nameJ s.pos), ("kwonly", listJ nameJ s.kwonly),
              ("varargs", Json.bool s.varargs), ("varkw", Json.bool s.varkw),
              ("defaults", Json.mkObj (s.defaults.map fun d => (nameStr d.1, nameJ d.2)))]

def srcJ : Src → Json
  | .param p => Json.mkObj [("param", nameJ p)]
  | .const c => Json.mkObj [("const", nameJ c)]
  | .star n => Json.mkObj [("star", nameJ n)]

def kwJ (kw : List (Gen.Name × Src)) : Json := Json.arr (kw.map fun e => Json.arr #[nameJ e.1, srcJ e.2]).toArray

def fwdJ : Fwd → Json
  | .method n pos kw => Json.mkObj [("kind", "method"), ("name", nameJ n), ("pos", listJ srcJ pos), ("kw", kwJ kw)]
  | .func tg pos kw => Json.mkObj [("kind", "func"), ("name", nameJ tg), ("pos", listJ srcJ pos), ("kw", kwJ kw)]
  | .ufuncReduce u kw => Json.mkObj [("kind", "ufuncReduce"), ("name", nameJ u), ("kw", kwJ kw)]
  | .ufuncCall u kw => Json.mkObj [("kind", "ufuncCall"), ("name", nameJ u), ("kw", kwJ kw)]
  | .attr n => Json.mkObj [("kind", "attr"), ("name", nameJ n)]
  | .binop d => Json.mkObj [("kind", "binop"), ("name", nameJ d)]
  | .impl => Json.mkObj [("kind", "impl")]

def kindStr : Kind → String
  | .function => "function" | .ufunc => "ufunc" | .method => "method" | .property => "property"
  | .classmethod => "classmethod" | .staticmethod => "staticmethod" | .data => "data" | .cls => "class"
  | .module => "module" | .value => "value"

def entryJ (e : Entry) : Json :=
  Json.mkObj [("op", nameJ e.op), ("owner", nameJ e.owner), ("kind", Json.str (kindStr e.kind)), ("target", nameJ e.target),
              ("sig", sigJ e.sig), ("fwd", fwdJ e.fwd), ("dropped", listJ nameJ e.dropped), ("supportNumpy", Json.bool e.supportNumpy)]

def coreJ : Core → Json
  | .impl t => Json.str ("impl:" ++ nameStr t)
  | .ufunc u => Json.str ("ufunc:" ++ nameStr u)
  | .ufuncReduce u => Json.str ("ufunc.reduce:" ++ nameStr u)
  | .instanceAttr n => Json.str ("instance:" ++ nameStr n)

def originJ : Origin → Json
  | .param p => Json.mkObj [("param", nameJ p)]
  | .const c => Json.mkObj [("const", nameJ c)]
  | .dflt c => Json.mkObj [("default", nameJ c)]
  | .star => Json.str "star"
  | .missing => Json.str "missing"

def targetJ (t : Target) : Json :=
  Json.mkObj [("core", coreJ t.core), ("kw", Json.arr (t.kw.map fun e => Json.arr #[nameJ e.1, originJ e.2]).toArray)]

def wayJ : Way → Json
  | .pos i => Json.mkObj [("pos", natJ i)]
  | .kw n => Json.mkObj [("kw", nameJ n)]

def resultJ : ProbeResult → Json
  | .accepted => Json.str "accepted" | .rejected => Json.str "rejected" | .catchAll => Json.str "catchAll"
  | .misbound q => Json.mkObj [("misbound", nameJ q)]

def probeJ (e : Probe × ProbeResult) : Json :=
  Json.mkObj [("pub", nameJ e.1.pub), ("name", nameJ e.1.name), ("param", nameJ e.1.param), ("way", wayJ e.1.way), ("result", resultJ e.2)]

def nep18Str : Nep18 → String
  | .callNamespace => "namespace" | .callTypeAttr => "type" | .attrValue => "attr" | .notImplemented => "notimplemented"

def routeStr : UfuncRoute → String
  | .elemwise => "elemwise" | .reduce => "reduce" | .outerAsCall => "outer" | .arrayFunction => "array_function"
  | .notImplemented => "notimplemented"
  | .split parts => "split:" ++ ",".intercalate (parts.map nameStr)

partial def uresult17J : UResult Nat → Json
  | .one u r ops => Json.mkObj [("ufunc", nameJ u), ("route", Json.str (routeStr r)), ("operands", listJ natJ ops)]
  | .tuple parts => Json.mkObj [("tuple", Json.arr (parts.map uresult17J).toArray)]

/-- a name the source never mentions (an arbitrary NumPy ufunc) matches nothing in the generated lists -/
def nameIdOrUnknown (s : String) : Gen.Name := (Gen.names.idxOf? s).getD Gen.names.length

def jFmt17 (j : Json) : R Fmt :=
  match j with
  | .str "coo" => pure .coo
  | .str "dok" => pure .dok
  | _ => do
    let ax ← jList jNat (← jField j "gcxs")
    pure (.gcxs ax)

def fmt17J : Fmt → Json
  | .coo => Json.str "coo" | .dok => Json.str "dok" | .gcxs ax => Json.mkObj [("gcxs", listJ natJ ax)]

def jComputed17 (j : Json) : R Computed :=
  match j with
  | .str "dense" => pure .dense
  | _ => Computed.sparse <$> jFmt17 j

def computed17J : Computed → Json
  | .dense => Json.str "dense" | .sparse f => fmt17J f

def outStep17Str : OutStep → String
  | .unpack => "unpack" | .shapeCheck => "shapeCheck" | .refuseDense => "refuseDense"
  | .convertFormat k => if k then "convertFormat:keepAxes" else "convertFormat"
  | .shallowCopy => "shallowCopy" | .returnOut => "returnOut"

def spellingOf (kind : String) (n : Gen.Name) : R Spelling :=
  match kind with
  | "method" => pure (.method n) | "namespace" => pure (.namespaceFn n) | "array_namespace" => pure (.arrayNamespace n)
  | "nep18" => pure (.nep18 n) | "ufunc" => pure (.ufuncCall n) | "ufunc_reduce" => pure (.ufuncReduce n)
  | "operator" => pure (.operator n)
  | _ => throw s!"unknown spelling kind {kind}"

def c17 (op : String) (a : Array Json) : R (Option Json) := do
  match op with
  | "c17_table" =>
    pure (some (okJ (Json.mkObj [
      ("entries", listJ entryJ Gen.dispatchTable),
      ("namespace", Json.arr (Gen.namespaceAttrs.map fun e => Json.arr #[nameJ e.1, Json.str (kindStr e.2.1), nameJ e.2.2]).toArray),
      ("mro", Json.mkObj (Gen.classMro.map fun e => (nameStr e.1, listJ nameJ e.2))),
      ("instance", Json.mkObj (Gen.instanceAttrs.map fun e => (nameStr e.1, listJ nameJ e.2))),
      ("array_namespace", nameJ Gen.arrayNamespaceModule), ("bind_fallback", Json.bool Gen.nep18BindFallback),
      ("operators", Json.arr (Gen.operatorTable.map fun e => Json.arr #[nameJ e.1, nameJ e.2.1, nameJ e.2.2]).toArray),
      ("gufuncs", listJ nameJ Gen.gufuncs),
      ("multi_out_ufuncs", listJ nameJ Gen.multiOutUfuncs), ("multi_out_guard", Json.bool Gen.ufuncMultiOutGuard),
      ("multi_out_split", Json.mkObj (Gen.ufuncMultiOutSplit.map fun e => (nameStr e.1, listJ nameJ e.2))),
      ("out_trial_ones", Json.bool Gen.ufuncOutTrialOnes), ("outer_final_reverse", Json.bool Gen.outerFinalReverse),
      ("out_steps", listJ (fun st => Json.str (outStep17Str st)) Gen.ufuncOutSteps),
      ("numpy_functions", Json.arr (Gen.numpyFunctions.map fun e => Json.arr #[nameJ e.1, listJ nameJ e.2.1, nameJ e.2.2]).toArray),
      ("numpy_sigs", Json.arr (Gen.numpySigs.map fun e => Json.arr #[nameJ e.1, nameJ e.2.2.1, sigJ e.2.2.2]).toArray)])))
  | "c17_report" =>
    let cls ← nameId (← (← arg a 1).getStr?)
    let r := report Gen.dispatchTable cls
    pure (some (okJ (Json.mkObj [
      ("coreBad", listJ nameJ r.coreBad), ("kwBad", listJ nameJ r.kwBad),
      ("dropped", Json.arr (r.dropped.map fun e => Json.arr #[nameJ e.1, nameJ e.2]).toArray),
      ("probes", natJ r.probes.length),
      ("violations", listJ probeJ r.nep18Violations),
      ("kwIncons", listJ (fun p => Json.arr #[nameJ p.pub, nameJ p.param]) r.kwIncons),
      ("ufuncOk", Json.bool r.ufuncOk), ("fullOk", Json.bool r.fullOk), ("partialOk", Json.bool r.partialOk),
      ("shared", listJ nameJ (sharedOps Gen.dispatchTable cls)),
      ("witnessActive", Json.bool (SparseV.C17.witnessActive Gen.dispatchTable)),
      ("indexesFaithful", Json.bool (indexesFaithful Gen.dispatchTable))])))
  | "c17_probes" =>
    let cls ← nameId (← (← arg a 1).getStr?)
    pure (some (okJ (listJ probeJ (probes Gen.dispatchTable cls))))
  | "c17_resolve" =>
    let cls ← nameId (← (← arg a 1).getStr?)
    let kind ← (← arg a 2).getStr?
    let nmS ← (← arg a 3).getStr?
    match Gen.names.idxOf? nmS with
    | none => pure (some (errJ Err.internal))   -- a name the source never mentions: nothing answers to it
    | some n =>
      let sp ← spellingOf kind n
      pure (some (exceptJ targetJ (resolve Gen.dispatchTable cls sp)))
  | "c17_nep18" =>
    -- [cls, [[path…], name, npos, [keyword names…]] …] -> lookup result for each
    let cls ← nameId (← (← arg a 1).getStr?)
    let qs ← (← arg a 2).getArr?
    let outs ← qs.toList.mapM fun q => do
      let path ← jList (fun j => j.getStr?) (← q.getArrVal? 0)
      let name ← (← q.getArrVal? 1).getStr?
      let npos ← jNat (← q.getArrVal? 2)
      let kws ← jList (fun j => j.getStr?) (← q.getArrVal? 3)
      -- names the source never mentions resolve to nothing anywhere
      let unknown := Gen.names.length
      let pathIds := path.map fun p => (Gen.names.idxOf? p).getD unknown
      let nid := (Gen.names.idxOf? name).getD unknown
      let kwIds := kws.map fun k => (Gen.names.idxOf? k).getD unknown
      pure (Json.str (nep18Str (nep18Gen Gen.dispatchTable cls pathIds nid npos kwIds)))
    pure (some (okJ (Json.arr outs.toArray)))
  | "c17_outer_prepare" =>
    let nd ← jList jNat (← arg a 1)
    pure (some (okJ (Json.arr ((outerPrepare nd).map fun e => Json.arr #[natJ e.1, natJ e.2]).toArray)))
  | "c17_ufunc_route" =>
    -- [ufunc name, method, out given, every out operand of the array's own type] -> route
    let u := nameIdOrUnknown (← (← arg a 1).getStr?)
    let m ← (← arg a 2).getStr?
    let og ← jBool (← arg a 3); let ok ← jBool (← arg a 4)
    pure (some (okJ (Json.str (routeStr (arrayUfuncOf u og ok m)))))
  | "c17_ufunc_result" =>
    -- [ufunc name, method, out given, out ok, number of operands] -> what the call hands back (operands by position)
    let u := nameIdOrUnknown (← (← arg a 1).getStr?)
    let m ← (← arg a 2).getStr?
    let og ← jBool (← arg a 3); let ok ← jBool (← arg a 4); let n ← jNat (← arg a 5)
    pure (some (okJ (uresult17J (ufuncResult 4 u m og ok (List.range n)))))
  | "c17_out_store" =>
    -- [format of out, what was computed, shapes equal, default compressed axes] -> class and attribute dictionary of out afterwards
    let o ← jFmt17 (← arg a 1); let r ← jComputed17 (← arg a 2); let sh ← jBool (← arg a 3); let d ← jList jNat (← arg a 4)
    pure (some (exceptJ (fun s => Json.mkObj [("cls", nameJ s.cls), ("holds", computed17J s.holds), ("well_formed", Json.bool s.wellFormed)])
      (outStore Gen.ufuncOutSteps o r sh d)))
  | "c17_elemwise_format" =>
    let d ← jList jNat (← arg a 1); let fs ← jList jFmt17 (← arg a 2)
    pure (some (okJ (fmt17J (elemwiseFormat d fs))))
  | _ => pure none
end DriverOps

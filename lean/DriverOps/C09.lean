/- DriverOps.C09 — joining and structural extraction -/
import DriverOps.Base
import SparseV.Model.Join
open Lean SparseV

namespace DriverOps

def c09 (op : String) (a : Array Json) : R (Option Json) := do
  match op with
  | "concat_core" =>
    let xs ← jList jCoo (← arg a 1); let ax ← jNat (← arg a 2)
    match xs with
    | x0 :: rest => pure (some (okJ (cooJ (COO.concatCore x0 rest ax))))
    | [] => throw "empty list"
  | "stack_core" =>
    let xs ← jList jCoo (← arg a 1); let ax ← jNat (← arg a 2)
    match xs with
    | x0 :: rest => pure (some (okJ (cooJ (COO.stackCore x0 rest ax))))
    | [] => throw "empty list"
  | "triu_core" =>
    let x ← jCoo (← arg a 1); let k ← jInt (← arg a 2)
    pure (some (okJ (cooJ (x.triuCore k))))
  | "tril_core" =>
    let x ← jCoo (← arg a 1); let k ← jInt (← arg a 2)
    pure (some (okJ (cooJ (x.trilCore k))))
  | "diagonal_core" =>
    let x ← jCoo (← arg a 1); let off ← jInt (← arg a 2); let a1 ← jNat (← arg a 3); let a2 ← jNat (← arg a 4)
    pure (some (okJ (cooJ (x.diagonalCore off a1 a2))))
  | "diagonalize_core" =>
    let x ← jCoo (← arg a 1); let ax ← jNat (← arg a 2)
    pure (some (okJ (cooJ (x.diagonalizeCore ax))))
  | _ => pure none

end DriverOps

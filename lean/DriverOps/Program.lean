/- DriverOps.Program — evaluates a JSON-encoded program (`SparseV.Expr`) with `evalModel` (the
   model of the library) and with `evalSpec` (the dense reference semantics). -/
import DriverOps.Base
import SparseV.Model.Expr
open Lean SparseV

namespace DriverOps

def fn1Of (name : String) : R (Int → Int) :=
  match name with
  | "neg" => pure fun v => -v
  | "abs" => pure fun v => (v.natAbs : Int)
  | "square" => pure fun v => v * v
  | "sign" => pure fun v => v.sign
  | "inc" => pure fun v => v + 1
  | "dec" => pure fun v => v - 1
  | _ => throw s!"unknown unary function {name}"

def fn2Of (name : String) : R (Int → Int → Int) :=
  match name with
  | "add" => pure fun a b => a + b
  | "sub" => pure fun a b => a - b
  | "mul" => pure fun a b => a * b
  | "max" => pure fun a b => max a b
  | "min" => pure fun a b => min a b
  | _ => throw s!"unknown binary function {name}"

def ropOf (name : String) : R ROp :=
  match name with
  | "add" => pure .add
  | "max" => pure .max
  | "min" => pure .min
  | _ => throw s!"unknown reduction {name}"

def jBIx (j : Json) : R BIx := do
  let a ← j.getArr?
  match (a[0]? : Option Json) with
  | some (Json.str "i") => pure (.int (← jInt (← arg a 1)))
  | some (Json.str "s") => pure (.slice (← jOpt jInt (← arg a 1)) (← jOpt jInt (← arg a 2)) (← jOpt jInt (← arg a 3)))
  | some (Json.str "n") => pure .newaxis
  | _ => throw "bad basic index entry"

def exprsOf : List Expr → R Exprs
  | [] => throw "empty member list"
  | [e] => pure (.one e)
  | e :: rest => do pure (.cons e (← exprsOf rest))

partial def jExpr (j : Json) : R Expr := do
  let a ← j.getArr?
  let tag ← (← arg a 0).getStr?
  match tag with
  | "lit" =>
    let x ← jCoo (← arg a 1)
    pure (.lit x.shape x.entries x.fill (← jBool (← arg a 2)))
  | "ew1" => pure (.ew1 (← fn1Of (← (← arg a 1).getStr?)) (← jExpr (← arg a 2)))
  | "ew2" => pure (.ew2 (← fn2Of (← (← arg a 1).getStr?)) (← jExpr (← arg a 2)) (← jExpr (← arg a 3)))
  | "bcast" => pure (.broadcastTo (← jExpr (← arg a 1)) (← jList jNat (← arg a 2)))
  | "transpose" => pure (.transpose (← jExpr (← arg a 1)) (← jList jInt (← arg a 2)))
  | "reshape" => pure (.reshape (← jExpr (← arg a 1)) (← jList jNat (← arg a 2)))
  | "flip" => pure (.flip (← jExpr (← arg a 1)) (← jList jInt (← arg a 2)))
  | "roll" => pure (.roll (← jExpr (← arg a 1)) (← jList jInt (← arg a 2)) (← jList jInt (← arg a 3)))
  | "squeeze" => pure (.squeeze (← jExpr (← arg a 1)) (← jList jInt (← arg a 2)))
  | "expand" => pure (.expandDims (← jExpr (← arg a 1)) (← jInt (← arg a 2)))
  | "getitem" => pure (.getitem (← jExpr (← arg a 1)) (← jList jBIx (← arg a 2)))
  | "reduce" => pure (.reduce (← ropOf (← (← arg a 1).getStr?)) (← jExpr (← arg a 2)) (← jOpt (jList jInt) (← arg a 3)))
  | "concat" => pure (.concat (← exprsOf (← jList jExpr (← arg a 1))) (← jInt (← arg a 2)))
  | "stack" => pure (.stack (← exprsOf (← jList jExpr (← arg a 1))) (← jInt (← arg a 2)))
  | "triu" => pure (.triu (← jExpr (← arg a 1)) (← jInt (← arg a 2)))
  | "tril" => pure (.tril (← jExpr (← arg a 1)) (← jInt (← arg a 2)))
  | "diagonal" => pure (.diagonal (← jExpr (← arg a 1)) (← jInt (← arg a 2)) (← jInt (← arg a 3)) (← jInt (← arg a 4)))
  | "gcxs" => pure (.viaGcxs (← jExpr (← arg a 1)) (← jOpt (jList jNat) (← arg a 2)))
  | "dok" => pure (.viaDok (← jExpr (← arg a 1)))
  | _ => throw s!"unknown program node {tag}"

def denseJ (d : Dense) : Json :=
  Json.mkObj [("shape", listJ natJ d.shape), ("flat", listJ intJ ((allIdx d.shape).map d.val)), ("fill", intJ d.fill)]

def program (op : String) (a : Array Json) : R (Option Json) := do
  match op with
  | "program" =>
    let e ← jExpr (← arg a 1)
    pure (some (exceptJ cooJ (evalModel e)))
  | "program_spec" =>
    let e ← jExpr (← arg a 1)
    pure (some (exceptJ denseJ (evalSpec e)))
  | "program_depth" =>
    let e ← jExpr (← arg a 1)
    pure (some (okJ (natJ e.depth)))
  | _ => pure none

end DriverOps

/- DriverOps.C18 — argument-validation verdicts (model and NumPy side) and the fuel-based loop models -/
import DriverOps.Base
import SparseV.Model.Validate
import SparseV.Model.Loops
open Lean SparseV

namespace DriverOps

def unitJ (_ : Unit) : Json := Json.null

def selJ (r : Loops.SelResult) : Json :=
  match r with
  | .done inds cols ptr => okJ (Json.mkObj [("ind_list", listJ natJ inds), ("indices", listJ natJ cols), ("indptr", listJ natJ ptr)])
  | .outOfFuel => Json.mkObj [("err", Json.str "hang")]
  | .oob => Json.mkObj [("err", Json.str "oob")]

def c18 (op : String) (a : Array Json) : R (Option Json) := do
  match op with
  | "v_axes" =>
    let axes ← jList jInt (← arg a 1); let nd ← jNat (← arg a 2)
    pure (some (exceptJ (listJ intJ) (Validate.reduceAxes axes nd)))
  | "v_transpose" =>
    let axes ← jOpt (jList jInt) (← arg a 1); let nd ← jNat (← arg a 2)
    pure (some (exceptJ (listJ intJ) (Validate.transposeAxes axes nd)))
  | "np_transpose_ok" =>
    let axes ← jList jInt (← arg a 1); let nd ← jNat (← arg a 2)
    pure (some (okJ (Json.bool (decide (Validate.npTransposeOk axes nd)))))
  | "v_reshape" =>
    let old ← jList jNat (← arg a 1); let s ← jList jInt (← arg a 2)
    pure (some (exceptJ (listJ natJ) (Validate.reshapeShape old s)))
  | "np_reshape_ok" =>
    let old ← jList jNat (← arg a 1); let s ← jList jInt (← arg a 2)
    pure (some (okJ (Json.bool (decide (Validate.npReshapeOk old s)))))
  | "v_ctor" =>
    let rows ← jNat (← arg a 1); let cols ← jNat (← arg a 2); let dn ← jNat (← arg a 3); let n ← jNat (← arg a 4)
    let sh ← jOpt (jList jInt) (← arg a 5)
    pure (some (exceptJ (listJ natJ) (Validate.cooCtor rows cols dn n sh)))
  | "v_gcxs_ctor" =>
    -- [op, data ndim, len(data), indices, indptr, shape|null, compressed_axes|null]
    let dn ← jNat (← arg a 1); let n ← jNat (← arg a 2); let ind ← jList jInt (← arg a 3); let ptr ← jList jInt (← arg a 4)
    let sh ← jOpt (jList jInt) (← arg a 5); let c ← jOpt (jList jInt) (← arg a 6)
    pure (some (exceptJ unitJ (Validate.gcxsCtor dn n ind ptr sh c)))
  | "gcxs_contract" =>
    let n ← jNat (← arg a 1); let ind ← jList jInt (← arg a 2); let ptr ← jList jInt (← arg a 3)
    let sh ← jList jInt (← arg a 4); let c ← jOpt (jList jInt) (← arg a 5)
    pure (some (okJ (Json.bool (decide (Validate.gcxsContract n ind ptr sh c)))))
  | "v_caxes" =>
    let nd ← jNat (← arg a 1); let c ← jOpt (jList jInt) (← arg a 2)
    pure (some (exceptJ unitJ (Validate.checkCompressedAxes nd c)))
  | "v_index_arr" =>
    let xs ← jList jInt (← arg a 1); let d ← jInt (← arg a 2)
    pure (some (exceptJ unitJ (Validate.checkIndexArr xs d)))
  | "slicing_selection" =>
    -- [op, fuel|null, indices, starts, ends, col]: `get_slicing_selection` (null fuel = the bound of the theorem)
    let fuel ← jOpt jNat (← arg a 1)
    let ind ← jList jNat (← arg a 2); let st ← jList jNat (← arg a 3); let en ← jList jNat (← arg a 4)
    let col ← jList jNat (← arg a 5)
    pure (some (selJ (Loops.slicingSelection fuel ind.toArray (st.zip en) col.toArray)))
  | _ => pure none

end DriverOps

/- DriverOps.C18 — argument-validation verdicts (model and NumPy side) and the fuel-based loop models -/
import DriverOps.Base
import SparseV.Model.Validate
import SparseV.Model.Loops
import SparseV.Model.MaskCost
import SparseV.Generated.MaskHeuristic
open Lean SparseV

namespace DriverOps

def unitJ (_ : Unit) : Json := Json.null

def selJ (r : Loops.SelResult) : Json :=
  match r with
  | .done inds cols ptr => okJ (Json.mkObj [("ind_list", listJ natJ inds), ("indices", listJ natJ cols), ("indptr", listJ natJ ptr)])
  | .outOfFuel => Json.mkObj [("err", Json.str "hang")]
  | .oob => Json.mkObj [("err", Json.str "oob")]

def c18 (op : String) (a : Array Json) : R (Option Json) := do
  match op with
  | "v_axes" =>
    let axes ← jList jInt (← arg a 1); let nd ← jNat (← arg a 2)
    pure (some (exceptJ (listJ intJ) (Validate.reduceAxes axes nd)))
  | "v_transpose" =>
    let axes ← jOpt (jList jInt) (← arg a 1); let nd ← jNat (← arg a 2)
    pure (some (exceptJ (listJ intJ) (Validate.transposeAxes axes nd)))
  | "np_transpose_ok" =>
    let axes ← jList jInt (← arg a 1); let nd ← jNat (← arg a 2)
    pure (some (okJ (Json.bool (decide (Validate.npTransposeOk axes nd)))))
  | "v_reshape" =>
    let old ← jList jNat (← arg a 1); let s ← jList jInt (← arg a 2)
    pure (some (exceptJ (listJ natJ) (Validate.reshapeShape old s)))
  | "np_reshape_ok" =>
    let old ← jList jNat (← arg a 1); let s ← jList jInt (← arg a 2)
    pure (some (okJ (Json.bool (decide (Validate.npReshapeOk old s)))))
  | "v_ctor" =>
    let rows ← jNat (← arg a 1); let cols ← jNat (← arg a 2); let dn ← jNat (← arg a 3); let n ← jNat (← arg a 4)
    let sh ← jOpt (jList jInt) (← arg a 5)
    pure (some (exceptJ (listJ natJ) (Validate.cooCtor rows cols dn n sh)))
  | "v_gcxs_ctor" =>
    -- [op, data ndim, len(data), indices, indptr, shape|null, compressed_axes|null]
    let dn ← jNat (← arg a 1); let n ← jNat (← arg a 2); let ind ← jList jInt (← arg a 3); let ptr ← jList jInt (← arg a 4)
    let sh ← jOpt (jList jInt) (← arg a 5); let c ← jOpt (jList jInt) (← arg a 6)
    pure (some (exceptJ unitJ (Validate.gcxsCtor dn n ind ptr sh c)))
  | "gcxs_contract" =>
    let n ← jNat (← arg a 1); let ind ← jList jInt (← arg a 2); let ptr ← jList jInt (← arg a 3)
    let sh ← jList jInt (← arg a 4); let c ← jOpt (jList jInt) (← arg a 5)
    pure (some (okJ (Json.bool (decide (Validate.gcxsContract n ind ptr sh c)))))
  | "heuristic_take" =>
    -- [op, S, pairs, matches]: does the loop of _compute_mask go on with pairs?  The guard as read from the source, in IEEE double
    let sN ← jNat (← arg a 1); let p ← jNat (← arg a 2); let m ← jNat (← arg a 3)
    pure (some (okJ (Json.bool (MaskCost.takePairsF Gen.maskHeuristicLhs Gen.maskHeuristicRhs sN p m))))
  | "mask_iterations" =>
    -- [op, nnz, [[L, p', M'], ...]]: iterations of the pair search and number of axes handled with pairs, starting from one pair over all entries
    let n ← jNat (← arg a 1)
    let st ← jList (fun j => do let l ← jList jNat j; pure ({ L := l.getD 0 0, p' := l.getD 1 0, M' := l.getD 2 0 } : MaskCost.AxisStep)) (← arg a 2)
    let take := fun sN p m =>
      -- n_current_slices is recomputed from its definition as read (L * pairs + 2): a changed definition changes the decision
      MaskCost.takePairsF Gen.maskHeuristicLhs Gen.maskHeuristicRhs sN p m
    pure (some (okJ (Json.mkObj [("pair", natJ (MaskCost.pairIterations take 1 n st)), ("axes", natJ (MaskCost.pairAxes take 1 n st))])))
  | "v_caxes" =>
    let nd ← jNat (← arg a 1); let c ← jOpt (jList jInt) (← arg a 2)
    pure (some (exceptJ unitJ (Validate.checkCompressedAxes nd c)))
  | "v_index_arr" =>
    let xs ← jList jInt (← arg a 1); let d ← jInt (← arg a 2)
    pure (some (exceptJ unitJ (Validate.checkIndexArr xs d)))
  | "slicing_selection" =>
    -- [op, fuel|null, indices, starts, ends, col]: `get_slicing_selection` (null fuel = the bound of the theorem)
    let fuel ← jOpt jNat (← arg a 1)
    let ind ← jList jNat (← arg a 2); let st ← jList jNat (← arg a 3); let en ← jList jNat (← arg a 4)
    let col ← jList jNat (← arg a 5)
    pure (some (selJ (Loops.slicingSelection fuel ind.toArray (st.zip en) col.toArray)))
  | _ => pure none

end DriverOps

/- DriverOps.C04 — ops of the product-kernel models (SparseV.Model.Dot) and of the matmul spec -/
import DriverOps.Base
import SparseV.Model.Dot
import SparseV.Spec.Matmul
open Lean SparseV SparseV.Dot SparseV.Spec

namespace DriverOps

private def jCsr (j : Json) : R CSR := do
  pure { indptr := ← jList jNat (← jField j "indptr"), indices := ← jList jNat (← jField j "indices"),
         data := ← jList jInt (← jField j "data") }
private def jDense (j : Json) : R DenseM := jList (jList jInt) j
private def jPair (j : Json) : R (Nat × Nat) := do
  match ← jList jNat j with
  | [a, b] => pure (a, b)
  | _ => throw "pair expected"
/-- COO elements from {"c0":[…],"c1":[…],"data":[…]} -/
private def jEnts (j : Json) : R (List Ent) := do
  let c0 ← jList jNat (← jField j "c0"); let c1 ← jList jNat (← jField j "c1"); let d ← jList jInt (← jField j "data")
  if c0.length ≠ d.length ∨ c1.length ≠ d.length then throw "coords/data length"
  pure (c0.zip (c1.zip d))
private def denseJ (d : DenseM) : Json := listJ (listJ intJ) d
private def sparseOutJ (o : SparseOut) : Json :=
  Json.mkObj [("data", listJ intJ o.data), ("indices", listJ natJ o.indices), ("indptr", listJ natJ o.indptr),
              ("alloc", natJ o.alloc)]
private def tripJ (l : List (Nat × Nat × Int)) : Json :=
  Json.mkObj [("rows", listJ natJ (l.map (·.1))), ("cols", listJ natJ (l.map (·.2.1))), ("data", listJ intJ (l.map (·.2.2)))]
private def kerrJ (e : KErr) : Json := Json.mkObj [("err", Json.str e.name)]
private def jCA (j : Json) : R CA := do
  match ← jNat j with | 0 => pure .c0 | 1 => pure .c1 | _ => throw "compressed axis 0/1 expected"
private def jKind (j : Json) : R Kind := do
  match ← j.getStr? with
  | "coo" => pure .coo | "gcxs0" => pure (.gcxs .c0) | "gcxs1" => pure (.gcxs .c1) | "nd" => pure .nd
  | s => throw s!"kind {s}"
private def jRT (j : Json) : R RT := do
  match ← j.getStr? with
  | "none" => pure .none | "coo" => pure .coo | "gcxs" => pure .gcxs | "nd" => pure .nd
  | s => throw s!"return type {s}"
private def planJ (p : Plan) : Json :=
  Json.mkObj [("kernel", Json.str p.kernel.name), ("orient", Json.str p.orient.name),
              ("ca", match p.resultCA with | some c => natJ c.toNat | none => Json.null),
              ("prune", Json.bool p.prune), ("post", Json.str p.post.name)]

def c04 (op : String) (a : Array Json) : R (Option Json) := do
  match op with
  | "c04_matmul_spec" =>
    let s ← jList jNat (← arg a 1)
    match s with
    | [m, n, p] =>
      let x ← jDense (← arg a 2); let y ← jDense (← arg a 3)
      pure (some (okJ (denseJ (matmulD m n p x y))))
    | _ => throw "[m,n,p] expected"
  | "c04_csr_get" =>
    let A ← jCsr (← arg a 1); let s ← jPair (← arg a 2)
    pure (some (okJ (denseJ ((List.range s.1).map fun i => (List.range s.2).map fun j => A.get i j))))
  | "c04_csr_csr_count" =>
    let s ← jPair (← arg a 1); let A ← jCsr (← arg a 2); let B ← jCsr (← arg a 3)
    pure (some (okJ (natJ (csrCsrCountNnz s.1 s.2 A B))))
  | "c04_csr_csr" =>
    let s ← jPair (← arg a 1); let A ← jCsr (← arg a 2); let B ← jCsr (← arg a 3)
    match dotCsrCsr s.1 s.2 A B with
    | .ok o => pure (some (okJ (sparseOutJ o)))
    | .error e => pure (some (kerrJ e))
  | "c04_csr_nd" =>
    let s ← jPair (← arg a 1); let A ← jCsr (← arg a 2); let b ← jDense (← arg a 3)
    pure (some (okJ (denseJ (dotCsrNd s.1 s.2 A b))))
  | "c04_csr_nd_count" =>
    let s ← jPair (← arg a 1); let A ← jCsr (← arg a 2); let b ← jDense (← arg a 3)
    let c := csrNdCountNnz s.1 s.2 A b
    pure (some (okJ (Json.mkObj [("nnz", natJ c.1), ("indptr", listJ natJ c.2)])))
  | "c04_csr_nd_sparse" =>
    let s ← jPair (← arg a 1); let A ← jCsr (← arg a 2); let b ← jDense (← arg a 3)
    pure (some (okJ (sparseOutJ (dotCsrNdSparse s.1 s.2 A b))))
  | "c04_csc_nd" =>
    let sa ← jPair (← arg a 1); let sb ← jPair (← arg a 2); let A ← jCsr (← arg a 3); let b ← jDense (← arg a 4)
    pure (some (okJ (denseJ (dotCscNd sa.1 sb.1 sb.2 A b))))
  | "c04_csc_nd_count" =>
    let sa ← jPair (← arg a 1); let sb ← jPair (← arg a 2); let A ← jCsr (← arg a 3); let b ← jDense (← arg a 4)
    let c := cscNdCountNnz sa.1 sb.1 sb.2 A b
    pure (some (okJ (Json.mkObj [("nnz", natJ c.1), ("indptr_tail", listJ natJ c.2)])))
  | "c04_csc_nd_sparse" =>
    let sa ← jPair (← arg a 1); let sb ← jPair (← arg a 2); let A ← jCsr (← arg a 3); let b ← jDense (← arg a 4)
    pure (some (okJ (sparseOutJ (dotCscNdSparse sa.1 sb.1 sb.2 A b))))
  | "c04_coo_coo" =>
    let s ← jPair (← arg a 1); let A ← jCsr (← arg a 2); let B ← jCsr (← arg a 3)
    let o := dotCooCoo s.1 s.2 A B
    pure (some (okJ (Json.mkObj [("rows", listJ natJ o.rows), ("cols", listJ natJ o.cols), ("data", listJ intJ o.data),
                                  ("alloc", natJ o.alloc)])))
  | "c04_indptr_of_rows" =>
    let n ← jNat (← arg a 1); let rows ← jList jNat (← arg a 2)
    pure (some (okJ (listJ natJ (indptrOfRows n rows))))
  | "c04_coo_nd" =>
    let es ← jEnts (← arg a 1); let x2 ← jDense (← arg a 2); let s ← jPair (← arg a 3); let fuel ← jNat (← arg a 4)
    match dotCooNd s.1 s.2 es x2 fuel with
    | some o => pure (some (okJ (denseJ o)))
    | none => pure (some (kerrJ .hang))
  | "c04_coo_nd_sparse" =>
    let es ← jEnts (← arg a 1); let x2 ← jDense (← arg a 2); let s ← jPair (← arg a 3); let fuel ← jNat (← arg a 4)
    match dotCooNdSparse s.2 es x2 fuel with
    | some o => pure (some (okJ (tripJ o)))
    | none => pure (some (kerrJ .hang))
  | "c04_nd_coo" =>
    let x1 ← jDense (← arg a 1); let es ← jEnts (← arg a 2); let s ← jPair (← arg a 3)
    pure (some (okJ (denseJ (dotNdCoo s.1 s.2 x1 es))))
  | "c04_nd_coo_sparse" =>
    let x1 ← jDense (← arg a 1); let es ← jEnts (← arg a 2); let s ← jPair (← arg a 3)
    pure (some (okJ (tripJ (dotNdCooSparse s.1 x1 es))))
  | "c04_dispatch" =>
    let ka ← jKind (← arg a 1); let kb ← jKind (← arg a 2); let cd ← jCA (← arg a 3)
    let big ← jBool (← arg a 4); let rt ← jRT (← arg a 5)
    match dotDispatch ka kb cd big rt with
    | some p => pure (some (okJ (planJ p)))
    | none => pure (some (errJ .type))
  | "c04_tensordot_axes" =>
    let sa ← jList jNat (← arg a 1); let sb ← jList jNat (← arg a 2)
    let xa ← jList jNat (← arg a 3); let xb ← jList jNat (← arg a 4)
    if !tdAxesOk sa sb xa xb then pure (some (errJ .value)) else
    pure (some (okJ (Json.mkObj [("newaxes_a", listJ natJ (newaxesA sa.length xa)), ("newaxes_b", listJ natJ (newaxesB sb.length xb)),
                                  ("n2", natJ (n2 sa xa)), ("shape", listJ natJ (tdShape sa sb xa xb))])))
  | _ => pure none

end DriverOps

/-
  DriverOps.Base — JSON helpers shared by the op tables of
  svdriver — line protocol driver: one JSON array per input line `[op, arg, ...]`,
  one JSON value per output line. Evaluates the executable model (and the generated
  definitions). Unknown operations and malformed arguments answer `{"bad":...}`; nothing defaults.
-/
import Lean.Data.Json
import SparseV.Model.Basic
open Lean SparseV

abbrev R := Except String

def jInt (j : Json) : R Int := j.getInt?
def jNat (j : Json) : R Nat := do
  let i ← j.getInt?
  if i < 0 then throw s!"negative nat {i}" else pure i.toNat
def jBool (j : Json) : R Bool := j.getBool?
def jList {β} (f : Json → R β) (j : Json) : R (List β) := do
  let a ← j.getArr?
  a.toList.mapM f
def jOpt {β} (f : Json → R β) (j : Json) : R (Option β) :=
  match j with
  | .null => pure none
  | _ => some <$> f j
def jField (j : Json) (k : String) : R Json := j.getObjVal? k

def jCoo (j : Json) : R (COO Int) := do
  let shape ← jList jNat (← jField j "shape")
  let coords ← jList (jList jNat) (← jField j "coords")
  let data ← jList jInt (← jField j "data")
  let fill ← jInt (← jField j "fill")
  if coords.length ≠ data.length then throw "coords/data length"
  pure { shape := shape, entries := coords.zip data, fill := fill }

def natJ (n : Nat) : Json := Json.num (JsonNumber.fromNat n)
def intJ (n : Int) : Json := Json.num (JsonNumber.fromInt n)
def listJ {β} (f : β → Json) (l : List β) : Json := Json.arr (l.map f).toArray
def cooJ (x : COO Int) : Json :=
  Json.mkObj [("shape", listJ natJ x.shape), ("coords", listJ (listJ natJ) x.keys),
              ("data", listJ intJ x.vals), ("fill", intJ x.fill)]
def okJ (j : Json) : Json := Json.mkObj [("ok", j)]
def errJ (e : Err) : Json := Json.mkObj [("err", Json.str e.name)]

def tripleJ (t : Int × Int × Int) : Json := listJ intJ [t.1, t.2.1, t.2.2]
def exceptJ {β} (f : β → Json) : Except Err β → Json
  | .ok v => okJ (f v)
  | .error e => errJ e

def arg (a : Array Json) (i : Nat) : R Json :=
  match a[i]? with
  | some j => pure j
  | none => throw s!"missing argument {i}"


/- DriverOps.C05 — construction and conversion ops -/
import DriverOps.Base
import SparseV.Model.Convert
open Lean SparseV

namespace DriverOps

def gcxsJ (g : GCXS Int) : Json :=
  Json.mkObj [("shape", listJ natJ g.shape),
              ("caxes", match g.caxes with | none => Json.null | some c => listJ natJ c),
              ("indptr", listJ natJ g.indptr), ("indices", listJ natJ g.indices),
              ("data", listJ intJ g.data), ("fill", intJ g.fill)]

def jGcxs (j : Json) : R (GCXS Int) := do
  pure { shape := ← jList jNat (← jField j "shape"), caxes := ← jOpt (jList jNat) (← jField j "caxes"),
         indptr := ← jList jNat (← jField j "indptr"), indices := ← jList jNat (← jField j "indices"),
         data := ← jList jInt (← jField j "data"), fill := ← jInt (← jField j "fill") }

def sarrJ : SArr Int → Json
  | .coo x => Json.mkObj [("coo", cooJ x)]
  | .gcxs g => Json.mkObj [("gcxs", gcxsJ g)]
  | .dok shape es fill => Json.mkObj [("dok", cooJ { shape := shape, entries := es, fill := fill })]
  | .dense shape flat fill => Json.mkObj [("dense", Json.mkObj [("shape", listJ natJ shape), ("flat", listJ intJ flat), ("fill", intJ fill)])]

def jFmt (j : Json) : R Fmt := do
  let a ← j.getArr?
  match (a[0]? : Option Json) with
  | some (Json.str "coo") => pure .coo
  | some (Json.str "dok") => pure .dok
  | some (Json.str "dense") => pure .dense
  | some (Json.str "gcxs") => pure (.gcxs (← jOpt (jList jNat) (← arg a 1)))
  | _ => throw "bad format"

def c05 (op : String) (a : Array Json) : R (Option Json) := do
  match op with
  | "from_dense" =>
    let shape ← jList jNat (← arg a 1); let flat ← jList jInt (← arg a 2); let fill ← jInt (← arg a 3)
    pure (some (okJ (cooJ (COO.fromDense shape flat fill))))
  | "gcxs_from_coo" =>
    let x ← jCoo (← arg a 1); let c ← jOpt (jList jNat) (← arg a 2)
    pure (some (exceptJ gcxsJ (GCXS.fromCoo x c)))
  | "gcxs_tocoo" =>
    let g ← jGcxs (← arg a 1)
    pure (some (okJ (cooJ g.tocoo)))
  | "uncompress" =>
    let ip ← jList jNat (← arg a 1)
    pure (some (okJ (listJ natJ (uncompress ip))))
  | "convert_chain" =>
    let x ← jCoo (← arg a 1); let steps ← jList jFmt (← arg a 2)
    let mut cur : SArr Int := .coo x
    let mut outs : Array Json := #[]
    for f in steps do
      match cur.convert f with
      | .ok n => cur := n; outs := outs.push (sarrJ n)
      | .error e => return some (Json.mkObj [("steps", Json.arr outs), ("err", Json.str e.name)])
    pure (some (Json.mkObj [("steps", Json.arr outs)]))
  | _ => pure none

end DriverOps

/- DriverOps.C10 — ops of the searching / sorting / set model (SparseV.Model.Search) and its dense spec -/
import DriverOps.Base
import SparseV.Model.Search
open Lean SparseV SparseV.Search SparseV.Spec

namespace DriverOps

/-- a row: `[[pos, val], ...]` -/
def jRow (j : Json) : R Row := do
  let l ← jList (jList jInt) j
  l.mapM fun p => match p with
    | [a, b] => if a < 0 then throw "negative position" else pure (a.toNat, b)
    | _ => throw "pair expected"

/-- 2-d entries: `[[g, c, val], ...]` -/
def jEntries2 (j : Json) : R (List (Nat × Nat × Int)) := do
  let l ← jList (jList jInt) j
  l.mapM fun p => match p with
    | [a, b, v] => if a < 0 || b < 0 then throw "negative coordinate" else pure (a.toNat, b.toNat, v)
    | _ => throw "triple expected"

def rowJ (r : Row) : Json := listJ (fun e => Json.arr #[natJ e.1, intJ e.2]) r

def c10 (op : String) (a : Array Json) : R (Option Json) := do
  match op with
  | "c10_sort_row" =>
    let desc ← jBool (← arg a 1); let n ← jNat (← arg a 2); let fill ← jInt (← arg a 3); let es ← jRow (← arg a 4)
    pure (some (okJ (rowJ (sortRow desc n fill es))))
  | "c10_sort_coo" =>
    let desc ← jBool (← arg a 1); let n ← jNat (← arg a 2); let fill ← jInt (← arg a 3); let es ← jEntries2 (← arg a 4)
    pure (some (okJ (listJ (fun e => Json.arr #[natJ e.1, natJ e.2.1, intJ e.2.2]) (sortCoo desc n fill es))))
  | "c10_argminmax_col" =>
    let prune ← jBool (← arg a 1); let mx ← jBool (← arg a 2); let n ← jNat (← arg a 3)
    let fill ← jInt (← arg a 4); let es ← jRow (← arg a 5)
    pure (some (okJ (natJ (argMinMaxColWith prune mx n fill es))))
  | "c10_minmax_args" =>
    let mx ← jBool (← arg a 1); let n ← jNat (← arg a 2); let fill ← jInt (← arg a 3); let es ← jEntries2 (← arg a 4)
    pure (some (okJ (listJ (fun e => Json.arr #[natJ e.1, natJ e.2]) (computeMinmaxArgs mx n fill es))))
  | "c10_unique_counts" =>
    let gatherStep ← jBool (← arg a 1); let prune ← jBool (← arg a 2); let n ← jNat (← arg a 3)
    let fill ← jInt (← arg a 4); let es ← jRow (← arg a 5)
    let r := uniqueCountsWith (if gatherStep then .gather else .scatter) prune n fill es
    pure (some (okJ (Json.arr #[listJ intJ r.1, listJ natJ r.2])))
  | "c10_unique_values" =>
    let prune ← jBool (← arg a 1); let n ← jNat (← arg a 2); let fill ← jInt (← arg a 3); let es ← jRow (← arg a 4)
    pure (some (okJ (listJ intJ (uniqueValuesWith prune n fill es))))
  | "c10_nonzero" =>
    let prune ← jBool (← arg a 1); let x ← jCoo (← arg a 2)
    pure (some (exceptJ (listJ (listJ natJ)) (nonzeroWith prune x)))
  | "c10_argminmax_cols" =>
    let prune ← jBool (← arg a 1); let mx ← jBool (← arg a 2); let n ← jNat (← arg a 3)
    let fill ← jInt (← arg a 4); let rows ← jList jRow (← arg a 5)
    pure (some (okJ (listJ natJ (rows.map (argMinMaxColWith prune mx n fill)))))
  | "c10_excluded_arg_cols" =>
    let mx ← jBool (← arg a 1); let n ← jNat (← arg a 2); let fill ← jInt (← arg a 3); let rows ← jList jRow (← arg a 4)
    pure (some (okJ (listJ Json.bool (rows.map (ExcludedArgStoredFill mx n fill)))))
  -- the decidable regions of the known findings
  | "c10_excluded_arg" =>
    let mx ← jBool (← arg a 1); let n ← jNat (← arg a 2); let fill ← jInt (← arg a 3); let es ← jRow (← arg a 4)
    pure (some (okJ (Json.bool (ExcludedArgStoredFill mx n fill es))))
  | "c10_excluded_unique" =>
    -- ExcludedStoredFill on the row; ExcludedTwoBelow on the effective row (as in `unique_counts_any_variant`)
    let prune ← jBool (← arg a 1); let n ← jNat (← arg a 2); let fill ← jInt (← arg a 3); let es ← jRow (← arg a 4)
    pure (some (okJ (Json.arr #[Json.bool (ExcludedStoredFill n fill es),
      Json.bool (ExcludedTwoBelow n fill (if prune then pruneRow fill es else es))])))
  -- the dense specification, for cross-checking the spec itself against NumPy (leg B)
  | "c10_spec_sort" =>
    let desc ← jBool (← arg a 1); let l ← jList jInt (← arg a 2)
    pure (some (okJ (listJ intJ (sortD desc l))))
  | "c10_spec_argmax" =>
    let mx ← jBool (← arg a 1); let l ← jList jInt (← arg a 2)
    pure (some (okJ (natJ (if mx then argmaxD l else argminD l))))
  | "c10_spec_unique" =>
    let l ← jList jInt (← arg a 1)
    pure (some (okJ (listJ (fun p => Json.arr #[intJ p.1, natJ p.2]) (uniqueCountsD l))))
  | "c10_spec_nonzero" =>
    let x ← jCoo (← arg a 1)
    pure (some (okJ (listJ (listJ natJ) (nonzeroD x))))
  | "c10_densify_row" =>
    let n ← jNat (← arg a 1); let fill ← jInt (← arg a 2); let es ← jRow (← arg a 3)
    pure (some (okJ (listJ intJ (densifyRow n fill es))))
  | _ => pure none

end DriverOps

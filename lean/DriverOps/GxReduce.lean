/- DriverOps.GxReduce — GCXS reductions: `change_compressed_axes`, `_reduce_calc`, `reduce` through `_reduce_return` -/
import DriverOps.Base
import DriverOps.C03
import DriverOps.C05
import SparseV.Model.GcxsReduce
open Lean SparseV

namespace DriverOps

def gxReduce (op : String) (a : Array Json) : R (Option Json) := do
  match op with
  | "gx_reduce" =>
    -- [op, ufunc, gcxs, axes (normalised, distinct), keepdims]
    let r ← redOp (← (← arg a 1).getStr?)
    let g ← jGcxs (← arg a 2); let axes ← jList jNat (← arg a 3); let kd ← jBool (← arg a 4)
    match g.reduceMain r axes kd with
    | .error e => pure (some (errJ e))
    | .ok (.arr y) => pure (some (okJ (gcxsJ y)))
    | .ok (.scalar v) => pure (some (okJ (Json.mkObj [("scalar", intJ v)])))
  | "gx_change_caxes" =>
    let g ← jGcxs (← arg a 1); let c ← jList jNat (← arg a 2)
    pure (some (okJ (gcxsJ (g.changeCaxes c))))
  | "gx_reshape" =>
    let g ← jGcxs (← arg a 1); let s ← jList jNat (← arg a 2)
    pure (some (okJ (gcxsJ (g.reshapeG s))))
  | "gx_reduce_rows" =>
    -- [op, ufunc, indptr, data, R]: (rows with stored elements, reduceat values, counts)
    let r ← redOp (← (← arg a 1).getStr?)
    let ip ← jList jNat (← arg a 2); let data ← jList jInt (← arg a 3); let n ← jNat (← arg a 4)
    let runs := reduceRows r.ap ip data n
    pure (some (okJ (Json.mkObj [("indices", listJ natJ (runs.map (·.1))), ("data", listJ intJ (runs.map (·.2.1))),
                                 ("counts", listJ natJ (runs.map (·.2.2)))])))
  | _ => pure none

end DriverOps

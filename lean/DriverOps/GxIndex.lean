/- DriverOps.GxIndex — GCXS indexing: `_getitem`, the selection kernels, `convert_to_flat` -/
import DriverOps.Base
import DriverOps.C02
import DriverOps.C05
import SparseV.Model.GcxsIndex
open Lean SparseV

namespace DriverOps

def gxNIx (j : Json) : R NIx := do
  let a ← j.getArr?
  match (a[0]? : Option Json) with
  | some (Json.str "i") => pure (.int (← jInt (← arg a 1)))
  | some (Json.str "s") => pure (.slice (← jInt (← arg a 1)) (← jInt (← arg a 2)) (← jInt (← arg a 3)))
  | some (Json.str "n") => pure .newaxis
  | some (Json.str "a") => pure (.arr (← jList jInt (← arg a 1)))
  | _ => throw "bad normalised index entry"

def gxSelJ (s : GIx.Sel) : Json :=
  Json.mkObj [("ind_list", listJ natJ s.indList), ("indices", listJ natJ s.indices), ("indptr", listJ natJ s.indptr)]

def gxResJ : Except Err GIx.GResult → Json
  | .error e => errJ e
  | .ok (.arr g) => okJ (gcxsJ g)
  | .ok (.scalar v) => okJ (Json.mkObj [("scalar", intJ v)])

def gxIndex (op : String) (a : Array Json) : R (Option Json) := do
  match op with
  | "gx_getitem" =>
    -- [op, gcxs, user index]: `x[idx]`
    let g ← jGcxs (← arg a 1); let idx ← jList jIxE (← arg a 2)
    pure (some (gxResJ (g.getitem idx)))
  | "gx_getitem_core" =>
    -- [op, gcxs, normalised key]: `_getitem`
    let g ← jGcxs (← arg a 1); let key ← jList gxNIx (← arg a 2)
    pure (some (gxResJ (g.getitemCore key)))
  | "gx_rows_cols" =>
    let shape ← jList jNat (← arg a 1); let caxes ← jList jNat (← arg a 2); let key ← jList gxNIx (← arg a 3)
    let r := GCXS.keyRowsCols shape caxes key
    pure (some (okJ (Json.mkObj [("rows", listJ natJ r.1), ("cols", listJ natJ r.2.1), ("pos_slice", Json.bool r.2.2)])))
  | "gx_array_selection" =>
    let ind ← jList jNat (← arg a 1); let st ← jList jNat (← arg a 2); let en ← jList jNat (← arg a 3)
    let col ← jList jNat (← arg a 4)
    pure (some (okJ (gxSelJ (GIx.arraySelection ind (st.zip en) col))))
  | "gx_slicing_selection" =>
    let ind ← jList jNat (← arg a 1); let st ← jList jNat (← arg a 2); let en ← jList jNat (← arg a 3)
    let col ← jList jNat (← arg a 4)
    pure (some (exceptJ gxSelJ (GIx.slicingSelection ind (st.zip en) col)))
  | "gx_convert_to_flat" =>
    let inds ← jList (jList jNat) (← arg a 1); let shape ← jList jNat (← arg a 2)
    pure (some (okJ (listJ natJ (GIx.convertToFlat inds shape))))
  | "gx_is_sorted" =>
    let xs ← jList jInt (← arg a 1)
    pure (some (okJ (Json.bool (GIx.isSortedArr xs))))
  | _ => pure none

end DriverOps

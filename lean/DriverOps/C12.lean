/- DriverOps.C12 — run assignment histories through the DOK model and through the dense specification -/
import DriverOps.Base
import SparseV.Model.Dok
import SparseV.Spec.Assign
open Lean SparseV SparseV.Dok

namespace DriverOps

def jKeyPart (j : Json) : R KeyPart :=
  match j with
  | .arr a =>
    if a.size ≠ 3 then throw "slice needs three parts" else do
      let s ← jOpt jInt a[0]!; let e ← jOpt jInt a[1]!; let t ← jOpt jInt a[2]!
      pure (.slice s e t)
  | _ => do pure (.int (← jInt j))

def jVal (a : Array Json) (i : Nat) : R (Val Int) := do
  pure ⟨← jList jNat (← arg a i), ← jList jInt (← arg a (i + 1))⟩

def dokStateJ (d : DOK Int) : Json :=
  Json.mkObj [("keys", listJ (listJ intJ) (d.entries.map (·.1))), ("vals", listJ intJ (d.entries.map (·.2)))]

/-- one step of a history: model result, model state after it, whether the op lies in the grammar of the
property, and the dense specification's result listed over all in-range keys -/
def dokStep (d : DOK Int) (a : Spec.Dense Int) (j : Json) : R (DOK Int × Spec.Dense Int × Json) := do
  let o ← j.getArr?
  let tag ← (← arg o 0).getStr?
  let fin (op : Op Int) : R (DOK Int × Spec.Dense Int × Json) := do
    let (d', mj) := match step d op with
      | (d', none) => (d', okJ (dokStateJ d'))
      | (d', some e) => (d', Json.mkObj [("err", Json.str e.name), ("state", dokStateJ d')])
    let (a', sj) := match Spec.dStep d.shape a op with
      | .ok a' => (a', okJ (listJ intJ ((allKeys d.shape).map a')))
      | .error e => (a, errJ e)
    pure (d', a', Json.mkObj [("model", mj), ("spec", sj), ("nnz", natJ (nnz d')),
      ("wf", Json.bool (Spec.WFOp d.shape op))])
  match tag with
  | "set" => fin (.set (← jList jKeyPart (← arg o 1)) (← jVal o 2))
  | "fancy" => fin (.fancy (← jList (jList jInt) (← arg o 1)) (← jVal o 2))
  | "mask" => fin (.mask (← jList jBool (← arg o 1)) (← jVal o 2))
  | "get" =>
    let k ← jList jInt (← arg o 1)
    pure (d, a, Json.mkObj [("model", exceptJ intJ (getInt d k))])
  | "getfancy" =>
    let idxs ← jList (jList jInt) (← arg o 1)
    pure (d, a, Json.mkObj [("model", exceptJ (listJ intJ) (getFancy d idxs))])
  | "todense" => pure (d, a, Json.mkObj [("model", okJ (listJ intJ (todense d)))])
  | _ => throw s!"unknown history op {tag}"

def c12 (op : String) (a : Array Json) : R (Option Json) := do
  match op with
  | "dok_run" =>
    let shape ← jList jNat (← arg a 1); let fill ← jInt (← arg a 2)
    let ops ← (← arg a 3).getArr?
    let mut d : DOK Int := { shape := shape, entries := [], fill := fill }
    let mut s : Spec.Dense Int := fun _ => fill
    let mut out : Array Json := #[]
    for j in ops do
      let (d', s', r) ← dokStep d s j
      d := d'; s := s'; out := out.push r
    pure (some (okJ (Json.arr out)))
  | "dok_setitem_raw" =>
    -- `DOK._setitem(key_list, value)` on an empty array, key_list given as is (ints / int triples)
    let shape ← jList jNat (← arg a 1); let fill ← jInt (← arg a 2)
    let parts ← jList (fun j => match j with
      | .arr t => if t.size ≠ 3 then throw "triple" else do pure (NPart.slice (← jInt t[0]!) (← jInt t[1]!) (← jInt t[2]!))
      | _ => do pure (NPart.int (← jInt j))) (← arg a 3)
    let v ← jVal a 4
    if parts.length ≠ shape.length then throw "one part per axis" else
    let r := setRec Gen.dokSliceBounds fill (parts.zip (shape.map Int.ofNat)) [] v []
    let st := dokStateJ { shape := shape, entries := r.1, fill := fill }
    pure (some (match r.2 with
      | none => okJ st
      | some e => Json.mkObj [("err", Json.str e.name), ("state", st)]))
  | _ => pure none

end DriverOps

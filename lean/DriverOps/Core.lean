/- DriverOps.Core — ops of the COO core model, the slice pipeline and the generated definitions -/
import DriverOps.Base
import SparseV.Model.Coo
import SparseV.Model.Slice
import SparseV.Spec.Slice
import SparseV.Generated.Utils
import SparseV.Generated.Umath
import SparseV.Generated.Dok
open Lean SparseV

namespace DriverOps
def core (op : String) (a : Array Json) : R (Option Json) := do
  match op with
  | "ping" => pure (some (okJ (Json.str "pong")))
  | "coo_build" =>
    let x ← jCoo (← arg a 1)
    let sorted ← jBool (← arg a 2); let dups ← jBool (← arg a 3); let prune ← jBool (← arg a 4)
    pure (some (okJ (cooJ (COO.build x.shape x.entries x.fill sorted dups prune))))
  | "transpose_core" =>
    let x ← jCoo (← arg a 1); let axes ← jList jNat (← arg a 2)
    pure (some (okJ (cooJ (x.transposeCore axes))))
  | "reshape_core" =>
    let x ← jCoo (← arg a 1); let s ← jList jNat (← arg a 2)
    pure (some (okJ (cooJ (x.reshapeCore s))))
  | "flip_core" =>
    let x ← jCoo (← arg a 1); let axes ← jList jNat (← arg a 2)
    pure (some (okJ (cooJ (x.flipCore axes))))
  | "roll_core" =>
    let x ← jCoo (← arg a 1); let axes ← jList jNat (← arg a 2); let sh ← jList jInt (← arg a 3)
    pure (some (okJ (cooJ (x.rollCore axes sh))))
  | "squeeze_core" =>
    let x ← jCoo (← arg a 1); let axes ← jList jNat (← arg a 2)
    pure (some (okJ (cooJ (x.squeezeCore axes))))
  | "expand_dims_core" =>
    let x ← jCoo (← arg a 1); let p ← jNat (← arg a 2)
    pure (some (okJ (cooJ (x.expandDimsCore p))))
  | "todense" =>
    let x ← jCoo (← arg a 1)
    pure (some (okJ (listJ intJ x.todense)))
  | "normalize_slice" =>
    let st ← jOpt jInt (← arg a 1); let sp ← jOpt jInt (← arg a 2); let se ← jOpt jInt (← arg a 3)
    let d ← jInt (← arg a 4)
    pure (some (okJ (tripleJ (normalizeSlice st sp se d))))
  | "py_adjust" =>
    let st ← jOpt jInt (← arg a 1); let sp ← jOpt jInt (← arg a 2); let se ← jInt (← arg a 3)
    let d ← jInt (← arg a 4)
    pure (some (okJ (tripleJ (Spec.pyAdjust st sp se d))))
  | "range_of" =>
    let t ← jList jInt (← arg a 1)
    match t with
    | [x, y, z] => pure (some (okJ (listJ intJ (Spec.rangeOf (x, y, z)))))
    | _ => throw "triple expected"
  | "normalize_int" =>
    let i ← jInt (← arg a 1); let d ← jInt (← arg a 2)
    pure (some (exceptJ intJ (normalizeInt i d)))
  | "gen_normalize_axis" =>
    let i ← jInt (← arg a 1); let d ← jInt (← arg a 2)
    pure (some (exceptJ intJ (Gen.normalizeAxisInt i d)))
  | "gen_bcast" =>
    let l1 ← jInt (← arg a 1); let l2 ← jInt (← arg a 2); let r ← jBool (← arg a 3)
    pure (some (okJ (Json.arr #[Json.bool (Gen.bcastOk l1 l2 r), intJ (Gen.bcastDim l1 l2)])))
  | "dok_bounds" =>
    let st ← jOpt jInt (← arg a 1); let sp ← jOpt jInt (← arg a 2); let se ← jOpt jInt (← arg a 3)
    let d ← jInt (← arg a 4)
    pure (some (okJ (tripleJ (Gen.dokSliceBounds st sp se d))))
  | _ => pure none


end DriverOps

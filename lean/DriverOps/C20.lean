/- DriverOps.C20 — ops of the level-format model (SparseV.Model.Levels) and of the ownership model
   (SparseV.Model.Ownership).  Element values travel as integers (the harness sends 1-based value
   positions for non-integer dtypes); the fill of `toDense` is 0. -/
import DriverOps.Base
import SparseV.Model.Levels
import SparseV.Model.Ownership
open Lean SparseV SparseV.Levels

namespace DriverOps

def jKind20 (j : Json) : R LevelFormat := do
  match j with
  | Json.str "dense" => pure .dense
  | Json.str "compressed" => pure .compressed
  | Json.str "singleton" => pure .singleton
  | _ => throw "level format expected"

def kindJ : LevelFormat → Json
  | .dense => Json.str "dense" | .compressed => Json.str "compressed" | .singleton => Json.str "singleton"

/-- level: [kind, nonOrdered, nonUnique, soa] -/
def jLevel (j : Json) : R Level := do
  let a ← j.getArr?
  pure { fmt := ← jKind20 (← arg a 0),
         props := { nonOrdered := ← jBool (← arg a 1), nonUnique := ← jBool (← arg a 2), soa := ← jBool (← arg a 3) } }

def levelJ (l : Level) : Json :=
  Json.arr #[kindJ l.fmt, Json.bool l.props.nonOrdered, Json.bool l.props.nonUnique, Json.bool l.props.soa]

def jFormat (j : Json) : R Levels.Format := do
  pure { levels := ← jList jLevel (← jField j "levels"), order := ← jList jNat (← jField j "order"),
         posWidth := ← jNat (← jField j "pos"), crdWidth := ← jNat (← jField j "crd"),
         dtype := ← (← jField j "dtype").getStr? }

def formatJ (f : Levels.Format) : Json :=
  Json.mkObj [("levels", listJ levelJ f.levels), ("order", listJ natJ f.order), ("pos", natJ f.posWidth),
              ("crd", natJ f.crdWidth), ("dtype", Json.str f.dtype)]

def jMArr (j : Json) : R (MArr Int) := do
  pure { fmt := ← jFormat (← jField j "fmt"), shape := ← jList jNat (← jField j "shape"),
         arrays := ← jList (jList jNat) (← jField j "arrays"), vals := ← jList jInt (← jField j "vals") }

def marrJ (x : MArr Int) : Json :=
  Json.mkObj [("fmt", formatJ x.fmt), ("shape", listJ natJ x.shape), ("arrays", listJ (listJ natJ) x.arrays),
              ("vals", listJ intJ x.vals)]

def darrJ (a : DArr Int) : Json := Json.mkObj [("shape", listJ natJ a.shape), ("flat", listJ intJ a.flat)]

def jScipy (j : Json) : R (Scipy Int) := do
  let kind ← (← jField j "kind").getStr?
  let shape ← jList jNat (← jField j "shape")
  let data ← jList jInt (← jField j "data")
  match kind with
  | "csr" => pure (.csx true shape (← jList jNat (← jField j "indptr")) (← jList jNat (← jField j "indices")) data)
  | "csc" => pure (.csx false shape (← jList jNat (← jField j "indptr")) (← jList jNat (← jField j "indices")) data)
  | "coo" => pure (.coo shape (← jList jNat (← jField j "row")) (← jList jNat (← jField j "col")) data)
  | _ => throw "scipy kind"

def scipyJ : Scipy Int → Json
  | .csx csr shape indptr indices data =>
    Json.mkObj [("kind", Json.str (if csr then "csr" else "csc")), ("shape", listJ natJ shape),
                ("indptr", listJ natJ indptr), ("indices", listJ natJ indices), ("data", listJ intJ data)]
  | .coo shape row col data =>
    Json.mkObj [("kind", Json.str "coo"), ("shape", listJ natJ shape), ("row", listJ natJ row),
                ("col", listJ natJ col), ("data", listJ intJ data)]

def jMeta (j : Json) : R ScipyMeta := do
  pure { ptrWidth := ← jNat (← jField j "ptr"), idxWidth := ← jNat (← jField j "idx"), colWidth := ← jNat (← jField j "col"),
         canonical := ← jBool (← jField j "canonical"), dtype := ← (← jField j "dtype").getStr? }

/-! ownership -/
open SparseV.Own in
def jCmd (j : Json) : R Cmd := do
  let a ← j.getArr?
  match (a[0]? : Option Json) with
  | some (Json.str "newArray") => pure (.newArray (← jNat (← arg a 1)))
  | some (Json.str "npView") => pure (.npView (← jNat (← arg a 1)))
  | some (Json.str "mkStorage") => pure (.mkStorage (← jList jNat (← arg a 1)))
  | some (Json.str "mkScipy") => pure (.mkScipy (← jList jNat (← arg a 1)))
  | some (Json.str "opStorage") => pure (.opStorage (← jList jNat (← arg a 1)))
  | some (Json.str "opAliased") => pure (.opAliased (← jNat (← arg a 1)))
  | some (Json.str "mkArray") => pure (.mkArray (← jNat (← arg a 1)))
  | some (Json.str "view") => pure (.view (← jNat (← arg a 1)) (← jNat (← arg a 2)))
  | some (Json.str "rawField") => pure (.rawField (← jNat (← arg a 1)) (← jNat (← arg a 2)))
  | some (Json.str "castView") => pure (.castView (← jNat (← arg a 1)) (← jNat (← arg a 2)))
  | some (Json.str "alias") => pure (.alias (← jNat (← arg a 1)))
  | some (Json.str "drop") => pure (.drop (← jNat (← arg a 1)))
  | some (Json.str "finalize") => pure (.finalize (← jNat (← arg a 1)))
  | _ => throw "ownership command"

open SparseV.Own in
def cmdJ : Cmd → Json
  | .newArray t => Json.arr #[Json.str "newArray", natJ t]
  | .npView o => Json.arr #[Json.str "npView", natJ o]
  | .mkStorage l => Json.arr #[Json.str "mkStorage", listJ natJ l]
  | .mkScipy l => Json.arr #[Json.str "mkScipy", listJ natJ l]
  | .opStorage l => Json.arr #[Json.str "opStorage", listJ natJ l]
  | .opAliased o => Json.arr #[Json.str "opAliased", natJ o]
  | .mkArray o => Json.arr #[Json.str "mkArray", natJ o]
  | .view x k => Json.arr #[Json.str "view", natJ x, natJ k]
  | .rawField x k => Json.arr #[Json.str "rawField", natJ x, natJ k]
  | .castView r x => Json.arr #[Json.str "castView", natJ r, natJ x]
  | .alias o => Json.arr #[Json.str "alias", natJ o]
  | .drop o => Json.arr #[Json.str "drop", natJ o]
  | .finalize o => Json.arr #[Json.str "finalize", natJ o]

open SparseV.Own in
def kindNameJ : Kind → Json
  | .ndarray => Json.str "ndarray" | .storage => Json.str "storage" | .array => Json.str "array" | .view => Json.str "view"
  | .scipy => Json.str "scipy"

open SparseV.Own in
def objJ (id : Nat) (o : Obj) : Json :=
  Json.mkObj [("id", natJ id), ("kind", kindNameJ o.kind), ("refs", listJ natJ o.refs), ("bufs", listJ natJ o.bufs),
              ("owns", listJ natJ o.owns), ("om", Json.bool o.om)]

open SparseV.Own in
def cfgJ (c : Cfg) : Json :=
  Json.mkObj [("holdInputs", Json.bool c.holdInputs), ("holdViewOwning", Json.bool c.holdViewOwning),
              ("holdViewNonOwning", Json.bool c.holdViewNonOwning), ("fromArraysOwns", Json.bool c.fromArraysOwns),
              ("holdOnBaseRoot", Json.bool c.holdOnBaseRoot)]

open SparseV.Own in
/-- `"code"` = the configuration read off the source (`Cfg.code`), or an object with the five flags -/
def jCfg (j : Json) : R Cfg := do
  match j with
  | Json.str "code" => pure Cfg.code
  | Json.str "full" => pure Cfg.full
  | _ => pure { holdInputs := ← jBool (← jField j "holdInputs"), holdViewOwning := ← jBool (← jField j "holdViewOwning"),
                holdViewNonOwning := ← jBool (← jField j "holdViewNonOwning"), fromArraysOwns := ← jBool (← jField j "fromArraysOwns"),
                holdOnBaseRoot := ← jBool (← jField j "holdOnBaseRoot") }

open SparseV.Own in
/-- run a script; `["collect"]` finalises every unreachable object (oldest first), as CPython's
reference counting does right after a `del`.  Per command: the object created (if any) and the
buffers released by it. -/
def ownRun (cfg : Cfg) (cmds : Array Json) : R Json := do
  let mut h := Heap.empty
  let mut trace : Array Json := #[]
  for cj in cmds do
    let before := h
    let a ← cj.getArr?
    if (a[0]? : Option Json) == some (Json.str "collect") then
      for o in garbage before do
        match step cfg h (.finalize o) with
        | some h' => h := h'
        | none => return Json.mkObj [("trace", Json.arr trace), ("stuck", cj)]
    else
      match step cfg h (← jCmd cj) with
      | some h' => h := h'
      | none => return Json.mkObj [("trace", Json.arr trace), ("stuck", cj)]
    let created := if h.objs.length > before.objs.length then objJ before.objs.length (h.obj before.objs.length) else Json.null
    let released := h.freed.take (h.freed.length - before.freed.length)
    trace := trace.push (Json.mkObj [("new", created), ("freed", listJ natJ released.reverse),
                                     ("dangling", listJ (fun p => Json.arr #[natJ p.1, natJ p.2]) (dangling h)),
                                     ("finalized", listJ natJ (h.dead.take (h.dead.length - before.dead.length)).reverse)])
  pure (Json.mkObj [("trace", Json.arr trace), ("reachable", listJ natJ (reachable h)), ("dead", listJ natJ h.dead),
                    ("freed", listJ natJ h.freed), ("garbage", listJ natJ (garbage h)), ("nbuf", natJ h.nbuf),
                    ("refcounts", listJ natJ ((List.range h.objs.length).map (refcount h))),
                    ("dangling", listJ (fun p => Json.arr #[natJ p.1, natJ p.2]) (dangling h))])

def c20 (op : String) (a : Array Json) : R (Option Json) := do
  match op with
  | "c20_todense" =>
    let f ← jFormat (← arg a 1); let shape ← jList jNat (← arg a 2)
    let arrs ← jList (jList jNat) (← arg a 3); let vals ← jList jInt (← arg a 4)
    pure (some (okJ (listJ intJ (toDense f shape arrs vals 0))))
  | "c20_entries" =>
    let f ← jFormat (← arg a 1); let shape ← jList jNat (← arg a 2)
    let arrs ← jList (jList jNat) (← arg a 3); let vals ← jList jInt (← arg a 4)
    pure (some (okJ (listJ (fun e => Json.arr #[listJ natJ e.1, intJ e.2]) (entries f shape arrs vals 0))))
  | "c20_fields" =>
    let ls ← jList jKind20 (← arg a 1)
    pure (some (okJ (listJ Json.str (fieldNames ls 0 0))))
  | "c20_levels" =>
    let fac ← (← arg a 1).getStr?; let n ← jNat (← arg a 2); let canonical ← jBool (← arg a 3)
    let ls ← match fac with
      | "coo" => pure (cooLevels n) | "csf" => pure (csfLevels n) | "dense" => pure (denseLevels n)
      | _ => throw "factory"
    pure (some (okJ (listJ levelJ (withCanonical canonical ls))))
  | "c20_valid" =>
    let f ← jFormat (← arg a 1)
    pure (some (okJ (Json.mkObj [("valid", Json.bool f.valid), ("dense", Json.bool f.isDense),
      ("coo", Json.bool (isThisFormat (cooLevels f.rank) f.levels)), ("csf", Json.bool (isThisFormat (csfLevels f.rank) f.levels))])))
  | "c20_from_arrays" =>
    let x ← jMArr (← arg a 1)
    pure (some (exceptJ marrJ (fromConstituentArrays x.fmt x.arrays x.vals x.shape)))
  | "c20_to_numpy" =>
    let x ← jMArr (← arg a 1); let fixed ← jBool (← arg a 2)
    pure (some (exceptJ darrJ (toNumpyWith (if fixed then .order else .argOrder) x)))
  | "c20_from_numpy" =>
    let shape ← jList jNat (← arg a 1); let flat ← jList jInt (← arg a 2); let dt ← (← arg a 3).getStr?
    pure (some (okJ (marrJ (fromNumpy { shape := shape, flat := flat } dt))))
  | "c20_encode_dense" =>
    let order ← jList jNat (← arg a 1); let shape ← jList jNat (← arg a 2); let flat ← jList jInt (← arg a 3)
    pure (some (okJ (listJ intJ (encodeDense order { shape := shape, flat := flat } "").vals)))
  | "c20_from_scipy" =>
    let s ← jScipy (← arg a 1); let m ← jMeta (← arg a 2)
    pure (some (exceptJ marrJ (fromScipy s m)))
  | "c20_to_scipy" =>
    let x ← jMArr (← arg a 1)
    pure (some (exceptJ scipyJ (toScipy x)))
  | "c20_scipy_dense" =>
    let s ← jScipy (← arg a 1)
    pure (some (okJ (listJ intJ ((allIdx s.shape).map (s.get 0)))))
  | "c20_determine" =>
    let fs ← jList jFormat (← arg a 1); let dt ← (← arg a 2).getStr?; let u ← jBool (← arg a 3)
    let n ← jOpt jNat (← arg a 4)
    pure (some (exceptJ formatJ (determineFormat fs dt u n)))
  | "c20_excluded_order" =>
    let order ← jList jNat (← arg a 1); let shape ← jList jNat (← arg a 2)
    pure (some (okJ (Json.bool (decide (COO.gather shape (invPerm order) ≠ lvlShape order shape)))))
  | "c20_own_run" =>
    let cfg ← jCfg (← arg a 1); let cmds ← (← arg a 2).getArr?
    pure (some (okJ (← ownRun cfg cmds)))
  | "c20_code_cfg" =>
    pure (some (okJ (Json.mkObj [("code", cfgJ SparseV.Own.Cfg.code), ("full", cfgJ SparseV.Own.Cfg.full),
      ("is_full", Json.bool (decide (SparseV.Own.Cfg.code = SparseV.Own.Cfg.full))),
      ("free_fields", Json.str (reprStr SparseV.Gen.mlirFreeFields)),
      ("op_owns", listJ (fun p => Json.arr #[Json.str p.1, Json.bool p.2]) SparseV.Gen.mlirOpOwns)])))
  | "c20_edge_witness" =>
    let cfg ← jCfg (← arg a 1)
    pure (some (okJ (listJ cmdJ (SparseV.Own.edgeWitness cfg))))
  | "c20_excluded_history" =>
    let cmds ← jList jCmd (← arg a 1)
    pure (some (okJ (Json.bool (SparseV.Own.ExcludedHistory cmds))))
  | _ => pure none

end DriverOps

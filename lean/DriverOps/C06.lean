/- DriverOps.C06 — the canonicity predicates, executable -/
import DriverOps.Base
import SparseV.Model.Coo
import SparseV.Model.Gcxs
open Lean SparseV

namespace DriverOps

def strictlyIncreasing : List Nat → Bool
  | [] => true
  | [_] => true
  | a :: b :: rest => decide (a < b) && strictlyIncreasing (b :: rest)

/-- executable twin of `COO.WF ∧ SortedLin` -/
def cooCanonical (x : COO Int) : Bool :=
  x.entries.all (fun e => decide (InB e.1 x.shape)) && strictlyIncreasing (x.entries.map fun e => ravel e.1 x.shape)

/-- GCXS: indptr non-decreasing from 0 to nnz, length rows+1; per-row strictly increasing in-range indices -/
def gcxsCanonical (indptr indices : List Nat) (rows cols nnz : Nat) : Bool :=
  indptr.length == rows + 1 && indptr.head? == some 0 && indptr.getLast? == some nnz && indices.length == nnz &&
  (List.range rows).all fun r =>
    let a := indptr.getD r 0; let b := indptr.getD (r + 1) 0
    decide (a ≤ b) && strictlyIncreasing ((indices.drop a).take (b - a)) && ((indices.drop a).take (b - a)).all (· < cols)

def c06 (op : String) (a : Array Json) : R (Option Json) := do
  match op with
  | "coo_canonical" =>
    let x ← jCoo (← arg a 1)
    pure (some (okJ (Json.bool (cooCanonical x))))
  | "gcxs_canonical" =>
    let ip ← jList jNat (← arg a 1); let ind ← jList jNat (← arg a 2)
    let rows ← jNat (← arg a 3); let cols ← jNat (← arg a 4); let nnz ← jNat (← arg a 5)
    pure (some (okJ (Json.bool (gcxsCanonical ip ind rows cols nnz))))
  | _ => pure none

end DriverOps

/- DriverOps.C19 — ops of the creation / sampling model (SparseV.Model.Create) and of the definitions
   generated from `eye` and `random` -/
import DriverOps.Base
import SparseV.Model.Create
import SparseV.Spec.Create
open Lean SparseV SparseV.Create

namespace DriverOps

def jCand (j : Json) : R Cand := do
  let a ← j.getArr?
  match a.toList with
  | [s, b] => pure ((← jInt s), (← jBool b))
  | _ => throw "candidate [S, accept] expected"

/-- oracle object: {"choice": int, "skips": [nat...], "last": int, "cands": [[S, bool]...]}; skip requests
beyond the list are 0 (the harness checks that the run consumed exactly the list) -/
def jOracle (j : Json) : R Oracle := do
  let c ← jInt (← jField j "choice")
  let sk ← jList jNat (← jField j "skips")
  let l ← jInt (← jField j "last")
  let cs ← jList jCand (← jField j "cands")
  pure { choice := c, skipsA := fun t => sk.getD t 0, lastA := l, candD := cs }

def candJ (c : Cand) : Json := Json.arr #[intJ c.1, Json.bool c.2]

def c19 (op : String) (a : Array Json) : R (Option Json) := do
  match op with
  | "gen_eye_len" =>
    let n ← jInt (← arg a 1); let m ← jOpt jInt (← arg a 2); let k ← jInt (← arg a 3)
    pure (some (okJ (intJ (Gen.eyeLen n m k))))
  | "gen_eye_coord" =>
    let t ← jInt (← arg a 1); let k ← jInt (← arg a 2)
    pure (some (okJ (tripleJ (Gen.eyeCoord t k))))
  | "gen_random_branch" =>
    let nnz ← jInt (← arg a 1); let el ← jInt (← arg a 2); let d ← jBool (← arg a 3)
    pure (some (okJ (tripleJ (Gen.randomBranch nnz el d))))
  | "eye" =>
    let n ← jNat (← arg a 1); let m ← jOpt jNat (← arg a 2); let k ← jInt (← arg a 3)
    pure (some (okJ (cooJ (eye n m k))))
  | "full" =>
    let s ← jList jNat (← arg a 1); let v ← jInt (← arg a 2)
    pure (some (okJ (cooJ (full s v))))
  | "full_like" =>
    let x ← jCoo (← arg a 1); let v ← jInt (← arg a 2); let s ← jOpt (jList jNat) (← arg a 3)
    pure (some (okJ (cooJ (fullLike x v s))))
  | "algA" =>
    let n ← jInt (← arg a 1); let N ← jInt (← arg a 2); let sk ← jList jNat (← arg a 3); let l ← jInt (← arg a 4)
    let r : Nat → Nat := fun t => sk.getD t 0
    match algA n N r l with
    | .ok arr => pure (some (okJ (Json.mkObj [("arr", listJ intJ arr), ("final_N", intJ (algAFinalN n N r))])))
    | .error e => pure (some (errJ e))
  | "algD" =>
    let n ← jInt (← arg a 1); let N ← jInt (← arg a 2); let cs ← jList jCand (← arg a 3)
    match algD n N cs with
    | .ok (arr, rest) => pure (some (okJ (Json.mkObj [("arr", listJ intJ arr), ("unconsumed", natJ rest.length)])))
    | .error e => pure (some (errJ e))
  | "reverse" =>
    let inv ← jList jInt (← arg a 1); let N ← jInt (← arg a 2)
    pure (some (exceptJ (listJ intJ) (reverse inv N)))
  | "random_idx" =>
    let nnz ← jInt (← arg a 1); let el ← jInt (← arg a 2); let d ← jBool (← arg a 3); let o ← jOracle (← arg a 4)
    pure (some (exceptJ (listJ intJ) (randomIdx nnz el d o)))
  | "oracle_ok" =>
    let nnz ← jInt (← arg a 1); let el ← jInt (← arg a 2); let d ← jBool (← arg a 3); let o ← jOracle (← arg a 4)
    pure (some (okJ (Json.bool (decide (Spec.OracleOK nnz el d o)))))
  | "random" =>
    let s ← jList jNat (← arg a 1); let nnz ← jInt (← arg a 2); let d ← jBool (← arg a 3); let o ← jOracle (← arg a 4)
    let data ← jList jInt (← arg a 5); let fill ← jInt (← arg a 6)
    pure (some (exceptJ cooJ (random s nnz d o data fill)))
  | _ => pure none

end DriverOps

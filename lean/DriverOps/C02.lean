/- DriverOps.C02 — indexing ops -/
import DriverOps.Base
import SparseV.Model.Getitem
open Lean SparseV

namespace DriverOps

def jIxE (j : Json) : R IxE := do
  let a ← j.getArr?
  match (a[0]? : Option Json) with
  | some (Json.str "i") => pure (.int (← jInt (← arg a 1)))
  | some (Json.str "s") => pure (.slice (← jOpt jInt (← arg a 1)) (← jOpt jInt (← arg a 2)) (← jOpt jInt (← arg a 3)))
  | some (Json.str "n") => pure .newaxis
  | some (Json.str "e") => pure .ellipsis
  | some (Json.str "a") => pure (.arr (← jList jInt (← arg a 1)))
  | some (Json.str "b") => pure (.barr (← jList jBool (← arg a 1)))
  | _ => throw "bad index entry"

def nixJ : NIx → Json
  | .int n => Json.arr #[Json.str "i", intJ n]
  | .slice a b c => Json.arr #[Json.str "s", intJ a, intJ b, intJ c]
  | .newaxis => Json.arr #[Json.str "n"]
  | .arr xs => Json.arr #[Json.str "a", listJ intJ xs]

def c02 (op : String) (a : Array Json) : R (Option Json) := do
  match op with
  | "normalize_index" =>
    let idx ← jList jIxE (← arg a 1); let shape ← jList jNat (← arg a 2)
    pure (some (exceptJ (listJ nixJ) (normalizeIndex idx shape)))
  | "getitem" =>
    let x ← jCoo (← arg a 1); let idx ← jList jIxE (← arg a 2)
    match x.getitem idx with
    | .error e => pure (some (errJ e))
    | .ok (.arr r) => pure (some (okJ (cooJ r)))
    | .ok (.scalar v) => pure (some (okJ (Json.mkObj [("scalar", intJ v)])))
  | _ => pure none

end DriverOps

/- DriverOps.C16 — sparse-safe GCXS conversions (Model/Big) and the cost semantics (Model/Cost) -/
import DriverOps.Base
import DriverOps.C05
import SparseV.Model.Big
import SparseV.Model.Cost
open Lean SparseV

namespace DriverOps

/-- an array of the given shape with `n` stored entries (the cost functions read only shape and nnz) -/
def mkX (shape : List Nat) (n : Nat) : COO Int := { shape := shape, entries := List.replicate n ([], 0), fill := 0 }

def costJ (cost size k : Nat) : Json :=
  okJ (Json.mkObj [("cost", natJ cost), ("size", natJ size), ("K", natJ k)])

def c16 (op : String) (a : Array Json) : R (Option Json) := do
  match op with
  | "gcxs_from_coo_big" =>
    let x ← jCoo (← arg a 1); let c ← jOpt (jList jNat) (← arg a 2)
    pure (some (exceptJ gcxsJ (GCXS.fromCooBig x c)))
  | "gcxs_tocoo_big" =>
    let g ← jGcxs (← arg a 1)
    pure (some (okJ (cooJ g.tocooBig)))
  | "indptr_both" =>
    -- small inputs: both evaluation strategies side by side
    let rows ← jList jNat (← arg a 1); let r ← jNat (← arg a 2)
    pure (some (okJ (Json.arr #[listJ natJ (indptrOfBig rows r), listJ natJ (indptrOf rows r)])))
  | "uncompress_both" =>
    let p ← jList jNat (← arg a 1)
    pure (some (okJ (Json.arr #[listJ natJ (uncompressBig p), listJ natJ (uncompress p)])))
  | "cost" =>
    -- ["cost", opname, shape, nnz, params…]: cells written by the code's algorithm, the size measure and K of Props/C16
    let name ← (← arg a 1).getStr?
    let shape ← jList jNat (← arg a 2); let n ← jNat (← arg a 3)
    let x := mkX shape n
    let d := shape.length
    let base := x.cells + x.frame
    match name with
    | "transpose" =>
      let axes ← jList jNat (← arg a 4)
      pure (some (costJ (Cost.transpose x axes) (base + x.cells) 4))
    | "reshape" =>
      let s ← jList jNat (← arg a 4)
      pure (some (costJ (Cost.reshape x s) (base + (s.length + 1) * n) 1))
    | "flip" =>
      let axes ← jList jNat (← arg a 4)
      pure (some (costJ (Cost.flip x axes) (base + x.cells) 10))
    | "roll" =>
      let axes ← jList jNat (← arg a 4)
      pure (some (costJ (Cost.roll x axes) (base + x.cells) 6))
    | "squeeze" =>
      let axes ← jList jNat (← arg a 4)
      pure (some (costJ (Cost.squeeze x axes) (base + ((COO.dropAxes shape axes).length + 1) * n) 1))
    | "expand_dims" =>
      pure (some (costJ (Cost.expandDims x) (base + (d + 2) * n) 1))
    | "getitem" =>
      -- params: out shape, out nnz, neg step?, L (null = basic index)
      let rs ← jList jNat (← arg a 4); let m ← jNat (← arg a 5); let neg ← jBool (← arg a 6)
      let l ← jOpt jNat (← arg a 7)
      let r := mkX rs m
      let idx : List NIx := if neg then [.slice 0 0 (-1)] else []
      match l with
      | none => pure (some (costJ (Cost.getitemBasic x idx r) (base + r.cells) 5))
      | some l => pure (some (costJ (Cost.getitemAdv x idx l r) (base + r.cells) (7 * (l + 1))))
    | "elemwise1" =>
      let m ← jNat (← arg a 4)
      pure (some (costJ (Cost.elemwise1 x (mkX shape m)) (base + (d + 1) * m) 2))
    | "elemwise2" =>
      let nB ← jNat (← arg a 4); let m ← jNat (← arg a 5)
      pure (some (costJ (Cost.elemwise2 d n nB m) ((d + 1) * n + (d + 1) * nB + (d + 1) * m) 7))
    | "elemwise_mixed" =>
      -- params: stored elements of the result, number of elements of the dense operands' broadcast shape
      let m ← jNat (← arg a 4); let dsz ← jNat (← arg a 5)
      pure (some (costJ (Cost.elemwiseMixed d n m dsz) ((d + 1) * n + (d + 1) * m + dsz) 3))
    | "reduce" =>
      -- params: reduced axes, number of groups, stored elements of the result
      let axes ← jList jNat (← arg a 4); let g ← jNat (← arg a 5); let m ← jNat (← arg a 6)
      let kept := (List.range d).filter fun ax => !axes.contains ax
      pure (some (costJ (Cost.reduce x kept axes g m) base 20))
    | "concat" =>
      let axis ← jNat (← arg a 4)
      pure (some (costJ (Cost.concat d n axis) ((d + 1) * n) 6))
    | "stack" =>
      let axis ← jNat (← arg a 4)
      pure (some (costJ (Cost.stack d n axis) ((d + 1) * n) 8))
    | "tri" =>
      let m ← jNat (← arg a 4)
      pure (some (costJ (Cost.tri x (mkX shape m)) (base + (d + 1) * m) 1))
    | "diagonal" =>
      let s ← jNat (← arg a 4)
      pure (some (costJ (Cost.diagonal x s) base 12))
    | "from_coo" =>
      let c ← jList jNat (← arg a 4)
      pure (some (costJ (Cost.fromCoo x c) base 7))
    | "tocoo" =>
      let g : GCXS Int := { shape := shape, caxes := none, indptr := [], indices := [], data := List.replicate n 0, fill := 0 }
      pure (some (costJ (Cost.tocoo g) ((d + 1) * n) 21))
    | "dot_csr_csr" =>
      -- shape = [nRow, nCol] of the result, n = stored elements of the result, param: number of products
      let w ← jNat (← arg a 4)
      pure (some (costJ (Cost.dotCsrCsr (shape.getD 0 0) (shape.getD 1 0) n w) (n + w + shape.getD 0 0 + shape.getD 1 0 + 2) 5))
    | _ => throw s!"unknown cost op {name}"
  | _ => pure none

end DriverOps

/- DriverOps.C03 — reductions -/
import DriverOps.Base
import SparseV.Model.Reduce
open Lean SparseV

namespace DriverOps

def redOp (s : String) : R RedOp :=
  match s with
  | "add" => pure .add | "multiply" => pure .mul | "maximum" => pure .max | "minimum" => pure .min
  | _ => throw s!"unknown reduction {s}"

def c03 (op : String) (a : Array Json) : R (Option Json) := do
  match op with
  | "reduce" =>
    let r ← redOp (← (← arg a 1).getStr?)
    let x ← jCoo (← arg a 2); let axes ← jOpt (jList jInt) (← arg a 3); let kd ← jBool (← arg a 4)
    match COO.reduce r x axes kd with
    | .error e => pure (some (errJ e))
    | .ok (.scalar v) => pure (some (okJ (Json.mkObj [("scalar", intJ v)])))
    | .ok (.arr y) => pure (some (okJ (cooJ y)))
  | "group_runs" =>
    let rows ← jList jNat (← arg a 1); let vals ← jList jInt (← arg a 2)
    let g := groupRuns (· + ·) (rows.zip vals)
    pure (some (okJ (listJ (fun (t : Nat × Int × Nat) => Json.arr #[natJ t.1, intJ t.2.1, natJ t.2.2]) g)))
  | _ => pure none

end DriverOps

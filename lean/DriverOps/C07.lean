/- DriverOps.C07 — the generated fill-policy table and the two decision fragments, for the line protocol -/
import DriverOps.Base
import SparseV.Model.FillPolicy
open Lean SparseV SparseV.Gen SparseV.FillPolicy

namespace DriverOps

def policyName : Policy → String
  | .requiresZero => "requiresZero" | .requiresConsistent => "requiresConsistent" | .checks => "checks"
  | .propagates => "propagates" | .computes => "computes" | .delegates => "delegates" | .creates => "creates"
  | .other => "other" | .drops => "drops"

def c07 (op : String) (a : Array Json) : R (Option Json) := do
  match op with
  | "c07_table" =>
    -- every row: name, public?, policy
    let rows := (Gen.fillFacts.zip Gen.fillPolicies).map fun (f, p) =>
      Json.mkObj [("name", Json.str f.name), ("public", Json.bool f.isPublic), ("policy", Json.str (policyName p)),
                  ("calls", listJ Json.str f.calls)]
    pure (some (okJ (Json.arr rows.toArray)))
  | "c07_summary" =>
    pure (some (okJ (Json.mkObj [
      ("sound", Json.bool (soundB Gen.fillPolicy)),
      ("publicDrops", listJ Json.str (publicDrops Gen.fillPolicy)),
      ("privateDrops", listJ Json.str (privateDrops Gen.fillFacts Gen.fillPolicies)),
      ("guardsOk", Json.bool (guardsOk Gen.fillPolicy)),
      ("isSolution", Json.bool (isSolution Gen.fillFacts Gen.fillPolicies)),
      ("zeroOnly", listJ Json.str zeroOnly), ("joins", listJ Json.str joins), ("exports", listJ Json.str exports)])))
  | "c07_fill_contribution" =>
    -- [fill, missing, sum of the stored elements of the lane]  fill: an integer, or "inf" / "-inf" / "nan"
    let f ← (match (← arg a 1) with
      | Json.str "inf" => pure Ext.posInf | Json.str "-inf" => pure Ext.negInf | Json.str "nan" => pure Ext.nan
      | j => Ext.fin <$> jInt j : R Ext)
    let n ← jNat (← arg a 2)
    let show_ : Ext → Json := fun e => match e with
      | .fin q => intJ q | .posInf => Json.str "inf" | .negInf => Json.str "-inf" | .nan => Json.str "nan"
    let stored ← jInt (← arg a 3)
    pure (some (okJ (Json.mkObj [("code", show_ (Gen.fillContribution f n)), ("spec", show_ (sumRep f n)),
                                 ("lane_sum", show_ (Ext.add (Ext.fin stored) (Gen.fillContribution f n))),
                                 ("lane_sum_spec", show_ (Ext.add (Ext.fin stored) (sumRep f n))),
                                 ("excluded", Json.bool (ExcludedFullLane f n))])))
  | "c07_array_guard" =>
    let ad ← jBool (← arg a 1)
    pure (some (exceptJ (fun _ => Json.str "dense") (Gen.arrayGuard ad)))
  | "c07_dense_mix" =>
    let c ← jBool (← arg a 1); let s ← jBool (← arg a 2)
    pure (some (exceptJ (fun b => Json.str (if b then "dense" else "sparse")) (Gen.denseMix c s)))
  | _ => pure none
end DriverOps

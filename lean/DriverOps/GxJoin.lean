/- DriverOps.GxJoin — GCXS concatenate / stack -/
import DriverOps.Base
import DriverOps.C05
import SparseV.Model.GcxsJoin
open Lean SparseV

namespace DriverOps

def gxJoin (op : String) (a : Array Json) : R (Option Json) := do
  match op with
  | "gx_concat" =>
    let xs ← jList jGcxs (← arg a 1); let ax ← jNat (← arg a 2)
    match xs with
    | x0 :: rest => pure (some (okJ (gcxsJ (GCXS.concatG x0 rest ax))))
    | [] => throw "empty list"
  | "gx_stack" =>
    let xs ← jList jGcxs (← arg a 1); let ax ← jNat (← arg a 2)
    match xs with
    | x0 :: rest => pure (some (okJ (gcxsJ (GCXS.stackG x0 rest ax))))
    | [] => throw "empty list"
  | "gx_splice" =>
    -- [op, [[indptr, nnz], ...]]
    let ms ← jList (fun j => do
      let p ← j.getArr?
      pure ((← jList jNat (← arg p 0)), (← jNat (← arg p 1)))) (← arg a 1)
    pure (some (okJ (listJ natJ (GIx.splice ms))))
  | _ => pure none

end DriverOps

/- DriverOps.C15 — ops of the index-width model (SparseV.Model.Width): the NumPy arithmetic rules as tables, and
   the width-sensitive sites.  A dtype is the JSON pair [signed, bits]. -/
import DriverOps.Base
import SparseV.Model.Width
open Lean SparseV SparseV.IdxTy

namespace DriverOps

def jTy (j : Json) : R IdxTy := do
  let a ← j.getArr?
  match a.toList with
  | [s, b] => pure ⟨← jBool s, ← jNat b⟩
  | _ => throw "dtype expected as [signed, bits]"

def tyJ (t : IdxTy) : Json := Json.arr #[Json.bool t.signed, natJ t.bits]
def optTyJ : Option IdxTy → Json
  | some t => tyJ t
  | none => Json.null

def jOp (j : Json) : R Op := do
  match ← j.getStr? with
  | "add" => pure .add | "sub" => pure .sub | "mul" => pure .mul | "floordiv" => pure .floordiv | "mod" => pure .mod
  | s => throw s!"unknown operator {s}"

def jKind (j : Json) : R ShiftKind := do
  match ← j.getStr? with
  | "py" => pure .pyInt | "np" => pure .npInt64
  | s => throw s!"unknown shift kind {s}"

def exJ {β} (f : β → Json) : Except Err β → Json
  | .ok v => f v
  | .error e => Json.str e.name

/-- all-or-nothing: NumPy raises for the whole array -/
def allOk {β} (l : List (Except Err β)) : Except Err (List β) := l.mapM id

def c15 (op : String) (a : Array Json) : R (Option Json) := do
  match op with
  | "c15_arrarr" =>
    let t ← jTy (← arg a 1); let o ← jOp (← arg a 2)
    let xs ← jList jInt (← arg a 3); let ys ← jList jInt (← arg a 4)
    pure (some (okJ (listJ (fun x => listJ (fun y => intJ (arrArr t o x y)) ys) xs)))
  | "c15_arrpy" =>
    -- per Python int k: "overflow" or the list over the array elements; `rev` = the int is the left operand
    let t ← jTy (← arg a 1); let o ← jOp (← arg a 2)
    let xs ← jList jInt (← arg a 3); let ks ← jList jInt (← arg a 4); let rev ← jBool (← arg a 5)
    pure (some (okJ (listJ (fun k => exJ (listJ intJ) (allOk (xs.map fun x => if rev then pyArr t o k x else arrPy t o x k))) ks)))
  | "c15_arrnp" =>
    let t ← jTy (← arg a 1); let t2 ← jTy (← arg a 2); let o ← jOp (← arg a 3)
    let xs ← jList jInt (← arg a 4); let ks ← jList jInt (← arg a 5)
    pure (some (okJ (Json.mkObj [("ty", optTyJ (promote t t2)),
      ("vals", listJ (fun k => listJ (fun x => match arrNp t t2 o x k with | some (_, v) => intJ v | none => Json.null) xs) ks)])))
  | "c15_iaddnp" =>
    let t ← jTy (← arg a 1); let t2 ← jTy (← arg a 2)
    let xs ← jList jInt (← arg a 3); let ks ← jList jInt (← arg a 4)
    pure (some (okJ (listJ (fun k => exJ (listJ intJ) (allOk (xs.map fun x => iaddNp t t2 x k))) ks)))
  | "c15_cast" =>
    let t ← jTy (← arg a 1); let xs ← jList jInt (← arg a 2)
    pure (some (okJ (listJ (fun x => intJ (castTo t x)) xs)))
  | "c15_canstore" =>
    let t ← jTy (← arg a 1); let xs ← jList jInt (← arg a 2)
    pure (some (okJ (listJ (fun x => Json.bool (canStore t x)) xs)))
  | "c15_minscalar" =>
    let xs ← jList jInt (← arg a 1)
    pure (some (okJ (listJ (fun x => optTyJ (minScalarType x)) xs)))
  | "c15_promote" =>
    let ts ← jList jTy (← arg a 1)
    pure (some (okJ (listJ (fun t1 => listJ (fun t2 => optTyJ (promote t1 t2)) ts) ts)))
  | "c15_safeintp" =>
    let ts ← jList jTy (← arg a 1)
    pure (some (okJ (listJ (fun t => Json.bool (safeToIntp t)) ts)))
  | "c15_storedty" =>
    let fixed ← jBool (← arg a 1); let ts ← jList jTy (← arg a 2)
    pure (some (okJ (listJ (fun t => tyJ (storedTy fixed t)) ts)))
  | "c15_range" =>
    let t ← jTy (← arg a 1)
    pure (some (okJ (listJ intJ [t.lo, t.hi])))
  -- sites -------------------------------------------------------------------------------------------
  | "c15_getitem" =>
    let t ← jTy (← arg a 1); let fixed ← jBool (← arg a 2)
    let cs ← jList jInt (← arg a 3); let start ← jInt (← arg a 4); let step ← jInt (← arg a 5)
    let f := if fixed then getitemCoordFixed t else getitemCoord t
    -- NumPy converts the Python ints even when nothing is selected: evaluate one extra element (`start`) and drop it
    pure (some (exJ (fun l => okJ (listJ intJ l.dropLast)) (allOk ((cs ++ [start]).map fun c => f c start step))))
  | "c15_invidx" =>
    let t ← jTy (← arg a 1); let fixed ← jBool (← arg a 2); let g ← jList jInt (← arg a 3)
    let r := if fixed then calcCountsInvidxFixed g else calcCountsInvidx t g
    pure (some (okJ (Json.arr #[listJ intJ r.1, listJ intJ r.2])))
  | "c15_reshape" =>
    -- coords rows of the result for the given linear locations, following the loop over shape[::-1]
    let t ← jTy (← arg a 1); let shape ← jList jInt (← arg a 2); let lins ← jList jInt (← arg a 3)
    match reshapeTy t shape with
    | none => pure (some (okJ (Json.mkObj [("ty", Json.null)])))
    | some r =>
      let (rows, _) := shape.reverse.foldl (fun (acc : List (List Int) × Int) d =>
        ((lins.map fun l => reshapeCoord r l acc.2 d) :: acc.1, acc.2 * d)) ([], 1)
      pure (some (okJ (Json.mkObj [("ty", tyJ r), ("coords", listJ (listJ intJ) rows)])))
  | "c15_concat" =>
    -- operands' coordinates along the axis with their offsets
    let t ← jTy (← arg a 1); let shape ← jList jInt (← arg a 2)
    let parts ← jList (jList jInt) (← arg a 3); let offs ← jList jInt (← arg a 4)
    match concatTy t shape with
    | none => pure (some (okJ (Json.mkObj [("ty", Json.null)])))
    | some r =>
      let res := allOk ((parts.zip offs).flatMap fun (cs, off) => cs.map fun c => concatCoord r c off)
      pure (some (exJ (fun l => okJ (Json.mkObj [("ty", tyJ r), ("coords", listJ intJ l)])) res))
  | "c15_roll" =>
    let t ← jTy (← arg a 1); let kind ← jKind (← arg a 2); let shape ← jList jInt (← arg a 3)
    let steps ← jList (fun j => do
      let p ← jList jInt j
      match p with
      | [sh, ax] => pure (sh, ax.toNat)
      | _ => throw "step expected as [shift, axis]") (← arg a 4)
    let idxs ← jList (jList jInt) (← arg a 5)
    pure (some (exJ (fun l => okJ (listJ (listJ intJ) l)) (allOk (idxs.map fun i => rollIdx t kind shape steps i))))
  | "c15_flip" =>
    let t ← jTy (← arg a 1); let n ← jInt (← arg a 2); let cs ← jList jInt (← arg a 3)
    pure (some (exJ (fun l => okJ (listJ intJ l)) (allOk (cs.map fun c => flipCoord t n c))))
  | "c15_kron" =>
    let ta ← jTy (← arg a 1); let tb ← jTy (← arg a 2); let nb ← jInt (← arg a 3)
    let pairs ← jList (jList jInt) (← arg a 4)
    let res := pairs.map fun p => kronCoord ta tb (p.getD 0 0) nb (p.getD 1 0)
    pure (some (okJ (Json.mkObj [("ty", optTyJ ((res.head?.getD none).map (·.1))),
      ("coords", listJ (fun r => match r with | some (_, v) => intJ v | none => Json.null) res)])))
  | "c15_pad" =>
    let t ← jTy (← arg a 1); let before ← jInt (← arg a 2); let cs ← jList jInt (← arg a 3)
    let res := cs.map fun c => padCoord t c before
    pure (some (okJ (Json.mkObj [("ty", optTyJ ((res.head?.getD none).map (·.1))),
      ("coords", listJ (fun r => match r with | some (_, v) => intJ v | none => Json.null) res)])))
  | "c15_tri" =>
    let t ← jTy (← arg a 1); let fixed ← jBool (← arg a 2); let lower ← jBool (← arg a 3); let k ← jInt (← arg a 4)
    let pairs ← jList (jList jInt) (← arg a 5)
    let f := fun (c0 c1 : Int) => match fixed, lower with
      | false, false => triuKeep t c0 c1 k | false, true => trilKeep t c0 c1 k
      | true, false => triuKeepFixed c0 c1 k | true, true => trilKeepFixed c0 c1 k
    pure (some (exJ (fun l => okJ (listJ Json.bool l)) (allOk (pairs.map fun p => f (p.getD 0 0) (p.getD 1 0)))))
  | "c15_gcxsty" =>
    let req ← jOpt jTy (← arg a 1); let t ← jTy (← arg a 2)
    let rows ← jInt (← arg a 3); let cols ← jInt (← arg a 4); let nnz ← jInt (← arg a 5)
    let vals ← jList jInt (← arg a 6)
    pure (some (exJ (fun r => okJ (Json.mkObj [("ty", optTyJ r),
      ("vals", match r with | some r => listJ (fun v => intJ (gcxsStore r v)) vals | none => Json.null)])) (gcxsTy req t rows cols nnz)))
  | "c15_joinptr" =>
    let tp ← jTy (← arg a 1); let fixed ← jBool (← arg a 2); let total ← jInt (← arg a 3); let rows ← jInt (← arg a 4)
    let entries ← jList (jList jInt) (← arg a 5); let rowIds ← jList jInt (← arg a 6)
    match (if fixed then joinIndptrTyFixed tp total rows else joinIndptrTy tp total rows) with
    | none => pure (some (okJ (Json.mkObj [("ty", Json.null)])))
    | some r =>
      pure (some (exJ (fun l => okJ (Json.mkObj [("ty", tyJ r), ("indptr", listJ intJ l),
        ("rows", listJ (fun i => intJ (uncompressRow r i)) rowIds)]))
        (allOk (entries.map fun p => joinIndptrEntry r (p.getD 0 0) (p.getD 1 0)))))
  | "c15_uncompress" =>
    let tp ← jTy (← arg a 1); let rowIds ← jList jInt (← arg a 2)
    pure (some (okJ (listJ (fun i => intJ (uncompressRow tp i)) rowIds)))
  | "c15_idxcast" =>
    let t ← jTy (← arg a 1); let shape ← jList jInt (← arg a 2); let cs ← jList jInt (← arg a 3)
    pure (some (exJ (fun l => okJ (listJ intJ l)) (allOk (cs.map fun c => idxCast t shape c))))
  | "c15_boxshape" =>
    let t ← jTy (← arg a 1); let fixed ← jBool (← arg a 2); let shape ← jList jInt (← arg a 3)
    pure (some (okJ (listJ intJ (if fixed then boxShapeFixed shape else boxShape t shape))))
  | "c15_reducerows" =>
    let tp ← jTy (← arg a 1); let fixed ← jBool (← arg a 2); let rows ← jNat (← arg a 3)
    pure (some (okJ (listJ intJ (if fixed then reduceRowIdsFixed rows else reduceRowIds tp rows))))
  | "c15_gcxskey" =>
    let t ← jTy (← arg a 1); let fixed ← jBool (← arg a 2); let ks ← jList jInt (← arg a 3)
    pure (some (exJ (fun l => okJ (listJ intJ l)) (allOk (ks.map fun k => if fixed then gcxsKeyFixed k else gcxsKey t k))))
  | _ => pure none

end DriverOps

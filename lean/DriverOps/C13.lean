/- DriverOps.C13 — run schedules through the two interleaving systems -/
import DriverOps.C11
import SparseV.Model.Interleave
import SparseV.Model.SharedReads
open Lean SparseV SparseV.Cache SparseV.Interleave SparseV.Shared

def outcomeJ {α} (f : α → Json) : Except Err α → Json
  | .ok v => Json.arr #[Json.str "ok", f v]
  | .error e => Json.arr #[Json.str "err", Json.str e.name]

def jMode (j : Json) : R Mode := do
  match j with
  | Json.str "live" => pure .live
  | Json.str "snapshot" => pure .snapshot
  | _ => throw "bad mode"

def jStr (j : Json) : R String := j.getStr?

def jStmt (j : Json) : R Stmt := do
  match j with
  | Json.str "iter" => pure .iterItems
  | Json.str "scan" => pure .scanItems
  | Json.str "snap" => pure .snapshot
  | Json.str "prune" => pure .pruneFill
  | Json.arr #[Json.str "set", k, v] => pure (.setItem (← jNat k) (← jInt v))
  | Json.arr #[Json.str "del", k] => pure (.delItem (← jNat k))
  | _ => throw "bad statement"

def stmtJ : Stmt → Json
  | .iterItems => Json.str "iter"
  | .scanItems => Json.str "scan"
  | .snapshot => Json.str "snap"
  | .pruneFill => Json.str "prune"
  | .setItem k v => Json.arr #[Json.str "set", natJ k, intJ v]
  | .delItem k => Json.arr #[Json.str "del", natJ k]

def jItem (j : Json) : R Item := do
  match j with
  | Json.arr #[k, v] => pure (← jNat k, ← jInt v)
  | _ => throw "bad item"

def itemJ (it : Item) : Json := Json.arr #[natJ it.1, intJ it.2]

def jFilter (j : Json) : R Filter := do
  match j with
  | Json.arr #[a, m, c] => pure ⟨actionOf (← jStr a), (← jStr m).toList, ← jStr c⟩
  | _ => throw "bad filter"

def actionJ : Action → Json
  | .ignore => Json.str "ignore"
  | .error => Json.str "error"
  | .other => Json.str "other"

def filterJ (f : Filter) : Json := Json.arr #[actionJ f.action, Json.str (String.ofList f.msg), Json.str f.cat]

def jWOp (j : Json) : R WOp := do
  match j with
  | Json.arr #[Json.str "block", fs] => pure (.block (← jList jFilter fs))
  | Json.arr #[Json.str "warn", c, m] => pure (.warn ⟨← jStr c, (← jStr m).toList⟩)
  | _ => throw "bad op"

def wopJ : WOp → Json
  | .block fs => Json.arr #[Json.str "block", listJ filterJ fs]
  | .warn w => Json.arr #[Json.str "warn", Json.str w.cat, Json.str (String.ofList w.msg)]

namespace DriverOps
def c13shared (op : String) (a : Array Json) : R (Option Json) := do
  match op with
  | "c13_dict_coarse" =>
    -- entry array (items or null), one list of calls (lists of statements) per thread, coarse schedule, fuel
    let d0 ← jList (jOpt jItem) (← arg a 1)
    let progs ← jList (jList (jList jStmt)) (← arg a 2)
    let coarse ← jList jNat (← arg a 3)
    let fuel ← jNat (← arg a 4)
    let s0 := dinit d0 progs
    let mut s := s0
    let mut arrived : Array Json := #[]
    for t in coarse do
      s := (dquantum fuel t s).1
      arrived := arrived.push (Json.str (dpcKind s t))
    let r := dcoarseRun fuel coarse s0
    let rets := r.1.threads.map fun th => listJ (fun (x : Op × Except Err (List Item)) => Json.arr #[listJ stmtJ x.1, outcomeJ (listJ itemJ) x.2]) th.rets.reverse
    pure (some (okJ (Json.mkObj
      [("rets", Json.arr rets.toArray), ("dict", listJ (fun e => match e with | some it => itemJ it | none => Json.null) r.1.dict),
       ("fine", listJ natJ r.2), ("arrived", Json.arr arrived), ("done", Json.bool (dallDone r.1)),
       ("all_read", Json.bool (progs.all fun p => p.all Op.isRead))])))
  | "c13_dok_protos" =>
    -- the protocol of every DOK method of the generated table (null: not modelled), and which are read-only methods
    let ms := (Gen.dokDataUses.map (·.1)).eraseDups
    pure (some (okJ (Json.mkObj
      [("protos", Json.mkObj (ms.map fun m => (m, match methodProto m with | some p => listJ stmtJ p | none => Json.null))),
       ("read_methods", listJ Json.str dokReadMethods),
       ("all_read", Json.bool (match dokReadProtos with | some ps => ps.all Op.isRead | none => false))])))
  | "c13_filter_run" =>
    -- initial filter list, one list of ops per thread, FINE schedule: the installed list after every step
    let fs0 ← jList jFilter (← arg a 1)
    let progs ← jList (jList jWOp) (← arg a 2)
    let sched ← jList jNat (← arg a 3)
    let mut s := winit fs0 progs
    let mut trace : Array Json := #[]
    for t in sched do
      s := wstep t s
      trace := trace.push (listJ filterJ s.filters)
    let rets := s.threads.map fun th => listJ (fun (x : WOp × Except Err Unit) => Json.arr #[wopJ x.1, outcomeJ (fun _ => Json.null) x.2]) th.rets.reverse
    pure (some (okJ (Json.mkObj
      [("rets", Json.arr rets.toArray), ("filters", listJ filterJ s.filters), ("trace", Json.arr trace), ("done", Json.bool (wallDone s))])))
  | "c13_blocks" =>
    -- the generated blocks with the model's verdict per filter, and the catalogue
    let bs := Gen.catchBlocks.map fun b => Json.mkObj
      [("file", Json.str b.1), ("function", Json.str b.2.1), ("filters", listJ filterJ (b.2.2.map filterOf)),
       ("harmful", listJ (fun f => Json.bool (harmful libraryCatalogue f)) (b.2.2.map filterOf))]
    pure (some (okJ (Json.mkObj
      [("blocks", Json.arr bs.toArray), ("catalogue", listJ (fun (w : Warn) => Json.arr #[Json.str w.cat, Json.str (String.ofList w.msg)]) libraryCatalogue),
       ("global_writes", listJ (fun (r : String × String × String) => Json.arr #[Json.str r.1, Json.str r.2.1, Json.str r.2.2]) Gen.globalWrites)])))
  | "c13_harmful" =>
    -- is a filter harmful with respect to the library's catalogue extended by the given warnings?
    let f ← jFilter (← arg a 1)
    let extra ← jList (fun j => do match j with | Json.arr #[c, m] => pure (Warn.mk (← jStr c) (← jStr m).toList) | _ => throw "bad warning") (← arg a 2)
    pure (some (okJ (Json.bool (harmful (libraryCatalogue ++ extra) f))))
  | "c13_shared_witnesses" =>
    pure (some (okJ (Json.mkObj
      [("prune", Json.mkObj [("dict", listJ (fun e => match e with | some it => itemJ it | none => Json.null) C13.pruneDict),
                             ("progs", listJ (listJ (listJ stmtJ)) C13.pruneProgs), ("sched", listJ natJ C13.pruneSched)]),
       ("transient", Json.mkObj [("progs", listJ (listJ wopJ) C13.transientProgs), ("sched", listJ natJ C13.transientSched)]),
       ("lasting", Json.mkObj [("progs", listJ (listJ wopJ) C13.lastingProgs), ("sched", listJ natJ C13.lastingSched)])])))
  | _ => pure none

def c13 (op : String) (a : Array Json) : R (Option Json) := do
  match op with
  | "c13_cache_run" =>
    -- mode, initial deque (keys; values are the keys), one call list per thread, schedule
    let mode ← jMode (← arg a 1)
    let dq0 ← jList jKey (← arg a 2)
    let progs ← jList (jList jKey) (← arg a 3)
    let sched ← jList jNat (← arg a 4)
    let compute : Key → Key := fun k => k
    let s0 : CState Key := cinit (dq0.map fun k => (k, k)) progs
    let s := runSched (cstep mode compute) sched s0
    let rets := s.threads.map fun th => listJ (fun (r : Key × Except Err Key) => Json.arr #[keyJ r.1, outcomeJ keyJ r.2]) th.rets.reverse
    pure (some (okJ (Json.mkObj
      [("rets", Json.arr rets.toArray), ("dq", listJ keyJ (s.dq.map (·.1))),
       ("values_ok", Json.bool (s.dq.all fun e => e.1 == e.2)), ("ver", natJ s.ver),
       ("excluded", Json.bool (Excluded_appendDuringIteration mode compute s0 sched)),
       ("done", Json.bool (allDone s))])))
  | "c13_cache_coarse" =>
    -- as c13_cache_run, but the schedule has one thread id per quantum of the traced scheduler
    -- (SparseV.Interleave.quantum); also answers where the scheduled thread is parked after each quantum
    let mode ← jMode (← arg a 1)
    let dq0 ← jList jKey (← arg a 2)
    let progs ← jList (jList jKey) (← arg a 3)
    let coarse ← jList jNat (← arg a 4)
    let compute : Key → Key := fun k => k
    let s0 : CState Key := cinit (dq0.map fun k => (k, k)) progs
    let mut s := s0
    let mut arrived : Array Json := #[]
    for t in coarse do
      s := (quantum mode compute t s).1
      arrived := arrived.push (Json.str (pcKind s t))
    let r := coarseRun mode compute coarse s0
    let rets := r.1.threads.map fun th => listJ (fun (x : Key × Except Err Key) => Json.arr #[keyJ x.1, outcomeJ keyJ x.2]) th.rets.reverse
    pure (some (okJ (Json.mkObj
      [("rets", Json.arr rets.toArray), ("dq", listJ keyJ (r.1.dq.map (·.1))),
       ("values_ok", Json.bool (r.1.dq.all fun e => e.1 == e.2)), ("ver", natJ r.1.ver),
       ("fine", listJ natJ r.2), ("arrived", Json.arr arrived),
       ("excluded", Json.bool (Excluded_appendDuringIteration mode compute s0 r.2)),
       ("done", Json.bool (allDone r.1))])))
  | "c13_coarsen" =>
    -- rewrite a fine schedule as quanta of the traced scheduler, if it is one (greedy; answers
    -- {"err":...} when a quantum would be split, i.e. the schedule is not realisable at line granularity)
    let mode ← jMode (← arg a 1)
    let dq0 ← jList jKey (← arg a 2)
    let progs ← jList (jList jKey) (← arg a 3)
    let fine ← jList jNat (← arg a 4)
    let compute : Key → Key := fun k => k
    let mut s : CState Key := cinit (dq0.map fun k => (k, k)) progs
    let mut rest := fine
    let mut coarse : Array Json := #[]
    let mut bad := false
    for _ in [0:fine.length] do
      match rest with
      | [] => break
      | t :: _ =>
        let q := quantum mode compute t s
        if q.2.isPrefixOf rest then
          s := q.1; rest := rest.drop q.2.length; coarse := coarse.push (natJ t)
        else
          bad := true; break
    if bad then pure (some (Json.mkObj [("err", Json.str "not-line-realisable")]))
    else pure (some (okJ (Json.mkObj [("coarse", Json.arr coarse)])))
  | "c13_memo_run" =>
    let m0 ← jList jNat (← arg a 1)
    let progs ← jList (jList jNat) (← arg a 2)
    let sched ← jList jNat (← arg a 3)
    let compute : Nat → Nat := fun k => k
    let s := runSched (mstep compute) sched (minit (m0.map fun k => (k, k)) progs)
    let rets := s.threads.map fun th => listJ (fun (r : Nat × Except Err Nat) => Json.arr #[natJ r.1, outcomeJ natJ r.2]) th.rets.reverse
    pure (some (okJ (Json.mkObj
      [("rets", Json.arr rets.toArray), ("memo", listJ natJ (s.memo.map (·.1))),
       ("done", Json.bool (s.threads.all fun th => th.todo.isEmpty && (match th.pc with | .idle => true | _ => false)))])))
  | "c13_counterexample" =>
    -- the witness of SparseV.C13.cache_iter_race_counterexample, for replay on the real code
    pure (some (okJ (Json.mkObj
      [("dq", listJ keyJ (C13.cexDq.map (·.1))), ("progs", listJ (listJ keyJ) C13.cexProgs),
       ("sched", listJ natJ C13.cexSched)])))
  | _ => c13shared op a
end DriverOps

/- DriverOps.C13 — run schedules through the two interleaving systems -/
import DriverOps.C11
import SparseV.Model.Interleave
open Lean SparseV SparseV.Cache SparseV.Interleave

def outcomeJ {α} (f : α → Json) : Except Err α → Json
  | .ok v => Json.arr #[Json.str "ok", f v]
  | .error e => Json.arr #[Json.str "err", Json.str e.name]

def jMode (j : Json) : R Mode := do
  match j with
  | Json.str "live" => pure .live
  | Json.str "snapshot" => pure .snapshot
  | _ => throw "bad mode"

namespace DriverOps
def c13 (op : String) (a : Array Json) : R (Option Json) := do
  match op with
  | "c13_cache_run" =>
    -- mode, initial deque (keys; values are the keys), one call list per thread, schedule
    let mode ← jMode (← arg a 1)
    let dq0 ← jList jKey (← arg a 2)
    let progs ← jList (jList jKey) (← arg a 3)
    let sched ← jList jNat (← arg a 4)
    let compute : Key → Key := fun k => k
    let s0 : CState Key := cinit (dq0.map fun k => (k, k)) progs
    let s := runSched (cstep mode compute) sched s0
    let rets := s.threads.map fun th => listJ (fun (r : Key × Except Err Key) => Json.arr #[keyJ r.1, outcomeJ keyJ r.2]) th.rets.reverse
    pure (some (okJ (Json.mkObj
      [("rets", Json.arr rets.toArray), ("dq", listJ keyJ (s.dq.map (·.1))),
       ("values_ok", Json.bool (s.dq.all fun e => e.1 == e.2)), ("ver", natJ s.ver),
       ("excluded", Json.bool (Excluded_appendDuringIteration mode compute s0 sched)),
       ("done", Json.bool (allDone s))])))
  | "c13_cache_coarse" =>
    -- as c13_cache_run, but the schedule has one thread id per quantum of the traced scheduler
    -- (SparseV.Interleave.quantum); also answers where the scheduled thread is parked after each quantum
    let mode ← jMode (← arg a 1)
    let dq0 ← jList jKey (← arg a 2)
    let progs ← jList (jList jKey) (← arg a 3)
    let coarse ← jList jNat (← arg a 4)
    let compute : Key → Key := fun k => k
    let s0 : CState Key := cinit (dq0.map fun k => (k, k)) progs
    let mut s := s0
    let mut arrived : Array Json := #[]
    for t in coarse do
      s := (quantum mode compute t s).1
      arrived := arrived.push (Json.str (pcKind s t))
    let r := coarseRun mode compute coarse s0
    let rets := r.1.threads.map fun th => listJ (fun (x : Key × Except Err Key) => Json.arr #[keyJ x.1, outcomeJ keyJ x.2]) th.rets.reverse
    pure (some (okJ (Json.mkObj
      [("rets", Json.arr rets.toArray), ("dq", listJ keyJ (r.1.dq.map (·.1))),
       ("values_ok", Json.bool (r.1.dq.all fun e => e.1 == e.2)), ("ver", natJ r.1.ver),
       ("fine", listJ natJ r.2), ("arrived", Json.arr arrived),
       ("excluded", Json.bool (Excluded_appendDuringIteration mode compute s0 r.2)),
       ("done", Json.bool (allDone r.1))])))
  | "c13_coarsen" =>
    -- rewrite a fine schedule as quanta of the traced scheduler, if it is one (greedy; answers
    -- {"err":...} when a quantum would be split, i.e. the schedule is not realisable at line granularity)
    let mode ← jMode (← arg a 1)
    let dq0 ← jList jKey (← arg a 2)
    let progs ← jList (jList jKey) (← arg a 3)
    let fine ← jList jNat (← arg a 4)
    let compute : Key → Key := fun k => k
    let mut s : CState Key := cinit (dq0.map fun k => (k, k)) progs
    let mut rest := fine
    let mut coarse : Array Json := #[]
    let mut bad := false
    for _ in [0:fine.length] do
      match rest with
      | [] => break
      | t :: _ =>
        let q := quantum mode compute t s
        if q.2.isPrefixOf rest then
          s := q.1; rest := rest.drop q.2.length; coarse := coarse.push (natJ t)
        else
          bad := true; break
    if bad then pure (some (Json.mkObj [("err", Json.str "not-line-realisable")]))
    else pure (some (okJ (Json.mkObj [("coarse", Json.arr coarse)])))
  | "c13_memo_run" =>
    let m0 ← jList jNat (← arg a 1)
    let progs ← jList (jList jNat) (← arg a 2)
    let sched ← jList jNat (← arg a 3)
    let compute : Nat → Nat := fun k => k
    let s := runSched (mstep compute) sched (minit (m0.map fun k => (k, k)) progs)
    let rets := s.threads.map fun th => listJ (fun (r : Nat × Except Err Nat) => Json.arr #[natJ r.1, outcomeJ natJ r.2]) th.rets.reverse
    pure (some (okJ (Json.mkObj
      [("rets", Json.arr rets.toArray), ("memo", listJ natJ (s.memo.map (·.1))),
       ("done", Json.bool (s.threads.all fun th => th.todo.isEmpty && (match th.pc with | .idle => true | _ => false)))])))
  | "c13_counterexample" =>
    -- the witness of SparseV.C13.cache_iter_race_counterexample, for replay on the real code
    pure (some (okJ (Json.mkObj
      [("dq", listJ keyJ (C13.cexDq.map (·.1))), ("progs", listJ (listJ keyJ) C13.cexProgs),
       ("sched", listJ natJ C13.cexSched)])))
  | _ => pure none
end DriverOps

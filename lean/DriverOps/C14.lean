/- DriverOps.C14 — ops of the persistence model (Model/Npz.lean) and of the generated npz/pickle/boxing tables.
   Element values travel as integer tokens (the harness numbers the distinct byte patterns): the model
   never computes with them. -/
import DriverOps.Base
import SparseV.Model.Npz
open Lean SparseV SparseV.Npz

namespace DriverOps

def jStr (j : Json) : R String := j.getStr?

def jMat (j : Json) : R Mat := do
  let nr ← jNat (← jField j "nrows"); let nc ← jNat (← jField j "ncols")
  let rows ← jList (jList jInt) (← jField j "rows")
  pure ⟨nr, nc, rows⟩

def matJ (m : Mat) : Json :=
  Json.mkObj [("nrows", natJ m.nrows), ("ncols", natJ m.ncols), ("rows", listJ (listJ intJ) m.rows)]

def jPayload (j : Json) : R (Payload Int) := do
  let k ← jStr (← jField j "k")
  match k with
  | "object" => pure .object
  | "val" => pure (.val (← jInt (← jField j "v")))
  | "vals" => pure (.vals (← jList jInt (← jField j "v")))
  | "ints" => pure (.ints (← jList jInt (← jField j "v")))
  | "mat" => pure (.mat (← jMat (← jField j "v")))
  | _ => throw s!"payload kind {k}"

def payloadJ : Payload Int → Json
  | .object => Json.mkObj [("k", Json.str "object")]
  | .val v => Json.mkObj [("k", Json.str "val"), ("v", intJ v)]
  | .vals v => Json.mkObj [("k", Json.str "vals"), ("v", listJ intJ v)]
  | .ints v => Json.mkObj [("k", Json.str "ints"), ("v", listJ intJ v)]
  | .mat m => Json.mkObj [("k", Json.str "mat"), ("v", matJ m)]

def jMembers (j : Json) : R (Members Int) :=
  jList (fun e => do
    let a ← e.getArr?
    match a.toList with
    | [k, p] => pure ((← jStr k), (← jPayload p))
    | _ => throw "member: [name, payload] expected") j

def membersJ (m : Members Int) : Json := listJ (fun (e : String × Payload Int) => Json.arr #[Json.str e.1, payloadJ e.2]) m

def jArr (j : Json) : R (Arr Int) := do
  let cls ← jStr (← jField j "cls")
  let shape ← jList jInt (← jField j "shape")
  let data ← jList jInt (← jField j "data")
  let fill ← jInt (← jField j "fill")
  match cls with
  | "COO" => pure (.coo shape (← jMat (← jField j "coords")) data fill)
  | "GCXS" =>
    let e ← jBool (← jField j "exact")
    let i ← jList jInt (← jField j "indices"); let p ← jList jInt (← jField j "indptr")
    let ca ← jOpt (jList jInt) (← jField j "caxes")
    pure (.gcxs e shape data i p ca fill)
  | _ => throw s!"class {cls}"

def arrJ : Arr Int → Json
  | .coo s c d f => Json.mkObj [("cls", Json.str "COO"), ("shape", listJ intJ s), ("coords", matJ c),
      ("data", listJ intJ d), ("fill", intJ f)]
  | .gcxs e s d i p ca f => Json.mkObj [("cls", Json.str "GCXS"), ("exact", Json.bool e), ("shape", listJ intJ s),
      ("data", listJ intJ d), ("indices", listJ intJ i), ("indptr", listJ intJ p),
      ("caxes", match ca with | none => Json.null | some l => listJ intJ l), ("fill", intJ f)]

def jCooObj (j : Json) : R (CooObj Int) := do
  let shape ← jList jInt (← jField j "shape")
  let data ← jList jInt (← jField j "data")
  let fill ← jInt (← jField j "fill")
  let c ← jMat (← jField j "coords")
  let cache ← jBool (← jField j "cache")
  pure ⟨c, data, shape, fill, if cache then some [] else none⟩

def cooObjJ (x : CooObj Int) : Json :=
  Json.mkObj [("shape", listJ intJ x.shape), ("coords", matJ x.coords), ("data", listJ intJ x.data),
    ("fill", intJ x.fill), ("cache", Json.bool x.cache.isSome)]

def pairsJ (l : List (String × String)) : Json := listJ (fun (e : String × String) => Json.arr #[Json.str e.1, Json.str e.2]) l
def strsJ (l : List String) : Json := listJ Json.str l

def c14 (op : String) (a : Array Json) : R (Option Json) := do
  match op with
  | "npz_config" =>
    pure (some (okJ (Json.mkObj [
      ("common", pairsJ Gen.npzCommon),
      ("write", listJ (fun (b : String × Bool × List (String × String)) => Json.arr #[Json.str b.1, Json.bool b.2.1, pairsJ b.2.2]) Gen.npzWrite),
      ("require", listJ (fun (b : String × List String) => Json.arr #[Json.str b.1, strsJ b.2]) Gen.npzRequire),
      ("gcxs_exact_test", Json.bool gcxsExactTest),
      ("none_axes_as_empty", Json.bool Gen.npzNoneAxesAsEmpty),
      ("empty_axes_as_none", Json.bool Gen.npzEmptyAxesAsNone),
      ("reject_leading_data", Json.bool Gen.npzRejectLeadingData),
      ("verify_crc", Json.bool Gen.npzVerifyCrc),
      ("getstate", strsJ Gen.cooGetState), ("setstate", strsJ Gen.cooSetState), ("setstate_reset", strsJ Gen.cooSetStateReset),
      ("struct", strsJ Gen.cooStruct), ("shape_dtype", Json.str Gen.cooShapeDtype), ("unbox", pairsJ Gen.cooUnbox),
      ("box_args", strsJ Gen.cooBoxArgs), ("box_kwargs", pairsJ Gen.cooBoxKwargs),
      ("vocabulary", strsJ vocabulary)])))
  | "npz_save" =>
    let x ← jArr (← arg a 1)
    pure (some (exceptJ membersJ (save x)))
  | "npz_load" =>
    let m ← jMembers (← arg a 1)
    pure (some (exceptJ arrJ (load strictlyIncreasing m)))
  | "gcxs_ctor" =>
    -- GCXS((data, indices, indptr), shape=…, compressed_axes=…, fill_value=…): [data, indices, indptr, caxes|null, shape, fill]
    let d ← jList jInt (← arg a 1); let i ← jList jInt (← arg a 2); let p ← jList jInt (← arg a 3)
    let ca ← jOpt (jList jInt) (← arg a 4); let s ← jList jInt (← arg a 5); let f ← jInt (← arg a 6)
    pure (some (exceptJ arrJ (gcxsCtor strictlyIncreasing d i p ca s f)))
  | "coo_ctor" =>
    -- COO(coords, data, shape, sorted=True, has_duplicates=False, fill_value=…): [coords, data, shape, fill]
    let c ← jMat (← arg a 1); let d ← jList jInt (← arg a 2); let s ← jList jInt (← arg a 3); let f ← jInt (← arg a 4)
    pure (some (exceptJ arrJ (cooCtor c d s f)))
  | "npz_witnesses" =>
    -- the concrete member sets named in Props/C14.lean's statements (data lives next to the model, not in Props)
    pure (some (okJ (Json.mkObj [("row_order_unchecked", membersJ rowOrderWitness)])))
  | "npz_roundtrip" =>
    let x ← jArr (← arg a 1)
    pure (some (exceptJ arrJ (roundtrip strictlyIncreasing x)))
  | "npz_excluded" =>
    let x ← jArr (← arg a 1)
    pure (some (okJ (Json.mkObj [("excluded", Json.bool (decide (Excluded x))), ("wf", Json.bool (decide (x.WF strictlyIncreasing)))])))
  | "pickle_roundtrip" =>
    let x ← jCooObj (← arg a 1)
    pure (some (exceptJ cooObjJ (pickleRoundtrip x)))
  | "box_unbox" =>
    let bits ← jNat (← arg a 1); let signed ← jBool (← arg a 2); let x ← jCooObj (← arg a 3)
    let t : IntTy := ⟨bits, signed⟩
    pure (some (Json.mkObj [("fits", Json.bool (decide (∀ e ∈ x.shape, t.fits e))),
      ("result", exceptJ cooObjJ (boxUnbox ctorChecked t x))]))
  | "int_wrap" =>
    let bits ← jNat (← arg a 1); let signed ← jBool (← arg a 2); let v ← jInt (← arg a 3)
    let t : IntTy := ⟨bits, signed⟩
    pure (some (okJ (Json.arr #[intJ (t.wrap v), Json.bool (decide (t.fits v))])))
  | _ => pure none

end DriverOps

/-
  svdriver — line protocol driver: one JSON array per input line `[op, arg, ...]`,
  one JSON value per output line. Evaluates the executable model (and the generated
  definitions). Unknown operations and malformed arguments answer `{"bad":...}`; nothing defaults.
-/
import Lean.Data.Json
import SparseV.Model.Basic
import SparseV.Model.Coo
import SparseV.Model.Slice
import SparseV.Spec.Slice
import SparseV.Generated.Utils
import SparseV.Generated.Umath
import SparseV.Generated.Dok
open Lean SparseV

abbrev R := Except String

def jInt (j : Json) : R Int := j.getInt?
def jNat (j : Json) : R Nat := do
  let i ← j.getInt?
  if i < 0 then throw s!"negative nat {i}" else pure i.toNat
def jBool (j : Json) : R Bool := j.getBool?
def jList {β} (f : Json → R β) (j : Json) : R (List β) := do
  let a ← j.getArr?
  a.toList.mapM f
def jOpt {β} (f : Json → R β) (j : Json) : R (Option β) :=
  match j with
  | .null => pure none
  | _ => some <$> f j
def jField (j : Json) (k : String) : R Json := j.getObjVal? k

def jCoo (j : Json) : R (COO Int) := do
  let shape ← jList jNat (← jField j "shape")
  let coords ← jList (jList jNat) (← jField j "coords")
  let data ← jList jInt (← jField j "data")
  let fill ← jInt (← jField j "fill")
  if coords.length ≠ data.length then throw "coords/data length"
  pure { shape := shape, entries := coords.zip data, fill := fill }

def natJ (n : Nat) : Json := Json.num (JsonNumber.fromNat n)
def intJ (n : Int) : Json := Json.num (JsonNumber.fromInt n)
def listJ {β} (f : β → Json) (l : List β) : Json := Json.arr (l.map f).toArray
def cooJ (x : COO Int) : Json :=
  Json.mkObj [("shape", listJ natJ x.shape), ("coords", listJ (listJ natJ) x.keys),
              ("data", listJ intJ x.vals), ("fill", intJ x.fill)]
def okJ (j : Json) : Json := Json.mkObj [("ok", j)]
def errJ (e : Err) : Json := Json.mkObj [("err", Json.str e.name)]

def tripleJ (t : Int × Int × Int) : Json := listJ intJ [t.1, t.2.1, t.2.2]
def exceptJ {β} (f : β → Json) : Except Err β → Json
  | .ok v => okJ (f v)
  | .error e => errJ e

def arg (a : Array Json) (i : Nat) : R Json :=
  match a[i]? with
  | some j => pure j
  | none => throw s!"missing argument {i}"

def dispatch (op : String) (a : Array Json) : R Json := do
  match op with
  | "ping" => pure (okJ (Json.str "pong"))
  | "coo_build" =>
    let x ← jCoo (← arg a 1)
    let sorted ← jBool (← arg a 2); let dups ← jBool (← arg a 3); let prune ← jBool (← arg a 4)
    pure (okJ (cooJ (COO.build x.shape x.entries x.fill sorted dups prune)))
  | "transpose_core" =>
    let x ← jCoo (← arg a 1); let axes ← jList jNat (← arg a 2)
    pure (okJ (cooJ (x.transposeCore axes)))
  | "reshape_core" =>
    let x ← jCoo (← arg a 1); let s ← jList jNat (← arg a 2)
    pure (okJ (cooJ (x.reshapeCore s)))
  | "flip_core" =>
    let x ← jCoo (← arg a 1); let axes ← jList jNat (← arg a 2)
    pure (okJ (cooJ (x.flipCore axes)))
  | "roll_core" =>
    let x ← jCoo (← arg a 1); let axes ← jList jNat (← arg a 2); let sh ← jList jInt (← arg a 3)
    pure (okJ (cooJ (x.rollCore axes sh)))
  | "squeeze_core" =>
    let x ← jCoo (← arg a 1); let axes ← jList jNat (← arg a 2)
    pure (okJ (cooJ (x.squeezeCore axes)))
  | "expand_dims_core" =>
    let x ← jCoo (← arg a 1); let p ← jNat (← arg a 2)
    pure (okJ (cooJ (x.expandDimsCore p)))
  | "todense" =>
    let x ← jCoo (← arg a 1)
    pure (okJ (listJ intJ x.todense))
  | "normalize_slice" =>
    let st ← jOpt jInt (← arg a 1); let sp ← jOpt jInt (← arg a 2); let se ← jOpt jInt (← arg a 3)
    let d ← jInt (← arg a 4)
    pure (okJ (tripleJ (normalizeSlice st sp se d)))
  | "py_adjust" =>
    let st ← jOpt jInt (← arg a 1); let sp ← jOpt jInt (← arg a 2); let se ← jInt (← arg a 3)
    let d ← jInt (← arg a 4)
    pure (okJ (tripleJ (Spec.pyAdjust st sp se d)))
  | "range_of" =>
    let t ← jList jInt (← arg a 1)
    match t with
    | [x, y, z] => pure (okJ (listJ intJ (Spec.rangeOf (x, y, z))))
    | _ => throw "triple expected"
  | "normalize_int" =>
    let i ← jInt (← arg a 1); let d ← jInt (← arg a 2)
    pure (exceptJ intJ (normalizeInt i d))
  | "gen_normalize_axis" =>
    let i ← jInt (← arg a 1); let d ← jInt (← arg a 2)
    pure (exceptJ intJ (Gen.normalizeAxisInt i d))
  | "gen_bcast" =>
    let l1 ← jInt (← arg a 1); let l2 ← jInt (← arg a 2); let r ← jBool (← arg a 3)
    pure (okJ (Json.arr #[Json.bool (Gen.bcastOk l1 l2 r), intJ (Gen.bcastDim l1 l2)]))
  | "dok_bounds" =>
    let st ← jOpt jInt (← arg a 1); let sp ← jOpt jInt (← arg a 2); let se ← jOpt jInt (← arg a 3)
    let d ← jInt (← arg a 4)
    pure (okJ (tripleJ (Gen.dokSliceBounds st sp se d)))
  | _ => throw s!"unknown op {op}"

def handle (line : String) : String :=
  match Json.parse line with
  | .error e => (Json.mkObj [("bad", Json.str s!"parse: {e}")]).compress
  | .ok j =>
    match j.getArr? with
    | .error e => (Json.mkObj [("bad", Json.str e)]).compress
    | .ok a =>
      match (a[0]? : Option Json) with
      | some (Json.str op) =>
        match dispatch op a with
        | .ok r => r.compress
        | .error e => (Json.mkObj [("bad", Json.str e)]).compress
      | _ => (Json.mkObj [("bad", Json.str "no op")]).compress

partial def loop (h : IO.FS.Stream) (out : IO.FS.Stream) : IO Unit := do
  let line ← h.getLine
  if line.isEmpty then return ()
  let t := line.trimAscii.toString
  if t.isEmpty then loop h out else
  out.putStrLn (handle t)
  loop h out

def main : IO Unit := do
  let out ← IO.getStdout
  loop (← IO.getStdin) out
  out.flush

"""C08 — shape manipulation agrees with NumPy."""
from __future__ import annotations

import itertools

import numpy as np

import core
import findings
import gen
import impl
import oracle

PID = "C08"
TRUSTED = [
    "Lean 4 kernel; axioms propext, Classical.choice, Quot.sound only (audited per theorem each run)",
    "tie T2: hand model SparseV.Model.Coo (transposeCore, reshapeCore, flipCore, rollCore, squeezeCore, expandDimsCore) "
    "compared with the implementation on representation (coords order, data, shape, fill) by this run",
    "tie T1: Gen.normalizeAxisInt regenerated from _utils.normalize_axis each run",
    "NumPy is the reference for leg C; dtype and float behaviour are outside the theorems",
]


def norm_axes(axes, ndim):
    return [int(a) % ndim for a in axes]


def leg_a(ctx, rng, n):
    """model vs implementation on representation, COO"""
    import sparse

    reqs, metas = [], []
    for k in range(n):
        shp = gen.shape(rng, 0, 4)
        fill = int(rng.choice([0, 0, 2, -1]))
        x = sparse.COO.from_numpy(gen.dense(rng, shp, fill), fill_value=fill)
        xj = impl.coo_json(x)
        nd = x.ndim
        op = str(rng.choice(["transpose", "reshape", "flip", "roll", "squeeze", "expand_dims"]))
        try:
            if op == "transpose":
                axes = [int(a) for a in rng.permutation(nd)]
                raw = [a - nd if rng.random() < 0.3 else a for a in axes]
                r = x.transpose(raw) if nd else x.transpose()
                req = ["transpose_core", xj, axes]
                case = {"op": op, "x": xj, "axes": raw}
            elif op == "reshape":
                size = int(np.prod(shp, dtype=np.int64))
                tgt = rand_factorisation(rng, size)
                r = x.reshape(tuple(tgt))
                req = ["reshape_core", xj, tgt]
                case = {"op": op, "x": xj, "shape": tgt}
            elif op == "flip":
                axes = sorted({int(a) for a in rng.integers(0, max(nd, 1), size=int(rng.integers(0, nd + 1)))}) if nd else []
                r = sparse.flip(x, axis=tuple(axes)) if axes else x
                if not axes:
                    continue
                req = ["flip_core", xj, axes]
                case = {"op": op, "x": xj, "axes": axes}
            elif op == "roll":
                if nd == 0 or 0 in shp:
                    continue
                k_ = int(rng.integers(1, nd + 1))
                axes = [int(a) for a in rng.integers(0, nd, size=k_)]
                shifts = [int(s) for s in rng.integers(-9, 10, size=k_)]
                r = sparse.roll(x, tuple(shifts), axis=tuple(axes))
                req = ["roll_core", xj, axes, shifts]
                case = {"op": op, "x": xj, "axes": axes, "shifts": shifts}
            elif op == "squeeze":
                ones = [i for i, d in enumerate(shp) if d == 1]
                if not ones:
                    continue
                axes = [a for a in ones if rng.random() < 0.7] or ones[:1]
                r = x.squeeze(tuple(axes))
                req = ["squeeze_core", xj, axes]
                case = {"op": op, "x": xj, "axes": axes}
            else:
                pos = int(rng.integers(0, nd + 1))
                r = sparse.expand_dims(x, axis=pos)
                req = ["expand_dims_core", xj, pos]
                case = {"op": op, "x": xj, "axis": pos}
        except Exception as e:  # noqa: BLE001
            ctx.fail("A", f"model:{op}", case if "case" in dir() else op, f"implementation raised {type(e).__name__}: {e}")
            continue
        reqs.append(req)
        metas.append((op, case, impl.coo_json(r)))
    outs = ctx.driver.run(reqs)
    for (op, case, want), out in zip(metas, outs):
        ctx.case(f"A:{op}", case, nontrivial=bool(case["x"]["data"]))
        if out.get("ok") != want:
            ctx.fail("A", f"model:{op}", case, f"model {out} implementation {want}")


def rand_factorisation(rng, size):
    if size == 0:
        return [int(v) for v in rng.permutation([0, int(rng.integers(1, 4))])]
    fs, n, p = [], size, 2
    while n > 1:
        while n % p == 0:
            fs.append(p)
            n //= p
        p += 1
    k = int(rng.integers(1, 4))
    parts = [1] * k
    for f in fs:
        parts[int(rng.integers(k))] *= f
    return parts


def ops_for(rng, x, d, fmt):
    """yield (name, impl thunk, numpy thunk) for one array"""
    import sparse

    nd = d.ndim
    is_coo = fmt == "coo"
    perm = [int(a) for a in rng.permutation(nd)]
    rawperm = tuple(a - nd if rng.random() < 0.3 else a for a in perm)
    if nd:
        yield f"transpose{rawperm}", lambda: x.transpose(rawperm), lambda: d.transpose(rawperm)
        yield f"permute_dims{rawperm}", lambda: sparse.permute_dims(x, rawperm), lambda: d.transpose(rawperm)
    yield "T", lambda: x.T, lambda: d.T
    if nd >= 2:
        yield "mT", lambda: x.mT, lambda: np.swapaxes(d, -1, -2)
        yield "matrix_transpose", lambda: sparse.matrix_transpose(x), lambda: np.swapaxes(d, -1, -2)
    if nd:
        a, b = (int(v) for v in rng.integers(-nd, nd, size=2))
        if is_coo:
            yield f"swapaxes({a},{b})", lambda: x.swapaxes(a, b), lambda: np.swapaxes(d, a, b)
        yield f"moveaxis({a},{b})", lambda: sparse.moveaxis(x, a, b), lambda: np.moveaxis(d, a, b)
    size = d.size
    tgt = rand_factorisation(rng, size)
    if tgt and rng.random() < 0.5 and size > 0:
        j = int(rng.integers(len(tgt)))
        tgt[j] = -1
    tgt = tuple(tgt)
    yield f"reshape{tgt}", lambda: x.reshape(tgt), lambda: d.reshape(tgt)
    yield f"sparse.reshape{tgt}", lambda: sparse.reshape(x, tgt), lambda: d.reshape(tgt)
    yield "flatten", lambda: x.flatten(), lambda: d.flatten()
    ones = [i for i, e in enumerate(d.shape) if e == 1]
    if is_coo:  # GCXS offers no squeeze
        yield "squeeze()", lambda: x.squeeze(), lambda: np.squeeze(d)
        yield "sparse.squeeze()", lambda: sparse.squeeze(x), lambda: np.squeeze(d)
    if ones and is_coo:
        ax = int(rng.choice(ones))
        axn = ax - nd if rng.random() < 0.5 else ax
        yield f"squeeze({axn})", lambda: sparse.squeeze(x, axis=axn), lambda: np.squeeze(d, axis=axn)
    pos = int(rng.integers(-nd - 1, nd + 1))
    yield f"expand_dims({pos})", lambda: sparse.expand_dims(x, axis=pos), lambda: np.expand_dims(d, pos)
    if is_coo:
        lead = tuple(int(v) for v in rng.integers(1, 3, size=int(rng.integers(0, 3))))
        tshape = lead + tuple(int(rng.integers(2, 4)) if (e == 1 and rng.random() < 0.6) else e for e in d.shape)
        yield f"broadcast_to{tshape}", lambda: sparse.broadcast_to(x, tshape), lambda: np.broadcast_to(d, tshape)
    if nd:
        k = int(rng.integers(1, nd + 1))
        axes = tuple(int(v) for v in rng.choice(np.arange(-nd, nd), size=k, replace=False))
        axes = tuple(dict.fromkeys(a for a in axes if (a % nd) not in [b % nd for b in axes if b != a] or True))
        axes_u = tuple({a % nd: a for a in axes}.values())
        yield f"flip{axes_u}", lambda: sparse.flip(x, axis=axes_u), lambda: np.flip(d, axis=axes_u)
        yield "flip()", lambda: sparse.flip(x), lambda: np.flip(d)
        sh = int(rng.integers(-2 * max(d.shape) - 1, 2 * max(d.shape) + 2))
        ax = int(rng.integers(-nd, nd))
        yield f"roll({sh},{ax})", lambda: sparse.roll(x, sh, axis=ax), lambda: np.roll(d, sh, axis=ax)
        yield f"roll({sh})", lambda: sparse.roll(x, sh), lambda: np.roll(d, sh)
        shs = tuple(int(v) for v in rng.integers(-5, 6, size=len(axes_u)))
        yield f"roll({shs},{axes_u})", lambda: sparse.roll(x, shs, axis=axes_u), lambda: np.roll(d, shs, axis=axes_u)
        rep = tuple(int(v) for v in rng.integers(-nd, nd, size=int(rng.integers(2, 4))))  # repeated axes accumulate in NumPy
        shr = tuple(int(v) for v in rng.integers(-4, 5, size=len(rep)))
        yield f"roll({shr},{rep})", lambda: sparse.roll(x, shr, axis=rep), lambda: np.roll(d, shr, axis=rep)
        if len(axes_u) > 1:
            yield f"roll({sh},{axes_u})", lambda: sparse.roll(x, sh, axis=axes_u), lambda: np.roll(d, sh, axis=axes_u)
    pw = [(int(a), int(b)) for a, b in rng.integers(0, 3, size=(nd, 2))]
    fv = x.fill_value
    if nd:
        yield f"pad{pw}", lambda: sparse.pad(x, pw, constant_values=fv), lambda: np.pad(d, pw, constant_values=fv)
        p1 = int(rng.integers(0, 3))
        yield f"pad({p1})", lambda: sparse.pad(x, p1, constant_values=fv), lambda: np.pad(d, p1, constant_values=fv)


def leg_c(ctx, rng, n):
    for k in range(n):
        shp = gen.shape(rng, 0, 4)
        fill = int(rng.choice([0, 0, 3, -2]))
        d = gen.dense(rng, shp, fill)
        if rng.random() < 0.15:
            d = d.astype(np.float64) / 2
        x, fmt = gen.to_format(rng, d, str(rng.choice(["coo", "coo", "gcxs"])), fill)
        for name, it, rt in ops_for(rng, x, d, "coo" if fmt == "coo" else "gcxs"):
            case = {"op": name, "format": fmt, "shape": list(shp), "fill": fill, "dense": d.tolist()}
            ctx.case(f"C:{name.split('(')[0].split('[')[0]}:{fmt[:4]}", case, nontrivial=bool(d.size))
            msg = oracle.compare(it, rt, fill=np.asarray(fill, dtype=d.dtype))
            if msg:
                ctx.fail("C", name, case, msg, finding=findings.classify(PID, name, case, msg))
        if k % 50 == 0:
            core.log(f"C08 leg C {k}/{n}")


def _split(rng, n, k):
    """a random ordered factorisation of n into k parts (parts may be 1)"""
    fs, p, m = [], 2, n
    while m > 1:
        while m % p == 0:
            fs.append(p)
            m //= p
        p += 1
    parts = [1] * k
    for f in fs:
        parts[int(rng.integers(k))] *= f
    return tuple(int(v) for v in parts)


def leg_c_reshape(ctx, rng, n):
    """reshape between EVERY pair of ranks (1-d -> 4-d, 4-d -> 1-d, ...): sizes with several prime factors, every format,
    every compressed-axes choice of a GCXS source and an explicit compressed_axes= for the target"""
    import sparse

    for k in range(n):
        size = int(rng.choice([12, 24, 24, 30, 36, 48, 60, 0]))
        if size == 0:
            src = tuple(int(v) for v in rng.permutation([0, int(rng.integers(1, 4)), int(rng.integers(1, 4))])[: int(rng.integers(1, 4))])
            if 0 not in src:
                src = src + (0,)
            tgt = tuple(int(v) for v in rng.permutation([0, int(rng.integers(1, 5)), int(rng.integers(1, 3))]))
        else:
            src = _split(rng, size, int(rng.integers(1, 5)))
            tgt = _split(rng, size, int(rng.integers(1, 5)))
        fill = int(rng.choice([0, 0, 3]))
        d = gen.dense(rng, src, fill)
        fmt0 = str(rng.choice(["coo", "gcxs", "gcxs", "dok"]))
        x, fmt = gen.to_format(rng, d, fmt0, fill)
        raw = list(tgt)
        if size and rng.random() < 0.3:
            raw[int(rng.integers(len(raw)))] = -1
        raw = tuple(raw)
        calls = [(f"reshape{raw}", lambda: x.reshape(raw)), (f"sparse.reshape{raw}", lambda: sparse.reshape(x, raw))]
        if fmt0 == "gcxs" and len(tgt) >= 2:
            ch = gen.compressed_axes_choices(len(tgt))
            for ca in [ch[int(i)] for i in rng.choice(len(ch), size=min(2, len(ch)), replace=False)]:
                calls.append((f"reshape{raw} compressed_axes={list(ca)}", lambda ca=ca: x.reshape(raw, compressed_axes=ca)))
        if len(src) > 1 and hasattr(x, "flatten"):  # DOK offers no flatten
            calls.append(("flatten", lambda: x.flatten()))
        for name, it in calls:
            case = {"op": name, "format": fmt, "shape": list(src), "target": list(tgt), "fill": fill, "dense": d.tolist()}
            ctx.case(f"C:reshape-ranks:{len(src)}->{len(tgt)}:{fmt[:4]}", case, nontrivial=bool(d.size))
            rt = (lambda: d.flatten()) if name == "flatten" else (lambda: d.reshape(tgt))
            msg = oracle.compare(it, rt, fill=np.asarray(fill, dtype=d.dtype))
            if msg:
                ctx.fail("C", name.split(" ")[0].split("(")[0], case, msg, finding=findings.classify(PID, name, case, msg))
            else:
                # back again: the round trip is the identity
                try:
                    y = it()
                    back = oracle.compare(lambda: y.reshape(src), lambda: d, fill=np.asarray(fill, dtype=d.dtype))
                except Exception as e:  # noqa: BLE001
                    back = f"round trip raised {type(e).__name__}: {e}"
                if back:
                    ctx.fail("C", "reshape-roundtrip", case, back, finding=findings.classify(PID, name, case, back))


def leg_c_broadcast_runs(ctx, rng, n):
    """broadcast_to / broadcast_arrays where the stretched axes form RUNS between kept axes ((3,1,1,4) -> (3,2,2,4)), lead the shape, end
    it, or alternate with kept axes: values and canonical form (the `sorted=` promise of broadcast_to depends on exactly this pattern)"""
    import sparse

    for k in range(n):
        nd = int(rng.integers(1, 6))
        kinds = [str(rng.choice(["keep", "one", "one"])) for _ in range(nd)]
        src = tuple(1 if kd == "one" else int(rng.integers(2, 4)) for kd in kinds)
        tgt = tuple(int(rng.integers(1, 4)) if kd == "one" else e for kd, e in zip(kinds, src))
        lead = tuple(int(v) for v in rng.integers(1, 3, size=int(rng.integers(0, 2))))
        tgt = lead + tgt
        fill = int(rng.choice([0, 0, 2]))
        d = gen.dense(rng, src, fill, density=float(rng.choice([0.4, 0.8, 1.0])))
        x = sparse.COO.from_numpy(d, fill_value=fill)
        case = {"op": "broadcast_to", "shape": list(src), "target": list(tgt), "fill": fill, "dense": d.tolist()}
        for name, it, rt in [("broadcast_to", lambda: sparse.broadcast_to(x, tgt), lambda: np.broadcast_to(d, tgt)),
                             ("x.broadcast_to", lambda: x.broadcast_to(tgt), lambda: np.broadcast_to(d, tgt)),
                             ("broadcast_arrays", lambda: sparse.broadcast_arrays(x, sparse.COO.from_numpy(np.zeros(tgt, dtype=d.dtype), fill_value=fill))[0],
                              lambda: np.broadcast_to(d, tgt))]:
            ctx.case(f"C:broadcast-runs:{name}", case, nontrivial=True)
            msg = oracle.compare(it, rt, fill=np.asarray(fill, dtype=d.dtype))
            if not msg:
                # a second operation on the result relies on its promised order
                try:
                    r = it()
                    if r.ndim:
                        msg = oracle.compare(lambda: r[..., -1], lambda: np.broadcast_to(d, tgt)[..., -1], fill=np.asarray(fill, dtype=d.dtype), scalar_rule=True)
                        msg = msg or oracle.compare(lambda: r.max(axis=-1), lambda: np.broadcast_to(d, tgt).max(axis=-1)) if tgt[-1] else msg
                except Exception as e:  # noqa: BLE001
                    msg = f"follow-up on the broadcast result raised {type(e).__name__}: {str(e)[:100]}"
            if msg:
                ctx.fail("C", name, case, msg, finding=findings.classify(PID, name, case, msg))


def run(ctx):
    ctx.trusted = TRUSTED
    ctx.assumptions = ["NumPy's functions are the specification", "element values are small integers (exact) or halves"]
    core.prove(ctx, PID, uses=["normalizeAxisInt"])
    rng = gen.rng_for(ctx.seed, PID)
    leg_a(ctx, rng, 300 if ctx.quick else 3000)
    leg_c(ctx, rng, 120 if ctx.quick else 1500)
    leg_c_reshape(ctx, rng, 250 if ctx.quick else 4000)
    leg_c_broadcast_runs(ctx, rng, 150 if ctx.quick else 3000)
    ctx.cov["rule"] = ("leg A: random COO arrays (rank 0-4, extents {0..7}, fills {0,2,-1}) x one shape operation, model vs implementation "
                       "on coords/data/shape/fill; leg C: every shape function on COO and GCXS(random compressed axes) vs NumPy; "
                       "leg C reshape-ranks: sizes 12..60 (and zero-size), source and target of every rank 1..4, COO / GCXS (every compressed-axes choice, "
                       "explicit compressed_axes= for the target) / DOK, reshape + flatten + round trip; "
                       "non-trivial = array has at least one element; distinct by content hash")
    import extra_ops  # operation tables closing the measured coverage gaps (tools/coverage_audit.py; coverage/API_COVERAGE.md)
    extra_ops.run(ctx, PID)

"""C18 — every call terminates, and invalid arguments are rejected cleanly.

Leg A   the implementation's validators (and the `get_slicing_selection` kernel) against the Lean model, on exhaustive
        small grids: error CLASS and accepted value.
Leg C   the error stream: valid and malformed argument tuples for every public operation (c18_gen.py), each call in
        a watchdog-supervised worker subprocess (c18_pool.py / c18_worker.py); the oracle is the class of the outcome
        (returned / ValueError|IndexError|TypeError / anything else / hang / crash) against NumPy's verdict.
Timing  log-log slope of time against size for a few operations: reported, never a failure.
"""
from __future__ import annotations

import itertools
import json
import os
import re
import time
import warnings
from collections import Counter

import numpy as np

import c18_gen as G
import c18_pool
import core
import findings
import gen
import impl
import loadtol

PID = "C18"
TRUSTED = [
    "Lean 4 kernel; axioms propext, Classical.choice, Quot.sound only (audited per theorem each run)",
    "tie T1: Gen.normalizeAxisInt / Gen.checkIndexInt / bcastOk / bcastDim regenerated from _utils.normalize_axis, _slicing.check_index and "
    "_umath._get_broadcast_shape each run",
    "tie T2: hand model SparseV.Model.Validate (reduction axis tuples, COO.transpose, COO.reshape, COO.__init__, GCXS.__init__ (triple form), check_compressed_axes, index arrays) and "
    "SparseV.Model.Loops (fuel model of get_slicing_selection) compared with the implementation by this run on exhaustive small grids",
    "NumPy's accept/reject verdict is the specification of leg C; where NumPy has no counterpart the documented contract written out in c18_worker.py",
    "the operating system's process control: a worker that misses its deadline is killed, exit statuses are read with waitpid",
    "interpreter crashes are observed through the exit status only; time is wall-clock (deadlines are generous and a timeout is confirmed by a retry)",
]
CLEAN = {"value", "index", "type"}
INTERNAL_TYPES = {"OverflowError", "AssertionError", "AttributeError", "KeyError", "ZeroDivisionError", "UnboundLocalError", "RecursionError",
                  "SystemError", "NameError", "MemoryError", "FloatingPointError", "StopIteration"}
# messages of ValueError/TypeError/IndexError that are not a statement about the caller's arguments
INTERNAL_MSG = re.compile(
    r"fingerprint of empty|'NoneType' object|NoneType|float NaN to integer|float infinity to integer|has no len\(\)|is not subscriptable|"
    r"object is not iterable|unsupported operand type|has no attribute|unhashable type|positional argument|unexpected keyword|"
    r"missing \d+ required|not enough values to unpack|too many values to unpack|tuple index out of range|list index out of range|"
    r"pop from empty|max\(\) (arg|iterable)|min\(\) (arg|iterable)|index -?\d+ is out of bounds for axis \d+ with size|"
    r"object of type|cannot unpack|invalid literal|Cannot cast array data|non-broadcastable output|inhomogeneous|"
    r"arrays used as indices must be|could not broadcast input array|shape mismatch: (value|indexing)|"
    r"setting an array element|Out of bounds nnz")


# ---------------------------------------------------------------------------------------------------------------------
# the oracle of leg C
# ---------------------------------------------------------------------------------------------------------------------

def is_numba_exc(res):
    return str(res.get("emod", "")).startswith("numba")


def judge(case, res):
    """-> None (agrees with the property) | description of the failure"""
    out = res.get("out")
    if out == "skipped":
        return None
    if out == "hang":
        return f"hang: no answer within {res.get('deadline')} s (worker killed{', confirmed by a retry with 3x the deadline' if res.get('confirmed_by_retry') else ''})"
    if out == "crash":
        return f"crash: worker process died with exit status {res.get('exit_status')}: {str(res.get('stderr', ''))[-160:]}"
    if out == "setup":
        return f"setup: the arrays of the case could not be built: {res.get('etype')}: {res.get('msg')}"
    npv = res.get("np", "none")
    if out == "ok":
        te = res.get("touch_err")
        if npv == "err" and case["kind"] in G.STRICT:
            who = "the documented contract rejects" if res.get("np_contract") else f"NumPy rejects ({res.get('np_etype')}: {str(res.get('np_msg'))[:80]})"
            return f"accepted: {who} this {case['kind']} argument but the call returned {res.get('result')}" + (
                f" (todense() of the result then raises {te['etype']}: {te['msg'][:60]})" if te else "")
        if te and npv != "err" and str(case["kind"]).startswith("valid"):
            return f"unusable: the call returned {res.get('result')} but todense() of the result raises {te['etype']}: {te['msg'][:100]}"
        return None
    et, cls = res.get("etype"), res.get("cls")
    numba_exc = is_numba_exc(res)
    if npv == "err":
        if cls in CLEAN and not numba_exc:
            return None
        if et == res.get("np_etype") and not res.get("np_contract"):
            return None            # the very class NumPy raises
        if cls == "notimpl" and case["kind"] not in G.STRICT and not numba_exc:
            return None            # "not supported" for an argument kind outside the property's list (wrong type, unknown format name, ...)
        return f"rejected with {et} ({'numba' if numba_exc else cls}): {str(res.get('msg'))[:140]}"
    # NumPy accepts (or there is no reference): no internal error may surface
    if numba_exc:
        return f"internal: numba {et}: {str(res.get('msg'))[:140]}"
    if et in INTERNAL_TYPES or any(m in INTERNAL_TYPES for m in res.get("mro", [])):
        return f"internal: {et}: {str(res.get('msg'))[:140]}"
    if cls == "notimpl" or cls == "runtime":
        return None
    if cls in CLEAN:
        # a deliberately malformed argument answered with ValueError/IndexError/TypeError is a clean rejection whatever NumPy thinks of it
        if str(case["kind"]).startswith("valid") and (res.get("numba") or INTERNAL_MSG.search(str(res.get("msg", "")))):
            return f"internal: {et} from {'numba' if res.get('numba') else res.get('origin')}: {str(res.get('msg'))[:140]}"
        return None
    return f"internal: {et}: {str(res.get('msg'))[:140]}"


def outcome_class(res):
    out = res.get("out")
    if out != "err":
        return out
    return "numba" if is_numba_exc(res) else (res.get("cls") if res.get("cls") in CLEAN | {"notimpl", "overflow", "runtime"} else res.get("etype"))


def nontrivial(case, res):
    return any((bool(a.get("data")) if "coords" in a else int(np.prod(a["shape"], dtype=np.int64)) > 0 and np.any(np.asarray(a["dense"])))
               for a in case.get("arrays", [])) or case["kind"] != "valid"


def slim(case):
    return {k: v for k, v in case.items() if k in ("op", "fam", "arrays", "args", "kwargs", "kind", "warm", "deadline", "value", "expect", "touch")}


# ---------------------------------------------------------------------------------------------------------------------
# leg A: validators and kernel against the model
# ---------------------------------------------------------------------------------------------------------------------

def impl_verdict(f):
    with warnings.catch_warnings():
        warnings.simplefilter("ignore")
        try:
            return {"ok": f()}
        except Exception as e:  # noqa: BLE001
            return {"err": impl.err_class(e)}


def np_ok(f):
    with warnings.catch_warnings():
        warnings.simplefilter("ignore")
        try:
            f()
            return True
        except Exception:  # noqa: BLE001
            return False


def leg_a(ctx, rng, pool):
    import sparse
    from sparse.numba_backend import _slicing as S
    from sparse.numba_backend import _umath as U
    from sparse.numba_backend import _utils as Ut

    full = not ctx.quick
    reqs, want, fam = [], [], []
    skipped = Counter()

    def add(family, req, w):
        reqs.append(req)
        want.append(w)
        fam.append(family)

    # normalize_axis: integers
    for ax, nd in itertools.product(range(-9, 10), range(0, 7)):
        add("normalize_axis:int", ["gen_normalize_axis", ax, nd], impl_verdict(lambda: int(Ut.normalize_axis(ax, nd))))
    # check_index + posify: integers
    for i, d in itertools.product(range(-12, 13), range(0, 9)):
        def f(i=i, d=d):
            S.check_index(i, d)
            return S.posify_index(d, i)
        add("check_index:int", ["normalize_int", i, d], impl_verdict(f))
    # check_index: integer arrays
    for d in range(0, 5):
        for k in range(0, 4 if full else 3):
            for xs in itertools.product(range(-d - 2, d + 2), repeat=k):
                add("check_index:array", ["v_index_arr", list(xs), d], impl_verdict(lambda xs=xs, d=d: S.check_index(np.array(xs, dtype=np.int64), d)))
    # _get_broadcast_shape
    ext = [0, 1, 2, 3]
    shapes = [s for r in range(0, 4 if full else 3) for s in itertools.product(ext, repeat=r)]
    for s1, s2 in itertools.product(shapes, shapes):
        add("broadcast_shape", ["bshape2", list(s1), list(s2), False], impl_verdict(lambda s1=s1, s2=s2: [int(v) for v in U._get_broadcast_shape(s1, s2)]))
    # reduction axis tuples (normalize_axis tuple branch + duplicate test), through x.sum on an all-ones-extent array
    for nd in range(0, 4):
        x = sparse.COO.from_numpy(np.ones((1,) * nd, dtype=np.int64))
        for k in range(0, 4 if full else 3):
            for axes in itertools.product(range(-nd - 1, nd + 1), repeat=k):
                def f(x=x, axes=axes, nd=nd):
                    r = x.sum(axis=axes, keepdims=True)
                    t = Ut.normalize_axis(axes, nd)
                    assert np.shape(r) == (1,) * nd
                    return [int(v) for v in t]
                add("reduce_axes", ["v_axes", list(axes), nd], impl_verdict(f))
                # the tuple branch of normalize_axis itself: first bad entry raises, no duplicate test
                def g(axes=axes, nd=nd):
                    return [int(v) for v in Ut.normalize_axis(axes, nd)]
                w = impl_verdict(g)
                m = None
                vals = []
                for a in axes:
                    if -nd <= a < nd:
                        vals.append(a % nd)
                    else:
                        m = {"err": "value"}
                        break
                if (m or {"ok": vals}) != w:
                    ctx.fail("A", "normalize_axis:tuple", {"axes": list(axes), "ndim": nd}, f"element-wise normalisation gives {m or vals}, implementation {w}")
    # COO.transpose
    for shp in [s for r in range(0, 4) for s in itertools.product([1, 2], repeat=r) if r < 3 or s in ((1, 2, 2), (2, 1, 2))] if not full else \
            [s for r in range(0, 4) for s in itertools.product([0, 1, 2], repeat=r)]:
        nd = len(shp)
        x = sparse.COO.from_numpy(np.arange(int(np.prod(shp))).reshape(shp))
        d = x.todense()
        cands = [None] + [t for k in range(0, nd + 2) for t in itertools.product(range(-nd - 1, nd + 1), repeat=k)]
        for ax in cands:
            def f(x=x, ax=ax):
                r = x.transpose(ax)
                return [int(v) for v in (tuple(range(x.ndim))[::-1] if ax is None else Ut.normalize_axis(ax, x.ndim))] if r is not None else None
            add("transpose", ["v_transpose", None if ax is None else list(ax), nd], impl_verdict(f))
            if ax is not None:
                add("transpose:numpy", ["np_transpose_ok", list(ax), nd], {"ok": np_ok(lambda d=d, ax=ax: d.transpose(ax))})
    # COO.reshape
    tvals = [-1, 0, 1, 2, 3, 4, 6] if full else [-1, 0, 1, 2, 4]
    targets = [list(t) for k in range(0, 4) for t in itertools.product(tvals if k < 3 else [-1, 0, 1, 2], repeat=k)] + [[-2, 2], [-2], [-2, -3], [-1, -2]]
    for shp in [(), (0,), (1,), (4,), (2, 2), (0, 3), (2, 0), (1, 1), (2, 3), (1, 2, 2), (6,)]:
        x = sparse.COO.from_numpy(np.ones(shp, dtype=np.int64))
        d = np.ones(shp, dtype=np.int64)
        for t in targets:
            add("reshape", ["v_reshape", list(shp), t], impl_verdict(lambda x=x, t=t: [int(v) for v in x.reshape(tuple(t)).shape]))
            add("reshape:numpy", ["np_reshape_ok", list(shp), t], {"ok": np_ok(lambda d=d, t=t: d.reshape(tuple(t)))})
    # ... and on logical sizes above 2**53 that are not float64 values (the model divides in unbounded integers: `self.size // known`, not
    # `int(self.size / known)`); empty arrays of astronomically large shapes, NumPy cannot be asked
    for shp in [(1000003, 999983, 1000033), (2000000011, 1999999973), (3, 1000003, 999983, 1000033), (10**6, 10**6, 10**6)]:
        x = sparse.COO(np.zeros((len(shp), 0), dtype=np.int64), np.zeros(0, dtype=np.int64), shape=shp)
        n_ = 1
        for d_ in shp:
            n_ *= d_
        big_targets = [[-1], [n_], [n_ + 1], [n_ - 1], [-1, shp[-1]], [shp[0], -1], [-1, 1], [1, -1, 1], [-1, -1], [-1, 0], [shp[-1], -1, shp[0]], [-1, 2], [-1, 7],
                       [n_ // shp[0] + 1, -1], list(shp[::-1]), [-1, shp[0] * shp[1]]]
        for t in big_targets:
            add("reshape:huge", ["v_reshape", list(shp), t], impl_verdict(lambda x=x, t=t: [int(v) for v in x.reshape(tuple(t)).shape]))
    # COO.__init__: lengths and ranks
    shp_opts = [None, [], [2], [2, 2], [0], [2, 0], [-1], [2, -1], [1, 1, 1]]
    for rows, cols, dn, n in itertools.product(range(0, 4), range(0, 4), [0, 1, 2], range(0, 4)):
        if dn == 0 and n:
            continue
        for sh in shp_opts:
            def f(rows=rows, cols=cols, dn=dn, n=n, sh=sh):
                coords = np.zeros((rows, cols), dtype=np.int64)
                data = np.int64(1) if dn == 0 else (np.ones(n, dtype=np.int64) if dn == 1 else np.ones((n, 2), dtype=np.int64))
                # sorted/has_duplicates switch off the passes after the validation, which is what the model covers
                return [int(v) for v in sparse.COO(coords, data, shape=None if sh is None else tuple(sh), sorted=True, has_duplicates=False).shape]
            add("COO.__init__", ["v_ctor", rows, cols, dn, n, sh], impl_verdict(f))
    # GCXS.__init__ (triple form): every small well-formed triple and its damaged variants (lengths, index pointer ends / order, indices outside the
    # uncompressed extent, repeated / descending indices within a row), for 0-d .. 3-d shapes and every compressed_axes candidate
    def gcxs_req(dn, n, ind, ptr, sh, ca):
        def f():
            data = np.int64(1) if dn == 0 else (np.arange(1, n + 1, dtype=np.int64) if dn == 1 else np.ones((n, 2), dtype=np.int64))
            kw = {} if sh is None else {"shape": tuple(sh)}
            sparse.GCXS((data, np.array(ind, dtype=np.int64), np.array(ptr, dtype=np.int64)), compressed_axes=None if ca is None else list(ca), **kw)
        add("GCXS.__init__", ["v_gcxs_ctor", dn, n, list(ind), list(ptr), sh, None if ca is None else list(ca)], impl_verdict(f))

    gshapes = [None, [], [0], [2], [3], [1, 1], [2, 2], [1, 2], [2, 1], [2, 0], [0, 2], [-1, 2], [2, 1, 2], [1, 2, 2]]
    for sh in gshapes:
        nd = 0 if sh is None else len(sh)
        cands = [None, [0]] if nd < 2 else [None] + [list(t) for k in (1, 2) for t in itertools.combinations(range(nd), k)] + [[1, 0], [nd], [-1], []]
        for ca in cands:
            ok_ca = sh is not None and all(s >= 0 for s in sh) and nd >= 2 and ca and len(ca) < nd and all(0 <= a < nd for a in ca) and list(ca) == sorted(set(ca))
            if ok_ca:
                nr = int(np.prod([sh[a] for a in ca]))
                nc = int(np.prod([s for i, s in enumerate(sh) if i not in ca]))
            else:
                nr, nc = (0, sh[0] if sh and nd == 1 and sh[0] >= 0 else 2)
            # a base triple: one element per row (column r mod nc) when there are columns
            base_ind = [r % nc for r in range(nr)] if nc else []
            base_ptr = list(range(nr + 1)) if nc else [0] * (nr + 1)
            if nd == 1:
                base_ind, base_ptr = ([0, nc - 1] if nc else []), []
            if nd == 0:
                base_ind, base_ptr = [], []
            variants = [(1, len(base_ind), base_ind, base_ptr)]
            L = len(base_ind)
            variants += [(1, L + 1, base_ind, base_ptr), (0, 0, base_ind, base_ptr), (2, L, base_ind, base_ptr), (1, L, base_ind, base_ptr[:-1]), (1, L, base_ind, base_ptr + [L])]
            if base_ptr:
                variants += [(1, L, base_ind, [1] + base_ptr[1:]), (1, L, base_ind, base_ptr[:-1] + [L + 1]), (1, L, base_ind, base_ptr[:-1] + [L - 1])]
            if len(base_ptr) >= 3:
                for k in range(1, len(base_ptr) - 1):
                    variants += [(1, L, base_ind, base_ptr[:k] + [L + 1] + base_ptr[k + 1:]), (1, L, base_ind, base_ptr[:k] + [base_ptr[k + 1] + 1] + base_ptr[k + 1:]),
                                 (1, L, base_ind, base_ptr[:k] + [base_ptr[k - 1]] + base_ptr[k + 1:]), (1, L, base_ind, base_ptr[:k] + [-1] + base_ptr[k + 1:])]
            for k in range(L):
                for v in (nc, nc + 2, -1, -nc - 1, 0, nc - 1):
                    variants.append((1, L, base_ind[:k] + [v] + base_ind[k + 1:], base_ptr))
            if nd == 0:
                variants += [(1, 1, [0], []), (1, 2, [0], []), (1, 1, [], []), (1, 1, [3], [0, 1])]
            if nd == 1:
                variants += [(1, 1, [0], [7, 7]), (1, 2, [1, 1], []), (1, 2, [1, 0], [])]
            if ok_ca and nr >= 1 and nc >= 1:     # one crowded row: repeated and descending indices within a row are accepted by design
                variants += [(1, 2, [nc - 1, nc - 1], [0] + [2] * nr), (1, 2, [nc - 1, 0], [0] + [2] * nr), (1, 3, [0, nc, 0], [0] + [3] * nr)]
            seen_v = set()
            for dn, n, ind, ptr in variants:
                key_ = (dn, n, tuple(ind), tuple(ptr))
                if key_ in seen_v:
                    continue
                seen_v.add(key_)
                gcxs_req(dn, n, ind, ptr, sh, ca)
    # exhaustive tiny boxes: all index pointers over {0,1,2} and all indices over {-1,..,2} for two 2-d shapes
    for sh, ca in (([2, 2], [0]), ([1, 2], [0]), ([2, 1], [1])):
        nr = sh[ca[0]]
        for ptr in itertools.product(range(0, 3), repeat=nr + 1):
            for k in range(0, 3 if full else 2):
                for ind in itertools.product(range(-1, 3), repeat=k):
                    gcxs_req(1, k, list(ind), list(ptr), sh, ca)
    # ... the same verdict for every integer dtype of indices and indptr (the model has no dtype: gcxs_ctor_dtype_independent)
    dts = G.INT_DTYPES
    dtriples = [([0, 1, 0], [0, 1, 3, 3], [3, 2]), ([0, 1, 0], [0, 3, 1, 3], [3, 2]), ([0, 1, 0], [0, 2, 1, 3], [3, 2]), ([0, 2, 0], [0, 1, 3, 3], [3, 2]),
                ([0, 1, 0], [0, 1, 3, 2], [3, 2]), ([0, 1, 0], [1, 1, 3, 3], [3, 2]), ([1, 1, 0], [0, 3, 3, 3], [3, 2]), ([0, 1], [0, 2, 1, 2, 2], [4, 3]),
                ([0, 1, 0], [0, 127, 1, 3], [3, 2]), ([-1, 1, 0], [0, 1, 3, 3], [3, 2])]
    pairs_ = [(a_, b_) for a_ in dts for b_ in dts] if full else [(a_, a_) for a_ in dts] + [("int64", b_) for b_ in dts] + [("uint8", "int32"), ("uint16", "uint8"), ("int8", "uint64")]
    for ind, ptr, sh in dtriples:
        for di, dp in pairs_:
            if (di.startswith("u") and min(ind) < 0) or (dp.startswith("u") and min(ptr) < 0):
                continue
            def f(ind=ind, ptr=ptr, sh=sh, di=di, dp=dp):
                sparse.GCXS((np.arange(1, len(ind) + 1), np.array(ind, dtype=di), np.array(ptr, dtype=dp)), shape=tuple(sh), compressed_axes=[0])
            add("GCXS.__init__:dtypes", ["v_gcxs_ctor", 1, len(ind), ind, ptr, sh, [0]], impl_verdict(f))
    # _compute_mask: iterations of the pair search and the axis at which the loop leaves for the filter, against Model.MaskCost over the heuristic
    # as READ from the source (Gen.maskHeuristicLhs/Rhs evaluated in IEEE double), on the pure-Python body with _get_mask_pairs instrumented
    leg_a_mask(ctx, rng, add, full)
    # check_compressed_axes
    for nd in range(0, 5):
        cands = [None] + [list(t) for k in range(0, 4) for t in itertools.product(range(-1, nd + 1), repeat=k)]
        for c in cands:
            add("check_compressed_axes", ["v_caxes", nd, c], impl_verdict(lambda nd=nd, c=c: Ut.check_compressed_axes(nd, c)))
    # the get_slicing_selection kernel (pure-Python body) against the fuel model; the body runs in a worker under the
    # watchdog, because a loop that stops advancing must be reported, not hang the check
    nk = 400 if ctx.quick else 6000
    kcases = []
    for _ in range(nk):
        ncols = int(rng.integers(0, 8))
        nrows = int(rng.integers(0, 5))
        indices, starts, ends = [], [], []
        for _r in range(nrows):
            row = sorted(rng.choice(ncols, size=int(rng.integers(0, ncols + 1)), replace=False).tolist()) if ncols else []
            starts.append(len(indices))
            indices += [int(v) for v in row]
            ends.append(len(indices))
        col = sorted(rng.choice(ncols + 2, size=int(rng.integers(0, ncols + 3)), replace=False).tolist())
        col = [int(v) for v in col]
        kcases.append({"op": "kernel.get_slicing_selection", "fam": "kernel", "arrays": [], "args": [{"l": indices}, {"l": starts}, {"l": ends}, {"l": col}],
                       "kwargs": {}, "kind": "valid", "value": True, "touch": False, "deadline": 6.0, "hang_cap": 2})
    for kc, r in zip(kcases, pool.run(kcases)):
        a = [x["l"] for x in kc["args"]]
        if r.get("out") == "ok":
            w = {"ok": r.get("value")}
        elif r.get("out") == "err":
            w = {"err": "oob" if r.get("cls") == "index" else r.get("cls")}
        elif r.get("out") == "skipped":
            continue
        else:   # hang / crash of the pure-Python loop: a failing input of the property itself
            ctx.fail("C", "kernel:get_slicing_selection", {"op": kc["op"], "args": kc["args"], "fam": "kernel", "kind": "valid", "arrays": [], "kwargs": {}},
                     judge(kc, r), finding=None)
            continue
        add("kernel:get_slicing_selection", ["slicing_selection", None, a[0], a[1], a[2], a[3]], w)
    outs = ctx.driver.run(reqs)
    bad = Counter()
    for r, w, o, fm in zip(reqs, want, outs, fam):
        if o.get("ok", "<none>") is None and w == {"ok": None}:
            o = {"ok": None}
        ctx.case(f"A:{fm}", r, nontrivial=("err" in w) or bool(w.get("ok")))
        if o != w:
            bad[fm] += 1
            if bad[fm] <= 3:
                ctx.fail("A", f"model:{fm}", r, f"model {o} implementation {w}")
    ctx.notes["correspondence"] = {"requests": len(reqs), "by_family": dict(Counter(fam)), "disagreements": dict(bad),
                                   "regions_not_compared": dict(skipped)}


def leg_a_mask(ctx, rng, add, full):
    import numba
    import sparse
    from sparse.numba_backend._coo import indexing as CI

    rec = []
    orig = CI._get_mask_pairs

    def spy(starts_old, stops_old, c, idx):
        L = len(range(int(idx[0]), int(idx[1]), int(idx[2])))
        M = sum(int(b) - int(a) for a, b in zip(starts_old, stops_old))
        out = orig(starts_old, stops_old, c, idx)
        rec.append({"L": L, "p": len(starts_old), "M": M, "p2": len(out[0]), "M2": int(out[2])})
        return out

    n_cases = 120 if not full else 1500
    sound_reqs = set()
    CI._get_mask_pairs = spy
    try:
        for _ in range(n_cases):
            nd = int(rng.integers(1, 4))
            shape = tuple(int(rng.choice([1, 2, 3, 6, 40, 5000])) for _ in range(nd))
            size = int(np.prod(shape))
            nnz = int(min(size, rng.choice([0, 1, 2, 5, 30])))
            lin = np.sort(rng.choice(size, size=nnz, replace=False)) if nnz else np.zeros(0, dtype=np.int64)
            coords = np.stack(np.unravel_index(lin, shape)).astype(np.intp) if nd else np.zeros((0, nnz), dtype=np.intp)
            idx = []
            for n_ in shape:
                q = rng.random()
                if q < 0.3:
                    v = int(rng.integers(0, n_))
                    idx.append((v, v + 1, 1))
                elif q < 0.5:
                    idx.append((0, n_, 1))
                else:
                    a_ = int(rng.integers(0, n_))
                    b_ = int(rng.integers(a_, n_ + 1))
                    idx.append((a_, b_, int(rng.choice([1, 1, 2, 3]))))
            k = int(rng.integers(1, nd + 1))
            indices = np.array(idx[:k], dtype=np.intp)
            rec.clear()
            CI._compute_mask.py_func(coords, indices)
            steps, taken = [], 0
            for j in range(k):
                if j < len(rec):
                    steps.append([rec[j]["L"], rec[j]["p2"], rec[j]["M2"]])
                    taken += rec[j]["L"] * rec[j]["p"]
                    sound_reqs.add((rec[j]["L"] * rec[j]["p"] + 2, rec[j]["p"], rec[j]["M"]))
                else:
                    steps.append([len(range(*idx[j])), 0, 0])
            adm = all(r_["p2"] <= r_["M2"] <= r_["M"] for r_ in rec)
            if not adm:
                ctx.fail("A", "model:compute_mask", {"shape": list(shape), "coords": coords.T.tolist(), "indices": indices.tolist()},
                         f"_get_mask_pairs left more pairs than entries or more entries than before: {rec}")
            add("compute_mask:iterations", ["mask_iterations", nnz, steps], {"ok": {"pair": taken, "axes": len(rec)}})
    finally:
        CI._get_mask_pairs = orig
    # the one assumed property of the floating-point guard (HeuristicSound), sampled: on the triples met above and on a grid up to 2**62
    grid = sorted(sound_reqs) + [(S, p_, M) for p_ in (0, 1, 2, 7, 1000, 10 ** 6) for M in (0, 1, 2, 5, p_, 3 * p_ + 1, 10 ** 6, 10 ** 12)
                                 for S in (2, 3, 3 * max(p_, 1), 3 * max(p_, 1) + 1, M + p_, M + p_ + 1, 2 * (M + p_) + 3, 2 ** 40, 2 ** 62, 2 ** 62 * max(p_, 1) + 2)]
    outs = ctx.driver.run([["heuristic_take", S, p_, M] for S, p_, M in grid])
    bad = 0
    for (S, p_, M), o in zip(grid, outs):
        ctx.case("A:compute_mask:heuristic", [S, p_, M], nontrivial=True)
        if "ok" not in o:
            bad += 1
            if bad <= 3:
                ctx.fail("A", "model:compute_mask:heuristic", [S, p_, M], f"driver rejected the request: {o}")
        elif o["ok"] and 3 * max(p_, 1) <= S and not S <= M + p_:
            bad += 1
            if bad <= 3:
                ctx.fail("A", "model:compute_mask:heuristic", {"S": S, "pairs": p_, "matches": M},
                         "the heuristic as read from the source goes on with pairs although the slices outnumber matches + pairs: HeuristicSound (the hypothesis of "
                         "compute_mask_iterations_bound) does not hold of it")
    ctx.notes["heuristic_sound_samples"] = len(grid)


# ---------------------------------------------------------------------------------------------------------------------
# leg C: the error stream
# ---------------------------------------------------------------------------------------------------------------------

QUICK_N = {"g_reduce": 420, "g_unary": 120, "g_binary": 320, "g_ternary": 160, "g_reshape": 300, "g_transpose": 260, "g_shapefns": 520,
           "g_getitem": 520, "g_setitem": 120, "g_take_sort_search": 220, "g_dot": 260, "g_tensordot": 160, "g_einsum": 120, "g_kron_vecdot": 140,
           "g_join": 220, "g_create": 160, "g_random": 100, "g_ctor": 320, "g_caxes": 200, "g_convert": 160, "g_dtype": 90, "g_npz": 40}


def known_cases():
    """witnesses of the behaviours listed in the design (kept so that each stays observed whatever the seed)"""
    z = G.arr_variants
    g0 = next(z((), ("gcxs",)))
    c23 = next(z((2, 3), ("coo",)))
    g23 = next(z((2, 3), ("gcxs",)))
    d23 = next(z((2, 3), ("dok",)))
    g20 = next(z((2, 0), ("gcxs",)))
    X0 = G.X0
    yield G.case("x.reshape", "reshape", [g0], [X0, [1]], {}, "valid")
    yield G.case("x.flatten", "reshape", [g0], [X0], {}, "valid")
    yield G.case("sparse.expand_dims", "expand_dims", [g0], [X0], {"axis": 0}, "valid")
    yield G.case("x.sum", "reduce", [g0], [X0], {}, "valid")
    yield G.case("x[idx]", "getitem", [g0], [X0, []], {}, "valid", chunk="getitem-gcxs")
    yield G.case("sparse.stack", "join", [g0, g0], [{"l": [X0, G.X1]}], {"axis": 0}, "valid")
    yield G.case("x[idx]", "getitem", [g23], [X0, [None, 0]], {}, "valid-newaxis", chunk="getitem-gcxs")
    yield G.case("x.var", "reduce", [g20], [X0], {"axis": 0}, "valid")
    yield G.case("x[idx]", "getitem", [d23], [X0, [{"a": [0, 1], "dtype": "int64"}]], {}, "valid", chunk="getitem-dok")
    yield G.case("x[idx]", "getitem", [d23], [X0, [{"a": [0, 5], "dtype": "int64"}]], {}, "index-oob", chunk="getitem-dok")
    yield G.case("x.reshape", "reshape", [c23], [X0, [-1, 0]], {}, "reshape-bad")
    yield G.case("x.reshape", "reshape", [c23], [X0, [-1, -1, 6]], {}, "reshape-bad")
    yield G.case("x.reshape", "reshape", [next(z((1,), ("coo",)))], [X0, [-1, -1]], {}, "reshape-bad")
    yield G.case("COO(coords,data,shape)", "ctor", [], [{"a": [], "dtype": "int64", "shape": [0, 3]}, {"a": [1], "dtype": "int64"}], {"shape": []}, "ctor", chunk="ctor")
    yield G.case("COO(coords,data,shape)", "ctor", [], [{"a": [[5]], "dtype": "int64"}, {"a": [1], "dtype": "int64"}], {"shape": [3]}, "ctor", chunk="ctor")
    yield G.case("x.max", "reduce", [next(z((0, 2), ("coo",)))], [X0], {"axis": 0}, "valid")
    u8 = dict(next(z((3, 3), ("coo",))), idx_dtype="uint8")
    yield G.case("sparse.roll", "roll", [u8], [X0, 1], {"axis": 0}, "valid")
    yield G.case("sparse.pad", "pad", [u8], [X0, 1], {}, "valid")
    yield G.case("sparse.concatenate", "join", [u8, u8], [{"l": [X0, G.X1]}], {"axis": 0}, "valid")
    yield G.case("x[idx]", "getitem", [u8], [X0, [{"s": [1, None, None]}]], {}, "valid", chunk="getitem-coo")
    yield G.case("sparse.tril", "tri", [u8], [X0, -1], {}, "valid")
    yield from retired_witnesses()


def retired_witnesses():
    """the witness of every finding that was repaired in /repo (KNOWN_FINDINGS.txt `fixed:` lines): must-pass cases, whatever the seed"""
    z = G.arr_variants
    X0 = G.X0
    coo = lambda shp: next(z(tuple(shp), ("coo",)))      # noqa: E731
    gcxs = lambda shp: next(z(tuple(shp), ("gcxs",)))    # noqa: E731
    dok = lambda shp: next(z(tuple(shp), ("dok",)))      # noqa: E731
    A = lambda v, shape=None: dict({"a": v, "dtype": "int64"}, **({"shape": shape} if shape is not None else {}))   # noqa: E731
    # 999f0e4 reshape: several -1 / -1 next to a 0 extent (COO, GCXS, DOK)
    for x in (coo((3,)), gcxs((3,)), dok((3,))):
        yield G.case("x.reshape", "reshape", [x], [X0, [-1, -1, 3]], {}, "reshape-bad")
    for x in (coo((3,)), gcxs((3, 3)), coo((3, 3))):
        yield G.case("x.reshape", "reshape", [x], [X0, [-1, 0]], {}, "reshape-bad")
        yield G.case("sparse.reshape", "reshape", [x], [X0, [0, -1]], {}, "reshape-bad")
    # 22a856d COO(coords, data, shape=()): length / rank tests skipped; idx_dtype with shape=() raised from max(())
    yield G.case("COO(coords,data,shape)", "ctor", [], [A([], [0, 1]), A([3, 2])], {"shape": []}, "ctor", chunk="ctor")
    yield G.case("COO(coords,data,shape)", "ctor", [], [A([], [0, 1]), A([3])], {"shape": [], "idx_dtype": {"dt": "uint8"}}, "ctor", chunk="ctor")
    # 5753560 GCXS((data, indices, indptr), shape, compressed_axes): wrong lengths, index pointers not ending at len(indices)
    yield G.case("GCXS(triple,shape,ca)", "ctor", [], [[A([3]), A([0]), A([0, 1])]], {"shape": [2, 2], "compressed_axes": [0]}, "ctor", chunk="ctor")
    yield G.case("GCXS(triple,shape,ca)", "ctor", [], [[A([3, 1]), A([0]), A([0, 1, 1])]], {"shape": [2, 2], "compressed_axes": [0]}, "ctor", chunk="ctor")
    yield G.case("GCXS(triple,shape,ca)", "ctor", [], [[A([3]), A([0]), A([0, 2, 2])]], {"shape": [2, 2], "compressed_axes": [0]}, "ctor", chunk="ctor")
    yield G.case("GCXS(triple,shape,ca)", "ctor", [], [[A([3]), A([0]), A([1, 1, 1])]], {"shape": [2, 2], "compressed_axes": [0]}, "ctor", chunk="ctor")
    # 748e5d3 ... the contents: consistent lengths, column indices outside the shape (2-d, 3-d, 1-d), index pointers decreasing
    yield G.case("GCXS(triple,shape,ca)", "ctor", [], [[A([-2]), A([3]), A([0, 1])]], {"shape": [1, 1], "compressed_axes": [0]}, "ctor", chunk="ctor")
    yield G.case("GCXS(triple,shape,ca)", "ctor", [], [[A([-4, -3, 3]), A([4, 0, 0]), A([0, 1, 2, 3])]], {"shape": [3, 2], "compressed_axes": [0]}, "ctor", chunk="ctor")
    yield G.case("GCXS(triple,shape,ca)", "ctor", [], [[A([7]), A([-1]), A([0, 1, 1])]], {"shape": [2, 2], "compressed_axes": [0]}, "ctor", chunk="ctor")
    yield G.case("GCXS(triple,shape,ca)", "ctor", [], [[A([7]), A([6]), A([0, 1, 1])]], {"shape": [2, 2, 3], "compressed_axes": [0]}, "ctor", chunk="ctor")
    yield G.case("GCXS(triple,shape,ca)", "ctor", [], [[A([7]), A([-1]), A([])]], {"shape": [3]}, "ctor", chunk="ctor")
    yield G.case("GCXS(triple,shape,ca)", "ctor", [], [[A([7]), A([5]), A([])]], {"shape": [3]}, "ctor", chunk="ctor")
    yield G.case("GCXS(triple,shape,ca)", "ctor", [], [[A([7, 8]), A([0, 1]), A([0, 3, 2])]], {"shape": [2, 2], "compressed_axes": [0]}, "ctor", chunk="ctor")
    # ... well-formed triples stay accepted: a (2, 2, 3) array (index 5 of the 2 x 3 uncompressed extent), a 1-d array, unsorted / repeated
    # indices within a row (accepted by design), a 0-d array with COO-style coordinates
    yield G.case("GCXS(triple,shape,ca)", "ctor", [], [[A([7]), A([5]), A([0, 1, 1])]], {"shape": [2, 2, 3], "compressed_axes": [0]}, "ctor", chunk="ctor")
    yield G.case("GCXS(triple,shape,ca)", "ctor", [], [[A([7]), A([2]), A([])]], {"shape": [3]}, "ctor", chunk="ctor")
    yield G.case("GCXS(triple,shape,ca)", "ctor", [], [[A([1, 2]), A([1, 0]), A([0, 2])]], {"shape": [1, 2], "compressed_axes": [0]}, "ctor", chunk="ctor")
    yield G.case("GCXS(triple,shape,ca)", "ctor", [], [[A([1, 2]), A([1, 1]), A([0, 2])]], {"shape": [1, 2], "compressed_axes": [0]}, "ctor", chunk="ctor")
    yield G.case("GCXS(triple,shape,ca)", "ctor", [], [[A([5]), A([], [0, 1]), A([])]], {"shape": []}, "ctor", chunk="ctor")
    # ... every integer dtype of the index arrays gives the same verdict: a decreasing indptr stored unsigned (np.diff would wrap), mixed widths
    for dp in ("uint8", "uint16", "uint32", "uint64", "int8", "int32"):
        for di in ("int64", "uint8"):
            yield G.case("GCXS(triple,shape,ca)", "ctor", [], [[A([7, 8, 9]), dict(A([0, 1, 0]), dtype=di), dict(A([0, 3, 1, 3]), dtype=dp)]],
                         {"shape": [3, 2], "compressed_axes": [0]}, "ctor", chunk="ctor")
            yield G.case("GCXS(triple,shape,ca)", "ctor", [], [[A([7, 8, 9]), dict(A([0, 1, 0]), dtype=di), dict(A([0, 1, 3, 3]), dtype=dp)]],
                         {"shape": [3, 2], "compressed_axes": [0]}, "ctor", chunk="ctor")
    # ... index arrays that are not integers (open: F-c18-gcxs-ctor-index-dtype-unchecked)
    yield G.case("GCXS(triple,shape,ca)", "ctor", [], [[A([7, 8]), dict(A([1, 0]), dtype="float64"), A([0, 1, 2])]], {"shape": [2, 2], "compressed_axes": [0]}, "ctor", chunk="ctor")
    yield G.case("GCXS(triple,shape,ca)", "ctor", [], [[A([7, 8]), A([1, 0]), dict(A([0, 1, 2]), dtype="float64")]], {"shape": [2, 2], "compressed_axes": [0]}, "ctor", chunk="ctor")
    # ... the open 0-d residual (F-c18-gcxs-ctor-0d-unchecked)
    yield G.case("GCXS(triple,shape,ca)", "ctor", [], [[A([5]), A([0]), A([])]], {"shape": []}, "ctor", chunk="ctor")
    # f8a1188 nbytes of a 0-d / 1-d GCXS
    for shp in ((), (3,), (0,)):
        yield G.case("x.props", "convert", [gcxs(shp)], [X0], {}, "valid")
    # 9d10515 COO-only functions called with a GCXS array
    g22 = gcxs((2, 2))
    yield G.case("sparse.tril", "tri", [g22], [X0], {}, "valid")
    yield G.case("sparse.triu", "tri", [g22], [X0, 1], {}, "valid")
    yield G.case("sparse.diagonal", "diagonal", [g22], [X0], {"offset": 0, "axis1": 0, "axis2": 1}, "valid")
    yield G.case("sparse.nonzero", "search", [g22], [X0], {}, "valid")
    yield G.case("sparse.argwhere", "search", [g22], [X0], {}, "valid")
    yield G.case("sparse.broadcast_to", "broadcast_to", [g22], [X0, [2, 2, 2]], {}, "valid")
    # b6c8f54 diagonal(axis1 == axis2), e21e508 flip / eaaac81 squeeze / 55412b6 moveaxis with a repeated axis
    yield G.case("sparse.diagonal", "diagonal", [coo((2, 2))], [X0], {"offset": 0, "axis1": 1, "axis2": -1}, "axis-repeated")
    yield G.case("sparse.flip", "flip", [coo((3,))], [X0], {"axis": [-1, -1]}, "axis-repeated")
    yield G.case("x.squeeze", "squeeze", [coo((1,))], [X0], {"axis": [0, 0]}, "axis-repeated")
    yield G.case("sparse.squeeze", "squeeze", [coo((1,))], [X0], {"axis": [0, -1]}, "axis-repeated")
    yield G.case("sparse.moveaxis", "transpose", [coo((2, 1))], [X0, [0, -1], [0, 0]], {}, "axis-repeated")
    yield G.case("sparse.moveaxis", "transpose", [coo((2, 1))], [X0, [0, 0], [0, -1]], {}, "axis-repeated")
    # e2d0b75 sort of a 1-d array with an out-of-range axis
    yield G.case("sparse.sort", "sort", [coo((2,))], [X0], {"axis": -5}, "axis-oor")
    yield G.case("sparse.sort", "sort", [coo((2,))], [X0], {"axis": 1}, "axis-oor")
    # 5b38ef4 tensordot with repeated axes and an empty contraction
    yield G.case("sparse.tensordot", "tensordot", [coo((3, 0, 0)), gcxs((0, 3, 0))], [X0, G.X1], {"axes": [{"l": [0, 1, 2, 0]}, {"l": [1, 2, 0, 1]}]}, "shape-mismatch")
    # e1153be slice step 0 after another index entry (COO, DOK read, DOK assignment)
    yield G.case("x[idx]", "getitem", [coo((1, 2))], [X0, [{"s": [None, None, None]}, {"s": [None, None, 0]}]], {}, "index-step0", chunk="getitem-coo")
    yield G.case("x[idx]", "getitem", [dok((2, 3))], [X0, [1, {"s": [None, None, 0]}]], {}, "index-step0", chunk="getitem-dok")
    yield G.case("dok[idx]=v", "setitem", [dok((2, 3))], [X0, [1, {"s": [None, None, 0]}], 1], {}, "index-step0")


def build_cases(ctx, rng):
    cases = []
    scale = 1 if ctx.quick else 12
    for name, n in QUICK_N.items():
        cases += list(getattr(G, name)(rng, n * scale))
    cases += list(G.sweep_elementwise())
    cases += list(G.sweep_gcxs_slices())
    cases += list(known_cases())
    cases += list(G.dot_probes(full=not ctx.quick))
    cases += list(G.long_axis_probes(gen.rng_for(ctx.seed, PID + ":long"), full=not ctx.quick))
    cases += list(G.scaling_probes())
    if not ctx.quick:
        s2 = list(G.all_shapes(2))
        s3 = s2 + [s for s in itertools.product(G.EXT, repeat=3) if 0 in s or max(s) <= 2]
        r3 = [s for s in itertools.product([0, 2], repeat=3)] + [(1, 2, 3), (3, 1, 0)]
        cases += list(G.x_reduce(s2 + r3))
        cases += list(G.x_reshape(s3))
        cases += list(G.x_transpose(s2 + r3))
        cases += list(G.x_getitem(s2 + [s for s in itertools.product([0, 2], repeat=3)]))
        cases += list(G.x_binary([(a, b) for a in s2 for b in s2]))
    # the ctor kind is decided by the contract inside the worker: strict whenever the contract rejects
    return cases


def leg_c(ctx, rng, pool):
    cases = build_cases(ctx, rng)
    core.log(f"C18 leg C: {len(cases)} cases on {pool.n} workers")
    t0 = time.time()
    results = pool.run(cases, progress=lambda d, n: core.log(f"C18 leg C {d}/{n} ({time.time() - t0:.0f}s)"))
    stats = {"per_operation": Counter(), "per_kind": Counter(), "per_outcome": Counter(), "per_numpy_verdict": Counter(), "per_format": Counter(),
             "per_family": Counter(), "verdict_x_outcome": Counter()}
    hangs = crashes = 0
    scaling = {}
    rescued = []
    fails_by_id = Counter()
    elapsed_max = (0.0, None)
    for c, r in zip(cases, results):
        if c["kind"] == "ctor":   # constructor input: the contract's verdict names the kind
            c["kind"] = "ctor-bad" if r.get("np") == "err" else "valid"
        oc = outcome_class(r)
        stats["per_operation"][c["op"]] += 1
        stats["per_kind"][c["kind"]] += 1
        stats["per_outcome"][oc] += 1
        stats["per_numpy_verdict"][{"ok": "accepts", "err": "rejects", "none": "no-reference"}.get(r.get("np", "none"), "?")] += 1
        stats["per_family"][c["fam"]] += 1
        stats["verdict_x_outcome"][f"{r.get('np', 'none')}/{oc}"] += 1
        for a in c.get("arrays", []):
            stats["per_format"][a.get("format", "coo")] += 1
        if r.get("first_attempt") == "timeout":
            rescued.append({"op": c["op"], "formats": [G.fmt_tag(a) for a in c.get("arrays", [])], "elapsed_on_retry": r.get("elapsed")})
        hangs += oc == "hang"
        crashes += oc == "crash"
        if r.get("elapsed", 0) > elapsed_max[0]:
            elapsed_max = (r["elapsed"], c["op"])
        sc = slim(c)
        ctx.case(f"C:{c['fam']}:{c['kind']}", sc, nontrivial=nontrivial(c, r))
        msg = judge(c, r)
        if not msg and c.get("expect") is not None and r.get("out") == "ok":
            got = {k: v for k, v in (r.get("value") or {}).items() if k != "type"} if isinstance(r.get("value"), dict) else r.get("value")
            want = {k: v for k, v in c["expect"].items() if k != "type"}
            if got != want:
                msg = f"wrong: the call returned {str(got)[:160]} but the coordinate dictionary gives {str(want)[:160]}"
        if c.get("scaling") and r.get("out") == "ok":
            sp = c["scaling"]
            scaling.setdefault((sp["fmt"], sp["nnz"], json.dumps(sp["slice"])), {})[sp["extent"]] = (r.get("cpu") or 0.0, sc, c)
        if msg:
            info = dict(sc, formats=[G.fmt_tag(a) for a in c.get("arrays", [])], shapes=[a["shape"] for a in c.get("arrays", [])],
                        outcome=oc, etype=r.get("etype"), np=r.get("np"), np_msg=r.get("np_msg"), origin=r.get("origin"))
            fid = findings.classify(PID, c["op"], info, msg)
            fails_by_id[fid or "UNCLASSIFIED"] += 1
            ctx.fail("C", c["op"], info, msg, finding=fid)
    # scaling: same stored entries, same slice, extents 2**12 / 2**24 / 2**40 — the CPU time of the call (time.process_time in the worker) may not
    # follow the extent.  Generous: a call on the longer axis may take 200 x the CPU time on the 2**12 axis + 5 units of the reference computation of
    # this run (30 microseconds typically; 1.2 s at 2**24 when every position of the slice is searched).  A miss is re-measured alone before it counts.
    unit = (pool.ref or {}).get("cpu") or loadtol.NOMINAL_UNIT
    table, rescued_scaling = {}, []

    def alone(case_):
        c2 = {k: v for k, v in case_.items() if k != "id"}
        return pool.run([c2])[0]

    for key, by_ext in scaling.items():
        small = by_ext.get(2 ** 12)
        table["/".join(key)] = {str(e): round(t, 6) for e, (t, _, _) in sorted(by_ext.items())}
        if small is None:
            continue
        for ext, (t, sc_, c_) in by_ext.items():
            if ext > 2 ** 12 and t > 200 * small[0] + 5 * unit:
                rs, rb = alone(small[2]), alone(c_)
                ts, tb = rs.get("cpu") or 0.0, rb.get("cpu") if rb.get("out") == "ok" else None
                if tb is not None and tb <= 200 * ts + 5 * unit:
                    rescued_scaling.append({"key": "/".join(key), "extent": ext, "cpu_first": t, "cpu_alone": tb})
                    continue
                info = dict(sc_, formats=[G.fmt_tag(a) for a in sc_.get("arrays", [])], shapes=[a["shape"] for a in sc_.get("arrays", [])], outcome="slow", etype=None, np="none", origin=None)
                m_ = (f"scaling: {key[0]} x[{key[2]}] with {key[1]} stored entr(y/ies) took {t:.4f} s of CPU time on an axis of {ext} positions ({tb} s when re-run alone) and "
                      f"{small[0]:.6f} s on an axis of 4096 (reference computation of this run: {unit:.4f} s): the time follows the extent of the axis, not the stored entries")
                ctx.fail("C", "xlong[idx]:scaling", info, m_, finding=findings.classify(PID, "xlong[idx]:scaling", info, m_))
    ctx.notes["scaling_rescued_by_solitary_retry"] = rescued_scaling
    ctx.notes["scaling"] = table
    ctx.notes["error_stream"] = {k: dict(sorted(v.items())) for k, v in stats.items()}
    ctx.notes["error_stream"].update({"cases": len(cases), "hangs": hangs, "crashes": crashes, "failures_by_finding": dict(fails_by_id),
                                      "pool": dict(pool.stats), "timeouts_rescued_by_retry": rescued, "slowest_call_s": elapsed_max[0], "slowest_call_op": elapsed_max[1],
                                      "worker_sparse_file": pool.sparse_file, "wall_s": round(time.time() - t0, 1)})
    T = __import__("c18_worker").table()
    import sparse
    publics = {e["public"] for e in T.values() if e["public"]}
    consts = set(__import__("c18_worker").CONSTANTS)
    used = {T[c["op"]]["public"] for c in cases if c["op"] in T and T[c["op"]]["public"]}
    ctx.notes["public_api"] = {"names_in___all__": len(sparse.__all__), "operations_in_table": len(T), "public_callables_in_table": len(publics),
                               "exercised_this_run": len(used), "constants_and_dtypes_not_operations": sorted(consts & set(sparse.__all__)),
                               "not_in_table": sorted(set(sparse.__all__) - publics - consts), "table_not_exercised": sorted(publics - used)}


# ---------------------------------------------------------------------------------------------------------------------
# time against size (reported, never a failure)
# ---------------------------------------------------------------------------------------------------------------------

TIMED = ["add", "sum", "reshape", "transpose", "getitem", "concatenate", "matmul", "tensordot", "gcxs_from_coo", "gcxs_change_axes"]


def timing(ctx, pool):
    specs = []
    nnzs = [1000, 3000, 10000, 30000] if ctx.quick else [1000, 3000, 10000, 30000, 100000]
    for op in TIMED:
        for nnz in nnzs:   # fixed density 1%: n = sqrt(nnz / 0.01)
            specs.append({"op": "__timing__", "fam": "timing", "chunk": f"timing-{op}", "spec": {"op": op, "n": int((nnz / 0.01) ** 0.5), "nnz": nnz, "reps": 2, "series": "density"},
                          "deadline": 240.0, "noretry": True, "arrays": []})
        for n in ([300, 1000, 3000, 10000] if ctx.quick else [300, 1000, 3000, 10000, 30000]):   # fixed nnz, growing shape
            specs.append({"op": "__timing__", "fam": "timing", "chunk": f"timing-{op}", "spec": {"op": op, "n": n, "nnz": 3000, "reps": 2, "series": "shape"},
                          "deadline": 240.0, "noretry": True, "arrays": []})
    res = pool.run(specs)
    table = {}
    for s, r in zip(specs, res):
        sp = s["spec"]
        ent = table.setdefault(sp["op"], {"density": [], "shape": []})
        if r.get("out") == "ok":
            size = r["nnz_in"] + r["nnz_out"] + r["ext"]
            ent[sp["series"]].append({"n": sp["n"], "nnz": sp["nnz"], "size": size, "seconds": round(r["seconds"], 6)})
        else:
            ent[sp["series"]].append({"n": sp["n"], "nnz": sp["nnz"], "outcome": r.get("out"), "detail": str(r.get("msg", ""))[:80]})
    for op, ent in table.items():
        for series in ("density", "shape"):
            pts = [(p["size"], p["seconds"]) for p in ent[series] if "seconds" in p and p["seconds"] > 0]
            if len(pts) >= 3:
                xs, ys = np.log([p[0] for p in pts]), np.log([p[1] for p in pts])
                if np.ptp(xs) > 0:
                    slope = float(np.polyfit(xs, ys, 1)[0])
                    ent[f"{series}_slope_vs_in+out+extent"] = round(slope, 2)
                    if slope > 1.5:
                        ent[f"{series}_flag"] = "super-linear"
    ctx.notes["timing"] = {"what": "best-of-2 wall time in a worker, regressed (log-log least squares) against nnz_in + nnz_out + sum of extents; "
                                   "series 'density': 1% density with nnz growing, series 'shape': nnz 3000 with the square shape growing; "
                                   "reported only, never a failure (machine load makes single points noisy)", "operations": table}


# ---------------------------------------------------------------------------------------------------------------------

def run(ctx):
    ctx.trusted = TRUSTED
    ctx.assumptions = [
        "NumPy's accept/reject verdict on the same dense arguments is the specification; value agreement is the business of C01-C10",
        "a call is taken to hang when it has not answered within 25 s + 0.2 ms per element/extent unit (explicit probes: 10 s / 30 s after a warm-up call), "
        "stretched by the slowdown of the moment (contention seen by a reference computation, load average per CPU), AND has missed three times that limit again "
        "when retried alone in a fresh process after all other workers have finished; the scaling probe compares CPU time of the worker, re-measured alone on a miss",
        "termination of kernels outside the Lean loop models is observed on the enumerated small shapes, not proved",
    ]
    core.prove(ctx, PID, uses=["normalizeAxisInt", "checkIndexInt", "bcastOk", "bcastDim", "maskHeuristicLhs", "maskHeuristicRhs", "maskSlicesDef", "gcxsCtorChecks"])
    rng = gen.rng_for(ctx.seed, PID)
    pool = c18_pool.Pool(nworkers=int(os.environ.get("VERIF_C18_WORKERS", "8")), log=core.log)
    try:
        pool.calibrate()
        core.log(f"C18: reference computation {pool.ref}, slowdown {loadtol.slowdown(pool.ref):.2f}, load/cpu {loadtol.load_per_cpu():.2f}")
        leg_a(ctx, gen.rng_for(ctx.seed, PID + ":kernel"), pool)
        leg_c(ctx, rng, pool)
        timing(ctx, pool)
    finally:
        pool.close()
    ctx.cov["rule"] = (
        "leg A: exhaustive grids (axis in [-9,9] x ndim<=6; index in [-12,12] x dim<=8; index arrays of length<=3; all pairs of shapes of rank<=2(3) over "
        "extents {0,1,2,3}; all axis tuples of length<=3; all reshape targets of length<=3 over {-1,0,1,2,3,4,6} on 11 shapes, 16 targets on four empty arrays of logical size > 2**53; constructor "
        "(rows,cols,data rank,length,shape) box; GCXS triples (well-formed + every damage of lengths / index pointers / indices, 0-d..3-d, exhaustive tiny boxes); compressed_axes lists of length<=3) and seeded random sorted rows for the slicing kernel, model vs "
        "implementation on error class and accepted value.  Leg C: seeded malformed-argument stream over every operation of the table (rank 0-3, extents "
        "{0,1,2,3}, COO/GCXS(every compressed_axes)/DOK), thorough adds exhaustive small-shape enumerations for reductions, reshape, transpose, getitem and "
        "binary broadcasting and every length-0 placement of the products; each call in a watchdog-supervised subprocess.  A case is non-trivial when an "
        "operand stores at least one element or an argument is malformed; distinct by content hash")


def replay(ctx, path):
    """re-run the failing case recorded in a replay file (or a bare case JSON) under the watchdog"""
    obj = json.loads(open(path).read())
    f = obj.get("failure", obj)
    case = f.get("case", f)
    pool = c18_pool.Pool(nworkers=1, log=core.log)
    try:
        c = {k: case[k] for k in ("op", "arrays", "args", "kwargs", "warm", "deadline") if k in case}
        c.update(fam=case.get("fam", "replay"), kind=case.get("kind", "valid"))
        res = pool.run([c])[0]
    finally:
        pool.close()
    msg = judge(c, res)
    print(json.dumps({"case": slim(c), "outcome": {k: v for k, v in res.items() if k not in ("id", "phase")}, "verdict": msg or "agrees with the property"}, indent=1, default=str))
    return 1 if msg else 0

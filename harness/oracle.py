"""Leg C: implementation against NumPy, at the level the property states."""
from __future__ import annotations

import warnings

import numpy as np

import impl

ERR_FAMILY = {"value": "value", "index": "index", "type": "type"}


def densify(r):
    import scipy.sparse as sp
    import sparse

    if isinstance(r, sparse.SparseArray):
        return r.todense()
    if sp.issparse(r):
        return r.toarray()
    return np.asarray(r)


def same_values(a, b, signed_zero=False):
    a, b = np.asarray(a), np.asarray(b)
    if a.shape != b.shape:
        return False
    if a.dtype.kind in "fc" or b.dtype.kind in "fc":
        if not np.array_equal(a, b, equal_nan=True):
            return False
        if signed_zero and a.dtype.kind == b.dtype.kind:
            # -0.0 and +0.0 compare equal but are different elements (1/x, copysign, arctan2, signbit tell them apart)
            parts = [(a.real, b.real), (a.imag, b.imag)] if a.dtype.kind == "c" else [(a, b)]
            for u, v in parts:
                z = (u == 0) & (v == 0)
                if z.any() and not np.array_equal(np.signbit(u[z]), np.signbit(v[z])):
                    return False
        return True
    return bool(np.array_equal(a, b))


def compare(impl_thunk, ref_thunk, *, check_dtype=True, fill=None, must_be_sparse=True, check_canonical=True,
            scalar_rule=False, err_ok=("value", "index", "type")):
    """returns None when the implementation agrees with the reference, else a description.

    impl_thunk/ref_thunk: zero-argument callables.  If the reference raises, the implementation must
    raise an error of class ValueError/IndexError/TypeError (clean rejection); if the reference
    returns, the implementation must return an equal value.
    """
    import sparse

    with warnings.catch_warnings():
        warnings.simplefilter("ignore")
        try:
            ref = ref_thunk()
            ref_err = None
        except Exception as e:  # noqa: BLE001
            ref, ref_err = None, e
        try:
            got = impl_thunk()
            got_err = None
        except Exception as e:  # noqa: BLE001
            got, got_err = None, e
    if ref_err is not None:
        if got_err is None:
            return f"numpy raises {type(ref_err).__name__} but the call returned"
        c = impl.err_class(got_err)
        if c not in err_ok:
            return f"numpy raises {type(ref_err).__name__}; call raised {type(got_err).__name__}: {str(got_err)[:120]}"
        return None
    if got_err is not None:
        return f"raised {type(got_err).__name__}: {str(got_err)[:160]} (numpy returns shape {np.shape(ref)})"
    if isinstance(got, sparse.SparseArray):
        if check_canonical:
            p = impl.canonical_problem(got)
            if p:
                return f"result not canonical: {p}"
        d = got.todense()
        if fill is not None and not same_values(np.asarray(got.fill_value), np.asarray(fill)):
            return f"fill value {got.fill_value!r}, expected {fill!r}"
    else:
        if must_be_sparse and np.ndim(ref) > 0 and not scalar_rule:
            return f"result is {type(got).__name__}, not a sparse array"
        d = np.asarray(got)
    if scalar_rule:
        ref_scalar = not isinstance(ref, np.ndarray)
        got_scalar = not isinstance(got, sparse.SparseArray | np.ndarray)
        if ref_scalar != got_scalar:
            return f"numpy returns {'a scalar' if ref_scalar else 'an array'} but the call returned {type(got).__name__}"
    ref = np.asarray(ref)
    if d.shape != ref.shape:
        return f"shape {d.shape}, numpy {ref.shape}"
    if check_dtype and d.dtype != ref.dtype:
        return f"dtype {d.dtype}, numpy {ref.dtype}"
    if not same_values(d, ref):
        return f"values differ: got {d.tolist()!r:.200} numpy {ref.tolist()!r:.200}"
    return None


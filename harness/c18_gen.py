"""C18 case generators: valid AND malformed argument tuples for every public operation, fully JSON-describable.

Every generator yields dicts {"op", "fam", "arrays", "args", "kwargs", "kind"} (see c18_worker.py for the encoding).
`kind` names the argument kind that was varied; the kinds in STRICT are the ones the property statement names
("out-of-range or repeated axes, out-of-bounds indices, non-broadcastable or mismatched shapes, impossible reshapes,
malformed constructor input"): for those a call that RETURNS where NumPy rejects is a failing input.  For the other
kinds (wrong-typed arguments, value domains, documented extensions) only the class of a raised error is judged.
"""
from __future__ import annotations

import itertools

import numpy as np

import gen

EXT = [0, 1, 2, 3]
STRICT = {"axis-oor", "axis-repeated", "index-oob", "index-toomany", "index-masklen", "bcast-bad", "shape-mismatch", "rank-mismatch",
          "reshape-bad", "ctor-bad", "caxes-bad"}
FORMATS = ["coo", "gcxs", "dok"]
INT_DTYPES = ["int8", "int16", "int32", "int64", "uint8", "uint16", "uint32", "uint64"]


# -----------------------------------------------------------------------------------------------------------------
# arrays
# -----------------------------------------------------------------------------------------------------------------

def all_shapes(max_rank=3, ext=EXT):
    for r in range(max_rank + 1):
        yield from itertools.product(ext, repeat=r)


def rshape(rng, lo=0, hi=3):
    r = int(rng.integers(lo, hi + 1))
    return tuple(int(rng.choice(EXT)) for _ in range(r))


def arr(rng, shape=None, fmt=None, ca="rand", dtype="int64", fill=None, lo=0, hi=3, density=None):
    shape = rshape(rng, lo, hi) if shape is None else tuple(int(s) for s in shape)
    if fmt is None:
        fmt = str(rng.choice(["coo", "coo", "gcxs", "gcxs", "dok"]))
    if fill is None:
        fill = 0 if rng.random() < 0.9 else int(rng.choice([1, -1]))
    d = gen.dense(rng, shape, fill, density=density, lo=-3, hi=3)
    if dtype.startswith("float"):
        d = d.astype(np.float64) / 2
    elif dtype == "bool":
        d = d != 0
        fill = bool(fill)
    desc = {"dense": d.tolist(), "shape": list(shape), "dtype": dtype, "format": fmt, "fill": fill}
    if fmt == "gcxs":
        if ca == "rand":
            ch = gen.compressed_axes_choices(len(shape))
            c = ch[int(rng.integers(len(ch)))]
            desc["ca"] = None if c is None else list(c)
        else:
            desc["ca"] = ca
    return desc


def arr_variants(shape, fmts=("coo", "gcxs", "dok")):
    """every format (GCXS with every compressed_axes) for one shape, deterministic data"""
    size = int(np.prod(shape, dtype=np.int64)) if shape else 1
    d = ((np.arange(size) % 3) - 1).reshape(shape)
    for fmt in fmts:
        if fmt == "gcxs":
            for c in gen.compressed_axes_choices(len(shape)):
                yield {"dense": d.tolist(), "shape": list(shape), "dtype": "int64", "format": "gcxs", "fill": 0, "ca": None if c is None else list(c)}
        else:
            yield {"dense": d.tolist(), "shape": list(shape), "dtype": "int64", "format": fmt, "fill": 0}


def fmt_tag(a):
    f = a.get("format", "coo")
    return f + (str(a.get("ca")) if f == "gcxs" and a.get("ca") is not None else "")


def case(op, fam, arrays, args, kwargs=None, kind="valid", **extra):
    return {"op": op, "fam": fam, "arrays": arrays, "args": args, "kwargs": kwargs or {}, "kind": kind, **extra}


X0, X1, X2 = {"x": 0}, {"x": 1}, {"x": 2}


# -----------------------------------------------------------------------------------------------------------------
# axes
# -----------------------------------------------------------------------------------------------------------------

def gen_axis(rng, nd, tuples=True, allow_none=True):
    """-> (encoded axis, kind)"""
    r = rng.random()
    if allow_none and r < 0.12:
        return None, "valid"
    if r < 0.40 and nd:
        return int(rng.integers(-nd, nd)), "valid"
    if r < 0.55:
        return int(rng.choice([nd, -nd - 1, nd + 3, -nd - 4, 2 ** 31, -2 ** 31 - 1])), "axis-oor"
    if r < 0.62:
        return [rng.choice([1.0, 0.5]).item(), "0", {"l": [0]} if nd else {"l": []}, {"f": "nan"}][int(rng.integers(4))], "axis-type"
    if not tuples:
        return (int(rng.integers(-nd, nd)), "valid") if nd else (0, "axis-oor")
    k = int(rng.integers(0, nd + 1))
    axes = [int(a) for a in rng.permutation(nd)[:k]]
    axes = [a - nd if rng.random() < 0.3 else a for a in axes]
    r = rng.random()
    if r < 0.45:
        return axes, "valid"
    if r < 0.70 and axes:
        a = axes[int(rng.integers(len(axes)))]
        axes.insert(int(rng.integers(len(axes) + 1)), int(a % nd if (rng.random() < 0.5) else a % nd - nd))
        return axes, "axis-repeated"
    if r < 0.92:
        axes.insert(int(rng.integers(len(axes) + 1)), int(rng.choice([nd, -nd - 1, nd + 2])))
        return axes, "axis-oor"
    axes.append(1.5)
    return axes, "axis-type"


def all_axis_args(nd):
    """exhaustive small set: every int in [-nd-2, nd+1], every tuple of length <= 2 over [-nd-1, nd], None, ()"""
    yield None, "valid"
    for a in range(-nd - 2, nd + 2):
        yield a, ("valid" if -nd <= a < nd else "axis-oor")
    rng_ = range(-nd - 1, nd + 1)
    yield [], "valid"
    for k in (1, 2, 3):
        if k > max(nd, 1) + 1:
            break
        for t in itertools.product(rng_, repeat=k):
            if k == 3 and not all(-nd <= a < nd for a in t):
                continue
            if any(not -nd <= a < nd for a in t):
                kind = "axis-oor"
            elif len({a % nd for a in t}) != len(t):
                kind = "axis-repeated"
            else:
                kind = "valid"
            yield list(t), kind


# -----------------------------------------------------------------------------------------------------------------
# reductions
# -----------------------------------------------------------------------------------------------------------------

RED_FN = ["sum", "prod", "max", "min", "mean", "var", "std", "any", "all", "nansum", "nanprod", "nanmax", "nanmin", "nanmean"]
RED_METH = ["sum", "prod", "max", "min", "mean", "var", "std", "any", "all", "amax", "amin"]


def g_reduce(rng, n):
    for _ in range(n):
        a = arr(rng, dtype="float64" if rng.random() < 0.25 else "int64")
        nd = len(a["shape"])
        r = rng.random()
        if r < 0.40:
            op = "sparse." + str(rng.choice(RED_FN))
        elif r < 0.75:
            op = "x." + str(rng.choice(RED_METH))
        elif r < 0.85:
            op = "sparse." + str(rng.choice(["argmax", "argmin"]))
        elif r < 0.93:
            op = "x.reduce"
        elif r < 0.96:
            op = "sparse.nanreduce"
        else:
            op = str(rng.choice(["np.sum(x)", "np.max(x)"]))
        if op.startswith("sparse.nan") and a["format"] == "dok":
            a["format"] = "coo"
        arg = "arg" in op
        ax, kind = gen_axis(rng, nd, tuples=True)
        if arg and isinstance(ax, list):
            kind = "axis-type"   # NumPy's argmax takes one integer
        kw = {"axis": ax}
        if rng.random() < 0.4:
            kw["keepdims"] = bool(rng.random() < 0.5)
        args = [X0]
        if op in ("x.reduce", "sparse.nanreduce"):
            args.append({"ufunc": str(rng.choice(["add", "multiply", "maximum", "minimum"]))})
        yield case(op, "reduce", [a], args, kw, kind)


def x_reduce(shapes):
    for shp in shapes:
        nd = len(shp)
        for a in arr_variants(shp):
            for ax, kind in all_axis_args(nd):
                for op in ("x.sum", "x.max", "sparse.var", "sparse.argmax"):
                    if "arg" in op and isinstance(ax, list):
                        continue
                    args = [X0] + ([{"ufunc": "add"}] if op == "x.reduce" else [])
                    yield case(op, "reduce", [a], args, {"axis": ax}, kind)


# -----------------------------------------------------------------------------------------------------------------
# element-wise
# -----------------------------------------------------------------------------------------------------------------

UNARY = ["abs", "acos", "acosh", "asin", "asinh", "atan", "atanh", "bitwise_invert", "bitwise_not", "ceil", "conj", "cos", "cosh", "exp",
         "expm1", "floor", "imag", "isfinite", "isinf", "isnan", "isneginf", "isposinf", "log", "log10", "log1p", "log2", "logical_not",
         "negative", "positive", "real", "round", "sign", "sin", "sinh", "sqrt", "square", "tan", "tanh", "trunc"]
BINARY = ["add", "atan2", "bitwise_and", "bitwise_left_shift", "bitwise_or", "bitwise_right_shift", "bitwise_xor", "divide", "equal",
          "floor_divide", "greater", "greater_equal", "less", "less_equal", "logaddexp", "logical_and", "logical_or", "logical_xor",
          "multiply", "not_equal", "pow", "remainder", "subtract"]
OPERATORS = ["x+y", "x-y", "x*y", "x/y", "x//y", "x%y", "x**y", "x==y", "x!=y", "x<y", "x<=y", "x>y", "x>=y", "x&y", "x|y", "x^y", "x<<y", "x>>y"]


def g_unary(rng, n):
    extra = ["x.round", "x.conj", "x.real", "x.imag", "-x", "~x", "abs(x)"]
    for _ in range(n):
        a = arr(rng, dtype=str(rng.choice(["int64", "float64", "float64", "bool"])))
        op = ("sparse." + str(rng.choice(UNARY))) if rng.random() < 0.8 else str(rng.choice(extra))
        yield case(op, "unary", [a], [X0], {}, "valid")


def sweep_elementwise():
    """one valid call of every unary and binary function of the table on every format, so that each is exercised whatever the seed"""
    for shp in ((2, 2), (0, 2), ()):
        for a in arr_variants(shp):
            if a["format"] == "gcxs" and shp == ():
                continue
            fa = dict(a, dtype="float64")
            for n in UNARY:
                yield case("sparse." + n, "unary", [fa if n not in ("bitwise_invert", "bitwise_not") else a], [X0], {}, "valid")
            for n in BINARY:
                yield case("sparse." + n, "binary", [a, a], [X0, X1], {}, "valid")
            for n in OPERATORS:
                yield case(n, "binary", [a, a], [X0, X1], {}, "valid")


def bshapes(rng, k=2, bad=False):
    """k shapes that broadcast together (or, with bad, do not)"""
    res = rshape(rng, 0, 3)
    shapes = []
    for _ in range(k):
        drop = int(rng.integers(0, len(res) + 1)) if rng.random() < 0.4 else 0
        s = [1 if (rng.random() < 0.25) else e for e in res[drop:]]
        shapes.append(s)
    if bad:
        cands = [(i, j) for i, s in enumerate(shapes) for j in range(len(s))]
        if not cands:
            shapes[0] = [2]
            shapes[1 % k] = [3]
            return shapes, True
        i, j = cands[int(rng.integers(len(cands)))]
        o = (i + 1) % k
        jj = len(shapes[o]) - (len(shapes[i]) - j)
        if jj < 0:
            shapes[o] = [1] * (-jj) + shapes[o]
            jj = 0
        a, b = [(2, 3), (0, 2), (3, 0), (3, 2), (0, 3)][int(rng.integers(5))]
        shapes[i][j], shapes[o][jj] = a, b
    try:
        np.broadcast_shapes(*[tuple(s) for s in shapes])
        ok = True
    except ValueError:
        ok = False
    return shapes, not ok


def operand(rng, shape, fmt0=None, allow_dense=True):
    r = rng.random()
    if allow_dense and r < 0.15:
        return arr(rng, shape, fmt="dense")
    return arr(rng, shape, fmt=fmt0 if (fmt0 and rng.random() < 0.75) else None)


def g_binary(rng, n):
    for _ in range(n):
        bad = rng.random() < 0.35
        shapes, isbad = bshapes(rng, 2, bad)
        a = arr(rng, shapes[0])
        r = rng.random()
        if r < 0.12 and not isbad:
            b, arrays = int(rng.integers(-2, 3)), [a]
        else:
            b, arrays = X1, [a, operand(rng, shapes[1], a["format"])]
        r = rng.random()
        if r < 0.55:
            op, args = "sparse." + str(rng.choice(BINARY)), [X0, b]
        elif r < 0.88:
            op, args = str(rng.choice(OPERATORS)), [X0, b]
        elif r < 0.95:
            op, args = "sparse.elemwise", [{"ufunc": str(rng.choice(["add", "multiply", "maximum"]))}, X0, b]
        else:
            op, args = "np.add(x,y)", [X0, b]
        yield case(op, "binary", arrays, args, {}, "bcast-bad" if isbad else "valid")


def g_ternary(rng, n):
    for _ in range(n):
        bad = rng.random() < 0.35
        shapes, isbad = bshapes(rng, 3, bad)
        kind = "bcast-bad" if isbad else "valid"
        if rng.random() < 0.5:
            c = arr(rng, shapes[0], dtype="bool")
            x = operand(rng, shapes[1], c["format"])
            y = operand(rng, shapes[2], c["format"])
            yield case("sparse.where", "ternary", [c, x, y], [X0, X1, X2], {}, kind)
        else:
            x = arr(rng, shapes[0])
            lo = -1 if rng.random() < 0.4 else X1
            hi = 1 if rng.random() < 0.4 else X2
            arrays = [x, arr(rng, shapes[1], fmt=str(rng.choice(["dense", x["format"]]))), arr(rng, shapes[2], fmt=str(rng.choice(["dense", x["format"]])))]
            # the bounds of clip are documented as scalars: array bounds are outside the property's grammar (only the class of an error is judged)
            kind = "valid" if (lo == -1 and hi == 1) else "clip-array-bounds"
            yield case("sparse.clip" if rng.random() < 0.6 else "x.clip", "ternary", arrays, [X0, lo, hi], {}, kind)


def x_binary(shapes2):
    """every pair of small shapes x a few operations x format pairs"""
    for s1, s2 in shapes2:
        try:
            np.broadcast_shapes(s1, s2)
            kind = "valid"
        except ValueError:
            kind = "bcast-bad"
        for a in arr_variants(s1):
            for b in list(arr_variants(s2, fmts=(a["format"],)))[:1] + [dict(next(arr_variants(s2, fmts=("coo",))), format="dense")]:
                for op in ("x+y", "x*y", "sparse.greater"):
                    yield case(op, "binary", [a, b], [X0, X1], {}, kind)


# -----------------------------------------------------------------------------------------------------------------
# reshape / transpose / other shape functions
# -----------------------------------------------------------------------------------------------------------------

def np_reshape_ok(shape, tgt):
    try:
        np.empty(shape, dtype=np.int8).reshape(tgt)
        return True
    except (ValueError, TypeError):
        return False


def reshape_kind(shape, tgt):
    """NumPy treats every negative extent as "unknown"; the library documents -1 only: other negative extents are outside the
    property's grammar (kind reshape-negative: only the class of a raised error is judged)"""
    if any(isinstance(t, int) and t < -1 for t in tgt):
        return "reshape-negative"
    return "valid" if np_reshape_ok(tuple(shape), tuple(tgt)) else "reshape-bad"


def rand_target(rng, shape):
    size = int(np.prod(shape, dtype=np.int64)) if shape else 1
    r = rng.random()
    # factorisation of the size
    fs, m, p = [], size, 2
    while m > 1:
        while m % p == 0:
            fs.append(p)
            m //= p
        p += 1
    k = int(rng.integers(0, 4))
    parts = [1] * k
    for f in fs:
        if k:
            parts[int(rng.integers(k))] *= f
    if size == 0:
        parts = [int(v) for v in rng.permutation([0] + [int(rng.integers(0, 4)) for _ in range(int(rng.integers(0, 3)))])]
    elif not k and size != 1:
        parts = [size]
    if r < 0.35:
        return parts
    if r < 0.55 and parts:
        parts[int(rng.integers(len(parts)))] = -1
        return parts
    if r < 0.65:
        return parts + [-1]
    if r < 0.75:       # several -1
        return [-1] + parts + [-1] if rng.random() < 0.5 else [-1, -1] + parts[:1]
    if r < 0.83:       # -1 next to 0
        return [int(v) for v in rng.permutation([-1, 0] + parts[:1])]
    if r < 0.92:       # wrong size
        return [int(rng.integers(0, 5)) for _ in range(int(rng.integers(1, 4)))]
    return [int(v) for v in rng.permutation([-2] + parts)]  # negative extent


def g_reshape(rng, n):
    for _ in range(n):
        a = arr(rng)
        if a["format"] == "dok" and rng.random() < 0.7:
            a["format"] = "coo"
        tgt = rand_target(rng, a["shape"])
        kind = reshape_kind(a["shape"], tgt)
        r = rng.random()
        if r < 0.5:
            yield case("x.reshape", "reshape", [a], [X0, tgt], {}, kind)
        elif r < 0.85:
            yield case("sparse.reshape", "reshape", [a], [X0, tgt], {}, kind)
        elif r < 0.93 and a["format"] != "dok":
            yield case("x.flatten", "reshape", [a], [X0], {}, "valid")
        else:
            t2 = [tgt[0] if tgt else 1, 1.5]
            yield case("x.reshape", "reshape", [a], [X0, t2], {}, "reshape-type")


def small_targets(size_bound=9):
    vals = [-1, 0, 1, 2, 3, 4, 6]
    yield []
    for k in (1, 2, 3):
        for t in itertools.product(vals if k < 3 else [-1, 0, 1, 2, 3], repeat=k):
            yield list(t)
    yield [-2, 2]
    yield [-2]
    yield [-3, -2]


def x_reshape(shapes, fmts=("coo", "gcxs")):
    for shp in shapes:
        variants = list(arr_variants(shp, fmts))
        for tgt in small_targets():
            kind = reshape_kind(shp, tgt)
            for a in variants:
                yield case("x.reshape", "reshape", [a], [X0, tgt], {}, kind)


def perm_arg(rng, nd):
    r = rng.random()
    p = [int(a) for a in rng.permutation(nd)]
    p = [a - nd if rng.random() < 0.3 else a for a in p]
    if r < 0.12:
        return None, "valid"
    if r < 0.45:
        return p, "valid"
    if r < 0.62 and nd:
        p[int(rng.integers(nd))] = p[int(rng.integers(nd))] if nd > 1 else p[0]
        q = [a % nd for a in p]
        return p, ("axis-repeated" if len(set(q)) < nd else "valid")
    if r < 0.78:
        if nd:
            p[int(rng.integers(nd))] = int(rng.choice([nd, -nd - 1, nd + 2]))
        else:
            p = [0]
        return p, "axis-oor"
    if r < 0.90:
        if rng.random() < 0.5 and nd:
            return p[:-1], "axis-count"
        return p + [0], ("axis-count" if nd else "axis-oor")
    return (p[:-1] + [1.0]) if nd else [0.5], "axis-type"


def g_transpose(rng, n):
    for _ in range(n):
        a = arr(rng)
        nd = len(a["shape"])
        if a["format"] == "dok":
            a["format"] = "coo"
        coo = a["format"] == "coo"
        r = rng.random()
        if r < 0.40:
            ax, kind = perm_arg(rng, nd)
            if kind == "axis-count":
                kind = "axis-repeated" if False else "shape-mismatch"
            yield case("x.transpose", "transpose", [a], [X0] if ax is None and rng.random() < 0.5 else [X0, ax], {}, kind)
        elif r < 0.55:
            ax, kind = perm_arg(rng, nd)
            if kind == "axis-count":
                kind = "shape-mismatch"
            yield case("sparse.permute_dims", "transpose", [a], [X0, ax], {}, kind)
        elif r < 0.62:
            yield case(str(rng.choice(["x.T", "x.mT", "sparse.matrix_transpose"])), "transpose", [a], [X0], {}, "valid")
        elif r < 0.80:
            s, k1 = gen_axis(rng, nd, tuples=True, allow_none=False)
            d, k2 = gen_axis(rng, nd, tuples=True, allow_none=False)
            if isinstance(s, list) != isinstance(d, list) or (isinstance(s, list) and len(s) != len(d)):
                kind = "moveaxis-len" if "valid" == k1 == k2 else (k1 if k1 != "valid" else k2)
            else:
                kind = k1 if k1 != "valid" else k2
            yield case("sparse.moveaxis", "transpose", [a], [X0, s, d], {}, kind)
        elif coo:
            s, k1 = gen_axis(rng, nd, tuples=False, allow_none=False)
            d, k2 = gen_axis(rng, nd, tuples=False, allow_none=False)
            yield case("x.swapaxes", "transpose", [a], [X0, s, d], {}, k1 if k1 != "valid" else k2)


def x_transpose(shapes):
    for shp in shapes:
        nd = len(shp)
        cands = [None] + [list(t) for k in range(0, nd + 2) for t in itertools.product(range(-nd - 1, nd + 1), repeat=k) if k <= 3]
        for a in arr_variants(shp, ("coo", "gcxs")):
            for ax in cands:
                if ax is None:
                    kind = "valid"
                elif any(not -nd <= v < nd for v in ax):
                    kind = "axis-oor"
                elif len({v % nd for v in ax}) != len(ax):
                    kind = "axis-repeated"
                elif len(ax) != nd:
                    kind = "shape-mismatch"
                else:
                    kind = "valid"
                yield case("x.transpose", "transpose", [a], [X0, ax], {}, kind)


def g_shapefns(rng, n):
    """squeeze, expand_dims, flip, roll, pad, broadcast_to, broadcast_arrays, tril/triu, diagonal, diagonalize"""
    for _ in range(n):
        a = arr(rng)
        nd = len(a["shape"])
        shp = a["shape"]
        r = rng.random()
        if r < 0.12:
            if a["format"] != "coo":
                a["format"] = "coo"
            ax, kind = gen_axis(rng, nd)
            if kind == "valid" and ax is not None:
                axs = ax if isinstance(ax, list) else [ax]
                if any(shp[v % nd] != 1 for v in axs):
                    kind = "squeeze-non1"
            op = "sparse.squeeze" if rng.random() < 0.5 else "x.squeeze"
            yield case(op, "squeeze", [a], [X0], {"axis": ax}, kind)
        elif r < 0.22:
            q = rng.random()
            if q < 0.6:
                ax, kind = int(rng.integers(-nd - 1, nd + 1)), "valid"
            elif q < 0.85:
                ax, kind = int(rng.choice([nd + 1, -nd - 2, nd + 4])), "axis-oor"
            else:
                ax, kind = [1.5, "0", None][int(rng.integers(3))], "axis-type"
            yield case("sparse.expand_dims", "expand_dims", [a], [X0], {"axis": ax}, kind)
        elif r < 0.32:
            ax, kind = gen_axis(rng, nd)
            yield case("sparse.flip", "flip", [a], [X0], {"axis": ax}, kind)
        elif r < 0.45:
            ax, kind = gen_axis(rng, nd)
            q = rng.random()
            if isinstance(ax, list) and q < 0.5:
                sh = [int(rng.integers(-4, 5)) for _ in ax]
                if rng.random() < 0.2:
                    sh = sh + [1, 2]
                    kind = kind if kind != "valid" else "bcast-bad"
            elif q < 0.9:
                sh = int(rng.integers(-7, 8))
            else:
                sh, kind = [1.5, "1"][int(rng.integers(2))], (kind if kind != "valid" else "shift-type")
            if a["format"] == "dok":
                a["format"] = "coo"
            yield case("sparse.roll", "roll", [a], [X0, sh], {"axis": ax}, kind)
        elif r < 0.57:
            q = rng.random()
            if q < 0.25:
                pw, kind = int(rng.integers(0, 3)), "valid"
            elif q < 0.45:
                pw, kind = [int(rng.integers(0, 3)), int(rng.integers(0, 3))], "valid"
            elif q < 0.70:
                pw, kind = [[int(rng.integers(0, 3)), int(rng.integers(0, 3))] for _ in range(nd)], "valid"
                if nd == 0:
                    pw, kind = 1, "valid"
            elif q < 0.82:
                pw, kind = [[1, 1] for _ in range(nd + 1 + int(rng.integers(0, 2)))], "pad-len"
                if nd == 0:
                    pw, kind = [[1, 1], [1, 1]], "pad-len"
            elif q < 0.93:
                pw, kind = [-1, int(rng.choice([-1, 1])), [[-1, 0]] * max(nd, 1)][int(rng.integers(3))], "pad-negative"
                if pw == 1:
                    kind = "valid"
            else:
                pw, kind = [1.5, "a", None][int(rng.integers(3))], "pad-type"
            if a["format"] == "dok":
                a["format"] = "coo"
            yield case("sparse.pad", "pad", [a], [X0, pw], {}, kind)
        elif r < 0.70:
            a["format"] = "coo" if a["format"] == "dok" else a["format"]
            lead = [int(rng.integers(0, 3)) for _ in range(int(rng.integers(0, 2)))]
            tgt = lead + [int(rng.integers(0, 4)) if (e == 1 and rng.random() < 0.6) else e for e in shp]
            q = rng.random()
            if q < 0.3 and tgt:
                j = int(rng.integers(len(tgt)))
                tgt[j] = tgt[j] + 1 + int(rng.integers(0, 2))
            elif q < 0.4:
                tgt = tgt[1:] if tgt else [2]
            elif q < 0.47 and tgt:
                tgt[int(rng.integers(len(tgt)))] = -1
            try:
                np.broadcast_to(np.empty(shp, dtype=np.int8), tuple(tgt))
                kind = "valid"
            except ValueError:
                kind = "bcast-bad"
            yield case("sparse.broadcast_to" if (rng.random() < 0.6 or a["format"] != "coo") else "x.broadcast_to", "broadcast_to", [a], [X0, tgt], {}, kind)
        elif r < 0.76:
            shapes, isbad = bshapes(rng, 2, rng.random() < 0.4)
            x = arr(rng, shapes[0], fmt="coo")
            y = arr(rng, shapes[1], fmt="coo")
            yield case("sparse.broadcast_arrays", "broadcast_to", [x, y], [X0, X1], {}, "bcast-bad" if isbad else "valid")
        elif r < 0.84:
            a["format"] = "coo" if a["format"] == "dok" else a["format"]
            k = int(rng.integers(-4, 5))
            yield case(str(rng.choice(["sparse.tril", "sparse.triu"])), "tri", [a], [X0] if rng.random() < 0.3 else [X0, k], {}, "valid" if nd >= 2 else "rank-low")
        elif r < 0.94:
            a["format"] = "coo" if a["format"] == "dok" else a["format"]
            a1, k1 = gen_axis(rng, nd, tuples=False, allow_none=False)
            a2, k2 = gen_axis(rng, nd, tuples=False, allow_none=False)
            kind = k1 if k1 != "valid" else k2
            if kind == "valid" and nd and a1 % nd == a2 % nd:
                kind = "axis-repeated"
            if nd < 2 and kind == "valid":
                kind = "axis-oor"
            off = int(rng.integers(-4, 5))
            yield case("sparse.diagonal", "diagonal", [a], [X0], {"offset": off, "axis1": a1, "axis2": a2}, kind)
        else:
            a["format"] = "coo" if a["format"] == "dok" else a["format"]
            a["fill"] = 0
            a1, k1 = gen_axis(rng, nd, tuples=False, allow_none=False)
            yield case("sparse.diagonalize", "diagonal", [a], [X0], {"axis": a1}, k1)


# -----------------------------------------------------------------------------------------------------------------
# indexing
# -----------------------------------------------------------------------------------------------------------------

def enc_slice(sl):
    return {"s": [sl.start, sl.stop, sl.step]}


def rand_index(rng, shp):
    """-> (encoded index, kind).  Valid entries follow the grammar of C02 restricted to what all three formats document:
    ints, slices, one Ellipsis, None, one index array / mask; the malformed kinds are produced on purpose."""
    nd = len(shp)
    r = rng.random()
    n_ent = int(rng.integers(0, nd + 1))
    ents, kind = [], "valid"
    for p in range(n_ent):
        dim = shp[p]
        q = rng.random()
        if q < 0.45:
            ents.append(enc_slice(gen.rand_slice(rng, dim)))
        elif dim:
            ents.append(int(rng.integers(-dim, dim)))
        else:
            ents.append(enc_slice(slice(None)))
    bad = rng.random()
    if bad < 0.45:
        pass
    elif bad < 0.60:            # out-of-bounds integer
        p = int(rng.integers(0, nd)) if nd else 0
        while len(ents) <= p:
            ents.append(enc_slice(slice(None)))
        if nd:
            dim = shp[p]
            ents[p] = int(rng.choice([dim, -dim - 1, dim + 3, -dim - 5]))
            kind = "index-oob"
        else:
            ents, kind = [0], "index-toomany"
    elif bad < 0.68:            # too many indices
        ents = ents + [enc_slice(slice(None))] * (nd - len(ents)) + [0 if rng.random() < 0.5 else enc_slice(slice(None))]
        kind = "index-toomany"
    elif bad < 0.74:            # slice step 0
        p = int(rng.integers(0, nd)) if nd else 0
        while len(ents) <= p:
            ents.append(enc_slice(slice(None)))
        ents[p] = {"s": [None, None, 0]}
        kind = "index-step0" if nd else "index-toomany"
    elif bad < 0.90 and nd:     # one index array / mask at a random position (others slices)
        p = int(rng.integers(0, nd))
        ents = [enc_slice(gen.rand_slice(rng, shp[i])) if rng.random() < 0.5 else enc_slice(slice(None)) for i in range(p)]
        dim = shp[p]
        q = rng.random()
        L = int(rng.integers(0, 4))
        if q < 0.3:
            vals = [int(v) for v in rng.integers(-dim, dim, size=L)] if dim else []
            ents.append({"a": vals, "dtype": "int64"})
        elif q < 0.55:
            vals = [int(v) for v in rng.integers(-dim, dim, size=L)] if dim else []
            vals.insert(int(rng.integers(len(vals) + 1)), int(rng.choice([dim, -dim - 1, dim + 2])))
            ents.append({"a": vals, "dtype": "int64"})
            kind = "index-oob"
        elif q < 0.75:
            ents.append({"a": [bool(v) for v in rng.random(dim) < 0.5], "dtype": "bool"})
        else:
            m = dim + int(rng.choice([1, 2, -1])) if dim else 1
            ents.append({"a": [bool(v) for v in rng.random(max(m, 0)) < 0.5], "dtype": "bool"})
            kind = "index-masklen"
            if m == dim:
                kind = "valid"
    elif bad < 0.95:            # wrong-typed entries
        ents = ents[: max(nd - 1, 0)] + [[1.5, "a", {"f": "nan"}, {"l": [0.5]}][int(rng.integers(4))]]
        kind = "index-type"
    else:                        # two Ellipses
        ents = [{"e": 1}] + ents[:1] + [{"e": 1}]
        kind = "index-type"
    if kind == "valid" and rng.random() < 0.3:
        ents.insert(int(rng.integers(len(ents) + 1)), {"e": 1})
    if kind == "valid" and rng.random() < 0.15:
        ents.insert(int(rng.integers(len(ents) + 1)), None)
        kind = "valid-newaxis"
    return ents, kind


def g_getitem(rng, n):
    for _ in range(n):
        a = arr(rng)
        idx, kind = rand_index(rng, a["shape"])
        bare = len(idx) == 1 and rng.random() < 0.5 and not isinstance(idx[0], list)
        yield case("x[idx]", "getitem", [a], [X0, idx[0] if bare else idx], {}, kind, chunk=f"getitem-{a['format']}")


def x_getitem(shapes):
    """every small shape x every format x a per-axis menu of entries (ints in and out of bounds, slices, arrays, masks)"""
    for shp in shapes:
        nd = len(shp)
        menus = []
        for dim in shp:
            m = [({"s": [None, None, None]}, "valid"), ({"s": [1, None, 2]}, "valid"), ({"s": [None, None, -1]}, "valid"), ({"s": [None, None, 0]}, "index-step0")]
            m += [(i, "valid" if -dim <= i < dim else "index-oob") for i in (-dim - 1, -dim, -1, 0, dim - 1, dim, dim + 1)]
            m += [({"a": [0, dim], "dtype": "int64"}, "index-oob"), ({"a": [-dim - 1], "dtype": "int64"}, "index-oob")]
            m += [({"a": [True] * (dim + 1), "dtype": "bool"}, "index-masklen"), ({"a": [True] * dim, "dtype": "bool"}, "valid")]
            if dim:
                m += [({"a": [dim - 1, 0], "dtype": "int64"}, "valid")]
            # de-duplicate ints
            seen, mm = set(), []
            for e, k in m:
                key = repr(e)
                if key not in seen:
                    seen.add(key)
                    mm.append((e, k))
            menus.append(mm)
        variants = list(arr_variants(shp))
        for k in range(0, nd + 2):
            if k > nd:
                combos = [tuple([({"s": [None, None, None]}, "valid")] * nd + [(0, "index-toomany")])]
            else:
                combos = itertools.product(*menus[:k])
            for combo in combos:
                n_arr = sum(1 for e, _ in combo if isinstance(e, dict) and "a" in e)
                if n_arr > 1:
                    continue
                kinds = [kk for _, kk in combo if kk != "valid"]
                kind = kinds[0] if kinds else "valid"
                idx = [e for e, _ in combo]
                for a in variants:
                    yield case("x[idx]", "getitem", [a], [X0, idx], {}, kind, chunk=f"getitem-{a['format']}")


def sweep_gcxs_slices():
    """ascending slices / sorted index lists on full GCXS arrays with every compressed_axes: the inputs that drive both
    `while` loops of get_slicing_selection through all their branches, whatever the seed"""
    S = lambda a, b, c: {"s": [a, b, c]}   # noqa: E731
    keys = [[S(None, None, None), S(None, None, 2)], [S(None, None, 2), S(None, None, 2)], [S(None, None, None), S(1, None, None)],
            [S(None, None, None), {"a": [0, 2], "dtype": "int64"}], [S(1, None, None), S(None, None, 2)], [S(None, None, None), S(None, None, 3)],
            [{"e": 1}, S(None, None, 2)], [S(None, None, None), S(0, 2, None)], [S(None, None, 2)], [S(None, None, None), S(2, None, None)]]
    for shp in ((2, 3), (3, 3), (3, 4), (2, 3, 3)):
        size = int(np.prod(shp))
        for a in arr_variants(shp, ("gcxs",)):
            full = dict(a, dense=(np.arange(size) + 1).reshape(shp).tolist())
            half = dict(a, dense=((np.arange(size) % 2) * (np.arange(size) + 1)).reshape(shp).tolist())
            for x in (full, half):
                for k in keys:
                    yield case("x[idx]", "getitem", [x], [X0, k], {}, "valid", chunk="getitem-gcxs")


def g_setitem(rng, n):
    for _ in range(n):
        a = arr(rng, fmt="dok")
        idx, kind = rand_index(rng, a["shape"])
        if kind == "valid-newaxis":
            continue
        yield case("dok[idx]=v", "setitem", [a], [X0, idx, int(rng.integers(-2, 3))], {}, kind)


def g_take_sort_search(rng, n):
    for _ in range(n):
        a = arr(rng)
        if a["format"] == "dok":
            a["format"] = "coo"
        nd = len(a["shape"])
        r = rng.random()
        if r < 0.35:
            ax, kind = gen_axis(rng, nd, tuples=False)
            if ax is None and nd > 1 and kind == "valid":
                kind = "take-flat"
            dim = a["shape"][ax % nd] if (kind == "valid" and nd and ax is not None) else (int(np.prod(a["shape"])) if a["shape"] else 1)
            L = int(rng.integers(0, 4))
            vals = [int(v) for v in rng.integers(-dim, dim, size=L)] if dim else []
            if rng.random() < 0.3:
                vals.append(int(rng.choice([dim, dim + 2, -dim - 1])))
                kind = kind if kind not in ("valid", "take-flat") else "index-oob"
            yield case("sparse.take", "take", [a], [X0, {"a": vals, "dtype": "int64"}], {"axis": ax}, kind)
        elif r < 0.60:
            ax, kind = gen_axis(rng, nd, tuples=False, allow_none=False)
            kw = {"axis": ax}
            if rng.random() < 0.4:
                kw["descending"] = bool(rng.random() < 0.5)
            if rng.random() < 0.2:
                kw["stable"] = bool(rng.random() < 0.5)
            yield case("sparse.sort", "sort", [a], [X0], kw, kind)
        else:
            op = str(rng.choice(["sparse.nonzero", "x.nonzero", "sparse.argwhere", "sparse.unique_values", "sparse.unique_counts"]))
            if op == "x.nonzero" and a["format"] != "coo":
                a["format"] = "coo"
            yield case(op, "search", [a], [X0], {}, "valid")


# -----------------------------------------------------------------------------------------------------------------
# products
# -----------------------------------------------------------------------------------------------------------------

def np_accepts(f, *shapes, **kw):
    try:
        f(*[np.zeros(s, dtype=np.int8) for s in shapes], **kw)
        return True
    except Exception:  # noqa: BLE001
        return False


def is_hang_region(a, b):
    """COO · ndarray where the dense operand has no columns (the known non-advancing loop): kept out of the random
    stream because every such case costs a full deadline; the explicit probes cover it"""
    def empty_dense(x):
        return x["format"] == "dense" and 0 in x["shape"]
    return empty_dense(a) or empty_dense(b)


def dot_shapes(rng, bad):
    r = rng.random()
    k = int(rng.choice(EXT))
    if r < 0.2:
        s1, s2 = [k], [k]
    elif r < 0.6:
        s1, s2 = [int(rng.choice(EXT)), k], [k, int(rng.choice(EXT))]
    elif r < 0.75:
        s1, s2 = [int(rng.choice(EXT)), k], [k]
    elif r < 0.85:
        s1, s2 = [k], [k, int(rng.choice(EXT))]
    else:
        b = int(rng.choice([1, 2]))
        s1, s2 = [b, int(rng.choice(EXT)), k], [b, k, int(rng.choice(EXT))]
    if bad:
        q = rng.random()
        if q < 0.6:
            s1[-1] = k + 1 + int(rng.integers(0, 2))
        elif q < 0.8:
            s1 = []
        else:
            s2 = s2 + [2]
    return s1, s2


def g_dot(rng, n):
    for _ in range(n):
        s1, s2 = dot_shapes(rng, rng.random() < 0.35)
        f1 = str(rng.choice(["coo", "coo", "gcxs", "dense"]))
        f2 = str(rng.choice(["coo", "gcxs", "dense", "dense"]))
        if f1 == "dense" and f2 == "dense":
            f1 = "coo"
        a, b = arr(rng, s1, fmt=f1, fill=0), arr(rng, s2, fmt=f2, fill=0)
        if is_hang_region(a, b):
            continue
        op = str(rng.choice(["sparse.dot", "sparse.matmul", "x@y", "x.dot"]))
        if op == "x.dot" and f1 == "dense":
            op = "sparse.dot"
        npf = np.dot if op in ("sparse.dot", "x.dot") else np.matmul
        kind = "valid" if np_accepts(npf, s1, s2) else "shape-mismatch"
        yield case(op, "dot", [a, b], [X0, X1], {}, kind, chunk="dot-gcxs" if "gcxs" in (f1, f2) else "dot-coo")


def g_tensordot(rng, n):
    for _ in range(n):
        s1, s2 = list(rshape(rng, 0, 3)), list(rshape(rng, 0, 3))
        q = rng.random()
        if q < 0.3:
            axes = int(rng.integers(0, 4))
            if rng.random() < 0.7:     # make it match
                kk = min(axes, len(s1), len(s2))
                for j in range(kk):
                    s2[j] = s1[len(s1) - kk + j]
        else:
            k = int(rng.integers(0, min(len(s1), len(s2)) + 1))
            a1 = [int(v) for v in rng.permutation(len(s1))[:k]]
            a2 = [int(v) for v in rng.permutation(len(s2))[:k]]
            if rng.random() < 0.7:
                for i, j in zip(a1, a2):
                    s2[j] = s1[i]
            a1 = [v - len(s1) if rng.random() < 0.2 else v for v in a1]
            r = rng.random()
            if r < 0.12 and a1:
                a1[0] = len(s1) + 1
            elif r < 0.2 and len(a1) >= 1:
                a1, a2 = a1 + a1[:1], a2 + a2[:1]
            elif r < 0.26:
                a1 = a1 + [0]
            axes = [{"l": a1}, {"l": a2}]
        f1 = str(rng.choice(["coo", "gcxs", "coo"]))
        f2 = str(rng.choice(["coo", "gcxs", "dense"]))
        a, b = arr(rng, s1, fmt=f1, fill=0), arr(rng, s2, fmt=f2, fill=0)
        if is_hang_region(a, b):
            continue
        npaxes = axes if isinstance(axes, int) else (axes[0]["l"], axes[1]["l"])
        kind = "valid" if np_accepts(np.tensordot, s1, s2, axes=npaxes) else "shape-mismatch"
        kw = {"axes": axes}
        if rng.random() < 0.35:
            kw["return_type"] = {"cls": str(rng.choice(["COO", "GCXS", "ndarray"]))}
        yield case("sparse.tensordot", "tensordot", [a, b], [X0, X1], kw, kind)


EINSUM = ["ij,jk->ik", "ij,jk", "ii->i", "ii", "ij->ji", "ij->", "i,i->", "i,j->ij", "ijk,k->ij", "ij,ij->ij", "...j,j->...", "ij,kj->ik"]
EINSUM_BAD = ["i->ii", "ij,jk->il", "ij->ii", "ij,jk->", "i j", "ij,,jk", "ij->ij->", "iJ,Jk", "ij,jk,kl->il", "1j,j"]


def g_einsum(rng, n):
    for _ in range(n):
        bad_syntax = rng.random() < 0.2
        sub = str(rng.choice(EINSUM_BAD if bad_syntax else EINSUM))
        ins = sub.split("->")[0].split(",")
        dims = {c: int(rng.choice(EXT)) for c in "ijklJ"}
        arrays = []
        for t in ins[:3]:
            letters = [c for c in t if c.isalpha()]
            shp = [dims[c] for c in letters]
            if "..." in t:
                shp = [2] + shp
            if rng.random() < 0.15 and shp:
                shp[int(rng.integers(len(shp)))] += 1
            if rng.random() < 0.07:
                shp = shp + [2]
            arrays.append(arr(rng, shp, fmt=str(rng.choice(["coo", "coo", "gcxs"])), fill=0))
        try:
            np.einsum(sub, *[np.zeros(a["shape"], dtype=np.int8) for a in arrays])
            kind = "valid"
        except Exception:  # noqa: BLE001
            kind = "einsum-syntax" if bad_syntax else "shape-mismatch"
        yield case("sparse.einsum", "einsum", arrays, [sub] + [{"x": i} for i in range(len(arrays))], {}, kind)


def g_kron_vecdot(rng, n):
    for _ in range(n):
        r = rng.random()
        f1 = str(rng.choice(["coo", "gcxs"]))
        if r < 0.35:
            a, b = arr(rng, fmt=f1, fill=0), arr(rng, fmt=str(rng.choice(["coo", "gcxs", "dense"])), fill=0)
            yield case("sparse.kron", "kron", [a, b], [X0, X1], {}, "valid")
        elif r < 0.55:
            a, b = arr(rng, lo=0, hi=2, fmt=f1, fill=0), arr(rng, lo=0, hi=2, fmt=f1, fill=0)
            yield case("sparse.outer", "kron", [a, b], [X0, X1], {}, "valid")
        else:
            shapes, isbad = bshapes(rng, 2, rng.random() < 0.3)
            nd = min(len(shapes[0]), len(shapes[1]))
            ax, kind = gen_axis(rng, nd, tuples=False, allow_none=False)
            if rng.random() < 0.5:
                ax, kind = -1, ("valid" if nd else "axis-oor")
            a, b = arr(rng, shapes[0], fmt=f1, fill=0), arr(rng, shapes[1], fmt=f1, fill=0)
            if kind == "valid":
                kind = "valid" if np_accepts(np.vecdot, shapes[0], shapes[1], axis=ax) else "shape-mismatch"
            yield case("sparse.vecdot", "vecdot", [a, b], [X0, X1], {"axis": ax}, kind)


def g_join(rng, n):
    for _ in range(n):
        k = int(rng.choice([0, 1, 2, 2, 3]))
        base = list(rshape(rng, 0, 3))
        fmt = str(rng.choice(["coo", "gcxs", "coo"]))
        op = str(rng.choice(["sparse.concatenate", "sparse.concat", "sparse.stack"]))
        nd = len(base)
        ax, akind = gen_axis(rng, nd + (1 if op == "sparse.stack" else 0), tuples=False, allow_none=(op != "sparse.stack"))
        arrays = []
        for i in range(k):
            s = list(base)
            q = rng.random()
            if i and q < 0.25 and s:
                s[int(rng.integers(len(s)))] = int(rng.choice(EXT))
            elif i and q < 0.33:
                s = s + [2] if rng.random() < 0.5 else s[1:]
            arrays.append(arr(rng, s, fmt=fmt if rng.random() < 0.85 else "coo"))
        npf = np.stack if op == "sparse.stack" else np.concatenate
        kind = akind
        if akind == "valid":
            try:
                npf([np.zeros(a["shape"], dtype=np.int8) for a in arrays], axis=ax)
            except Exception:  # noqa: BLE001
                if k == 0:
                    kind = "join-empty"
                elif len({len(a["shape"]) for a in arrays}) > 1:
                    kind = "rank-mismatch"
                elif op != "sparse.stack" and nd == 0:
                    kind = "join-0d"
                else:
                    kind = "shape-mismatch"
        yield case(op, "join", arrays, [{"l": [{"x": i} for i in range(k)]}], {"axis": ax}, kind)


# -----------------------------------------------------------------------------------------------------------------
# creation, random, constructors, conversions, dtypes, persistence
# -----------------------------------------------------------------------------------------------------------------

def bad_shape(rng):
    q = rng.random()
    if q < 0.4:
        return [int(rng.choice([-1, -3]))] + [int(rng.choice(EXT)) for _ in range(int(rng.integers(0, 2)))], "shape-negative"
    if q < 0.55:
        return -1, "shape-negative"
    if q < 0.8:
        return [1.5, 2], "shape-type"
    return "ab", "shape-type"


def g_create(rng, n):
    for _ in range(n):
        r = rng.random()
        fmt = str(rng.choice(["coo", "gcxs", "dok"]))
        if r < 0.2:
            N = int(rng.choice([-2, -1, 0, 1, 2, 3]))
            M = [None, int(rng.choice([-1, 0, 2, 3]))][int(rng.integers(2))]
            k = int(rng.integers(-4, 5))
            kind = "valid" if N >= 0 and (M is None or M >= 0) else "shape-negative"
            kw = {"k": k, "format": fmt}
            if M is not None:
                kw["M"] = M
            yield case("sparse.eye", "create", [], [N], kw, kind)
        elif r < 0.6:
            op = str(rng.choice(["sparse.zeros", "sparse.ones", "sparse.empty", "sparse.full"]))
            if rng.random() < 0.6:
                shp = list(rshape(rng)) if rng.random() < 0.8 else int(rng.choice(EXT))
                kind = "valid"
            else:
                shp, kind = bad_shape(rng)
            args = [shp] + ([int(rng.integers(-2, 3))] if op == "sparse.full" else [])
            kw = {"format": fmt}
            if rng.random() < 0.2:
                kw["format"], kind = "nope", (kind if kind != "valid" else "format-bad")
            if rng.random() < 0.3:
                kw["dtype"] = str(rng.choice(["float32", "int8", "bool", "complex64"]))
            yield case(op, "create", [], args, kw, kind)
        else:
            op = str(rng.choice(["sparse.zeros_like", "sparse.ones_like", "sparse.empty_like", "sparse.full_like"]))
            a = arr(rng)
            args = [X0] + ([2] if op == "sparse.full_like" else [])
            kw, kind = {}, "valid"
            q = rng.random()
            if q < 0.3:
                kw["shape"] = list(rshape(rng))
            elif q < 0.45:
                kw["shape"], kind = bad_shape(rng)
            if rng.random() < 0.3:
                kw["format"] = fmt
            yield case(op, "create", [a], args, kw, kind)


def g_random(rng, n):
    for _ in range(n):
        shp = list(rshape(rng, 0, 3)) if rng.random() < 0.85 else bad_shape(rng)[0]
        kw = {"random_state": int(rng.integers(0, 100)), "format": str(rng.choice(["coo", "gcxs", "dok"]))}
        q = rng.random()
        if q < 0.35:
            kw["density"] = [0.0, 0.3, 0.5, 1.0, 0][int(rng.integers(5))]
        elif q < 0.55:
            kw["density"] = [-0.1, 1.5, {"f": "nan"}, 2, {"f": "inf"}, "0.5"][int(rng.integers(6))]
        elif q < 0.75:
            size = int(np.prod(shp)) if isinstance(shp, list) and all(isinstance(s, int) and s >= 0 for s in shp) else 1
            kw["nnz"] = int(rng.integers(0, size + 1))
        elif q < 0.9:
            size = int(np.prod(shp)) if isinstance(shp, list) and all(isinstance(s, int) and s >= 0 for s in shp) else 1
            kw["nnz"] = [-1, size + 1, size + 5, 1.5][int(rng.integers(4))]
        elif q < 0.95:
            kw["nnz"], kw["density"] = 1, 0.5
        yield case("sparse.random", "random", [], [shp], kw, "domain")


def g_ctor(rng, n):
    for _ in range(n):
        r = rng.random()
        if r < 0.62:
            shp = list(rshape(rng, 0, 3))
            nd = len(shp)
            rows = nd if rng.random() < 0.75 else int(rng.integers(0, 4))
            cols = int(rng.integers(0, 4))
            ndata = cols if rng.random() < 0.7 else int(rng.integers(0, 4))
            hi = [max(s, 1) for s in shp] + [2] * 4
            coords = [[int(rng.integers(0, hi[i])) for _ in range(cols)] for i in range(rows)]
            q = rng.random()
            cdtype = "int64"
            if q < 0.12 and cols and rows:
                coords[int(rng.integers(rows))][int(rng.integers(cols))] = int(rng.choice([3, 4, 7]))      # maybe outside
            elif q < 0.22 and cols and rows:
                coords[int(rng.integers(rows))][int(rng.integers(cols))] = int(rng.choice([-1, -2]))
            elif q < 0.28:
                cdtype = "float64"
            data = {"a": [int(v) for v in rng.integers(1, 4, size=ndata)], "dtype": "int64"}
            if rng.random() < 0.06:
                data = 5
            elif rng.random() < 0.05:
                data = {"a": [[1] * max(ndata, 1)] * 2, "dtype": "int64"}
            kw = {}
            q = rng.random()
            if q < 0.08:
                pass                                  # shape missing
            elif q < 0.16:
                kw["shape"] = [-1] + shp[1:] if shp else [-1]
            elif q < 0.20:
                kw["shape"] = [1.5] + shp[1:]
            elif q < 0.25 and nd == 1:
                kw["shape"] = shp[0]
            else:
                kw["shape"] = shp
            if rng.random() < 0.06:
                kw["idx_dtype"] = {"dt": "uint8"}
            carr = {"a": coords, "dtype": cdtype, "shape": [rows, cols]}
            yield case("COO(coords,data,shape)", "ctor", [], [carr, data], kw, "ctor", chunk="ctor")
        elif r < 0.74:
            shp = list(rshape(rng, 0, 3)) if rng.random() < 0.8 else bad_shape(rng)[0]
            kv = []
            if isinstance(shp, list) and all(isinstance(s, int) for s in shp):
                for _ in range(int(rng.integers(0, 3))):
                    key = [int(rng.integers(-1, max(abs(s), 1) + 1)) for s in shp]
                    if rng.random() < 0.1:
                        key = key + [0]
                    kv.append([key, int(rng.integers(1, 4))])
            yield case("DOK(shape,data)", "ctor", [], [shp] + ([{"kv": kv}] if kv or rng.random() < 0.5 else []), {}, "ctor", chunk="ctor")
        elif r < 0.765:
            # 1-d and 3-d GCXS triples: the uncompressed extent is shape[0] / the product of the uncompressed axes
            if rng.random() < 0.5:
                n = int(rng.choice(EXT))
                indices = sorted(int(v) for v in rng.choice(n, size=int(rng.integers(0, n + 1)), replace=False)) if n else []
                kw, indptr, cols = {"shape": [n]}, [], n
            else:
                shp3 = [int(rng.choice([1, 2])) for _ in range(3)]
                ca = [[0], [1], [2], [0, 1], [0, 2], [1, 2]][int(rng.integers(6))]
                rows = int(np.prod([shp3[a] for a in ca]))
                cols = int(np.prod([s_ for i_, s_ in enumerate(shp3) if i_ not in ca]))
                indices, indptr = [], [0]
                for _r in range(rows):
                    indices += sorted(int(v) for v in rng.choice(cols, size=int(rng.integers(0, cols + 1)), replace=False))
                    indptr.append(len(indices))
                kw = {"shape": shp3, "compressed_axes": ca}
            data = [int(v) for v in rng.integers(1, 4, size=len(indices))]
            q = rng.random()
            if q < 0.25 and indices:
                indices[int(rng.integers(len(indices)))] = int(rng.choice([cols, cols + 1, -1]))
            elif q < 0.35:
                data = data + [1]
            elif q < 0.45 and len(indptr) >= 3:
                indptr[int(rng.integers(1, len(indptr) - 1))] = len(indices) + 1
            trip = [{"a": data, "dtype": "int64"}, {"a": indices, "dtype": "int64"}, {"a": indptr, "dtype": "int64"}]
            yield case("GCXS(triple,shape,ca)", "ctor", [], [trip], kw, "ctor", chunk="ctor")
        elif r < 0.88:
            rows, cols = int(rng.choice(EXT)), int(rng.choice(EXT))
            d = gen.dense(rng, (rows, cols), 0)
            indptr = [0]
            indices, data = [], []
            for i in range(rows):
                nz = [j for j in range(cols) if d[i, j]]
                indices += nz
                data += [int(d[i, j]) for j in nz]
                indptr.append(len(indices))
            q = rng.random()
            shp, ca = [rows, cols], [0]
            if q < 0.12:
                indptr = indptr[:-1]
            elif q < 0.22:
                data = data + [1]
            elif q < 0.29 and indices:
                indices[int(rng.integers(len(indices)))] = int(rng.choice([cols, cols + 2, -1]))      # a column outside the shape
            elif q < 0.32 and rows >= 2:
                indptr[int(rng.integers(1, rows))] = len(indices) + 1                                 # index pointers decreasing
            elif q < 0.40:
                ca = [[0, 1], [2], [-1], [1, 0], []][int(rng.integers(5))]
            elif q < 0.46:
                shp = [-1, cols]
            elif q < 0.50:
                shp = None
            kw = {"compressed_axes": ca}
            if shp is not None:
                kw["shape"] = shp
            # the index arrays in every integer dtype that holds their values (signed / unsigned, any width, the two may differ); now and then
            # a float dtype, which the contract rejects
            def idt(vals):
                ok = [d for d in INT_DTYPES if (not d.startswith("u") or all(v >= 0 for v in vals)) and all(-128 <= v <= 127 for v in vals)]
                return str(rng.choice(ok)) if ok and rng.random() < 0.7 else "int64"
            di, dp = idt(indices), idt(indptr)
            if rng.random() < 0.06:
                di = str(rng.choice(["float64", "float32"]))
            elif rng.random() < 0.06:
                dp = "float64"
            trip = [{"a": data, "dtype": "int64"}, {"a": indices, "dtype": di}, {"a": indptr, "dtype": dp}]
            yield case("GCXS(triple,shape,ca)", "ctor", [], [trip], kw, "ctor", chunk="ctor")
        else:
            shp = list(rshape(rng, 0, 3))
            pts = []
            for _ in range(int(rng.integers(0, 3))):
                pts.append([[int(rng.integers(0, max(s, 1))) for s in shp], int(rng.integers(1, 4))])
            yield case("COO.from_iter", "ctor", [], [{"kv": pts}], {"shape": shp}, "valid", chunk="ctor")


# -----------------------------------------------------------------------------------------------------------------
# astronomically long single axes: indexing must cost the stored entries, not the axis
# -----------------------------------------------------------------------------------------------------------------

def long_ref(shape, entries, idx):
    """x[idx] from the coordinate dictionary `entries` ({coordinate tuple: value}) for integers and slices [a, b, k]: -> the worker's _long_json form"""
    sel = []
    for j, n in enumerate(shape):
        e = idx[j] if j < len(idx) else {"s": [None, None, None]}
        if isinstance(e, dict):
            sel.append(("s", range(*slice(*e["s"]).indices(n))))
        else:
            sel.append(("i", e + n if e < 0 else e))
    out = {}
    for c, v in entries.items():
        key = []
        for (kind, r), cj in zip(sel, c):
            if kind == "i":
                if cj != r:
                    break
            else:
                if cj not in r:
                    break
                key.append(r.index(cj))
        else:
            out[tuple(key)] = v
    rshape = [len(r) for kind, r in sel if kind == "s"]
    if not rshape:
        return {"type": "scalar", "data": out.get((), 0)}
    keys = sorted(out)
    return {"shape": rshape, "coords": [list(k) for k in keys], "data": [out[k] for k in keys], "fill": 0}


# seconds for one indexing call on an astronomically long axis (measured: 50 - 400 microseconds); the pool stretches it by the slowdown of the moment
# and confirms a miss by a retry that runs alone with three times the limit
LONG_DEADLINE = 10.0


def long_axis_probes(rng, full):
    """1-d and 2-d arrays with extents 2**40 .. 2**62 holding 0, 1 or a few stored entries, indexed with slices of every sign (and an integer
    on the short axis): every case has its own deadline (LONG_DEADLINE, confirmed by a retry with three times that) after a warm-up on a small array of the same rank and format"""
    exts = [2 ** 40, 2 ** 62] if not full else [2 ** 40, 2 ** 48, 2 ** 56, 2 ** 62, 2 ** 62 + 12345]
    fmts = ["coo", "dok"]
    for n in exts:
        for nnz in ((0, 1, 5) if full else (1, 5)):
            pos = sorted({int(v) for v in rng.integers(2, n - 2, size=nnz)} | ({n // 3} if nnz else set()))[:max(nnz, 0)] if nnz else []
            ent1 = {(q,): k + 1 for k, q in enumerate(pos)}
            a_, b_ = (pos[0] - 1, pos[-1] + 2) if pos else (5, n - 7)
            slices1 = [[1, None, None], [None, -1, None], [a_, b_, 3], [None, None, 2], [None, None, -1], [b_, a_, -2], [-5, None, None], [3, -3, None],
                       [None, None, 2 ** 20 + 1], [-1, None, -(2 ** 30)]]
            if not full:
                keep = {0, 1}
                keep |= {int(v) for v in rng.choice(range(2, len(slices1)), size=3, replace=False)}
                slices1 = [sl for k, sl in enumerate(slices1) if k in keep]
            for fmt in fmts:
                arr1 = {"shape": [n], "coords": [list(c) for c in sorted(ent1)], "data": [ent1[c] for c in sorted(ent1)], "format": fmt}
                warm = {"op": "xlong[idx]", "arrays": [{"shape": [64], "coords": [[3], [9]], "data": [1, 2], "format": fmt}], "args": [X0, [{"s": [1, None, 2]}]], "kwargs": {}}
                for sl in slices1:
                    idx = [{"s": sl}]
                    yield case("xlong[idx]", "getitem-long", [arr1], [X0, idx], {}, "valid", probe=True, warm=warm, deadline=LONG_DEADLINE, value=True,
                               expect=long_ref([n], ent1, idx), bucket=f"long:{fmt}", hang_cap=1, chunk=f"long-{fmt}-1d", touch=False)
                # 2-d: a short axis and the long one, an integer on the short axis and a slice on the long one (and the other way round)
                rows = 3
                ent2 = {(int(rng.integers(0, rows)), q): k + 1 for k, q in enumerate(pos)}
                if nnz:
                    ent2[(1, pos[0])] = 7            # a row holding exactly one stored entry among its candidates
                for shape2, order in (([rows, n], "short-long"), ([n, rows], "long-short")):
                    e2 = ent2 if order == "short-long" else {(q, r): v for (r, q), v in ent2.items()}
                    arr2 = {"shape": shape2, "coords": [list(c) for c in sorted(e2)], "data": [e2[c] for c in sorted(e2)], "format": fmt}
                    warm2 = {"op": "xlong[idx]", "arrays": [{"shape": [4, 64] if order == "short-long" else [64, 4], "coords": [[1, 3]], "data": [1], "format": fmt}],
                             "args": [X0, [1, {"s": [1, None, None]}] if order == "short-long" else [{"s": [1, None, None]}, 1]], "kwargs": {}}
                    long_sl = [[a_, None, None], [None, None, 2], [None, -1, None]] if full else [[a_, None, None], [None, None, 2]]
                    for sl in long_sl:
                        for short in (1, {"s": [None, None, None]}, {"s": [None, None, -1]}):
                            idx = [short, {"s": sl}] if order == "short-long" else [{"s": sl}, short]
                            yield case("xlong[idx]", "getitem-long", [arr2], [X0, idx], {}, "valid", probe=True, warm=warm2, deadline=LONG_DEADLINE, value=True,
                                       expect=long_ref(shape2, e2, idx), bucket=f"long:{fmt}", hang_cap=1, chunk=f"long-{fmt}-2d", touch=False)


def scaling_probes():
    """the same three stored entries, the same slices, extents 2**12, 2**24, 2**40: elapsed time must not follow the extent (judged in c18.leg_c)"""
    for fmt in ("coo", "dok"):
        for n in (2 ** 12, 2 ** 24, 2 ** 40):
            ent = {(5,): 1, (n // 2,): 2, (n - 9,): 3}
            arr1 = {"shape": [n], "coords": [list(c) for c in sorted(ent)], "data": [ent[c] for c in sorted(ent)], "format": fmt}
            one = {"shape": [n], "coords": [[n // 2]], "data": [4], "format": fmt}
            warm = {"op": "xlong[idx]", "arrays": [{"shape": [64], "coords": [[3], [9]], "data": [1, 2], "format": fmt}], "args": [X0, [{"s": [1, None, None]}]], "kwargs": {}}
            for tag, arr_, e_ in (("3", arr1, ent), ("1", one, {(n // 2,): 4})):
                for sl in ([1, None, None], [None, -1, None], [3, -3, 2]):
                    idx = [{"s": sl}]
                    yield case("xlong[idx]", "getitem-long", [arr_], [X0, idx], {}, "valid", probe=True, warm=warm, deadline=LONG_DEADLINE, value=True,
                               expect=long_ref([n], e_, idx), bucket=f"long:{fmt}", hang_cap=1, chunk=f"scaling-{fmt}", touch=False,
                               scaling={"fmt": fmt, "nnz": tag, "slice": sl, "extent": n})


def caxes_arg(rng, nd):
    q = rng.random()
    if q < 0.45:
        ch = gen.compressed_axes_choices(nd)
        c = ch[int(rng.integers(len(ch)))]
        return (None if c is None else list(c)), "valid"
    if q < 0.55:
        return list(range(nd)), "caxes-bad" if nd else "valid-empty"
    if q < 0.65:
        return [0, 0], "caxes-bad"
    if q < 0.75:
        return [nd], "caxes-bad"
    if q < 0.85:
        return ([-1], "valid" if nd >= 2 else "caxes-bad") if nd % 2 else ([-nd - 1], "caxes-bad")
    if q < 0.90:
        return [], "caxes-bad"
    if q < 0.95 and nd >= 3:
        return [1, 0], "caxes-unsorted"
    return [0.5, "a", 1][int(rng.integers(3))], "caxes-type"


def g_caxes(rng, n):
    for _ in range(n):
        a = arr(rng)
        nd = len(a["shape"])
        ca, kind = caxes_arg(rng, nd)
        if kind == "valid-empty":
            ca, kind = None, "valid"
        if nd < 2 and kind == "caxes-bad":
            kind = "caxes-lowrank"      # a 0-d/1-d array has no compressed axes at all: "not supported" is an honest answer
        r = rng.random()
        if r < 0.3:
            a["format"] = "coo"
            yield case("GCXS.from_coo", "caxes", [a], [X0], {"compressed_axes": ca}, kind)
        elif r < 0.45:
            a["format"] = "dense"
            yield case("GCXS.from_numpy", "caxes", [a], [X0], {"compressed_axes": ca}, kind)
        elif r < 0.7:
            a["format"] = "gcxs"
            if "ca" not in a:
                a["ca"] = None
            if ca is None:
                continue
            yield case("x.change_compressed_axes", "caxes", [a], [X0, ca], {}, kind)
        else:
            fmt = str(rng.choice(["coo", "gcxs", "dok", "gcxs", "csr", "csc", "nope"]))
            kw = {"compressed_axes": ca} if (fmt == "gcxs" and rng.random() < 0.7) else {}
            k2 = kind if kw else "valid"
            if fmt == "nope":
                k2 = "format-bad"
            if "ca" not in a and a["format"] == "gcxs":
                a["ca"] = None
            yield case("x.asformat", "caxes", [a], [X0, fmt], kw, k2)


def g_convert(rng, n):
    ops = ["x.todense", "x.tocsr", "x.tocsc", "x.to_scipy_sparse", "x.tocoo", "x.todok", "x.copy", "x.maybe_densify", "x.linear_loc", "x.props", "x.to_device"]
    for _ in range(n):
        a = arr(rng)
        op = str(rng.choice(ops))
        args = [X0]
        if op in ("x.tocsr", "x.tocsc", "x.linear_loc") or (op == "x.maybe_densify" and a["format"] == "dok"):
            a["format"] = "coo"
        if op == "x.to_scipy_sparse" and a["format"] == "dok":
            a["format"] = "gcxs"
            a["ca"] = None if len(a["shape"]) < 2 else [0]
        if op == "x.copy" and a["format"] == "dok":
            a["format"] = "coo"
        if op == "x.to_device":
            args.append(str(rng.choice(["cpu", "gpu"])))
        if op == "x.maybe_densify" and rng.random() < 0.5:
            args += [int(rng.choice([0, 1, 1000])), float(rng.choice([0.0, 0.25, 1.0]))]
        yield case(op, "convert", [a], args, {}, "valid")
    for _ in range(max(n // 8, 2)):
        a = arr(rng, rshape(rng, 2, 2), fmt=str(rng.choice(["csr", "csc"])))
        yield case("from_scipy_sparse", "convert", [a], [X0, str(rng.choice(["COO", "GCXS", "DOK"]))], {}, "valid")
    for _ in range(max(n // 8, 2)):
        a = arr(rng)
        op = str(rng.choice(["sparse.asarray", "sparse.asnumpy", "sparse.as_coo"]))
        kw = {}
        if op == "sparse.asarray":
            if rng.random() < 0.5:
                a["format"] = "dense"
            kw["format"] = str(rng.choice(["coo", "gcxs", "dok", "nope"]))
        yield case(op, "convert", [a], [X0], kw, "valid" if kw.get("format") != "nope" else "format-bad")


def g_dtype(rng, n):
    good = ["float32", "float64", "int8", "int32", "bool", "complex128", "uint8"]
    bad = ["foo", "float12", "", 5, 1.5]
    for _ in range(n):
        a = arr(rng, dtype=str(rng.choice(["int64", "float64", "bool"])))
        q = rng.random()
        dt = good[int(rng.integers(len(good)))] if q < 0.7 else bad[int(rng.integers(len(bad)))]
        kind = "valid" if q < 0.7 else "dtype-bad"
        op = str(rng.choice(["x.astype", "sparse.astype", "sparse.can_cast", "sparse.result_type"]))
        if op == "sparse.result_type":
            yield case(op, "dtype", [a], [X0, dt if kind == "valid" else "foo"], {}, kind)
        elif op == "sparse.can_cast":
            kw = {"casting": str(rng.choice(["safe", "unsafe", "same_kind", "nope"]))} if rng.random() < 0.4 else {}
            yield case(op, "dtype", [a], [X0, dt], kw, kind if kw.get("casting") != "nope" else "dtype-bad")
        else:
            yield case(op, "dtype", [a], [X0, dt], {}, kind)


def g_npz(rng, n):
    import io
    import zipfile

    def npz_bytes(members):
        buf = io.BytesIO()
        np.savez(buf, **members)
        return buf.getvalue()

    valid = npz_bytes({"coords": np.array([[0, 1]]), "data": np.array([1, 2]), "shape": np.array([3]), "fill_value": np.array(0)})
    for k in range(n):
        q = rng.random()
        if q < 0.2:
            b = bytes(int(v) for v in rng.integers(0, 256, size=int(rng.integers(0, 40))))
        elif q < 0.4:
            b = valid[: int(rng.integers(0, len(valid)))]
        elif q < 0.55:
            b = npz_bytes({"data": np.array([1, 2]), "shape": np.array([3])})                     # members missing
        elif q < 0.7:
            b = npz_bytes({"coords": np.array([[0, 1, 2]]), "data": np.array([1, 2]), "shape": np.array([3]), "fill_value": np.array(0)})
        elif q < 0.8:
            b = npz_bytes({"coords": np.array([[0, 5]]), "data": np.array([1, 2]), "shape": np.array([3]), "fill_value": np.array(0)})
        elif q < 0.9:
            buf = io.BytesIO()
            with zipfile.ZipFile(buf, "w") as z:
                z.writestr("coords.npy", b"not an npy file")
            b = buf.getvalue()
        else:
            b = valid
        yield case("sparse.load_npz", "npz", [], [{"hex": b.hex()}], {}, "garbage" if q < 0.9 else "valid")
    for _ in range(max(n // 2, 2)):
        a = arr(rng)
        kw = {"compressed": bool(rng.random() < 0.5)} if rng.random() < 0.5 else {}
        yield case("sparse.save_npz", "npz", [a], [X0], kw, "valid")


# -----------------------------------------------------------------------------------------------------------------
# length-0 placements for the kernels with data-dependent while loops (explicit probes, short deadline, warm prelude)
# -----------------------------------------------------------------------------------------------------------------

def zeros_arr(shape, fmt, ca=None):
    d = {"dense": np.zeros(shape, dtype=np.int64).tolist(), "shape": list(shape), "dtype": "float64", "format": fmt, "fill": 0}
    if fmt == "gcxs":
        d["ca"] = ca
    return d


def eye_arr(shape, fmt, ca=None):
    x = np.zeros(shape)
    for mi in np.ndindex(*shape):
        if len(set(mi)) <= 1:
            x[mi] = 1.0
    d = {"dense": x.tolist(), "shape": list(shape), "dtype": "float64", "format": fmt, "fill": 0}
    if fmt == "gcxs":
        d["ca"] = ca
    return d


def dot_probes(full):
    """products with a length-0 axis on either operand, every format pairing that reaches a `_dot_*` kernel"""
    placements = [((3, 3), (3, 0)), ((0, 3), (3, 2)), ((3, 0), (0, 2)), ((2, 3), (3,)), ((3,), (3, 0)), ((0,), (0, 2)), ((3, 0), (0,)),
                  ((0, 0), (0, 0)), ((2, 3, 3), (3, 0)), ((2, 3, 3), (2, 3, 0))]
    if not full:
        placements = placements[:3] + placements[4:5]
    fmts = [("coo", "dense"), ("dense", "coo"), ("gcxs", "dense"), ("dense", "gcxs"), ("coo", "coo"), ("gcxs", "gcxs"), ("coo", "gcxs")]
    ops = ["sparse.dot", "sparse.matmul", "x@y", "sparse.tensordot"] if full else ["sparse.dot", "sparse.matmul", "sparse.tensordot"]
    for (s1, s2) in placements:
        for (f1, f2) in fmts:
            for op in ops:
                if op != "sparse.dot" and not full and (f1, f2) not in (("coo", "dense"), ("dense", "coo")):
                    continue
                a = eye_arr(s1, f1, None if len(s1) < 2 else [0])
                b = eye_arr(s2, f2, None if len(s2) < 2 else [0])
                rts = [None]
                if op == "sparse.tensordot":
                    if len(s1) > 2 or len(s2) > 2:
                        continue
                    kw0 = {"axes": [{"l": [len(s1) - 1]}, {"l": [0]}]}
                    # every return_type: the sparse-result kernels (_dot_coo_ndarray_type_sparse, _dot_ndarray_coo_type_sparse and the
                    # CSR/CSC ones) are reached only through return_type=COO/GCXS with a dense operand
                    rts = [None, "COO", "GCXS", "ndarray"] if "dense" in (f1, f2) else [None, "ndarray"]
                else:
                    kw0 = {}
                npf = {"sparse.dot": np.dot, "sparse.matmul": np.matmul, "x@y": np.matmul, "sparse.tensordot": np.tensordot}[op]
                npkw = {"axes": ([len(s1) - 1], [0])} if kw0 else {}
                kind = "valid" if np_accepts(npf, s1, s2, **npkw) else "shape-mismatch"
                w1 = tuple(max(e, 2) for e in s1)
                w2 = tuple(max(e, 2) for e in s2)
                if len(w1) and len(w2):   # keep the contraction consistent for the warm-up
                    w2 = (w1[-1],) + w2[1:] if len(w2) > 1 else (w1[-1],)
                if len(w1) == 3 and len(w2) == 3:
                    w2 = (w1[0],) + w2[1:]
                    w2 = (w2[0], w1[-1], w2[2])
                for rt in rts:
                    kw = dict(kw0, return_type={"cls": rt}) if rt is not None else kw0
                    warm = {"op": op, "arrays": [eye_arr(w1, f1, None if len(s1) < 2 else [0]), eye_arr(w2, f2, None if len(s2) < 2 else [0])],
                            "args": [X0, X1], "kwargs": kw}
                    yield case(op, "dot", [a, b], [X0, X1], kw, kind, probe=True, warm=warm, deadline=10.0, noretry=True,
                               bucket=f"probe:{op}:{f1}:{f2}:{rt}", hang_cap=1 if not full else 4,
                               chunk=f"probe-{op}-{f1}-{f2}" if f2 == "dense" else f"probe-{f1}-{f2}")

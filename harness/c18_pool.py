"""C18 watchdog pool: N long-lived worker subprocesses (c18_worker.py), one thread each; the parent owns the clock.

Wall-clock deadlines only DETECT hangs.  Each deadline is stretched by the slowdown of the moment (contention seen by a reference computation
at the start of the run, load average per CPU: loadtol.slowdown).  A case that misses its deadline gets its worker KILLED (a `nogil` numba loop
cannot be interrupted) and is a SUSPECT; when all workers have finished, every suspect is run again ALONE — a fresh worker, nothing else of this
check running — with three times the (re-stretched) deadline, and only a second miss is recorded as outcome "hang" ("confirmed_by_retry"); a
suspect that answers is recorded with "first_attempt": "timeout" (rescued).  After `hang_cap` suspects in a bucket (family) the remaining cases of
the bucket are deferred, so that a broken loop cannot stall the check; they are run after the confirmation phase if no hang of the bucket was
confirmed, and counted as skipped otherwise.  A worker that dies is recorded as outcome "crash" with its exit status.
"""
from __future__ import annotations

import json
import os
import queue
import select
import shutil
import subprocess
import sys
import tempfile
import threading
import time
from pathlib import Path

import loadtol

WORKER = Path(__file__).resolve().parent / "c18_worker.py"
START_DEADLINE = 180.0      # import sparse + numba under load
BASE_DEADLINE = 25.0        # a first call may JIT-compile a chain of kernels
PER_UNIT = 2e-4             # seconds per stored element / unit of extent (input + output)
WARM_DEADLINE = 120.0


class Proc:
    def __init__(self, idx, scratch):
        self.idx = idx
        self.errpath = os.path.join(scratch, f"worker{idx}.err")
        self.errf = open(self.errpath, "wb")
        env = dict(os.environ)
        env.setdefault("NUMBA_CACHE_DIR", "/var/tmp/verif-numba-cache")
        env["PYTHONUNBUFFERED"] = "1"
        env.setdefault("OMP_NUM_THREADS", "1")
        env.setdefault("NUMBA_NUM_THREADS", "2")
        self.p = subprocess.Popen([sys.executable, "-u", str(WORKER)], stdin=subprocess.PIPE, stdout=subprocess.PIPE, stderr=self.errf, env=env)
        self.buf = b""
        self.info = None

    def readline(self, timeout):
        """-> dict | "timeout" | "eof" """
        end = time.monotonic() + timeout
        fd = self.p.stdout.fileno()
        while True:
            if b"\n" in self.buf:
                line, self.buf = self.buf.split(b"\n", 1)
                if not line.strip():
                    continue
                try:
                    return json.loads(line)
                except ValueError:
                    continue
            left = end - time.monotonic()
            if left <= 0:
                return "timeout"
            r, _, _ = select.select([fd], [], [], min(left, 1.0))
            if r:
                chunk = os.read(fd, 65536)
                if not chunk:
                    return "eof"
                self.buf += chunk

    def wait_ready(self):
        m = self.readline(START_DEADLINE)
        if not isinstance(m, dict) or m.get("phase") != "ready":
            raise RuntimeError(f"C18 worker did not start: {m!r} {self.stderr_tail()}")
        self.info = m
        return m

    def send(self, obj):
        try:
            self.p.stdin.write((json.dumps(obj, separators=(",", ":")) + "\n").encode())
            self.p.stdin.flush()
            return True
        except (BrokenPipeError, OSError):
            return False

    def kill(self):
        try:
            self.p.kill()
        except OSError:
            pass
        try:
            self.p.wait(timeout=30)
        except Exception:  # noqa: BLE001
            pass
        for f in (self.p.stdin, self.p.stdout, self.errf):
            try:
                f.close()
            except Exception:  # noqa: BLE001
                pass

    def exit_status(self):
        try:
            return self.p.wait(timeout=30)
        except Exception:  # noqa: BLE001
            return None

    def stderr_tail(self, n=400):
        try:
            self.errf.flush()
            with open(self.errpath, "rb") as f:
                f.seek(0, 2)
                size = f.tell()
                f.seek(max(0, size - n))
                return f.read().decode("utf8", "replace")
        except Exception:  # noqa: BLE001
            return ""


def case_size(case):
    n = 0
    for a in case.get("arrays", []):
        s = 1
        for e in a.get("shape", []):
            s *= max(int(e), 1)
            n += int(e)
        n += s
    return n


class Pool:
    """run(cases) -> list of result records, in the order of the cases"""

    def __init__(self, nworkers=6, log=lambda *a: None):
        self.n = nworkers
        self.log = log
        self.scratch = tempfile.mkdtemp(prefix="verif-c18-", dir="/var/tmp")
        self.lock = threading.Lock()
        self.hangs_by_bucket: dict[str, int] = {}
        self.suspects_by_bucket: dict[str, int] = {}
        self.ref = None
        self.stats = {"workers_started": 0, "workers_killed": 0, "workers_died": 0, "retries": 0, "retry_rescued": 0, "skipped_after_hangs": 0}
        self.sparse_file = None
        self.procs: list[Proc | None] = [None] * nworkers

    # -- worker management ------------------------------------------------------------------------------------------
    def _fresh(self, i):
        p = Proc(i, self.scratch)
        p.wait_ready()
        with self.lock:
            self.stats["workers_started"] += 1
            self.sparse_file = p.info.get("file")
        self.procs[i] = p
        return p

    def close(self):
        for p in self.procs:
            if p is not None:
                p.send({"op": "__quit__"})
                p.kill()
        shutil.rmtree(self.scratch, ignore_errors=True)

    # -- one case on one worker --------------------------------------------------------------------------------------
    def _attempt(self, i, case, deadline):
        """-> (record, worker_alive)"""
        p = self.procs[i] or self._fresh(i)
        t0 = time.monotonic()
        if not p.send(case):
            st = p.exit_status()
            p.kill()
            self.procs[i] = None
            p = self._fresh(i)
            if not p.send(case):
                raise RuntimeError("C18 worker refuses input")
        ref = {}
        phase_deadline = WARM_DEADLINE if case.get("warm") else deadline
        while True:
            m = p.readline(phase_deadline)
            if m == "timeout":
                p.kill()
                self.procs[i] = None
                with self.lock:
                    self.stats["workers_killed"] += 1
                return {"out": "hang", "deadline": round(phase_deadline, 2), "waited": round(time.monotonic() - t0, 2), **ref}, False
            if m == "eof":
                st = p.exit_status()
                tail = p.stderr_tail()
                p.kill()
                self.procs[i] = None
                with self.lock:
                    self.stats["workers_died"] += 1
                return {"out": "crash", "exit_status": st, "stderr": tail, **ref}, False
            if m.get("id") != case.get("id"):
                continue
            if m.get("phase") == "warm":
                phase_deadline = deadline
                continue
            if m.get("phase") == "ref":
                ref = {k: v for k, v in m.items() if k.startswith("np")}
                continue
            if m.get("phase") == "done":
                return m, True

    def calibrate(self):
        """the reference computation in worker 0, before anything else runs"""
        p = self.procs[0] or self._fresh(0)
        if p.send({"op": "__calibrate__", "id": -1}):
            m = p.readline(START_DEADLINE)
            if isinstance(m, dict) and m.get("out") == "ok":
                self.ref = {"cpu": m.get("cpu"), "wall": m.get("wall")}
        self.stats["reference_computation"] = self.ref
        self.stats["slowdown_at_start"] = round(loadtol.slowdown(self.ref), 2)
        return self.ref

    def stretch(self, seconds):
        return seconds * loadtol.slowdown(self.ref)

    def run_case(self, i, case):
        bucket = case.get("bucket") or case.get("fam") or case.get("op")
        with self.lock:
            nh = self.suspects_by_bucket.get(bucket, 0)
        if nh >= case.get("hang_cap", 4):
            return {"out": "deferred", "bucket": bucket}
        deadline = case.get("deadline") or (BASE_DEADLINE + PER_UNIT * case_size(case))
        rec, _ = self._attempt(i, case, self.stretch(deadline))
        if rec["out"] == "hang":
            rec["out"] = "suspect"
            with self.lock:
                self.suspects_by_bucket[bucket] = self.suspects_by_bucket.get(bucket, 0) + 1
        return rec

    def confirm(self, cases, results):
        """the solitary phase: suspects are retried alone, deferred cases are run (or skipped when their bucket has a confirmed hang)"""
        for p in self.procs:             # nothing else of this check is running now; idle workers stay, they use no CPU
            pass
        confirmed: dict[str, int] = {}
        order = [k for k, r in enumerate(results) if r and r.get("out") == "suspect"]
        for k in order:
            case = cases[k]
            bucket = case.get("bucket") or case.get("fam") or case.get("op")
            deadline = case.get("deadline") or (BASE_DEADLINE + PER_UNIT * case_size(case))
            self.log(f"C18: {case.get('op')} missed its deadline ({results[k].get('deadline')} s); retrying alone")
            with self.lock:
                self.stats["retries"] += 1
            if self.procs[0] is not None:        # a fresh worker for the retry
                self.procs[0].send({"op": "__quit__"})
                self.procs[0].kill()
                self.procs[0] = None
            rec2, _ = self._attempt(0, case, self.stretch(3 * deadline))
            if rec2["out"] != "hang":
                self.stats["retry_rescued"] += 1
                rec2["first_attempt"] = "timeout"
            else:
                rec2["confirmed_by_retry"] = True
                confirmed[bucket] = confirmed.get(bucket, 0) + 1
                self.hangs_by_bucket[bucket] = self.hangs_by_bucket.get(bucket, 0) + 1
            results[k] = rec2
        for k, r in enumerate(results):
            if r and r.get("out") == "deferred":
                if confirmed.get(r["bucket"]):
                    self.stats["skipped_after_hangs"] += 1
                    results[k] = {"out": "skipped", "why": f"{confirmed[r['bucket']]} hangs confirmed in bucket {r['bucket']}"}
                else:
                    case = cases[k]
                    deadline = case.get("deadline") or (BASE_DEADLINE + PER_UNIT * case_size(case))
                    rec, _ = self._attempt(0, case, self.stretch(3 * deadline))
                    if rec["out"] == "hang":
                        rec["confirmed_by_retry"] = True      # it ran alone already
                    results[k] = rec

    # -- many cases ----------------------------------------------------------------------------------------------------
    def run(self, cases, progress=None):
        """cases: list of dicts (each gets an 'id').  Cases are grouped in chunks by family so that one worker compiles
        the kernels of one family; chunks are dealt longest first."""
        for k, c in enumerate(cases):
            c["id"] = k
        chunks: dict[str, list[int]] = {}
        for k, c in enumerate(cases):
            chunks.setdefault(c.get("chunk") or c.get("fam") or c["op"], []).append(k)
        pieces = []
        # a family is split only when it is large: every worker that gets a piece JIT-compiles the family's kernels again
        maxlen = max(600, len(cases) // self.n + 1)
        for key, ids in chunks.items():
            for j in range(0, len(ids), maxlen):
                pieces.append(ids[j:j + maxlen])
        # probes (cases with their own short deadline) first, then longest chunks
        pieces.sort(key=lambda ids: (-max(1 if cases[k].get("probe") else 0 for k in ids), -len(ids)))
        q: queue.Queue = queue.Queue()
        for pc in pieces:
            q.put(pc)
        results: list = [None] * len(cases)
        errors = []
        done = [0]

        def work(i):
            try:
                while True:
                    try:
                        ids = q.get_nowait()
                    except queue.Empty:
                        return
                    for k in ids:
                        send = {kk: v for kk, v in cases[k].items() if kk in ("id", "op", "arrays", "args", "kwargs", "warm", "touch", "spec", "value")}
                        meta = {kk: cases[k].get(kk) for kk in ("fam", "bucket", "deadline", "noretry", "hang_cap", "warm")}
                        results[k] = self.run_case(i, {**send, **{kk: v for kk, v in meta.items() if v is not None}})
                        with self.lock:
                            done[0] += 1
                            if progress and done[0] % 500 == 0:
                                progress(done[0], len(cases))
            except Exception as e:  # noqa: BLE001
                errors.append(e)

        threads = [threading.Thread(target=work, args=(i,), daemon=True) for i in range(self.n)]
        for t in threads:
            t.start()
        for t in threads:
            t.join()
        if errors:
            raise errors[0]
        sent = [{**{kk: v for kk, v in c.items() if kk in ("id", "op", "arrays", "args", "kwargs", "warm", "touch", "spec", "value")},
                 **{kk: c.get(kk) for kk in ("fam", "bucket", "deadline", "noretry", "hang_cap") if c.get(kk) is not None}} for c in cases]
        self.confirm(sent, results)
        self.suspects_by_bucket.clear()
        return results

"""Shared helpers of the GCXS legs of C02 / C03 / C09: JSON forms, generators of GCXS inputs, kernel callers.

The legs compare the REPRESENTATION the real code returns (data, indices, indptr, shape, compressed_axes, fill) with the
Lean model's (lean/SparseV/Model/GcxsIndex.lean, GcxsReduce.lean, GcxsJoin.lean), and call the internal kernels directly
with the same arguments (kernel-level correspondence)."""
from __future__ import annotations

import numpy as np

import gen


def gcxs_json(x):
    """GCXS -> the driver's JSON form (1-d / 0-d arrays carry no index pointers: `[]`)"""
    ip = x.indptr
    if ip is None or isinstance(ip, (tuple, list)):
        ip = list(ip or [])
    else:
        ip = np.asarray(ip).tolist()
    ca = x.compressed_axes
    return {
        "shape": [int(d) for d in x.shape],
        "caxes": None if ca is None else [int(a) for a in ca],
        "indptr": [int(v) for v in ip],
        "indices": [int(v) for v in np.asarray(x.indices).reshape(-1).tolist()],
        "data": [int(v) for v in np.asarray(x.data).tolist()],
        "fill": int(x.fill_value),
    }


def rand_gcxs(rng, min_rank=2, max_rank=4, fills=(0, 0, 3), extents=gen.EXTENTS, max_size=400, lo=-4, hi=4, route=None):
    """a random GCXS array (every admissible compressed_axes, zero-extent axes, empty rows) reached through one of the
    public construction routes: from_coo of a canonical COO, from_coo of a COO whose coordinates were handed over
    unsorted (the constructor sorts), from_numpy, CSR / CSC for 2-d, change_compressed_axes of another GCXS"""
    import sparse

    shp = gen.shape(rng, min_rank, max_rank, extents=extents, max_size=max_size)
    fill = int(rng.choice(list(fills)))
    d = gen.dense(rng, shp, fill, lo=lo, hi=hi)
    nd = len(shp)
    ch = gen.compressed_axes_choices(nd)
    ca = ch[int(rng.integers(len(ch)))]
    route = route or str(rng.choice(["coo", "coo", "unsorted", "numpy", "csrcsc", "change"]))
    c = sparse.COO.from_numpy(d, fill_value=fill)
    if nd < 2:
        return sparse.GCXS.from_coo(c), d, fill, "1d"
    if route == "unsorted" and c.nnz > 1:
        p = rng.permutation(c.nnz)
        c2 = sparse.COO(c.coords[:, p], c.data[p], shape=c.shape, fill_value=fill)
        x = sparse.GCXS.from_coo(c2, compressed_axes=ca)
    elif route == "numpy":
        x = sparse.GCXS.from_numpy(d, compressed_axes=ca, fill_value=fill)
    elif route == "csrcsc" and nd == 2:
        from sparse.numba_backend._compressed import CSC, CSR

        cls = CSR if rng.random() < 0.5 else CSC
        x = cls.from_numpy(d, fill_value=fill)
    elif route == "change":
        cb = ch[int(rng.integers(len(ch)))]
        x = sparse.GCXS.from_coo(c, compressed_axes=cb).change_compressed_axes(ca)
    else:
        x = sparse.GCXS.from_coo(c, compressed_axes=ca)
    return x, d, fill, route


def result_json(r):
    import sparse

    if isinstance(r, sparse.GCXS):
        return {"ok": gcxs_json(r)}
    if isinstance(r, sparse.SparseArray):
        return {"ok": {"other": type(r).__name__}}
    return {"ok": {"scalar": int(r)}}

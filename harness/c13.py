"""C13 — results do not depend on thread interleaving.

The tie to the code is a cooperative scheduler: every worker thread runs under sys.settrace; chosen
source lines of sparse/ frames are scheduling points at which the thread parks; exactly one thread
runs at a time and a policy (an explicit schedule, a depth-first enumerator, PCT priorities, a random
walk) decides who runs next.  A C-level call is never interrupted — exactly the atomicity the GIL
gives — so every explored interleaving is one CPython can produce.

Leg A  (correspondence)
  A1  the witness of SparseV.C13.cache_iter_race_counterexample (fetched from the driver) replayed on
      the real COO.transpose; the outcome tells which transition system the working tree implements
      (`live`: iterate over the shared deque; `snapshot`: iterate over tuple(deque)) and is cross-checked
      with an AST inventory of the two lookup loops.
  A2  ALL interleavings of 2 threads around the cache loops (transpose and reshape; empty / 1-entry /
      hit / same-key configurations, <= 6 scheduling points per thread) and sampled interleavings of
      larger configurations: per quantum the line the real thread parks at vs the model's pc, per call
      ok/RuntimeError, the final deque keys.
  A3  ALL interleavings of 2 threads through `_memoize_dtype.wrapped` (same key, different keys, hit)
      and sampled 3-4 thread ones: per call value, number of computations, final dict keys.
Leg C  (property oracle)
  C1  every call of every explored schedule against the sequential baseline (value, error).
  C2  PCT / random-walk schedules with EVERY executed line of sparse/ as a scheduling point, 2-16
      threads over element-wise / indexing / reduction / product / transpose / reshape / conversion
      calls on shared operands (cache-enabled COO included): each result vs the sequential baseline,
      operands' storage afterwards.
  C3  free-running threads in a fresh subprocess (first-use compilation of the typed kernels happens
      concurrently; tiny switch interval): same comparison.  Support only: real preemption is not
      controlled, so this leg can only add cases, never be the sole witness of a finding.
Shared state other than the COO caches — the dictionary of a shared DOK array, the process-global warnings
filters — is the business of harness/c13_shared.py (sentinel, preemption leg, correspondence of the two further
transition systems of Model/SharedReads.lean); the worlds of C2 / C3 share DOK, GCXS and COO operands (also ones
that hold explicitly stored fill values) and include calls that merely warn.  Worker threads of this harness
never touch process-global state themselves.
"""
from __future__ import annotations

import ast
import json
import os
import subprocess
import sys
import threading
import time
import warnings
from pathlib import Path

import numpy as np

import core
import findings
import gen

PID = "C13"
TRUSTED = [
    "Lean 4 kernel; axioms propext, Classical.choice, Quot.sound only (audited per theorem each run)",
    "atomicity: each model step is one C-level action under the GIL (iterator creation, next(), ==, deque.append, "
    "`in`/getitem/setitem on a dict); CPython 3.12 switches threads at fewer places than the model allows",
    "CPython's deque rule (dequeiter_next compares deque->state first; append increments it) as transcribed in Model/Interleave.lean",
    "tie T2: the traced cooperative scheduler of this file (sys.settrace line events as scheduling points); model and implementation "
    "compared per quantum on the parking line, per call on the outcome, and on the final deque / dict",
    "numba nogil kernels are not modelled: they are assumed to write only into buffers they allocate (C11) and are exercised by legs C2/C3",
    "CPython's dictionary-iterator rule (dictiter_iternextitem compares di_used with ma_used first) and Lib/warnings.py's catch_warnings / "
    "simplefilter / filterwarnings / warn as transcribed in Model/SharedReads.lean; validated per quantum against the real interpreter by the rigs of c13_shared.py",
    "the catalogue of warnings the library can emit: NumPy's floating-point warnings (fixed list in the model) plus every warnings.warn of the package (generated table)",
    "tools/tables.d/C13.py (ast): the classification of every mention of self.data in class DOK, the filters of every catch_warnings block, the warn sites",
]
SPARSE_DIR = str(Path(core.REPO) / "sparse") + os.sep
CORE_PY = str(Path(core.REPO) / "sparse" / "numba_backend" / "_coo" / "core.py")
COMMON_PY = str(Path(core.REPO) / "sparse" / "numba_backend" / "_common.py")
DEQUE_MSG = "deque mutated during iteration"


# ------------------------------------------------------------------------------------------------
# source inventory (which lines are the scheduling points of the two models)
# ------------------------------------------------------------------------------------------------

def _mentions_cache(node):
    return any(isinstance(n, ast.Attribute) and n.attr == "_cache" for n in ast.walk(node))


def cache_sites():
    """{method: {for, cmp, append, mode}} for COO.transpose / COO.reshape, or raises ValueError"""
    tree = ast.parse(Path(CORE_PY).read_text())
    res = {}
    for cls in tree.body:
        if isinstance(cls, ast.ClassDef) and cls.name == "COO":
            for fn in cls.body:
                if isinstance(fn, ast.FunctionDef) and fn.name in ("transpose", "reshape"):
                    loops = [n for n in ast.walk(fn) if isinstance(n, ast.For) and _mentions_cache(n.iter)]
                    apps = [n for n in ast.walk(fn) if isinstance(n, ast.Expr) and isinstance(n.value, ast.Call)
                            and isinstance(n.value.func, ast.Attribute) and n.value.func.attr == "append" and _mentions_cache(n.value.func.value)]
                    if len(loops) != 1 or len(apps) != 1:
                        raise ValueError(f"COO.{fn.name}: {len(loops)} cache loops, {len(apps)} cache appends")
                    lp = loops[0]
                    if not (len(lp.body) == 1 and isinstance(lp.body[0], ast.If) and len(lp.body[0].body) == 1
                            and isinstance(lp.body[0].body[0], ast.Return) and not lp.orelse):
                        raise ValueError(f"COO.{fn.name}: lookup loop is not `for k, v in …: if k == key: return v`")
                    it = lp.iter
                    if isinstance(it, ast.Subscript):
                        mode = "live"
                    elif isinstance(it, ast.Call) and isinstance(it.func, ast.Name) and it.func.id in ("tuple", "list") and len(it.args) == 1 \
                            and isinstance(it.args[0], ast.Subscript):
                        mode = "snapshot"
                    else:
                        raise ValueError(f"COO.{fn.name}: unrecognised loop iterable {ast.dump(it)[:80]}")
                    res[fn.name] = {"for": lp.lineno, "cmp": lp.body[0].lineno, "ret": lp.body[0].body[0].lineno,
                                    "append": apps[0].lineno, "mode": mode}
    if set(res) != {"transpose", "reshape"}:
        raise ValueError(f"cache methods found: {sorted(res)}")
    return res


def memo_sites():
    """line -> kind for the body of _memoize_dtype.wrapped, or raises ValueError"""
    tree = ast.parse(Path(COMMON_PY).read_text())
    for fn in tree.body:
        if isinstance(fn, ast.FunctionDef) and fn.name == "_memoize_dtype":
            inner = [n for n in fn.body if isinstance(n, ast.FunctionDef)]
            if len(inner) != 1:
                break
            b = inner[0].body
            ok = (len(b) == 5 and isinstance(b[0], ast.Assign) and isinstance(b[1], ast.If) and isinstance(b[1].test, ast.Compare)
                  and isinstance(b[1].test.ops[0], ast.In) and len(b[1].body) == 1 and isinstance(b[1].body[0], ast.Return)
                  and isinstance(b[2], ast.Assign) and isinstance(b[2].value, ast.Call)
                  and isinstance(b[3], ast.Assign) and isinstance(b[3].targets[0], ast.Subscript) and isinstance(b[4], ast.Return))
            if not ok:
                break
            return {b[0].lineno: "key", b[1].lineno: "if", b[1].body[0].lineno: "get", b[2].lineno: "compute",
                    b[3].lineno: "store", b[4].lineno: "ret"}
    raise ValueError("_memoize_dtype.wrapped is not `key=…; if key in cache: return cache[key]; result=f(*args); cache[key]=result; return result`")


# ------------------------------------------------------------------------------------------------
# the cooperative scheduler
# ------------------------------------------------------------------------------------------------

class SchedulerTimeout(RuntimeError):
    pass


class Coop:
    """Exactly one worker runs at a time.  A worker parks at every scheduling point (and before its
    first call); the thread that parks or finishes asks the policy who runs next."""

    def __init__(self, n, policy, wanted_code, classify, deadline_s=30.0):
        self.n, self.policy, self.wanted_code, self.classify = n, policy, wanted_code, classify
        self.cv = threading.Condition()
        self.turn = None
        self.started = False
        self.at = [None] * n
        self.done = [False] * n
        self.quanta = []  # (tid, point info it was released from)
        self.arrivals = []  # (tid, point info it parked at | ("done",))
        self.abort = False
        self.fast = getattr(policy, "fast", None)
        self.fast_quanta = 0
        self.t_end = time.monotonic() + deadline_s

    def _choose(self, last):
        enabled = [i for i in range(self.n) if not self.done[i]]
        if not enabled:
            self.turn = None
            return
        nxt = self.policy.choose(enabled, self.at, last, len(self.quanta))
        self.quanta.append((nxt, self.at[nxt]))
        self.turn = nxt

    def park(self, tid, info):
        if self.abort:
            return
        if self.fast is not None and self.started and self.turn == tid and self.fast(tid):
            self.fast_quanta += 1  # the policy lets this thread run until it finishes: no hand-over, nothing to record
            return
        with self.cv:
            self.at[tid] = info
            if self.started:
                self.arrivals.append((tid, info))
                self._choose(tid)
            self.cv.notify_all()
            while self.turn != tid and not self.abort:
                left = self.t_end - time.monotonic()
                if left <= 0:
                    self.abort = True
                    self.cv.notify_all()
                    break
                self.cv.wait(timeout=min(left, 0.5))

    def finish(self, tid):
        with self.cv:
            self.done[tid] = True
            self.at[tid] = None
            if self.started and not self.abort:
                self.arrivals.append((tid, ("done",)))
                self._choose(tid)
            self.cv.notify_all()

    def tracer(self, tid):
        classify, wanted, park = self.classify, self.wanted_code, self.park

        def local(frame, event, arg):
            if event == "line":
                info = classify(frame)
                if info is not None:
                    park(tid, info)
            return local

        def glob(frame, event, arg):
            if event == "call" and wanted(frame.f_code):
                return local
            return None

        return glob

    def run(self, bodies):
        """bodies: one list of zero-argument callables per thread -> per-thread list of ('ok', value) / ('err', exception)"""
        outs = [[] for _ in range(self.n)]

        def worker(tid):
            sys.settrace(self.tracer(tid))
            try:
                self.park(tid, ("begin",))
                for c in bodies[tid]:
                    try:
                        outs[tid].append(("ok", c()))
                    except Exception as e:  # noqa: BLE001
                        outs[tid].append(("err", e))
            finally:
                sys.settrace(None)
                self.finish(tid)

        ths = [threading.Thread(target=worker, args=(i,), daemon=True) for i in range(self.n)]
        for t in ths:
            t.start()
        with self.cv:
            while not all(a is not None or d for a, d in zip(self.at, self.done)) and not self.abort:
                if time.monotonic() > self.t_end:
                    self.abort = True
                self.cv.wait(timeout=0.2)
            self.started = True
            self._choose(None)
            self.cv.notify_all()
        for t in ths:
            t.join(timeout=max(0.1, self.t_end - time.monotonic() + 2.0))
        if self.abort or any(t.is_alive() for t in ths):
            self.abort = True
            with self.cv:
                self.cv.notify_all()
            raise SchedulerTimeout(f"scheduler deadline exceeded after {len(self.quanta)} quanta")
        return outs


class Explicit:
    """follow `sched` (thread ids, entries naming finished threads are skipped), then the lowest enabled id; records
    (chosen, enabled) per quantum so that a depth-first enumerator can branch"""

    def __init__(self, sched):
        self.sched, self.i, self.trace = list(sched), 0, []

    def choose(self, enabled, at, last, q):
        t = None
        while self.i < len(self.sched):
            c = self.sched[self.i]
            self.i += 1
            if c in enabled:
                t = c
                break
        if t is None:
            t = min(enabled)
        self.trace.append((t, tuple(enabled)))
        return t


class PCT:
    """probabilistic concurrency testing: random priorities, d-1 priority change points"""

    def __init__(self, rng, n, depth, est_quanta):
        self.prio = [int(v) + depth for v in rng.permutation(n)]
        self.change = {int(v): depth - 1 - j for j, v in enumerate(rng.integers(1, max(2, est_quanta), size=max(0, depth - 1)))}

    def choose(self, enabled, at, last, q):
        if q in self.change and last is not None:
            self.prio[last] = self.change[q]
        return max(enabled, key=lambda i: self.prio[i])


class RandomWalk:
    def __init__(self, rng, p_switch):
        self.rng, self.p = rng, p_switch

    def choose(self, enabled, at, last, q):
        if last in enabled and self.rng.random() >= self.p:
            return last
        return enabled[int(self.rng.integers(len(enabled)))]


def explore_all(run_one, max_runs):
    """stateless depth-first enumeration of every schedule: run_one(prefix) -> trace [(chosen, enabled)].
    Returns (number of runs, exhausted?)"""
    stack, runs = [[]], 0
    while stack:
        if runs >= max_runs:
            return runs, False
        prefix = stack.pop()
        trace = run_one(prefix)
        runs += 1
        choices = [c for c, _ in trace]
        for i in range(len(trace) - 1, len(prefix) - 1, -1):
            for alt in trace[i][1]:
                if alt > trace[i][0]:
                    stack.append(choices[:i] + [alt])
    return runs, True


# ------------------------------------------------------------------------------------------------
# the cache loop on the real code
# ------------------------------------------------------------------------------------------------

def key_of(k):
    return ("t" if k[0] == "t" else "r", tuple(k[1]))


class CacheRig:
    """a fresh cache-enabled array with a given initial deque, threads that call transpose / reshape on it"""

    def __init__(self, sites):
        self.sites = sites
        self.lines = {}
        for m, s in sites.items():
            self.lines[s["for"]] = "for"
            self.lines[s["cmp"]] = "cmp"
            self.lines[s["append"]] = "append"
        d = np.arange(1, 25).reshape(2, 3, 4)
        d[0, 1, 2] = 0
        self.dense = d
        import sparse
        self.plain = sparse.COO.from_numpy(d)
        self.codes = {getattr(sparse.COO, m).__code__ for m in ("transpose", "reshape")}

    def wanted(self, code):
        return code in self.codes

    def classify(self, frame):
        k = self.lines.get(frame.f_lineno)
        return (k,) if k else None

    def fresh(self, dq0):
        import sparse
        x = sparse.COO.from_numpy(self.dense)
        x.enable_caching()
        x._cache["transpose"], x._cache["reshape"]  # the deques exist (the model's initial state)
        for k in dq0:
            self.call(x, k)()
        return x

    def call(self, x, k):
        if k[0] == "t":
            return lambda: x.transpose(tuple(k[1]))
        return lambda: x.reshape(tuple(k[1]))

    def baseline(self, k):
        r = self.plain.transpose(tuple(k[1])) if k[0] == "t" else self.plain.reshape(tuple(k[1]))
        return r.todense()

    def run(self, dq0, progs, policy, deadline_s=20.0):
        x = self.fresh(dq0)
        coop = Coop(len(progs), policy, self.wanted, self.classify, deadline_s)
        outs = coop.run([[self.call(x, k) for k in p] for p in progs])
        name = "transpose" if (progs[0] or dq0)[0][0] == "t" else "reshape"
        keys = [[name[0], [int(v) for v in kk]] for kk, _ in x._cache[name]]
        vals_ok = all(np.array_equal(v.todense(), self.baseline([name[0], kk])) for kk, v in x._cache[name])
        return coop, outs, keys, vals_ok


MODEL_KIND = {"start": "for", "iter": "for", "compare": "cmp", "append": "append", "done": "done", "idle": "done"}


def describe(outs, rig, progs):
    """per thread, per call: 'ok' (value equals the sequential baseline), 'wrong', or the error"""
    res = []
    for p, o in zip(progs, outs):
        row = []
        for k, (tag, v) in zip(p, o):
            if tag == "ok":
                row.append("ok" if (v.shape == rig.baseline(k).shape and np.array_equal(v.todense(), rig.baseline(k))) else "returned a value different from the sequential result")
            else:
                row.append(f"{type(v).__name__}: {v}")
        res.append(row)
    return res


def check_cache_run(ctx, rig, mode, dq0, progs, coarse, family, stats, pending):
    """one schedule on the real code (the model side is batched: flush_cache); returns the policy trace"""
    pol = Explicit(coarse)
    case = {"cached": True, "threads": len(progs), "dq0": dq0, "progs": progs, "schedule": None, "mode": mode}
    try:
        coop, outs, keys, vals_ok = rig.run(dq0, progs, pol)
    except SchedulerTimeout as e:
        ctx.broke("infrastructure:scheduler", str(e))
        return None
    sched = [t for t, _ in coop.quanta]
    case["schedule"] = sched
    stats["runs"] += 1
    stats["quanta"] += len(sched)
    pending.append({"family": family, "case": case, "real": describe(outs, rig, progs), "keys": keys, "vals_ok": vals_ok,
                    "parked": [a[1][0] for a in coop.arrivals], "req": ["c13_cache_coarse", mode, dq0, progs, sched]})
    return pol.trace


def flush_cache(ctx, pending, stats):
    outs = ctx.driver.run([p["req"] for p in pending])
    for p, out in zip(pending, outs):
        case, real, keys, vals_ok = p["case"], p["real"], p["keys"], p["vals_ok"]
        sched, progs = case["schedule"], case["progs"]
        ctx.case(p["family"], case, nontrivial=len(set(sched)) > 1)
        if "ok" not in out:
            ctx.fail("A", "model:cache-schedule", case, f"driver: {out}")
            continue
        m = out["ok"]
        stats["fine_steps"] += len(m["fine"])
        model = [["ok" if r[1][0] == "ok" else "RuntimeError: " + DEQUE_MSG for r in th] for th in m["rets"]]
        parked_model = [MODEL_KIND.get(k, k) for k in m["arrived"]]
        agrees = (real == model and keys == m["dq"] and p["parked"] == parked_model and m["done"] and vals_ok and m["values_ok"])
        case["model_agrees"] = agrees
        case["model_excluded"] = m["excluded"]
        if not agrees:
            ctx.fail("A", "model:cache-schedule", case,
                     f"implementation calls={real} deque={keys} parked={p['parked']} values_ok={vals_ok}; "
                     f"model calls={model} deque={m['dq']} parked={parked_model} done={m['done']}")
        # leg C: every call returns what it returns alone, none fails
        for ti, row in enumerate(real):
            for ci, r in enumerate(row):
                if r != "ok":
                    stats["errors"] += 1
                    detail = f"thread {ti} call {progs[ti][ci]} under schedule {sched}: {r} (alone it returns)"
                    ctx.fail("C", "cache-schedule", case, detail, finding=findings.classify(PID, "cache-schedule", case, detail))
        if not vals_ok:
            ctx.fail("C", "cache-schedule", case, "a value left in the shared deque differs from the uncached result")
        if m["excluded"]:
            stats["excluded"] += 1
    pending.clear()


def leg_cache(ctx, rng):
    try:
        sites = cache_sites()
    except (ValueError, SyntaxError, OSError) as e:
        ctx.broke("correspondence:cache-sites", f"the lookup loops of COO.transpose/reshape are not where the model expects them: {e}")
        return None
    ast_modes = {s["mode"] for s in sites.values()}
    ctx.notes["cache_sites"] = sites
    rig = CacheRig(sites)
    stats = {"runs": 0, "quanta": 0, "fine_steps": 0, "errors": 0, "excluded": 0}
    # ---- A1: the Lean witness on the real code -------------------------------------------------
    w = ctx.driver.run([["c13_counterexample"]])[0]["ok"]
    co = ctx.driver.run([["c13_coarsen", "live", w["dq"], w["progs"], w["sched"]]])[0]
    if "ok" not in co:
        ctx.broke("correspondence:witness", f"the Lean witness is not a line-level schedule: {co}")
        return None
    coarse = co["ok"]["coarse"]
    pol = Explicit(coarse)
    coop, outs, keys, _ = rig.run(w["dq"], w["progs"], pol)
    real = describe(outs, rig, w["progs"])
    raised = [r for row in real for r in row if r != "ok"]
    if raised and all(DEQUE_MSG in r and r.startswith("RuntimeError") for r in raised):
        mode = "live"
    elif not raised:
        mode = "snapshot"
    else:
        ctx.fail("C", "cache-schedule", {"witness": w, "coarse": coarse}, f"replaying the witness: {real}")
        mode = "live"
    ctx.notes["witness"] = {"dq": w["dq"], "progs": w["progs"], "fine": w["sched"], "coarse": coarse, "real_outcome": real,
                            "detected_mode": mode, "ast_modes": sorted(ast_modes)}
    if ast_modes != {mode}:
        if len(ast_modes) == 2:
            core.log("C13: transpose and reshape use different lookup styles")
        else:
            ctx.broke("correspondence:cache-mode", f"witness replay says {mode}, the source inventory says {sorted(ast_modes)}")
    modes = {m: s["mode"] for m, s in sites.items()}
    pending = []
    check_cache_run(ctx, rig, modes["transpose"], w["dq"], w["progs"], coarse, "A:cache:transpose:witness", stats, pending)
    # ---- A2: all interleavings of small configurations ----------------------------------------
    P = [[1, 0, 2], [2, 1, 0], [0, 2, 1], [1, 2, 0], [2, 0, 1]]
    R = [[6, 4], [2, 12], [24], [4, 6], [3, 8]]

    def configs(kind, K):
        k = lambda i: [kind, K[i]]  # noqa: E731
        yield "empty", [], [[k(1)], [k(2)]]
        yield "one-entry", [k(0)], [[k(1)], [k(2)]]
        yield "hit", [k(0)], [[k(0)], [k(2)]]
        yield "same-key", [k(0)], [[k(1)], [k(1)]]
        yield "both-hit", [k(0), k(1)], [[k(1)], [k(0)]]
        if not ctx.quick:
            yield "three-threads", [], [[k(1)], [k(2)], [k(3)]]
            yield "two-entries", [k(0), k(4)], [[k(1)], [k(2)]]
            yield "two-calls", [], [[k(1), k(2)], [k(2)]]

    budget = 2500 if ctx.quick else 40000
    for kind, K, meth in (("t", P, "transpose"), ("r", R, "reshape")):
        for cname, dq0, progs in configs(kind, K):
            runs, complete = explore_all(
                lambda prefix: check_cache_run(ctx, rig, modes[meth], dq0, progs, prefix, f"A:cache:{meth}:{cname}", stats, pending) or [], budget)
            ctx.notes.setdefault("exhaustive_configurations", {})[f"{meth}:{cname}"] = {"interleavings": runs, "complete": complete}
    # ---- sampled: bigger configurations (full deque with eviction, two calls per thread, 3-4 threads) ----
    n_samples = 150 if ctx.quick else 4000
    for j in range(n_samples):
        kind, K, meth = (("t", P, "transpose"), ("r", R, "reshape"))[int(rng.integers(2))]
        nth = int(rng.choice([2, 2, 3, 4]))
        dq0 = [[kind, K[int(i)]] for i in rng.choice(len(K), size=int(rng.integers(0, 4)), replace=False)]
        progs = [[[kind, K[int(rng.integers(len(K)))]] for _ in range(int(rng.integers(1, 3)))] for _ in range(nth)]
        coarse = [int(v) for v in rng.integers(nth, size=int(rng.integers(4, 40)))]
        check_cache_run(ctx, rig, modes[meth], dq0, progs, coarse, f"A:cache:{meth}:sampled", stats, pending)
    flush_cache(ctx, pending, stats)
    ctx.notes["cache_exploration"] = stats
    return mode


# ------------------------------------------------------------------------------------------------
# the memo dict on the real code
# ------------------------------------------------------------------------------------------------

def leg_memo(ctx, rng):
    try:
        lines = memo_sites()
    except (ValueError, SyntaxError, OSError) as e:
        ctx.broke("correspondence:memo-sites", str(e))
        return
    from sparse.numba_backend._common import _memoize_dtype

    dts = [np.dtype("int8"), np.dtype("int16"), np.dtype("int32"), np.dtype("int64")]
    stats = {"runs": 0, "quanta": 0}
    pending = []

    def one(memo0, progs, coarse, family):
        count = [0]

        def f(dt):
            count[0] += 1
            return ("kernel", dt.name)

        g = _memoize_dtype(f)
        code = g.__code__
        for k in memo0:
            g(dts[k])
        base = count[0]
        pol = Explicit(coarse)
        coop = Coop(len(progs), pol, lambda c: c is code, lambda fr: (lines[fr.f_lineno],) if fr.f_lineno in lines else None, 20.0)
        try:
            outs = coop.run([[(lambda k=k: g(dts[k])) for k in p] for p in progs])
        except SchedulerTimeout as e:
            ctx.broke("infrastructure:scheduler", str(e))
            return []
        sched = [t for t, _ in coop.quanta]
        fine = [t for t, info in coop.quanta if info[0] in ("key", "if", "get", "compute", "store")]
        case = {"memo0": memo0, "progs": progs, "schedule": sched, "fine": fine, "threads": len(progs), "cached": False}
        stats["runs"] += 1
        stats["quanta"] += len(sched)
        real = [[("ok" if (tag == "ok" and v == ("kernel", dts[k].name)) else f"{tag}:{v!r}") for k, (tag, v) in zip(p, o)] for p, o in zip(progs, outs)]
        pending.append({"family": family, "case": case, "real": real, "computes": count[0] - base, "req": ["c13_memo_run", memo0, progs, fine]})
        return pol.trace

    def flush():
        for p, out in zip(pending, ctx.driver.run([q["req"] for q in pending])):
            case, real = p["case"], p["real"]
            sched, progs = case["schedule"], case["progs"]
            ctx.case(p["family"], case, nontrivial=len(set(sched)) > 1)
            if "ok" not in out:
                ctx.fail("A", "model:memo-schedule", case, f"driver: {out}")
                continue
            m = out["ok"]
            model = [["ok" if (r[1][0] == "ok" and r[1][1] == r[0]) else "bad" for r in th] for th in m["rets"]]
            computes_model = len(m["memo"]) - len(case["memo0"])
            if real != model or p["computes"] != computes_model or not m["done"]:
                ctx.fail("A", "model:memo-schedule", case,
                         f"implementation calls={real} computations={p['computes']}; model calls={model} computations={computes_model} done={m['done']}")
            for ti, row in enumerate(real):
                for ci, r in enumerate(row):
                    if r != "ok":
                        detail = f"memoised call {dts[progs[ti][ci]]} in thread {ti} under schedule {sched}: {r}"
                        ctx.fail("C", "memo-schedule", case, detail, finding=findings.classify(PID, "memo-schedule", case, detail))
        pending.clear()

    budget = 1500 if ctx.quick else 20000
    for cname, memo0, progs in (("same-key", [], [[0], [0]]), ("two-keys", [], [[0], [1]]), ("hit-vs-miss", [0], [[0], [1]]),
                                ("hit-hit", [0], [[0], [0]])):
        runs, complete = explore_all(lambda prefix: one(memo0, progs, prefix, f"A:memo:{cname}"), budget)
        ctx.notes.setdefault("exhaustive_configurations", {})[f"memo:{cname}"] = {"interleavings": runs, "complete": complete}
    for j in range(100 if ctx.quick else 3000):
        nth = int(rng.choice([2, 3, 4]))
        memo0 = [int(v) for v in rng.choice(4, size=int(rng.integers(0, 3)), replace=False)]
        progs = [[int(rng.integers(4)) for _ in range(int(rng.integers(1, 4)))] for _ in range(nth)]
        one(memo0, progs, [int(v) for v in rng.integers(nth, size=int(rng.integers(5, 50)))], "A:memo:sampled")
    flush()
    ctx.notes["memo_exploration"] = stats


# ------------------------------------------------------------------------------------------------
# stress: whole operations on shared operands
# ------------------------------------------------------------------------------------------------

def make_world(seed):
    """shared operands and a list of named read-only calls on them (deterministic from the seed)"""
    import sparse

    rng = gen.rng_for(seed, "C13-world")
    dA = gen.dense(rng, (4, 5), 0, density=0.6)
    dB = gen.dense(rng, (5, 3), 0, density=0.6)
    dC = gen.dense(rng, (2, 3, 4), 0, density=0.6)
    dF = gen.dense(rng, (4, 5), 0, density=0.5).astype(np.float64) / 2
    dF[0, 0] = 0.0
    A, A2, B = sparse.COO.from_numpy(dA), sparse.COO.from_numpy(dA.T.copy().T + 1), sparse.COO.from_numpy(dB)
    C = sparse.COO.from_numpy(dC)
    Cc = sparse.COO.from_numpy(dC)
    Cc.enable_caching()
    Ac = sparse.COO.from_numpy(dA)
    Ac.enable_caching()
    G = sparse.GCXS.from_numpy(dA, compressed_axes=(0,))
    G3 = sparse.GCXS.from_numpy(dC, compressed_axes=(1,))
    Dn = dB.astype(np.float64)
    # a DOK that really holds explicitly stored fill values (only a conversion from an array that stores them produces one), a plain DOK,
    # a GCXS with stored fill values, an operand with a NaN
    stz = (dF != 0) | (rng.random(size=dF.shape) < 0.3)
    stz[0, 0] = True
    dF[0, 0] = 0.0
    Cz = sparse.COO(np.argwhere(stz).T.copy(), dF[stz], shape=dF.shape, prune=False, sorted=True, has_duplicates=False)
    Ds, Dp, Gz = sparse.DOK.from_coo(Cz), sparse.DOK.from_numpy(dA), sparse.GCXS.from_coo(Cz, compressed_axes=(1,))
    dN = dB.astype(np.float64)
    dN[1, 1] = np.nan
    N = sparse.COO.from_numpy(dN)
    F = sparse.COO.from_numpy(dF)
    ops = {"A": A, "A2": A2, "B": B, "C": C, "Cc": Cc, "Ac": Ac, "F": F, "G": G, "G3": G3, "Dn": Dn, "Ds": Ds, "Dp": Dp, "Gz": Gz, "Cz": Cz, "N": N}
    perms = [(1, 0, 2), (2, 1, 0), (0, 2, 1), (1, 2, 0), (2, 0, 1)]
    shapes = [(6, 4), (2, 12), (24,), (4, 6), (3, 8)]
    calls = [
        ("elemwise:add", lambda o: o["A"] + o["A2"]),
        ("elemwise:mul-scalar", lambda o: o["A"] * 3),
        ("elemwise:sin", lambda o: np.sin(o["F"])),
        ("elemwise:cmp", lambda o: o["A"] > o["A2"]),
        ("elemwise:gcxs", lambda o: o["G"] * o["G"]),
        ("elemwise:bcast", lambda o: o["C"] + o["C"][:, :1, :]),
        ("elemwise:cached", lambda o: o["Cc"] * o["C"]),
        ("index:slice", lambda o: o["A"][1:, ::-1]),
        ("index:int", lambda o: o["Cc"][1]),
        ("index:fancy", lambda o: o["C"][:, [2, 0], 1:3]),
        ("index:gcxs", lambda o: o["G3"][1, :, ::2]),
        ("reduce:sum", lambda o: o["A"].sum(axis=0)),
        ("reduce:max-cached", lambda o: o["Cc"].max(axis=(0, 2))),
        ("reduce:mean", lambda o: o["F"].mean(axis=1)),
        ("reduce:gcxs", lambda o: o["G3"].sum(axis=1)),
        ("dot:coo", lambda o: o["A"] @ o["B"]),
        ("dot:cached", lambda o: o["Ac"].dot(o["B"])),
        ("dot:ndarray", lambda o: o["A"] @ o["Dn"]),
        ("dot:gcxs", lambda o: o["G"] @ o["Dn"]),
        ("dot:tensordot-cached", lambda o: sparse.tensordot(o["Cc"], o["C"], axes=([2, 0], [2, 0]))),
        ("dot:tensordot-cached2", lambda o: sparse.tensordot(o["Cc"], o["Cc"], axes=([1], [1]))),
        ("convert:gcxs", lambda o: o["A"].asformat("gcxs")),
        ("convert:tocoo", lambda o: o["G3"].tocoo()),
        ("convert:todense", lambda o: o["Cc"].todense()),
        ("convert:tocsr-cached", lambda o: o["Ac"].tocsr()),
        ("convert:tocsc-cached", lambda o: o["Ac"].tocsc()),
        ("convert:chain", lambda o: o["Cc"].transpose((2, 0, 1)).reshape((4, 6)).tocsr()),
        ("shape:T-cached", lambda o: o["Ac"].T),
        ("shape:concat", lambda o: sparse.concatenate([o["A"], o["A2"]], axis=1)),
        ("shape:roll", lambda o: sparse.roll(o["C"], 2, axis=1)),
        # reads of shared DOK arrays (conversions, indexing, element-wise, reshape: all through DOK.asformat / the dictionary)
        ("dok:todense", lambda o: o["Ds"].todense()),
        ("dok:asformat-coo", lambda o: o["Ds"].asformat("coo")),
        ("dok:asformat-gcxs", lambda o: o["Ds"].asformat("gcxs")),
        ("dok:getitem", lambda o: o["Ds"][1:, ::2]),
        ("dok:fancy-getitem", lambda o: o["Ds"][[0, 3, 1], [0, 4, 1]]),
        ("dok:add", lambda o: o["Ds"] + o["Ds"]),
        ("dok:sum", lambda o: o["Ds"].to_coo().sum(axis=0)),
        ("dok:reshape", lambda o: o["Ds"].reshape((5, 4))),
        ("dok:plain-todense", lambda o: o["Dp"].todense()),
        ("dok:plain-mul", lambda o: o["Dp"] * 2),
        ("dok:mixed", lambda o: o["Dp"] + o["A"]),
        # GCXS / COO operands with explicitly stored fill values
        ("gcxs:stored-fill-sum", lambda o: o["Gz"].sum(axis=0)),
        ("gcxs:stored-fill-change-axes", lambda o: o["Gz"].change_compressed_axes((0,))),
        ("gcxs:change-axes", lambda o: o["G3"].change_compressed_axes((2,))),
        ("coo:stored-fill-reshape", lambda o: o["Cz"].reshape((5, 4))),
        # calls that merely WARN when run alone: their result has a non-finite fill value / an operand holds a NaN
        ("warn:reciprocal", lambda o: 1.0 / o["F"]),
        ("warn:log", lambda o: np.log(o["F"])),
        ("warn:self-divide", lambda o: o["G"] / o["G"]),
        ("warn:matmul-nan", lambda o: sparse.matmul(o["A"], o["N"])),
    ]
    calls += [(f"transpose:cached{p}", (lambda o, p=p: o["Cc"].transpose(p))) for p in perms]
    calls += [(f"reshape:cached{s}", (lambda o, s=s: o["Cc"].reshape(s))) for s in shapes]
    calls += [(f"transpose:plain{p}", (lambda o, p=p: o["C"].transpose(p))) for p in perms[:2]]
    return ops, calls


def raw13(thunk):
    """what a worker thread does with a call: run it, keep the result or the exception.  Nothing else — in particular no
    warnings.catch_warnings() and no np.errstate(): the harness's threads must not edit the process-global filter list themselves, and
    NumPy must be allowed to emit its warnings (the MAIN thread installs one "ignore" filter around the whole concurrent phase)"""
    try:
        return ("ok", thunk())
    except Exception as e:  # noqa: BLE001
        return ("err", e)


NEW_CALLS = ("dok:", "gcxs:", "coo:stored", "warn:")


def outcome13(raw):
    """comparable form (type, shape, dtype, fill value, every element / the exception with its message), computed by the main thread"""
    import c13_shared

    return c13_shared.canon(*raw)


def baseline_of(seed):
    """sequential outcomes on a private copy of the world"""
    ops, calls = make_world(seed)
    with warnings.catch_warnings():
        warnings.simplefilter("ignore")
        return {name: outcome13(raw13(lambda f=f: f(ops))) for name, f in calls}


def stress_traced(ctx, rng, mode):
    from c11 import diff_snap, snapshot

    baseline_of(ctx.seed)
    base = baseline_of(ctx.seed)  # (the first pass compiles every kernel the calls need)
    n_new = 16 if ctx.quick else 400
    n_sched = (60 if ctx.quick else 1500) + n_new
    stats = {"schedules": 0, "quanta": 0, "calls": 0, "switches": 0, "deadline_s": 0.0}

    def wanted(code):
        return code.co_filename.startswith(SPARSE_DIR)

    def classify(frame):
        return ("line", frame.f_lineno)

    est = 4000
    t0 = time.time()
    for j in range(n_sched):
        if time.time() - t0 > (90 if ctx.quick else 3000):  # safety net only: the count is fixed so that runs are reproducible
            stats["cut_short_after"] = j
            break
        ops, calls = make_world(ctx.seed)
        snaps = {k: snapshot(v) for k, v in ops.items()}
        nth = int(rng.choice([2, 2, 3, 4, 6, 8, 12, 16]))
        per = 1 if nth > 8 else int(rng.integers(1, 4))
        first_gen = [c for c in calls if not c[0].startswith(NEW_CALLS)]
        if j >= n_sched - n_new:  # the last schedules: DOK / stored-fill / warning calls, mixed with conversions and shape calls that edit the filters
            pool = [c for c in calls if c[0].startswith(NEW_CALLS + ("convert:gcxs", "convert:tocoo", "shape:concat", "index:gcxs", "reshape:cached"))]
        elif rng.random() < 0.5:  # a cache-heavy mix
            pool = [c for c in calls if c[0].startswith(("transpose:cached", "reshape:cached", "dot:tensordot", "convert:chain"))]
        else:
            pool = first_gen
        progs = [[pool[int(rng.integers(len(pool)))] for _ in range(per)] for _ in range(nth)]
        if rng.random() < 0.6:
            pol, pname = PCT(rng, nth, int(rng.integers(2, 6)), est), "pct"
        else:
            pol, pname = RandomWalk(rng, float(rng.choice([0.05, 0.2, 0.5]))), "random-walk"
        coop = Coop(nth, pol, wanted, classify, 60.0)
        case = {"cached": True, "threads": nth, "policy": pname, "progs": [[c[0] for c in p] for p in progs], "schedule_no": j}
        try:
            with warnings.catch_warnings():
                warnings.simplefilter("ignore")
                outs = coop.run([[(lambda f=f: raw13(lambda: f(ops))) for _, f in p] for p in progs])
                outs = [[(tag, outcome13(got) if tag == "ok" else got) for tag, got in o] for o in outs]
        except SchedulerTimeout as e:
            ctx.broke("infrastructure:scheduler", str(e))
            return
        sched = [t for t, _ in coop.quanta]
        est = max(200, len(sched))
        stats["schedules"] += 1
        stats["quanta"] += len(sched)
        stats["switches"] += sum(1 for a, b in zip(sched, sched[1:]) if a != b)
        ctx.case(f"C:stress-traced:{pname}", case, nontrivial=stats["switches"] > 0)
        for ti, (p, o) in enumerate(zip(progs, outs)):
            for (name, _), (tag, got) in zip(p, o):
                stats["calls"] += 1
                if tag != "ok":
                    got = ("err", "harness:" + type(got).__name__)
                if got != base[name]:  # (tag is raw13's own tag: the call's exception, if any, is inside `got`)
                    detail = f"thread {ti} call {name}: concurrently {_short(got)}; alone {_short(base[name])}"
                    c2 = dict(case, call=name, deterministic=True, mode=mode)
                    ctx.fail("C", "stress", c2, detail, finding=findings.classify(PID, "stress", c2, detail))
        for k, v in ops.items():
            msg = diff_snap(snaps[k], snapshot(v))
            if msg:
                ctx.fail("C", "stress-operands", case, f"shared operand {k} changed: {msg}")
    ctx.notes["stress_traced"] = stats


def _short(o):
    return repr(tuple(v if not isinstance(v, bytes) else f"<{len(v)} bytes #{hash(v) & 0xffff:x}>" for v in o))[:160] if isinstance(o, tuple) else repr(o)[:160]


def child_main(seed, quick):
    """free-running threads in a fresh process; prints one JSON line"""
    sys.path.insert(0, str(Path(__file__).resolve().parent))
    from c11 import diff_snap, snapshot

    warnings.simplefilter("ignore")  # once, by the main thread, before any worker exists
    rng = gen.rng_for(seed, "C13-free")
    sys.setswitchinterval(1e-5)
    rounds = 6 if quick else 150
    fails, ncalls, nth_used = [], 0, []
    first = True
    for r in range(rounds):
        ops, calls = make_world(seed)
        snaps = {k: snapshot(v) for k, v in ops.items()}
        nth = int(rng.choice([2, 4, 8, 16])) if not first else 8
        per = int(rng.integers(2, 6))
        pool = calls if rng.random() < 0.5 or first else [c for c in calls if "cached" in c[0] or c[0].startswith(("transpose", "reshape", "dot"))]
        progs = [[pool[int(rng.integers(len(pool)))] for _ in range(per)] for _ in range(nth)]
        if first:  # every thread starts with the same not-yet-compiled kernels
            progs = [[calls[15 + (i % 5)], calls[0], calls[11]] + p for i, p in enumerate(progs)]
        outs = [[] for _ in range(nth)]
        bar = threading.Barrier(nth)

        def work(i):
            bar.wait()
            for name, f in progs[i]:
                outs[i].append((name, raw13(lambda f=f: f(ops))))

        ths = [threading.Thread(target=work, args=(i,), daemon=True) for i in range(nth)]
        for t in ths:
            t.start()
        for t in ths:
            t.join(timeout=100)
        if any(t.is_alive() for t in ths):
            print(json.dumps({"infra": "threads did not finish"}))
            return 0
        base = baseline_of(seed)
        first = False
        nth_used.append(nth)
        for i, o in enumerate(outs):
            for name, got in o:
                ncalls += 1
                got = outcome13(got)
                if got != base[name]:
                    fails.append({"round": r, "threads": nth, "thread": i, "call": name, "got": _short(got), "alone": _short(base[name])})
        for k, v in ops.items():
            msg = diff_snap(snaps[k], snapshot(v))
            if msg:
                fails.append({"round": r, "threads": nth, "operand": k, "changed": msg})
    print(json.dumps({"rounds": rounds, "calls": ncalls, "threads": nth_used, "failures": fails[:50], "n_failures": len(fails)}))
    return 0


def start_free(ctx):
    """launch the free-running stress in a fresh interpreter (it runs while the traced legs do)"""
    env = dict(os.environ)
    env.setdefault("NUMBA_CACHE_DIR", "/var/tmp/verif-numba-cache")
    return time.time(), subprocess.Popen([sys.executable, str(Path(__file__).resolve()), "--child", str(ctx.seed), "1" if ctx.quick else "0"],
                                         stdout=subprocess.PIPE, stderr=subprocess.PIPE, text=True, env=env)


def collect_free(ctx, started, mode, witness_reproduced):
    t0, proc = started
    try:
        out, err = proc.communicate(timeout=max(30.0, (240 if ctx.quick else 3000) - (time.time() - t0)))
    except subprocess.TimeoutExpired:
        proc.kill()
        proc.communicate()
        ctx.broke("infrastructure:free-stress", "subprocess deadline exceeded")
        return
    try:
        res = json.loads(out.strip().splitlines()[-1])
    except Exception:  # noqa: BLE001
        ctx.broke("infrastructure:free-stress", f"child rc={proc.returncode}: {err[-400:]}")
        return
    if "infra" in res:
        ctx.broke("infrastructure:free-stress", res["infra"])
        return
    ctx.notes["stress_free"] = {k: res[k] for k in ("rounds", "calls", "threads", "n_failures")} | {"wall_s": round(time.time() - t0, 1)}
    ctx.count("free_running_calls", res["calls"])
    known = 0
    for f in res["failures"]:
        case = {"cached": True, "threads": f.get("threads", 2), "deterministic": False, "mode": mode, "witness_reproduced": witness_reproduced, **f}
        detail = f"free-running threads: {f}"
        fid = findings.classify(PID, "stress-free", case, detail)
        if fid:
            known += 1  # uncontrolled preemption: recorded, not counted (the KNOWN-FINDING count stays a function of the seed)
        else:
            ctx.fail("C", "stress-free", case, detail)
    ctx.notes["stress_free"]["hits_of_known_finding"] = known


# ------------------------------------------------------------------------------------------------

def run(ctx):
    ctx.trusted = TRUSTED
    ctx.assumptions = [
        "PARTIAL CLAIM: the theorems are about the transition systems of Model/Interleave.lean; that each model step is atomic under the GIL is assumed, "
        "data races inside nogil numba kernels are not modelled, free-threaded CPython is out of scope",
        "the deques self._cache['transpose'|'reshape'] exist before the concurrent phase (their first-access creation through defaultdict.__missing__ "
        "can orphan a deque when two threads race; values stay correct; exercised by the stress legs only)",
        "scheduling points of the traced scheduler are source lines: a real CPython 3.12 thread switch happens at a subset of them (calls, backward jumps)",
        "leg C3 (free-running threads) is uncontrolled and therefore only supportive",
        "the process starts with a warnings filter list without harmful entries (Python's default): an entry is harmful iff its action is 'error' and it has no message or "
        "matches a warning of the catalogue; a transient or lasting 'ignore' entry (can_store, density, html_table) can only make another thread lose a warning and is recorded, not reported",
        "quick tier: the sentinel worker stops starting cases when its 40 s budget is spent (coverage then depends on the machine's load; every reported failure was observed)",
    ]
    import c13_shared

    core.prove(ctx, PID, uses=["sharedState"])
    rng = gen.rng_for(ctx.seed, PID)
    sentinels = c13_shared.start_sentinels(ctx)
    free = start_free(ctx)
    tl = ctx.notes.setdefault("timeline_s", {"proved": round(time.time() - ctx.t0, 1)})

    def timed(name, f, *a):
        t = time.time()
        r = f(*a)
        tl[name] = round(time.time() - t, 1)
        return r

    try:
        mode = timed("cache", leg_cache, ctx, rng)
        timed("memo", leg_memo, ctx, rng)
        harm = c13_shared.Harm(ctx)
        timed("models", c13_shared.leg_models, ctx, gen.rng_for(ctx.seed, "C13-models"), harm)  # (own stream: the stress schedules stay what they were)
        if mode is not None:
            timed("stress_traced", stress_traced, ctx, rng, mode)
        timed("preempt", c13_shared.preempt_leg, ctx, harm)
    except BaseException:
        free[1].kill()
        for _, pr in sentinels[1]:
            pr.kill()
        raise
    witness = any(f.get("finding") == "F-cache-iter" and f["family"] == "cache-schedule" for f in ctx.failures)
    timed("wait_free", collect_free, ctx, free, mode or "live", witness)
    timed("wait_sentinel", c13_shared.collect_sentinels, ctx, sentinels)
    ce, me = ctx.notes.get("cache_exploration", {}), ctx.notes.get("memo_exploration", {})
    de, fe = ctx.notes.get("dict_exploration", {}), ctx.notes.get("filter_exploration", {})
    ctx.cov["transitions"] = ce.get("fine_steps", 0) + me.get("quanta", 0) + de.get("quanta", 0) + fe.get("quanta", 0)
    ctx.cov["traces_validated_against_impl"] = ce.get("runs", 0) + me.get("runs", 0) + de.get("runs", 0) + fe.get("runs", 0)
    ctx.cov["rule"] = (
        "A:cache:<method>:<config> = one complete interleaving of 2 threads around the lookup loop of COO.transpose / COO.reshape on a shared "
        "cache-enabled array (all interleavings enumerated depth-first for the configurations empty / one-entry / hit / same-key / both-hit; "
        "`sampled` = random schedules for 2-4 threads, 0-3 initial entries, 1-2 calls per thread), replayed on the real code by the traced "
        "scheduler and on the Lean model, compared per quantum; A:memo:* likewise for _memoize_dtype.wrapped; C:stress-traced = one PCT or "
        "random-walk schedule over every executed line of sparse/ for 2-16 threads x 1-3 whole operations on shared operands vs the sequential "
        "baseline; non-trivial = the schedule actually switches between threads; distinct by content hash (configuration + schedule); "
        "A:dict:<config> / A:filters:<config> = one complete interleaving of DOK.todense / asformat / __setitem__ at the lines touching self.data, resp. of can_store "
        "blocks and a warning call at the lines of the with-block, on the real code and on the model; C:sentinel:<table>:<operation>:<format> = one read operation run "
        "alone under instrumentation (non-trivial = an operand has an element); C:preempt:<kinds> = one schedule `thread 0 for k quanta, thread 1 to the end, thread 0 to "
        "the end` (or the non-nested four-phase order) on the shared world, every executed line of sparse/ a scheduling point")


def replay(ctx, path):
    """explored schedules, PCT and random-walk schedules are functions of (seed, tier): re-run the check under the recorded ones
    (a cache / memo schedule failure also carries its configuration and schedule in full: it is re-run first, alone)"""
    rep = json.loads(open(path).read())
    f = rep.get("failure") or (rep.get("correspondence_failures") or [None])[0]
    print(json.dumps(f or rep, indent=1, default=str)[:3000], file=sys.stderr)
    if f and f.get("family") in ("cache-schedule", "model:cache-schedule") and isinstance(f.get("case"), dict) and f["case"].get("schedule"):
        c = f["case"]
        rig = CacheRig(cache_sites())
        coop, outs, keys, vals_ok = rig.run(c["dq0"], c["progs"], Explicit(c["schedule"]))
        print("replayed schedule:", describe(outs, rig, c["progs"]), "deque", keys, "values_ok", vals_ok, file=sys.stderr)
    if f and f.get("family") == "preempt" and isinstance(f.get("case"), dict) and f["case"].get("phases"):
        # a preemption schedule on the shared world: (thread, quanta) phases over every executed line of sparse/ — re-run alone first
        import c13_shared

        c = f["case"]
        with warnings.catch_warnings():
            warnings.simplefilter("ignore")
            r = c13_shared.run_shared(int(rep.get("seed", ctx.seed)), [p[0] for p in c["progs"]], [tuple(ph) for ph in c["phases"]], post=c.get("post"))
        print("replayed preemption schedule:", [c13_shared.short(o) for o in r["outs"]], "storage changes", r["storage"], "global changes", r["global"],
              "post", r["post"] and c13_shared.short(r["post"]), file=sys.stderr)
    ctx.seed, ctx.tier = int(rep.get("seed", ctx.seed)), rep.get("tier", ctx.tier)
    ctx.quick = ctx.tier == "quick"
    run(ctx)
    return core.finish(ctx)


if __name__ == "__main__":
    if len(sys.argv) >= 4 and sys.argv[1] == "--child":
        sys.path.insert(0, str(Path(__file__).resolve().parent))
        os.environ.setdefault("PYTHONHASHSEED", "0")
        sys.exit(child_main(int(sys.argv[2]), sys.argv[3] == "1"))

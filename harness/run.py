"""Entry point of every check:  ./check C08 --tier quick"""
from __future__ import annotations

import argparse
import importlib
import os
import sys
import traceback
from pathlib import Path

sys.path.insert(0, str(Path(__file__).resolve().parent))
os.environ.setdefault("NUMBA_CACHE_DIR", "/var/tmp/verif-numba-cache")
os.environ.setdefault("PYTHONHASHSEED", "0")

import core  # noqa: E402


def main():
    ap = argparse.ArgumentParser()
    ap.add_argument("pid")
    ap.add_argument("--tier", default=os.environ.get("VERIF_TIER", "quick"), choices=["quick", "thorough"])
    ap.add_argument("--replay", default=None)
    args = ap.parse_args()
    seed = int(os.environ.get("VERIF_SEED", "0") or 0)
    pid = args.pid.upper()
    ctx = core.Ctx(pid, args.tier, seed)
    try:
        mod = importlib.import_module(pid.lower())
    except ModuleNotFoundError:
        print(f"no check for {pid}", file=sys.stderr)
        return 2
    try:
        if args.replay:
            if hasattr(mod, "replay"):
                return mod.replay(ctx, args.replay)
            # generic replay: every run is a deterministic function of (tier, seed); re-run with the recorded pair
            import json
            rp = Path(args.replay)
            if not rp.is_absolute():
                rp = core.ROOT / rp
            rec = json.loads(rp.read_text())
            ctx = core.Ctx(pid, rec.get("tier", args.tier), int(rec.get("seed", seed)))
        try:
            mod.run(ctx)
        except Exception as e:  # noqa: BLE001
            # The harness itself could not complete against this tree.  Where the frames show the library raising, that is an
            # observation about the library (a constructor or helper the harness relies on now fails on input it used to accept):
            # the property is no longer shown to hold, so it is reported as such with the traceback as the replay.  A harness bug
            # (no library frame in the traceback) stays a crash: exit 2.
            tb = traceback.format_exc()
            repo = str(core.REPO)
            in_library = any(repo in line and "/sparse/" in line for line in tb.splitlines())
            traceback.print_exc()
            if not in_library:
                return 2
            ctx.fail("A", "harness-could-not-complete", {"exception": type(e).__name__, "message": str(e)[:300]},
                     "the check could not be completed against this tree; the library raised inside a step the harness relies on:\n" + tb[-1800:])
        return core.finish(ctx)
    except Exception:
        traceback.print_exc()
        return 2


if __name__ == "__main__":
    sys.exit(main())

"""Entry point of every check:  ./check C08 --tier quick"""
from __future__ import annotations

import argparse
import importlib
import os
import sys
import traceback
from pathlib import Path

sys.path.insert(0, str(Path(__file__).resolve().parent))
os.environ.setdefault("NUMBA_CACHE_DIR", "/var/tmp/verif-numba-cache")
os.environ.setdefault("PYTHONHASHSEED", "0")

import core  # noqa: E402


def main():
    ap = argparse.ArgumentParser()
    ap.add_argument("pid")
    ap.add_argument("--tier", default=os.environ.get("VERIF_TIER", "quick"), choices=["quick", "thorough"])
    ap.add_argument("--replay", default=None)
    args = ap.parse_args()
    seed = int(os.environ.get("VERIF_SEED", "0") or 0)
    pid = args.pid.upper()
    ctx = core.Ctx(pid, args.tier, seed)
    try:
        mod = importlib.import_module(pid.lower())
    except ModuleNotFoundError:
        print(f"no check for {pid}", file=sys.stderr)
        return 2
    try:
        if args.replay:
            if hasattr(mod, "replay"):
                return mod.replay(ctx, args.replay)
            # generic replay: every run is a deterministic function of (tier, seed); re-run with the recorded pair
            import json
            rp = Path(args.replay)
            if not rp.is_absolute():
                rp = core.ROOT / rp
            rec = json.loads(rp.read_text())
            ctx = core.Ctx(pid, rec.get("tier", args.tier), int(rec.get("seed", seed)))
        mod.run(ctx)
        return core.finish(ctx)
    except Exception:
        traceback.print_exc()
        return 2


if __name__ == "__main__":
    sys.exit(main())

"""Regions of the known findings of C04.  classify(name, case, msg) -> finding id | None.

A region is a predicate on the case (operand kinds and shapes, the kernel(s) the implementation was
observed to call, the 2-d problem `_dot` is handed) and on the observed failure.  It mirrors the
decidable `Excluded…` predicate / counterexample of lean/SparseV/Props/C04.lean:

  F-coo-nd-zero-cols-hang   ExcludedCooNdZeroCols: `_dot_coo_ndarray(_sparse)` with 0 output columns and nnz > 0
  F-csr-csr-zero-cols       csr_csr_no_error_counterexample: `_dot_csr_csr` with kernel n_col == 0
  F-csc-nd-sparse-cancel    csc_nd_precount_counterexample: `_dot_csc_ndarray_sparse`, a column whose scattered sums cancel
  F-csr-csr-unsorted        rows_sorted_counterexample: rows of a `_dot_csr_csr` result in reverse first-touch order
  F-csc-nd-sparse-unsorted  csc_cols_sorted_counterexample: the same emission order in `_dot_csc_ndarray_sparse`
  F-matmul-1d-left          (wrapper logic, no Lean model) matmul of a 1-d left operand with a right operand of rank >= 3
  F-matmul-empty-batch      (wrapper logic, no Lean model) matmul batch recursion with a batch axis of extent 0
  F-tensordot-empty-return-type  (wrapper logic) tensordot's zero-size shortcut ignores return_type
  F-dot-1d-length-mismatch  (wrapper logic) dot of two 1-d operands of lengths 1 and n != 1 broadcasts instead of raising
  dtype-only (thorough tier; dtypes are outside the theorems):
  F-int32-sum-upcast        1-d dot and einsum reduce with ndarray.sum()/COO.sum(), which promote int32 to int64; NumPy keeps int32
  F-csc-nd-sparse-complex   `_dot_csc_ndarray_sparse` accumulates in a float64 array: numba TypingError for complex operands
  F-complex-negzero-mixed   `_utils.equivalent(loose=True)` drops `loose` for complex: 0j * negative dense value = -0 is "not the fill value"

`ACTIVE` is filled by harness/c04.py after replaying each finding's witness under the watchdog: a
finding whose witness no longer fails (the defect was repaired) classifies nothing.
"""
from __future__ import annotations

import numpy as np

ACTIVE: dict[str, bool] = {}

SPARSE_GCXS = ("gcxs", "scipy_csr", "scipy_csc", "scipy_coo", "scipy_csr_array")


def prod(xs):
    r = 1
    for x in xs:
        r *= int(x)
    return r


def kind(spec):
    f = spec["fmt"]
    if f == "nd":
        return "nd"
    if f == "coo":
        return "coo"
    return "gcxs"


def nnz(spec):
    return int(np.count_nonzero(np.array(spec["dense"]).reshape(spec["shape"])))


def route(case):
    """the 2-d problem (M, K, N) that `_dot` receives for dot / matmul / @ / tensordot, or None when no
    kernel is reached (1-d·1-d, 0-d, contraction over a zero-size extent, invalid axes, batch recursion of
    zero length)."""
    op = case.get("op")
    if op not in ("dot", "matmul", "@", "tensordot", "method_dot"):
        return None
    sa, sb = list(case["a"]["shape"]), list(case["b"]["shape"])
    na, nb = len(sa), len(sb)
    if na == 0 or nb == 0:
        return None
    if op == "tensordot":
        ax = case["axes"]
        if isinstance(ax, int):
            if ax > na or ax > nb or ax < 0:
                return None
            xa, xb = list(range(na - ax, na)), list(range(ax))
        else:
            xa, xb = ax
            xa = [xa] if isinstance(xa, int) else list(xa)
            xb = [xb] if isinstance(xb, int) else list(xb)
            if len(xa) != len(xb) or any(not -na <= x < na for x in xa) or any(not -nb <= x < nb for x in xb):
                return None
            xa, xb = [x % na for x in xa], [x % nb for x in xb]
        if any(sa[p] != sb[q] for p, q in zip(xa, xb)):
            return None
        k = prod(sa[p] for p in xa)
        m = prod(sa[p] for p in range(na) if p not in xa)
        n = prod(sb[q] for q in range(nb) if q not in xb)
        return None if k == 0 else (m, k, n)
    if na == 1 and nb == 1:
        return None
    if op in ("matmul", "@") and na > 2 and nb > 2:
        if sa[-1] != sb[-2]:
            return None
        k = sa[-1]
        if na <= nb and prod(sa[:-1]) == 1:   # dot(a.reshape(-1), b)
            return None if k == 0 else (1, k, prod(sb) // k)
        if nb <= na and prod(sb[:-2]) == 1:   # dot(a, b.reshape(b.shape[-2:]))
            return None if k == 0 else (prod(sa) // k, k, sb[-1])
        # batch recursion over 2-d slices; needs a non-empty batch
        if prod(sa[:-2]) == 0 or prod(sb[:-2]) == 0:
            return None
        return None if k == 0 else (sa[-2], k, sb[-1])
    # dot(a, b): contract a's last axis with b's second-to-last (or only) axis
    k = sa[-1]
    kb = sb[-1] if nb == 1 else sb[-2]
    if k != kb or k == 0:
        return None
    return (prod(sa) // k, k, prod(sb) // k)


def in_hang_region(case):
    """COO (left) times ndarray (right) where the dense operand contributes no output column and the COO
    operand stores something"""
    r = route(case)
    if r is None:
        return False
    return case["a"]["fmt"] == "coo" and case["b"]["fmt"] == "nd" and r[2] == 0 and nnz(case["a"]) > 0


def in_zero_cols_region(case):
    """both operands sparse, at least one GCXS / scipy (so `_dot_csr_csr` is used) and the 2-d result has a zero extent"""
    r = route(case)
    if r is None:
        return False
    ka, kb = kind(case["a"]), kind(case["b"])
    return ka != "nd" and kb != "nd" and "gcxs" in (ka, kb) and (r[0] == 0 or r[2] == 0)


def has_cancellation(case):
    """some output element of the 2-d product is 0 although a pair of non-zero factors meets in it"""
    r = route(case)
    if r is None or case.get("op") != "tensordot":
        return False
    a = np.array(case["a"]["dense"], dtype=np.int64).reshape(case["a"]["shape"])
    b = np.array(case["b"]["dense"], dtype=np.int64).reshape(case["b"]["shape"])
    ax = case["axes"]
    full = np.tensordot(a, b, axes=ax if isinstance(ax, int) else (ax[0], ax[1]))
    pat = np.tensordot((a != 0).astype(np.int64), (b != 0).astype(np.int64), axes=ax if isinstance(ax, int) else (ax[0], ax[1]))
    return bool(((full == 0) & (pat != 0)).any())


def matmul_recursion_with_empty_batch(case):
    """matmul / @ of two operands of rank >= 3 that reaches `_matmul_recurser` with a batch axis of extent 0"""
    if case.get("op") not in ("matmul", "@"):
        return False
    sa, sb = list(case["a"]["shape"]), list(case["b"]["shape"])
    na, nb = len(sa), len(sb)
    if na <= 2 or nb <= 2 or sa[-1] != sb[-2]:
        return False
    if na <= nb and prod(sa[:-1]) == 1:
        return False
    if nb <= na and prod(sb[:-2]) == 1:
        return False
    ba, bb = [1] * (max(na, nb) - na) + sa[:-2], [1] * (max(na, nb) - nb) + sb[:-2]
    if any(i != 1 and j != 1 and i != j for i, j in zip(ba, bb)):
        return False
    return 0 in ba or 0 in bb


def tensordot_zero_size_shortcut(case):
    """tensordot whose contracted extent is 0 (the early `return res` before `_dot`) with a requested return type"""
    if case.get("op") != "tensordot" or case.get("rt", "none") == "none":
        return False
    sa, sb = list(case["a"]["shape"]), list(case["b"]["shape"])
    na, nb = len(sa), len(sb)
    if na == 0 or nb == 0:
        return False
    ax = case["axes"]
    if isinstance(ax, int):
        xa, xb = list(range(na - ax, na)), list(range(ax))
    else:
        xa, xb = ax
        xa = [xa] if isinstance(xa, int) else list(xa)
        xb = [xb] if isinstance(xb, int) else list(xb)
    try:
        return len(xa) == len(xb) and all(sa[p] == sb[q] for p, q in zip(xa, xb)) and prod(sa[p] for p in xa) == 0
    except IndexError:
        return False


def dtypes(case):
    return case["a"].get("dtype", "int64"), case["b"].get("dtype", "int64")


def classify(name, case, msg):
    kernels = set(case.get("_kernels") or [])
    da, db = dtypes(case)
    if ACTIVE.get("F-int32-sum-upcast") and msg == "dtype int64, numpy int32" and "int32" in (da, db) and (
            case.get("op") in ("einsum", "einsum1") or (case.get("op") in ("dot", "matmul", "@", "method_dot")
                                                        and len(case["a"]["shape"]) == 1 and len(case["b"]["shape"]) == 1)):
        return "F-int32-sum-upcast"
    if ACTIVE.get("F-csc-nd-sparse-complex") and kernels == {"csc_nd_sparse"} and "complex128" in (da, db) and msg.startswith("raised TypingError"):
        return "F-csc-nd-sparse-complex"
    if ACTIVE.get("F-complex-negzero-mixed") and "complex128" in (da, db) and "nd" in (case["a"]["fmt"], case["b"]["fmt"]) and (
            case.get("op") in ("outer", "einsum", "einsum1", "vecdot", "kron")
            and msg.startswith("raised ValueError: Performing a mixed sparse-dense operation")):
        nd = case["a"] if case["a"]["fmt"] == "nd" else case["b"]
        if (np.array(nd["dense"], dtype=float) < 0).any():
            return "F-complex-negzero-mixed"
    if ACTIVE.get("F-matmul-1d-left") and case.get("op") in ("matmul", "@") and len(case["a"]["shape"]) == 1 and len(case["b"]["shape"]) >= 3 and (
            msg.startswith("shape ") or msg.startswith("values differ")):
        return "F-matmul-1d-left"
    if ACTIVE.get("F-matmul-empty-batch") and matmul_recursion_with_empty_batch(case) and (
            msg.startswith("raised IndexError: ") or msg.startswith("raised ValueError: At least one array required")):
        return "F-matmul-empty-batch"
    if ACTIVE.get("F-dot-1d-length-mismatch") and case.get("op") in ("dot", "matmul", "@", "method_dot") and (
            len(case["a"]["shape"]) == 1 and len(case["b"]["shape"]) == 1 and case["a"]["shape"] != case["b"]["shape"]
            and 1 in (case["a"]["shape"][0], case["b"]["shape"][0]) and msg.startswith("numpy raises ValueError but the call returned")):
        return "F-dot-1d-length-mismatch"
    if ACTIVE.get("F-tensordot-empty-return-type") and tensordot_zero_size_shortcut(case) and msg.startswith("return_type "):
        return "F-tensordot-empty-return-type"
    if msg.startswith("hang") and ACTIVE.get("F-coo-nd-zero-cols-hang") and in_hang_region(case):
        return "F-coo-nd-zero-cols-hang"
    if "ZeroDivisionError" in msg and ACTIVE.get("F-csr-csr-zero-cols") and in_zero_cols_region(case) and (
            not kernels or kernels == {"csr_csr"}):
        return "F-csr-csr-zero-cols"
    if ACTIVE.get("F-csc-nd-sparse-cancel") and "csc_nd_sparse" in kernels and case.get("rt") in ("coo", "gcxs") and has_cancellation(case) and (
            msg.startswith("values differ") or msg.startswith("result not canonical") or msg.startswith("result stores")
            or msg.startswith("raised") or msg.startswith("crash")):
        return "F-csc-nd-sparse-cancel"
    if ACTIVE.get("F-csr-csr-unsorted") and kernels == {"csr_csr"} and msg.startswith("result not canonical: row") and "not strictly increasing" in msg:
        return "F-csr-csr-unsorted"
    if ACTIVE.get("F-csc-nd-sparse-unsorted") and kernels == {"csc_nd_sparse"} and case.get("rt") == "gcxs" and (
            msg.startswith("result not canonical: row") and "not strictly increasing" in msg):
        return "F-csc-nd-sparse-unsorted"
    return None

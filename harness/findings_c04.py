"""Regions of the known findings of C04.  classify(name, case, msg) -> finding id | None.

The twelve findings of the first round (hang of `_dot_coo_ndarray*` for 0 columns, ZeroDivisionError and
unsorted rows of `_dot_csr_csr`, cancellation / unsorted columns / float64 accumulator of
`_dot_csc_ndarray_sparse`, matmul with a 1-d left operand, matmul with an empty batch axis, tensordot's
zero-size shortcut ignoring return_type, 1-d dot broadcasting, int32 promotion, complex `equivalent`) are
repaired in /repo (`fixed:` lines in KNOWN_FINDINGS.txt); they classify nothing any more.  Their witnesses
stay in the corpus of harness/c04.py and are replayed under the watchdog on every run (`ACTIVE`): the
kernel models in Lean are faithful to the *unrepaired* kernels, so the replay decides whether leg A
compares a region with the model or with the specification, and a regression shows up as an ordinary
VIOLATION.  `route` / `in_hang_region` are kept because a call in the hang region must be scheduled in a
process of its own whenever the hang witness fails again.

Open findings: none (F-einsum-broadcast-one, einsum rejecting an extent of 1 meeting a larger extent under
the same label, is repaired by /repo 46d43d3).
"""
from __future__ import annotations

import numpy as np

ACTIVE: dict[str, bool] = {}

SPARSE_GCXS = ("gcxs", "scipy_csr", "scipy_csc", "scipy_coo", "scipy_csr_array")


def prod(xs):
    r = 1
    for x in xs:
        r *= int(x)
    return r


def kind(spec):
    f = spec["fmt"]
    if f == "nd":
        return "nd"
    if f == "coo":
        return "coo"
    return "gcxs"


def nnz(spec):
    return int(np.count_nonzero(np.array(spec["dense"]).reshape(spec["shape"])))


def route(case):
    """the 2-d problem (M, K, N) that `_dot` receives for dot / matmul / @ / tensordot, or None when no
    kernel is reached (1-d·1-d, 0-d, contraction over a zero-size extent, invalid axes, batch recursion of
    zero length)."""
    op = case.get("op")
    if op not in ("dot", "matmul", "@", "tensordot", "method_dot"):
        return None
    sa, sb = list(case["a"]["shape"]), list(case["b"]["shape"])
    na, nb = len(sa), len(sb)
    if na == 0 or nb == 0:
        return None
    if op == "tensordot":
        ax = case["axes"]
        if isinstance(ax, int):
            if ax > na or ax > nb or ax < 0:
                return None
            xa, xb = list(range(na - ax, na)), list(range(ax))
        else:
            xa, xb = ax
            xa = [xa] if isinstance(xa, int) else list(xa)
            xb = [xb] if isinstance(xb, int) else list(xb)
            if len(xa) != len(xb) or any(not -na <= x < na for x in xa) or any(not -nb <= x < nb for x in xb):
                return None
            xa, xb = [x % na for x in xa], [x % nb for x in xb]
        if any(sa[p] != sb[q] for p, q in zip(xa, xb)):
            return None
        k = prod(sa[p] for p in xa)
        m = prod(sa[p] for p in range(na) if p not in xa)
        n = prod(sb[q] for q in range(nb) if q not in xb)
        return None if k == 0 else (m, k, n)
    if na == 1 and nb == 1:
        return None
    if op in ("matmul", "@") and na > 2 and nb > 2:
        if sa[-1] != sb[-2]:
            return None
        k = sa[-1]
        if na <= nb and prod(sa[:-1]) == 1:   # dot(a.reshape(-1), b)
            return None if k == 0 else (1, k, prod(sb) // k)
        if nb <= na and prod(sb[:-2]) == 1:   # dot(a, b.reshape(b.shape[-2:]))
            return None if k == 0 else (prod(sa) // k, k, sb[-1])
        # batch recursion over 2-d slices; needs a non-empty batch
        if prod(sa[:-2]) == 0 or prod(sb[:-2]) == 0:
            return None
        return None if k == 0 else (sa[-2], k, sb[-1])
    # dot(a, b): contract a's last axis with b's second-to-last (or only) axis
    k = sa[-1]
    kb = sb[-1] if nb == 1 else sb[-2]
    if k != kb or k == 0:
        return None
    return (prod(sa) // k, k, prod(sb) // k)


def in_hang_region(case):
    """COO (left) times ndarray (right) where the dense operand contributes no output column and the COO
    operand stores something"""
    r = route(case)
    if r is None:
        return False
    return case["a"]["fmt"] == "coo" and case["b"]["fmt"] == "nd" and r[2] == 0 and nnz(case["a"]) > 0


def in_zero_cols_region(case):
    """both operands sparse, at least one GCXS / scipy (so `_dot_csr_csr` is used) and the 2-d result has a zero extent"""
    r = route(case)
    if r is None:
        return False
    ka, kb = kind(case["a"]), kind(case["b"])
    return ka != "nd" and kb != "nd" and "gcxs" in (ka, kb) and (r[0] == 0 or r[2] == 0)


def has_cancellation(case):
    """some output element of the 2-d product is 0 although a pair of non-zero factors meets in it"""
    r = route(case)
    if r is None or case.get("op") != "tensordot":
        return False
    a = np.array(case["a"]["dense"], dtype=np.int64).reshape(case["a"]["shape"])
    b = np.array(case["b"]["dense"], dtype=np.int64).reshape(case["b"]["shape"])
    ax = case["axes"]
    full = np.tensordot(a, b, axes=ax if isinstance(ax, int) else (ax[0], ax[1]))
    pat = np.tensordot((a != 0).astype(np.int64), (b != 0).astype(np.int64), axes=ax if isinstance(ax, int) else (ax[0], ax[1]))
    return bool(((full == 0) & (pat != 0)).any())


def matmul_recursion_with_empty_batch(case):
    """matmul / @ of two operands of rank >= 3 that reaches `_matmul_recurser` with a batch axis of extent 0"""
    if case.get("op") not in ("matmul", "@"):
        return False
    sa, sb = list(case["a"]["shape"]), list(case["b"]["shape"])
    na, nb = len(sa), len(sb)
    if na <= 2 or nb <= 2 or sa[-1] != sb[-2]:
        return False
    if na <= nb and prod(sa[:-1]) == 1:
        return False
    if nb <= na and prod(sb[:-2]) == 1:
        return False
    ba, bb = [1] * (max(na, nb) - na) + sa[:-2], [1] * (max(na, nb) - nb) + sb[:-2]
    if any(i != 1 and j != 1 and i != j for i, j in zip(ba, bb)):
        return False
    return 0 in ba or 0 in bb


def tensordot_zero_size_shortcut(case):
    """tensordot whose contracted extent is 0 (the early `return res` before `_dot`) with a requested return type"""
    if case.get("op") != "tensordot" or case.get("rt", "none") == "none":
        return False
    sa, sb = list(case["a"]["shape"]), list(case["b"]["shape"])
    na, nb = len(sa), len(sb)
    if na == 0 or nb == 0:
        return False
    ax = case["axes"]
    if isinstance(ax, int):
        xa, xb = list(range(na - ax, na)), list(range(ax))
    else:
        xa, xb = ax
        xa = [xa] if isinstance(xa, int) else list(xa)
        xb = [xb] if isinstance(xb, int) else list(xb)
    try:
        return len(xa) == len(xb) and all(sa[p] == sb[q] for p, q in zip(xa, xb)) and prod(sa[p] for p in xa) == 0
    except IndexError:
        return False


def einsum_extents(case):
    """label (or right-aligned `...` position) -> set of extents over the operands; None if the subscripts do not parse"""
    sub = case.get("subscripts", "")
    terms = sub.split("->")[0].split(",")
    shapes = [case["a"]["shape"]] + ([case["b"]["shape"]] if case.get("op") == "einsum" else [])
    if len(terms) != len(shapes):
        return None
    ext = {}
    for t, sh in zip(terms, shapes):
        core = t.replace("...", "")
        ne = len(sh) - len(core)
        if ne < 0 or (ne > 0 and "..." not in t):
            return None
        pos = t.find("...") if "..." in t else 0
        labels = list(core[:pos]) + [("...", ne - q) for q in range(ne)] + list(core[pos:])
        for lab, d in zip(labels, sh):
            ext.setdefault(lab, set()).add(int(d))
    return ext


def classify(name, case, msg):
    # every C04 finding is repaired in /repo (fixed: lines in KNOWN_FINDINGS.txt): nothing is suppressed any more;
    # the witnesses stay in the corpus of harness/c04.py and fail as ordinary violations if a defect returns
    return None

"""Operation tables that close the gaps measured by tools/coverage_audit.py (coverage/API_COVERAGE.md).

Every entry is one public spelling the property's quantifier covers but the property's own leg C did not reach (an
operation, an (operation, format) pair, or a parameter that was never varied).  Per property:

    Op(name, sp, ref, gen, formats, …)
      sp(S, xs, a)   the call on the sparse operand(s)        S = the `sparse` module, xs = list of operands, a = argument dict
      ref(N, ds, a)  the same computation on the densified operands with NumPy    (N = numpy)
      gen(rng)       draws the case: {"operands": [operand spec, …], "args": {…}} (JSON-able; see `operand`)
      formats        formats on which the operation is offered (the audit's probe)

`run(ctx, pid)` is called from harness/cXX.py next to the property's own leg C; every (operation, format) pair of the
table is visited in every run (round-robin, then random), so no pair depends on the seed to be reached.
Inputs: COO / GCXS (any compressed axes) / DOK built through different constructors (from_numpy, raw coordinates in
random order with a repeated coordinate, narrow index dtypes, explicit GCXS triples, dict), dtypes bool/uint8/int8/
int16/int64/uint32/float16/float32/float64/complex64/complex128, fills zero / nonzero / nan / inf / -0.0, 0-d,
zero-extent axes.  Oracle: NumPy on the densified operands *as the property states it* (shape, dtype where the
property says so, fill value, canonical form).
"""
from __future__ import annotations

import warnings
from dataclasses import dataclass, field
from typing import Callable

import numpy as np

import findings
import gen
import impl
import oracle

ALL = ("coo", "gcxs", "dok")
CG = ("coo", "gcxs")
DT_ALL = ["bool", "uint8", "int8", "int16", "int64", "uint32", "float16", "float32", "float64", "complex64", "complex128"]
DT_REAL = ["bool", "uint8", "int8", "int16", "int64", "uint32", "float32", "float64"]
DT_NUM = ["uint8", "int8", "int16", "int64", "float32", "float64", "complex128"]
DT_INT = ["bool", "uint8", "int8", "int16", "int64", "uint32"]
DT_FLOAT = ["float32", "float64"]


@dataclass
class Op:
    name: str
    sp: Callable
    ref: Callable
    gen: Callable
    formats: tuple = ALL
    check_dtype: bool = True
    fill: str = "same"          # "same": fill of operand 0 (cast to the result dtype);  "func": ref applied to the fills;  "zero";  "none": not compared
    tol: bool = False           # floating-point results compared with a tolerance (summation order is not specified)
    sparse_result: bool = True  # an array result must be a sparse array
    scalar_rule: bool = False
    err_ok: tuple = ("value", "index", "type")
    canonical: bool = True
    note: str = ""
    custom: Callable | None = None  # custom(got, ref, xs, ds, a) -> message | None   (replaces the array comparison)
    refusal_ok: tuple = ()      # error classes (impl.err_class) with which the call may refuse although NumPy returns (no sparse result exists)
    weight: int = 1


# ---------------------------------------------------------------------------------------------------------------
# operands
# ---------------------------------------------------------------------------------------------------------------

def rand_shape(rng, min_rank=0, max_rank=4, zero_extent=True, max_size=150):
    ext = [0, 1, 1, 2, 2, 3, 3, 4, 5] if zero_extent else [1, 1, 2, 2, 3, 3, 4, 5]
    return gen.shape(rng, min_rank, max_rank, extents=ext, max_size=max_size)


def fill_for(rng, dt, classes=("zero", "zero", "nonzero", "nan", "inf", "negzero")):
    k = np.dtype(dt).kind
    c = str(rng.choice(list(classes)))
    if k == "b":
        return bool(c not in ("zero", "negzero")) if c in ("zero", "nonzero", "negzero") else bool(rng.random() < 0.5)
    if k in "iu":
        return int(rng.choice([1, 2, 3])) if c not in ("zero", "negzero") else 0
    if c == "nan":
        return float("nan")
    if c == "inf":
        return float(rng.choice([np.inf, -np.inf]))
    if c == "negzero":
        return -0.0
    if c == "nonzero":
        return float(rng.choice([1.0, -2.0, 0.5, 1.5]))
    return 0.0


def dense_values(rng, shape, dt, fill, density=None, nonfinite=False, lo=None, hi=None):
    """dense ndarray of dtype dt: `fill` at the unstored places, small exactly representable values elsewhere"""
    dt = np.dtype(dt)
    k = dt.kind
    if density is None:
        density = float(rng.choice([0.0, 0.2, 0.5, 0.8, 1.0]))
    lo = (0 if k in "ub" else -3) if lo is None else (max(lo, 0) if k in "ub" else lo)
    hi = 3 if hi is None else hi
    v = rng.integers(lo, hi + 1, size=shape)
    if k == "b":
        vals = (v % 2).astype(bool)
    elif k in "iu":
        vals = v.astype(dt)
    elif k == "f":
        vals = (v / 2).astype(dt) if rng.random() < 0.5 else v.astype(dt)
    else:
        vals = (v + 1j * rng.integers(-2, 3, size=shape)).astype(dt)
    if nonfinite and k in "fc" and rng.random() < 0.3:
        m = rng.random(size=shape) < 0.15
        vals = np.where(m, np.asarray(rng.choice([np.nan, np.inf, -np.inf])).astype(dt), vals).astype(dt)
    f = np.asarray(fill).astype(dt)
    mask = rng.random(size=shape) < density
    return np.where(mask, vals, f).astype(dt), f[()]


def operand(rng, *, min_rank=0, max_rank=4, dtypes=DT_ALL, fills=("zero", "zero", "nonzero", "nan", "inf", "negzero"), zero_extent=True, shape=None,
            nonfinite=False, max_size=150, density=None, lo=None, hi=None, dtype=None):
    shp = tuple(shape) if shape is not None else rand_shape(rng, min_rank, max_rank, zero_extent, max_size)
    dt = dtype or str(rng.choice(dtypes))
    fv = fill_for(rng, dt, fills)
    d, f = dense_values(rng, shp, dt, fv, density=density, nonfinite=nonfinite, lo=lo, hi=hi)
    return {"dense": d, "fill": f}


def _is_fill(d, f):
    from impl import equivalent

    return np.asarray(equivalent(d, f)) if d.size else np.zeros(d.shape, dtype=bool)


def to_sparse(rng, d, f, fmt):
    """dense + fill -> (sparse array, description of how it was built)"""
    import sparse

    nd = d.ndim
    how = float(rng.random())
    stored = ~_is_fill(d, f)
    if fmt == "coo":
        if nd and how < 0.3 and d.size:
            # raw constructor: coordinates in random order; one stored value split over a repeated coordinate (duplicates are summed)
            co = np.argwhere(stored)
            vals = d[stored]
            perm = rng.permutation(len(co))
            co, vals = co[perm], vals[perm]
            desc = "coo:ctor-unsorted"
            if len(co) and d.dtype.kind in "iuf" and d.dtype != np.float16 and np.isfinite(vals[0]):
                # value split exactly: v = (v - 1) + 1 in the array's dtype
                with np.errstate(all="ignore"):
                    a = np.asarray(vals[0] - d.dtype.type(1)).astype(d.dtype)
                    exact = bool(a + d.dtype.type(1) == vals[0]) and not (d.dtype.kind == "u" and vals[0] == 0)
                if exact:
                    co = np.vstack([co, co[:1]])
                    vals = np.concatenate([vals, [d.dtype.type(1)]]).astype(d.dtype)
                    vals[0] = a
                    desc += "+dup"
            x = sparse.COO(co.T.reshape(nd, len(co)), vals, shape=d.shape, fill_value=f)
            return x, desc
        if nd and how < 0.45 and max(d.shape) < 120:
            idt = rng.choice([np.uint8, np.int8, np.int16, np.uint16, np.int32, np.uint64])
            c = sparse.COO.from_numpy(d, fill_value=f)
            return sparse.COO(c.coords.astype(idt), c.data, shape=c.shape, fill_value=f, sorted=True, has_duplicates=False), f"coo:idx-{np.dtype(idt).name}"
        if nd and how < 0.55 and d.size:
            # explicitly stored fill-valued entries (a legal array: "every stored subset")
            st = stored | (rng.random(size=d.shape) < 0.3)
            co = np.argwhere(st)
            return sparse.COO(co.T.reshape(nd, len(co)), d[st], shape=d.shape, fill_value=f, sorted=True, has_duplicates=False), "coo:explicit-fill"
        return sparse.COO.from_numpy(d, fill_value=f), "coo:from_numpy"
    if fmt == "gcxs":
        ca = None
        if nd >= 2:
            ch = gen.compressed_axes_choices(nd)
            ca = tuple(int(a) for a in ch[int(rng.integers(len(ch)))])
        if how < 0.4:
            return sparse.GCXS.from_numpy(d, compressed_axes=ca, fill_value=f), f"gcxs{list(ca) if ca else ''}:from_numpy"
        if how < 0.5 and nd == 2:
            # explicit (data, indices, indptr) triple, CSR or CSC orientation
            axis = int(rng.integers(2))
            m = d if axis == 0 else d.T
            st = ~_is_fill(m, f)
            indptr = np.concatenate([[0], np.cumsum(st.sum(axis=1))]).astype(np.int64)
            indices = np.nonzero(st)[1].astype(np.int64)
            return sparse.GCXS((m[st], indices, indptr), shape=d.shape, compressed_axes=(axis,), fill_value=f), f"gcxs[{axis}]:triple"
        c = sparse.COO.from_numpy(d, fill_value=f)
        return sparse.GCXS.from_coo(c, compressed_axes=ca), f"gcxs{list(ca) if ca else ''}:from_coo"
    if fmt == "dok":
        if how < 0.35 and nd:
            keys = np.argwhere(stored)
            perm = rng.permutation(len(keys))
            dct = {tuple(int(i) for i in keys[j]): d[tuple(keys[j])] for j in perm}
            return sparse.DOK(d.shape, dct, dtype=d.dtype, fill_value=f), "dok:dict"
        if how < 0.65:
            return sparse.DOK.from_numpy(d) if (fill_class(f) == "zero" and how < 0.5) else sparse.DOK.from_coo(sparse.COO.from_numpy(d, fill_value=f)), "dok:from_numpy/from_coo"
        return sparse.DOK.from_coo(sparse.COO.from_numpy(d, fill_value=f)), "dok:from_coo"
    raise ValueError(fmt)


def fill_class(f):
    v = np.asarray(f)
    if v.dtype.kind in "fc":
        if np.isnan(v):
            return "nan"
        if np.isinf(v):
            return "inf"
        if v == 0:
            neg = bool(np.signbit(v)) if v.dtype.kind == "f" else bool(np.signbit(v.real) or np.signbit(v.imag))
            return "negzero" if neg else "zero"
        return "nonzero"
    return "zero" if not v else "nonzero"


def jsonable(v):
    if isinstance(v, np.ndarray):
        return {"ndarray": v.tolist() if v.dtype.kind != "c" else [str(e) for e in v.ravel().tolist()], "dtype": str(v.dtype), "shape": list(v.shape)}
    if isinstance(v, np.generic):
        return repr(v.item()) if v.dtype.kind in "fc" else v.item()
    if isinstance(v, (np.dtype, type)):
        return str(np.dtype(v)) if not isinstance(v, type) or issubclass(v, np.generic) else v.__name__
    if isinstance(v, (tuple, list)):
        return [jsonable(e) for e in v]
    if isinstance(v, dict):
        return {k: jsonable(e) for k, e in v.items()}
    if isinstance(v, slice):
        return ["slice", v.start, v.stop, v.step]
    if isinstance(v, float) and not np.isfinite(v):
        return repr(v)
    if callable(v):
        return getattr(v, "__name__", repr(v))
    if type(v).__module__.startswith("scipy.sparse"):
        return {"scipy": getattr(v, "format", "?"), "dense": jsonable(v.toarray())}
    if isinstance(v, (str, int, float, bool, type(None))):
        return v
    return repr(v)


# ---------------------------------------------------------------------------------------------------------------
# comparison
# ---------------------------------------------------------------------------------------------------------------

def same(a, b, tol):
    a, b = np.asarray(a), np.asarray(b)
    if a.shape != b.shape:
        return False
    if tol and (a.dtype.kind in "fc" or b.dtype.kind in "fc"):
        rt = 2e-2 if np.float16 in (a.dtype, b.dtype) else (1e-4 if (a.dtype in (np.float32, np.complex64) or b.dtype in (np.float32, np.complex64)) else 1e-9)
        with np.errstate(all="ignore"):
            return bool(np.allclose(a, b, rtol=rt, atol=rt, equal_nan=True))
    return oracle.same_values(a, b)


def judge(op: Op, xs, ds, a):
    """None, or what differs between op.sp on the sparse operands and op.ref on the dense ones"""
    import sparse

    if op.note.startswith("elemwise"):
        return judge_elemwise(op, xs, ds, a)
    with warnings.catch_warnings(), np.errstate(all="ignore"):
        warnings.simplefilter("ignore")
        try:
            ref, ref_err = op.ref(np, ds, a), None
        except Exception as e:  # noqa: BLE001
            ref, ref_err = None, e
        try:
            got, got_err = op.sp(sparse, xs, a), None
        except Exception as e:  # noqa: BLE001
            got, got_err = None, e
        if ref_err is not None:
            if got_err is None:
                return f"numpy raises {type(ref_err).__name__} ({str(ref_err)[:60]}) but the call returned"
            if type(got_err) is type(ref_err):
                return None  # the same exception class as NumPy's is a clean rejection whatever the class
            if impl.err_class(got_err) not in op.err_ok:
                return f"numpy raises {type(ref_err).__name__}; call raised {type(got_err).__name__}: {str(got_err)[:120]}"
            return None
        if got_err is not None:
            if op.note == "reduction" and isinstance(got_err, ValueError) and "would produce a dense result" in str(got_err):
                return None  # C03: "a reduction that cannot be expressed sparsely raises ValueError rather than returning a wrong value"
            if isinstance(got_err, ValueError) and "dtype" in str(got_err) and any(_narrow_index(x) for x in xs):
                return None  # C15: with a narrow index type an operation may refuse with a ValueError that names the index type
            if impl.err_class(got_err) in op.refusal_ok:
                return None
            return f"raised {type(got_err).__name__}: {str(got_err)[:160]} (numpy returns {type(ref).__name__} shape {np.shape(ref) if not isinstance(ref, (tuple, list)) else len(ref)})"
        if op.custom is not None:
            return op.custom(got, ref, xs, ds, a)
        return compare_result(op, got, ref, xs, ds, a)


def judge_elemwise(op, xs, ds, a):
    """C01's statement, judged by C01's own comparator (shape, dtype, every element incl. the sign of zero when no dense operand takes part,
    canonical form, no stored fill values, the ValueError / dense-result rule for mixes with dense arrays), plus the fill rule"""
    import c01
    import sparse

    box = {}

    def it():
        box["got"] = op.sp(sparse, xs, a)
        return box["got"]

    with np.errstate(all="ignore"):
        try:
            msg = c01.compare_elemwise(it, lambda: op.ref(np, ds, a), None, xs, ds)
        except Exception as e:  # noqa: BLE001  (the returned object cannot even be inspected)
            g = box.get("got")
            return (f"the call returned an inconsistent {type(g).__name__} object (data is {type(getattr(g, 'data', None)).__name__}, attributes {sorted(getattr(g, '__dict__', {}))[:8]}): "
                    f"inspecting it raised {type(e).__name__}: {str(e)[:100]}")
        if msg and op.tol and msg.startswith("values differ") and isinstance(box.get("got"), (sparse.SparseArray, np.ndarray)):
            # power: NumPy answers a scalar exponent 0.5 / 2 / -1 through sqrt / square / reciprocal (ndarray.__pow__ and the ufunc's fast paths), an array
            # exponent through pow: the last bit differs.  Values are compared with a relative tolerance for this family only.
            with warnings.catch_warnings():
                warnings.simplefilter("ignore")
                r = np.asarray(op.ref(np, ds, a))
            g = box["got"].todense() if isinstance(box["got"], sparse.SparseArray) else box["got"]
            if same(g, r, True):
                msg = None
        if msg and "dtype=" in op.name and msg.startswith("numpy raises UFuncTypeError but the call returned"):
            # dtype= requests NumPy refuses under the casting rule: the library documents "try our best to preserve the output dtype" and casts
            # the result instead; there is no NumPy value to compare with (recorded as an observation in coverage/API_COVERAGE.md, not a failure)
            msg = None
        if msg and msg.startswith("raised ValueError") and not any(isinstance(x, np.ndarray) and x.ndim for x in xs):
            # "when no sparse result exists the call raises ValueError": the function is not defined at the operands' FILL values (integer ** negative
            # integer), although no element of the dense operands happens to hit that pair — there is no fill value the result could carry
            try:
                with warnings.catch_warnings():
                    warnings.simplefilter("ignore")
                    for zero_d_as_scalar in (False, True):
                        op.ref(np, [(np.asarray(x.todense()) if (zero_d_as_scalar and x.ndim == 0) else np.asarray(x.fill_value)) if isinstance(x, sparse.SparseArray) else x
                                    for x in xs], a)
            except ValueError:
                msg = None
            except Exception:  # noqa: BLE001
                pass
        if msg and msg.startswith("numpy raises "):
            # the same exception class as NumPy's is a clean rejection whatever the class (OverflowError for an out-of-range Python integer, …)
            head, _, tail = msg.partition("; call raised ")
            if tail and head[len("numpy raises "):] == tail.split(":")[0]:
                msg = None
        if msg and msg.startswith("result not canonical: stores fill-valued entries") and any("explicit" in getattr(x, "_how", "") for x in xs):
            msg = None  # the operand itself stored fill-valued entries: the 'no stored fill' clause of C06 has no premise
        if msg:
            return msg
        got = box.get("got")
        if isinstance(got, sparse.SparseArray):
            with warnings.catch_warnings():
                warnings.simplefilter("ignore")
                exp = expected_fill(op, None, xs, ds, a)
            if exp is not None:
                gf = np.asarray(got.fill_value)
                if gf.dtype != got.dtype:
                    return f"fill value dtype {gf.dtype} differs from the array dtype {got.dtype}"
                alts = [np.asarray(e) for e in (exp.alts if isinstance(exp, _Either) else [exp])]
                # (NumPy may take a different inner loop for a 0-d value than for an array: the last bits of pow/exp/… can differ)
                if not any(ef.dtype == gf.dtype and (oracle.same_values(gf, ef) or same(gf, ef, True)) for ef in alts):
                    return f"fill value {got.fill_value!r} ({gf.dtype}); the function applied to the operands' fill values gives {exp!r} ({alts[0].dtype})"
    return None


def _narrow_index(x):
    import sparse

    return isinstance(x, sparse.COO) and x.coords.dtype.itemsize < 8 or (isinstance(x, sparse.COO) and x.coords.dtype.kind == "u")


def compare_result(op, got, ref, xs, ds, a):
    import sparse

    if isinstance(ref, (tuple, list)) and not isinstance(ref, np.ndarray):
        if not isinstance(got, (tuple, list)) or len(got) != len(ref):
            return f"result is {type(got).__name__} of length {len(got) if hasattr(got, '__len__') else '?'}, numpy returns {len(ref)} arrays"
        for i, (g, r) in enumerate(zip(got, ref)):
            m = compare_result(op, g, r, xs, ds, a)
            if m:
                return f"result[{i}]: {m}"
        return None
    if isinstance(got, sparse.SparseArray):
        if op.canonical:
            p = impl.canonical_problem(got)
            if p:
                return f"result not canonical: {p}"
        g = got.todense()
        exp = expected_fill(op, ref, xs, ds, a)
        if exp is not None:
            gf = np.asarray(got.fill_value)
            ok = False
            for ef in (np.asarray(e) for e in (exp.alts if isinstance(exp, _Either) else [exp])):
                rt = np.result_type(gf, ef)
                ok = ok or oracle.same_values(gf.astype(rt), ef.astype(rt))
            if not ok:
                return f"fill value {got.fill_value!r}, expected {exp!r}"
        if np.asarray(got.fill_value).dtype != got.dtype:
            return f"fill value dtype {np.asarray(got.fill_value).dtype} differs from the array dtype {got.dtype}"
    else:
        if op.sparse_result and np.ndim(ref) > 0 and not op.scalar_rule:
            return f"result is {type(got).__name__}, not a sparse array"
        g = np.asarray(got)
    if op.scalar_rule:
        rs, gs = not isinstance(ref, np.ndarray), not isinstance(got, (sparse.SparseArray, np.ndarray))
        if rs != gs:
            return f"numpy returns {'a scalar' if rs else 'an array'} but the call returned {type(got).__name__}"
    r = np.asarray(ref)
    if g.shape != r.shape:
        return f"shape {g.shape}, numpy {r.shape}"
    if op.check_dtype and g.dtype != r.dtype:
        return f"dtype {g.dtype}, numpy {r.dtype}"
    if not same(g, r, op.tol):
        return f"values differ: got {g.tolist()!r:.200} numpy {r.tolist()!r:.200}"
    return None


class _Either:
    """two admissible expected values"""

    def __init__(self, *alts):
        self.alts = alts

    def __repr__(self):
        return " or ".join(repr(a) for a in self.alts)


def expected_fill(op, ref, xs, ds, a):
    import sparse

    if op.fill == "none":
        return None
    if op.fill == "zero":
        # (a 0-d ndarray converts to a 0-d sparse array whose fill value is the element itself: nothing is stored)
        return np.asarray(ref).dtype.type(0) if np.ndim(ref) else None
    sp_ops = [x for x in xs if isinstance(x, sparse.SparseArray)]
    if not sp_ops:
        return None
    if op.fill == "same":
        return sp_ops[0].fill_value
    if op.fill == "func":
        # the function applied to the operands' fill values (dense operands: no statement)
        if any(isinstance(x, np.ndarray) and x.ndim for x in xs):
            return None
        try:
            with np.errstate(all="ignore"):
                fs = [np.asarray(x.fill_value) if isinstance(x, sparse.SparseArray) else x for x in xs]
                exp = np.asarray(op.ref(np, fs, a))[()]
                if any(isinstance(x, sparse.SparseArray) and x.ndim == 0 for x in xs):
                    # a 0-d sparse operand has no unstored position and takes part as a scalar in the ufunc path (its one element, not its fill
                    # value): both readings of "the operands' fill values" are admissible for it
                    fs2 = [(np.asarray(x.fill_value) if x.ndim else np.asarray(x.todense())) if isinstance(x, sparse.SparseArray) else x for x in xs]
                    return _Either(exp, np.asarray(op.ref(np, fs2, a))[()])
                return exp
        except Exception:  # noqa: BLE001
            return None
    return None


# ---------------------------------------------------------------------------------------------------------------
# driver
# ---------------------------------------------------------------------------------------------------------------

def build_operands(rng, specs, fmt, mixed_formats=False):
    xs, ds, descs = [], [], []
    for j, s in enumerate(specs):
        if "raw" in s:  # non-sparse operand passed as is (ndarray, scalar, index array)
            xs.append(s["raw"]); ds.append(s["raw"])
            descs.append({"raw": jsonable(s["raw"]), **({"dtype": str(s["raw"].dtype)} if isinstance(s["raw"], (np.generic, np.ndarray)) else {"python": type(s["raw"]).__name__})})
            continue
        f = s.get("format") or (fmt if (j == 0 or not mixed_formats) else str(rng.choice(["coo", "gcxs", "dok"])))
        if f == "dok" and s["dense"].ndim == 0:
            f = "coo"  # a 0-d DOK cannot hold a stored element through every constructor; C05 covers the conversion
        x, how = to_sparse(rng, s["dense"], s["fill"], f)
        try:
            x._how = how
        except Exception:  # noqa: BLE001
            pass
        xs.append(x); ds.append(s["dense"])
        descs.append({"format": how, "dense": jsonable(s["dense"]), "fill": repr(s["fill"])})
    return xs, ds, descs


def run(ctx, pid, n=None, tables=None):
    """leg C extension of property `pid`: every (operation, format) pair once, then random pairs up to n cases"""
    table = (tables or TABLES)[pid]
    MODE["quick"] = bool(ctx.quick)
    rng = gen.rng_for(ctx.seed, pid + ":extra_ops")
    pairs = [(op, f) for op in table for f in op.formats]
    total = n if n is not None else (max(len(pairs) * 2, QUICK.get(pid, 300)) if ctx.quick else max(len(pairs) * 12, THOROUGH.get(pid, 4000)))
    done = 0
    reached = ctx.cov.setdefault("extra_ops_pairs", {})
    for i in range(total):
        op, fmt = pairs[i % len(pairs)] if i < 2 * len(pairs) else pairs[int(rng.integers(len(pairs)))]
        for _attempt in range(8):
            spec = op.gen(rng)
            if spec is None:
                continue
            # a 0-d operand cannot be held in DOK form (build_operands falls back to COO): when DOK is the format under test, draw again
            first = next((o for o in spec["operands"] if "dense" in o), None)
            if fmt == "dok" and first is not None and first["dense"].ndim == 0 and _attempt < 7:
                continue
            break
        else:
            continue
        if spec is None:
            continue
        try:
            xs, ds, descs = build_operands(rng, spec["operands"], fmt, spec.get("mixed_formats", False))
        except Exception as e:  # noqa: BLE001
            case = {"extra": True, "op": op.name, "format": fmt, "operands": [{"dense": jsonable(s.get("dense")), "fill": repr(s.get("fill"))} for s in spec["operands"]]}
            msg = f"building the operand raised {type(e).__name__}: {str(e)[:160]}"
            ctx.fail("C", op.name, case, msg, finding=findings.classify(pid, op.name, case, msg))
            continue
        a = dict(spec.get("args", {}))
        case = {"extra": True, "op": op.name, "format": fmt, "operands": descs, "args": jsonable({k: v for k, v in a.items() if not k.startswith("_")})}
        a["_fill"] = next((s["fill"] for s in spec["operands"] if "fill" in s), None)  # for references that need it (pad)
        nontrivial = any(np.size(d) for d in ds)
        ctx.case(f"C:x:{op.name}:{fmt}", case, nontrivial=nontrivial)
        reached[f"{op.name}:{fmt}"] = reached.get(f"{op.name}:{fmt}", 0) + 1
        msg = judge(op, xs, ds, a)
        done += 1
        if msg:
            ctx.fail("C", op.name, case, msg, finding=findings.classify(pid, op.name, case, msg))
    ctx.cov["extra_ops"] = {"operations": len(table), "pairs": len(pairs), "cases": done}
    ctx.cov["extra_ops_rule"] = RULE
    if isinstance(ctx.cov.get("rule"), str) and RULE not in ctx.cov["rule"]:
        ctx.cov["rule"] += "; " + RULE
    return done


RULE = ("extra_ops (families C:x:<operation>:<format>): the operation table of harness/extra_ops.py for this property — every (operation, format) pair twice "
        "round-robin, then random pairs; operands over 11 dtypes, fills zero/nonzero/nan/inf/-0.0 where the property admits them, 0-d and zero-extent shapes, "
        "COO/GCXS/DOK built through several constructors; compared with NumPy on shape, dtype, fill value, values and canonical form; non-trivial = an operand "
        "has at least one element")


QUICK: dict = {}
THOROUGH: dict = {}
TABLES: dict = {}


# ===============================================================================================================
# helpers shared by the tables
# ===============================================================================================================

def _x(**kw):
    """generator of a single operand"""
    return lambda rng: {"operands": [operand(rng, **kw)], "args": {}}


def _neg(rng, ax, nd, p=0.4):
    return ax - nd if (nd and rng.random() < p) else ax


def _factor(rng, size):
    if size == 0:
        return [int(v) for v in rng.permutation([0, int(rng.integers(1, 4))])]
    fs, n, p = [], size, 2
    while n > 1:
        while n % p == 0:
            fs.append(p)
            n //= p
        p += 1
    k = int(rng.integers(1, 4))
    parts = [1] * k
    for f in fs:
        parts[int(rng.integers(k))] *= f
    return parts


def _each_fill(got, ref, xs, ds, a, check_dtype=True):
    """tuple of results, result i keeps the fill value of operand i"""
    import sparse

    if not isinstance(got, (tuple, list)) or len(got) != len(ref):
        return f"result is {type(got).__name__} of length {len(got) if hasattr(got, '__len__') else '?'}, numpy returns {len(ref)} arrays"
    for i, (g, r, x) in enumerate(zip(got, ref, xs)):
        if not isinstance(g, sparse.SparseArray):
            return f"result[{i}] is {type(g).__name__}, not a sparse array"
        p = impl.canonical_problem(g)
        if p:
            return f"result[{i}] not canonical: {p}"
        d = g.todense()
        if d.shape != r.shape:
            return f"result[{i}]: shape {d.shape}, numpy {r.shape}"
        if check_dtype and d.dtype != r.dtype:
            return f"result[{i}]: dtype {d.dtype}, numpy {r.dtype}"
        if not oracle.same_values(d, r):
            return f"result[{i}]: values differ: got {d.tolist()!r:.160} numpy {r.tolist()!r:.160}"
        if not oracle.same_values(np.asarray(g.fill_value), np.asarray(x.fill_value)):
            return f"result[{i}]: fill value {g.fill_value!r}, expected {x.fill_value!r}"
    return None


# ===============================================================================================================
# C08 — shape manipulation: every function x every format it is offered on x dtypes x fills (incl. nan / inf / -0.0)
# ===============================================================================================================

def _g_transpose(rng):
    o = operand(rng, max_rank=4)
    nd = o["dense"].ndim
    r = rng.random()
    if r < 0.2:
        axes = None
    else:
        axes = tuple(_neg(rng, int(p), nd) for p in rng.permutation(nd))
    return {"operands": [o], "args": {"axes": axes}}


def _g_two_axes(rng):
    o = operand(rng, min_rank=1, max_rank=4)
    nd = o["dense"].ndim
    a, b = (int(v) for v in rng.integers(-nd, nd, size=2))
    return {"operands": [o], "args": {"a": a, "b": b}}


def _g_moveaxis_seq(rng):
    o = operand(rng, min_rank=1, max_rank=4)
    nd = o["dense"].ndim
    k = int(rng.integers(1, nd + 1))
    src = tuple(_neg(rng, int(v), nd) for v in rng.permutation(nd)[:k])
    dst = tuple(_neg(rng, int(v), nd) for v in rng.permutation(nd)[:k])
    return {"operands": [o], "args": {"a": src, "b": dst}}


def _g_reshape(rng):
    o = operand(rng, max_rank=4)
    tgt = _factor(rng, o["dense"].size)
    if tgt and o["dense"].size > 0 and rng.random() < 0.5:
        tgt[int(rng.integers(len(tgt)))] = -1
    r = rng.random()
    shape = tuple(tgt) if r < 0.8 else (list(tgt) if r < 0.9 or len(tgt) != 1 else int(tgt[0]))
    return {"operands": [o], "args": {"shape": shape}}


def _g_squeeze(rng):
    shp = list(rand_shape(rng, 0, 4))
    for i in range(len(shp)):
        if rng.random() < 0.5:
            shp[i] = 1
    o = operand(rng, shape=shp)
    ones = [i for i, e in enumerate(shp) if e == 1]
    r = rng.random()
    if not ones or r < 0.25:
        axis = None
    elif r < 0.6:
        axis = _neg(rng, int(rng.choice(ones)), len(shp))
    else:
        k = int(rng.integers(1, len(ones) + 1))
        axis = tuple(_neg(rng, int(v), len(shp)) for v in rng.choice(ones, size=k, replace=False))
    return {"operands": [o], "args": {"axis": axis}}


def _g_expand(rng):
    o = operand(rng, max_rank=3)
    nd = o["dense"].ndim
    return {"operands": [o], "args": {"axis": int(rng.integers(-nd - 1, nd + 1))}}


def _g_broadcast_to(rng):
    o = operand(rng, max_rank=3, max_size=40)
    d = o["dense"]
    lead = tuple(int(v) for v in rng.integers(0, 3, size=int(rng.integers(0, 3))))
    tshape = lead + tuple(int(rng.integers(0, 4)) if (e == 1 and rng.random() < 0.6) else e for e in d.shape)
    if int(np.prod(tshape, dtype=np.int64)) > 400:
        return None
    as_list = bool(rng.random() < 0.2)
    return {"operands": [o], "args": {"shape": list(tshape) if as_list else tshape, "shape_is_list": as_list}}


def _g_broadcast_arrays(rng):
    res = rand_shape(rng, 0, 3, max_size=60)
    ops = []
    for _ in range(int(rng.integers(1, 4))):
        lead = int(rng.integers(0, len(res) + 1)) if rng.random() < 0.4 else 0
        s = tuple(1 if (d != 1 and rng.random() < 0.35) else d for d in res[lead:])
        ops.append(operand(rng, shape=s))
    return {"operands": ops, "args": {}, "mixed_formats": False}


def _g_flip(rng):
    o = operand(rng, max_rank=4)
    nd = o["dense"].ndim
    r = rng.random()
    if r < 0.25 or nd == 0:
        axis = None
    elif r < 0.55:
        axis = int(rng.integers(-nd, nd))
    else:
        k = int(rng.integers(1, nd + 1))
        axis = tuple(_neg(rng, int(v), nd) for v in rng.permutation(nd)[:k])
    return {"operands": [o], "args": {"axis": axis}}


def _g_roll(rng):
    o = operand(rng, min_rank=1, max_rank=4)
    d = o["dense"]
    nd = d.ndim
    r = rng.random()
    m = 2 * max(d.shape) + 2
    if r < 0.25:
        shift, axis = int(rng.integers(-m, m + 1)), None
    elif r < 0.55:
        shift, axis = int(rng.integers(-m, m + 1)), int(rng.integers(-nd, nd))
    elif r < 0.85:
        k = int(rng.integers(1, nd + 2))
        axis = tuple(int(v) for v in rng.integers(-nd, nd, size=k))  # repeated axes accumulate in NumPy
        shift = tuple(int(v) for v in rng.integers(-6, 7, size=k))
    else:
        axis = tuple(int(v) for v in rng.integers(-nd, nd, size=int(rng.integers(1, 3))))
        shift = int(rng.integers(-m, m + 1))
    return {"operands": [o], "args": {"shift": shift, "axis": axis}}


def _g_pad(rng):
    o = operand(rng, min_rank=1, max_rank=3, max_size=60)
    nd = o["dense"].ndim
    r = rng.random()
    if r < 0.3:
        pw = int(rng.integers(0, 3))
    elif r < 0.5:
        pw = (int(rng.integers(0, 3)), int(rng.integers(0, 3)))
    elif r < 0.6:
        pw = ((int(rng.integers(0, 3)), int(rng.integers(0, 3))),)
    else:
        pw = tuple((int(a), int(b)) for a, b in rng.integers(0, 3, size=(nd, 2)))
    a = {"pad_width": pw, "explicit_mode": bool(rng.random() < 0.4)}
    # constant_values: the array's own fill (the only value a sparse result can hold); omitted half of the time when it is NumPy's default 0
    a["pass_cv"] = not (fill_class(o["fill"]) == "zero" and rng.random() < 0.5)
    return {"operands": [o], "args": a}


def _sp_pad(S, xs, a):
    kw = {}
    if a["explicit_mode"]:
        kw["mode"] = "constant"
    if a["pass_cv"]:
        kw["constant_values"] = xs[0].fill_value
    return S.pad(xs[0], a["pad_width"], **kw)


def _t(name, sp, ref, gen_, formats=ALL, **kw):
    return Op(name, sp, ref, gen_, formats, **kw)


C08 = [
    _t("x.transpose(axes)", lambda S, xs, a: xs[0].transpose(a["axes"]), lambda N, ds, a: ds[0].transpose(a["axes"]), _g_transpose, CG),
    _t("x.transpose(*none)", lambda S, xs, a: xs[0].transpose(), lambda N, ds, a: ds[0].transpose(), _x(max_rank=4), CG),
    _t("permute_dims", lambda S, xs, a: S.permute_dims(xs[0], a["axes"]), lambda N, ds, a: ds[0].transpose(a["axes"]), _g_transpose, CG),
    _t("permute_dims(default)", lambda S, xs, a: S.permute_dims(xs[0]), lambda N, ds, a: ds[0].transpose(), _x(max_rank=4), CG),
    _t("x.T", lambda S, xs, a: xs[0].T, lambda N, ds, a: ds[0].T, _x(max_rank=4), CG),
    _t("x.mT", lambda S, xs, a: xs[0].mT, lambda N, ds, a: N.swapaxes(ds[0], -1, -2), _x(min_rank=2, max_rank=4), CG),
    _t("matrix_transpose", lambda S, xs, a: S.matrix_transpose(xs[0]), lambda N, ds, a: N.swapaxes(ds[0], -1, -2), _x(min_rank=2, max_rank=4), ALL),
    _t("x.swapaxes", lambda S, xs, a: xs[0].swapaxes(a["a"], a["b"]), lambda N, ds, a: N.swapaxes(ds[0], a["a"], a["b"]), _g_two_axes, ("coo",)),
    _t("moveaxis(int,int)", lambda S, xs, a: S.moveaxis(xs[0], a["a"], a["b"]), lambda N, ds, a: N.moveaxis(ds[0], a["a"], a["b"]), _g_two_axes, CG),
    _t("moveaxis(seq,seq)", lambda S, xs, a: S.moveaxis(xs[0], a["a"], a["b"]), lambda N, ds, a: N.moveaxis(ds[0], a["a"], a["b"]), _g_moveaxis_seq, CG),
    _t("x.reshape", lambda S, xs, a: xs[0].reshape(a["shape"]), lambda N, ds, a: ds[0].reshape(a["shape"]), _g_reshape, ALL),
    _t("x.reshape(order='C')", lambda S, xs, a: xs[0].reshape(a["shape"], order="C"), lambda N, ds, a: ds[0].reshape(a["shape"], order="C"), _g_reshape, ALL),
    _t("sparse.reshape", lambda S, xs, a: S.reshape(xs[0], a["shape"]), lambda N, ds, a: N.reshape(ds[0], a["shape"]), _g_reshape, ALL),
    _t("sparse.reshape(copy=True)", lambda S, xs, a: S.reshape(xs[0], a["shape"], copy=True), lambda N, ds, a: N.reshape(ds[0], a["shape"]), _g_reshape, ALL),
    _t("x.flatten", lambda S, xs, a: xs[0].flatten(), lambda N, ds, a: ds[0].flatten(), _x(max_rank=4), CG),
    _t("x.flatten(order='C')", lambda S, xs, a: xs[0].flatten(order="C"), lambda N, ds, a: ds[0].flatten(order="C"), _x(max_rank=4), CG),
    _t("x.squeeze(axis)", lambda S, xs, a: xs[0].squeeze(a["axis"]), lambda N, ds, a: N.squeeze(ds[0], a["axis"]), _g_squeeze, ("coo",)),
    _t("sparse.squeeze(axis)", lambda S, xs, a: S.squeeze(xs[0], axis=a["axis"]), lambda N, ds, a: N.squeeze(ds[0], a["axis"]), _g_squeeze, ("coo",)),
    _t("expand_dims", lambda S, xs, a: S.expand_dims(xs[0], axis=a["axis"]), lambda N, ds, a: N.expand_dims(ds[0], a["axis"]), _g_expand, ALL),
    _t("expand_dims(default)", lambda S, xs, a: S.expand_dims(xs[0]), lambda N, ds, a: N.expand_dims(ds[0], 0), _x(max_rank=3), ALL),
    _t("sparse.broadcast_to", lambda S, xs, a: S.broadcast_to(xs[0], a["shape"]), lambda N, ds, a: N.broadcast_to(ds[0], a["shape"]), _g_broadcast_to, ALL, err_ok=("value",)),
    _t("x.broadcast_to", lambda S, xs, a: xs[0].broadcast_to(a["shape"]), lambda N, ds, a: N.broadcast_to(ds[0], a["shape"]), _g_broadcast_to, ("coo",), err_ok=("value",)),
    _t("broadcast_arrays", lambda S, xs, a: S.broadcast_arrays(*xs), lambda N, ds, a: N.broadcast_arrays(*ds), _g_broadcast_arrays, ("coo",), custom=_each_fill),
    _t("flip", lambda S, xs, a: S.flip(xs[0], axis=a["axis"]), lambda N, ds, a: N.flip(ds[0], axis=a["axis"]), _g_flip, ALL),
    _t("roll", lambda S, xs, a: S.roll(xs[0], a["shift"], axis=a["axis"]), lambda N, ds, a: N.roll(ds[0], a["shift"], axis=a["axis"]), _g_roll, ALL),
    _t("pad", _sp_pad, lambda N, ds, a: N.pad(ds[0], a["pad_width"], mode="constant", constant_values=a["_fill"]), _g_pad, ALL),
]


# ===============================================================================================================
# C09 — joining and structural extraction: DOK / GCXS operands, format mixes, compressed_axes=, dtypes, fills
# ===============================================================================================================

def _g_join(kind):
    def g(rng):
        stack = kind == "stack"
        shp = list(rand_shape(rng, 0 if stack else 1, 3, max_size=40))
        nd = len(shp)
        r = rng.random()
        axis = None if (not stack and r < 0.1) else (int(rng.integers(0, nd + 1)) if stack else int(rng.integers(0, nd)))
        k = int(rng.integers(1, 5))
        dt = str(rng.choice(DT_ALL))
        fv = fill_for(rng, dt)
        ops = []
        for _ in range(k):
            s = list(shp)
            if not stack and axis is not None:
                s[axis] = int(rng.choice([0, 1, 2, 3]))
            # members may have different dtypes (NumPy promotes); the fill is common as a value
            mdt = dt if rng.random() < 0.7 else str(rng.choice([t for t in DT_ALL if np.dtype(t).kind == np.dtype(dt).kind] or [dt]))
            d, f = dense_values(rng, tuple(s), mdt, fv)
            ops.append({"dense": d, "fill": f})
        raw_axis = axis
        if axis is not None and rng.random() < 0.35:
            raw_axis = axis - (nd + 1 if stack else nd)
        a = {"axis": raw_axis, "pass_axis": not (raw_axis == 0 and rng.random() < 0.5)}
        return {"operands": ops, "args": a, "mixed_formats": bool(rng.random() < 0.6)}
    return g


def _sp_join(fname):
    def f(S, xs, a):
        kw = {"axis": a["axis"]} if a["pass_axis"] else {}
        return getattr(S, fname)(xs, **kw)
    return f


def _ref_join(stack):
    def f(N, ds, a):
        # the joined members carry one common fill value; like NumPy the result dtype is the promotion of the members' dtypes
        return (N.stack if stack else N.concatenate)(ds, axis=a["axis"])
    return f


def _g_join_ca(rng):
    """concatenate/stack of GCXS members with an explicit compressed_axes= for the result"""
    spec = _g_join("concatenate")(rng)
    nd = spec["operands"][0]["dense"].ndim
    if spec["args"]["axis"] is None or nd < 2:
        return None
    ch = gen.compressed_axes_choices(nd)
    spec["args"]["compressed_axes"] = tuple(int(v) for v in ch[int(rng.integers(len(ch)))])
    spec["mixed_formats"] = False
    return spec


def _custom_join_ca(got, ref, xs, ds, a):
    import sparse

    if not isinstance(got, sparse.GCXS):
        return f"result is {type(got).__name__}, GCXS members with compressed_axes= must give GCXS"
    if tuple(int(v) for v in got.compressed_axes) != tuple(a["compressed_axes"]):
        return f"compressed_axes {got.compressed_axes}, requested {a['compressed_axes']}"
    return compare_result(C09_JOIN_CA, got, ref, xs, ds, a)


def _g_tri(rng):
    o = operand(rng, min_rank=2, max_rank=4, fills=("zero",), max_size=120)
    r = rng.random()
    return {"operands": [o], "args": {"k": int(rng.integers(-6, 7)), "pass_k": r < 0.85}}


def _g_diagonal(rng):
    shp = list(rand_shape(rng, 2, 4, max_size=120))
    nd = len(shp)
    a1, a2 = (int(v) for v in rng.choice(nd, size=2, replace=False))
    default = bool(rng.random() < 0.15)
    if default:
        a1, a2 = 0, 1
    shp[a2] = shp[a1]  # sparse.diagonal documents a ValueError for a non-square axis pair ("offsets in [-n, n]")
    o = operand(rng, shape=shp)
    n = max(shp[a1], shp[a2])
    if default:
        return {"operands": [o], "args": {"default": True, "offset": 0, "axis1": 0, "axis2": 1}}
    return {"operands": [o], "args": {"default": False, "offset": int(rng.integers(-n - 1, n + 2)), "axis1": _neg(rng, a1, nd), "axis2": _neg(rng, a2, nd)}}


def _g_diagonalize(rng):
    o = operand(rng, min_rank=1, max_rank=3, fills=("zero",), max_size=40)
    nd = o["dense"].ndim
    r = rng.random()
    return {"operands": [o], "args": {"axis": int(rng.integers(0, nd)), "pass_axis": r < 0.8}}


def _ref_diagonalize(N, ds, a):
    d = ds[0]
    ax = a["axis"] if a["pass_axis"] else 0
    out = N.zeros(d.shape + (d.shape[ax],), dtype=d.dtype)
    for idx in N.ndindex(*d.shape):
        out[idx + (idx[ax],)] = d[idx]
    return out


def _g_take(rng):
    o = operand(rng, min_rank=1, max_rank=3, zero_extent=False, max_size=60)
    d = o["dense"]
    nd = d.ndim
    axis = int(rng.integers(-nd, nd)) if rng.random() < 0.85 else None
    size = d.size if axis is None else d.shape[axis]
    n = int(rng.integers(0, 6))
    ind = rng.integers(-size, size, size=n)
    idt = rng.choice([np.int64, np.int32, np.uint8, np.intp]) if (ind >= 0).all() else rng.choice([np.int64, np.int32, np.int8])
    r = rng.random()
    indices = ind.astype(idt) if r < 0.8 else [int(v) for v in ind]
    return {"operands": [o, {"raw": indices}], "args": {"axis": axis}}


C09_JOIN_CA = _t("concatenate(compressed_axes=)", lambda S, xs, a: S.concatenate(xs, axis=a["axis"], compressed_axes=a["compressed_axes"]), _ref_join(False), _g_join_ca, ("gcxs",),
                 custom=_custom_join_ca)
C09 = [
    _t("concatenate", _sp_join("concatenate"), _ref_join(False), _g_join("concatenate"), ALL, weight=2),
    _t("concat", _sp_join("concat"), _ref_join(False), _g_join("concat"), ALL),
    _t("stack", _sp_join("stack"), _ref_join(True), _g_join("stack"), ALL, weight=2),
    C09_JOIN_CA,
    _t("triu", lambda S, xs, a: S.triu(xs[0], a["k"]) if a["pass_k"] else S.triu(xs[0]), lambda N, ds, a: N.triu(ds[0], a["k"] if a["pass_k"] else 0), _g_tri, ALL),
    _t("tril", lambda S, xs, a: S.tril(xs[0], a["k"]) if a["pass_k"] else S.tril(xs[0]), lambda N, ds, a: N.tril(ds[0], a["k"] if a["pass_k"] else 0), _g_tri, ALL),
    _t("triu(k=)", lambda S, xs, a: S.triu(xs[0], k=a["k"]), lambda N, ds, a: N.triu(ds[0], k=a["k"]), _g_tri, ALL),
    _t("diagonal", lambda S, xs, a: S.diagonal(xs[0]) if a["default"] else S.diagonal(xs[0], offset=a["offset"], axis1=a["axis1"], axis2=a["axis2"]),
       lambda N, ds, a: N.diagonal(ds[0], offset=a["offset"], axis1=a["axis1"], axis2=a["axis2"]), _g_diagonal, ALL),
    _t("diagonalize", lambda S, xs, a: S.diagonalize(xs[0], axis=a["axis"]) if a["pass_axis"] else S.diagonalize(xs[0]), _ref_diagonalize, _g_diagonalize, ALL),
    _t("take", lambda S, xs, a: S.take(xs[0], xs[1], axis=a["axis"]), lambda N, ds, a: N.take(ds[0], N.asarray(ds[1], dtype=N.int64) if not len(ds[1]) else ds[1], axis=a["axis"]), _g_take, ALL),
]


# ===============================================================================================================
# C10 — searching / sorting / sets: nonzero & argwhere on GCXS / DOK, COO.nonzero(), dtypes beyond int64/float64/bool
# ===============================================================================================================

DT_C10 = ["bool", "uint8", "int8", "int16", "int64", "uint32", "float32", "float64"]


def _g_c10(min_rank=1, zero_fill=False, allow_zero_extent=True):
    def g(rng):
        o = operand(rng, min_rank=min_rank, max_rank=4, dtypes=DT_C10, fills=("zero",) if zero_fill else ("zero", "nonzero", "nonzero"), zero_extent=allow_zero_extent,
                    max_size=100)
        return {"operands": [o], "args": {}}
    return g


def _g_sort(rng):
    o = operand(rng, min_rank=1, max_rank=4, dtypes=DT_C10, fills=("zero", "nonzero", "nonzero"), max_size=100)
    nd = o["dense"].ndim
    r = rng.random()
    return {"operands": [o], "args": {"axis": int(rng.integers(-nd, nd)), "pass_axis": r < 0.8, "descending": bool(rng.random() < 0.5)}}


def _ref_sort(N, ds, a):
    ax = a["axis"] if a["pass_axis"] else -1
    r = N.sort(ds[0], axis=ax, kind="stable")
    return N.flip(r, axis=ax) if a["descending"] else r


def _g_argminmax(rng):
    o = operand(rng, min_rank=1, max_rank=4, dtypes=DT_C10, fills=("zero", "nonzero", "nonzero"), zero_extent=False, max_size=100)
    nd = o["dense"].ndim
    r = rng.random()
    axis = None if r < 0.3 else int(rng.integers(-nd, nd))
    return {"operands": [o], "args": {"axis": axis, "keepdims": bool(rng.random() < 0.5), "default": bool(r < 0.1)}}


def _custom_index_result(got, ref, xs, ds, a):
    """argmax/argmin: an integer array (any integer dtype) with NumPy's shape and values"""
    import sparse

    if not isinstance(got, sparse.SparseArray):
        return f"result is {type(got).__name__}, not a sparse array"
    p = impl.canonical_problem(got)
    if p:
        return f"result not canonical: {p}"
    g, r = got.todense(), np.asarray(ref)
    if g.dtype.kind not in "iu":
        return f"index dtype {g.dtype}"
    if g.shape != r.shape:
        return f"shape {g.shape}, numpy {r.shape}"
    if not np.array_equal(g, r):
        return f"values differ: got {g.tolist()!r:.160} numpy {r.tolist()!r:.160}"
    return None


def _custom_index_tuple(got, ref, xs, ds, a):
    if not isinstance(got, tuple) or len(got) != len(ref):
        return f"result {type(got).__name__} of length {len(got) if hasattr(got, '__len__') else '?'}, numpy tuple of {len(ref)}"
    g = [np.asarray(v).tolist() for v in got]
    r = [v.tolist() for v in ref]
    if g != r:
        return f"indices {g!r:.200} numpy {r!r:.200}"
    for v in got:
        if np.asarray(v).dtype.kind not in "iu":
            return f"index dtype {np.asarray(v).dtype}"
    return None


def _custom_argwhere(got, ref, xs, ds, a):
    g, r = np.asarray(got), np.asarray(ref)
    if g.shape != r.shape or g.tolist() != r.tolist():
        return f"argwhere {g.tolist()!r:.200} shape {g.shape} numpy {r.tolist()!r:.200} shape {r.shape}"
    return None


def _custom_unique_values(got, ref, xs, ds, a):
    g, r = np.asarray(got), np.asarray(ref)
    if g.dtype != r.dtype:
        return f"dtype {g.dtype}, numpy {r.dtype}"
    if g.shape != r.shape or not oracle.same_values(g, r):
        return f"values {g.tolist()!r:.200} numpy {r.tolist()!r:.200}"
    return None


def _custom_unique_counts(got, ref, xs, ds, a):
    gv, gc = np.asarray(got.values), np.asarray(got.counts)
    if gv.dtype != ref[0].dtype:
        return f"dtype {gv.dtype}, numpy {ref[0].dtype}"
    if gv.tolist() != ref[0].tolist() or gc.tolist() != ref[1].tolist():
        return f"values/counts {gv.tolist()!r:.150} {gc.tolist()!r:.150} numpy {ref[0].tolist()!r:.150} {ref[1].tolist()!r:.150}"
    return None


C10 = [
    _t("nonzero", lambda S, xs, a: S.nonzero(xs[0]), lambda N, ds, a: N.nonzero(ds[0]), _g_c10(zero_fill=True), ALL, custom=_custom_index_tuple),
    _t("x.nonzero()", lambda S, xs, a: xs[0].nonzero(), lambda N, ds, a: N.nonzero(ds[0]), _g_c10(zero_fill=True), ("coo",), custom=_custom_index_tuple),
    _t("argwhere", lambda S, xs, a: S.argwhere(xs[0]), lambda N, ds, a: N.argwhere(ds[0]), _g_c10(zero_fill=True), ALL, custom=_custom_argwhere),
    _t("where(cond)", lambda S, xs, a: S.where(xs[0]), lambda N, ds, a: N.nonzero(ds[0]), _g_c10(zero_fill=True), ALL, custom=_custom_index_tuple),
    _t("sort", lambda S, xs, a: S.sort(xs[0], axis=a["axis"], descending=a["descending"]) if a["pass_axis"] else S.sort(xs[0], descending=a["descending"]), _ref_sort, _g_sort, ALL),
    _t("argmax", lambda S, xs, a: S.argmax(xs[0]) if a["default"] else S.argmax(xs[0], axis=a["axis"], keepdims=a["keepdims"]),
       lambda N, ds, a: N.argmax(ds[0]) if a["default"] else N.argmax(ds[0], axis=a["axis"], keepdims=a["keepdims"]), _g_argminmax, ALL, custom=_custom_index_result),
    _t("argmin", lambda S, xs, a: S.argmin(xs[0]) if a["default"] else S.argmin(xs[0], axis=a["axis"], keepdims=a["keepdims"]),
       lambda N, ds, a: N.argmin(ds[0]) if a["default"] else N.argmin(ds[0], axis=a["axis"], keepdims=a["keepdims"]), _g_argminmax, ALL, custom=_custom_index_result),
    _t("unique_values", lambda S, xs, a: S.unique_values(xs[0]), lambda N, ds, a: N.unique(ds[0]), _g_c10(), ALL, custom=_custom_unique_values),
    _t("unique_counts", lambda S, xs, a: S.unique_counts(xs[0]), lambda N, ds, a: N.unique(ds[0], return_counts=True), _g_c10(), ALL, custom=_custom_unique_counts),
]

TABLES.update({"C08": C08, "C09": C09, "C10": C10})
QUICK.update({"C08": 500, "C09": 400, "C10": 300})
THOROUGH.update({"C08": 6000, "C09": 5000, "C10": 4000})


# ===============================================================================================================
# C01 — element-wise: every ufunc of the namespace x every format (round-robin instead of by chance), all operators
#       incl. reflected / in-place / unary / <= << >> ~, the namespace functions (abs, astype, round, clip, real, imag,
#       isposinf, isneginf, equal, where) and method spellings, dtype=/out=/casting=, dtypes incl. float16 / complex64 /
#       narrow ints, fills incl. nan / inf / -0.0, 0-d and zero-extent operands.   Judged by C01's own comparator
#       (shape, dtype, every element incl. the sign of zero, canonical form, ValueError rule for dense mixes) plus the
#       property's fill rule: fill(result) == f(fill(operands)).
# ===============================================================================================================

import operator as _op

def _bshapes(rng, n, max_rank=3):
    res = rand_shape(rng, 0, max_rank, max_size=80)
    out = []
    for _ in range(n):
        lead = int(rng.integers(0, len(res) + 1)) if rng.random() < 0.35 else 0
        out.append(tuple(1 if (d != 1 and rng.random() < 0.3) else d for d in res[lead:]))
    return res, out


def _g_elem(arity, dtypes=DT_ALL, second=("sparse", "sparse", "scalar", "dense", "pyscalar"), same_shape=False, nonfinite=True, fills=None):
    """operand 0 is sparse (format under test); the others are sparse (any format), NumPy scalars, Python scalars or dense arrays"""
    def g(rng):
        res, shapes = _bshapes(rng, arity)
        if same_shape:
            shapes = [res] * arity
        ops = []
        kinds = []
        for j, s in enumerate(shapes):
            kind = "sparse" if j == 0 else str(rng.choice(list(second)))
            dt = str(rng.choice(dtypes))
            kw = {"fills": fills} if fills else {}
            o = operand(rng, shape=s, dtype=dt, nonfinite=nonfinite, **kw)
            if kind == "sparse":
                ops.append(o)
            elif kind == "dense":
                ops.append({"raw": o["dense"]})
            elif kind == "scalar":
                d = o["dense"]
                ops.append({"raw": d.ravel()[0] if d.size else o["fill"]})
            else:
                d = o["dense"]
                v = (d.ravel()[0] if d.size else o["fill"]).item()
                ops.append({"raw": v})
            kinds.append(kind)
        return {"operands": ops, "args": {}, "mixed_formats": True}
    return g


def _no_zero_extent(g):
    def h(rng):
        for _ in range(20):
            spec = g(rng)
            if spec and all(0 not in np.shape(o.get("dense", o.get("raw"))) for o in spec["operands"]):
                return spec
        return None
    return h


def _elem(name, f, arity, gen_=None, formats=ALL, fill="func", **kw):
    """f(N-or-S agnostic): called as f(*operands) on both sides"""
    return Op(name, (lambda S, xs, a, f=f: f(*xs)), (lambda N, ds, a, f=f: f(*ds)), gen_ or _g_elem(arity), formats, fill=fill, note="elemwise", tol="**" in name, **kw)


def _swap(f):
    return lambda a, b: f(b, a)


_BIN = {"+": _op.add, "-": _op.sub, "*": _op.mul, "/": _op.truediv, "//": _op.floordiv, "%": _op.mod, "**": _op.pow, "&": _op.and_, "|": _op.or_, "^": _op.xor,
        "<<": _op.lshift, ">>": _op.rshift, "<": _op.lt, "<=": _op.le, ">": _op.gt, ">=": _op.ge, "==": _op.eq, "!=": _op.ne}
_IBIN = {"+=": _op.iadd, "-=": _op.isub, "*=": _op.imul, "/=": _op.itruediv, "//=": _op.ifloordiv, "%=": _op.imod, "**=": _op.ipow, "&=": _op.iand, "|=": _op.ior, "^=": _op.ixor,
         "<<=": _op.ilshift, ">>=": _op.irshift}
_INT_ONLY = {"&", "|", "^", "<<", ">>", "&=", "|=", "^=", "<<=", ">>="}


def _inplace(f):
    def g(x, y):
        # in-place on a private copy of the left operand (sparse: the operator rebinds or mutates; NumPy: mutates)
        import copy
        z = copy.deepcopy(x) if not isinstance(x, np.ndarray) else x.copy()
        return f(z, y)
    return g


def _g_reflected(dtypes):
    """left operand: Python scalar / NumPy scalar / list-free; right operand: the sparse array"""
    state = {"n": 0}

    def g(rng):
        o = operand(rng, max_rank=3, dtype=str(rng.choice(dtypes)), nonfinite=True, max_size=80)
        k = np.dtype(o["dense"].dtype).kind
        r = rng.random()
        state["n"] += 1
        if state["n"] % 2:  # every other visit a Python scalar: only those reach the reflected method (a NumPy scalar on the left goes through the ufunc)
            r = r / 2
        if r < 0.5:
            v = int(rng.integers(-3, 4)) if k != "b" else bool(rng.integers(2))
            if k == "u":
                v = abs(v)
        elif r < 0.7:
            v = float(rng.choice([0.5, -1.5, 2.0, 0.0]))
        else:
            v = np.dtype(str(rng.choice(dtypes))).type(int(rng.integers(0, 4)))
        return {"operands": [{"raw": v}, o], "args": {}}
    return g


def _fmt0_second(spec_gen):
    """the format under test applies to the first *sparse* operand; build_operands does that for index 0 only, so mark the rest"""
    return spec_gen


def _g_astype(rng):
    tgt = str(rng.choice(DT_ALL))
    # (nan / inf -> integer is undefined behaviour in C and differs between NumPy's scalar and array loops: finite fills for integer targets)
    fills = ("zero", "zero", "nonzero", "negzero") if np.dtype(tgt).kind in "iub" else ("zero", "zero", "nonzero", "nan", "inf", "negzero")
    o = operand(rng, max_rank=3, nonfinite=False, max_size=80, fills=fills)
    return {"operands": [o], "args": {"dtype": tgt, "copy": bool(rng.random() < 0.5), "casting": str(rng.choice(["unsafe", "unsafe", "same_kind", "safe"]))}}


def _g_round(rng):
    o = operand(rng, max_rank=3, dtypes=["int8", "int64", "uint8", "float32", "float64", "complex128", "float16"], nonfinite=True, max_size=80)
    if o["dense"].dtype.kind == "f":
        o["dense"] = (o["dense"] * o["dense"].dtype.type(1.25)).astype(o["dense"].dtype)  # quarters and eighths: rounding to 1 decimal matters
        o["fill"] = (np.asarray(o["fill"]) * o["dense"].dtype.type(1.25)).astype(o["dense"].dtype)[()]
        # keep unstored places equal to the (scaled) fill: the scaling was applied to the whole array
    return {"operands": [o], "args": {"decimals": int(rng.integers(-1, 3))}}


def _g_clip(rng):
    o = operand(rng, max_rank=3, dtypes=["int8", "int64", "uint8", "float32", "float64", "float16", "uint32"], nonfinite=True, max_size=80)
    k = o["dense"].dtype.kind
    lo, hi = (0, 2) if k == "u" else (-1, 2)
    r = rng.random()
    a = {"min": lo, "max": hi}
    if r < 0.25:
        a["min"] = None
    elif r < 0.5:
        a["max"] = None
    elif r < 0.6:
        a = {"min": float(lo) + 0.5, "max": float(hi) + 0.5}
    return {"operands": [o], "args": a}


def _g_where3(rng):
    res, shapes = _bshapes(rng, 3)
    c = operand(rng, shape=shapes[0], dtype="bool", fills=("zero", "nonzero"))
    ops = [c]
    for s in shapes[1:]:
        kind = str(rng.choice(["sparse", "sparse", "scalar", "dense"]))
        o = operand(rng, shape=s, nonfinite=True)
        if kind == "sparse":
            ops.append(o)
        elif kind == "dense":
            ops.append({"raw": o["dense"]})
        else:
            ops.append({"raw": o["dense"].ravel()[0] if o["dense"].size else o["fill"]})
    return {"operands": ops, "args": {}, "mixed_formats": True}


def _g_ufunc_dtype(arity):
    def g(rng):
        spec = _g_elem(arity, dtypes=["int8", "uint8", "int64", "float32", "float64", "bool"], second=("sparse", "scalar"))(rng)
        spec["args"] = {"dtype": str(rng.choice(["float64", "float32", "int64", "complex128", "int16"])), "casting": str(rng.choice(["same_kind", "unsafe", "safe"])),
                        "pass_casting": bool(rng.random() < 0.4)}
        return spec
    return g


def _uf_kw(a):
    kw = {"dtype": np.dtype(a["dtype"])}
    if a["pass_casting"]:
        kw["casting"] = a["casting"]
    return kw


def _g_ufunc_out(rng):
    """np.<ufunc>(x, y, out=z): z a sparse array of the result's shape; afterwards z holds the result"""
    res = rand_shape(rng, 1, 3, zero_extent=False, max_size=60)
    dt = str(rng.choice(["int64", "float64", "float32", "complex128"]))
    ops = [operand(rng, shape=res, dtype=dt), operand(rng, shape=res, dtype=dt)]
    return {"operands": ops, "args": {"ufunc": str(rng.choice(["add", "multiply", "subtract", "maximum"]))}, "mixed_formats": False}


def _sp_out(S, xs, a):
    z = xs[0].__class__.from_numpy(np.zeros(xs[0].shape, dtype=xs[0].dtype)) if not isinstance(xs[0], S.GCXS) else S.GCXS.from_numpy(np.zeros(xs[0].shape, dtype=xs[0].dtype),
                                                                                                                               compressed_axes=xs[0].compressed_axes)
    r = getattr(np, a["ufunc"])(xs[0], xs[1], out=z)
    if r is not z and not isinstance(r, type(z)):
        raise AssertionError(f"out= returned {type(r).__name__}")
    return r


def _ref_out(N, ds, a):
    z = N.zeros(ds[0].shape, dtype=ds[0].dtype)
    return getattr(N, a["ufunc"])(ds[0], ds[1], out=z)


_UNARY_UF = ["abs", "acos", "acosh", "asin", "asinh", "atan", "atanh", "bitwise_invert", "bitwise_not", "ceil", "conj", "cos", "cosh", "exp", "expm1", "floor", "isfinite",
             "log", "log10", "log1p", "log2", "logical_not", "negative", "positive", "sign", "sin", "sinh", "sqrt", "square", "tan", "tanh", "trunc"]
_BINARY_UF = ["add", "atan2", "bitwise_and", "bitwise_left_shift", "bitwise_or", "bitwise_right_shift", "bitwise_xor", "divide", "floor_divide", "greater", "greater_equal",
              "less", "less_equal", "logaddexp", "logical_and", "logical_or", "logical_xor", "multiply", "not_equal", "pow", "remainder", "subtract", "equal"]
_NPNAME = {"abs": "absolute", "acos": "arccos", "acosh": "arccosh", "asin": "arcsin", "asinh": "arcsinh", "atan": "arctan", "atanh": "arctanh", "atan2": "arctan2",
           "bitwise_invert": "invert", "bitwise_not": "invert", "bitwise_left_shift": "left_shift", "bitwise_right_shift": "right_shift", "pow": "power", "conj": "conjugate"}


# power: ndarray.__pow__ special-cases the exponents 2, 0.5, … (bool ** 2 is np.square -> int8, np.power -> int64), and complex power takes different inner loops
# for a 0-d/scalar exponent than for an array (last-bit and inf/nan-pattern differences): NumPy's accidents, not the property.  Complex and bool power stay
# with C01's own leg C (NumPy scalars, finite values).
_DT_POW = ["uint8", "int8", "int16", "int64", "uint32", "float16", "float32", "float64"]
_POW_KW = {"nonfinite": False, "fills": ("zero", "zero", "nonzero")}  # (pow at inf / nan / -0.0 is where libm's scalar and vector paths disagree)


def _c01_table():
    t = []
    # (1) every element-wise function of the namespace, spelled sparse.<name>(…), on every format
    for n in _UNARY_UF:
        dts = DT_INT if n.startswith("bitwise") else DT_ALL
        t.append(Op(f"sparse.{n}", (lambda S, xs, a, n=n: getattr(S, n)(xs[0])), (lambda N, ds, a, n=n: getattr(N, _NPNAME.get(n, n))(ds[0])), _g_elem(1, dtypes=dts), ALL,
                    fill="func", note="elemwise"))
    for n in _BINARY_UF:
        dts = DT_INT if n.startswith("bitwise") else (_DT_POW if n == "pow" else DT_ALL)
        t.append(Op(f"sparse.{n}", (lambda S, xs, a, n=n: getattr(S, n)(xs[0], xs[1])), (lambda N, ds, a, n=n: getattr(N, _NPNAME.get(n, n))(ds[0], ds[1])),
                    _g_elem(2, dtypes=dts, **(_POW_KW if n == "pow" else {})), ALL, fill="func", note="elemwise", tol=(n == "pow")))
    # (2) operators: binary (sparse on the left), reflected (scalar on the left), in-place, unary
    for sym, f in _BIN.items():
        dts = DT_INT if sym in _INT_ONLY else (_DT_POW if sym == "**" else DT_ALL)
        t.append(_elem(f"x {sym} y", f, 2, _g_elem(2, dtypes=dts, **(_POW_KW if sym == "**" else {}))))
        if sym not in ("<", "<=", ">", ">=", "==", "!="):
            t.append(Op(f"scalar {sym} x", (lambda S, xs, a, f=f: f(xs[0], xs[1])), (lambda N, ds, a, f=f: f(ds[0], ds[1])), _g_reflected(_DT_POW if sym == "**" else dts), ALL, fill="func",
                        note="elemwise-reflected", tol=(sym == "**")))
    for sym, f in _IBIN.items():
        dts = DT_INT if sym in _INT_ONLY else (_DT_POW if sym == "**=" else DT_ALL)
        t.append(_elem(f"x {sym} y", _inplace(f), 2, _g_elem(2, dtypes=dts, second=("sparse", "scalar", "pyscalar"), **(_POW_KW if sym == "**=" else {}))))
    for nm, f in (("-x", _op.neg), ("+x", _op.pos), ("abs(x)", abs), ("~x", _op.invert)):
        t.append(_elem(nm, f, 1, _g_elem(1, dtypes=DT_INT if nm == "~x" else DT_ALL)))
    # (3) namespace functions and methods named by the property
    t += [
        Op("sparse.astype", lambda S, xs, a: S.astype(xs[0], np.dtype(a["dtype"]), copy=a["copy"]), lambda N, ds, a: ds[0].astype(N.dtype(a["dtype"])), _g_astype, ALL, fill="func",
           note="elemwise"),
        Op("x.astype(casting=,copy=)", lambda S, xs, a: xs[0].astype(np.dtype(a["dtype"]), casting=a["casting"], copy=a["copy"]),
           lambda N, ds, a: ds[0].astype(N.dtype(a["dtype"]), casting=a["casting"], copy=a["copy"]), _g_astype, ALL, fill="func", note="elemwise"),
        Op("sparse.round", lambda S, xs, a: S.round(xs[0], decimals=a["decimals"]), lambda N, ds, a: N.round(ds[0], a["decimals"]), _g_round, ALL, fill="func", note="elemwise"),
        Op("sparse.round(default)", lambda S, xs, a: S.round(xs[0]), lambda N, ds, a: N.round(ds[0]), _g_round, ALL, fill="func", note="elemwise"),
        Op("x.round", lambda S, xs, a: xs[0].round(a["decimals"]), lambda N, ds, a: N.round(ds[0], a["decimals"]), _g_round, ALL, fill="func", note="elemwise"),
        Op("x.round_", lambda S, xs, a: xs[0].round_(a["decimals"]), lambda N, ds, a: N.round(ds[0], a["decimals"]), _g_round, ALL, fill="func", note="elemwise"),
        Op("sparse.clip", lambda S, xs, a: S.clip(xs[0], a["min"], a["max"]), lambda N, ds, a: N.clip(ds[0], a["min"], a["max"]), _g_clip, ALL, fill="func", note="elemwise"),
        Op("x.clip", lambda S, xs, a: xs[0].clip(a["min"], a["max"]), lambda N, ds, a: N.clip(ds[0], a["min"], a["max"]), _g_clip, ALL, fill="func", note="elemwise"),
        Op("x.clip(min=,max=)", lambda S, xs, a: xs[0].clip(min=a["min"], max=a["max"]), lambda N, ds, a: N.clip(ds[0], a["min"], a["max"]), _g_clip, ALL, fill="func", note="elemwise"),
        Op("sparse.real", lambda S, xs, a: S.real(xs[0]), lambda N, ds, a: N.real(ds[0]), _g_elem(1), ALL, fill="func", note="elemwise"),
        Op("sparse.imag", lambda S, xs, a: S.imag(xs[0]), lambda N, ds, a: N.imag(ds[0]), _g_elem(1), ALL, fill="func", note="elemwise"),
        Op("x.real", lambda S, xs, a: xs[0].real, lambda N, ds, a: ds[0].real, _g_elem(1), ALL, fill="func", note="elemwise"),
        Op("x.imag", lambda S, xs, a: xs[0].imag, lambda N, ds, a: ds[0].imag, _g_elem(1), ALL, fill="func", note="elemwise"),
        Op("x.conj()", lambda S, xs, a: xs[0].conj(), lambda N, ds, a: N.conj(ds[0]), _g_elem(1), ALL, fill="func", note="elemwise"),
        Op("sparse.isnan", lambda S, xs, a: S.isnan(xs[0]), lambda N, ds, a: N.isnan(ds[0]), _g_elem(1), ALL, fill="func", note="elemwise"),
        Op("sparse.isinf", lambda S, xs, a: S.isinf(xs[0]), lambda N, ds, a: N.isinf(ds[0]), _g_elem(1), ALL, fill="func", note="elemwise"),
        Op("x.isnan()", lambda S, xs, a: xs[0].isnan(), lambda N, ds, a: N.isnan(ds[0]), _g_elem(1), ALL, fill="func", note="elemwise"),
        Op("x.isinf()", lambda S, xs, a: xs[0].isinf(), lambda N, ds, a: N.isinf(ds[0]), _g_elem(1), ALL, fill="func", note="elemwise"),
        Op("sparse.isposinf", lambda S, xs, a: S.isposinf(xs[0]), lambda N, ds, a: N.isposinf(ds[0]), _g_elem(1, dtypes=DT_REAL + ["float16"]), ALL, fill="func", note="elemwise"),
        Op("sparse.isneginf", lambda S, xs, a: S.isneginf(xs[0]), lambda N, ds, a: N.isneginf(ds[0]), _g_elem(1, dtypes=DT_REAL + ["float16"]), ALL, fill="func", note="elemwise"),
        Op("sparse.where(c,x,y)", lambda S, xs, a: S.where(xs[0], xs[1], xs[2]), lambda N, ds, a: N.where(ds[0], ds[1], ds[2]), _g_where3, ALL, fill="func", note="elemwise"),
        Op("sparse.elemwise(ufunc)", lambda S, xs, a: S.elemwise(np.hypot, xs[0], xs[1]), lambda N, ds, a: N.hypot(ds[0], ds[1]), _g_elem(2, dtypes=DT_REAL), ALL, fill="func", note="elemwise"),
        Op("sparse.elemwise(lambda)", lambda S, xs, a: S.elemwise(lambda u, v, w: u * v + w, xs[0], xs[1], xs[2]), lambda N, ds, a: ds[0] * ds[1] + ds[2],
           _g_elem(3, dtypes=DT_NUM, second=("sparse", "scalar")), ALL, fill="func", note="elemwise"),
        # (4) dtype= / casting= / out=
        Op("np.negative(x, dtype=)", lambda S, xs, a: np.negative(xs[0], **_uf_kw(a)), lambda N, ds, a: N.negative(ds[0], **_uf_kw(a)), _g_ufunc_dtype(1), ALL, fill="func", note="elemwise"),
        Op("np.add(x, y, dtype=)", lambda S, xs, a: np.add(xs[0], xs[1], **_uf_kw(a)), lambda N, ds, a: N.add(ds[0], ds[1], **_uf_kw(a)), _g_ufunc_dtype(2), ALL, fill="func", note="elemwise"),
        Op("np.multiply(x, y, dtype=)", lambda S, xs, a: np.multiply(xs[0], xs[1], **_uf_kw(a)), lambda N, ds, a: N.multiply(ds[0], ds[1], **_uf_kw(a)), _g_ufunc_dtype(2), ALL, fill="func",
           note="elemwise"),
        Op("np.<ufunc>(x, y, out=z)", _sp_out, _ref_out, _g_ufunc_out, ALL, fill="func", note="elemwise-out"),
        # (5) the operator / ufuncs with two results: the pair, or a clean refusal for the ufuncs
        Op("divmod(x, y)", lambda S, xs, a: divmod(xs[0], xs[1]), lambda N, ds, a: divmod(ds[0], ds[1]), _g_elem(2, dtypes=["int8", "uint8", "int64", "float32", "float64"],
                                                                                                                  second=("sparse", "scalar", "pyscalar"), nonfinite=False), ALL, fill="none"),
        # (no zero-extent operands here: NumPy formats the operands into its TypeError message, and str() of an array without columns is the listed
        #  finding F-c18-str-no-columns-assertion)
        Op("np.modf(x)", lambda S, xs, a: np.modf(xs[0]), lambda N, ds, a: N.modf(ds[0]), _no_zero_extent(_g_elem(1, dtypes=DT_FLOAT, nonfinite=False)), ALL, fill="none",
           refusal_ok=("type", "value")),
    ]
    return t


TABLES["C01"] = _c01_table()
QUICK["C01"] = 900
THOROUGH["C01"] = 12000


# ===============================================================================================================
# C03 — reductions: the namespace spellings (keyword-only axis/keepdims/dtype/correction), amax/amin, x.reduce, nanreduce,
#       ufunc.reduce with dtype=, dtype= requests on every reduction that takes one, dtypes bool/int8/uint8/int16/uint32/
#       float32/complex, COO and GCXS (the property's formats), 0-d, length-0 and length-1 axes, negative / permuted axes
# ===============================================================================================================

def _rand_axes(rng, nd):
    r = rng.random()
    if r < 0.2:
        return None
    k = int(rng.integers(0, nd + 1))
    axes = [int(v) for v in rng.permutation(nd)[:k]]
    axes = [v - nd if rng.random() < 0.35 else v for v in axes]
    if len(axes) == 1 and rng.random() < 0.6:
        return axes[0]
    return tuple(axes)


def _g_red(dtypes, with_dtype=None, nan=False, max_size=60, fills=("zero", "zero", "nonzero", "nonzero"), extra=None):
    def g(rng):
        dt = str(rng.choice(dtypes))
        o = operand(rng, max_rank=4, dtype=dt, fills=fills, max_size=max_size, lo=-2 if max_size <= 40 else None, hi=2 if max_size <= 40 else None)
        if nan and o["dense"].dtype.kind == "f" and o["dense"].size:
            m = rng.random(size=o["dense"].shape) < 0.2
            o["dense"] = np.where(m, np.nan, o["dense"]).astype(o["dense"].dtype)
        a = {"axis": _rand_axes(rng, o["dense"].ndim), "keepdims": bool(rng.random() < 0.4)}
        if with_dtype:
            a["dtype"] = str(rng.choice(with_dtype)) if rng.random() < 0.7 else None
            if a["dtype"] and not np.can_cast(o["dense"].dtype, np.dtype(a["dtype"]), "same_kind"):
                # a request NumPy refuses under its casting rule — except on its no-op paths (no axis reduced, lanes of length one), where the check is
                # skipped: an accident, not a specification.  Only admissible requests are generated.
                a["dtype"] = None
        if extra:
            a.update(extra(rng))
        return {"operands": [o], "args": a}
    return g


def _kw(a, *names):
    kw = {}
    for n in names:
        if n in a and not (n == "dtype" and a[n] is None):
            kw[n] = np.dtype(a[n]) if n == "dtype" else a[n]
    return kw


def _red(name, sp, ref, gen_, **kw):
    return Op(name, sp, ref, gen_, CG, fill="none", tol=True, sparse_result=False, note="reduction", **kw)


_SUM_DT = ["bool", "uint8", "int8", "int16", "int64", "uint32", "float32", "float64", "complex128"]
_ORD_DT = ["bool", "uint8", "int8", "int16", "int64", "uint32", "float16", "float32", "float64"]
_ANY_DT = DT_ALL
_REQ_DT = ["float64", "float32", "int64", "complex128", "uint8", "int16"]


def _c03_table():
    t = []
    for n in ("sum", "prod"):
        small = 40 if n == "prod" else 60
        t.append(_red(f"sparse.{n}", (lambda S, xs, a, n=n: getattr(S, n)(xs[0], **_kw(a, "axis", "keepdims", "dtype"))),
                      (lambda N, ds, a, n=n: getattr(N, n)(ds[0], **_kw(a, "axis", "keepdims", "dtype"))), _g_red(_SUM_DT, with_dtype=_REQ_DT, max_size=small)))
        t.append(_red(f"x.{n}(dtype=)", (lambda S, xs, a, n=n: getattr(xs[0], n)(**_kw(a, "axis", "keepdims", "dtype"))),
                      (lambda N, ds, a, n=n: getattr(N, n)(ds[0], **_kw(a, "axis", "keepdims", "dtype"))), _g_red(_SUM_DT, with_dtype=_REQ_DT, max_size=small)))
    for n in ("max", "min"):
        t.append(_red(f"sparse.{n}", (lambda S, xs, a, n=n: getattr(S, n)(xs[0], **_kw(a, "axis", "keepdims"))),
                      (lambda N, ds, a, n=n: getattr(N, n)(ds[0], **_kw(a, "axis", "keepdims"))), _g_red(_ORD_DT)))
        t.append(_red(f"x.{n}", (lambda S, xs, a, n=n: getattr(xs[0], n)(**_kw(a, "axis", "keepdims"))),
                      (lambda N, ds, a, n=n: getattr(N, n)(ds[0], **_kw(a, "axis", "keepdims"))), _g_red(_ORD_DT)))
        t.append(_red(f"x.a{n}", (lambda S, xs, a, n=n: getattr(xs[0], "a" + n)(**_kw(a, "axis", "keepdims"))),
                      (lambda N, ds, a, n=n: getattr(N, n)(ds[0], **_kw(a, "axis", "keepdims"))), _g_red(_ORD_DT)))
    for n in ("any", "all"):
        t.append(_red(f"sparse.{n}", (lambda S, xs, a, n=n: getattr(S, n)(xs[0], **_kw(a, "axis", "keepdims"))),
                      (lambda N, ds, a, n=n: getattr(N, n)(ds[0], **_kw(a, "axis", "keepdims"))), _g_red(_ANY_DT)))
        t.append(_red(f"x.{n}", (lambda S, xs, a, n=n: getattr(xs[0], n)(**_kw(a, "axis", "keepdims"))),
                      (lambda N, ds, a, n=n: getattr(N, n)(ds[0], **_kw(a, "axis", "keepdims"))), _g_red(_ANY_DT)))
    t.append(_red("sparse.mean", lambda S, xs, a: S.mean(xs[0], **_kw(a, "axis", "keepdims", "dtype")), lambda N, ds, a: N.mean(ds[0], **_kw(a, "axis", "keepdims", "dtype")),
                  _g_red(_SUM_DT, with_dtype=["float64", "float32", "complex128"])))
    t.append(_red("x.mean(dtype=)", lambda S, xs, a: xs[0].mean(**_kw(a, "axis", "keepdims", "dtype")), lambda N, ds, a: N.mean(ds[0], **_kw(a, "axis", "keepdims", "dtype")),
                  _g_red(_SUM_DT, with_dtype=["float64", "float32", "complex128"])))
    corr = lambda rng: {"correction": int(rng.integers(0, 2)) if rng.random() < 0.8 else float(rng.choice([0.0, 1.0, 0.5]))}  # noqa: E731
    ddof = lambda rng: {"ddof": int(rng.integers(0, 2))}  # noqa: E731
    for n in ("var", "std"):
        t.append(_red(f"sparse.{n}(correction=)", (lambda S, xs, a, n=n: getattr(S, n)(xs[0], axis=a["axis"], keepdims=a["keepdims"], correction=a["correction"])),
                      (lambda N, ds, a, n=n: getattr(N, n)(ds[0], axis=a["axis"], keepdims=a["keepdims"], ddof=a["correction"])),
                      _g_red(["bool", "uint8", "int8", "int64", "float32", "float64", "complex128"], extra=corr)))
        t.append(_red(f"x.{n}(ddof=,dtype=)", (lambda S, xs, a, n=n: getattr(xs[0], n)(axis=a["axis"], keepdims=a["keepdims"], ddof=a["ddof"], **_kw(a, "dtype"))),
                      (lambda N, ds, a, n=n: getattr(N, n)(ds[0], axis=a["axis"], keepdims=a["keepdims"], ddof=a["ddof"], **_kw(a, "dtype"))),
                      _g_red(["uint8", "int8", "int64", "float32", "float64"], with_dtype=["float64", "float32"], extra=ddof)))
    for n in ("nansum", "nanprod", "nanmax", "nanmin", "nanmean"):
        wd = ["float64", "float32"] if n in ("nansum", "nanprod", "nanmean") else None
        t.append(_red(f"sparse.{n}", (lambda S, xs, a, n=n: getattr(S, n)(xs[0], **_kw(a, "axis", "keepdims", "dtype"))),
                      (lambda N, ds, a, n=n: getattr(N, n)(ds[0], **_kw(a, "axis", "keepdims", "dtype"))),
                      _g_red(["float32", "float64", "int64", "uint8"] if n != "nanmean" else ["float32", "float64"], with_dtype=wd, nan=True, max_size=40 if n == "nanprod" else 60)))
    ufs = {"add": "add", "multiply": "multiply", "maximum": "maximum", "minimum": "minimum", "logical_or": "logical_or", "logical_and": "logical_and", "bitwise_xor": "bitwise_xor",
           "bitwise_and": "bitwise_and", "bitwise_or": "bitwise_or", "fmax": "fmax", "fmin": "fmin", "logical_xor": "logical_xor"}
    pick = lambda rng: {"ufunc": str(rng.choice(list(ufs)))}  # noqa: E731

    def uf_dt(rng):
        u = str(rng.choice(["add", "multiply", "maximum", "minimum"]))
        return {"ufunc": u}

    def _sp_ufred(S, xs, a):
        return getattr(np, a["ufunc"]).reduce(xs[0], **_kw(a, "axis", "keepdims", "dtype"))

    def _ref_ufred(N, ds, a):
        return getattr(N, a["ufunc"]).reduce(ds[0], **_kw(a, "axis", "keepdims", "dtype"))

    t.append(_red("ufunc.reduce", _sp_ufred, _ref_ufred, _g_red(["bool", "uint8", "int8", "int64", "uint32"], extra=pick, max_size=40)))
    t.append(_red("ufunc.reduce(float)", _sp_ufred, _ref_ufred,
                  _g_red(["float32", "float64"], extra=lambda rng: {"ufunc": str(rng.choice(["add", "multiply", "maximum", "minimum", "fmax", "fmin", "logical_or", "logical_and"]))},
                         max_size=40)))
    t.append(_red("ufunc.reduce(dtype=)", _sp_ufred, _ref_ufred, _g_red(["bool", "uint8", "int8", "int64", "float32", "float64"], with_dtype=_REQ_DT, extra=uf_dt, max_size=40)))
    t.append(_red("x.reduce(method)", lambda S, xs, a: xs[0].reduce(getattr(np, a["ufunc"]), **_kw(a, "axis", "keepdims", "dtype")), _ref_ufred,
                  _g_red(["bool", "uint8", "int8", "int64", "float32", "float64"], with_dtype=_REQ_DT, extra=uf_dt, max_size=40)))
    identv = {"add": 0, "multiply": 1, "maximum": -np.inf, "minimum": np.inf}  # nanreduce's definition: NaNs are replaced by the identity, then reduced
    # (ufuncs without an identity need identity=: documented in nanreduce)
    ident = {"add": None, "multiply": None, "maximum": -np.inf, "minimum": np.inf}
    t.append(_red("sparse.nanreduce", lambda S, xs, a: S.nanreduce(xs[0], getattr(np, a["ufunc"]), axis=a["axis"], keepdims=a["keepdims"],
                                                                    **({} if ident[a["ufunc"]] is None else {"identity": ident[a["ufunc"]]})),
                  lambda N, ds, a: getattr(N, a["ufunc"]).reduce(N.where(N.isnan(ds[0]), ds[0].dtype.type(identv[a["ufunc"]]), ds[0]), axis=a["axis"], keepdims=a["keepdims"]),
                  _g_red(["float32", "float64"], nan=True, extra=uf_dt, max_size=40)))
    return t


TABLES["C03"] = _c03_table()
QUICK["C03"] = 500
THOROUGH["C03"] = 8000


# ===============================================================================================================
# C05 — construction / conversion spellings the chains of C05 do not pass through: asCOO / as_coo / asnumpy on every
#       format, tocoo / todok / tocsr / tocsc / change_compressed_axes / maybe_densify, the class constructors called
#       with an ndarray / a sparse array of another format / a scipy matrix / an explicit triple, from_* with idx_dtype=
#       and fill_value=, from_iter for GCXS, from_scipy_sparse for GCXS and DOK.  All are identities on the value:
#       shape, dtype, fill value and every element are preserved exactly, and the result has the class asked for.
# ===============================================================================================================

def _conv(name, sp, gen_, formats=ALL, want=None, ref=None, **kw):
    def custom(got, ref_, xs, ds, a, want=want):
        import scipy.sparse as sps
        import sparse

        w = want(a) if callable(want) else want
        if w is not None:
            cls = {"coo": sparse.COO, "gcxs": sparse.GCXS, "dok": sparse.DOK, "ndarray": np.ndarray, "scipy": None}[w]
            if (cls is None and not sps.issparse(got)) or (cls is not None and not isinstance(got, cls)):
                return f"result is {type(got).__name__}, {w} was asked for"
        g = got.toarray() if sps.issparse(got) else got
        if sps.issparse(got):
            r = np.asarray(ref_)
            if g.shape != r.shape or g.dtype != r.dtype or not oracle.same_values(g, r):
                return f"scipy result differs: shape {g.shape}/{r.shape} dtype {g.dtype}/{r.dtype}"
            return None
        if isinstance(got, sparse.GCXS) and a.get("compressed_axes") is not None and got.ndim >= 2:
            if tuple(int(v) for v in got.compressed_axes) != tuple(a["compressed_axes"]):
                return f"compressed_axes {got.compressed_axes}, requested {a['compressed_axes']}"
        return compare_result(Op("conversion", None, None, None, fill=kw.get("fill", "same"), sparse_result=False, check_dtype=kw.get("check_dtype", True)), g, ref_, xs, ds, a)
    kw.setdefault("fill", "same")
    op = Op(name, sp, ref or (lambda N, ds, a: _dense_of(ds[0])), gen_, formats, sparse_result=False, custom=custom, **kw)
    op.conv_fill = kw["fill"]
    return op


def _dense_of(d):
    import scipy.sparse as sps

    return d.toarray() if sps.issparse(d) else d


def _g_conv(min_rank=0, max_rank=4, fills=("zero", "zero", "nonzero", "nan", "inf"), extra=None, **kw):
    def g(rng):
        o = operand(rng, min_rank=min_rank, max_rank=max_rank, fills=fills, nonfinite=True, **kw)
        a = extra(rng, o) if extra else {}
        if a is None:
            return None
        return {"operands": [o], "args": a}
    return g


def _x_ca(rng, o):
    nd = o["dense"].ndim
    if nd < 2:
        return {"compressed_axes": None}
    ch = gen.compressed_axes_choices(nd)
    return {"compressed_axes": tuple(int(v) for v in ch[int(rng.integers(len(ch)))]) if rng.random() < 0.8 else None}


def _x_idx(rng, o):
    shp = o["dense"].shape
    m = max(shp, default=0)
    cands = [t for t in ("int8", "uint8", "int16", "uint16", "int32", "uint32", "int64", "uint64") if m <= np.iinfo(t).max and o["dense"].size <= np.iinfo(t).max]
    a = _x_ca(rng, o)
    a["idx_dtype"] = str(rng.choice(cands)) if (cands and rng.random() < 0.7) else None
    return a


def _g_scipy(rng):
    import scipy.sparse as sps

    o = operand(rng, min_rank=2, max_rank=2, dtypes=["bool", "int8", "int64", "uint8", "float32", "float64", "complex128"], fills=("zero",))
    kind = str(rng.choice(["csr", "csc", "coo", "csr_array", "coo_array", "lil", "dia"]))
    d = o["dense"]
    m = {"csr": sps.csr_matrix, "csc": sps.csc_matrix, "coo": sps.coo_matrix, "csr_array": sps.csr_array, "coo_array": sps.coo_array, "lil": sps.lil_matrix, "dia": sps.dia_matrix}[kind](d)
    return {"operands": [{"raw": m}], "args": {"kind": kind}}


def _g_iter(rng):
    o = operand(rng, min_rank=1, max_rank=3, dtypes=["int64", "float64", "int8", "float32", "complex128"], fills=("zero", "nonzero"), zero_extent=False)
    d, f = o["dense"], o["fill"]
    keys = np.argwhere(~_is_fill(d, f))
    perm = rng.permutation(len(keys))
    form = str(rng.choice(["dict", "pairs", "zip"]))
    a = {"form": form, "shape": tuple(d.shape), "fill": f, "dtype": str(d.dtype), "items": [(tuple(int(i) for i in keys[j]), d[tuple(keys[j])]) for j in perm]}
    a.update(_x_ca(rng, o))
    return {"operands": [{"raw": d}], "args": a}


def _iterable(a):
    items = a["items"]
    if a["form"] == "dict":
        return dict(items)
    if a["form"] == "pairs":
        return list(items)
    return iter(items)


def _custom_accept_fv(got, ref, xs, ds, a):
    """the caller accepts the fill value: stored elements keep their value, every unstored position becomes scipy's implicit zero"""
    import scipy.sparse as sps

    if not sps.issparse(got):
        return f"result is {type(got).__name__}, not a scipy.sparse matrix"
    g = got.toarray()
    d, f = ds[0], a["_fill"]
    if g.shape != d.shape or g.dtype != d.dtype:
        return f"shape/dtype {g.shape}/{g.dtype}, expected {d.shape}/{d.dtype}"
    nf = ~_is_fill(d, f)
    if not oracle.same_values(g[nf], d[nf]):
        return f"non-fill elements differ: {g.tolist()!r:.120} from {d.tolist()!r:.120}"
    rest = g[~nf]
    if rest.size and not np.all((rest == 0) | _is_fill(rest, f)):
        return f"a fill position holds neither 0 nor the fill value: {g.tolist()!r:.120}"
    return None


def _sp_maybe_densify(S, xs, a):
    try:
        return xs[0].maybe_densify(max_size=a["max_size"], min_density=a["min_density"])
    except ValueError as e:
        return ("refused", str(e))


def _custom_maybe_densify(got, ref, xs, ds, a):
    """documented: the dense array if size <= max_size or density >= min_density, otherwise ValueError"""
    x = xs[0]
    may = x.size <= a["max_size"] or (x.nnz / x.size if x.size else 1.0) >= a["min_density"]
    if isinstance(got, tuple):
        return None if not may else f"refused ({got[1][:60]}) although size {x.size} <= max_size {a['max_size']} or density {x.nnz}/{x.size} >= {a['min_density']}"
    if not may:
        return f"returned a dense array although size {x.size} > max_size {a['max_size']} and density {x.nnz}/{x.size} < {a['min_density']}"
    if not isinstance(got, np.ndarray):
        return f"result is {type(got).__name__}, not an ndarray"
    if got.shape != ref.shape or got.dtype != ref.dtype or not oracle.same_values(got, ref):
        return f"dense result differs: {got.tolist()!r:.120} expected {ref.tolist()!r:.120}"
    return None


_DT_SCIPY = [t for t in DT_ALL if t != "float16"]


def _c05_table():
    t = [
        _conv("asCOO", lambda S, xs, a: S.asCOO(xs[0]), _g_conv(), ALL, want="coo"),
        _conv("asCOO(check=False)", lambda S, xs, a: S.asCOO(xs[0], name="op", check=False), _g_conv(), ALL, want="coo"),
        _conv("as_coo(sparse)", lambda S, xs, a: S.as_coo(xs[0]), _g_conv(), ALL, want="coo"),
        _conv("asnumpy", lambda S, xs, a: S.asnumpy(xs[0]), _g_conv(), ALL, want="ndarray"),
        _conv("asnumpy(dtype=)", lambda S, xs, a: S.asnumpy(xs[0], dtype=np.dtype(a["dtype"])), _g_conv(fills=("zero", "nonzero"), extra=lambda rng, o: {"dtype": str(rng.choice(["float64", "complex128"]))},
                                                                                                            dtypes=["int8", "uint8", "int64", "float32", "float64"]), ALL, want="ndarray",
              ref=lambda N, ds, a: ds[0].astype(a["dtype"])),
        _conv("x.todense()", lambda S, xs, a: xs[0].todense(), _g_conv(), ALL, want="ndarray"),
        _conv("gcxs.tocoo()", lambda S, xs, a: xs[0].tocoo(), _g_conv(), ("gcxs",), want="coo"),
        _conv("gcxs.todok()", lambda S, xs, a: xs[0].todok(), _g_conv(min_rank=1), ("gcxs",), want="dok"),
        _conv("dok.to_coo()", lambda S, xs, a: xs[0].to_coo(), _g_conv(min_rank=1), ("dok",), want="coo"),
        # (scipy.sparse has no float16: excluded there)
        _conv("coo.tocsr()", lambda S, xs, a: xs[0].tocsr(), _g_conv(min_rank=2, max_rank=2, fills=("zero",), dtypes=_DT_SCIPY), ("coo",)),
        _conv("coo.tocsc()", lambda S, xs, a: xs[0].tocsc(), _g_conv(min_rank=2, max_rank=2, fills=("zero",), dtypes=_DT_SCIPY), ("coo",)),
        _conv("x.to_scipy_sparse()", lambda S, xs, a: xs[0].to_scipy_sparse(), _g_conv(min_rank=2, max_rank=2, fills=("zero",), dtypes=_DT_SCIPY), CG, want="scipy"),
        Op("x.to_scipy_sparse(accept_fv=)", lambda S, xs, a: xs[0].to_scipy_sparse(accept_fv=xs[0].fill_value), lambda N, ds, a: ds[0],
           _g_conv(min_rank=2, max_rank=2, fills=("nonzero", "inf"), dtypes=DT_FLOAT + ["int64"]), CG, fill="none", sparse_result=False, custom=_custom_accept_fv),
        _conv("gcxs.change_compressed_axes", lambda S, xs, a: xs[0].change_compressed_axes(a["compressed_axes"]) if a["compressed_axes"] is not None else xs[0].change_compressed_axes((0,)),
              _g_conv(min_rank=2, extra=_x_ca), ("gcxs",), want="gcxs"),
        Op("x.maybe_densify", _sp_maybe_densify, lambda N, ds, a: ds[0],
           _g_conv(extra=lambda rng, o: {"max_size": int(rng.choice([0, 10, 1000])), "min_density": float(rng.choice([0.0, 0.25, 1.0]))}), CG, fill="none", sparse_result=False,
           custom=_custom_maybe_densify),
        # class constructors called with ready-made arrays
        _conv("COO(ndarray)", lambda S, xs, a: S.COO(xs[0]), lambda rng: {"operands": [{"raw": operand(rng, fills=("zero",))["dense"]}], "args": {}}, ("coo",), want="coo", fill="zero"),
        _conv("COO(sparse)", lambda S, xs, a: S.COO(xs[0]), _g_conv(min_rank=1), ALL, want="coo"),
        _conv("COO(scipy)", lambda S, xs, a: S.COO(xs[0]), _g_scipy, ("coo",), want="coo", fill="zero"),
        _conv("GCXS(ndarray)", lambda S, xs, a: S.GCXS(xs[0], compressed_axes=a["compressed_axes"]),
              lambda rng: (lambda o: {"operands": [{"raw": o["dense"]}], "args": _x_ca(rng, o)})(operand(rng, fills=("zero",))), ("gcxs",), want="gcxs", fill="zero"),
        _conv("GCXS(sparse)", lambda S, xs, a: S.GCXS(xs[0], compressed_axes=a["compressed_axes"]), _g_conv(min_rank=1, extra=_x_ca), CG, want="gcxs"),
        _conv("GCXS(scipy)", lambda S, xs, a: S.GCXS(xs[0]), _g_scipy, ("gcxs",), want="gcxs", fill="zero"),
        _conv("DOK(ndarray)", lambda S, xs, a: S.DOK(xs[0]), lambda rng: {"operands": [{"raw": operand(rng, min_rank=1, fills=("zero",))["dense"]}], "args": {}},
              ("dok",), want="dok", fill="zero"),
        _conv("DOK(coo)", lambda S, xs, a: S.DOK(xs[0]), _g_conv(min_rank=1), ("coo",), want="dok"),
        _conv("DOK(scipy)", lambda S, xs, a: S.DOK(xs[0]), _g_scipy, ("dok",), want="dok", fill="zero"),
        _conv("DOK.from_numpy", lambda S, xs, a: S.DOK.from_numpy(xs[0]), lambda rng: {"operands": [{"raw": operand(rng, min_rank=1, fills=("zero",))["dense"]}], "args": {}}, ("dok",),
              want="dok", fill="zero"),
        _conv("DOK.from_coo", lambda S, xs, a: S.DOK.from_coo(xs[0]), _g_conv(min_rank=1), ("coo",), want="dok"),
        _conv("COO.from_numpy(fill_value=,idx_dtype=)", lambda S, xs, a: S.COO.from_numpy(xs[0], fill_value=a["_rawfill"], idx_dtype=a["idx_dtype"] and np.dtype(a["idx_dtype"])),
              lambda rng: (lambda o: {"operands": [{"raw": o["dense"]}], "args": dict(_x_idx(rng, o), _rawfill=o["fill"])})(operand(rng, min_rank=1, nonfinite=True)), ("coo",), want="coo",
              fill="none"),
        _conv("GCXS.from_numpy(compressed_axes=,fill_value=,idx_dtype=)",
              lambda S, xs, a: S.GCXS.from_numpy(xs[0], compressed_axes=a["compressed_axes"], fill_value=a["_rawfill"], idx_dtype=a["idx_dtype"] and np.dtype(a["idx_dtype"])),
              lambda rng: (lambda o: {"operands": [{"raw": o["dense"]}], "args": dict(_x_idx(rng, o), _rawfill=o["fill"])})(operand(rng, min_rank=1, nonfinite=True)), ("gcxs",), want="gcxs",
              fill="none"),
        _conv("GCXS.from_coo(compressed_axes=,idx_dtype=)", lambda S, xs, a: S.GCXS.from_coo(xs[0], compressed_axes=a["compressed_axes"], idx_dtype=a["idx_dtype"] and np.dtype(a["idx_dtype"])),
              _g_conv(min_rank=1, extra=_x_idx), ("coo",), want="gcxs"),
        _conv("COO.from_scipy_sparse", lambda S, xs, a: S.COO.from_scipy_sparse(xs[0]), _g_scipy, ("coo",), want="coo", fill="zero"),
        _conv("GCXS.from_scipy_sparse", lambda S, xs, a: S.GCXS.from_scipy_sparse(xs[0]), _g_scipy, ("gcxs",), want="gcxs", fill="zero"),
        _conv("DOK.from_scipy_sparse", lambda S, xs, a: S.DOK.from_scipy_sparse(xs[0]), _g_scipy, ("dok",), want="dok", fill="zero"),
        _conv("as_coo(scipy)", lambda S, xs, a: S.as_coo(xs[0]), _g_scipy, ("coo",), want="coo", fill="zero"),
        _conv("as_coo(ndarray, fill_value=, idx_dtype=)", lambda S, xs, a: S.as_coo(xs[0], fill_value=a["_rawfill"], idx_dtype=a["idx_dtype"] and np.dtype(a["idx_dtype"])),
              lambda rng: (lambda o: {"operands": [{"raw": o["dense"]}], "args": dict(_x_idx(rng, o), _rawfill=o["fill"])})(operand(rng, min_rank=1, nonfinite=True)), ("coo",), want="coo",
              fill="none"),
        _conv("COO.from_iter", lambda S, xs, a: S.COO.from_iter(_iterable(a), shape=a["shape"], fill_value=a["fill"], dtype=np.dtype(a["dtype"])), _g_iter, ("coo",), want="coo", fill="none"),
        _conv("as_coo(iterable, shape=)", lambda S, xs, a: S.as_coo(_iterable(a), shape=a["shape"], fill_value=a["fill"]), _g_iter, ("coo",), want="coo", fill="none", check_dtype=False),
        _conv("GCXS.from_iter", lambda S, xs, a: S.GCXS.from_iter(_iterable(a), shape=a["shape"], compressed_axes=a["compressed_axes"], fill_value=a["fill"]), _g_iter, ("gcxs",),
              want="gcxs", fill="none", check_dtype=False),
    ]
    return t




TABLES["C05"] = _c05_table()
QUICK["C05"] = 400
THOROUGH["C05"] = 5000


# ===============================================================================================================
# C04 — products: reflected and in-place matmul (list @ x, x @= y), the .dot method, and the element dtypes the quick tier
#       of C04 leaves out (bool, uint8/int8, float32, complex) incl. mixed pairs, for COO and GCXS against sparse / dense /
#       scipy right operands.  Zero fill, finite values (the property's premise).  Runs in a child process under a
#       deadline (run_in_child): "they always return" is part of the property.
# ===============================================================================================================

_C04_DT = ["bool", "uint8", "int8", "int64", "float32", "float64", "complex128"]
_C04_DT_QUICK = ["float64", "bool", "complex128", "uint8"]
MODE = {"quick": True}


def _g_prod(kind):
    def g(rng):
        import scipy.sparse as sps

        # every dtype pair compiles its own kernels (seconds each): the quick tier keeps to four element types the main check does not use
        pool = _C04_DT_QUICK if MODE["quick"] else _C04_DT
        dta = str(rng.choice(pool))
        dtb = dta if rng.random() < (0.85 if MODE["quick"] else 0.6) else str(rng.choice(pool))
        ext = [0, 1, 2, 2, 3, 4]
        if kind in ("dot", "matmul"):
            ra, rb = int(rng.integers(1, 4)), int(rng.integers(1, 4))
            k = int(rng.choice(ext))
            sa = tuple(int(rng.choice(ext)) for _ in range(ra - 1)) + (k,)
            if kind == "matmul" and ra > 2 and rb > 2:
                batch = sa[:-2]
                sb = tuple(b if rng.random() < 0.7 else 1 for b in batch[-(rb - 2):]) + (k, int(rng.choice(ext)))
            else:
                sb = ((k,) if rb == 1 else tuple(int(rng.choice(ext)) for _ in range(rb - 2)) + (k, int(rng.choice(ext))))
                if kind == "matmul" and rb > 2 and ra > 2:
                    return None
                if kind == "matmul" and rb > 2 and ra <= 2:
                    pass
        elif kind.startswith("2d"):
            k = int(rng.choice(ext))
            sa, sb = (int(rng.choice(ext)), k), (k, int(rng.choice(ext)))
        elif kind == "vecdot":
            r = int(rng.integers(1, 4))
            sa = tuple(int(rng.choice(ext)) for _ in range(r))
            sb = sa
        else:  # kron / outer
            sa = tuple(int(rng.choice([1, 2, 3])) for _ in range(int(rng.integers(1, 3))))
            sb = tuple(int(rng.choice([0, 1, 2, 3])) for _ in range(int(rng.integers(1, 3))))
        if int(np.prod(sa, dtype=np.int64)) > 200 or int(np.prod(sb, dtype=np.int64)) > 200:
            return None
        a = operand(rng, shape=sa, dtype=dta, fills=("zero",))
        b = operand(rng, shape=sb, dtype=dtb, fills=("zero",))
        other = str(rng.choice(["sparse", "sparse", "dense", "scipy"]))
        b["format"] = str(rng.choice(["coo", "gcxs"]))  # DOK is not an operand kind of the property
        if other == "dense":
            b = {"raw": b["dense"]}
        elif other == "scipy" and len(sb) == 2 and kind in ("dot", "matmul", "2d", "kron"):  # (C04 offers scipy operands to dot/matmul/tensordot/kron only)
            b = {"raw": (sps.csr_matrix if rng.random() < 0.5 else sps.csc_matrix)(b["dense"])}
        args = {"axis": int(rng.integers(-len(sa), len(sa))) if kind == "vecdot" else None}
        return {"operands": [a, b], "args": args, "mixed_formats": True}
    return g


def _dd(d):
    import scipy.sparse as sps

    return d.toarray() if sps.issparse(d) else d


def _prod(name, sp, ref, gen_, **kw):
    return Op(name, sp, ref, gen_, CG, fill="zero", tol=True, sparse_result=False, note="product", **kw)


def _sp_imatmul(S, xs, a):
    import copy

    z = copy.deepcopy(xs[0])
    z @= xs[1]
    return z


C04 = [
    _prod("x.dot(y)", lambda S, xs, a: xs[0].dot(xs[1]), lambda N, ds, a: N.dot(ds[0], _dd(ds[1])), _g_prod("dot")),
    _prod("sparse.dot", lambda S, xs, a: S.dot(xs[0], xs[1]), lambda N, ds, a: N.dot(ds[0], _dd(ds[1])), _g_prod("dot")),
    _prod("x @ y", lambda S, xs, a: xs[0] @ xs[1], lambda N, ds, a: N.matmul(ds[0], _dd(ds[1])), _g_prod("matmul")),
    _prod("sparse.matmul", lambda S, xs, a: S.matmul(xs[0], xs[1]), lambda N, ds, a: N.matmul(ds[0], _dd(ds[1])), _g_prod("matmul")),
    # (Python lists are not operands of the property: list @ x is rejected with TypeError by design; the reflected method is called with an ndarray)
    _prod("x.__rmatmul__(ndarray)", lambda S, xs, a: xs[0].__rmatmul__(_dd(xs[1]) if not isinstance(xs[1], S.SparseArray) else xs[1].todense()),
          lambda N, ds, a: N.matmul(_dd(ds[1]), ds[0]), lambda rng: _swap_for_r(_g_prod("2d")(rng))),
    _prod("ndarray @ x", lambda S, xs, a: (_dd(xs[1]) if not isinstance(xs[1], S.SparseArray) else xs[1].todense()) @ xs[0], lambda N, ds, a: N.matmul(_dd(ds[1]), ds[0]),
          lambda rng: _swap_for_r(_g_prod("2d")(rng))),
    _prod("x @= y (__imatmul__)", _sp_imatmul, lambda N, ds, a: N.matmul(ds[0], _dd(ds[1])), _g_prod("2d"), err_ok=("value", "type")),
    _prod("sparse.vecdot", lambda S, xs, a: S.vecdot(xs[0], xs[1], axis=a["axis"]), lambda N, ds, a: N.vecdot(ds[0], _dd(ds[1]), axis=a["axis"]), _g_prod("vecdot")),
    _prod("sparse.kron", lambda S, xs, a: S.kron(xs[0], xs[1]), lambda N, ds, a: N.kron(ds[0], _dd(ds[1])), _g_prod("kron")),
    _prod("sparse.outer", lambda S, xs, a: S.outer(xs[0], xs[1]), lambda N, ds, a: N.outer(ds[0], _dd(ds[1])), _g_prod("outer")),
    _prod("sparse.tensordot(axes=1)", lambda S, xs, a: S.tensordot(xs[0], xs[1], axes=1), lambda N, ds, a: N.tensordot(ds[0], _dd(ds[1]), axes=1), _g_prod("2d")),
    _prod("sparse.einsum(ij,jk->ik)", lambda S, xs, a: S.einsum("ij,jk->ik", xs[0], xs[1]), lambda N, ds, a: N.einsum("ij,jk->ik", ds[0], _dd(ds[1])), _g_prod("2d-noscipy")),
]


def _swap_for_r(spec):
    """reflected product: operand 0 stays the sparse array under test, operand 1 becomes the left factor (shapes (k,n) and (m,k))"""
    if spec is None:
        return None
    a, b = spec["operands"]
    bd = b["raw"] if "raw" in b else b["dense"]
    bd = _dd(bd)
    # a: (m,k), b: (k,n)  ->  left factor b^T: (n,k) ... simply use left = b.T (n,k) and x = a.T (k,m)
    ad = a["dense"].T.copy()
    spec["operands"] = [{"dense": ad, "fill": a["fill"]}, {"raw": np.ascontiguousarray(bd.T)}]
    return spec


TABLES["C04"] = C04
QUICK["C04"] = 150
THOROUGH["C04"] = 3000


# ===============================================================================================================
# C02 — indexing "of any format, however it was produced": element dtypes and fills the index generator of C02 never
#       sees (bool, narrow ints, float16/32, complex; nan / inf / -0.0 fills), arrays built through raw constructors
#       (unsorted coordinates with a repeat, narrow index dtypes, explicitly stored fill values, GCXS triples, DOK dicts)
# ===============================================================================================================

def _g_index(rng):
    import c02

    o = operand(rng, max_rank=4, nonfinite=True, max_size=200)
    idx, js = c02.rand_index(rng, o["dense"].shape)
    return {"operands": [o], "args": {"index": js, "_idx": idx}}


C02 = [Op("x[index]", lambda S, xs, a: xs[0][a["_idx"]], lambda N, ds, a: ds[0][a["_idx"]], _g_index, ALL, fill="same", scalar_rule=True, err_ok=("index",), note="index")]
TABLES["C02"] = C02
QUICK["C02"] = 700
THOROUGH["C02"] = 10000


# ===============================================================================================================
# C19 — asarray: dtype= / copy= / format= over sparse, dense, scipy and nested-list inputs; *_like with format= and shape=
# ===============================================================================================================

def _g_asarray(rng):
    import scipy.sparse as sps

    kind = str(rng.choice(["sparse", "sparse", "ndarray", "scipy", "list", "scalar"]))
    o = operand(rng, min_rank=2 if kind == "scipy" else (1 if kind == "list" else 0), max_rank=2 if kind == "scipy" else 3,
                dtypes=["bool", "int8", "int64", "uint8", "float32", "float64", "complex128"], fills=("zero",) if kind != "sparse" else ("zero", "nonzero", "nan"))
    a = {"dtype": str(rng.choice(["float64", "float32", "int64", "complex128", "bool", "int8"])) if rng.random() < 0.6 else None, "format": str(rng.choice(["coo", "gcxs", "dok"])),
         "copy": [None, True, False][int(rng.integers(3))], "kind": kind}
    if kind == "sparse":
        return {"operands": [o], "args": a}
    d = o["dense"]
    raw = d if kind == "ndarray" else (sps.csr_matrix(d) if kind == "scipy" else (d.tolist() if kind == "list" else (d.ravel()[0] if d.size else d.dtype.type(1))))
    if kind == "scalar":
        raw = raw.item() if rng.random() < 0.5 else raw
    return {"operands": [{"raw": raw}], "args": a}


def _sp_asarray(S, xs, a):
    kw = {"format": a["format"]}
    if a["dtype"]:
        kw["dtype"] = np.dtype(a["dtype"])
    if a["copy"] is not None:
        kw["copy"] = a["copy"]
    return S.asarray(xs[0], **kw)


def _ref_asarray(N, ds, a):
    d = _dd(ds[0])
    r = N.asarray(d)
    return r.astype(a["dtype"]) if a["dtype"] else r


def _custom_asarray(got, ref, xs, ds, a):
    import sparse

    cls = {"coo": sparse.COO, "gcxs": sparse.GCXS, "dok": sparse.DOK}[a["format"]]
    if not isinstance(got, cls):
        return f"result is {type(got).__name__}, format={a['format']!r} was requested"
    op = Op("asarray", None, None, None, fill="same" if isinstance(xs[0], sparse.SparseArray) else "zero", check_dtype=True)
    if isinstance(xs[0], sparse.SparseArray) and (a["dtype"] or xs[0].ndim == 0):
        op.fill = "none"
        ef = np.asarray(xs[0].fill_value).astype(a["dtype"] or xs[0].dtype)
        # (a 0-d array takes part in astype as a scalar: its fill value may become the element itself — nothing is stored, no element is wrong)
        if xs[0].ndim and not oracle.same_values(np.asarray(got.fill_value), ef):
            return f"fill value {got.fill_value!r}, expected {ef!r}"
    return compare_result(op, got, ref, xs, ds, a)


C19 = [Op("asarray", _sp_asarray, _ref_asarray, _g_asarray, ALL, custom=_custom_asarray, err_ok=("value", "type"), note="creation")]
TABLES["C19"] = C19
QUICK["C19"] = 300
THOROUGH["C19"] = 3000


# ---------------------------------------------------------------------------------------------------------------
# child-process execution (C04: "they always return" — a call that hangs must not hang the check)
# ---------------------------------------------------------------------------------------------------------------

class _ChildCtx:
    def __init__(self, seed, quick):
        self.seed, self.quick, self.cov = seed, quick, {}
        self.cases, self.fails = [], []

    def case(self, family, case, nontrivial=True):
        self.cases.append([family, nontrivial])

    def fail(self, leg, family, case, detail, finding=None):
        self.fails.append({"leg": leg, "family": family, "case": case, "detail": detail, "finding": finding})


def start_child(ctx, pid):
    """start TABLES[pid] in a subprocess (so that its calls overlap with the check's own work); finish_child collects it"""
    import os
    import subprocess
    import sys
    import tempfile
    import time

    fd, out = tempfile.mkstemp(prefix="extra_ops_", suffix=".json", dir="/var/tmp")
    os.close(fd)
    p = subprocess.Popen([sys.executable, os.path.abspath(__file__), pid, str(ctx.seed), "quick" if ctx.quick else "thorough", out], stdout=subprocess.DEVNULL, stderr=subprocess.PIPE, text=True)
    return {"proc": p, "out": out, "t0": time.time(), "pid": pid}


def run_in_child(ctx, pid, deadline=None):
    return finish_child(ctx, start_child(ctx, pid), deadline)


class _R:
    returncode = None
    stderr = ""


def finish_child(ctx, h, deadline=None):
    """wait for the child (deadline counted from its start); merge cases and failures into ctx"""
    import json
    import os
    import subprocess
    import time

    # A non-returning call shows as a child that makes NO PROGRESS (its progress file stops changing), not as a child that is slow:
    # the stall limit is stretched by the machine's load, the overall limit is only a safety net (load-induced false alarm otherwise)
    stall_base = deadline or (300 if ctx.quick else 600)
    overall = 3600 if ctx.quick else 14400
    out, pid, r = h["out"], h["pid"], _R()
    deadline = stall_base
    try:
        try:
            last_sig, last_change = None, time.time()
            while True:
                try:
                    _, err = h["proc"].communicate(timeout=2.0)
                    r.returncode, r.stderr = h["proc"].returncode, err or ""
                    break
                except subprocess.TimeoutExpired:
                    pass
                try:
                    st = os.stat(out + ".progress")
                    sig = (st.st_size, st.st_mtime_ns)
                except OSError:
                    sig = None
                now = time.time()
                if sig != last_sig:
                    last_sig, last_change = sig, now
                try:
                    stretch = max(1.0, os.getloadavg()[0] / (os.cpu_count() or 1))
                except OSError:
                    stretch = 1.0
                deadline = round(stall_base * stretch)
                if now - last_change > deadline or now - h["t0"] > overall:
                    raise subprocess.TimeoutExpired("extra_ops child", deadline)
        except subprocess.TimeoutExpired:
            h["proc"].kill()
            h["proc"].communicate()
            last = ""
            try:
                last = open(out + ".progress").read()[-600:]
            except OSError:
                pass
            case = {"extra": True, "op": "extra_ops child", "last_case": last}
            msg = f"the extra product calls made no progress for {deadline} s (a call does not return); last case started: {last[:300]}"
            ctx.fail("C", "extra_ops:timeout", case, msg, finding=findings.classify(pid, "extra_ops:timeout", case, msg))
            return 0
        try:
            blob = json.loads(open(out).read())
        except Exception:  # noqa: BLE001
            case = {"extra": True, "op": "extra_ops child"}
            ctx.fail("C", "extra_ops:crash", case, f"the child process died (rc={r.returncode}): {r.stderr[-300:]}")
            return 0
        for fam, nt in blob["cases"]:
            ctx.case(fam, {"extra": True, "family": fam, "n": ctx.cov["evaluations"]}, nontrivial=nt)
        for f in blob["fails"]:
            ctx.fail(f["leg"], f["family"], f["case"], f["detail"], finding=findings.classify(pid, f["family"], f["case"], f["detail"]))
        ctx.cov["extra_ops"] = blob["cov"].get("extra_ops")
        ctx.cov["extra_ops_pairs"] = blob["cov"].get("extra_ops_pairs")
        return len(blob["cases"])
    finally:
        for p in (out, out + ".progress"):
            try:
                os.unlink(p)
            except OSError:
                pass


if __name__ == "__main__":
    import json
    import os
    import sys

    sys.path.insert(0, os.path.dirname(os.path.abspath(__file__)))
    os.environ.setdefault("NUMBA_CACHE_DIR", "/var/tmp/verif-numba-cache")
    _pid, _seed, _tier, _out = sys.argv[1], int(sys.argv[2]), sys.argv[3], sys.argv[4]
    _c = _ChildCtx(_seed, _tier == "quick")
    _orig_judge = judge

    def judge(op, xs, ds, a, _j=_orig_judge):  # noqa: F811  (progress marker for the parent's timeout message)
        try:
            with open(_out + ".progress", "w") as f:
                f.write(json.dumps({"op": op.name, "operands": [str(getattr(x, "shape", None)) + ":" + str(getattr(x, "dtype", type(x).__name__)) for x in xs], "args": jsonable({k: v for k, v in a.items() if not k.startswith("_")})}))
        except OSError:
            pass
        return _j(op, xs, ds, a)

    run(_c, _pid)
    with open(_out, "w") as f:
        json.dump({"cases": _c.cases, "fails": _c.fails, "cov": _c.cov}, f, default=str)


# ===============================================================================================================
# C12 — DOK under sequences of assignments: element dtypes (bool, int8, uint8, int16, uint32, float16, complex) and fills
#       (nan, inf, -0.0, nonzero) beyond those of C12's model-checked histories; integer / slice (any step) keys with scalar
#       and broadcastable array values.  After the history: todense, to_coo, nnz == number of non-fill elements.
# ===============================================================================================================

def _g_history(rng):
    o = operand(rng, min_rank=1, max_rank=3, nonfinite=False, max_size=60)
    d, f = o["dense"], o["fill"]
    work = d.copy()
    hist = []
    for _ in range(int(rng.integers(1, 7))):
        n_axes = int(rng.integers(1, d.ndim + 1))
        key = []
        for ax in range(n_axes):
            dim = d.shape[ax]
            if rng.random() < 0.45 and dim:
                key.append(int(rng.integers(-dim, dim)))
            else:
                key.append(gen.rand_slice(rng, dim))
        key = tuple(key)
        tgt = work[key]
        r = rng.random()
        if r < 0.3:
            val = f  # assigning the fill value removes entries
        elif r < 0.6 or np.ndim(tgt) == 0:
            val = dense_values(rng, (), d.dtype, f, density=0.0 if rng.random() < 0.2 else 1.0)[0][()]
        else:
            shp = np.shape(tgt)
            vs = shp if rng.random() < 0.6 else tuple(1 if (e != 1 and rng.random() < 0.5) else e for e in shp)[int(rng.integers(0, len(shp))):]
            val = dense_values(rng, vs, d.dtype, f, density=float(rng.choice([0.3, 1.0])))[0]
        try:
            work[key] = val
        except Exception:  # noqa: BLE001  (not an assignment NumPy accepts: outside the history grammar)
            continue
        hist.append((key, val))
    return {"operands": [o], "args": {"history": [[jsonable(k), jsonable(v)] for k, v in hist], "_hist": hist}}


def _sp_history(S, xs, a):
    import copy

    x = copy.deepcopy(xs[0])
    for key, val in a["_hist"]:
        x[key] = val
    return x


def _ref_history(N, ds, a):
    w = ds[0].copy()
    for key, val in a["_hist"]:
        w[key] = val
    return w


def _custom_history(got, ref, xs, ds, a):
    import sparse

    if not isinstance(got, sparse.DOK):
        return f"result is {type(got).__name__}"
    p = impl.canonical_problem(got)
    if p:
        return f"DOK not consistent: {p}"
    t = got.todense()
    if t.shape != ref.shape or t.dtype != ref.dtype or not oracle.same_values(t, ref):
        return f"todense differs after the history: {t.tolist()!r:.160} numpy {ref.tolist()!r:.160} (dtype {t.dtype}/{ref.dtype})"
    c = got.to_coo().todense()
    if not oracle.same_values(c, ref):
        return f"to_coo differs after the history: {c.tolist()!r:.160} numpy {ref.tolist()!r:.160}"
    nonfill = int((~_is_fill(ref, got.fill_value)).sum())
    # (the operand itself may have been built with explicitly stored fill values only through DOK's own constructors, which drop them)
    if got.nnz != nonfill:
        return f"nnz {got.nnz} but {nonfill} elements differ from the fill value {got.fill_value!r}"
    if not oracle.same_values(np.asarray(got.fill_value), np.asarray(xs[0].fill_value)):
        return f"fill value changed to {got.fill_value!r}"
    return None


C12 = [Op("assignment history", _sp_history, _ref_history, _g_history, ("dok",), custom=_custom_history, note="dok-history")]
TABLES["C12"] = C12
QUICK["C12"] = 500
THOROUGH["C12"] = 8000

"""Regions of the known findings of C13 (KNOWN_FINDINGS.txt).

F-cache-iter — COO.transpose / COO.reshape iterate over the shared deque self._cache[...] while another thread's call
appends to it: RuntimeError('deque mutated during iteration').  Lean: SparseV.C13.cache_iter_race_counterexample; the region is the
decidable predicate Excluded_appendDuringIteration (an append executes while some thread is inside its lookup loop); outside it
no_new_errors_partial proves there is no error.  A failing case belongs to the finding only if
  * the failure is exactly that RuntimeError, raised by a call on a cache-enabled array with at least two threads, and
  * this run's replay of the Lean witness on the working tree reproduced the error (case["mode"] == "live"), and
  * for schedules replayed on the model: the model predicts the same outcome (leg A agrees) and the driver evaluates
    Excluded_appendDuringIteration to true on the schedule.
Anything else — another exception, a wrong value, an error on a tree where the witness no longer fails — is a VIOLATION."""
from __future__ import annotations

DEQUE_MSG = "deque mutated during iteration"


def classify(name, case, msg):
    if not ("RuntimeError" in msg and DEQUE_MSG in msg):
        return None
    if not (case.get("cached") and case.get("threads", 0) >= 2 and case.get("mode") == "live"):
        return None
    if name == "cache-schedule":
        return "F-cache-iter" if (case.get("model_agrees") and case.get("model_excluded")) else None
    if name == "stress":
        return "F-cache-iter" if "cached" in str(case.get("call", "")) or "tensordot" in str(case.get("call", "")) or "convert:chain" in str(case.get("call", "")) else None
    if name == "stress-free":
        return "F-cache-iter" if case.get("witness_reproduced") else None
    return None

"""Regions of the known findings of property C12 (see KNOWN_FINDINGS.txt).

`case` is what harness/c12.py attaches to a failing step: shape, fill, the history up to and including
the failing step (`ops`), `form` of the failing access, `lean_excluded` (the Lean driver evaluated
`Spec.Excluded shape op` on the failing assignment), `tainted` (the dict holds a key outside the shape).
A failure is attributed to a finding only if the Python region below AND the Lean predicate agree (for
assignments), so that anything else stays a VIOLATION.
"""
from __future__ import annotations


def _normalize_slice(start, stop, step, dim):
    """replace_none -> posify_index -> clip_slice of sparse/_slicing.py, transcribed"""
    if step is None:
        step = 1
    if step > 0:
        start = 0 if start is None else start
        stop = dim if stop is None else stop
    else:
        start = dim - 1 if start is None else start
        stop = -dim - 1 if stop is None else stop
    if start < 0:
        start += dim
    if stop < 0:
        stop += dim
    if step > 0:
        start, stop = max(start, 0), min(stop, dim)
        if start > stop:
            start = stop
    else:
        start, stop = min(start, dim - 1), max(stop, -1)
        if start < stop:
            start = stop
    return start, stop, step


def neg_step_start0(shape, key):
    """some slice of the key (short keys padded) has a negative step and a normalised start of 0 on an axis of extent > 1"""
    for p, dim in zip(key, shape):
        if isinstance(p, list):
            s = _normalize_slice(*p, dim)
            if s[2] < 0 and s[0] == 0 and dim > 1:
                return True
    return False


def raw_index(shape, idxs):
    return any(not (0 <= i < d) for l, d in zip(idxs, shape) for i in l)


def tuple_route(shape, op):
    """on a 1-d array a tuple of integers is routed to _fancy_setitem; returns the integers or None"""
    if op["form"] != "set" or len(shape) != 1 or op.get("ell"):
        return None   # (an Ellipsis in the key keeps it off that route)
    if op.get("bare") and len(op["key"]) == 1:
        return None
    if op["key"] and all(isinstance(p, int) for p in op["key"]):
        return list(op["key"])
    return None


def stores_raw(shape, op):
    """the assignment reaches _fancy_setitem with an entry outside [0, dim)"""
    if op["form"] == "fancy":
        return raw_index(shape, op["idxs"])
    t = tuple_route(shape, op)
    return t is not None and raw_index(shape, [t])


def classify(name, case, msg):
    ops = case.get("ops") or []
    if not ops:
        return None
    op = ops[-1]
    shape = case["shape"]
    form = case.get("form")
    lean = case.get("lean_excluded")
    accepted = "numpy accepts the assignment" in msg
    # a dict already holding an un-normalised key (stored by an earlier integer-list assignment of this history)
    stale = any(stores_raw(shape, o) for o in ops)
    if name.startswith("assign:"):
        if form == "mask" and lean and accepted and ("raised IndexError" in msg or "raised ValueError" in msg):
            return "F-dok-boolmask"
        if form == "fancy" and lean:
            if raw_index(shape, op["idxs"]) and not accepted:
                return "F-dok-fancy-raw-index"
            if len(op["idxs"][0]) == 0 and accepted and "raised IndexError" in msg:
                return "F-dok-fancy-empty"
            if op["vshape"] == [1] and len(op["idxs"][0]) != 1 and accepted and "raised ValueError" in msg:
                return "F-dok-fancy-bcast1"
        if form == "set" and lean and op["key"] == [] and not op.get("ell") and accepted and (
                "raised IndexError" in msg or "raised NotImplementedError" in msg):
            return "F-dok-empty-tuple-key"
        if form == "set" and lean and tuple_route(shape, op) is not None and stores_raw(shape, op) and not accepted:
            return "F-dok-fancy-raw-index"
        if form == "set" and lean and neg_step_start0(shape, op["key"]) and (
                msg.startswith("values differ") or (accepted and "raised IndexError" in msg)):
            # too many (or the wrong) elements are visited; with an array value that shows as an IndexError
            # from value[v_idx] after the first elements have been stored
            return "F-dok-negstep-start0"
        if case.get("tainted") and stale:
            return "F-dok-fancy-raw-index"
        return None
    if name.startswith("read:"):
        rd = case.get("read") or {}
        if case.get("tainted") and stale:
            return "F-dok-fancy-raw-index"
    return None

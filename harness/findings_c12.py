"""Regions of the known findings of property C12.

There are none: the seven defects this check found in DOK item assignment (negative step with start 0,
tuples of ints on 1-d arrays, the empty tuple, un-normalised / empty index lists, one-element values
for index lists, boolean masks) are repaired in /repo (KNOWN_FINDINGS.txt `fixed:` lines); their
witnesses stay in the corpus of harness/c12.py and must pass.  Every leg-C failure is a VIOLATION.
"""
from __future__ import annotations


def classify(name, case, msg):
    return None

"""Regions of the known findings of property C12 (see KNOWN_FINDINGS.txt).

`case` is what harness/c12.py attaches to a failing step: shape, fill, the history up to and including
the failing step (`ops`), `form` of the failing access, `lean_excluded` (the Lean driver evaluated
`Spec.Excluded shape op` on the failing assignment: the decidable region predicate the `_partial`
theorems exclude), `tainted` (the dict holds a key outside the shape).  A failing assignment is attributed
to a finding only if the Python region below AND the Lean predicate agree and the observed symptom is the
one the finding describes; anything else stays a VIOLATION.
"""
from __future__ import annotations


def _normalize_slice(start, stop, step, dim):
    """replace_none -> posify_index -> clip_slice of sparse/_slicing.py, transcribed"""
    if step is None:
        step = 1
    if step > 0:
        start = 0 if start is None else start
        stop = dim if stop is None else stop
    else:
        start = dim - 1 if start is None else start
        stop = -dim - 1 if stop is None else stop
    if start < 0:
        start += dim
    if stop < 0:
        stop += dim
    if step > 0:
        start, stop = max(start, 0), min(stop, dim)
        if start > stop:
            start = stop
    else:
        start, stop = min(start, dim - 1), max(stop, -1)
        if start < stop:
            start = stop
    return start, stop, step


def neg_step_start0(shape, key):
    """Excluded_negStepStart0: some slice of the key has a negative step and a normalised start of 0 on an axis of extent > 1"""
    for p, dim in zip(key, shape):
        if isinstance(p, list) and p[2] != 0:
            s = _normalize_slice(*p, dim)
            if s[2] < 0 and s[0] == 0 and dim > 1:
                return True
    return False


def raw_index(shape, idxs):
    """Excluded_fancyRawIndex: some entry of an index list outside [0, dim)"""
    return any(not (0 <= i < d) for l, d in zip(idxs, shape) for i in l)


def tuple_route(shape, op):
    """on a 1-d array a tuple of integers is routed to _fancy_setitem; returns the integers or None"""
    if op["form"] != "set" or len(shape) != 1 or op.get("ell"):
        return None   # (an Ellipsis in the key keeps it off that route)
    if op.get("bare") and len(op["key"]) == 1:
        return None
    if op["key"] and all(isinstance(p, int) for p in op["key"]):
        return list(op["key"])
    return None


def stores_raw(shape, op):
    """the assignment reaches _fancy_setitem with an entry outside [0, dim): finding id, else None"""
    if op["form"] == "fancy":
        return "F-dok-fancy-raw-index" if raw_index(shape, op["idxs"]) else None
    t = tuple_route(shape, op)
    if t is not None and (len(t) != 1 or raw_index(shape, [t])):
        return "F-dok-1d-int-tuple"
    return None


def classify(name, case, msg):
    ops = case.get("ops") or []
    if not ops:
        return None
    op = ops[-1]
    shape = case["shape"]
    form = case.get("form")
    lean = case.get("lean_excluded")
    accepted = "numpy accepts the assignment" in msg          # DOK raised, NumPy did not
    # an earlier assignment of this history left a key outside the shape in the dict
    stale = next((f for f in (stores_raw(shape, o) for o in ops) if f), None)
    if name.startswith("assign:"):
        if form == "mask" and lean and accepted and ("raised IndexError" in msg or "raised ValueError" in msg):
            return "F-dok-boolmask"
        if form == "fancy" and lean:
            if raw_index(shape, op["idxs"]) and not accepted:
                return "F-dok-fancy-raw-index"
            if len(op["idxs"][0]) == 0 and accepted and "raised IndexError" in msg:
                return "F-dok-fancy-empty"
            if op["vshape"] == [1] and len(op["idxs"][0]) != 1 and accepted and "raised ValueError" in msg:
                return "F-dok-fancy-bcast1"
        if form == "set" and lean:
            if op["key"] == [] and not op.get("ell") and accepted and (
                    "raised IndexError" in msg or "raised NotImplementedError" in msg):
                return "F-dok-empty-tuple-key"
            t = tuple_route(shape, op)
            if t is not None and not accepted and (len(t) != 1 or raw_index(shape, [t])):
                # d[-1,] / d[7,] stored as given (values or nnz differ, todense fails); d[1, 2] accepted
                return "F-dok-1d-int-tuple"
            if neg_step_start0(shape, op["key"]) and (
                    msg.startswith("values differ") or (accepted and "raised IndexError" in msg)):
                # too many (or the wrong) elements are visited; with an array value that shows as an IndexError
                # from value[v_idx] after the first elements have been stored
                return "F-dok-negstep-start0"
        if case.get("tainted") and stale:
            return stale
        return None
    if name.startswith("read:"):
        if case.get("tainted") and stale:
            return stale
    return None
